(* GoAstProofs8a.v -- source ties for the CONSTRUCTORS and ONE-SHOT entry points of the three senders
   (/repo/encrypt.go, sign.go, signcrypt_seal.go): newEncryptStream, NewEncryptStream, receiversToEphemeralKeyCreator,
   seal, Seal; NewSignStream, NewSignDetachedStream, signToStream, Sign, SignDetached; newSigncryptSealStream,
   NewSigncryptSealStream, signcryptSeal, SigncryptSeal -- as translated from /repo's Go syntax trees (gen/GoAstEntry.v)
   and run by the evaluator of model/GoLang2.v.  The methods they call are externs whose meaning is the SPECIFICATION
   FUNCTION the callee's own tie proves (es_init / es_write / es_close of GoAstProofs5a; sas_new / sds_new / sas_write /
   sas_close of 6a; sss_init / sss_write / sss_close of 6b); the compose_* lemmas show that meaning IS the outcome of the
   translated callee.

   ENCODINGS.  As in 5a / 6a / 6b: versions g_version, keys g_sk / g_rcpt / g_sym, the optional sender g_sender /
   g_signer, stream objects g_es / g_sas / g_sds / g_sss, error values gerr.  The output io.Writer of a constructor is
   an ARBITRARY value W; newEncoder(W) is the same object (its state is the writer's, as in 6a.ext_new), and
   encoder.Encode is the parameter [enc_step] of the callee's tie, so the constructor lemmas hold for every writer,
   failing or not.  RANDOMNESS.  newEncryptStream / newSigncryptSealStream take the explicit objects of 5a / 6b (key
   creator = VBytes rb, rng = g_rng ra rc: the source each draw reads) and the lemmas state what is left in them.  The
   exported functions pass receivers[0] / the caller's key creator and defaultEncryptRNG{} / defaultSigncryptRNG{} (the
   empty struct), whose draws come from crypto/rand: their externs are INDEXED by the sources (ra, rb, rc) that
   crypto/rand delivers to the three draws (as 6a.ext_new r is for the signature nonce).
   THE COMPOSITE LITERALS.  &encryptStream{version, output, encoder} and &signcryptSealStream{version, output, encoder,
   signingKey} reach the evaluator with the omitted fields of basic type listed with zero values, WITHOUT the field
   `buffer` (a bytes.Buffer, a struct of another package: the translator does not list it) and in the literal's field
   order, which is not the order of g_es / g_sss (the objects the method ties 5a / 6b are stated on; they have no
   `output` field, which no method reads).  The externs encryptStream.init / signcryptSealStream.init read the literal
   object BY ITS FIELDS ([es_of_lit], [sss_of_lit]: buffer = empty, output dropped) and return the object in the layout
   g_es / g_sss; compose_encryptStream_init / compose_signcryptSealStream_init: on an object o denoting the state st the
   results are those of the translated init on g_es st / g_sss st.  (The same completion as 6a.sas_complete for the
   signing literal.)  This re-layout is the one step between the constructor and the method ties that is an encoding
   convention and not a theorem: the evaluator itself cannot run Write on the literal object (es.buffer is absent).

   TARGETS (all Qed; Print Assumptions: closed under the global context)
   Encryption (C01):
   - go_receiversToEphemeralKeyCreator: for EVERY list l of values and every extern table the function returns
       (nil, ErrBadReceivers) if l is empty, else (l[0], nil) ([rtekc]).  No hypothesis.  (_nil: the nil slice.)
   - go_newEncryptStream: newEncryptStream(version, W, sender, receivers, keyCreator, rng) = es_init on the FRESH state
       [fresh_st v W] (version v, encoder over W, 32 / 64 zero bytes of payloadKey / headerHash, no MAC keys, counter 0,
       no error, empty buffer): returns (g_es st', nil) with st' the state es_init leaves -- the object the ties of
       Write / Close (5a) and the sessions of GoEndToEndEnc.v start from --, or (nil, err) with es_init's error value;
       OStuck "call" exactly where es_init is IStuck (>= 2^31 receivers: csprngShuffle panics, the evaluator cannot
       propagate a callee's panic); and the sources left in rng / ephemeralKeyCreator.  No hypothesis.
       [nes_outcome] is that outcome as a function; go_newEncryptStream_outcome the corollary for fst.
       nes_session_start: with the in-memory writer the returned object is what GoEndToEndEnc.go_es_init returns on
       g_es (fresh_st v (VBytes out0)), and fresh_es v out0 holds of that state: go_encrypt_session / es_full_session_model /
       go_encrypt_end_to_end* apply to sessions started at the exported constructor.
   - go_NewEncryptStream: NewEncryptStream(version, W, sender, receivers) = ErrBadReceivers for an empty list, else
       nes_outcome on the sources (ra, rb, rc) of crypto/rand.  No hypothesis.  go_NewEncryptStream_wrap: the same control
       flow for EVERY meaning of the callee newEncryptStream.
   - go_seal_glue: seal(...) for EVERY behaviour (NEW, WR, CL, BY) of newEncryptStream, es.Write, es.Close and
       buf.Bytes: the first error of the three calls is returned with nil; else (BY applied to the value the
       constructor call left in the variable buf, nil).  No hypothesis.  See NOT EXPRESSIBLE.
   - go_seal_aliased: with the callees read as the specification functions over the in-memory writer (NEW_seal, WR_es,
       CL_es; compose_NEW_seal / compose_WR_es / compose_CL_es) the translated seal returns [seal_spec] (constructor;
       Write(plaintext); Close; the writer's bytes | the first error), PROVIDED buf.Bytes() returns the bytes the
       stream's writer holds at the end -- hypothesis: the sharing of the bytes.Buffer between the variable buf and
       es.encoder, which the evaluator cannot express.  go_seal_stale: with the faithful Buffer.Bytes (a function of
       the value in buf) the evaluator returns the header packet only.
   - seal_spec_model: seal_spec = (model's seal bytes, nil) whenever the model's seal (seal_stream on [plaintext])
       returns Ok.  Hypotheses: ok_sb_len; at most 2^31-1 receivers (else the shuffle panics); plaintext of at most
       295 MiB (the evaluator's loop bound for one Write); sources = model_sources (one stream read in program order).
     seal_spec_model_err: if init fails, seal_spec = (nil, that error) and the model fails with the same class.
   - go_Seal: Seal(version, plaintext, sender, receivers) for EVERY meaning of seal: ErrBadReceivers for an empty list,
       else seal(version, plaintext, sender, receivers, receivers[0], defaultEncryptRNG{}).  No hypothesis.
     go_Seal_spec: with seal = seal_spec it returns seal_spec.
   Signing (C05 / C07):
   - go_NewSignStream / go_NewSignDetachedStream: = sas_new / sds_new of 6a (every return value, every writer); r is
       what crypto/rand delivers to the header nonce.  No hypothesis.  compose_newSignAttachedStream / _Detached: that
       extern IS the translated constructor (6a).  (Go returns a non-nil interface holding a nil pointer together with
       an error; the evaluator has one nil.)
   - go_signToStream_glue: signToStream for an ARBITRARY streamer (NEW) and every behaviour of Write / Close: first
       error, or (&buf = the value the streamer call left in buf, nil).  No hypothesis.  See NOT EXPRESSIBLE.
   - go_Sign / go_SignDetached: for EVERY meaning of signToStream and Buffer.Bytes: (nil, err) or (buf.Bytes(), nil), the
       callee being handed the function value NewSignStream / NewSignDetachedStream ("func:..." strings).
     go_Sign_spec / go_SignDetached_spec: with signToStream = sign_att_spec / sign_det_spec (dispatch on the function
       value) they return exactly those.
   - sign_att_spec_model / sign_det_spec_model: the specification sessions return (the model's sign_attached /
       sign_detached bytes, nil) when the model returns Ok.  Hypotheses (attached): fewer than 297 packets (evaluator
       fuel of one Write) and packets + 2 < 2^64 (uint64 seqno), as 6a.sas_session_model.
   Signcryption (C03):
   - go_newSigncryptSealStream: = sss_init on [fresh_sss W signer] (Version2(), 32 / 64 zero bytes, counter 0): (g_sss
       st', nil) | (nil, err) | OStuck "call" where init panics (signer's public key not 32 bytes), and the sources
       left.  No hypothesis.  [nsss_outcome], go_newSigncryptSealStream_outcome, nsss_session_start (as above, for
       GoEndToEndEnc.go_sss_init / fresh_sss).
   - go_NewSigncryptSealStream / go_SigncryptSeal: the exported wrappers for EVERY meaning of the callee (argument
       order permuted, defaultSigncryptRNG{} appended); _spec: with nsss_outcome / signcryptSeal_spec as the meaning.
   - go_signcryptSeal_glue / _aliased / _stale, signcryptSeal_spec_model: as for seal (hypotheses ok_sb_len, ok_sig_len,
       plaintext <= 295 MiB).
   - compose_*: encryptStream_init, WR_es, CL_es, newEncryptStream, receiversToEphemeralKeyCreator, NEW_seal,
       newSignAttachedStream, newSignDetachedStream, signcryptSealStream_init, WR_sss, CL_sss: the meaning the extern
       tables of this file give to a callee is the outcome (results, receiver / sources written back; no value exactly
       where the callee is stuck or panics) of the callee's translated term under the externs of its own tie.
       Hypothesis of the two init forms: the object handed over denotes the state (es_of_lit o = Some st).
   Sessions started at the exported constructors:
   - go_encrypt_session_from_NewEncryptStream, go_signcrypt_session_from_NewSigncryptSealStream: if the exported
       constructor (in-memory writer) returns (obj, nil) then GoEndToEndEnc.go_encrypt_session / go_signcrypt_session on
       the fresh object (fresh_es / fresh_sss hold of it) IS Write* ; Close run from obj: the end-to-end theorems of
       GoEndToEndEnc.v apply to sessions opened by NewEncryptStream / NewSigncryptSealStream.  No other hypothesis.
   - go_sign_session_from_NewSignStream, go_sds_open_from_NewSignDetachedStream: GoEndToEndSign.go_sign_session /
       go_sds_open, which start at the unexported constructors, equal the same sessions started at NewSignStream /
       NewSignDetachedStream.  No hypothesis.
   Error classes of the one-shot specification sessions:
   - sign_spec_model_err: unknown version / fewer than 16 random bytes: sign_att_spec and sign_det_spec return
       (nil, ErrBadVersion{v}) / (nil, ErrRand) and the model's sign_attached / sign_detached fail with that class.
   - signcryptSeal_spec_model_err: a receivers list refused by sc_check_receivers gives (nil, the error value of
       checkSigncryptReceivers) and the model fails with that class; a failing draw gives (nil, ErrRand) in both.
   - seal_spec_model_err (above): every error of init.  (ErrPacketOverflow needs 2^64 packets; not reachable within the
       evaluator's bound of 295 MiB per Write.)

   NOT EXPRESSIBLE in model/GoLang2.v (reported, not worked around): the bodies of seal, signToStream, signcryptSeal.
     `var buf bytes.Buffer; s, err := newX(.., &buf, ..); s.Write(p); s.Close(); return buf.Bytes()` (signToStream:
     `return &buf`).  Values of the evaluator are trees without references: `&buf` (EAddr "buf") hands the callee a COPY of
     buf's value, call_assign writes results back only to the argument places of THAT call, and the places of
     `WriteCloser.Write [EVar s; EVar plaintext]` / `WriteCloser.Close [EVar s]` are s and plaintext.  So nothing the
     stream writes after the constructor returns can reach the variable buf, and the final `Buffer.Bytes [EVar buf]` /
     `EAddr buf` reads the copy the constructor call left: for EVERY extern table the returned bytes are a function of
     the constructor's results alone (go_*_glue: [fin_bytes BY b], b = third component of NEW), never of the plaintext;
     with faithful externs: the header packet (go_seal_stale, go_signcryptSeal_stale).  Missing: reference values / a
     heap, or a translator convention passing `buf` as a further place of Write / Close.  What is expressible is proved:
     the control flow for arbitrary callees (glue), the composition of the specification functions against the model
     (seal_spec_model, sign_*_spec_model, signcryptSeal_spec_model), and for seal / signcryptSeal the tie with the
     sharing stated as an explicit hypothesis on Buffer.Bytes (_aliased).  For signToStream even that is impossible
     (the stale copy itself is returned); Sign / SignDetached take signToStream's meaning as sign_*_spec.
   EUnsup / SUnsup: none in the fourteen terms.  A package-level function used as a value is the string "func:Name";
   `streamer(...)` is the extern "streamer" whatever the value of the variable (arbitrary NEW in go_signToStream_glue). *)
From Coq Require Import List String NArith ZArith Bool Lia.
From Coq.Strings Require Import Byte.
From SP Require Import Bytes Consts Params Msgpack Crypto Errors Nonce Packets Chunker Rand Encrypt Sign Signcrypt
                       GoLang GoLang2 GoAst RandProofs ChunkerProofs GoAstProofs GoAstProofs2 GoAstProofs3.
From SP Require Import GoAstSend GoAstSign GoAstEntry GoAstProofs5a GoAstProofs5c.
From SP Require GoAstProofs6a GoAstProofs6b GoAstProofs7c GoEndToEndEnc GoEndToEndSign.
Import ListNotations.
Local Open Scope string_scope.
Module A := GoAstProofs6a.
Module B := GoAstProofs6b.
Module E := GoEndToEndEnc.

(* ---------- stepping: the constants this file keeps folded ---------- *)
Ltac ev_in5 h ::=
  eval cbv -[Z.eqb Z.ltb Z.leb Z.add Z.sub Z.mul Z.modulo Z.rem Z.quot Z.shiftr Z.shiftl Z.opp
             Z.land Z.lor Z.lxor Z.lnot Z.of_nat Z.of_N Z.to_nat Z.to_N List.length nth_error
             firstn skipn bytes_eqb' bytes_eqb Byte.to_N Byte.of_N N.mul N.ltb N.eqb N.add N.leb b2n n2b Nat.eqb
             Nat.leb Nat.ltb N.div N.modulo nth map app repeat
             sha512 hmac512 sb_open sb_seal dh_shared dh_pub box_seal box_open
             mp_encode version_eqb v1 v2 blk
             es_init es_write es_close g_es g_rcpt as_rcpts g_mks
             range_loop2 for_loop2 exec2] in h.

Definition as_sender (v : gval) : option (option bytes) :=
  match v with VNil => Some None | VStruct [("sk", VBytes s)] => Some (Some s) | _ => None end.
Lemma as_sender_g (s : option bytes) : as_sender (g_sender s) = Some s.
Proof. destruct s; reflexivity. Qed.

(* ================= receiversToEphemeralKeyCreator ================= *)
Definition ext_none : externs := fun _ _ => None.

Definition rtekc (l : list gval) : list gval :=
  match l with [] => [VNil; VErr "ErrBadReceivers" []] | r0 :: _ => [r0; VNil] end.

(* (TARGET) *)
Lemma go_receiversToEphemeralKeyCreator (ext : externs) (l : list gval) :
  fst (run_func2 ext f_saltpack_receiversToEphemeralKeyCreator [VList l]) = ORet (rtekc l).
Proof.
  start5 f_saltpack_receiversToEphemeralKeyCreator.
  destruct l as [|r0 l]; cbn [rtekc].
  - steps5 ext. reflexivity.
  - steps5 ext. 
    replace (Z.of_nat (List.length (r0 :: l)) =? 0)%Z with false by (cbn [List.length]; lia). cbv beta iota.
    steps5 ext. reflexivity.
Qed.
Lemma go_receiversToEphemeralKeyCreator_nil (ext : externs) :
  fst (run_func2 ext f_saltpack_receiversToEphemeralKeyCreator [VNil]) = ORet [VNil; VErr "ErrBadReceivers" []].
Proof. reflexivity. Qed.

Ltac ev_in5 h ::=
  eval cbv -[Z.eqb Z.ltb Z.leb Z.add Z.sub Z.mul Z.modulo Z.rem Z.quot Z.shiftr Z.shiftl Z.opp
             Z.land Z.lor Z.lxor Z.lnot Z.of_nat Z.of_N Z.to_nat Z.to_N List.length nth_error
             firstn skipn bytes_eqb' bytes_eqb Byte.to_N Byte.of_N N.mul N.ltb N.eqb N.add N.leb b2n n2b Nat.eqb
             Nat.leb Nat.ltb N.div N.modulo nth map app repeat
             sha512 hmac512 sb_open sb_seal dh_shared dh_pub box_seal box_open
             mp_encode version_eqb v1 v2 blk
             es_init es_write es_close g_es g_rcpt as_rcpts g_mks
             range_loop2 for_loop2 exec2] in h.

(* the object the composite literal of newEncryptStream builds, read as an es_state *)
Definition es_of_lit (o : gval) : option es_state :=
  match o with
  | VStruct [("version", ver); ("output", _); ("encoder", w); ("payloadKey", VBytes pk); ("headerHash", VBytes hh);
             ("macKeys", mk); ("numBlocks", VInt n); ("err", ev)] =>
    match as_version ver, as_mks mk, as_errv ev with
    | Some v, Some mks, Some e => if Z.ltb n 0 then None else Some (mkEs v w pk [] hh mks (Z.to_N n) e)
    | _, _, _ => None
    end
  | _ => None
  end.

Definition fresh_st (v : version) (w : gval) : es_state :=
  mkEs v w (repeat x00 32) [] (repeat x00 64) [] 0 None.

(* a run that ends in `return vals`, with the two random sources left in the environment *)
Ltac run_ret_src F vals RNG EK script :=
  unfold run_func2; cbn [f_params f_results F bind_params app];
  change (@map (string * string) (string * gval) _ []) with (@nil (string * gval)); cbn [app];
  lazymatch goal with
  | |- context [exec2 ?X 300 ?e ?b] =>
    let Hrun := fresh "Hrun" in
    assert (Hrun : exists env', exec2 X 300 e b = CRet vals env' /\
                                lookup "rng" env' = Some RNG /\ lookup "ephemeralKeyCreator" env' = Some EK);
    [ eexists; split; [ cbv beta iota zeta delta [f_body F]; script | split; exact eq_refl ]
    | let env' := fresh "env'" in let Hr := fresh "Hr" in let Hk := fresh "Hk" in
      destruct Hrun as (env' & Hrun & Hr & Hk); rewrite Hrun; cbn [fst snd];
      split; [reflexivity|split; [exact Hr|exact Hk]] ]
  end.

Section Enc.
Variable c : crypto.
Variable enc_step : gval -> bytes -> gval * gerr.

Definition ext_nes : externs := fun fn args =>
  if String.eqb fn "newEncoder" then match args with [w] => Some [w] | _ => None end
  else if String.eqb fn "encryptStream.init" then
    match args with
    | [o; ver; sd; VList l; VBytes rb; VStruct [("shuffle", VBytes ra); ("key", VBytes rc)]] =>
      match es_of_lit o, as_version ver, as_sender sd, as_rcpts l with
      | Some st, Some v, Some sender, Some rcpts =>
        match es_init c enc_step st v sender rcpts ra rb rc with
        | IRet e st' ra' rb' rc' => Some [g_errv e; g_es st'; ver; sd; VList l; VBytes rb'; g_rng ra' rc']
        | IStuck _ => None
        end
      | _, _, _, _ => None
      end
    | _ => None
    end
  else None.

(* (TARGET) *)
Lemma go_newEncryptStream (v : version) (W : gval) (sender : option bytes) (rcpts : list rcpt) (ra rb rc : rng) :
  let r := run_func2 ext_nes f_saltpack_newEncryptStream
                     [g_version v; W; g_sender sender; VList (map g_rcpt rcpts); VBytes rb; g_rng ra rc] in
  match es_init c enc_step (fresh_st v W) v sender rcpts ra rb rc with
  | IStuck _ => fst r = OStuck "call"
  | IRet e st' ra' rb' rc' =>
    fst r = ORet (match e with None => [g_es st'; VNil] | Some _ => [VNil; g_errv e] end) /\
    lookup "rng" (snd r) = Some (g_rng ra' rc') /\ lookup "ephemeralKeyCreator" (snd r) = Some (VBytes rb')
  end.
Proof.
  cbv zeta. destruct v as [ma mi].
  pose proof (as_rcpts_map rcpts) as Hrc.
  destruct (es_init c enc_step (fresh_st (mkV ma mi) W) (mkV ma mi) sender rcpts ra rb rc) as [w|e st' ra' rb' rc'] eqn:Hi.
  - start5 f_saltpack_newEncryptStream. unfold g_rng. unfold rcpt, bytes in *. destruct sender; cbn [g_sender g_sk]; steps5 ext_nes.
    all: rewrite_head5 Hi; steps5 ext_nes; reflexivity.
  - unfold g_rng. unfold rcpt, bytes in *.
    destruct e as [[en ea]|]; cbn [g_errv]; destruct sender; cbn [g_sender g_sk].
    + run_ret_src f_saltpack_newEncryptStream [VNil; VErr en ea] (VStruct [("shuffle", VBytes ra'); ("key", VBytes rc')]) (VBytes rb')
        ltac:(steps5 ext_nes; rewrite_head5 Hi; steps5 ext_nes; reflexivity).
    + run_ret_src f_saltpack_newEncryptStream [VNil; VErr en ea] (VStruct [("shuffle", VBytes ra'); ("key", VBytes rc')]) (VBytes rb')
        ltac:(steps5 ext_nes; rewrite_head5 Hi; steps5 ext_nes; reflexivity).
    + run_ret_src f_saltpack_newEncryptStream [g_es st'; VNil] (VStruct [("shuffle", VBytes ra'); ("key", VBytes rc')]) (VBytes rb')
        ltac:(steps5 ext_nes; rewrite_head5 Hi; steps5 ext_nes; reflexivity).
    + run_ret_src f_saltpack_newEncryptStream [g_es st'; VNil] (VStruct [("shuffle", VBytes ra'); ("key", VBytes rc')]) (VBytes rb')
        ltac:(steps5 ext_nes; rewrite_head5 Hi; steps5 ext_nes; reflexivity).
Time Qed.
Definition nes_outcome (v : version) (W : gval) (sender : option bytes) (rcpts : list rcpt) (ra rb rc : rng) : outcome :=
  match es_init c enc_step (fresh_st v W) v sender rcpts ra rb rc with
  | IStuck _ => OStuck "call"
  | IRet None st' _ _ _ => ORet [g_es st'; VNil]
  | IRet (Some e) _ _ _ _ => ORet [VNil; g_errv (Some e)]
  end.
End Enc.

Ltac ev_in5 h ::=
  eval cbv -[Z.eqb Z.ltb Z.leb Z.add Z.sub Z.mul Z.modulo Z.rem Z.quot Z.shiftr Z.shiftl Z.opp
             Z.land Z.lor Z.lxor Z.lnot Z.of_nat Z.of_N Z.to_nat Z.to_N List.length nth_error
             firstn skipn bytes_eqb' bytes_eqb Byte.to_N Byte.of_N N.mul N.ltb N.eqb N.add N.leb b2n n2b Nat.eqb
             Nat.leb Nat.ltb N.div N.modulo nth map app repeat
             sha512 hmac512 sb_open sb_seal dh_shared dh_pub box_seal box_open
             mp_encode version_eqb v1 v2 blk
             es_init es_write es_close g_es g_rcpt as_rcpts g_mks nes_outcome
             range_loop2 for_loop2 exec2] in h.

Section Enc2.
Variable c : crypto.
Variable enc_step : gval -> bytes -> gval * gerr.

Lemma go_newEncryptStream_outcome (v : version) (W : gval) (sender : option bytes) (rcpts : list rcpt) (ra rb rc : rng) :
  fst (run_func2 (ext_nes c enc_step) f_saltpack_newEncryptStream
                 [g_version v; W; g_sender sender; VList (map g_rcpt rcpts); VBytes rb; g_rng ra rc])
  = nes_outcome c enc_step v W sender rcpts ra rb rc.
Proof.
  pose proof (go_newEncryptStream c enc_step v W sender rcpts ra rb rc) as H. cbv zeta in H. unfold nes_outcome.
  destruct (es_init c enc_step (fresh_st v W) v sender rcpts ra rb rc) as [w|[e|] st' ra' rb' rc']; [exact H| |]; destruct H as [H _]; exact H.
Qed.

Section Sources.
Variables ra rb rc : rng.

Definition ext_NES : externs := fun fn args =>
  if String.eqb fn "receiversToEphemeralKeyCreator" then
    match args with [VList l] => Some (rtekc l) | [VNil] => Some (rtekc []) | _ => None end
  else if String.eqb fn "newEncryptStream" then
    match args with
    | [ver; w; sd; VList l; _; VStruct []] =>
      match as_version ver, as_sender sd, as_rcpts l with
      | Some v, Some sender, Some rcpts =>
        match nes_outcome c enc_step v w sender rcpts ra rb rc with ORet vs => Some vs | _ => None end
      | _, _, _ => None
      end
    | _ => None
    end
  else None.

(* (TARGET) *)
Lemma go_NewEncryptStream (v : version) (W : gval) (sender : option bytes) (rcpts : list rcpt) :
  fst (run_func2 ext_NES f_saltpack_NewEncryptStream [g_version v; W; g_sender sender; VList (map g_rcpt rcpts)])
  = match rcpts with
    | [] => ORet [VNil; VErr "ErrBadReceivers" []]
    | _ => nes_outcome c enc_step v W sender rcpts ra rb rc
    end.
Proof.
  destruct v as [ma mi]. pose proof (as_rcpts_map rcpts) as Hrc. unfold rcpt, bytes in *.
  start5 f_saltpack_NewEncryptStream.
  destruct rcpts as [|r0 rcpts].
  - cbn [map]. steps5 ext_NES. reflexivity.
  - cbn [map] in *. unfold nes_outcome.
    destruct (es_init c enc_step (fresh_st (mkV ma mi) W) (mkV ma mi) sender (r0 :: rcpts) ra rb rc) as [w|[[en ea]|] st' ra' rb' rc'] eqn:Hi;
      destruct sender; cbn [g_sender g_sk]; steps5 ext_NES; unfold nes_outcome; rewrite_head5 Hi; steps5 ext_NES; reflexivity.
Time Qed.
End Sources.
End Enc2.

Ltac ev_in5 h ::=
  eval cbv -[Z.eqb Z.ltb Z.leb Z.add Z.sub Z.mul Z.modulo Z.rem Z.quot Z.shiftr Z.shiftl Z.opp
             Z.land Z.lor Z.lxor Z.lnot Z.of_nat Z.of_N Z.to_nat Z.to_N List.length nth_error
             firstn skipn bytes_eqb' bytes_eqb Byte.to_N Byte.of_N N.mul N.ltb N.eqb N.add N.leb b2n n2b Nat.eqb
             Nat.leb Nat.ltb N.div N.modulo nth map app repeat
             sha512 hmac512 sb_open sb_seal dh_shared dh_pub box_seal box_open
             mp_encode version_eqb v1 v2 blk
             es_init es_write es_close g_es g_rcpt as_rcpts g_mks nes_outcome
             range_loop2 for_loop2 exec2] in h.

(* ================= the one-shot functions: control flow for EVERY behaviour of the callees ================= *)
Section OneShotGlue.
Variable NEW : list gval -> option (gval * gerr * gval).   (* stream object, error, the value written back into buf *)
Variable WR : gval -> gval -> option (gval * gerr * gval).  (* count, error, stream object afterwards *)
Variable CL : gval -> option (gerr * gval).                 (* error, stream object afterwards *)
Variable BY : gval -> option gval.                          (* Buffer.Bytes on the value of the variable buf *)
Variable new_name : string.
Variable echo : nat.    (* the number of argument places before &buf: their values are echoed *)

Definition ext_glue : externs := fun fn args =>
  if String.eqb fn new_name then
    match NEW args with Some (es, e, b) => Some ([es; g_errv e] ++ firstn echo args ++ [b])%list | None => None end
  else if String.eqb fn "WriteCloser.Write" then
    match args with [s; p] => match WR s p with Some (n, e, s') => Some [n; g_errv e; s'] | None => None end | _ => None end
  else if String.eqb fn "WriteCloser.Close" then
    match args with [s] => match CL s with Some (e, s') => Some [g_errv e; s'] | None => None end | _ => None end
  else if String.eqb fn "Buffer.Bytes" then
    match args with [b] => match BY b with Some x => Some [x] | None => None end | _ => None end
  else None.

Definition glue_outcome (args : list gval) (P : gval) (fin : gval -> outcome) : outcome :=
  match NEW args with
  | None => OStuck "call"
  | Some (_, Some e, _) => ORet [VNil; g_errv (Some e)]
  | Some (es, None, b) =>
    match WR es P with
    | None => OStuck "call"
    | Some (_, Some e, _) => ORet [VNil; g_errv (Some e)]
    | Some (_, None, es1) =>
      match CL es1 with
      | None => OStuck "call"
      | Some (Some e, _) => ORet [VNil; g_errv (Some e)]
      | Some (None, _) => fin b
      end
    end
  end.
Definition fin_bytes (b : gval) : outcome := match BY b with Some x => ORet [x; VNil] | None => OStuck "return" end.
End OneShotGlue.

Ltac glue_step X :=
  steps5 X;
  lazymatch goal with
  | |- ?L = _ =>
    let h := head_scrut3 L in
    lazymatch h with
    | (_, _) => fail
    | _ => first [ destruct h as [[[? [[? ?]|]] ?]|] eqn:? | destruct h as [[[[? ?]|] ?]|] eqn:? | destruct h as [?|] eqn:? ]
    end
  end.
Ltac glue_run X := repeat (glue_step X); try reflexivity.

Section SealGlue.
Variable NEW : list gval -> option (gval * gerr * gval).
Variable WR : gval -> gval -> option (gval * gerr * gval).
Variable CL : gval -> option (gerr * gval).
Variable BY : gval -> option gval.

(* (TARGET) *)
Lemma go_seal_glue (V P S R EK RNG : gval) :
  fst (run_func2 (ext_glue NEW WR CL BY "newEncryptStream" 1) f_saltpack_seal [V; P; S; R; EK; RNG])
  = glue_outcome NEW WR CL [V; VNil; S; R; EK; RNG] P (fin_bytes BY).
Proof.
  start5 f_saltpack_seal. unfold glue_outcome, fin_bytes.
  glue_run (ext_glue NEW WR CL BY "newEncryptStream" 1).
Time Qed.
End SealGlue.

Ltac ev_in5 h ::=
  eval cbv -[Z.eqb Z.ltb Z.leb Z.add Z.sub Z.mul Z.modulo Z.rem Z.quot Z.shiftr Z.shiftl Z.opp
             Z.land Z.lor Z.lxor Z.lnot Z.of_nat Z.of_N Z.to_nat Z.to_N List.length nth_error
             firstn skipn bytes_eqb' bytes_eqb Byte.to_N Byte.of_N N.mul N.ltb N.eqb N.add N.leb b2n n2b Nat.eqb
             Nat.leb Nat.ltb N.div N.modulo nth map app repeat
             sha512 hmac512 sb_open sb_seal dh_shared dh_pub box_seal box_open ed_sign ed_pub
             mp_encode version_eqb blk
             B.sss_init B.g_sss B.g_sym B.as_syms as_bytes_list
             range_loop2 for_loop2 exec2] in h.

Definition sss_of_lit (o : gval) : option B.sss_state :=
  match o with
  | VStruct [("version", VStruct [("Major", VInt ma); ("Minor", VInt mi)]); ("output", _); ("encoder", w);
             ("signingKey", sg); ("encryptionKey", VBytes k); ("headerHash", VBytes hh); ("numBlocks", VInt n); ("err", ev)] =>
    match B.as_signer sg, B.as_errv ev with
    | Some s, Some e => if Z.ltb n 0 then None else Some (B.mkSss (mkV ma mi) w k s [] hh (Z.to_N n) e)
    | _, _ => None
    end
  | _ => None
  end.

Definition fresh_sss (W : gval) (signer : option bytes) : B.sss_state :=
  B.mkSss v2 W (repeat x00 32) signer [] (repeat x00 64) 0 None.

Section Sc.
Variable c : crypto.
Variable enc_step : gval -> bytes -> gval * B.gerr.

Definition ext_nsss : externs := fun fn args =>
  if String.eqb fn "Version2" then Some [g_version v2]
  else if String.eqb fn "newEncoder" then match args with [w] => Some [w] | _ => None end
  else if String.eqb fn "signcryptSealStream.init" then
    match args with
    | [o; VList bl; VList sl; VBytes rb; VStruct [("shuffle", VBytes ra); ("key", VBytes rk)]] =>
      match sss_of_lit o, as_bytes_list bl, B.as_syms sl with
      | Some st, Some boxes, Some syms =>
        match B.sss_init c enc_step st boxes syms ra rk rb with
        | B.IRet e st' ra' rk' rb' => Some [B.g_errv e; B.g_sss st'; VList bl; VList sl; VBytes rb'; B.g_rng ra' rk']
        | B.IPanic => None
        end
      | _, _, _ => None
      end
    | _ => None
    end
  else None.

(* (TARGET) *)
Lemma go_newSigncryptSealStream (W : gval) (signer : option bytes) (boxes : list bytes) (syms : list (bytes * bytes)) (ra rk rb : bytes) :
  let r := run_func2 ext_nsss f_saltpack_newSigncryptSealStream
                     [W; B.g_signer signer; VList (map VBytes boxes); VList (map B.g_sym syms); VBytes rb; B.g_rng ra rk] in
  match B.sss_init c enc_step (fresh_sss W signer) boxes syms ra rk rb with
  | B.IPanic => fst r = OStuck "call"
  | B.IRet e st' ra' rk' rb' =>
    fst r = ORet (match e with None => [B.g_sss st'; VNil] | Some _ => [VNil; B.g_errv e] end) /\
    lookup "rng" (snd r) = Some (B.g_rng ra' rk') /\ lookup "ephemeralKeyCreator" (snd r) = Some (VBytes rb')
  end.
Proof.
  cbv zeta.
  pose proof (as_bytes_list_map boxes) as Hab. pose proof (B.as_syms_map syms) as Has.
  destruct (B.sss_init c enc_step (fresh_sss W signer) boxes syms ra rk rb) as [|e st' ra' rk' rb'] eqn:Hi.
  - start5 f_saltpack_newSigncryptSealStream. unfold B.g_rng. unfold bytes in *. destruct signer; cbn [B.g_signer]; steps5 ext_nsss.
    all: rewrite_head5 Hi; steps5 ext_nsss; reflexivity.
  - unfold B.g_rng. unfold bytes in *.
    destruct e as [[en ea]|]; cbn [B.g_errv]; destruct signer; cbn [B.g_signer].
    + run_ret_src f_saltpack_newSigncryptSealStream [VNil; VErr en ea] (VStruct [("shuffle", VBytes ra'); ("key", VBytes rk')]) (VBytes rb')
        ltac:(steps5 ext_nsss; rewrite_head5 Hi; steps5 ext_nsss; reflexivity).
    + run_ret_src f_saltpack_newSigncryptSealStream [VNil; VErr en ea] (VStruct [("shuffle", VBytes ra'); ("key", VBytes rk')]) (VBytes rb')
        ltac:(steps5 ext_nsss; rewrite_head5 Hi; steps5 ext_nsss; reflexivity).
    + run_ret_src f_saltpack_newSigncryptSealStream [B.g_sss st'; VNil] (VStruct [("shuffle", VBytes ra'); ("key", VBytes rk')]) (VBytes rb')
        ltac:(steps5 ext_nsss; rewrite_head5 Hi; steps5 ext_nsss; reflexivity).
    + run_ret_src f_saltpack_newSigncryptSealStream [B.g_sss st'; VNil] (VStruct [("shuffle", VBytes ra'); ("key", VBytes rk')]) (VBytes rb')
        ltac:(steps5 ext_nsss; rewrite_head5 Hi; steps5 ext_nsss; reflexivity).
Time Qed.
End Sc.

Ltac ev_in5 h ::=
  eval cbv -[Z.eqb Z.ltb Z.leb Z.add Z.sub Z.mul Z.modulo Z.rem Z.quot Z.shiftr Z.shiftl Z.opp
             Z.land Z.lor Z.lxor Z.lnot Z.of_nat Z.of_N Z.to_nat Z.to_N List.length nth_error
             firstn skipn bytes_eqb' bytes_eqb Byte.to_N Byte.of_N N.mul N.ltb N.eqb N.add N.leb b2n n2b Nat.eqb
             Nat.leb Nat.ltb N.div N.modulo nth map app repeat
             sha512 hmac512 sb_open sb_seal dh_shared dh_pub box_seal box_open ed_sign ed_pub
             mp_encode version_eqb blk
             A.sas_new A.sds_new
             range_loop2 for_loop2 exec2] in h.

Section Sg.
Variable c : crypto.
Variable enc_step : gval -> bytes -> gval * A.gerr.
Variable r : rng.

Definition ext_NSS : externs := fun fn args =>
  if String.eqb fn "newSignAttachedStream" then
    match args with
    | [ver; w; sg] =>
      match as_version ver, as_sender sg with
      | Some v, Some s => match A.sas_new c enc_step v w s r with ORet vs => Some vs | _ => None end
      | _, _ => None
      end
    | _ => None
    end
  else if String.eqb fn "newSignDetachedStream" then
    match args with
    | [ver; w; sg] =>
      match as_version ver, as_sender sg with
      | Some v, Some s => match A.sds_new c enc_step v w s r with ORet vs => Some vs | _ => None end
      | _, _ => None
      end
    | _ => None
    end
  else None.

Lemma sas_new_shape (v : version) (w : gval) (s : option bytes) : exists a b, A.sas_new c enc_step v w s r = ORet [a; b].
Proof.
  unfold A.sas_new. destruct (negb (known_version v)); [eexists; eexists; reflexivity|].
  destruct s; [|eexists; eexists; reflexivity]. destruct (read_full 16 r) as [[n r']|]; [|eexists; eexists; reflexivity].
  cbv zeta. destruct (snd (enc_step w _)); eexists; eexists; reflexivity.
Qed.
Lemma sds_new_shape (v : version) (w : gval) (s : option bytes) : exists a b, A.sds_new c enc_step v w s r = ORet [a; b].
Proof.
  unfold A.sds_new. destruct (negb (known_version v)); [eexists; eexists; reflexivity|].
  destruct s; [|eexists; eexists; reflexivity]. destruct (read_full 16 r) as [[n r']|]; [|eexists; eexists; reflexivity].
  cbv zeta. destruct (snd (enc_step w _)); eexists; eexists; reflexivity.
Qed.

(* (TARGET) *)
Lemma go_NewSignStream (v : version) (w : gval) (signer : option bytes) :
  fst (run_func2 ext_NSS f_saltpack_NewSignStream [g_version v; w; A.g_signer signer])
  = A.sas_new c enc_step v w signer r.
Proof.
  destruct v as [ma mi]. destruct (sas_new_shape (mkV ma mi) w signer) as (a & b & H). rewrite H.
  start5 f_saltpack_NewSignStream. destruct signer; cbn [A.g_signer A.g_sk]; steps5 ext_NSS; rewrite_head5 H; steps5 ext_NSS; reflexivity.
Qed.
(* (TARGET) *)
Lemma go_NewSignDetachedStream (v : version) (w : gval) (signer : option bytes) :
  fst (run_func2 ext_NSS f_saltpack_NewSignDetachedStream [g_version v; w; A.g_signer signer])
  = A.sds_new c enc_step v w signer r.
Proof.
  destruct v as [ma mi]. destruct (sds_new_shape (mkV ma mi) w signer) as (a & b & H). rewrite H.
  start5 f_saltpack_NewSignDetachedStream. destruct signer; cbn [A.g_signer A.g_sk]; steps5 ext_NSS; rewrite_head5 H; steps5 ext_NSS; reflexivity.
Qed.
End Sg.

Section SignGlue.
Variable NEW : list gval -> option (gval * gerr * gval).
Variable WR : gval -> gval -> option (gval * gerr * gval).
Variable CL : gval -> option (gerr * gval).
Variable BY : gval -> option gval.

(* (TARGET) *)
Lemma go_signToStream_glue (V P S F : gval) :
  fst (run_func2 (ext_glue NEW WR CL BY "streamer" 1) f_saltpack_signToStream [V; P; S; F])
  = glue_outcome NEW WR CL [V; VNil; S] P (fun b => ORet [b; VNil]).
Proof.
  start5 f_saltpack_signToStream. unfold glue_outcome.
  glue_run (ext_glue NEW WR CL BY "streamer" 1).
Time Qed.
End SignGlue.

Section SignWrap.
Variable STS : list gval -> option (gval * gerr).   (* signToStream: the *bytes.Buffer, the error *)
Variable BY : gval -> option gval.

Definition ext_sign : externs := fun fn args =>
  if String.eqb fn "signToStream" then
    match STS args with Some (b, e) => Some [b; g_errv e] | None => None end
  else if String.eqb fn "Buffer.Bytes" then
    match args with [b] => match BY b with Some x => Some [x] | None => None end | _ => None end
  else None.

Definition sign_wrap (args : list gval) : outcome :=
  match STS args with
  | None => OStuck "call"
  | Some (_, Some e) => ORet [VNil; g_errv (Some e)]
  | Some (b, None) => match BY b with Some x => ORet [x; VNil] | None => OStuck "return" end
  end.

Definition fn_NewSignStream : gval := Eval cbv in VBytes (list_byte_of_string "func:NewSignStream").
Definition fn_NewSignDetachedStream : gval := Eval cbv in VBytes (list_byte_of_string "func:NewSignDetachedStream").

Ltac wrap_step X :=
  steps5 X;
  lazymatch goal with
  | |- ?L = _ =>
    let h := head_scrut3 L in
    lazymatch h with
    | (_, _) => fail
    | _ => first [ destruct h as [[? [[? ?]|]]|] eqn:? | destruct h as [?|] eqn:? ]
    end
  end.

(* (TARGET) *)
Lemma go_Sign (V P S : gval) :
  fst (run_func2 ext_sign f_saltpack_Sign [V; P; S]) = sign_wrap [V; P; S; fn_NewSignStream].
Proof.
  start5 f_saltpack_Sign. unfold sign_wrap, fn_NewSignStream. repeat (wrap_step ext_sign); reflexivity.
Qed.
(* (TARGET) *)
Lemma go_SignDetached (V P S : gval) :
  fst (run_func2 ext_sign f_saltpack_SignDetached [V; P; S]) = sign_wrap [V; P; S; fn_NewSignDetachedStream].
Proof.
  start5 f_saltpack_SignDetached. unfold sign_wrap, fn_NewSignDetachedStream. repeat (wrap_step ext_sign); reflexivity.
Qed.
End SignWrap.

Ltac ev_in5 h ::=
  eval cbv -[Z.eqb Z.ltb Z.leb Z.add Z.sub Z.mul Z.modulo Z.rem Z.quot Z.shiftr Z.shiftl Z.opp
             Z.land Z.lor Z.lxor Z.lnot Z.of_nat Z.of_N Z.to_nat Z.to_N List.length nth_error
             firstn skipn bytes_eqb' bytes_eqb Byte.to_N Byte.of_N N.mul N.ltb N.eqb N.add N.leb b2n n2b Nat.eqb
             Nat.leb Nat.ltb N.div N.modulo nth map app repeat
             range_loop2 for_loop2 exec2] in h.

Ltac wrap_step X :=
  steps5 X;
  lazymatch goal with
  | |- ?L = _ =>
    let h := head_scrut3 L in
    lazymatch h with
    | (_, _) => fail
    | _ => first [ destruct h as [[? [[? ?]|]]|] eqn:? | destruct h as [?|] eqn:? ]
    end
  end.

(* ================= the exported wrappers, for EVERY meaning of the function they call ================= *)
Section Wrappers.
Variable CALLEE : list gval -> option (gval * gerr).     (* the two results of the wrapped function *)
Variable callee : string.

Definition ext_wrap : externs := fun fn args =>
  if String.eqb fn "receiversToEphemeralKeyCreator" then
    match args with [VList l] => Some (rtekc l) | [VNil] => Some (rtekc []) | _ => None end
  else if String.eqb fn callee then
    match CALLEE args with Some (o, e) => Some [o; g_errv e] | None => None end
  else None.

Definition wrap_outcome (args : list gval) : outcome :=
  match CALLEE args with None => OStuck "call" | Some (o, e) => ORet [o; g_errv e] end.
End Wrappers.

Section Wrappers2.
Variable CALLEE : list gval -> option (gval * gerr).

(* (TARGET) *)
Lemma go_Seal (V P S : gval) (l : list gval) :
  fst (run_func2 (ext_wrap CALLEE "seal") f_saltpack_Seal [V; P; S; VList l])
  = match l with
    | [] => ORet [VNil; VErr "ErrBadReceivers" []]
    | r0 :: _ => wrap_outcome CALLEE [V; P; S; VList l; r0; VStruct []]
    end.
Proof.
  start5 f_saltpack_Seal. unfold wrap_outcome. destruct l as [|r0 l].
  - steps5 (ext_wrap CALLEE "seal"). reflexivity.
  - repeat (wrap_step (ext_wrap CALLEE "seal")); reflexivity.
Qed.

(* (TARGET) *)
Lemma go_NewEncryptStream_wrap (V W S : gval) (l : list gval) :
  fst (run_func2 (ext_wrap CALLEE "newEncryptStream") f_saltpack_NewEncryptStream [V; W; S; VList l])
  = match l with
    | [] => ORet [VNil; VErr "ErrBadReceivers" []]
    | r0 :: _ => wrap_outcome CALLEE [V; W; S; VList l; r0; VStruct []]
    end.
Proof.
  start5 f_saltpack_NewEncryptStream. unfold wrap_outcome. destruct l as [|r0 l].
  - steps5 (ext_wrap CALLEE "newEncryptStream"). reflexivity.
  - repeat (wrap_step (ext_wrap CALLEE "newEncryptStream")); reflexivity.
Qed.

(* (TARGET) *)
Lemma go_NewSigncryptSealStream (W EK S B Y : gval) :
  fst (run_func2 (ext_wrap CALLEE "newSigncryptSealStream") f_saltpack_NewSigncryptSealStream [W; EK; S; B; Y])
  = wrap_outcome CALLEE [W; S; B; Y; EK; VStruct []].
Proof.
  start5 f_saltpack_NewSigncryptSealStream. unfold wrap_outcome.
  repeat (wrap_step (ext_wrap CALLEE "newSigncryptSealStream")); reflexivity.
Qed.

(* (TARGET) *)
Lemma go_SigncryptSeal (P EK S B Y : gval) :
  fst (run_func2 (ext_wrap CALLEE "signcryptSeal") f_saltpack_SigncryptSeal [P; EK; S; B; Y])
  = wrap_outcome CALLEE [P; S; B; Y; EK; VStruct []].
Proof.
  start5 f_saltpack_SigncryptSeal. unfold wrap_outcome.
  repeat (wrap_step (ext_wrap CALLEE "signcryptSeal")); reflexivity.
Qed.

(* the nil slice of receivers (len = 0) is refused like the empty one, before the callee runs *)
Lemma go_Seal_nil (V P S : gval) :
  fst (run_func2 (ext_wrap CALLEE "seal") f_saltpack_Seal [V; P; S; VNil]) = ORet [VNil; VErr "ErrBadReceivers" []].
Proof. start5 f_saltpack_Seal. steps5 (ext_wrap CALLEE "seal"). reflexivity. Qed.
Lemma go_NewEncryptStream_nil (V W S : gval) :
  fst (run_func2 (ext_wrap CALLEE "newEncryptStream") f_saltpack_NewEncryptStream [V; W; S; VNil])
  = ORet [VNil; VErr "ErrBadReceivers" []].
Proof. start5 f_saltpack_NewEncryptStream. steps5 (ext_wrap CALLEE "newEncryptStream"). reflexivity. Qed.
End Wrappers2.

Section ScGlue.
Variable NEW : list gval -> option (gval * gerr * gval).
Variable WR : gval -> gval -> option (gval * gerr * gval).
Variable CL : gval -> option (gerr * gval).
Variable BY : gval -> option gval.

(* (TARGET) *)
Lemma go_signcryptSeal_glue (P S B Y EK RNG : gval) :
  fst (run_func2 (ext_glue NEW WR CL BY "newSigncryptSealStream" 0) f_saltpack_signcryptSeal [P; S; B; Y; EK; RNG])
  = glue_outcome NEW WR CL [VNil; S; B; Y; EK; RNG] P (fin_bytes BY).
Proof.
  start5 f_saltpack_signcryptSeal. unfold glue_outcome, fin_bytes.
  glue_run (ext_glue NEW WR CL BY "newSigncryptSealStream" 0).
Time Qed.
End ScGlue.

(* the zero bytes.Buffer of `var buf bytes.Buffer` (nil in the evaluator) is the empty in-memory writer *)
Definition zero_buf (w : gval) : gval := match w with VNil => VBytes [] | _ => w end.

Section SealSpec.
Variable c : crypto.

(* the callees of seal with the meaning their own ties prove, over the in-memory writer.  The third component
   of NEW_seal is the value the evaluator writes back into the caller's variable buf: the bytes the writer holds
   when the constructor returns (the header packet) -- a COPY, which later writes through the stream cannot reach *)
Definition NEW_seal (args : list gval) : option (gval * gerr * gval) :=
  match args with
  | [ver; w; sd; VList l; VBytes rb; VStruct [("shuffle", VBytes ra); ("key", VBytes rc)]] =>
    match as_version ver, as_sender sd, as_rcpts l with
    | Some v, Some sender, Some rcpts =>
      match es_init c mem_enc (fresh_st v (zero_buf w)) v sender rcpts ra rb rc with
      | IStuck _ => None
      | IRet e st' _ _ _ => Some (match e with None => g_es st' | Some _ => VNil end, e, es_enc st')
      end
    | _, _, _ => None
    end
  | _ => None
  end.
Definition WR_es (s p : gval) : option (gval * gerr * gval) :=
  match as_es s, p with
  | Some st, VBytes pb =>
    match es_write c mem_enc st pb with WStuck _ => None | WRet n e st' => Some (VInt n, e, g_es st') end
  | _, _ => None
  end.
Definition CL_es (s : gval) : option (gerr * gval) :=
  match as_es s with
  | Some st => match es_close c mem_enc st with CloseRet e st' => Some (e, g_es st') | _ => None end
  | None => None
  end.

(* seal as a session of the specification functions: constructor, one Write, Close, the writer's bytes.
   (A panic of Close is OStuck "call": the evaluator cannot propagate a callee's panic.) *)
Definition seal_spec (v : version) (p : bytes) (sender : option bytes) (rcpts : list rcpt) (ra rb rc : rng) : outcome :=
  match es_init c mem_enc (fresh_st v (VBytes [])) v sender rcpts ra rb rc with
  | IStuck _ => OStuck "call"
  | IRet (Some e) _ _ _ _ => ORet [VNil; g_errv (Some e)]
  | IRet None st1 _ _ _ =>
    match es_write c mem_enc st1 p with
    | WStuck _ => OStuck "call"
    | WRet _ (Some e) _ => ORet [VNil; g_errv (Some e)]
    | WRet _ None st2 =>
      match es_close c mem_enc st2 with
      | CloseRet (Some e) _ => ORet [VNil; g_errv (Some e)]
      | CloseRet None st3 => ORet [es_enc st3; VNil]
      | _ => OStuck "call"
      end
    end
  end.

Definition seal_args (v : version) (p : bytes) (sender : option bytes) (rcpts : list rcpt) (ra rb rc : rng) : list gval :=
  [g_version v; VBytes p; g_sender sender; VList (map g_rcpt rcpts); VBytes rb; g_rng ra rc].

Lemma as_version_g (v : version) : as_version (g_version v) = Some v.
Proof. destruct v; reflexivity. Qed.

(* (TARGET) *)
Theorem go_seal_aliased (BY : gval -> option gval) (v : version) (p : bytes) (sender : option bytes) (rcpts : list rcpt) (ra rb rc : rng) :
  (forall st1 st2 st3 n ra' rb' rc',
     es_init c mem_enc (fresh_st v (VBytes [])) v sender rcpts ra rb rc = IRet None st1 ra' rb' rc' ->
     es_write c mem_enc st1 p = WRet n None st2 -> es_close c mem_enc st2 = CloseRet None st3 ->
     BY (es_enc st1) = Some (es_enc st3)) ->
  fst (run_func2 (ext_glue NEW_seal WR_es CL_es BY "newEncryptStream" 1) f_saltpack_seal (seal_args v p sender rcpts ra rb rc))
  = seal_spec v p sender rcpts ra rb rc.
Proof.
  intros Hal. unfold seal_args. rewrite go_seal_glue. unfold glue_outcome, seal_spec, NEW_seal, g_rng.
  rewrite as_version_g, as_sender_g, as_rcpts_map. cbn [zero_buf].
  destruct (es_init c mem_enc (fresh_st v (VBytes [])) v sender rcpts ra rb rc) as [w|[e|] st1 ra' rb' rc'] eqn:Hi; [reflexivity|reflexivity|].
  unfold WR_es. rewrite as_es_g_es.
  destruct (es_write c mem_enc st1 p) as [w|n [e|] st2] eqn:Hw; [reflexivity|reflexivity|].
  unfold CL_es. rewrite as_es_g_es.
  destruct (es_close c mem_enc st2) as [w| |[e|] st3] eqn:Hc; [reflexivity|reflexivity|reflexivity|].
  unfold fin_bytes. rewrite (Hal st1 st2 st3 n ra' rb' rc' eq_refl Hw Hc). reflexivity.
Qed.

(* what the evaluator computes when Buffer.Bytes is the faithful function of ITS argument (the copy in buf):
   on the success path the bytes the constructor wrote, i.e. the header packet only *)
(* (TARGET) *)
Theorem go_seal_stale (v : version) (p : bytes) (sender : option bytes) (rcpts : list rcpt) (ra rb rc : rng)
        (st1 st2 st3 : es_state) (n : Z) (ra' rb' rc' : rng) :
  es_init c mem_enc (fresh_st v (VBytes [])) v sender rcpts ra rb rc = IRet None st1 ra' rb' rc' ->
  es_write c mem_enc st1 p = WRet n None st2 -> es_close c mem_enc st2 = CloseRet None st3 ->
  fst (run_func2 (ext_glue NEW_seal WR_es CL_es (fun b => Some b) "newEncryptStream" 1) f_saltpack_seal (seal_args v p sender rcpts ra rb rc))
  = ORet [es_enc st1; VNil].
Proof.
  intros Hi Hw Hc. unfold seal_args. rewrite go_seal_glue. unfold glue_outcome, NEW_seal, g_rng.
  rewrite as_version_g, as_sender_g, as_rcpts_map. cbn [zero_buf]. rewrite Hi.
  unfold WR_es. rewrite as_es_g_es, Hw. unfold CL_es. rewrite as_es_g_es, Hc. reflexivity.
Qed.

(* ----- seal_spec against the model's one-shot sender ----- *)
Hypothesis Hsb : forall k n m, List.length (sb_seal c k n m) = (16 + List.length m)%nat.

Lemma fresh_st_fresh (v : version) (out0 : bytes) : E.fresh_es v out0 (fresh_st v (VBytes out0)).
Proof. repeat split. Qed.

(* (TARGET) *)
Theorem seal_spec_model (v : version) (p : bytes) (sender : option bytes) (rcpts : list rcpt) (r r' : rng) (wire : bytes) :
  (Z.of_nat (List.length rcpts) <= 2147483647)%Z ->
  (List.length p <= 295 * blk)%nat ->
  seal c v sender rcpts p r = Ok (wire, r') ->
  seal_spec v p sender rcpts r (fst (model_sources rcpts r)) (snd (model_sources rcpts r)) = ORet [VBytes wire; VNil].
Proof.
  intros Hlen Hp Hseal. unfold seal in Hseal.
  destruct (E.seal_stream_draws c v sender rcpts [p] r r' wire Hseal) as (Hv & Hchk & ra' & rb' & Hsh & Hrb & Hrc & Hcore).
  destruct (E.es_full_session_model c Hsb (fresh_st v (VBytes [])) [] v sender rcpts _ r _ _ ra' rb' r' _ _ [p] wire
              (fresh_st_fresh v []) Hv Hchk Hlen (Forall_cons _ Hp (Forall_nil _)) Hsh Hrb Hrc Hcore)
    as (st' & Hinit & Hsess & Henc & _ & _).
  unfold seal_spec. unfold E.es_full_session in Hsess. rewrite Hinit in *. cbn [es_session] in Hsess.
  destruct (es_write c mem_enc _ p) as [w|n [e|] st2]; [discriminate|discriminate|].
  rewrite Hsess, Henc. reflexivity.
Qed.

(* an error of init is the model's error, same class (es_init_model) *)
(* (TARGET) *)
Theorem seal_spec_model_err (v : version) (p : bytes) (sender : option bytes) (rcpts : list rcpt) (r : rng) (n : string) (a : list gval) :
  (Z.of_nat (List.length rcpts) <= 2147483647)%Z ->
  (exists st' x y z, es_init c mem_enc (fresh_st v (VBytes [])) v sender rcpts r (fst (model_sources rcpts r)) (snd (model_sources rcpts r))
                     = IRet (Some (n, a)) st' x y z) ->
  seal_spec v p sender rcpts r (fst (model_sources rcpts r)) (snd (model_sources rcpts r)) = ORet [VNil; VErr n a] /\
  exists e, seal c v sender rcpts p r = Err e /\ sender_err_name e = n.
Proof.
  intros Hlen (st' & x & y & z & Hi).
  pose proof (es_init_model c (fresh_st v (VBytes [])) [] v sender rcpts [p] r eq_refl Hlen) as H.
  unfold seal_spec. rewrite Hi in *. split; [reflexivity|]. destruct H as [_ H]. exact H.
Qed.
End SealSpec.



Section ScSpec.
Variable c : crypto.

Definition NEW_sc (args : list gval) : option (gval * gerr * gval) :=
  match args with
  | [w; sg; VList bl; VList sl; VBytes rb; VStruct [("shuffle", VBytes ra); ("key", VBytes rk)]] =>
    match B.as_signer sg, as_bytes_list bl, B.as_syms sl with
    | Some signer, Some boxes, Some syms =>
      match B.sss_init c B.mem_enc (fresh_sss (zero_buf w) signer) boxes syms ra rk rb with
      | B.IPanic => None
      | B.IRet e st' _ _ _ => Some (match e with None => B.g_sss st' | Some _ => VNil end, e, B.ss_enc st')
      end
    | _, _, _ => None
    end
  | _ => None
  end.
Definition WR_sss (s p : gval) : option (gval * gerr * gval) :=
  match B.as_sss s, p with
  | Some st, VBytes pb =>
    match B.sss_write c B.mem_enc st pb with B.WStuck _ => None | B.WRet n e st' => Some (VInt n, e, B.g_sss st') end
  | _, _ => None
  end.
Definition CL_sss (s : gval) : option (gerr * gval) :=
  match B.as_sss s with
  | Some st => match B.sss_close c B.mem_enc st with B.CloseRet e st' => Some (e, B.g_sss st') | _ => None end
  | None => None
  end.

Definition signcryptSeal_spec (p : bytes) (signer : option bytes) (boxes : list bytes) (syms : list (bytes * bytes))
           (ra rk rb : bytes) : outcome :=
  match B.sss_init c B.mem_enc (fresh_sss (VBytes []) signer) boxes syms ra rk rb with
  | B.IPanic => OStuck "call"
  | B.IRet (Some e) _ _ _ _ => ORet [VNil; g_errv (Some e)]
  | B.IRet None st1 _ _ _ =>
    match B.sss_write c B.mem_enc st1 p with
    | B.WStuck _ => OStuck "call"
    | B.WRet _ (Some e) _ => ORet [VNil; g_errv (Some e)]
    | B.WRet _ None st2 =>
      match B.sss_close c B.mem_enc st2 with
      | B.CloseRet (Some e) _ => ORet [VNil; g_errv (Some e)]
      | B.CloseRet None st3 => ORet [B.ss_enc st3; VNil]
      | _ => OStuck "call"
      end
    end
  end.

Definition scseal_args (p : bytes) (signer : option bytes) (boxes : list bytes) (syms : list (bytes * bytes)) (ra rk rb : bytes) : list gval :=
  [VBytes p; B.g_signer signer; VList (map VBytes boxes); VList (map B.g_sym syms); VBytes rb; B.g_rng ra rk].

(* (TARGET) *)
Theorem go_signcryptSeal_aliased (BY : gval -> option gval) (p : bytes) (signer : option bytes) (boxes : list bytes)
        (syms : list (bytes * bytes)) (ra rk rb : bytes) :
  (forall st1 st2 st3 n ra' rk' rb',
     B.sss_init c B.mem_enc (fresh_sss (VBytes []) signer) boxes syms ra rk rb = B.IRet None st1 ra' rk' rb' ->
     B.sss_write c B.mem_enc st1 p = B.WRet n None st2 -> B.sss_close c B.mem_enc st2 = B.CloseRet None st3 ->
     BY (B.ss_enc st1) = Some (B.ss_enc st3)) ->
  fst (run_func2 (ext_glue NEW_sc WR_sss CL_sss BY "newSigncryptSealStream" 0) f_saltpack_signcryptSeal (scseal_args p signer boxes syms ra rk rb))
  = signcryptSeal_spec p signer boxes syms ra rk rb.
Proof.
  intros Hal. unfold scseal_args. rewrite go_signcryptSeal_glue. unfold glue_outcome, signcryptSeal_spec, NEW_sc, B.g_rng.
  rewrite B.as_signer_g_signer, as_bytes_list_map, B.as_syms_map. cbn [zero_buf].
  destruct (B.sss_init c B.mem_enc (fresh_sss (VBytes []) signer) boxes syms ra rk rb) as [|[e|] st1 ra' rk' rb'] eqn:Hi; [reflexivity|reflexivity|].
  unfold WR_sss. rewrite B.as_sss_g_sss.
  destruct (B.sss_write c B.mem_enc st1 p) as [w|n [e|] st2] eqn:Hw; [reflexivity|reflexivity|].
  unfold CL_sss. rewrite B.as_sss_g_sss.
  destruct (B.sss_close c B.mem_enc st2) as [w| |[e|] st3] eqn:Hc; [reflexivity|reflexivity|reflexivity|].
  unfold fin_bytes. rewrite (Hal st1 st2 st3 n ra' rk' rb' eq_refl Hw Hc). reflexivity.
Qed.

(* (TARGET) *)
Theorem go_signcryptSeal_stale (p : bytes) (signer : option bytes) (boxes : list bytes) (syms : list (bytes * bytes)) (ra rk rb : bytes)
        (st1 st2 st3 : B.sss_state) (n : Z) (ra' rk' rb' : bytes) :
  B.sss_init c B.mem_enc (fresh_sss (VBytes []) signer) boxes syms ra rk rb = B.IRet None st1 ra' rk' rb' ->
  B.sss_write c B.mem_enc st1 p = B.WRet n None st2 -> B.sss_close c B.mem_enc st2 = B.CloseRet None st3 ->
  fst (run_func2 (ext_glue NEW_sc WR_sss CL_sss (fun b => Some b) "newSigncryptSealStream" 0) f_saltpack_signcryptSeal
                 (scseal_args p signer boxes syms ra rk rb))
  = ORet [B.ss_enc st1; VNil].
Proof.
  intros Hi Hw Hc. unfold scseal_args. rewrite go_signcryptSeal_glue. unfold glue_outcome, NEW_sc, B.g_rng.
  rewrite B.as_signer_g_signer, as_bytes_list_map, B.as_syms_map. cbn [zero_buf]. rewrite Hi.
  unfold WR_sss. rewrite B.as_sss_g_sss, Hw. unfold CL_sss. rewrite B.as_sss_g_sss, Hc. reflexivity.
Qed.

Hypothesis Hsb : forall k n m, List.length (sb_seal c k n m) = (16 + List.length m)%nat.
Hypothesis Hsig : forall s m, List.length (ed_sign c s m) = 64%nat.

(* (TARGET) *)
Theorem signcryptSeal_spec_model (p : bytes) (signer : option bytes) (boxes : list bytes) (syms : list (bytes * bytes))
        (r r' : rng) (wire : bytes) :
  (List.length p <= 295 * B.blk)%nat ->
  signcrypt_seal_stream c signer boxes syms [p] r = Ok (wire, r') ->
  signcryptSeal_spec p signer boxes syms r (snd (E.sc_model_sources boxes syms r)) (fst (E.sc_model_sources boxes syms r))
  = ORet [VBytes wire; VNil].
Proof.
  intros Hp Hseal.
  destruct (E.signcrypt_seal_stream_draws c signer boxes syms [p] r r' wire Hseal) as (Hck & ra1 & rb1 & Hsh & Hrb & Hrk & Hcore).
  pose proof (B.sss_seal_core c Hsb Hsig (fresh_sss (VBytes []) signer) boxes syms r _ _ _ ra1 _ rb1 _ r' [p]
                eq_refl eq_refl eq_refl eq_refl eq_refl Hck Hsh Hrb Hrk (Forall_cons _ Hp (Forall_nil _))) as H.
  cbn [B.ss_signer fresh_sss] in H. rewrite Hcore in H.
  destruct H as (st1 & Hinit & st2 & Hsess & Henc & _).
  unfold signcryptSeal_spec. rewrite Hinit. cbn [B.sss_session] in Hsess.
  destruct (B.sss_write c B.mem_enc st1 p) as [w|n [e|] st2']; [discriminate|discriminate|].
  rewrite Hsess, Henc. reflexivity.
Qed.
End ScSpec.

Section SignSpec.
Variable c : crypto.
Variable r : rng.    (* what crypto/rand delivers to newSignatureHeader *)

(* Sign as a session of the specification functions of GoAstProofs6a over the in-memory writer: constructor,
   (the literal completed with the empty buffer: sas_complete), one Write at the fuel of run_func2, Close *)
Definition sign_att_spec (v : version) (p : bytes) (signer : option bytes) : outcome :=
  match A.sas_new c A.mem_enc v (VBytes []) signer r with
  | ORet [obj; VNil] =>
    match A.as_sas (A.sas_complete obj) with
    | Some st0 =>
      match A.sas_write c A.mem_enc 297 st0 p with
      | A.WRet _ None st1 =>
        match A.sas_close c A.mem_enc st1 with
        | A.CloseRet None st2 => ORet [A.sas_enc st2; VNil]
        | A.CloseRet (Some e) _ => ORet [VNil; g_errv (Some e)]
        | _ => OStuck "call"
        end
      | A.WRet _ (Some e) _ => ORet [VNil; g_errv (Some e)]
      | A.WStuck _ => OStuck "call"
      end
    | None => OStuck "call"
    end
  | ORet [_; e] => ORet [VNil; e]
  | o => o
  end.

Definition as_sds (v : gval) : option A.sds_state :=
  match v with
  | VStruct [("encoder", w); ("secretKey", VStruct [("sk", VBytes sk)]); ("hasher", VBytes h)] => Some (A.mkSds w sk h)
  | _ => None
  end.
Lemma as_sds_g (st : A.sds_state) : as_sds (A.g_sds st) = Some st.
Proof. destruct st; reflexivity. Qed.

(* SignDetached: constructor, Write (everything into the digest), Close (one packet: the signature) *)
Definition sign_det_spec (v : version) (p : bytes) (signer : option bytes) : outcome :=
  match A.sds_new c A.mem_enc v (VBytes []) signer r with
  | ORet [obj; VNil] =>
    match as_sds obj with
    | Some st0 =>
      let sig := ed_sign c (A.sds_sk st0) (detached_sig_input_from_hash (sha512 c (A.sds_hashed st0 ++ p)%list)) in
      let rr := A.mem_enc (A.sds_enc st0) (mp_encode (MBin sig)) in
      match snd rr with None => ORet [fst rr; VNil] | Some e => ORet [VNil; g_errv (Some e)] end
    | None => OStuck "call"
    end
  | ORet [_; e] => ORet [VNil; e]
  | o => o
  end.

(* (TARGET) *)
Theorem sign_att_spec_model (v : version) (sk p : bytes) (r' : rng) (outb : bytes) :
  sign_attached c v sk p r = Ok (outb, r') ->
  (List.length (cw_session v sig_block_size [] [p]) < 297)%nat ->
  (N.of_nat (List.length (cw_session v sig_block_size [] [p])) + 2 < A.two64)%N ->
  sign_att_spec v p (Some sk) = ORet [VBytes outb; VNil].
Proof.
  intros Hs HF Hn. pose proof (A.sas_session_model c 297 v sk [p] r r' outb Hs HF Hn) as H.
  unfold A.sas_session in H. unfold sign_att_spec.
  destruct (A.sas_new c A.mem_enc v (VBytes []) (Some sk) r) as [vs| |]; try discriminate.
  destruct vs as [|obj [|e [|x vs]]]; try discriminate; destruct e; try discriminate.
  destruct (A.as_sas (A.sas_complete obj)) as [st0|]; [|discriminate]. cbn [A.sas_writes] in H.
  destruct (A.sas_write c A.mem_enc 297 st0 p) as [w|n [e|] st1]; try discriminate.
  destruct (A.sas_close c A.mem_enc st1) as [w| |[e|] st2]; try discriminate.
  destruct (A.sas_enc st2); try discriminate. injection H as <-. reflexivity.
Qed.

(* (TARGET) *)
Theorem sign_det_spec_model (v : version) (sk p : bytes) (r' : rng) (outb : bytes) :
  sign_detached c v sk p r = Ok (outb, r') ->
  sign_det_spec v p (Some sk) = ORet [VBytes outb; VNil].
Proof.
  intros Hs. assert (Hs' : sign_detached c v sk (List.concat [p]) r = Ok (outb, r')) by (cbn [List.concat]; rewrite app_nil_r; exact Hs).
  destruct (A.sds_session_model c v sk [p] r r' outb Hs') as (st0 & Hnew & Hfin).
  unfold sign_det_spec. rewrite Hnew, as_sds_g. cbn [fold_left A.sds_enc A.sds_sk A.sds_hashed] in Hfin. cbv zeta in Hfin.
  cbv zeta. rewrite Hfin. reflexivity.
Qed.
End SignSpec.

(* ================= the wrappers with the specification functions as the meaning of their callee ================= *)
(* an outcome of the shape every specification function of this file has *)
Definition ws (o : outcome) : Prop :=
  o = OStuck "call" \/ (exists x, o = ORet [x; VNil]) \/ (exists n a, o = ORet [VNil; VErr n a]).
Definition oc_pair (o : outcome) : option (gval * gerr) :=
  match o with
  | ORet [x; VNil] => Some (x, None)
  | ORet [x; VErr n a] => Some (x, Some (n, a))
  | _ => None
  end.
Lemma oc_pair_ws (o : outcome) : ws o ->
  match oc_pair o with None => OStuck "call" | Some (x, e) => ORet [x; g_errv e] end = o.
Proof. intros [->|[(x & ->)|(n & a & ->)]]; reflexivity. Qed.
Lemma oc_pair_ws_sign (o : outcome) : ws o ->
  match oc_pair o with
  | None => OStuck "call"
  | Some (_, Some e) => ORet [VNil; g_errv (Some e)]
  | Some (b, None) => ORet [b; VNil]
  end = o.
Proof. intros [->|[(x & ->)|(n & a & ->)]]; reflexivity. Qed.

Section Ws.
Variable c : crypto.
Lemma seal_spec_ws v p sender rcpts ra rb rc : ws (seal_spec c v p sender rcpts ra rb rc).
Proof.
  unfold seal_spec, ws. destruct (es_init _ _ _ _ _ _ _ _ _) as [w|[[n a]|] st1 x y z]; [left; reflexivity|right; right; eexists; eexists; reflexivity|].
  destruct (es_write _ _ _ _) as [w|k [[n a]|] st2]; [left; reflexivity|right; right; eexists; eexists; reflexivity|].
  destruct (es_close _ _ _) as [w| |[[n a]|] st3]; [left; reflexivity|left; reflexivity|right; right; eexists; eexists; reflexivity|right; left; eexists; reflexivity].
Qed.
Lemma nes_outcome_ws es v W sender rcpts ra rb rc : ws (nes_outcome c es v W sender rcpts ra rb rc).
Proof.
  unfold nes_outcome, ws. destruct (es_init _ _ _ _ _ _ _ _ _) as [w|[[n a]|] st1 x y z];
    [left; reflexivity|right; right; eexists; eexists; reflexivity|right; left; eexists; reflexivity].
Qed.
Lemma signcryptSeal_spec_ws p signer boxes syms ra rk rb : ws (signcryptSeal_spec c p signer boxes syms ra rk rb).
Proof.
  unfold signcryptSeal_spec, ws. destruct (B.sss_init _ _ _ _ _ _ _ _) as [|[[n a]|] st1 x y z]; [left; reflexivity|right; right; eexists; eexists; reflexivity|].
  destruct (B.sss_write _ _ _ _) as [w|k [[n a]|] st2]; [left; reflexivity|right; right; eexists; eexists; reflexivity|].
  destruct (B.sss_close _ _ _) as [w| |[[n a]|] st3]; [left; reflexivity|left; reflexivity|right; right; eexists; eexists; reflexivity|right; left; eexists; reflexivity].
Qed.
Lemma sas_new_cases es v w s r : (exists x, A.sas_new c es v w s r = ORet [x; VNil]) \/ (exists n a, A.sas_new c es v w s r = ORet [VNil; VErr n a]).
Proof.
  unfold A.sas_new. destruct (negb (known_version v)); [right; eexists; eexists; reflexivity|].
  destruct s; [|right; eexists; eexists; reflexivity]. destruct (read_full 16 r) as [[n r']|]; [|right; eexists; eexists; reflexivity].
  cbv zeta. destruct (snd (es w _)) as [[n0 a0]|]; [right; eexists; eexists; reflexivity|left; eexists; reflexivity].
Qed.
Lemma sds_new_cases es v w s r : (exists x, A.sds_new c es v w s r = ORet [x; VNil]) \/ (exists n a, A.sds_new c es v w s r = ORet [VNil; VErr n a]).
Proof.
  unfold A.sds_new. destruct (negb (known_version v)); [right; eexists; eexists; reflexivity|].
  destruct s; [|right; eexists; eexists; reflexivity]. destruct (read_full 16 r) as [[n r']|]; [|right; eexists; eexists; reflexivity].
  cbv zeta. destruct (snd (es w _)) as [[n0 a0]|]; [right; eexists; eexists; reflexivity|left; eexists; reflexivity].
Qed.
Lemma sign_att_spec_ws r v p signer : ws (sign_att_spec c r v p signer).
Proof.
  unfold sign_att_spec, ws. destruct (sas_new_cases A.mem_enc v (VBytes []) signer r) as [(x & ->)|(n & a & ->)]; [|right; right; eexists; eexists; reflexivity].
  destruct (A.as_sas _) as [st0|]; [|left; reflexivity].
  destruct (A.sas_write _ _ _ _ _) as [w|k [[n a]|] st1]; [left; reflexivity|right; right; eexists; eexists; reflexivity|].
  destruct (A.sas_close _ _ _) as [w| |[[n a]|] st2]; [left; reflexivity|left; reflexivity|right; right; eexists; eexists; reflexivity|right; left; eexists; reflexivity].
Qed.
Lemma sign_det_spec_ws r v p signer : ws (sign_det_spec c r v p signer).
Proof.
  unfold sign_det_spec, ws. destruct (sds_new_cases A.mem_enc v (VBytes []) signer r) as [(x & ->)|(n & a & ->)]; [|right; right; eexists; eexists; reflexivity].
  destruct (as_sds x) as [st0|]; [|left; reflexivity]. cbv zeta.
  destruct (snd (A.mem_enc _ _)) as [[n a]|]; [right; right; eexists; eexists; reflexivity|right; left; eexists; reflexivity].
Qed.
End Ws.

Section Instances.
Variable c : crypto.

(* ----- Seal: seal has the meaning seal_spec; the three sources are what crypto/rand delivers to the draws of
   defaultEncryptRNG{} (shuffle: ra, symmetric key: rc) and of receivers[0].CreateEphemeralKey (rb) ----- *)
Definition SEAL_spec (ra rb rc : rng) (args : list gval) : option (gval * gerr) :=
  match args with
  | [ver; VBytes p; sd; VList l; _; VStruct []] =>
    match as_version ver, as_sender sd, as_rcpts l with
    | Some v, Some sender, Some rcpts => oc_pair (seal_spec c v p sender rcpts ra rb rc)
    | _, _, _ => None
    end
  | _ => None
  end.

(* (TARGET) *)
Theorem go_Seal_spec (ra rb rc : rng) (v : version) (p : bytes) (sender : option bytes) (rcpts : list rcpt) :
  fst (run_func2 (ext_wrap (SEAL_spec ra rb rc) "seal") f_saltpack_Seal
                 [g_version v; VBytes p; g_sender sender; VList (map g_rcpt rcpts)])
  = match rcpts with
    | [] => ORet [VNil; VErr "ErrBadReceivers" []]
    | _ => seal_spec c v p sender rcpts ra rb rc
    end.
Proof.
  rewrite go_Seal. destruct rcpts as [|r0 rcpts]; [reflexivity|]. cbn [map]. unfold wrap_outcome, SEAL_spec.
  rewrite as_version_g, as_sender_g. change (g_rcpt r0 :: map g_rcpt rcpts) with (map g_rcpt (r0 :: rcpts)). rewrite as_rcpts_map.
  apply oc_pair_ws. apply seal_spec_ws.
Qed.

(* ----- SigncryptSeal / NewSigncryptSealStream ----- *)
Definition nsss_outcome (enc_step : gval -> bytes -> gval * B.gerr) (W : gval) (signer : option bytes) (boxes : list bytes)
           (syms : list (bytes * bytes)) (ra rk rb : bytes) : outcome :=
  match B.sss_init c enc_step (fresh_sss W signer) boxes syms ra rk rb with
  | B.IPanic => OStuck "call"
  | B.IRet None st' _ _ _ => ORet [B.g_sss st'; VNil]
  | B.IRet (Some e) _ _ _ _ => ORet [VNil; g_errv (Some e)]
  end.
Lemma nsss_outcome_ws es W signer boxes syms ra rk rb : ws (nsss_outcome es W signer boxes syms ra rk rb).
Proof.
  unfold nsss_outcome, ws. destruct (B.sss_init _ _ _ _ _ _ _ _) as [|[[n a]|] st1 x y z];
    [left; reflexivity|right; right; eexists; eexists; reflexivity|right; left; eexists; reflexivity].
Qed.
Lemma go_newSigncryptSealStream_outcome es (W : gval) (signer : option bytes) (boxes : list bytes) (syms : list (bytes * bytes)) (ra rk rb : bytes) :
  fst (run_func2 (ext_nsss c es) f_saltpack_newSigncryptSealStream
                 [W; B.g_signer signer; VList (map VBytes boxes); VList (map B.g_sym syms); VBytes rb; B.g_rng ra rk])
  = nsss_outcome es W signer boxes syms ra rk rb.
Proof.
  pose proof (go_newSigncryptSealStream c es W signer boxes syms ra rk rb) as H. cbv zeta in H. unfold nsss_outcome.
  destruct (B.sss_init c es (fresh_sss W signer) boxes syms ra rk rb) as [|[e|] st' ra' rk' rb']; [exact H| |]; destruct H as [H _]; exact H.
Qed.

Definition NSSS_spec (es : gval -> bytes -> gval * B.gerr) (ra rk rb : bytes) (args : list gval) : option (gval * gerr) :=
  match args with
  | [w; sg; VList bl; VList sl; _; VStruct []] =>
    match B.as_signer sg, as_bytes_list bl, B.as_syms sl with
    | Some signer, Some boxes, Some syms => oc_pair (nsss_outcome es w signer boxes syms ra rk rb)
    | _, _, _ => None
    end
  | _ => None
  end.
(* (TARGET) *)
Theorem go_NewSigncryptSealStream_spec es (ra rk rb : bytes) (W EK : gval) (signer : option bytes) (boxes : list bytes) (syms : list (bytes * bytes)) :
  fst (run_func2 (ext_wrap (NSSS_spec es ra rk rb) "newSigncryptSealStream") f_saltpack_NewSigncryptSealStream
                 [W; EK; B.g_signer signer; VList (map VBytes boxes); VList (map B.g_sym syms)])
  = nsss_outcome es W signer boxes syms ra rk rb.
Proof.
  rewrite go_NewSigncryptSealStream. unfold wrap_outcome, NSSS_spec.
  rewrite B.as_signer_g_signer, as_bytes_list_map, B.as_syms_map. apply oc_pair_ws. apply nsss_outcome_ws.
Qed.

Definition SCSEAL_spec (ra rk rb : bytes) (args : list gval) : option (gval * gerr) :=
  match args with
  | [VBytes p; sg; VList bl; VList sl; _; VStruct []] =>
    match B.as_signer sg, as_bytes_list bl, B.as_syms sl with
    | Some signer, Some boxes, Some syms => oc_pair (signcryptSeal_spec c p signer boxes syms ra rk rb)
    | _, _, _ => None
    end
  | _ => None
  end.
(* (TARGET) *)
Theorem go_SigncryptSeal_spec (ra rk rb : bytes) (p : bytes) (EK : gval) (signer : option bytes) (boxes : list bytes) (syms : list (bytes * bytes)) :
  fst (run_func2 (ext_wrap (SCSEAL_spec ra rk rb) "signcryptSeal") f_saltpack_SigncryptSeal
                 [VBytes p; EK; B.g_signer signer; VList (map VBytes boxes); VList (map B.g_sym syms)])
  = signcryptSeal_spec c p signer boxes syms ra rk rb.
Proof.
  rewrite go_SigncryptSeal. unfold wrap_outcome, SCSEAL_spec.
  rewrite B.as_signer_g_signer, as_bytes_list_map, B.as_syms_map. apply oc_pair_ws. apply signcryptSeal_spec_ws.
Qed.

(* ----- Sign / SignDetached: signToStream has the meaning sign_att_spec / sign_det_spec according to the
   constructor it is handed; Buffer.Bytes on the returned buffer object (its bytes) returns them ----- *)
Definition STS_spec (r : rng) (args : list gval) : option (gval * gerr) :=
  match args with
  | [ver; VBytes p; sg; f] =>
    match as_version ver, as_sender sg with
    | Some v, Some signer =>
      match val_eqb 8 f fn_NewSignStream with
      | Some true => oc_pair (sign_att_spec c r v p signer)
      | _ => match val_eqb 8 f fn_NewSignDetachedStream with
             | Some true => oc_pair (sign_det_spec c r v p signer)
             | _ => None
             end
      end
    | _, _ => None
    end
  | _ => None
  end.
(* (TARGET) *)
Theorem go_Sign_spec (r : rng) (v : version) (p : bytes) (signer : option bytes) :
  fst (run_func2 (ext_sign (STS_spec r) (fun b => Some b)) f_saltpack_Sign [g_version v; VBytes p; A.g_signer signer])
  = sign_att_spec c r v p signer.
Proof.
  rewrite go_Sign. unfold sign_wrap, STS_spec. rewrite as_version_g. change (A.g_signer signer) with (g_sender signer). rewrite as_sender_g.
  change (val_eqb 8 fn_NewSignStream fn_NewSignStream) with (Some true). cbv beta iota.
  apply oc_pair_ws_sign; apply sign_att_spec_ws.
Qed.
(* (TARGET) *)
Theorem go_SignDetached_spec (r : rng) (v : version) (p : bytes) (signer : option bytes) :
  fst (run_func2 (ext_sign (STS_spec r) (fun b => Some b)) f_saltpack_SignDetached [g_version v; VBytes p; A.g_signer signer])
  = sign_det_spec c r v p signer.
Proof.
  rewrite go_SignDetached. unfold sign_wrap, STS_spec. rewrite as_version_g. change (A.g_signer signer) with (g_sender signer). rewrite as_sender_g.
  change (val_eqb 8 fn_NewSignDetachedStream fn_NewSignStream) with (Some false).
  change (val_eqb 8 fn_NewSignDetachedStream fn_NewSignDetachedStream) with (Some true). cbv beta iota.
  apply oc_pair_ws_sign; apply sign_det_spec_ws.
Qed.
End Instances.

(* ================= composition: the meanings given to the callees ARE the outcomes of the translated callees ================= *)
Section Compose.
Variable c : crypto.
Variable enc_step : gval -> bytes -> gval * gerr.

(* ext_nes's encryptStream.init, on an object the literal of newEncryptStream denotes (es_of_lit o = Some st): the
   results of the translated init run on g_es st (go_encryptStream_init) *)
(* (TARGET) *)
Lemma compose_encryptStream_init (o : gval) (st : es_state) (v : version) (sender : option bytes) (rcpts : list rcpt) (ra rb rc : rng) :
  es_of_lit o = Some st ->
  let r := run_func2 (ext_init c enc_step) f_saltpack_encryptStream_init
                     [g_es st; g_version v; g_sender sender; VList (map g_rcpt rcpts); VBytes rb; g_rng ra rc] in
  match ext_nes c enc_step "encryptStream.init" [o; g_version v; g_sender sender; VList (map g_rcpt rcpts); VBytes rb; g_rng ra rc] with
  | Some (e :: es' :: _ :: _ :: _ :: ek' :: rng' :: _) =>
    fst r = ORet [e] /\ lookup "es" (snd r) = Some es' /\ lookup "rng" (snd r) = Some rng' /\
    lookup "ephemeralKeyCreator" (snd r) = Some ek'
  | Some _ => False
  | None => fst r = OStuck "call"
  end.
Proof.
  intros Ho. cbv zeta. pose proof (go_encryptStream_init c enc_step st v sender rcpts ra rb rc) as H. cbv zeta in H.
  unfold ext_nes. cbv [String.eqb Ascii.eqb Bool.eqb]. unfold g_rng. rewrite Ho, as_version_g, as_sender_g, as_rcpts_map.
  destruct (es_init c enc_step st v sender rcpts ra rb rc) as [w|e st' ra' rb' rc'] eqn:Hi.
  - unfold es_init in Hi. 
    destruct (negb (known_version v)); [discriminate|]. destruct (check_rcv_err rcpts); [discriminate|].
    destruct (2147483647 <? Z.of_nat (List.length rcpts))%Z; [injection Hi as <-; exact H|].
    destruct (shuffle rcpts ra) as [[rs ra']|]; [|discriminate]. destruct (read_full 32 rb) as [[ek rb']|]; [|discriminate].
    destruct (read_full 32 rc) as [[pk rc']|]; [|discriminate]. cbv zeta in Hi. destruct (snd (enc_step _ _)); discriminate.
  - exact H.
Qed.

(* WR_es / CL_es: Write and Close of the stream object are the translated methods (go_encryptStream_Write / _Close) *)
(* (TARGET) *)
Lemma compose_WR_es (st : es_state) (p : bytes) :
  let r := run_func2 (ext_stream c mem_enc) f_saltpack_encryptStream_Write [g_es st; VBytes p] in
  match WR_es c (g_es st) (VBytes p) with
  | Some (n, e, es') => fst r = ORet [n; g_errv e] /\ lookup "es" (snd r) = Some es'
  | None => exists w, fst r = OStuck w
  end.
Proof.
  cbv zeta. pose proof (go_encryptStream_Write c mem_enc st p) as H. cbv zeta in H. unfold WR_es. rewrite as_es_g_es.
  destruct (es_write c mem_enc st p) as [w|n e st']; [exists w; exact H|exact H].
Qed.
(* (TARGET) *)
Lemma compose_CL_es (st : es_state) :
  let r := run_func2 (ext_stream c mem_enc) f_saltpack_encryptStream_Close [g_es st] in
  match CL_es c (g_es st) with
  | Some (e, es') => fst r = ORet [g_errv e] /\ lookup "es" (snd r) = Some es'
  | None => (exists w, fst r = OStuck w) \/ fst r = OPanic
  end.
Proof.
  cbv zeta. pose proof (go_encryptStream_Close c mem_enc st) as H. cbv zeta in H. unfold CL_es. rewrite as_es_g_es.
  destruct (es_close c mem_enc st) as [w| |e st']; [left; exists w; exact H|right; exact H|exact H].
Qed.

(* ext_NES's / NEW_seal's newEncryptStream is the translated newEncryptStream, the objects receivers[0] and
   defaultEncryptRNG{} being read as the sources crypto/rand delivers to them *)
(* (TARGET) *)
Lemma compose_newEncryptStream (ra rb rc : rng) (v : version) (W EK : gval) (sender : option bytes) (rcpts : list rcpt) :
  fst (run_func2 (ext_nes c enc_step) f_saltpack_newEncryptStream
                 [g_version v; W; g_sender sender; VList (map g_rcpt rcpts); VBytes rb; g_rng ra rc])
  = match ext_NES c enc_step ra rb rc "newEncryptStream" [g_version v; W; g_sender sender; VList (map g_rcpt rcpts); EK; VStruct []] with
    | Some rs => ORet rs
    | None => OStuck "call"
    end.
Proof.
  rewrite go_newEncryptStream_outcome. unfold ext_NES. cbv [String.eqb Ascii.eqb Bool.eqb].
  rewrite as_version_g, as_sender_g, as_rcpts_map.
  destruct (nes_outcome_ws c enc_step v W sender rcpts ra rb rc) as [->|[(x & ->)|(n & a & ->)]]; reflexivity.
Qed.
(* (TARGET) *)
Lemma compose_receiversToEphemeralKeyCreator (ra rb rc : rng) (l : list gval) :
  fst (run_func2 (ext_NES c enc_step ra rb rc) f_saltpack_receiversToEphemeralKeyCreator [VList l])
  = match ext_NES c enc_step ra rb rc "receiversToEphemeralKeyCreator" [VList l] with Some rs => ORet rs | None => OStuck "call" end.
Proof. rewrite go_receiversToEphemeralKeyCreator. reflexivity. Qed.

(* NEW_seal: the constructor call of seal is newEncryptStream over the empty in-memory writer *)
(* (TARGET) *)
Lemma compose_NEW_seal (v : version) (sender : option bytes) (rcpts : list rcpt) (ra rb rc : rng) :
  nes_outcome c mem_enc v (VBytes []) sender rcpts ra rb rc
  = match NEW_seal c [g_version v; VNil; g_sender sender; VList (map g_rcpt rcpts); VBytes rb; g_rng ra rc] with
    | Some (es, e, _) => ORet [es; g_errv e]
    | None => OStuck "call"
    end.
Proof.
  unfold NEW_seal, nes_outcome, g_rng. rewrite as_version_g, as_sender_g, as_rcpts_map. cbn [zero_buf].
  destruct (es_init c mem_enc (fresh_st v (VBytes [])) v sender rcpts ra rb rc) as [w|[[n a]|] st' x y z]; reflexivity.
Qed.
End Compose.

Section Compose2.
Variable c : crypto.
Variable enc_step : gval -> bytes -> gval * A.gerr.

(* (TARGET) *)
Lemma compose_newSignAttachedStream (r : rng) (v : version) (w : gval) (signer : option bytes) :
  fst (run_func2 (A.ext_new c enc_step r) f_saltpack_newSignAttachedStream [g_version v; w; A.g_signer signer])
  = match ext_NSS c enc_step r "newSignAttachedStream" [g_version v; w; A.g_signer signer] with Some rs => ORet rs | None => OStuck "call" end.
Proof.
  rewrite A.go_newSignAttachedStream. unfold ext_NSS. cbv [String.eqb Ascii.eqb Bool.eqb].
  rewrite as_version_g. change (A.g_signer signer) with (g_sender signer). rewrite as_sender_g.
  destruct (sas_new_shape c enc_step r v w signer) as (a & b & ->). reflexivity.
Qed.
(* (TARGET) *)
Lemma compose_newSignDetachedStream (r : rng) (v : version) (w : gval) (signer : option bytes) :
  fst (run_func2 (A.ext_new c enc_step r) f_saltpack_newSignDetachedStream [g_version v; w; A.g_signer signer])
  = match ext_NSS c enc_step r "newSignDetachedStream" [g_version v; w; A.g_signer signer] with Some rs => ORet rs | None => OStuck "call" end.
Proof.
  rewrite A.go_newSignDetachedStream. unfold ext_NSS. cbv [String.eqb Ascii.eqb Bool.eqb].
  rewrite as_version_g. change (A.g_signer signer) with (g_sender signer). rewrite as_sender_g.
  destruct (sds_new_shape c enc_step r v w signer) as (a & b & ->). reflexivity.
Qed.

(* ext_nsss's signcryptSealStream.init on an object the literal denotes: the translated init on g_sss st *)
(* (TARGET) *)
Lemma compose_signcryptSealStream_init (o : gval) (st : B.sss_state) (boxes : list bytes) (syms : list (bytes * bytes)) (ra rk rb : bytes) :
  sss_of_lit o = Some st ->
  let r := run_func2 (B.ext_init c enc_step) f_saltpack_signcryptSealStream_init
                     [B.g_sss st; VList (map VBytes boxes); VList (map B.g_sym syms); VBytes rb; B.g_rng ra rk] in
  match ext_nsss c enc_step "signcryptSealStream.init" [o; VList (map VBytes boxes); VList (map B.g_sym syms); VBytes rb; B.g_rng ra rk] with
  | Some (e :: sss' :: _ :: _ :: ek' :: rng' :: _) =>
    fst r = ORet [e] /\ lookup "sss" (snd r) = Some sss' /\ lookup "rng" (snd r) = Some rng' /\
    lookup "ephemeralKeyCreator" (snd r) = Some ek'
  | Some _ => False
  | None => fst r = OPanic
  end.
Proof.
  intros Ho. cbv zeta. pose proof (B.go_signcryptSealStream_init c enc_step st boxes syms ra rk rb) as H. cbv zeta in H.
  unfold ext_nsss. cbv [String.eqb Ascii.eqb Bool.eqb]. unfold B.g_rng. rewrite Ho, as_bytes_list_map, B.as_syms_map.
  destruct (B.sss_init c enc_step st boxes syms ra rk rb) as [|e st' ra' rk' rb']; exact H.
Qed.
(* (TARGET) *)
Lemma compose_WR_sss (st : B.sss_state) (p : bytes) :
  let r := run_func2 (B.ext_wr c B.mem_enc) f_saltpack_signcryptSealStream_Write [B.g_sss st; VBytes p] in
  match WR_sss c (B.g_sss st) (VBytes p) with
  | Some (n, e, s') => fst r = ORet [n; g_errv e] /\ lookup "sss" (snd r) = Some s'
  | None => exists w, fst r = OStuck w
  end.
Proof.
  cbv zeta. pose proof (B.go_signcryptSealStream_Write c B.mem_enc st p) as H. cbv zeta in H. unfold WR_sss. rewrite B.as_sss_g_sss.
  destruct (B.sss_write c B.mem_enc st p) as [w|n e st']; [exists w; exact H|exact H].
Qed.
(* (TARGET) *)
Lemma compose_CL_sss (st : B.sss_state) :
  let r := run_func2 (B.ext_wr c B.mem_enc) f_saltpack_signcryptSealStream_Close [B.g_sss st] in
  match CL_sss c (B.g_sss st) with
  | Some (e, s') => fst r = ORet [g_errv e] /\ lookup "sss" (snd r) = Some s'
  | None => (exists w, fst r = OStuck w) \/ fst r = OPanic
  end.
Proof.
  cbv zeta. pose proof (B.go_signcryptSealStream_Close c B.mem_enc st) as H. cbv zeta in H. unfold CL_sss. rewrite B.as_sss_g_sss.
  destruct (B.sss_close c B.mem_enc st) as [w| |e st']; [left; exists w; exact H|right; exact H|exact H].
Qed.
End Compose2.

(* ================= the sessions of GoEndToEndEnc.v started at the exported constructors ================= *)
Section SessionStart.
Variable c : crypto.

(* (TARGET) *)
Lemma nes_session_start (v : version) (out0 : bytes) (sender : option bytes) (rcpts : list rcpt) (ra rb rc : rng) (obj : gval) :
  nes_outcome c mem_enc v (VBytes out0) sender rcpts ra rb rc = ORet [obj; VNil] ->
  E.fresh_es v out0 (fresh_st v (VBytes out0)) /\
  E.go_es_init c (g_es (fresh_st v (VBytes out0))) v sender rcpts ra rb rc = Some obj.
Proof.
  intros H. split; [apply fresh_st_fresh|]. unfold nes_outcome in H.
  destruct (es_init c mem_enc (fresh_st v (VBytes out0)) v sender rcpts ra rb rc) as [w|[[n a]|] st' ra' rb' rc'] eqn:Hi; try discriminate.
  injection H as <-. exact (E.go_es_init_spec c _ v sender rcpts ra rb rc st' ra' rb' rc' Hi).
Qed.

Lemma fresh_sss_fresh (signer : option bytes) : E.fresh_sss signer (fresh_sss (VBytes []) signer).
Proof. repeat split. Qed.

(* (TARGET) *)
Lemma nsss_session_start (signer : option bytes) (boxes : list bytes) (syms : list (bytes * bytes)) (ra rk rb : bytes) (obj : gval) :
  nsss_outcome c B.mem_enc (VBytes []) signer boxes syms ra rk rb = ORet [obj; VNil] ->
  E.fresh_sss signer (fresh_sss (VBytes []) signer) /\
  E.go_sss_init c (B.g_sss (fresh_sss (VBytes []) signer)) boxes syms ra rk rb = Some obj.
Proof.
  intros H. split; [apply fresh_sss_fresh|]. unfold nsss_outcome in H.
  destruct (B.sss_init c B.mem_enc (fresh_sss (VBytes []) signer) boxes syms ra rk rb) as [|[[n a]|] st' ra' rk' rb'] eqn:Hi; try discriminate.
  injection H as <-. exact (E.go_sss_init_spec c _ boxes syms ra rk rb st' ra' rk' rb' Hi).
Qed.
End SessionStart.

(* ================= whole sessions started at the EXPORTED constructors ================= *)
Module S := GoEndToEndSign.
Section SessionsFromConstructors.
Variable c : crypto.

(* NewEncryptStream(version, W, sender, receivers) on the in-memory writer, then the translated Write per piece
   and Close (GoEndToEndEnc.go_es_writes / go_es_close): this IS GoEndToEndEnc.go_encrypt_session on the fresh object,
   so go_encrypt_session_model / go_encrypt_end_to_end* speak about sessions opened with the exported constructor *)
(* (TARGET) *)
Theorem go_encrypt_session_from_NewEncryptStream (v : version) (out0 : bytes) (sender : option bytes) (rcpts : list rcpt)
        (ra rb rc : rng) (pieces : list bytes) (obj : gval) :
  fst (run_func2 (ext_NES c mem_enc ra rb rc) f_saltpack_NewEncryptStream
                 [g_version v; VBytes out0; g_sender sender; VList (map g_rcpt rcpts)]) = ORet [obj; VNil] ->
  E.fresh_es v out0 (fresh_st v (VBytes out0)) /\
  E.go_encrypt_session c (g_es (fresh_st v (VBytes out0))) v sender rcpts ra rb rc pieces
  = match E.go_es_writes c obj pieces with Some es2 => E.go_es_close c es2 | None => None end.
Proof.
  rewrite go_NewEncryptStream. intros H.
  assert (H' : nes_outcome c mem_enc v (VBytes out0) sender rcpts ra rb rc = ORet [obj; VNil]).
  { destruct rcpts; [discriminate|exact H]. }
  destruct (nes_session_start c v out0 sender rcpts ra rb rc obj H') as [Hf Hi].
  split; [exact Hf|]. unfold E.go_encrypt_session. rewrite Hi. reflexivity.
Qed.

(* the same for signcryption *)
(* (TARGET) *)
Theorem go_signcrypt_session_from_NewSigncryptSealStream (EK : gval) (signer : option bytes) (boxes : list bytes)
        (syms : list (bytes * bytes)) (ra rk rb : bytes) (pieces : list bytes) (obj : gval) :
  fst (run_func2 (ext_wrap (NSSS_spec c B.mem_enc ra rk rb) "newSigncryptSealStream") f_saltpack_NewSigncryptSealStream
                 [VBytes []; EK; B.g_signer signer; VList (map VBytes boxes); VList (map B.g_sym syms)]) = ORet [obj; VNil] ->
  E.fresh_sss signer (fresh_sss (VBytes []) signer) /\
  E.go_signcrypt_session c (B.g_sss (fresh_sss (VBytes []) signer)) boxes syms ra rk rb pieces
  = match E.go_sss_writes c obj pieces with Some s2 => E.go_sss_close c s2 | None => None end.
Proof.
  rewrite go_NewSigncryptSealStream_spec. intros H.
  destruct (nsss_session_start c signer boxes syms ra rk rb obj H) as [Hf Hi].
  split; [exact Hf|]. unfold E.go_signcrypt_session. rewrite Hi. reflexivity.
Qed.

(* GoEndToEndSign.go_sign_session / go_sds_open start at the exported NewSignStream / NewSignDetachedStream *)
(* (TARGET) *)
Theorem go_sign_session_from_NewSignStream (F : nat) (v : version) (sk : bytes) (pieces : list bytes) (r : rng) :
  S.go_sign_session c F v sk pieces r
  = match fst (run_func2 (ext_NSS c A.mem_enc r) f_saltpack_NewSignStream [g_version v; VBytes []; A.g_signer (Some sk)]) with
    | ORet [obj; VNil] => S.go_sas_finish c F (A.sas_complete obj) pieces
    | _ => None
    end.
Proof. unfold S.go_sign_session. rewrite go_NewSignStream, A.go_newSignAttachedStream. reflexivity. Qed.
(* (TARGET) *)
Theorem go_sds_open_from_NewSignDetachedStream (v : version) (sk : bytes) (pieces : list bytes) (r : rng) :
  S.go_sds_open c v sk pieces r
  = match fst (run_func2 (ext_NSS c A.mem_enc r) f_saltpack_NewSignDetachedStream [g_version v; VBytes []; A.g_signer (Some sk)]) with
    | ORet [obj; VNil] => S.go_sds_writes c obj pieces
    | _ => None
    end.
Proof. unfold S.go_sds_open. rewrite go_NewSignDetachedStream, A.go_newSignDetachedStream. reflexivity. Qed.
End SessionsFromConstructors.

(* ================= error classes of the one-shot specification sessions against the model ================= *)
Section ErrClasses.
Variable c : crypto.

(* Sign / SignDetached: an unknown version and a short randomness source are refused by the constructor with
   the model's error class, before anything is written (the model's sender takes a key, so a nil signer --
   ErrInvalidParameter in Go -- has no counterpart) *)
(* (TARGET) *)
Theorem sign_spec_model_err (r : rng) (v : version) (p sk : bytes) :
  (known_version v = false ->
   sign_att_spec c r v p (Some sk) = ORet [VNil; VErr "ErrBadVersion" [g_version v]] /\
   sign_det_spec c r v p (Some sk) = ORet [VNil; VErr "ErrBadVersion" [g_version v]] /\
   sign_attached c v sk p r = Err ErrBadVersion /\ sign_detached c v sk p r = Err ErrBadVersion) /\
  (known_version v = true -> read_full 16 r = None ->
   sign_att_spec c r v p (Some sk) = ORet [VNil; VErr "ErrRand" []] /\
   sign_det_spec c r v p (Some sk) = ORet [VNil; VErr "ErrRand" []] /\
   sign_attached c v sk p r = Err ErrRand /\ sign_detached c v sk p r = Err ErrRand).
Proof.
  split.
  - intros Hk. unfold sign_att_spec, sign_det_spec, A.sas_new, A.sds_new, sign_attached, sign_attached_stream, sign_detached.
    rewrite Hk. cbn [negb]. repeat split; reflexivity.
  - intros Hk Hr. unfold sign_att_spec, sign_det_spec, A.sas_new, A.sds_new, sign_attached, sign_attached_stream, sign_detached.
    rewrite Hk, Hr. cbn [negb]. repeat split; reflexivity.
Qed.

(* SigncryptSeal: the receivers check and the three draws fail with the model's error class *)
(* (TARGET) *)
Theorem signcryptSeal_spec_model_err (p : bytes) (signer : option bytes) (boxes : list bytes) (syms : list (bytes * bytes)) (r : rng) :
  let rb := fst (E.sc_model_sources boxes syms r) in
  let rk := snd (E.sc_model_sources boxes syms r) in
  (forall e, sc_check_receivers boxes syms = Err e ->
     signcryptSeal_spec c p signer boxes syms r rk rb = ORet [VNil; g_errv (B.check_err boxes syms)] /\
     B.check_err boxes syms <> None /\
     signcrypt_seal_stream c signer boxes syms [p] r = Err e) /\
  (sc_check_receivers boxes syms = Ok tt ->
   (shuffle (B.all_rcpts boxes syms) r = None \/ read_full 32 rb = None \/ read_full 32 rk = None) ->
   signcrypt_seal_stream c signer boxes syms [p] r = Err ErrRand /\
   signcryptSeal_spec c p signer boxes syms r rk rb = ORet [VNil; VErr "ErrRand" []]).
Proof.
  cbv zeta. split.
  - intros e He. destruct (B.check_err_some boxes syms e He) as (n & a & Hc).
    unfold signcryptSeal_spec, B.sss_init, signcrypt_seal_stream. rewrite He, Hc. cbn [bind].
    split; [reflexivity|]. split; [discriminate|reflexivity].
  - intros Hck Hfail. unfold signcryptSeal_spec, B.sss_init, signcrypt_seal_stream, E.sc_model_sources, B.all_rcpts in *.
    rewrite Hck. cbn [bind]. cbv zeta. cbv zeta in Hfail. cbn [fst snd] in *.
    destruct (shuffle (map BoxRcpt boxes ++ map (fun s : bytes * bytes => SymRcpt (fst s) (snd s)) syms)%list r) as [[rs r1]|]; [|split; reflexivity].
    destruct (read_full 32 r1) as [[eph r2]|]; [|split; reflexivity].
    destruct (read_full 32 r2) as [[key r3]|]; [|split; reflexivity].
    destruct Hfail as [H|[H|H]]; discriminate.
Qed.
End ErrClasses.

(* ================= the statements evaluated on concrete inputs (model/ToyCrypto.v; computed) ================= *)
From SP Require Import ToyCrypto.
Section Examples.
Let tc := toy_crypto.
Let rcpts := E.e2e_rcpts.
Let ra := E.e2e_rnd.
Let rb := fst (model_sources rcpts ra).
Let rc := snd (model_sources rcpts ra).
Let msg : bytes := [x68; x69; x21].
Let is_obj (o : outcome) : bool := match o with ORet [VStruct _; VNil] => true | _ => false end.

(* newEncryptStream: both sides of go_newEncryptStream_outcome; a success, a bad version, no receivers, short randomness *)
Let cls (o : outcome) : string :=
  match o with ORet [VNil; VErr n _] => n | ORet [VStruct _; VNil] => "object" | _ => "?" end.
Example ex_newEncryptStream :
  let inputs := [(v2, rcpts, rc); (mkV 3 0, rcpts, rc); (v2, [], rc); (v1, rcpts, [x01])] in
  let go := map (fun a : version * list rcpt * rng =>
         let '(v, rs, r3) := a in
         fst (run_func2 (ext_nes tc mem_enc) f_saltpack_newEncryptStream
                         [g_version v; VBytes []; g_sender (Some E.e2e_ssk); VList (map g_rcpt rs); VBytes rb; g_rng ra r3])) inputs in
  let spec := map (fun a : version * list rcpt * rng =>
         let '(v, rs, r3) := a in nes_outcome tc mem_enc v (VBytes []) (Some E.e2e_ssk) rs ra rb r3) inputs in
  go = spec /\ map cls go = ["object"; "ErrBadVersion"; "ErrBadReceivers"; "ErrRand"].
Proof. vm_compute. split; reflexivity. Qed.

(* NewEncryptStream: the empty list is refused before the callee runs; otherwise the callee's outcome *)
Example ex_NewEncryptStream :
  (fst (run_func2 (ext_NES tc mem_enc ra rb rc) f_saltpack_NewEncryptStream [g_version v2; VBytes []; g_sender None; VList []]),
   is_obj (fst (run_func2 (ext_NES tc mem_enc ra rb rc) f_saltpack_NewEncryptStream
                          [g_version v2; VBytes []; g_sender None; VList (map g_rcpt rcpts)])))
  = (ORet [VNil; VErr "ErrBadReceivers" []], true).
Proof. vm_compute. reflexivity. Qed.

(* seal: the specification session is the model's Seal; the evaluator with faithful externs returns the header
   packet only (NOT EXPRESSIBLE); Seal with seal = seal_spec returns the model's bytes *)
Example ex_seal :
  let model := match seal tc v2 (Some E.e2e_ssk) rcpts msg ra with Ok (w, _) => w | Err _ => [] end in
  let stale := fst (run_func2 (ext_glue (NEW_seal tc) (WR_es tc) (CL_es tc) (fun b => Some b) "newEncryptStream" 1)
                              f_saltpack_seal (seal_args v2 msg (Some E.e2e_ssk) rcpts ra rb rc)) in
  (seal_spec tc v2 msg (Some E.e2e_ssk) rcpts ra rb rc,
   match stale with ORet [VBytes h; VNil] => (Nat.ltb (List.length h) (List.length model), bytes_eqb h (firstn (List.length h) model)) | _ => (false, false) end,
   fst (run_func2 (ext_wrap (SEAL_spec tc ra rb rc) "seal") f_saltpack_Seal
                  [g_version v2; VBytes msg; g_sender (Some E.e2e_ssk); VList (map g_rcpt rcpts)]),
   fst (run_func2 (ext_wrap (SEAL_spec tc ra rb rc) "seal") f_saltpack_Seal
                  [g_version (mkV 9 9); VBytes msg; g_sender (Some E.e2e_ssk); VList (map g_rcpt rcpts)]))
  = (ORet [VBytes model; VNil], (true, true), ORet [VBytes model; VNil],
     ORet [VNil; VErr "ErrBadVersion" [g_version (mkV 9 9)]]).
Proof. vm_compute. reflexivity. Qed.
(* the sharing hypothesis of go_seal_aliased is satisfiable (Buffer.Bytes = the bytes of THE buffer at the end), and
   then the translated seal returns the model's bytes *)
Example ex_seal_aliased :
  let model := match seal tc v2 (Some E.e2e_ssk) rcpts msg ra with Ok (w, _) => w | Err _ => [] end in
  fst (run_func2 (ext_glue (NEW_seal tc) (WR_es tc) (CL_es tc) (fun _ => Some (VBytes model)) "newEncryptStream" 1)
                 f_saltpack_seal (seal_args v2 msg (Some E.e2e_ssk) rcpts ra rb rc))
  = ORet [VBytes model; VNil].
Proof. vm_compute. reflexivity. Qed.

(* Sign / SignDetached / NewSignStream *)
Let sgk : bytes := E.e2e_sgk.
Let rs : rng := repeat x31 20.
Example ex_sign :
  let m1 := match sign_attached tc v2 sgk msg rs with Ok (w, _) => w | Err _ => [] end in
  let m2 := match sign_detached tc v1 sgk msg rs with Ok (w, _) => w | Err _ => [] end in
  (fst (run_func2 (ext_sign (STS_spec tc rs) (fun b => Some b)) f_saltpack_Sign [g_version v2; VBytes msg; A.g_signer (Some sgk)]),
   fst (run_func2 (ext_sign (STS_spec tc rs) (fun b => Some b)) f_saltpack_SignDetached [g_version v1; VBytes msg; A.g_signer (Some sgk)]),
   fst (run_func2 (ext_sign (STS_spec tc rs) (fun b => Some b)) f_saltpack_Sign [g_version v2; VBytes msg; A.g_signer None]),
   fst (run_func2 (ext_sign (STS_spec tc [x00]) (fun b => Some b)) f_saltpack_SignDetached [g_version v2; VBytes msg; A.g_signer (Some sgk)]),
   (Nat.ltb 0 (List.length m1), Nat.ltb 0 (List.length m2)))
  = (ORet [VBytes m1; VNil], ORet [VBytes m2; VNil], ORet [VNil; VErr "ErrInvalidParameter" [VBytes A.msg_no_key]],
     ORet [VNil; VErr "ErrRand" []], (true, true)).
Proof. vm_compute. reflexivity. Qed.
Example ex_NewSignStream :
  (fst (run_func2 (ext_NSS tc A.mem_enc rs) f_saltpack_NewSignStream [g_version v2; VBytes []; A.g_signer (Some sgk)]),
   fst (run_func2 (ext_NSS tc A.mem_enc rs) f_saltpack_NewSignDetachedStream [g_version (mkV 7 0); VBytes []; A.g_signer (Some sgk)]))
  = (A.sas_new tc A.mem_enc v2 (VBytes []) (Some sgk) rs, ORet [VNil; VErr "ErrBadVersion" [g_version (mkV 7 0)]]).
Proof. vm_compute. reflexivity. Qed.

(* signcryption *)
Let boxes := [dh_pub tc E.e2e_sk1].
Let syms := [(E.e2e_symkey, E.e2e_ident)].
Let sra := E.e2e_sc_rnd.
Let srb := fst (E.sc_model_sources boxes syms sra).
Let srk := snd (E.sc_model_sources boxes syms sra).
Example ex_signcrypt :
  let model := match signcrypt_seal_stream tc (Some sgk) boxes syms [msg] sra with Ok (w, _) => w | Err _ => [] end in
  let args := [VBytes []; B.g_signer (Some sgk); VList (map VBytes boxes); VList (map B.g_sym syms); VBytes srb; B.g_rng sra srk] in
  (cls (fst (run_func2 (ext_nsss tc B.mem_enc) f_saltpack_newSigncryptSealStream args)),
   fst (run_func2 (ext_nsss tc B.mem_enc) f_saltpack_newSigncryptSealStream
                  [VBytes []; B.g_signer None; VList []; VList []; VBytes srb; B.g_rng sra srk]),
   fst (run_func2 (ext_wrap (SCSEAL_spec tc sra srk srb) "signcryptSeal") f_saltpack_SigncryptSeal
                  [VBytes msg; VNil; B.g_signer (Some sgk); VList (map VBytes boxes); VList (map B.g_sym syms)]),
   match fst (run_func2 (ext_glue (NEW_sc tc) (WR_sss tc) (CL_sss tc) (fun b => Some b) "newSigncryptSealStream" 0)
                        f_saltpack_signcryptSeal (scseal_args msg (Some sgk) boxes syms sra srk srb)) with
   | ORet [VBytes h; VNil] => Nat.ltb (List.length h) (List.length model)
   | _ => false
   end)
  = ("object", ORet [VNil; VErr "ErrBadReceivers" []], ORet [VBytes model; VNil], true) /\
  fst (run_func2 (ext_nsss tc B.mem_enc) f_saltpack_newSigncryptSealStream
         [VBytes []; B.g_signer (Some sgk); VList (map VBytes boxes); VList (map B.g_sym syms); VBytes srb; B.g_rng sra srk])
  = nsss_outcome tc B.mem_enc (VBytes []) (Some sgk) boxes syms sra srk srb.
Proof. vm_compute. split; reflexivity. Qed.
End Examples.
