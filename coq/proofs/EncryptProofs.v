(* EncryptProofs.v — encryption mode: every recipient position recovers the
   plaintext and the key attribution; strangers get ErrNoDecryptionKey.
   Statements marked (TARGET) are used verbatim by props/. *)
From Coq Require Import List NArith ZArith Bool Lia ZifyN ZifyNat ZifyBool Permutation.
From Coq.Strings Require Import Byte.
From SP Require Import Bytes Params Msgpack Crypto Errors Nonce Packets Chunker Rand Verify Encrypt Decrypt
     MsgpackProofs ChunkerProofs RandProofs.
Import ListNotations.
Open Scope N_scope.

Definition good_validator_e (vd : validator) (v : version) : Prop := vd = AnyKnownMajor \/ vd = Single v.

(* ---------- generic facts ---------- *)

Lemma bytes_eqb_refl (a : bytes) : bytes_eqb a a = true.
Proof.
  induction a as [|x a IH]; [reflexivity|]. cbn [bytes_eqb].
  rewrite (Byte.byte_dec_lb (eq_refl x)), IH. reflexivity.
Qed.

Lemma bytes_eqb_true (a : bytes) : forall b, bytes_eqb a b = true -> a = b.
Proof.
  induction a as [|x a IH]; intros [|y b] H; cbn [bytes_eqb] in H; try discriminate; [reflexivity|].
  apply andb_true_iff in H as [H1 H2]. apply Byte.byte_dec_bl in H1. apply IH in H2. congruence.
Qed.

Lemma bytes_eqb_neq (a b : bytes) : a <> b -> bytes_eqb a b = false.
Proof.
  intro H. destruct (bytes_eqb a b) eqn:E; [|reflexivity]. apply bytes_eqb_true in E. contradiction.
Qed.

Lemma bytes_eq_dec (a b : bytes) : {a = b} + {a <> b}.
Proof.
  destruct (bytes_eqb a b) eqn:E.
  - left. apply bytes_eqb_true. exact E.
  - right. intros ->. rewrite bytes_eqb_refl in E. discriminate.
Qed.

Lemma version_eqb_true (a b : version) : version_eqb a b = true -> a = b.
Proof.
  destruct a as [a1 a2], b as [b1 b2]. unfold version_eqb. cbn [vmaj vmin]. intro H.
  apply andb_true_iff in H as [H1 H2]. apply Z.eqb_eq in H1. apply Z.eqb_eq in H2. congruence.
Qed.

Lemma version_eqb_refl (a : version) : version_eqb a a = true.
Proof. unfold version_eqb. rewrite !Z.eqb_refl. reflexivity. Qed.

Lemma known_version_cases (v : version) : known_version v = true -> v = v1 \/ v = v2.
Proof.
  unfold known_version, known_versions. cbn [existsb]. rewrite orb_false_r. intro H.
  apply orb_true_iff in H as [H|H]; apply version_eqb_true in H; auto.
Qed.

Lemma enc_block_size_N : N.of_nat enc_block_size = 1048576.
Proof. unfold enc_block_size. rewrite Z_nat_N. reflexivity. Qed.

Lemma enc_block_size_pos : (0 < enc_block_size)%nat.
Proof. pose proof enc_block_size_N. lia. Qed.

Lemma skipn_skipn' {A} (a : nat) : forall (b : nat) (l : list A), skipn a (skipn b l) = skipn (b + a) l.
Proof.
  intros b. induction b as [|b IH]; intros l; [reflexivity|].
  destruct l as [|x l]; [rewrite !skipn_nil; reflexivity|]. cbn [skipn Nat.add]. apply IH.
Qed.

Lemma has_dup_false (l : list bytes) : has_dup l = false -> NoDup l.
Proof.
  induction l as [|x t IH]; intro H; [constructor|].
  cbn [has_dup] in H. apply orb_false_iff in H as [H1 H2]. constructor; [|auto].
  intro Hin. assert (E : existsb (bytes_eqb x) t = true).
  { apply existsb_exists. exists x. split; [exact Hin|apply bytes_eqb_refl]. }
  congruence.
Qed.

(* ---------- lists, [mapi_from], [fit] ---------- *)

Lemma fit_id (n : nat) (b : bytes) : length b = n -> fit n b = b.
Proof.
  intros <-. unfold fit. rewrite firstn_all, Nat.sub_diag. unfold zeros. cbn [repeat]. apply app_nil_r.
Qed.

Lemma mapi_from_length {A B} (f : N -> A -> B) (l : list A) : forall s, length (mapi_from f s l) = length l.
Proof. induction l as [|x t IH]; intros s; cbn [mapi_from length]; [reflexivity|]. rewrite IH. reflexivity. Qed.

Lemma nth_error_mapi_from {A B} (f : N -> A -> B) (l : list A) : forall s i,
  nth_error (mapi_from f s l) i = option_map (f (s + N.of_nat i)) (nth_error l i).
Proof.
  induction l as [|x t IH]; intros s i.
  - destruct i; reflexivity.
  - destruct i as [|i]; cbn [mapi_from nth_error].
    + cbn [option_map N.of_nat]. rewrite N.add_0_r. reflexivity.
    + rewrite IH. replace (s + 1 + N.of_nat i) with (s + N.of_nat (S i)) by lia. reflexivity.
Qed.

Lemma nth_error_mapi_from_some {A B} (f : N -> A -> B) (l : list A) (s : N) (i : nat) (x : A) :
  nth_error l i = Some x -> nth_error (mapi_from f s l) i = Some (f (s + N.of_nat i) x).
Proof. intro H. rewrite nth_error_mapi_from, H. reflexivity. Qed.

Lemma map_mapi_from {A B C} (g : B -> C) (f : N -> A -> B) (l : list A) : forall s,
  map g (mapi_from f s l) = mapi_from (fun i x => g (f i x)) s l.
Proof. induction l as [|x t IH]; intros s; cbn [mapi_from map]; [reflexivity|]. rewrite IH. reflexivity. Qed.

Lemma mapi_from_ext {A B} (f g : N -> A -> B) (l : list A) : (forall i x, f i x = g i x) ->
  forall s, mapi_from f s l = mapi_from g s l.
Proof. intros H. induction l as [|x t IH]; intros s; cbn [mapi_from]; [reflexivity|]. rewrite H, IH. reflexivity. Qed.

(* ---------- views of the sender's wire values ---------- *)

(* what the receiver sees of a receiverKeys entry: a nil KID is an empty slice *)
Definition rv (e : option bytes * bytes) : bytes * bytes :=
  (match fst e with Some k => k | None => [] end, snd e).

Lemma view_receiver_mv (e : option bytes * bytes) : view_receiver (mv_receiver e) = DOk (rv e).
Proof. destruct e as [[k|] b]; reflexivity. Qed.

Lemma view_list_map_receiver (es : list (option bytes * bytes)) :
  view_list view_receiver (map mv_receiver es) = DOk (map rv es).
Proof.
  induction es as [|e t IH]; [reflexivity|]. cbn [map view_list].
  rewrite view_receiver_mv. cbn [dbind]. rewrite IH. reflexivity.
Qed.

Lemma view_enc_header_mv (v : version) (typ : Z) (eph sbox : bytes) (es : list (option bytes * bytes)) :
  (vmaj v <= 9223372036854775807)%Z -> (vmin v <= 9223372036854775807)%Z ->
  (typ <= 9223372036854775807)%Z ->
  view_enc_header (mv_enc_header v typ eph sbox es) =
  DOk (mkHeader format_name v typ eph sbox (map rv es)).
Proof.
  intros H1 H2 H3. destruct v as [maj mi]. cbn [vmaj vmin] in *.
  unfold view_enc_header, mv_enc_header, mv_version, view_version.
  cbn [as_array dbind field nth as_string as_int as_bytes vmaj vmin].
  apply Z.leb_le in H1. apply Z.leb_le in H2. apply Z.leb_le in H3.
  rewrite H1. cbn [dbind field nth as_int]. rewrite H2. cbn [dbind]. rewrite H3. cbn [dbind].
  rewrite view_list_map_receiver. reflexivity.
Qed.

Lemma view_list_auth (auths : list bytes) : view_list view_auth (map MBin auths) = DOk (map (fit 32) auths).
Proof.
  induction auths as [|a t IH]; [reflexivity|]. cbn [map view_list].
  unfold view_auth at 1. cbn [as_bytes dbind]. rewrite IH. reflexivity.
Qed.

Lemma view_enc_block_mv (v : version) (auths : list bytes) (ct : bytes) (final : bool) :
  view_enc_block v (mv_enc_block v auths ct final) =
  DOk (map (fit 32) auths, ct, if (vmaj v =? 1)%Z then Nat.eqb (length ct) 16 else final).
Proof.
  unfold view_enc_block, mv_enc_block. destruct (vmaj v =? 1)%Z;
    cbn [as_array dbind field nth as_bool as_bytes]; rewrite view_list_auth; reflexivity.
Qed.

(* ---------- well-formedness of the sender's wire values ---------- *)

Lemma wf_arr (l : list mval) : wf (MArr l) <-> (N.of_nat (length l) < 4294967296 /\ wf_all l).
Proof. split; intro H; exact H. Qed.

Lemma wf_all_cons (x : mval) (t : list mval) : wf_all (x :: t) <-> (wf x /\ wf_all t).
Proof. split; intro H; exact H. Qed.

Lemma wf_all_map_bin (l : list bytes) : Forall (fun b => len b < 4294967296) l -> wf_all (map MBin l).
Proof.
  induction 1 as [|b t Hb Ht IH]; [exact I|]. cbn [map]. apply wf_all_cons. split; [exact Hb|exact IH].
Qed.

Definition entry_fits (e : option bytes * bytes) : Prop :=
  match fst e with Some k => len k < 4294967296 | None => True end /\ len (snd e) < 4294967296.

Lemma wf_all_map_receiver (es : list (option bytes * bytes)) :
  Forall entry_fits es -> wf_all (map mv_receiver es).
Proof.
  induction 1 as [|e t He Ht IH]; [exact I|]. cbn [map]. apply wf_all_cons. split; [|exact IH].
  destruct He as [H1 H2]. unfold mv_receiver. apply wf_arr. split; [cbn [length]; lia|].
  apply wf_all_cons. split; [destruct (fst e); [exact H1|exact I]|].
  apply wf_all_cons. split; [exact H2|exact I].
Qed.

Lemma format_name_fits : len format_name < 4294967296.
Proof. vm_compute. reflexivity. Qed.

Lemma wf_enc_header (v : version) (typ : Z) (eph sbox : bytes) (es : list (option bytes * bytes)) :
  (-9223372036854775808 <= vmaj v < 18446744073709551616)%Z ->
  (-9223372036854775808 <= vmin v < 18446744073709551616)%Z ->
  (-9223372036854775808 <= typ < 18446744073709551616)%Z ->
  len eph < 4294967296 -> len sbox < 4294967296 ->
  N.of_nat (length es) < 4294967296 -> Forall entry_fits es ->
  wf (mv_enc_header v typ eph sbox es).
Proof.
  intros H1 H2 H3 H4 H5 H6 H7. unfold mv_enc_header, mv_version.
  apply wf_arr. split; [cbn [length]; lia|].
  apply wf_all_cons. split; [exact format_name_fits|].
  apply wf_all_cons. split.
  { apply wf_arr. split; [cbn [length]; lia|].
    apply wf_all_cons. split; [exact H1|]. apply wf_all_cons. split; [exact H2|exact I]. }
  apply wf_all_cons. split; [exact H3|].
  apply wf_all_cons. split; [exact H4|].
  apply wf_all_cons. split; [exact H5|].
  apply wf_all_cons. split; [|exact I].
  apply wf_arr. split; [rewrite map_length; exact H6|]. apply wf_all_map_receiver. exact H7.
Qed.

Lemma wf_enc_block (v : version) (auths : list bytes) (ct : bytes) (final : bool) :
  N.of_nat (length auths) < 4294967296 -> Forall (fun b => len b < 4294967296) auths ->
  len ct < 4294967296 -> wf (mv_enc_block v auths ct final).
Proof.
  intros H1 H2 H3. unfold mv_enc_block. destruct (vmaj v =? 1)%Z.
  - apply wf_arr. split; [cbn [length]; lia|].
    apply wf_all_cons. split.
    { apply wf_arr. split; [rewrite map_length; exact H1|apply wf_all_map_bin; exact H2]. }
    apply wf_all_cons. split; [exact H3|exact I].
  - apply wf_arr. split; [cbn [length]; lia|].
    apply wf_all_cons. split; [exact I|].
    apply wf_all_cons. split.
    { apply wf_arr. split; [rewrite map_length; exact H1|apply wf_all_map_bin; exact H2]. }
    apply wf_all_cons. split; [exact H3|exact I].
Qed.

Lemma mp_read_encode_nil (v : mval) : wf v -> mp_read (mp_encode v) = POk v [].
Proof. intro H. rewrite <- (app_nil_r (mp_encode v)). apply mp_read_encode. exact H. Qed.

(* a visible key identifier is a sub-string of the encoded header *)
Lemma enc_list_receiver_bound (es : list (option bytes * bytes)) (e : option bytes * bytes) (k : bytes) :
  In e es -> fst e = Some k -> (length k <= length (enc_list (map mv_receiver es)))%nat.
Proof.
  induction es as [|x t IH]; intros Hin Hk; [destruct Hin|].
  cbn [map enc_list]. rewrite app_length. destruct Hin as [->|Hin].
  - unfold mv_receiver. rewrite Hk, mp_encode_arr. cbn [enc_list]. rewrite !app_length.
    cbn [mp_encode]. rewrite app_length. lia.
  - specialize (IH Hin Hk). lia.
Qed.

Lemma enc_header_len_rcv (v : version) (typ : Z) (eph sbox : bytes) (es : list (option bytes * bytes)) :
  (length (enc_list (map mv_receiver es)) <= length (mp_encode (mv_enc_header v typ eph sbox es)))%nat.
Proof.
  unfold mv_enc_header. rewrite mp_encode_arr. cbn [enc_list].
  rewrite (mp_encode_arr (map mv_receiver es)). rewrite !app_length. lia.
Qed.

(* ---------- versions ---------- *)

Lemma vmaj_cases (v : version) : v = v1 \/ v = v2 ->
  ((vmaj v =? 1)%Z = true) \/ ((vmaj v =? 1)%Z = false /\ (vmaj v =? 2)%Z = true).
Proof. intros [->| ->]; [left|right]; [|split]; reflexivity. Qed.

Lemma version_ranges (v : version) : v = v1 \/ v = v2 ->
  (0 <= vmaj v <= 2)%Z /\ (0 <= vmin v <= 2)%Z.
Proof. intros [->| ->]; vm_compute; intuition discriminate. Qed.

Lemma validate_good (vd : validator) (v : version) : v = v1 \/ v = v2 -> good_validator_e vd v ->
  validate_version vd v = true.
Proof.
  intros Hv [->| ->]; cbn [validate_version].
  - destruct Hv as [->| ->]; reflexivity.
  - apply version_eqb_refl.
Qed.

(* ---------- the shape every plan has ---------- *)

Fixpoint plan_ok (v : version) (B : nat) (n : N) (ps : list (bytes * bool)) : Prop :=
  match ps with
  | [] => True
  | (ch, fin) :: t =>
    (length ch <= B)%nat /\ check_chunk_state v (length ch) n fin = Ok tt /\
    (fin = true -> t = []) /\ (fin = false -> t <> []) /\ plan_ok v B (n + 1) t
  end.

Lemma plan_ok_marked (v : version) (B : nat) (y : bytes) : forall (cs : list bytes) (n : N),
  (forall i ch f, nth_error (nonfinal cs ++ [(y, true)]) i = Some (ch, f) ->
     check_chunk_state v (length ch) (n + N.of_nat i) f = Ok tt) ->
  Forall (fun p => (length (fst p) <= B)%nat) (nonfinal cs ++ [(y, true)]) ->
  plan_ok v B n (nonfinal cs ++ [(y, true)]).
Proof.
  induction cs as [|a cs IH]; intros n H F.
  - cbn [nonfinal map app plan_ok] in *. inversion F as [|? ? Fy _]; subst. cbn [fst] in Fy.
    split; [exact Fy|]. split; [|split; [reflexivity|split; [discriminate|exact I]]].
    specialize (H 0%nat y true eq_refl). rewrite N.add_0_r in H. exact H.
  - unfold nonfinal in *. cbn [map app plan_ok] in *. inversion F as [|? ? Fa Ft]; subst. cbn [fst] in Fa.
    split; [exact Fa|]. split.
    { specialize (H 0%nat a false eq_refl). rewrite N.add_0_r in H. exact H. }
    split; [discriminate|]. split.
    { intros _. destruct (map (fun c : bytes => (c, false)) cs); discriminate. }
    apply IH; [|exact Ft]. intros i ch f Hi. specialize (H (S i) ch f Hi).
    replace (n + 1 + N.of_nat i) with (n + N.of_nat (S i)) by lia. exact H.
Qed.

Lemma plan_ok_plan (v : version) (B : nat) (msg : bytes) :
  (0 < B)%nat -> (vmaj v = 1 \/ vmaj v = 2)%Z ->
  plan_ok v B 0 (plan v B msg) /\ plan v B msg <> [].
Proof.
  intros HB Hv.
  pose proof (plan_chunk_state v B msg HB Hv) as Hs.
  pose proof (plan_chunk_bound v B msg HB) as Hb.
  assert (E : exists cs y, plan v B msg = nonfinal cs ++ [(y, true)]).
  { unfold plan. destruct (vmaj v =? 1)%Z.
    - destruct (plan_v1_shape B msg HB) as (cs & E & _). exists cs, []. exact E.
    - destruct (plan_v2_shape B msg HB) as (cs & y & E & _). exists cs, y. exact E. }
  destruct E as (cs & y & E). rewrite E in *. split.
  - apply plan_ok_marked; [|exact Hb]. intros i ch f Hi. rewrite N.add_0_l. apply Hs. exact Hi.
  - destruct (nonfinal cs); discriminate.
Qed.

Section RT.
Variable c : crypto.
Hypothesis Hc : crypto_ok c.

(* the ways trial decryption of another recipient's payload-key box could go
   wrong; each is a break of a NaCl primitive, not excluded by [crypto_ok] *)
Definition WrongKeyOpen : Prop :=
  exists k k' n m, k <> k' /\ sb_open c k' n (sb_seal c k n m) <> None.
Definition DhCollision : Prop :=
  exists a p p', p <> p' /\ dh_shared c a p = dh_shared c a p'.
Definition CryptoBreakRT : Prop := WrongKeyOpen \/ DhCollision.

(* ---------- the header the sender emits ---------- *)

(* the encoded header of [seal_core] *)
Definition enc_header_bytes (v : version) (sender : option bytes) (eph_sk pkey : bytes)
           (rs : list rcpt) : bytes :=
  mp_encode (mv_enc_header v mt_encryption (dh_pub c eph_sk)
               (sb_seal c pkey nonce_sender_key_sbox
                  (dh_pub c (match sender with Some s => s | None => eph_sk end)))
               (mapi_from (enc_receiver_entry c v eph_sk pkey) 0 rs)).

Definition enc_mac_keys (v : version) (sender : option bytes) (eph_sk : bytes) (hh : bytes)
           (rs : list rcpt) : list bytes :=
  mapi_from (fun i rc => mac_key_sender c v i (match sender with Some s => s | None => eph_sk end)
                                        eph_sk (fst rc) hh) 0 rs.

Lemma seal_core_unfold (v : version) (sender : option bytes) (eph_sk pkey : bytes)
      (rs : list rcpt) (pieces : list bytes) :
  seal_core c v sender eph_sk pkey rs pieces =
  let hdr := enc_header_bytes v sender eph_sk pkey rs in
  bind (encrypt_packets c v pkey (sha512 c hdr) (enc_mac_keys v sender eph_sk (sha512 c hdr) rs) 0
          (plan v enc_block_size (concat pieces)))
       (fun body => Ok (mp_encode (MBin hdr) ++ body)).
Proof.
  unfold seal_core. rewrite cw_session_plan by apply enc_block_size_pos. reflexivity.
Qed.

Section Fixed.
Variables (v : version) (eph_sk pkey sk pk : bytes).
Hypothesis Hv : v = v1 \/ v = v2.
Hypothesis Hpkey : length pkey = 32%nat.
Hypothesis Hpk : pk = dh_pub c sk.

Definition nonce_of (j : N) : bytes :=
  match nonce_payload_key_box v j with Some n => n | None => [] end.

Lemma nonce_some (j : N) : nonce_payload_key_box v j = Some (nonce_of j).
Proof. unfold nonce_of. destruct Hv as [->| ->]; reflexivity. Qed.

(* the receiver's view of the entry of recipient [r] at position [j] *)
Definition rcv_of (j : N) (r : rcpt) : bytes * bytes :=
  (if snd r then [] else fst r, sb_seal c (dh_shared c eph_sk (fst r)) (nonce_of j) pkey).

Lemma rcvs_eq (rs : list rcpt) (s : N) :
  map rv (mapi_from (enc_receiver_entry c v eph_sk pkey) s rs) = mapi_from rcv_of s rs.
Proof.
  rewrite map_mapi_from. apply mapi_from_ext. intros i [k h].
  unfold rv, enc_receiver_entry, rcv_of, nonce_of. cbn [fst snd]. destruct h; reflexivity.
Qed.

Definition ring1 : keyring := mkRing [(sk, pk)] None.

Lemma find_key_single (kid : bytes) :
  find_key ring1 kid = if bytes_eqb pk kid then Some (sk, pk) else None.
Proof. reflexivity. Qed.

Definition shared : bytes := dh_shared c eph_sk pk.

Lemma shared_eq : dh_shared c sk (dh_pub c eph_sk) = shared.
Proof. unfold shared. rewrite Hpk. apply (ok_dh c Hc). Qed.

(* the one event the round trip has to exclude: the payload-key box sealed for ANOTHER
   recipient key of this very message opens under OUR shared key.  [s] is the position of
   the head of [rs] in the whole recipient list. *)
Definition foreign_box_opens_from (s : N) (rs : list rcpt) : Prop :=
  exists j r, nth_error rs j = Some r /\ fst r <> pk /\
    sb_open c shared (nonce_of (s + N.of_nat j))
      (sb_seal c (dh_shared c eph_sk (fst r)) (nonce_of (s + N.of_nat j)) pkey) <> None.
Definition ForeignBoxOpens (rs : list rcpt) : Prop := foreign_box_opens_from 0 rs.

Lemma fbo_here (s : N) (r : rcpt) (t : list rcpt) : fst r <> pk ->
  sb_open c shared (nonce_of s) (sb_seal c (dh_shared c eph_sk (fst r)) (nonce_of s) pkey) <> None ->
  foreign_box_opens_from s (r :: t).
Proof.
  intros Hr Ho. exists 0%nat, r. cbn [N.of_nat]. rewrite N.add_0_r. split; [reflexivity|]. split; assumption.
Qed.

Lemma fbo_cons (s : N) (r : rcpt) (t : list rcpt) :
  foreign_box_opens_from (s + 1) t -> foreign_box_opens_from s (r :: t).
Proof.
  intros (j & r0 & Hj & Hr & Ho). exists (S j), r0.
  replace (s + N.of_nat (S j)) with (s + 1 + N.of_nat j) by (clear; lia). split; [exact Hj|]. split; assumption.
Qed.

(* such an event breaks secretbox (it opens under a wrong key) or is a DH collision *)
Lemma foreign_box_break (s : N) (rs : list rcpt) : foreign_box_opens_from s rs -> CryptoBreakRT.
Proof.
  intros (j & r & _ & Hr & Ho).
  destruct (bytes_eq_dec (dh_shared c eph_sk (fst r)) shared) as [Eq|Ne].
  - right. exists eph_sk. exists (fst r). exists pk. split; assumption.
  - left. exists (dh_shared c eph_sk (fst r)), shared, (nonce_of (s + N.of_nat j)), pkey.
    split; assumption.
Qed.

Lemma sym_key_pkey : sym_key pkey = Ok pkey.
Proof. unfold sym_key. rewrite Hpkey. reflexivity. Qed.

(* ---- tryHiddenReceivers ---- *)

Lemma thb_cons (r : rcpt) (t : list (bytes * bytes)) (s : N) :
  try_hidden_boxes c v shared (rcv_of s r :: t) s =
  match (if snd r then [] else fst r) with
  | [] => match sb_open c shared (nonce_of s) (sb_seal c (dh_shared c eph_sk (fst r)) (nonce_of s) pkey) with
          | None => try_hidden_boxes c v shared t (s + 1)
          | Some p => bind (sym_key p) (fun key => Ok (Some (key, s)))
          end
  | _ => try_hidden_boxes c v shared t (s + 1)
  end.
Proof.
  unfold rcv_of. cbn [try_hidden_boxes].
  destruct (if snd r then [] else fst r); [|reflexivity]. rewrite nonce_some. reflexivity.
Qed.

Lemma thb_none (rs : list rcpt) : forall s, (forall r, In r rs -> fst r <> pk) ->
  try_hidden_boxes c v shared (mapi_from rcv_of s rs) s = Ok None \/ foreign_box_opens_from s rs.
Proof.
  induction rs as [|r t IH]; intros s H; [left; reflexivity|].
  cbn [mapi_from]. rewrite thb_cons.
  assert (Ht : forall r, In r t -> fst r <> pk) by (intros r' Hr'; apply H; right; exact Hr').
  assert (Hr : fst r <> pk) by (apply H; left; reflexivity).
  assert (IH' : try_hidden_boxes c v shared (mapi_from rcv_of (s + 1) t) (s + 1) = Ok None \/
                foreign_box_opens_from s (r :: t)).
  { destruct (IH (s + 1) Ht) as [E|Bk]; [left; exact E|right; apply fbo_cons; exact Bk]. }
  destruct (if snd r then [] else fst r); [|exact IH'].
  destruct (sb_open c shared (nonce_of s) (sb_seal c (dh_shared c eph_sk (fst r)) (nonce_of s) pkey))
    as [x|] eqn:E; [|exact IH'].
  right. apply fbo_here; [exact Hr|]. rewrite E. discriminate.
Qed.

Lemma thb_find (rs : list rcpt) : forall s i,
  nth_error rs i = Some (pk, true) ->
  (forall j r, j <> i -> nth_error rs j = Some r -> fst r <> pk) ->
  try_hidden_boxes c v shared (mapi_from rcv_of s rs) s = Ok (Some (pkey, s + N.of_nat i)) \/
  foreign_box_opens_from s rs.
Proof.
  induction rs as [|r t IH]; intros s i Hi Hd; [destruct i; discriminate|].
  cbn [mapi_from]. rewrite thb_cons. destruct i as [|i].
  - cbn [nth_error] in Hi. injection Hi as ->. cbn [fst snd]. unfold shared.
    rewrite (ok_sb c Hc), sym_key_pkey. cbn [bind N.of_nat]. rewrite N.add_0_r. left. reflexivity.
  - cbn [nth_error] in Hi.
    assert (Ht : forall j r0, j <> i -> nth_error t j = Some r0 -> fst r0 <> pk).
    { intros j r0 Hj Hr0. apply (Hd (S j)); [lia|exact Hr0]. }
    assert (Hr : fst r <> pk) by (apply (Hd 0%nat); [lia|reflexivity]).
    replace (s + N.of_nat (S i)) with (s + 1 + N.of_nat i) by lia.
    assert (IH' : try_hidden_boxes c v shared (mapi_from rcv_of (s + 1) t) (s + 1)
                  = Ok (Some (pkey, s + 1 + N.of_nat i)) \/ foreign_box_opens_from s (r :: t)).
    { destruct (IH (s + 1) i Hi Ht) as [E|Bk]; [left; exact E|right; apply fbo_cons; exact Bk]. }
    destruct (if snd r then [] else fst r); [|exact IH'].
    destruct (sb_open c shared (nonce_of s) (sb_seal c (dh_shared c eph_sk (fst r)) (nonce_of s) pkey))
      as [x|] eqn:E; [|exact IH'].
    right. apply fbo_here; [exact Hr|]. rewrite E. discriminate.
Qed.

(* ---- tryVisibleReceivers ---- *)

Lemma nwi_cons (r : rcpt) (t : list (bytes * bytes)) (s : N) :
  named_with_index (rcv_of s r :: t) s =
  match (if snd r then [] else fst r) with
  | [] => named_with_index t (s + 1)
  | b :: k => (s, b :: k) :: named_with_index t (s + 1)
  end.
Proof. unfold rcv_of. cbn [named_with_index]. destruct (if snd r then [] else fst r); reflexivity. Qed.

Lemma lbs_none (rs : list rcpt) : forall s k0,
  (forall r, In r rs -> snd r = false -> fst r <> pk) ->
  lookup_box_secret ring1 (map snd (named_with_index (mapi_from rcv_of s rs) s)) k0 = None.
Proof.
  induction rs as [|r t IH]; intros s k0 H; [reflexivity|].
  cbn [mapi_from]. rewrite nwi_cons.
  assert (Ht : forall r, In r t -> snd r = false -> fst r <> pk) by (intros r' Hr'; apply H; right; exact Hr').
  specialize (H r (or_introl eq_refl)). destruct r as [p h]. cbn [fst snd] in *.
  destruct h; [apply IH; exact Ht|]. destruct p as [|b p]; [apply IH; exact Ht|].
  cbn [map snd lookup_box_secret]. rewrite find_key_single.
  rewrite bytes_eqb_neq by (intro E; apply H; [reflexivity|symmetry; exact E]).
  apply IH. exact Ht.
Qed.

Lemma lbs_found (rs : list rcpt) : forall s k0 i,
  pk <> [] -> nth_error rs i = Some (pk, false) ->
  (forall j r, j <> i -> nth_error rs j = Some r -> fst r <> pk) ->
  exists j,
    lookup_box_secret ring1 (map snd (named_with_index (mapi_from rcv_of s rs) s)) k0
      = Some ((k0 + j)%nat, (sk, pk)) /\
    nth_error (named_with_index (mapi_from rcv_of s rs) s) j = Some (s + N.of_nat i, pk).
Proof.
  induction rs as [|r t IH]; intros s k0 i Hne Hi Hd; [destruct i; discriminate|].
  cbn [mapi_from]. rewrite nwi_cons. destruct i as [|i].
  - cbn [nth_error] in Hi. injection Hi as ->. cbn [fst snd].
    destruct pk as [|b p] eqn:Epk; [contradiction|]. exists 0%nat.
    cbn [map snd lookup_box_secret nth_error]. rewrite find_key_single, Epk, bytes_eqb_refl.
    rewrite Nat.add_0_r. cbn [N.of_nat]. rewrite N.add_0_r. split; reflexivity.
  - cbn [nth_error] in Hi.
    assert (Ht : forall j r0, j <> i -> nth_error t j = Some r0 -> fst r0 <> pk).
    { intros j r0 Hj Hr0. apply (Hd (S j)); [lia|exact Hr0]. }
    assert (Hr : fst r <> pk) by (apply (Hd 0%nat); [lia|reflexivity]).
    replace (s + N.of_nat (S i)) with (s + 1 + N.of_nat i) by lia.
    destruct r as [p h]. cbn [fst snd] in *.
    destruct h; [apply IH; assumption|]. destruct p as [|b p]; [apply IH; assumption|].
    destruct (IH (s + 1) (S k0) i Hne Hi Ht) as (j & L & Nj). exists (S j).
    cbn [map snd lookup_box_secret nth_error]. rewrite find_key_single.
    rewrite bytes_eqb_neq by (intro E; apply Hr; symmetry; exact E).
    rewrite L. split; [|exact Nj]. f_equal. f_equal. lia.
Qed.

Lemma rcv_box (rs : list rcpt) (i : nat) (r : rcpt) : nth_error rs i = Some r ->
  snd (nth i (mapi_from rcv_of 0 rs) ([], [])) =
  sb_seal c (dh_shared c eph_sk (fst r)) (nonce_of (N.of_nat i)) pkey.
Proof.
  intro H. erewrite nth_error_nth; [|rewrite nth_error_mapi_from, H; reflexivity].
  rewrite N.add_0_l. reflexivity.
Qed.

Lemma try_visible_none (rs : list rcpt) :
  (forall r, In r rs -> snd r = false -> fst r <> pk) ->
  try_visible c ring1 v (dh_pub c eph_sk) (mapi_from rcv_of 0 rs) = Ok None.
Proof. intro H. unfold try_visible. rewrite lbs_none by exact H. reflexivity. Qed.

Lemma try_visible_found (rs : list rcpt) (i : nat) :
  nth_error rs i = Some (pk, false) ->
  (forall j r, j <> i -> nth_error rs j = Some r -> fst r <> pk) ->
  try_visible c ring1 v (dh_pub c eph_sk) (mapi_from rcv_of 0 rs) = Ok (Some ((sk, pk), pkey, N.of_nat i)).
Proof.
  intros Hi Hd. unfold try_visible.
  assert (Hne : pk <> []).
  { intro E. pose proof (ok_dh_pub_len c Hc sk) as L. rewrite <- Hpk, E in L. discriminate. }
  destruct (lbs_found rs 0 0%nat i Hne Hi Hd) as (j & L & Nj).
  rewrite L. cbn [Nat.add]. rewrite Nj. rewrite N.add_0_l, nonce_some.
  cbn [fst]. unfold box_open. rewrite shared_eq, Nat2N.id.
  rewrite (rcv_box rs i _ Hi). cbn [fst]. unfold shared. rewrite (ok_sb c Hc), sym_key_pkey. reflexivity.
Qed.

Lemma try_hidden_none (rs : list rcpt) : (forall r, In r rs -> fst r <> pk) ->
  try_hidden c (kr_keys ring1) v (dh_pub c eph_sk) (mapi_from rcv_of 0 rs) = Ok None \/ ForeignBoxOpens rs.
Proof.
  intro H. cbn [ring1 kr_keys try_hidden fst]. rewrite shared_eq.
  destruct (thb_none rs 0 H) as [E|Bk]; [|right; exact Bk]. rewrite E. left. reflexivity.
Qed.

Lemma try_hidden_found (rs : list rcpt) (i : nat) :
  nth_error rs i = Some (pk, true) ->
  (forall j r, j <> i -> nth_error rs j = Some r -> fst r <> pk) ->
  try_hidden c (kr_keys ring1) v (dh_pub c eph_sk) (mapi_from rcv_of 0 rs)
    = Ok (Some ((sk, pk), pkey, N.of_nat i)) \/ ForeignBoxOpens rs.
Proof.
  intros Hi Hd. cbn [ring1 kr_keys try_hidden fst]. rewrite shared_eq.
  destruct (thb_find rs 0 i Hi Hd) as [E|Bk]; [|right; exact Bk]. rewrite E, N.add_0_l. left. reflexivity.
Qed.

End Fixed.

(* ---------- MAC keys ---------- *)

Lemma mac_single_comm (a b n : bytes) :
  mac_key_single c a (dh_pub c b) n = mac_key_single c b (dh_pub c a) n.
Proof. unfold mac_key_single, box_seal. rewrite (ok_dh c Hc a b). reflexivity. Qed.

Lemma mac_key_agree (v : version) (idx : N) (sk sender_sk eph_sk hh : bytes) :
  v = v1 \/ v = v2 ->
  mac_key_receiver c v idx sk (dh_pub c sender_sk) (dh_pub c eph_sk) hh =
  Some (mac_key_sender c v idx sender_sk eph_sk (dh_pub c sk) hh).
Proof.
  intro Hv. unfold mac_key_receiver, mac_key_sender.
  destruct (vmaj_cases v Hv) as [E|[E1 E2]].
  - rewrite E. rewrite mac_single_comm. reflexivity.
  - rewrite E1, E2. rewrite (mac_single_comm sk sender_sk), (mac_single_comm sk eph_sk). reflexivity.
Qed.

Lemma auth_len (mk ph : bytes) : length (payload_authenticator c mk ph) = 32%nat.
Proof. unfold payload_authenticator. rewrite firstn_length, (ok_hmac_len c Hc). reflexivity. Qed.

(* ---------- processHeader ---------- *)

Lemma validate_enc_ok (vd : validator) (v : version) (a b : bytes) (rcvs : list (bytes * bytes)) :
  v = v1 \/ v = v2 -> good_validator_e vd v ->
  validate_enc_header vd (mkHeader format_name v mt_encryption a b rcvs) = Ok tt.
Proof.
  intros Hv Hvd. unfold validate_enc_header. cbn [h_format h_type h_version].
  rewrite bytes_eqb_refl, Z.eqb_refl, (validate_good vd v Hv Hvd). reflexivity.
Qed.

Section Proc.
Variables (v : version) (sender : option bytes) (eph_sk pkey sk : bytes) (rs : list rcpt)
          (vd : validator) (hh : bytes).
Hypothesis Hv : v = v1 \/ v = v2.
Hypothesis Hvd : good_validator_e vd v.
Hypothesis Hpkey : length pkey = 32%nat.
Hypothesis Hsender : forall s, sender = Some s -> dh_pub c s <> dh_pub c eph_sk.

Let sender_sk := match sender with Some s => s | None => eph_sk end.
Let pk := dh_pub c sk.
Let hdr := mkHeader format_name v mt_encryption (dh_pub c eph_sk)
                    (sb_seal c pkey nonce_sender_key_sbox (dh_pub c sender_sk))
                    (mapi_from (rcv_of v eph_sk pkey) 0 rs).

(* everything after the payload key has been found *)
Lemma process_tail (i : nat) (ranon : bool) (named : list bytes) (nanon : N) :
  match sb_open c pkey nonce_sender_key_sbox (h_b hdr) with
  | None => Err ErrBadSenderKeySecretbox
  | Some sndr =>
    if negb (Nat.eqb (length sndr) 32) then Err ErrBadBoxKey
    else
      bind (if bytes_eqb (dh_pub c eph_sk) sndr then Ok (dh_pub c eph_sk, true)
            else match lookup_sender (ring1 sk pk) sndr with
                 | None => Err ErrNoSenderKey
                 | Some s => Ok (s, false)
                 end) (fun sa =>
      match mac_key_receiver c v (N.of_nat i) (fst (sk, pk)) (fst sa) (dh_pub c eph_sk) hh with
      | None => Err (Panic 8)
      | Some mk =>
        Ok (mkMki (fst sa) (snd sa) (snd (sk, pk)) ranon named nanon,
            mkDec v pkey mk (N.of_nat i) hh)
      end)
  end =
  Ok (mkMki (dh_pub c sender_sk) (match sender with Some _ => false | None => true end) pk ranon named nanon,
      mkDec v pkey (mac_key_sender c v (N.of_nat i) sender_sk eph_sk pk hh) (N.of_nat i) hh).
Proof.
  unfold hdr. cbn [h_b]. rewrite (ok_sb c Hc). rewrite (ok_dh_pub_len c Hc). cbn [Nat.eqb negb].
  unfold sender_sk. destruct sender as [s|].
  - rewrite bytes_eqb_neq by (intro E; apply (Hsender s eq_refl); symmetry; exact E).
    unfold lookup_sender. rewrite (ok_dh_pub_len c Hc). cbn [Nat.eqb negb ring1 kr_senders bind fst snd].
    unfold pk. rewrite (mac_key_agree v (N.of_nat i) sk s eph_sk hh Hv). reflexivity.
  - rewrite bytes_eqb_refl. cbn [bind fst snd].
    unfold pk. rewrite (mac_key_agree v (N.of_nat i) sk eph_sk eph_sk hh Hv). reflexivity.
Qed.

Lemma process_found (i : nat) (hide : bool) :
  NoDup (map fst rs) -> nth_error rs i = Some (pk, hide) ->
  (exists m,
     process_enc_header c vd (ring1 sk pk) hh hdr =
       Ok (m, mkDec v pkey (mac_key_sender c v (N.of_nat i) sender_sk eph_sk pk hh) (N.of_nat i) hh) /\
     mki_sender m = dh_pub c sender_sk /\
     mki_sender_anon m = (match sender with Some _ => false | None => true end) /\
     mki_receiver m = pk /\ mki_receiver_anon m = hide)
  \/ ForeignBoxOpens v eph_sk pkey pk rs.
Proof.
  intros Hnd Hi.
  assert (Hd : forall j r, j <> i -> nth_error rs j = Some r -> fst r <> pk).
  { intros j r Hj Hr E. apply Hj.
    apply (proj1 (NoDup_nth_error (map fst rs)) Hnd).
    - rewrite map_length. apply (proj1 (nth_error_Some rs j)). rewrite Hr. discriminate.
    - rewrite (map_nth_error fst j rs Hr), (map_nth_error fst i rs Hi). cbn [fst]. rewrite E. reflexivity. }
  unfold process_enc_header.
  unfold hdr at 1. rewrite (validate_enc_ok vd v _ _ _ Hv Hvd). cbn [bind].
  change (h_version hdr) with v. change (h_a hdr) with (dh_pub c eph_sk).
  change (h_rcvs hdr) with (mapi_from (rcv_of v eph_sk pkey) 0 rs).
  rewrite (ok_dh_pub_len c Hc). cbn [Nat.eqb negb].
  destruct hide.
  - (* hidden *)
    rewrite (try_visible_none v eph_sk pkey sk pk rs).
    2:{ intros r Hr Hs E. apply In_nth_error in Hr as [j Hj].
        destruct (Nat.eq_dec j i) as [->|Hne]; [rewrite Hi in Hj; injection Hj as <-; discriminate|].
        exact (Hd j r Hne Hj E). }
    cbn [bind].
    destruct (try_hidden_found v eph_sk pkey sk pk Hv Hpkey eq_refl rs i Hi Hd) as [E|Bk]; [|right; exact Bk].
    left. rewrite E. cbn [bind]. rewrite process_tail. eexists. split; [reflexivity|].
    cbn [mki_sender mki_sender_anon mki_receiver mki_receiver_anon]. repeat split; reflexivity.
  - (* visible *)
    left. rewrite (try_visible_found v eph_sk pkey sk pk Hv Hpkey eq_refl rs i Hi Hd). cbn [bind].
    rewrite process_tail. eexists. split; [reflexivity|].
    cbn [mki_sender mki_sender_anon mki_receiver mki_receiver_anon]. repeat split; reflexivity.
Qed.

Lemma process_stranger :
  ~ In pk (map fst rs) ->
  process_enc_header c vd (ring1 sk pk) hh hdr = Err ErrNoDecryptionKey \/ ForeignBoxOpens v eph_sk pkey pk rs.
Proof.
  intros Hnin.
  assert (Hd : forall r, In r rs -> fst r <> pk).
  { intros r Hr E. apply Hnin. rewrite <- E. apply in_map. exact Hr. }
  unfold process_enc_header.
  unfold hdr at 1. rewrite (validate_enc_ok vd v _ _ _ Hv Hvd). cbn [bind].
  change (h_version hdr) with v. change (h_a hdr) with (dh_pub c eph_sk).
  change (h_rcvs hdr) with (mapi_from (rcv_of v eph_sk pkey) 0 rs).
  rewrite (ok_dh_pub_len c Hc). cbn [Nat.eqb negb].
  rewrite (try_visible_none v eph_sk pkey sk pk rs) by (intros r Hr _; apply Hd; exact Hr).
  cbn [bind].
  destruct (try_hidden_none v eph_sk pkey sk pk Hv eq_refl rs Hd) as [E|Bk]; [|right; exact Bk].
  left. rewrite E. reflexivity.
Qed.

End Proc.

(* ---------- the packet loop ---------- *)

Lemma enc_packets_len (v : version) (pkey hh : bytes) (mac_keys : list bytes) : forall ps n body,
  encrypt_packets c v pkey hh mac_keys n ps = Ok body -> (length ps <= length body)%nat.
Proof.
  induction ps as [|[ch fin] t IH]; intros n body H.
  - cbn [length]. lia.
  - cbn [encrypt_packets] in H. destruct (negb (block_number_ok n)); [discriminate|].
    destruct (payload_hash c v hh (nonce_chunk_secretbox n)
                (sb_seal c pkey (nonce_chunk_secretbox n) ch) fin); [|discriminate].
    destruct (encrypt_packets c v pkey hh mac_keys (n + 1) t) as [rest|] eqn:E; cbn [bind] in H; [|discriminate].
    injection H as <-. rewrite app_length.
    match goal with |- context [mp_encode ?x] => pose proof (mp_encode_len x) end.
    specialize (IH _ _ E). cbn [length]. lia.
Qed.

Section Loop.
Variables (v : version) (pkey hh : bytes) (mac_keys : list bytes) (i : nat) (mk : bytes) (B : nat).
Hypothesis Hv : v = v1 \/ v = v2.
Hypothesis Hmk : nth_error mac_keys i = Some mk.
Hypothesis Hnk : N.of_nat (length mac_keys) < 4294967296.
Hypothesis HB : N.of_nat B + 16 < 4294967296.

Let st := mkDec v pkey mk (N.of_nat i) hh.

Lemma decrypt_loop_ok : forall ps n acc fuel body,
  ps <> [] -> plan_ok v B n ps ->
  encrypt_packets c v pkey hh mac_keys n ps = Ok body ->
  (length ps <= fuel)%nat ->
  decrypt_loop c fuel st n body acc = mkOut (rev acc ++ map fst ps) EOF.
Proof.
  induction ps as [|[ch fin] t IH]; intros n acc fuel body Hne Hok Henc Hfuel; [contradiction|].
  cbn [plan_ok] in Hok. destruct Hok as (Hlen & Hcs & Hfin_t & Hfin_f & Hok).
  cbn [encrypt_packets] in Henc.
  destruct (block_number_ok n) eqn:Eb; cbn [negb] in Henc; [|discriminate].
  destruct (payload_hash c v hh (nonce_chunk_secretbox n)
              (sb_seal c pkey (nonce_chunk_secretbox n) ch) fin) as [ph|] eqn:Eph; [|discriminate].
  destruct (encrypt_packets c v pkey hh mac_keys (n + 1) t) as [rest|] eqn:Erest;
    cbn [bind] in Henc; [|discriminate].
  injection Henc as <-.
  destruct fuel as [|fuel]; [cbn [length] in Hfuel; lia|].
  cbn [decrypt_loop]. unfold read_packet.
  rewrite mp_read_encode.
  2:{ apply wf_enc_block.
      - rewrite map_length. exact Hnk.
      - apply Forall_forall. intros b Hb. apply in_map_iff in Hb as (x & <- & _).
        unfold len. rewrite auth_len. lia.
      - unfold len. rewrite (ok_sb_len c Hc). lia. }
  change (ds_version st) with v. change (ds_hh st) with hh. change (ds_mac_key st) with mk.
  change (ds_position st) with (N.of_nat i). change (ds_payload_key st) with pkey.
  assert (Evm : negb ((vmaj v =? 1)%Z || (vmaj v =? 2)%Z) = false).
  { destruct (vmaj_cases v Hv) as [E|[E1 E2]]; [rewrite E|rewrite E1, E2]; reflexivity. }
  rewrite Evm. rewrite view_enc_block_mv. cbn [of_dres].
  set (ct := sb_seal c pkey (nonce_chunk_secretbox n) ch) in *.
  assert (Efin : (if (vmaj v =? 1)%Z then Nat.eqb (length ct) 16 else fin) = fin).
  { destruct (vmaj v =? 1)%Z eqn:E1; [|reflexivity]. unfold ct. rewrite (ok_sb_len c Hc).
    unfold check_chunk_state in Hcs. rewrite E1 in Hcs.
    destruct (Bool.eqb (Nat.eqb (length ch) 0) fin) eqn:E; [|discriminate].
    apply eqb_prop in E. rewrite <- E. destruct (length ch); reflexivity. }
  rewrite Efin, Eb. cbn [negb]. rewrite Eph. rewrite Nat2N.id.
  rewrite (map_nth_error (fit 32) i _
             (map_nth_error (fun k => payload_authenticator c k ph) i mac_keys Hmk)).
  rewrite fit_id by apply auth_len. rewrite bytes_eqb_refl. cbn [negb].
  unfold ct. rewrite (ok_sb c Hc). rewrite Hcs.
  destruct fin.
  - rewrite (Hfin_t eq_refl) in Erest. cbn [encrypt_packets] in Erest. injection Erest as <-.
    unfold assert_end_of_stream. rewrite mp_read_nil. rewrite (Hfin_t eq_refl).
    cbn [map fst]. rewrite rev_append_rev. cbn [rev]. rewrite app_nil_r. reflexivity.
  - rewrite (IH (n + 1) (ch :: acc) fuel rest (Hfin_f eq_refl) Hok Erest) by (cbn [length] in Hfuel; lia).
    cbn [rev map fst]. rewrite <- app_assoc. reflexivity.
Qed.

End Loop.

(* ---------- reading the header back ---------- *)

Lemma header_roundtrip (v : version) (sender : option bytes) (eph_sk pkey : bytes) (rs : list rcpt) :
  v = v1 \/ v = v2 -> length pkey = 32%nat -> N.of_nat (length rs) < 4294967296 ->
  len (enc_header_bytes v sender eph_sk pkey rs) < 4294967296 ->
  decode_header view_enc_header (enc_header_bytes v sender eph_sk pkey rs) =
  Ok (mkHeader format_name v mt_encryption (dh_pub c eph_sk)
        (sb_seal c pkey nonce_sender_key_sbox
           (dh_pub c (match sender with Some s => s | None => eph_sk end)))
        (mapi_from (rcv_of v eph_sk pkey) 0 rs)).
Proof.
  intros Hv Hp Hn Hl. destruct (version_ranges v Hv) as [R1 R2].
  unfold decode_header. unfold enc_header_bytes at 1. rewrite mp_read_encode_nil.
  - rewrite view_enc_header_mv by (try lia; change mt_encryption with 0%Z; lia).
    cbn [of_dres]. rewrite rcvs_eq. reflexivity.
  - apply wf_enc_header; try lia.
    + change mt_encryption with 0%Z. lia.
    + unfold len. rewrite (ok_dh_pub_len c Hc). lia.
    + unfold len. rewrite (ok_sb_len c Hc), (ok_dh_pub_len c Hc). lia.
    + rewrite mapi_from_length. exact Hn.
    + apply Forall_forall. intros e He. split.
      * destruct (fst e) as [k|] eqn:Ek; [|exact I].
        pose proof (enc_list_receiver_bound _ e k He Ek) as L1.
        pose proof (enc_header_len_rcv v mt_encryption (dh_pub c eph_sk)
                      (sb_seal c pkey nonce_sender_key_sbox
                         (dh_pub c (match sender with Some s => s | None => eph_sk end)))
                      (mapi_from (enc_receiver_entry c v eph_sk pkey) 0 rs)) as L2.
        unfold enc_header_bytes, len in Hl. unfold len. lia.
      * apply In_nth_error in He as [j Hj]. rewrite nth_error_mapi_from in Hj.
        destruct (nth_error rs j) as [r|]; [|discriminate]. cbn [option_map] in Hj.
        injection Hj as <-. unfold enc_receiver_entry. cbn [snd]. unfold len.
        rewrite (ok_sb_len c Hc), Hp. lia.
Qed.

(* Strong forms.  The right disjunct of the TARGET statements, [CryptoBreakRT], is a bare
   existential over ALL keys; the strong forms name the event precisely: a payload-key box
   of THIS message, sealed for a different recipient key, opens under our shared key
   ([ForeignBoxOpens]); [foreign_box_break] turns it into [CryptoBreakRT].
   (Caveat on [WrongKeyOpen] as a proposition: [ok_sb]/[ok_sb_len] alone imply it by
   counting -- there are more keys than 16-byte boxes of the empty message, so two keys
   [k <> k'] have [sb_seal c k n [] = sb_seal c k' n []], which [k'] opens.  The TARGET
   disjunction is therefore informative only through the witness its proof constructs;
   the strong forms state that witness.) *)
Lemma seal_core_open_roundtrip_strong (v : version) (sender : option bytes) (eph_sk pkey : bytes)
      (rs : list rcpt) (pieces : list bytes) (out : bytes) (sk : bytes) (hide : bool) (i : nat)
      (vd : validator) :
  v = v1 \/ v = v2 -> good_validator_e vd v ->
  length pkey = 32%nat ->
  NoDup (map fst rs) -> N.of_nat (length rs) < 4294967296 ->
  len (enc_header_bytes v sender eph_sk pkey rs) < 4294967296 ->
  seal_core c v sender eph_sk pkey rs pieces = Ok out ->
  nth_error rs i = Some (dh_pub c sk, hide) ->
  (forall s, sender = Some s -> dh_pub c s <> dh_pub c eph_sk) ->
  let kr := mkRing [(sk, dh_pub c sk)] None in
  (exists m chunks,
      open_stream c vd kr out = Ok (m, mkOut chunks EOF) /\
      concat chunks = concat pieces /\
      mki_sender m = dh_pub c (match sender with Some s => s | None => eph_sk end) /\
      mki_sender_anon m = (match sender with Some _ => false | None => true end) /\
      mki_receiver m = dh_pub c sk /\
      mki_receiver_anon m = hide /\
      open_all c vd kr out = Ok (m, concat pieces))
  \/ ForeignBoxOpens v eph_sk pkey (dh_pub c sk) rs.
Proof.
  intros Hv Hvd Hp Hnd Hn Hfit Hseal Hi Hs kr.
  rewrite seal_core_unfold in Hseal. cbv zeta in Hseal.
  set (hh := sha512 c (enc_header_bytes v sender eph_sk pkey rs)) in *.
  destruct (encrypt_packets c v pkey hh (enc_mac_keys v sender eph_sk hh rs) 0
              (plan v enc_block_size (concat pieces))) as [body|] eqn:Ebody;
    cbn [bind] in Hseal; [|discriminate].
  assert (Hout : out = mp_encode (MBin (enc_header_bytes v sender eph_sk pkey rs)) ++ body)
    by (injection Hseal as <-; reflexivity).
  clear Hseal. subst out.
  destruct (process_found v sender eph_sk pkey sk rs vd hh Hv Hvd Hp Hs i hide Hnd Hi)
    as [(m & Hproc & M1 & M2 & M3 & M4)|Bk]; [|right; exact Bk].
  left.
  assert (Hvm : (vmaj v = 1 \/ vmaj v = 2)%Z) by (destruct Hv as [->| ->]; [left|right]; reflexivity).
  destruct (plan_ok_plan v enc_block_size (concat pieces) enc_block_size_pos Hvm) as [Hok Hne].
  assert (Hopen : open_stream c vd kr (mp_encode (MBin (enc_header_bytes v sender eph_sk pkey rs)) ++ body)
                  = Ok (m, mkOut (map fst (plan v enc_block_size (concat pieces))) EOF)).
  { unfold open_stream, read_header_bytes. rewrite mp_read_encode by exact Hfit.
    cbn [as_bytes bind fst snd]. fold hh.
    rewrite (header_roundtrip v sender eph_sk pkey rs Hv Hp Hn Hfit). cbn [bind].
    unfold kr. change (mkRing [(sk, dh_pub c sk)] None) with (ring1 sk (dh_pub c sk)).
    rewrite Hproc. cbn [bind fst snd].
    rewrite (decrypt_loop_ok v pkey hh (enc_mac_keys v sender eph_sk hh rs) i _ enc_block_size Hv)
      with (ps := plan v enc_block_size (concat pieces)).
    - reflexivity.
    - unfold enc_mac_keys. rewrite (nth_error_mapi_from_some _ rs 0 i _ Hi). cbn [fst].
      rewrite N.add_0_l. reflexivity.
    - unfold enc_mac_keys. rewrite mapi_from_length. exact Hn.
    - rewrite enc_block_size_N. lia.
    - exact Hne.
    - exact Hok.
    - exact Ebody.
    - pose proof (enc_packets_len v pkey hh _ _ _ _ Ebody). lia. }
  exists m, (map fst (plan v enc_block_size (concat pieces))).
  split; [exact Hopen|]. split; [apply plan_concat; apply enc_block_size_pos|].
  split; [exact M1|]. split; [exact M2|]. split; [exact M3|]. split; [exact M4|].
  unfold open_all. rewrite Hopen. cbn [bind snd fst so_end so_chunks].
  rewrite plan_concat by apply enc_block_size_pos. reflexivity.
Qed.

Lemma seal_core_open_stranger_strong (v : version) (sender : option bytes) (eph_sk pkey : bytes)
      (rs : list rcpt) (pieces : list bytes) (out : bytes) (sk : bytes) (vd : validator) :
  v = v1 \/ v = v2 -> good_validator_e vd v ->
  length pkey = 32%nat -> N.of_nat (length rs) < 4294967296 ->
  len (enc_header_bytes v sender eph_sk pkey rs) < 4294967296 ->
  seal_core c v sender eph_sk pkey rs pieces = Ok out ->
  ~ In (dh_pub c sk) (map fst rs) ->
  let kr := mkRing [(sk, dh_pub c sk)] None in
  (open_stream c vd kr out = Err ErrNoDecryptionKey /\ open_all c vd kr out = Err ErrNoDecryptionKey)
  \/ ForeignBoxOpens v eph_sk pkey (dh_pub c sk) rs.
Proof.
  intros Hv Hvd Hp Hn Hfit Hseal Hnin kr.
  rewrite seal_core_unfold in Hseal. cbv zeta in Hseal.
  set (hh := sha512 c (enc_header_bytes v sender eph_sk pkey rs)) in *.
  destruct (encrypt_packets c v pkey hh (enc_mac_keys v sender eph_sk hh rs) 0
              (plan v enc_block_size (concat pieces))) as [body|] eqn:Ebody;
    cbn [bind] in Hseal; [|discriminate].
  assert (Hout : out = mp_encode (MBin (enc_header_bytes v sender eph_sk pkey rs)) ++ body)
    by (injection Hseal as <-; reflexivity).
  clear Hseal. subst out.
  destruct (process_stranger v sender eph_sk pkey sk rs vd hh Hv Hvd Hnin) as [Hproc|Bk]; [|right; exact Bk].
  left.
  assert (Hopen : open_stream c vd kr (mp_encode (MBin (enc_header_bytes v sender eph_sk pkey rs)) ++ body)
                  = Err ErrNoDecryptionKey).
  { unfold open_stream, read_header_bytes. rewrite mp_read_encode by exact Hfit.
    cbn [as_bytes bind fst snd]. fold hh.
    rewrite (header_roundtrip v sender eph_sk pkey rs Hv Hp Hn Hfit). cbn [bind].
    unfold kr. change (mkRing [(sk, dh_pub c sk)] None) with (ring1 sk (dh_pub c sk)).
    rewrite Hproc. reflexivity. }
  split; [exact Hopen|]. unfold open_all. rewrite Hopen. reflexivity.
Qed.


(* (TARGET) C01: the holder of the key at ANY position of the (shuffled) recipient
   list, hidden or visible, recovers exactly the plaintext, the sender key or the
   anonymous flag, its own key and whether it was hidden.
   EXTRA HYPOTHESIS (not in the original statement): the encoded header is shorter
   than 4 GiB.  Without it the statement is false: [mp_encode (MBin hdr)] writes the
   length into a 32-bit field (bin32), so a longer header (possible with many or very
   long recipient keys, [fst r] is an arbitrary byte string) is read back truncated
   and fails to decode.  [enc_header_fits] below derives it from simple bounds. *)
Lemma seal_core_open_roundtrip (v : version) (sender : option bytes) (eph_sk pkey : bytes)
      (rs : list rcpt) (pieces : list bytes) (out : bytes) (sk : bytes) (hide : bool) (i : nat)
      (vd : validator) :
  v = v1 \/ v = v2 -> good_validator_e vd v ->
  length pkey = 32%nat ->
  NoDup (map fst rs) -> N.of_nat (length rs) < 4294967296 ->
  len (enc_header_bytes v sender eph_sk pkey rs) < 4294967296 ->   (* EXTRA *)
  seal_core c v sender eph_sk pkey rs pieces = Ok out ->
  nth_error rs i = Some (dh_pub c sk, hide) ->
  (forall s, sender = Some s -> dh_pub c s <> dh_pub c eph_sk) ->
  let kr := mkRing [(sk, dh_pub c sk)] None in
  (exists m chunks,
      open_stream c vd kr out = Ok (m, mkOut chunks EOF) /\
      concat chunks = concat pieces /\
      mki_sender m = dh_pub c (match sender with Some s => s | None => eph_sk end) /\
      mki_sender_anon m = (match sender with Some _ => false | None => true end) /\
      mki_receiver m = dh_pub c sk /\
      mki_receiver_anon m = hide /\
      open_all c vd kr out = Ok (m, concat pieces))
  \/ CryptoBreakRT.
Proof.
  intros Hv Hvd Hp Hnd Hn Hfit Hseal Hi Hs kr.
  destruct (seal_core_open_roundtrip_strong v sender eph_sk pkey rs pieces out sk hide i vd
              Hv Hvd Hp Hnd Hn Hfit Hseal Hi Hs) as [H|Bk]; [left; exact H|right].
  exact (foreign_box_break _ _ _ _ _ _ Bk).
Qed.


(* (TARGET) C01: a keyring holding none of the recipient keys gets ErrNoDecryptionKey and no plaintext.
   EXTRA HYPOTHESIS: the header is shorter than 4 GiB (see above). *)
Lemma seal_core_open_stranger (v : version) (sender : option bytes) (eph_sk pkey : bytes)
      (rs : list rcpt) (pieces : list bytes) (out : bytes) (sk : bytes) (vd : validator) :
  v = v1 \/ v = v2 -> good_validator_e vd v ->
  length pkey = 32%nat -> N.of_nat (length rs) < 4294967296 ->
  len (enc_header_bytes v sender eph_sk pkey rs) < 4294967296 ->   (* EXTRA *)
  seal_core c v sender eph_sk pkey rs pieces = Ok out ->
  ~ In (dh_pub c sk) (map fst rs) ->
  let kr := mkRing [(sk, dh_pub c sk)] None in
  (open_stream c vd kr out = Err ErrNoDecryptionKey /\ open_all c vd kr out = Err ErrNoDecryptionKey)
  \/ CryptoBreakRT.
Proof.
  intros Hv Hvd Hp Hn Hfit Hseal Hnin kr.
  destruct (seal_core_open_stranger_strong v sender eph_sk pkey rs pieces out sk vd
              Hv Hvd Hp Hn Hfit Hseal Hnin) as [H|Bk]; [left; exact H|right].
  exact (foreign_box_break _ _ _ _ _ _ Bk).
Qed.


(* ---------- a sufficient condition for the extra hypothesis ---------- *)

Lemma enc_bin_hdr_le (n : N) : (length (enc_bin_hdr n) <= 5)%nat.
Proof.
  unfold enc_bin_hdr. destruct (n <? 256); [cbn [length]; lia|].
  destruct (n <? 65536); cbn [length]; unfold be16, be32; rewrite mp_be_bytes_length; lia.
Qed.

Lemma enc_str_hdr_le (n : N) : (length (enc_str_hdr n) <= 5)%nat.
Proof.
  unfold enc_str_hdr. destruct (n <? 32); [cbn [length]; lia|].
  destruct (n <? 256); [cbn [length]; lia|].
  destruct (n <? 65536); cbn [length]; unfold be16, be32; rewrite mp_be_bytes_length; lia.
Qed.

Lemma enc_arr_hdr_le (n : N) : (length (enc_arr_hdr n) <= 5)%nat.
Proof.
  unfold enc_arr_hdr. destruct (n <? 16); [cbn [length]; lia|].
  destruct (n <? 65536); cbn [length]; unfold be16, be32; rewrite mp_be_bytes_length; lia.
Qed.

Lemma enc_uint_le (n : N) : (length (enc_uint n) <= 9)%nat.
Proof.
  unfold enc_uint. destruct (n <=? 127); [cbn [length]; lia|].
  destruct (n <=? 255); [cbn [length]; lia|].
  destruct (n <=? 65535); [cbn [length]; unfold be16; rewrite mp_be_bytes_length; lia|].
  destruct (n <=? 4294967295); cbn [length]; unfold be32, be64; rewrite mp_be_bytes_length; lia.
Qed.

Lemma enc_int_le (z : Z) : (length (enc_int z) <= 9)%nat.
Proof.
  unfold enc_int. destruct (0 <=? z)%Z; [apply enc_uint_le|].
  destruct (-32 <=? z)%Z; [cbn [length]; lia|].
  destruct (-128 <=? z)%Z; [cbn [length]; lia|].
  destruct (-32768 <=? z)%Z; [cbn [length]; unfold be16; rewrite mp_be_bytes_length; lia|].
  destruct (-2147483648 <=? z)%Z; cbn [length]; unfold be32, be64; rewrite mp_be_bytes_length; lia.
Qed.

Lemma enc_bin_le (b : bytes) : (length (mp_encode (MBin b)) <= 5 + length b)%nat.
Proof. cbn [mp_encode]. rewrite app_length. pose proof (enc_bin_hdr_le (len b)). lia. Qed.

Lemma enc_receivers_le (es : list (option bytes * bytes)) :
  Forall (fun e => (match fst e with Some k => (length k <= 32)%nat | None => True end) /\
                   length (snd e) = 48%nat) es ->
  (length (enc_list (map mv_receiver es)) <= 96 * length es)%nat.
Proof.
  induction 1 as [|e t [H1 H2] _ IH]; [cbn; lia|].
  cbn [map enc_list length]. rewrite app_length.
  assert (L : (length (mp_encode (mv_receiver e)) <= 96)%nat).
  { destruct e as [[k|] b]; cbn [fst snd] in *; unfold mv_receiver; cbn [fst snd];
      rewrite mp_encode_arr; cbn [enc_list]; rewrite !app_length.
    - pose proof (enc_arr_hdr_le (N.of_nat (length [MBin k; MBin b]))) as La.
      pose proof (enc_bin_le b) as Lb. pose proof (enc_bin_le k) as Lk. cbn [length] in *. lia.
    - pose proof (enc_arr_hdr_le (N.of_nat (length [MNil; MBin b]))) as La.
      pose proof (enc_bin_le b) as Lb. change (mp_encode MNil) with [xc0]. cbn [length] in *. lia. }
  lia.
Qed.

(* the header is shorter than 4 GiB if no recipient key is longer than 32 bytes and
   there are at most 40 million recipients *)
Lemma enc_header_fits (v : version) (sender : option bytes) (eph_sk pkey : bytes) (rs : list rcpt) :
  length pkey = 32%nat ->
  Forall (fun r => (length (fst r) <= 32)%nat) rs ->
  N.of_nat (length rs) <= 40000000 ->
  len (enc_header_bytes v sender eph_sk pkey rs) < 4294967296.
Proof.
  intros Hp Hk Hn.
  assert (L : (length (enc_header_bytes v sender eph_sk pkey rs) <= 200 + 96 * length rs)%nat).
  { unfold enc_header_bytes, mv_enc_header, mv_version. rewrite mp_encode_arr. cbn [enc_list].
    rewrite (mp_encode_arr (map mv_receiver _)), (mp_encode_arr [_; _]). cbn [enc_list].
    rewrite !app_length.
    pose proof (enc_receivers_le (mapi_from (enc_receiver_entry c v eph_sk pkey) 0 rs)) as Lr.
    rewrite mapi_from_length in Lr.
    assert (Hes : Forall (fun e => (match fst e with Some k => (length k <= 32)%nat | None => True end) /\
                                   length (snd e) = 48%nat)
                         (mapi_from (enc_receiver_entry c v eph_sk pkey) 0 rs)).
    { apply Forall_forall. intros e He. apply In_nth_error in He as [j Hj].
      rewrite nth_error_mapi_from in Hj. destruct (nth_error rs j) as [r|] eqn:Er; [|discriminate].
      cbn [option_map] in Hj. injection Hj as <-. unfold enc_receiver_entry. cbn [fst snd]. split.
      - destruct (snd r); [exact I|]. apply nth_error_In in Er.
        exact (proj1 (Forall_forall _ rs) Hk r Er).
      - rewrite (ok_sb_len c Hc), Hp. reflexivity. }
    specialize (Lr Hes).
    pose proof (enc_arr_hdr_le (N.of_nat (length [MStr format_name; MArr [MInt (vmaj v); MInt (vmin v)];
        MInt mt_encryption; MBin (dh_pub c eph_sk);
        MBin (sb_seal c pkey nonce_sender_key_sbox
                (dh_pub c (match sender with Some s => s | None => eph_sk end)));
        MArr (map mv_receiver (mapi_from (enc_receiver_entry c v eph_sk pkey) 0 rs))]))) as L0.
    pose proof (enc_arr_hdr_le (N.of_nat (length [MInt (vmaj v); MInt (vmin v)]))) as L1.
    pose proof (enc_arr_hdr_le (N.of_nat (length (map mv_receiver
                   (mapi_from (enc_receiver_entry c v eph_sk pkey) 0 rs))))) as L2.
    pose proof (enc_bin_le (dh_pub c eph_sk)) as L3.
    pose proof (enc_bin_le (sb_seal c pkey nonce_sender_key_sbox
                (dh_pub c (match sender with Some s => s | None => eph_sk end)))) as L4.
    rewrite (ok_dh_pub_len c Hc) in L3. rewrite (ok_sb_len c Hc), (ok_dh_pub_len c Hc) in L4.
    pose proof (enc_int_le (vmaj v)) as L5. pose proof (enc_int_le (vmin v)) as L6.
    pose proof (enc_int_le mt_encryption) as L7.
    assert (L8 : (length (mp_encode (MStr format_name)) <= 13)%nat).
    { cbn [mp_encode]. rewrite app_length. pose proof (enc_str_hdr_le (len format_name)).
      change (length format_name) with 8%nat. lia. }
    cbn [mp_encode] in L5, L6, L7. cbn [mp_encode length app] in *.
    change (mp_encode (MInt (vmaj v))) with (enc_int (vmaj v)).
    lia. }
  unfold len. lia.
Qed.

(* the two C01 statements with the extra hypothesis replaced by the simple bounds *)
Lemma seal_core_open_roundtrip_bounded (v : version) (sender : option bytes) (eph_sk pkey : bytes)
      (rs : list rcpt) (pieces : list bytes) (out : bytes) (sk : bytes) (hide : bool) (i : nat)
      (vd : validator) :
  v = v1 \/ v = v2 -> good_validator_e vd v ->
  length pkey = 32%nat ->
  NoDup (map fst rs) ->
  Forall (fun r => (length (fst r) <= 32)%nat) rs -> N.of_nat (length rs) <= 40000000 ->
  seal_core c v sender eph_sk pkey rs pieces = Ok out ->
  nth_error rs i = Some (dh_pub c sk, hide) ->
  (forall s, sender = Some s -> dh_pub c s <> dh_pub c eph_sk) ->
  let kr := mkRing [(sk, dh_pub c sk)] None in
  (exists m chunks,
      open_stream c vd kr out = Ok (m, mkOut chunks EOF) /\
      concat chunks = concat pieces /\
      mki_sender m = dh_pub c (match sender with Some s => s | None => eph_sk end) /\
      mki_sender_anon m = (match sender with Some _ => false | None => true end) /\
      mki_receiver m = dh_pub c sk /\
      mki_receiver_anon m = hide /\
      open_all c vd kr out = Ok (m, concat pieces))
  \/ CryptoBreakRT.
Proof.
  intros Hv Hvd Hp Hnd Hk Hn. apply seal_core_open_roundtrip; try assumption; [lia|].
  apply enc_header_fits; assumption.
Qed.

Lemma seal_core_open_stranger_bounded (v : version) (sender : option bytes) (eph_sk pkey : bytes)
      (rs : list rcpt) (pieces : list bytes) (out : bytes) (sk : bytes) (vd : validator) :
  v = v1 \/ v = v2 -> good_validator_e vd v ->
  length pkey = 32%nat ->
  Forall (fun r => (length (fst r) <= 32)%nat) rs -> N.of_nat (length rs) <= 40000000 ->
  seal_core c v sender eph_sk pkey rs pieces = Ok out ->
  ~ In (dh_pub c sk) (map fst rs) ->
  let kr := mkRing [(sk, dh_pub c sk)] None in
  (open_stream c vd kr out = Err ErrNoDecryptionKey /\ open_all c vd kr out = Err ErrNoDecryptionKey)
  \/ CryptoBreakRT.
Proof.
  intros Hv Hvd Hp Hk Hn. apply seal_core_open_stranger; try assumption; [lia|].
  apply enc_header_fits; assumption.
Qed.
Lemma seal_core_oneshot (v : version) (sender : option bytes) (eph_sk pkey : bytes)
      (rs : list rcpt) (pieces : list bytes) :
  seal_core c v sender eph_sk pkey rs pieces = seal_core c v sender eph_sk pkey rs [concat pieces].
Proof.
  unfold seal_core. rewrite !cw_session_plan by apply enc_block_size_pos.
  cbn [concat]. rewrite app_nil_r. reflexivity.
Qed.

(* (TARGET) the top-level sender is: checks, then the draws (shuffle, 32-byte
   ephemeral secret, 32-byte payload key, in this order), then [seal_core] on a
   permutation of the caller's recipient list *)
Lemma seal_stream_core (v : version) (sender : option bytes) (rcpts : list rcpt)
      (pieces : list bytes) (r r' : rng) (out : bytes) :
  seal_stream c v sender rcpts pieces r = Ok (out, r') ->
  (v = v1 \/ v = v2) /\ NoDup (map fst rcpts) /\ rcpts <> [] /\
  N.of_nat (length rcpts) < 4294967296 /\
  exists rs r1 eph_sk pkey,
    shuffle rcpts r = Some (rs, r1) /\ Permutation rcpts rs /\
    eph_sk = firstn 32 r1 /\ pkey = firstn 32 (skipn 32 r1) /\ r' = skipn 64 r1 /\
    (64 <= length r1)%nat /\
    seal_core c v sender eph_sk pkey rs pieces = Ok out.
Proof.
  unfold seal_stream. intro H.
  destruct (known_version v) eqn:Ev; cbn [negb] in H; [|discriminate].
  apply known_version_cases in Ev.
  unfold check_receivers in H.
  destruct rcpts as [|r0 rc]; [discriminate|].
  remember (r0 :: rc) as rcpts eqn:Er.
  destruct (max_receiver_count <? Z.of_nat (length rcpts))%Z eqn:Em; [discriminate|].
  destruct (has_dup (map fst rcpts)) eqn:Ed; [discriminate|].
  cbn [bind] in H.
  assert (Hlen : N.of_nat (length rcpts) < 4294967296).
  { change max_receiver_count with 4294967295%Z in Em. lia. }
  destruct (shuffle rcpts r) as [[rs r1]|] eqn:Es; [|discriminate].
  unfold read_full in H.
  destruct (Nat.leb 32 (length r1)) eqn:E1; [|discriminate].
  destruct (Nat.leb 32 (length (skipn 32 r1))) eqn:E2; [|discriminate].
  destruct (seal_core c v sender (firstn 32 r1) (firstn 32 (skipn 32 r1)) rs pieces) as [o|e] eqn:Esc;
    cbn [bind] in H; [|discriminate].
  injection H as Ho Hr. subst o r'.
  split; [exact Ev|]. split; [apply has_dup_false; exact Ed|].
  split; [subst rcpts; discriminate|]. split; [exact Hlen|].
  exists rs, r1, (firstn 32 r1), (firstn 32 (skipn 32 r1)).
  split; [reflexivity|]. split.
  { destruct (shuffle_is_fisher_yates rcpts rs r r1 Hlen Es) as (js & _ & ->).
    apply fisher_yates_perm. }
  split; [reflexivity|]. split; [reflexivity|]. split; [exact (skipn_skipn' 32 32 r1)|].
  split; [|exact Esc].
  rewrite skipn_length in E2. apply Nat.leb_le in E1. apply Nat.leb_le in E2. lia.
Qed.

(* (TARGET) C13: the emitted bytes do not depend on the Write splits *)
Lemma seal_stream_oneshot (v : version) (sender : option bytes) (rcpts : list rcpt)
      (pieces : list bytes) (r : rng) :
  seal_stream c v sender rcpts pieces r = seal c v sender rcpts (concat pieces) r.
Proof.
  unfold seal, seal_stream.
  destruct (negb (known_version v)); [reflexivity|].
  destruct (check_receivers rcpts); [|reflexivity]. cbn [bind].
  destruct (shuffle rcpts r) as [[rs r1]|]; [|reflexivity].
  destruct (read_full 32 r1) as [[e r2]|]; [|reflexivity].
  destruct (read_full 32 r2) as [[p r3]|]; [|reflexivity].
  rewrite seal_core_oneshot. reflexivity.
Qed.

End RT.

(* (TARGET) C17: unknown versions are refused before anything is drawn or emitted *)
Lemma seal_unknown_version (c : crypto) (v : version) sender rcpts pieces r :
  known_version v = false -> seal_stream c v sender rcpts pieces r = Err ErrBadVersion.
Proof. intro H. unfold seal_stream. rewrite H. reflexivity. Qed.

(* (TARGET) C18: if the randomness source fails at any of the draws the sender fails *)
Lemma seal_rng_fail (c : crypto) (v : version) sender rcpts pieces (r : rng) :
  known_version v = true -> check_receivers rcpts = Ok tt ->
  (shuffle rcpts r = None \/
   (exists rs r1, shuffle rcpts r = Some (rs, r1) /\ (length r1 < 64)%nat)) ->
  seal_stream c v sender rcpts pieces r = Err ErrRand.
Proof.
  intros Hk Hr H. unfold seal_stream. rewrite Hk, Hr. cbn [negb bind].
  destruct H as [H|(rs & r1 & H & L)]; rewrite H; [reflexivity|].
  unfold read_full.
  destruct (Nat.leb 32 (length r1)) eqn:E1; [|reflexivity].
  destruct (Nat.leb 32 (length (skipn 32 r1))) eqn:E2; [|reflexivity].
  rewrite skipn_length in E2. apply Nat.leb_le in E1. apply Nat.leb_le in E2. lia.
Qed.
