(* GoAstProofs3.v — source ties for the STATEFUL header processing of the decryption receiver:
   tryVisibleReceivers, tryHiddenReceivers and processHeader of decrypt.go, as translated on
   this run from /repo's Go syntax trees (gen/GoAst.v), evaluated with the extended semantics
   of model/GoLang2.v (assignments to struct fields, maps, break/continue, final receiver
   state), compute exactly the model's try_visible / try_hidden / process_enc_header — result,
   error class, AND the state left in the receiver object (version, payload key, position,
   MAC key, sender key and the MessageKeyInfo) — for EVERY header, keyring of the harness's
   strict kind, validator and instance of the primitives.
   The keyring, key objects and primitives are externs whose meaning is the model's
   (lookup_box_secret, box_open, dh_shared, sb_open ...); calls to saltpack functions that
   have their own source theorem (nonceForPayloadKeyBox, computeMACKeyReceiver,
   EncryptionHeader.validate, symmetricKeyFromSlice, rawBoxKeyFromSlice) get the model's meaning.
   Statements marked (TARGET) are used verbatim by props/. *)
From Coq Require Import List String NArith ZArith Bool Lia.
From Coq.Strings Require Import Byte.
From SP Require Import Bytes Consts Params Msgpack Crypto Errors Nonce Packets Verify Decrypt GoLang GoLang2 GoAst GoAstProofs GoAstProofs2.
From SP Require Import GoAstRecv.
Import ListNotations.
Local Open Scope string_scope.

(* ---------- symbolic execution of the extended evaluator ---------- *)
Lemma exec2_S (ext : externs) (f : nat) (e : env) (ss : list gstmt) :
  exec2 ext (S f) e ss =
  ltac:(let t := eval cbv beta delta [exec2] in (exec2 ext) in
        let r := eval cbv beta iota in (t (S f) e ss) in
        let p := eval pattern t in r in
        lazymatch p with
        | ?g _ => let r' := eval cbv beta in (g (exec2 ext)) in exact r'
        end).
Proof. reflexivity. Qed.

(* the range loop of the evaluator as a function of its own *)
Definition range_loop2 (ext : externs) (f : nat) (k v : string) (body rest : list gstmt) : Z -> list gval -> env -> ctl :=
  fix loop (i : Z) (items : list gval) (e1 : env) {struct items} : ctl :=
    match items with
    | [] => exec2 ext f e1 rest
    | it :: more =>
      let e2 := if String.eqb k "_" then e1 else update k (VInt i) e1 in
      let e3 := if String.eqb v "_" then e2 else update v it e2 in
      match exec2 ext f e3 body with
      | CNorm e4 | CCont e4 => loop (i + 1)%Z more e4
      | CBrk e4 => exec2 ext f e4 rest
      | other => other
      end
    end.
Lemma exec2_range (ext : externs) (f : nat) (e : env) k v coll body rest :
  exec2 ext (S f) e (SRange k v coll body :: rest) =
  match eval ext 64 e coll with
  | Some (VList l) => range_loop2 ext f k v body rest 0%Z l e
  | Some VNil => exec2 ext f e rest
  | _ => CStuck "range"
  end.
Proof. reflexivity. Qed.
Lemma range_loop2_nil ext f k v body rest i e1 :
  range_loop2 ext f k v body rest i [] e1 = exec2 ext f e1 rest.
Proof. reflexivity. Qed.
Lemma range_loop2_cons ext f k v body rest i it more e1 :
  range_loop2 ext f k v body rest i (it :: more) e1 =
  match exec2 ext f (if String.eqb v "_" then (if String.eqb k "_" then e1 else update k (VInt i) e1)
                     else update v it (if String.eqb k "_" then e1 else update k (VInt i) e1)) body with
  | CNorm e4 | CCont e4 => range_loop2 ext f k v body rest (i + 1)%Z more e4
  | CBrk e4 => exec2 ext f e4 rest
  | other => other
  end.
Proof. reflexivity. Qed.

Lemma range_loop2_cons_sk ext f body rest i it more e1 :
  range_loop2 ext f "_" "secretKey" body rest i (it :: more) e1 =
  match exec2 ext f (update "secretKey" it e1) body with
  | CNorm e4 | CCont e4 => range_loop2 ext f "_" "secretKey" body rest (i + 1)%Z more e4
  | CBrk e4 => exec2 ext f e4 rest
  | other => other
  end.
Proof. reflexivity. Qed.

(* map lookup of the evaluator *)
Definition map_find (kv : gval) : list gval -> option (option gval) :=
  fix find (l0 : list gval) : option (option gval) :=
    match l0 with
    | [] => Some None
    | VList [k0; v0] :: t => match val_eqb 8 k0 kv with Some true => Some (Some v0) | Some false => find t | None => None end
    | _ => None
    end.
Lemma exec2_maplookup (ext : externs) (f : nat) (e : env) v ok m k rest :
  exec2 ext (S f) e (SMapLookup v ok m k :: rest) =
  match eval ext 64 e m, eval ext 64 e k with
  | Some (VList l), Some kv =>
    match map_find kv l with
    | Some (Some found) => exec2 ext f (update ok (VBool true) (update v found e)) rest
    | Some None => exec2 ext f (update ok (VBool false) (update v (VInt 0) e)) rest
    | None => CStuck "map lookup"
    end
  | _, _ => CStuck "map lookup"
  end.
Proof. reflexivity. Qed.

Ltac head_scrut3 t :=
  lazymatch t with
  | match ?x with _ => _ end => head_scrut3 x
  | fst ?x => head_scrut3 x
  | snd ?x => head_scrut3 x
  | _ => t
  end.


(* the state of the loop of tryVisibleReceivers: kids (nil until the first append) and the map tab *)
Definition enc_kids (ks : list bytes) : gval := match ks with [] => VNil | _ => VList (map VBytes ks) end.
Fixpoint tab_of (j : nat) (l : list (N * bytes)) : list gval :=
  match l with
  | [] => []
  | (orig, _) :: t => VList [VInt (Z.of_nat j); VInt (Z.of_N orig)] :: tab_of (S j) t
  end.

Section Hdr.
Variable c : crypto.

(* ---------- encodings ---------- *)
(* a receiver pair of the header: an absent key id (nil or empty) is the empty byte string *)
Definition g_rcv (r : bytes * bytes) : gval :=
  VStruct [("ReceiverKID", VBytes (fst r)); ("PayloadKeyBox", VBytes (snd r))].
Definition g_enc_header (h : header) : gval :=
  VStruct [("FormatName", VBytes (h_format h)); ("Version", g_version (h_version h)); ("Type", VInt (h_type h));
           ("Ephemeral", VBytes (h_a h)); ("SenderSecretbox", VBytes (h_b h)); ("Receivers", VList (map g_rcv (h_rcvs h)))].
(* a box secret key object of the harness's keyring: (secret, public) *)
Definition g_key (k : bytes * bytes) : gval := VStruct [("sk", VBytes (fst k)); ("pk", VBytes (snd k))].

Definition as_key (v : gval) : option (bytes * bytes) :=
  match v with VStruct [("sk", VBytes s); ("pk", VBytes p)] => Some (s, p) | _ => None end.
Fixpoint as_bytes_list (l : list gval) : option (list bytes) :=
  match l with
  | [] => Some []
  | VBytes b :: t => match as_bytes_list t with Some r => Some (b :: r) | None => None end
  | _ => None
  end.

(* ---------- the keyring, key objects and primitives as externs ---------- *)
Definition ext_keyring (vd : validator) (kr : keyring) : externs := fun fn args =>
  if String.eqb fn "Keyring.LookupBoxSecretKey" then
    match args with
    | [_; kids] =>
      match (match kids with VList l => as_bytes_list l | VNil => Some [] | _ => None end) with
      | Some ks => match lookup_box_secret kr ks 0 with
                   | Some (i, k) => Some [VInt (Z.of_nat i); g_key k]
                   | None => Some [VInt (-1); VNil]
                   end
      | None => None
      end
    | _ => None
    end
  else if String.eqb fn "Keyring.GetAllBoxSecretKeys" then Some [VList (map g_key (kr_keys kr))]
  else if String.eqb fn "Keyring.ImportBoxEphemeralKey" then
    match args with
    | [_; VBytes b] => if Nat.eqb (List.length b) 32 then Some [VBytes b] else Some [VNil]
    | _ => None
    end
  else if String.eqb fn "Keyring.LookupBoxPublicKey" then
    match args with
    | [_; VBytes kid] => match lookup_sender kr kid with Some s => Some [VBytes s] | None => Some [VNil] end
    | _ => None
    end
  else if String.eqb fn "BoxSecretKey.Unbox" then         (* sk.Unbox(sender, nonce, box) *)
    match args with
    | [k; VBytes peer; VBytes nonce; VBytes box] =>
      match as_key k with
      | Some key => match box_open c (fst key) peer nonce box with
                    | Some pt => Some [VBytes pt; VNil]
                    | None => Some [VNil; VErr "ErrDecryptionFailed" []]
                    end
      | None => None
      end
    | _ => None
    end
  else if String.eqb fn "BoxSecretKey.Precompute" then
    match args with
    | [k; VBytes peer] => match as_key k with Some key => Some [VBytes (dh_shared c (fst key) peer)] | None => None end
    | _ => None
    end
  else if String.eqb fn "BoxPrecomputedSharedKey.Unbox" then
    match args with
    | [VBytes shared; VBytes nonce; VBytes box] =>
      match sb_open c shared nonce box with
      | Some pt => Some [VBytes pt; VNil]
      | None => Some [VNil; VErr "ErrDecryptionFailed" []]
      end
    | _ => None
    end
  else if String.eqb fn "hmac.Equal" then
    match args with [VBytes a; VBytes b] => Some [VBool (bytes_eqb a b)] | _ => None end
  else if String.eqb fn "symmetricKeyFromSlice" then
    match args with
    | [v] => match vbytes_of v with
             | Some b => match sym_key b with Ok k => Some [VBytes k; VNil] | Err _ => Some [VNil; VErr "ErrBadSymmetricKey" []] end
             | None => None
             end
    | _ => None
    end
  else if String.eqb fn "rawBoxKeyFromSlice" then
    match args with
    | [v] => match vbytes_of v with
             | Some b => if Nat.eqb (List.length b) 32 then Some [VBytes b; VNil] else Some [VNil; VErr "ErrBadBoxKey" []]
             | None => None
             end
    | _ => None
    end
  else if String.eqb fn "nonceForPayloadKeyBox" then
    match args with
    | [v; VInt i] => match as_version v with
                     | Some ver => match nonce_payload_key_box ver (Z.to_N i) with Some n => Some [VBytes n] | None => None end
                     | None => None
                     end
    | _ => None
    end
  else if String.eqb fn "nonceForSenderKeySecretBox" then Some [VBytes nonce_sender_key_sbox]
  else if String.eqb fn "computeMACKeyReceiver" then
    match args with
    | [v; VInt idx; k; VBytes spk; VBytes epk; VBytes hh] =>
      match as_version v, as_key k with
      | Some ver, Some key => match mac_key_receiver c ver (Z.to_N idx) (fst key) spk epk hh with Some m => Some [VBytes m] | None => None end
      | _, _ => None
      end
    | _ => None
    end
  else if String.eqb fn "EncryptionHeader.validate" then
    match args with
    | [VStruct (("FormatName", VBytes fmt) :: ("Version", ver) :: ("Type", VInt t) :: _); _] =>
      match as_version ver with
      | Some v =>
        if negb (bytes_eqb fmt format_name) then Some [VErr "ErrNotASaltpackMessage" []]
        else if negb (t =? mt_encryption)%Z then Some [VErr "ErrWrongMessageType" []]
        else if negb (validate_version vd v) then Some [VErr "ErrBadVersion" []]
        else Some [VNil]
      | None => None
      end
    | _ => None
    end
  else ext_prims c fn args.

(* ---------- stepping tactics (after the definitions they must keep folded) ---------- *)
Ltac use_head_hyp3 :=
  lazymatch goal with
  | |- ?G =>
    let L := lazymatch G with (?L = _ -> _) => L | ?L = _ => L | _ => G end in
    let h := head_scrut3 L in
    match goal with H : h = _ |- _ => rewrite H end
  end; cbv beta iota.
Ltac ev_in3 h :=
  eval cbv -[Z.eqb Z.ltb Z.leb Z.add Z.sub Z.mul Z.modulo Z.rem Z.quot Z.shiftr Z.shiftl Z.opp
             Z.land Z.lor Z.lxor Z.lnot Z.of_nat Z.of_N Z.to_nat Z.to_N List.length nth_error
             firstn skipn bytes_eqb' bytes_eqb Byte.to_N Byte.of_N N.mul N.ltb N.eqb N.add N.leb b2n n2b Nat.eqb
             N.div N.modulo nth map
             app sha512 hmac512 sb_open sb_seal dh_shared box_seal box_open ed_verify
             nonce_payload_key_box nonce_payload_key_box_v2 nonce_sender_key_sbox
             mac_key_single sum512_truncate256 mac_key_receiver
             lookup_box_secret lookup_sender try_visible try_hidden try_hidden_boxes named_with_index count_anon sym_key
             validate_version format_name mt_encryption
             map_set map_find as_bytes_list tab_of range_loop2 exec2] in h.
(* evaluate the head scrutinee; the externs X are kept abstract unless they are the head themselves
   (otherwise a stuck call would drag the fully unfolded extern table along) *)
Ltac ev_term3 X h :=
  lazymatch h with
  | X ?fn ?args => let h' := ev_in3 h in progress (change h with h'); cbv beta iota
  | _ =>
    let p := eval pattern X in h in
    lazymatch p with
    | ?g _ => let g' := ev_in3 g in
              let h' := eval cbv beta in (g' X) in
              progress (change h with h'); cbv beta iota
    end
  end.
Ltac norm_env3 h x f e ss k :=
  let e' := ev_in3 e in
  tryif constr_eq e e' then k e
  else (change h with (exec2 x (S f) e' ss); k e').
Ltac fix_lvars :=
  repeat match goal with
  | |- context [lvars ?l] => let r := eval cbv [lvars map] in (lvars l) in change (lvars l) with r
  end.
Ltac step3 X :=
  lazymatch goal with
  | |- ?G =>
    let L := lazymatch G with (?L = _ -> _) => L | ?L = _ => L | _ => G end in
    let h := head_scrut3 L in
    lazymatch h with
    | exec2 ?x (S ?f) ?e (SRange ?k ?v ?coll ?b :: ?rest) =>
      norm_env3 h x f e (SRange k v coll b :: rest) ltac:(fun e' => rewrite exec2_range)
    | exec2 ?x (S ?f) ?e (SMapLookup ?v ?ok ?m ?k :: ?rest) =>
      norm_env3 h x f e (SMapLookup v ok m k :: rest) ltac:(fun e' => rewrite exec2_maplookup)
    | exec2 ?x (S ?f) ?e ?ss =>
      (* rewrite, not change: converting [exec2 .. (S f) ..] with its unfolding makes the kernel compare the
         fixpoint with the constant at every continuation, which is exponential in the number of ifs *)
      norm_env3 h x f e ss ltac:(fun e' => rewrite (exec2_S x f e' ss); cbv beta iota zeta); fix_lvars; cbv beta iota
    | range_loop2 _ _ _ _ _ _ _ _ _ => fail
    | _ => ev_term3 X h
    end
  end.
Ltac map_lit A B f l :=
  lazymatch l with
  | nil => constr:(@nil B)
  | cons ?x ?t => let r := map_lit A B f t in let y := eval cbv beta in (f x) in constr:(@cons B y r)
  end.
Ltac lits4 :=
  match goal with
  | |- context [@map ?A ?B ?f ?l] => is_spine l; let r := map_lit A B f l in change (@map A B f l) with r
  end; cbv beta iota.
Ltac steps3 X := repeat first [step3 X | use_head_hyp3 | lits1 | lits2 | lits3 | lits4 | slice1].
Ltac start3 F :=
  cbv beta iota zeta delta [run_func2 f_body f_params f_results F];
  lazymatch goal with
  | |- context [bind_params ?a ?b] =>
    let r := eval cbv [bind_params] in (bind_params a b) in change (bind_params a b) with r; cbv beta iota
  end;
  change (@map (string * string) (string * gval) _ []) with (@nil (string * gval));
  change (@app (string * gval) ?l []) with l.


(* ---------- small helpers with their own ties ---------- *)
(* (TARGET) *)
Lemma go_symmetricKeyFromSlice (b : bytes) :
  fst (run_func2 (ext_prims c) f_saltpack_symmetricKeyFromSlice [VBytes b])
  = match sym_key b with Ok k => ORet [VBytes k; VNil] | Err _ => ORet [VNil; VErr "ErrBadSymmetricKey" []] end.
Proof.
  start3 f_saltpack_symmetricKeyFromSlice. unfold sym_key.
  destruct (Nat.eqb (List.length b) 32) eqn:E.
  - assert (H1 : (Z.of_nat (List.length b) =? 32)%Z = true) by (apply Nat.eqb_eq in E; lia).
    steps3 (ext_prims c). reflexivity.
  - assert (H1 : (Z.of_nat (List.length b) =? 32)%Z = false) by (apply Nat.eqb_neq in E; lia).
    steps3 (ext_prims c). reflexivity.
Qed.

(* (TARGET) *)
Lemma go_rawBoxKeyFromSlice (b : bytes) :
  fst (run_func2 (ext_prims c) f_saltpack_rawBoxKeyFromSlice [VBytes b])
  = if Nat.eqb (List.length b) 32 then ORet [VBytes b; VNil] else ORet [VNil; VErr "ErrBadBoxKey" []].
Proof.
  start3 f_saltpack_rawBoxKeyFromSlice.
  destruct (Nat.eqb (List.length b) 32) eqn:E.
  - assert (H1 : (Z.of_nat (List.length b) =? 32)%Z = true) by (apply Nat.eqb_eq in E; lia).
    steps3 (ext_prims c). reflexivity.
  - assert (H1 : (Z.of_nat (List.length b) =? 32)%Z = false) by (apply Nat.eqb_neq in E; lia).
    steps3 (ext_prims c). reflexivity.
Qed.

(* ---------- tryVisibleReceivers ---------- *)
(* the decryptStream object: only the fields these functions touch *)
Definition g_ds0 (hh : bytes) : gval :=
  VStruct [("ring", VNil); ("versionValidator", VNil); ("headerHash", VBytes hh); ("mki", VStruct [("NumAnonReceivers", VInt 0)])].

(* result of the two try* functions: (secret key, payload key, index, error) *)
Definition g_try_result (o : outcome) : result (option ((bytes * bytes) * bytes * N)) :=
  match o with
  | ORet [k; pk; VInt i; VNil] =>
    match as_key k, pk with
    | Some key, VBytes p => if Z.ltb i 0 then Err Unmodelled else Ok (Some (key, p, Z.to_N i))
    | None, _ => match k with VNil => Ok None | _ => Err Unmodelled end
    | _, _ => Err Unmodelled
    end
  | ORet [_; _; _; VErr n _] =>
    if String.eqb n "ErrBadLookup" then Err ErrBadLookup
    else if String.eqb n "ErrDecryptionFailed" then Err ErrDecryptionFailed
    else if String.eqb n "ErrBadSymmetricKey" then Err ErrBadSymmetricKey
    else Err Unmodelled
  | OPanic => Err (Panic 7)
  | _ => Err Unmodelled
  end.

(* ----- facts about the loop state ----- *)
Lemma tab_of_app (a b : list (N * bytes)) (j : nat) :
  tab_of j (a ++ b) = (tab_of j a ++ tab_of (j + List.length a) b)%list.
Proof.
  revert j. induction a as [|[o k] a IH]; intros j; cbn [tab_of app List.length].
  - rewrite Nat.add_0_r. reflexivity.
  - rewrite IH. replace (S j + List.length a)%nat with (j + S (List.length a))%nat by lia. reflexivity.
Qed.

Lemma map_set_tab_of (acc : list (N * bytes)) (j : nat) (v : gval) :
  map_set (tab_of j acc) (VInt (Z.of_nat (j + List.length acc))) v
  = Some (tab_of j acc ++ [VList [VInt (Z.of_nat (j + List.length acc)); v]])%list.
Proof.
  revert j. induction acc as [|[o k] acc IH]; intros j; cbn [tab_of map_set app List.length].
  - reflexivity.
  - cbn [val_eqb]. replace (Z.of_nat j =? Z.of_nat (j + S (List.length acc)))%Z with false by lia.
    replace (j + S (List.length acc))%nat with (S j + List.length acc)%nat by lia.
    rewrite IH. reflexivity.
Qed.

Lemma map_find_tab_of (acc : list (N * bytes)) (j n : nat) :
  map_find (VInt (Z.of_nat (j + n))) (tab_of j acc)
  = match nth_error acc n with Some (orig, _) => Some (Some (VInt (Z.of_N orig))) | None => Some None end.
Proof.
  revert j n. induction acc as [|[o k] acc IH]; intros j n; cbn [tab_of map_find].
  - destruct n; reflexivity.
  - cbn [val_eqb]. destruct n as [|n]; cbn [nth_error].
    + replace (Z.of_nat j =? Z.of_nat (j + 0))%Z with true by lia. reflexivity.
    + replace (Z.of_nat j =? Z.of_nat (j + S n))%Z with false by lia.
      replace (j + S n)%nat with (S j + n)%nat by lia. apply IH.
Qed.

Lemma as_bytes_list_map (l : list bytes) : as_bytes_list (map VBytes l) = Some l.
Proof. induction l as [|b l IH]; cbn [map as_bytes_list]; [reflexivity|]. rewrite IH. reflexivity. Qed.

Lemma nwi_nth (rcvs : list (bytes * bytes)) (i0 : N) (j : nat) (orig : N) (kid : bytes) :
  nth_error (named_with_index rcvs i0) j = Some (orig, kid) ->
  (i0 <= orig)%N /\ exists box, nth_error rcvs (N.to_nat (orig - i0)) = Some (kid, box).
Proof.
  revert i0 j. induction rcvs as [|[k b] rcvs IH]; intros i0 j H; cbn [named_with_index] in H.
  - destruct j; discriminate.
  - assert (Hrec : forall j', nth_error (named_with_index rcvs (i0 + 1)) j' = Some (orig, kid) ->
                   (i0 <= orig)%N /\ exists box, nth_error ((k, b) :: rcvs) (N.to_nat (orig - i0)) = Some (kid, box)).
    { intros j' H'. destruct (IH _ _ H') as [Hle [box Hb]]. split; [lia|]. exists box.
      replace (N.to_nat (orig - i0)) with (S (N.to_nat (orig - (i0 + 1)))) by lia. exact Hb. }
    destruct k as [|k0 k].
    + eapply Hrec; eassumption.
    + destruct j as [|j]; cbn [nth_error] in H.
      * injection H as <- <-. split; [lia|]. exists b. rewrite N.sub_diag. reflexivity.
      * eapply Hrec; eassumption.
Qed.

Lemma nwi_app (a b : list (bytes * bytes)) (i : N) :
  named_with_index (a ++ b) i = (named_with_index a i ++ named_with_index b (i + N.of_nat (List.length a)))%list.
Proof.
  revert i. induction a as [|[k x] a IH]; intros i; cbn [named_with_index app List.length].
  - rewrite N.add_0_r. reflexivity.
  - rewrite IH. replace (i + 1 + N.of_nat (List.length a))%N with (i + N.of_nat (S (List.length a)))%N by lia.
    destruct k; reflexivity.
Qed.

(* the environment of tryVisibleReceivers during and after its loop *)
Definition envV (D H E K : gval) (T : list gval) (tl : env) : env :=
  ([("ds", D); ("hdr", H); ("ephemeralKey", E); ("kids", K); ("tab", VList T)] ++ tl)%list.
Definition tail2 (tl : env) : Prop := exists a b, tl = [("i", a); ("r", b)].
Definition tail_ok (tl : env) : Prop := tl = [] \/ tail2 tl.

Definition tv_body : list gstmt :=
  Eval cbv in match nth 2 (f_body f_saltpack_decryptStream_tryVisibleReceivers) SBreak with SRange _ _ _ b => b | _ => [] end.
Definition tv_rest : list gstmt :=
  Eval cbv in skipn 3 (f_body f_saltpack_decryptStream_tryVisibleReceivers).


Lemma tv_loop (X : externs) (rest : list (bytes * bytes)) :
  forall (i : N) (acc : list (N * bytes)) (D H E : gval) (tl : env), tail_ok tl ->
  exists tl', (rest = [] -> tl' = tl) /\ (rest <> [] -> tail2 tl') /\
    range_loop2 X 297 "i" "r" tv_body tv_rest (Z.of_N i) (map g_rcv rest)
                (envV D H E (enc_kids (map snd acc)) (tab_of 0 acc) tl)
    = exec2 X 297 (envV D H E (enc_kids (map snd (acc ++ named_with_index rest i)))
                        (tab_of 0 (acc ++ named_with_index rest i)) tl') tv_rest.
Proof.
  induction rest as [|[kid box] rest IH]; intros i acc D H E tl Htl.
  - exists tl. split; [reflexivity|]. split; [intros Hc; congruence|].
    cbn [map named_with_index]. rewrite app_nil_r. apply range_loop2_nil.
  - cbn [map named_with_index]. unfold bytes in *.
    assert (Ht2 : tail2 [("i", VInt (Z.of_N i)); ("r", g_rcv (kid, box))]) by (eexists; eexists; reflexivity).
    destruct kid as [|k0 kid].
    + (* anonymous receiver: nothing recorded *)
      destruct (IH (i + 1)%N acc D H E _ (or_intror Ht2)) as (tl' & Hnil & Hcons & Heq).
      exists tl'. split; [intros Hc; discriminate|]. split.
      { intros _. destruct rest; [rewrite Hnil by reflexivity; exact Ht2|apply Hcons; discriminate]. }
      rewrite <- Heq. rewrite N2Z.inj_add. change (Z.of_N 1) with 1%Z.
      rewrite range_loop2_cons. unfold tv_body, envV.
      destruct Htl as [->|(a & b & ->)]; cbn [app]; steps3 X; reflexivity.
    + (* named receiver: tab[len(kids)] = i; kids = append(kids, kid) *)
      assert (Hk : (Z.of_nat (List.length (k0 :: kid)) =? 0)%Z = false) by (cbn [List.length]; lia).
      destruct (IH (i + 1)%N (acc ++ [(i, k0 :: kid)])%list D H E _ (or_intror Ht2)) as (tl' & Hnil & Hcons & Heq).
      exists tl'. split; [intros Hc; discriminate|]. split.
      { intros _. destruct rest; [rewrite Hnil by reflexivity; exact Ht2|apply Hcons; discriminate]. }
      rewrite <- app_assoc in Heq. cbn [app] in Heq.
      etransitivity; [|exact Heq]. clear Heq IH. rewrite N2Z.inj_add. change (Z.of_N 1) with 1%Z.
      rewrite range_loop2_cons. unfold tv_body, envV.
      rewrite map_app, tab_of_app. cbn [map snd tab_of Nat.add]. unfold bytes in *.
      destruct acc as [|[o0 kk0] acc0].
      * cbn [map enc_kids tab_of app List.length].
        assert (Hms : map_set [] (VInt 0) (VInt (Z.of_N i)) = Some [VList [VInt 0; VInt (Z.of_N i)]]) by reflexivity.
        destruct Htl as [->|(a & b & ->)]; cbn [app]; steps3 X; reflexivity.
      * remember ((o0, kk0) :: acc0) as acc eqn:Hacc.
        assert (Hek : enc_kids (map snd acc) = VList (map VBytes (map snd acc))) by (subst acc; reflexivity).
        assert (Hek2 : enc_kids (map snd acc ++ [k0 :: kid]) = VList (map VBytes (map snd acc) ++ [VBytes (k0 :: kid)])).
        { subst acc. cbn [map app enc_kids]. rewrite map_app. reflexivity. }
        rewrite Hek, Hek2. clear Hek Hek2.
        assert (Hlen : List.length acc = List.length (map VBytes (map snd acc))) by (rewrite !map_length; reflexivity).
        rewrite Hlen.
        pose proof (map_set_tab_of acc 0 (VInt (Z.of_N i))) as Hms. cbn [Nat.add] in Hms. unfold bytes in Hms. rewrite Hlen in Hms.
        remember (map VBytes (map snd acc)) as KL eqn:HKL.
        remember (tab_of 0 acc) as TL eqn:HTL.
        clear Hacc HKL HTL Hlen.
        destruct Htl as [->|(a & b & ->)]; cbn [app]; steps3 X; reflexivity.
Qed.

Definition ds_after_visible (hh : bytes) (K : gval) : gval :=
  VStruct [("ring", VNil); ("versionValidator", VNil); ("headerHash", VBytes hh);
           ("mki", VStruct [("NumAnonReceivers", VInt 0); ("NamedReceivers", K)])].

Lemma tv_after (vd : validator) (kr : keyring) (hh : bytes) (h : header) (a b : gval) :
  (vmaj (h_version h) = 1 \/ vmaj (h_version h) = 2)%Z ->
  (N.of_nat (List.length (h_rcvs h)) < 4294967296)%N ->
  exists vs e',
    exec2 (ext_keyring vd kr) 297
          (envV (g_ds0 hh) (g_enc_header h) (VBytes (h_a h)) (enc_kids (map snd (named_with_index (h_rcvs h) 0)))
                (tab_of 0 (named_with_index (h_rcvs h) 0)) [("i", a); ("r", b)]) tv_rest = CRet vs e' /\
    g_try_result (ORet vs) = try_visible c kr (h_version h) (h_a h) (h_rcvs h) /\
    lookup "ds" e' = Some (ds_after_visible hh (enc_kids (map snd (named_with_index (h_rcvs h) 0)))).
Proof.
  destruct h as [fmt [ma mi] ty ea eb rcvs]. cbn [h_version h_a h_rcvs vmaj]. intros Hv Hlen.
  unfold try_visible, g_enc_header, g_ds0, envV, tv_rest, ds_after_visible.
  cbn [h_format h_version h_type h_a h_b h_rcvs app].
  set (named := named_with_index rcvs 0).
  pose proof (map_find_tab_of named 0) as Hmf. cbn [Nat.add] in Hmf.
  remember (tab_of 0 named) as TL eqn:HTL.
  remember (map g_rcv rcvs) as RL eqn:HRL.
  unfold bytes in *.
  destruct (map snd named) as [|k0 ks] eqn:Eks.
  - cbn [enc_kids].
    assert (El : lookup_box_secret kr (@nil (list byte)) 0 = None) by reflexivity. cbn [lookup_box_secret].
    eexists; eexists; split; [steps3 (ext_keyring vd kr); reflexivity|]. split; reflexivity.
  - cbn [enc_kids].
    pose proof (as_bytes_list_map (k0 :: ks)) as Habl.
    remember (map VBytes (k0 :: ks)) as KL eqn:HKL.
    destruct (lookup_box_secret kr (k0 :: ks) 0) as [[i k]|] eqn:El.
    + assert (Hi0 : (Z.of_nat i <? 0)%Z = false) by lia.
      specialize (Hmf i).
      destruct (nth_error named i) as [[orig kid]|] eqn:En.
      * destruct (nwi_nth rcvs 0 i orig kid En) as [_ [box Hbox]]. rewrite N.sub_0_r in Hbox. unfold bytes in *.
        assert (Hlt : (N.to_nat orig < List.length rcvs)%nat) by (apply nth_error_Some; rewrite Hbox; discriminate).
        assert (Ho0 : (Z.of_N orig <? 0)%Z = false) by lia.
        assert (Hmod : (Z.of_N orig mod 18446744073709551616)%Z = Z.of_N orig) by (apply Z.mod_small; lia).
        assert (Hnth : nth_error RL (Z.to_nat (Z.of_N orig)) = Some (g_rcv (kid, box))).
        { subst RL. replace (Z.to_nat (Z.of_N orig)) with (N.to_nat orig) by lia. rewrite nth_error_map, Hbox. reflexivity. }
        rewrite (nth_error_nth _ _ _ Hbox). cbn [snd].
        destruct (nonce_payload_key_box (mkV ma mi) orig) as [nonce|] eqn:Enonce;
          [|exfalso; unfold nonce_payload_key_box in Enonce; cbn [vmaj] in Enonce; destruct Hv; subst ma; discriminate].
        assert (Enonce' : nonce_payload_key_box (mkV ma mi) (Z.to_N (Z.of_N orig mod 18446744073709551616)) = Some nonce)
          by (rewrite Hmod, N2Z.id; exact Enonce).
        destruct k as [ksk kpk]. cbn [fst].
        destruct (box_open c ksk ea nonce box) as [pt|] eqn:Ebox.
        -- destruct (sym_key pt) as [key|e] eqn:Esk; cbn [bind].
           ++ eexists; eexists; split; [steps3 (ext_keyring vd kr); reflexivity|]. split; [|reflexivity].
              cbv [g_try_result as_key g_key fst snd]. rewrite Ho0, N2Z.id. reflexivity.
           ++ assert (e = ErrBadSymmetricKey) as -> by (unfold sym_key in Esk; destruct (Nat.eqb _ _); congruence).
              eexists; eexists; split; [steps3 (ext_keyring vd kr); reflexivity|]. split; reflexivity.
        -- eexists; eexists; split; [steps3 (ext_keyring vd kr); reflexivity|]. split; reflexivity.
      * eexists; eexists; split; [steps3 (ext_keyring vd kr); reflexivity|]. split; reflexivity.
    + eexists; eexists; split; [steps3 (ext_keyring vd kr); reflexivity|]. split; reflexivity.
Qed.
(* (TARGET) for a header whose version has major 1 or 2 (validate has run before) *)
Lemma go_tryVisibleReceivers (vd : validator) (kr : keyring) (hh : bytes) (h : header) :
  (vmaj (h_version h) = 1 \/ vmaj (h_version h) = 2)%Z ->
  (N.of_nat (List.length (h_rcvs h)) < 4294967296)%N ->
  let r := run_func2 (ext_keyring vd kr) f_saltpack_decryptStream_tryVisibleReceivers
                     [g_ds0 hh; g_enc_header h; VBytes (h_a h)] in
  g_try_result (fst r) = try_visible c kr (h_version h) (h_a h) (h_rcvs h) /\
  (* the named receivers reported in the MessageKeyInfo *)
  (forall o, fst r = ORet o ->
     exists ds', lookup "ds" (snd r) = Some ds' /\
       match ds' with
       | VStruct fs => match lookup "mki" fs with
                       | Some (VStruct m) =>
                         match lookup "NamedReceivers" m with
                         | Some (VList l) => as_bytes_list l = Some (map snd (named_with_index (h_rcvs h) 0))
                         | Some VNil => map snd (named_with_index (h_rcvs h) 0) = []
                         | _ => False
                         end
                       | _ => False
                       end
       | _ => False
       end).
Proof.
  intros Hv Hlen. cbv zeta.
  assert (Hmain : exists vs e',
    run_func2 (ext_keyring vd kr) f_saltpack_decryptStream_tryVisibleReceivers [g_ds0 hh; g_enc_header h; VBytes (h_a h)]
      = (ORet vs, e') /\
    g_try_result (ORet vs) = try_visible c kr (h_version h) (h_a h) (h_rcvs h) /\
    lookup "ds" e' = Some (ds_after_visible hh (enc_kids (map snd (named_with_index (h_rcvs h) 0))))).
  { assert (Hex : exists vs e',
      exec2 (ext_keyring vd kr) 300 [("ds", g_ds0 hh); ("hdr", g_enc_header h); ("ephemeralKey", VBytes (h_a h))]
            (f_body f_saltpack_decryptStream_tryVisibleReceivers) = CRet vs e' /\
      g_try_result (ORet vs) = try_visible c kr (h_version h) (h_a h) (h_rcvs h) /\
      lookup "ds" e' = Some (ds_after_visible hh (enc_kids (map snd (named_with_index (h_rcvs h) 0))))).
    { destruct (h_rcvs h) as [|r0 rcvs0] eqn:Ercvs.
      - unfold try_visible. cbn [named_with_index map lookup_box_secret enc_kids].
        eexists; eexists; split.
        + cbv beta iota zeta delta [f_body f_saltpack_decryptStream_tryVisibleReceivers].
          unfold g_enc_header. rewrite Ercvs.
          steps3 (ext_keyring vd kr). rewrite range_loop2_nil.
          assert (El : lookup_box_secret kr (@nil (list byte)) 0 = None) by reflexivity.
          steps3 (ext_keyring vd kr). reflexivity.
        + split; reflexivity.
      - rewrite <- Ercvs. rewrite <- Ercvs in Hlen.
        destruct (tv_loop (ext_keyring vd kr) (h_rcvs h) 0 [] (g_ds0 hh) (g_enc_header h) (VBytes (h_a h)) []
                          (or_introl eq_refl)) as (tl' & _ & Hc & Heq).
        destruct Hc as (a & b & ->); [rewrite Ercvs; discriminate|].
        cbn [app] in Heq.
        destruct (tv_after vd kr hh h a b Hv Hlen) as (vs & e' & Hrun & Hres & Hds).
        exists vs, e'. split; [|split; assumption].
        cbv beta iota zeta delta [f_body f_saltpack_decryptStream_tryVisibleReceivers].
        unfold g_enc_header.
        steps3 (ext_keyring vd kr).
        etransitivity; [exact Heq|]. exact Hrun. }
    destruct Hex as (vs & e' & Hrun & Hres & Hds). exists vs, e'. split; [|split; assumption].
    unfold run_func2. cbn [f_params f_results f_saltpack_decryptStream_tryVisibleReceivers bind_params map app].
    rewrite Hrun. reflexivity. }
  destruct Hmain as (vs & e' & Hrun & Hres & Hds). rewrite Hrun. cbn [fst snd]. split; [exact Hres|].
  intros o _. eexists. split; [exact Hds|].
  unfold ds_after_visible. cbv [lookup String.eqb Ascii.eqb Bool.eqb].
  destruct (map snd (named_with_index (h_rcvs h) 0)) as [|k0 ks]; cbn [enc_kids]; [reflexivity|].
  apply as_bytes_list_map.
Qed.

(* ---------- tryHiddenReceivers: the counting loop and the two nested range loops ---------- *)
Definition th_body1 : list gstmt :=
  Eval cbv in match nth 1 (f_body f_saltpack_decryptStream_tryHiddenReceivers) SBreak with SRange _ _ _ b => b | _ => [] end.
Definition th_rest1 : list gstmt :=
  Eval cbv in skipn 2 (f_body f_saltpack_decryptStream_tryHiddenReceivers).
Definition th_body2 : list gstmt :=
  Eval cbv in match nth 2 (f_body f_saltpack_decryptStream_tryHiddenReceivers) SBreak with SRange _ _ _ b => b | _ => [] end.
Definition th_rest2 : list gstmt :=
  Eval cbv in skipn 3 (f_body f_saltpack_decryptStream_tryHiddenReceivers).
Definition th_body3 : list gstmt :=
  Eval cbv in match nth 1 th_body2 SBreak with SRange _ _ _ b => b | _ => [] end.

Definition dsn (hh : bytes) (n : Z) : gval :=
  VStruct [("ring", VNil); ("versionValidator", VNil); ("headerHash", VBytes hh); ("mki", VStruct [("NumAnonReceivers", VInt n)])].
Definition envH (D H E SK : gval) (tl : env) : env :=
  ([("ds", D); ("hdr", H); ("ephemeralKey", E); ("secretKeys", SK)] ++ tl)%list.

Lemma th_loop1 (X : externs) (hh : bytes) (H E SK : gval) (rest : list (bytes * bytes)) :
  forall (j n : Z) (tl : env), (tl = [] \/ exists x, tl = [("r", x)]) ->
  exists n' tl', (rest = [] -> tl' = tl) /\ (rest <> [] -> exists x, tl' = [("r", x)]) /\
    range_loop2 X 298 "_" "r" th_body1 th_rest1 j (map g_rcv rest) (envH (dsn hh n) H E SK tl)
    = exec2 X 298 (envH (dsn hh n') H E SK tl') th_rest1.
Proof.
  induction rest as [|[kid box] rest IH]; intros j n tl Htl.
  - exists n, tl. split; [reflexivity|]. split; [congruence|]. apply range_loop2_nil.
  - cbn [map]. unfold bytes in *.
    assert (Hstep : exists n1, range_loop2 X 298 "_" "r" th_body1 th_rest1 j (g_rcv (kid, box) :: map g_rcv rest) (envH (dsn hh n) H E SK tl)
                    = range_loop2 X 298 "_" "r" th_body1 th_rest1 (j + 1) (map g_rcv rest) (envH (dsn hh n1) H E SK [("r", g_rcv (kid, box))])).
    { rewrite range_loop2_cons. unfold th_body1, envH, dsn.
      destruct kid as [|k0 kid].
      - eexists. destruct Htl as [->|(x & ->)]; cbn [app]; steps3 X; reflexivity.
      - assert (Hk : (Z.of_nat (List.length (k0 :: kid)) =? 0)%Z = false) by (cbn [List.length]; lia).
        eexists. destruct Htl as [->|(x & ->)]; cbn [app]; steps3 X; reflexivity. }
    destruct Hstep as [n1 Hstep].
    destruct (IH (j + 1)%Z n1 [("r", g_rcv (kid, box))]) as (n' & tl' & Hnil & Hcons & Heq).
    { right. eexists; reflexivity. }
    exists n', tl'. split; [discriminate|]. split.
    { intros _. destruct rest; [rewrite Hnil by reflexivity; eexists; reflexivity|apply Hcons; discriminate]. }
    etransitivity; [exact Hstep|exact Heq].
Qed.

(* the environment inside the loop over the secret keys, once "r" exists (the receiver list is non-empty) *)
Definition envI (D H E SK rv skv shv : gval) (T2 : env) : env :=
  ([("ds", D); ("hdr", H); ("ephemeralKey", E); ("secretKeys", SK); ("r", rv); ("secretKey", skv); ("shared", shv)] ++ T2)%list.
Definition shape2 (T2 : env) : Prop :=
  T2 = [] \/ (exists x, T2 = [("i", x)]) \/
  (exists x y z w, T2 = [("i", x); ("nonce", y); ("payloadKeySlice", z); ("err", w)]).

Lemma th_inner (vd : validator) (kr : keyring) (h : header) (shared : bytes) (D E SK skv : gval) :
  (vmaj (h_version h) = 1 \/ vmaj (h_version h) = 2)%Z ->
  forall (rest : list (bytes * bytes)) (i : N) (rv : gval) (T2 : env), shape2 T2 ->
  (i + N.of_nat (List.length rest) < 4294967296)%N ->
  match try_hidden_boxes c (h_version h) shared rest i with
  | Ok None => exists rv' T2', shape2 T2' /\
      range_loop2 (ext_keyring vd kr) 295 "i" "r" th_body3 [] (Z.of_N i) (map g_rcv rest)
                  (envI D (g_enc_header h) E SK rv skv (VBytes shared) T2)
      = CNorm (envI D (g_enc_header h) E SK rv' skv (VBytes shared) T2')
  | Ok (Some (key, idx)) => exists e',
      range_loop2 (ext_keyring vd kr) 295 "i" "r" th_body3 [] (Z.of_N i) (map g_rcv rest)
                  (envI D (g_enc_header h) E SK rv skv (VBytes shared) T2)
      = CRet [skv; VBytes key; VInt (Z.of_N idx); VNil] e'
  | Err e => e = ErrBadSymmetricKey /\ exists e',
      range_loop2 (ext_keyring vd kr) 295 "i" "r" th_body3 [] (Z.of_N i) (map g_rcv rest)
                  (envI D (g_enc_header h) E SK rv skv (VBytes shared) T2)
      = CRet [VNil; VNil; VInt (-1); VErr "ErrBadSymmetricKey" []] e'
  end.
Proof.
  destruct h as [fmt [ma mi] ty ea eb rcvs]. cbn [h_version vmaj]. intros Hv.
  induction rest as [|[kid box] rest IH]; intros i rv T2 HT2 Hlen.
  - cbn [try_hidden_boxes map]. exists rv, T2. split; [exact HT2|]. reflexivity.
  - cbn [try_hidden_boxes map]. cbn [List.length] in Hlen. unfold bytes in *.
    destruct kid as [|k0 kid].
    + (* anonymous: try the box *)
      destruct (nonce_payload_key_box (mkV ma mi) i) as [nonce|] eqn:Enonce;
        [|exfalso; unfold nonce_payload_key_box in Enonce; cbn [vmaj] in Enonce; destruct Hv; subst ma; discriminate].
      assert (Hmod : (Z.of_N i mod 18446744073709551616)%Z = Z.of_N i) by (apply Z.mod_small; lia).
      assert (Enonce' : nonce_payload_key_box (mkV ma mi) (Z.to_N (Z.of_N i mod 18446744073709551616)) = Some nonce)
        by (rewrite Hmod, N2Z.id; exact Enonce).
      destruct (sb_open c shared nonce box) as [pt|] eqn:Esb.
      * destruct (sym_key pt) as [key|e] eqn:Esk; cbn [bind].
        -- eexists. rewrite range_loop2_cons. unfold th_body3, envI, g_enc_header.
           cbn [h_format h_version h_type h_a h_b h_rcvs].
           destruct HT2 as [->|[(x & ->)|(x & y & z & w & ->)]]; cbn [app]; steps3 (ext_keyring vd kr); reflexivity.
        -- assert (e = ErrBadSymmetricKey) as -> by (unfold sym_key in Esk; destruct (Nat.eqb _ _); congruence).
           split; [reflexivity|]. eexists. rewrite range_loop2_cons. unfold th_body3, envI, g_enc_header.
           cbn [h_format h_version h_type h_a h_b h_rcvs].
           destruct HT2 as [->|[(x & ->)|(x & y & z & w & ->)]]; cbn [app]; steps3 (ext_keyring vd kr); reflexivity.
      * (* the box does not open: continue *)
        assert (Hstep : exists T2', shape2 T2' /\
          range_loop2 (ext_keyring vd kr) 295 "i" "r" th_body3 [] (Z.of_N i) (g_rcv ([], box) :: map g_rcv rest)
                      (envI D (g_enc_header (mkHeader fmt (mkV ma mi) ty ea eb rcvs)) E SK rv skv (VBytes shared) T2)
          = range_loop2 (ext_keyring vd kr) 295 "i" "r" th_body3 [] (Z.of_N (i + 1)) (map g_rcv rest)
                      (envI D (g_enc_header (mkHeader fmt (mkV ma mi) ty ea eb rcvs)) E SK (g_rcv ([], box)) skv (VBytes shared) T2')).
        { rewrite N2Z.inj_add. change (Z.of_N 1) with 1%Z.
          rewrite range_loop2_cons. unfold th_body3, envI, g_enc_header.
          cbn [h_format h_version h_type h_a h_b h_rcvs].
          destruct HT2 as [->|[(x & ->)|(x & y & z & w & ->)]]; cbn [app];
            (eexists; split; [|steps3 (ext_keyring vd kr); reflexivity]);
            right; right; do 4 eexists; reflexivity. }
        destruct Hstep as (T2' & HT2' & Hstep).
        specialize (IH (i + 1)%N (g_rcv ([], box)) T2' HT2' ltac:(lia)).
        destruct (try_hidden_boxes c (mkV ma mi) shared rest (i + 1)) as [[[key idx]|]|e].
        -- destruct IH as (e' & IH). exists e'. etransitivity; [exact Hstep|exact IH].
        -- destruct IH as (rv' & T2'' & Hs & IH). exists rv', T2''. split; [exact Hs|]. etransitivity; [exact Hstep|exact IH].
        -- destruct IH as (-> & e' & IH). split; [reflexivity|]. exists e'. etransitivity; [exact Hstep|exact IH].
    + (* named receiver: skipped *)
      assert (Hk : (Z.of_nat (List.length (k0 :: kid)) =? 0)%Z = false) by (cbn [List.length]; lia).
      assert (Hstep : exists T2', shape2 T2' /\
          range_loop2 (ext_keyring vd kr) 295 "i" "r" th_body3 [] (Z.of_N i) (g_rcv (k0 :: kid, box) :: map g_rcv rest)
                      (envI D (g_enc_header (mkHeader fmt (mkV ma mi) ty ea eb rcvs)) E SK rv skv (VBytes shared) T2)
          = range_loop2 (ext_keyring vd kr) 295 "i" "r" th_body3 [] (Z.of_N (i + 1)) (map g_rcv rest)
                      (envI D (g_enc_header (mkHeader fmt (mkV ma mi) ty ea eb rcvs)) E SK (g_rcv (k0 :: kid, box)) skv (VBytes shared) T2')).
      { rewrite N2Z.inj_add. change (Z.of_N 1) with 1%Z.
        rewrite range_loop2_cons. unfold th_body3, envI, g_enc_header.
        cbn [h_format h_version h_type h_a h_b h_rcvs].
        destruct HT2 as [->|[(x & ->)|(x & y & z & w & ->)]]; cbn [app];
          (eexists; split; [|steps3 (ext_keyring vd kr); reflexivity]).
        - right; left; eexists; reflexivity.
        - right; left; eexists; reflexivity.
        - right; right; do 4 eexists; reflexivity. }
      destruct Hstep as (T2' & HT2' & Hstep).
      specialize (IH (i + 1)%N (g_rcv (k0 :: kid, box)) T2' HT2' ltac:(lia)).
      destruct (try_hidden_boxes c (mkV ma mi) shared rest (i + 1)) as [[[key idx]|]|e].
      * destruct IH as (e' & IH). exists e'. etransitivity; [exact Hstep|exact IH].
      * destruct IH as (rv' & T2'' & Hs & IH). exists rv', T2''. split; [exact Hs|]. etransitivity; [exact Hstep|exact IH].
      * destruct IH as (-> & e' & IH). split; [reflexivity|]. exists e'. etransitivity; [exact Hstep|exact IH].
Qed.

(* replace the stuck head of the left-hand side using an equation about it (up to conversion) *)
Ltac rewrite_head Heq :=
  lazymatch goal with
  | |- ?L = _ =>
    let h := head_scrut3 L in
    lazymatch type of Heq with
    | _ = ?r => replace h with r by (symmetry; exact Heq)
    end
  end; cbv beta iota.

Definition envO (D H E SK rv : gval) (T : env) : env :=
  ([("ds", D); ("hdr", H); ("ephemeralKey", E); ("secretKeys", SK); ("r", rv)] ++ T)%list.
Definition shapeO (T : env) : Prop :=
  T = [] \/ exists s t T2, T = ("secretKey", s) :: ("shared", t) :: T2 /\ shape2 T2.

Lemma th_outer (vd : validator) (kr : keyring) (h : header) (D SK : gval) :
  (vmaj (h_version h) = 1 \/ vmaj (h_version h) = 2)%Z ->
  (N.of_nat (List.length (h_rcvs h)) < 4294967296)%N ->
  forall (keys : list (bytes * bytes)) (j : Z) (rv : gval) (T : env), shapeO T ->
  match try_hidden c keys (h_version h) (h_a h) (h_rcvs h) with
  | Ok None => exists e',
      range_loop2 (ext_keyring vd kr) 297 "_" "secretKey" th_body2 th_rest2 j (map g_key keys)
                  (envO D (g_enc_header h) (VBytes (h_a h)) SK rv T)
      = CRet [VNil; VNil; VInt (-1); VNil] e'
  | Ok (Some (k, key, idx)) => exists e',
      range_loop2 (ext_keyring vd kr) 297 "_" "secretKey" th_body2 th_rest2 j (map g_key keys)
                  (envO D (g_enc_header h) (VBytes (h_a h)) SK rv T)
      = CRet [g_key k; VBytes key; VInt (Z.of_N idx); VNil] e'
  | Err e => e = ErrBadSymmetricKey /\ exists e',
      range_loop2 (ext_keyring vd kr) 297 "_" "secretKey" th_body2 th_rest2 j (map g_key keys)
                  (envO D (g_enc_header h) (VBytes (h_a h)) SK rv T)
      = CRet [VNil; VNil; VInt (-1); VErr "ErrBadSymmetricKey" []] e'
  end.
Proof.
  intros Hv Hlen.
  induction keys as [|k keys IH]; intros j rv T HT.
  - cbn [try_hidden map]. eexists. rewrite range_loop2_nil. unfold th_rest2.
    steps3 (ext_keyring vd kr). reflexivity.
  - cbn [try_hidden map].
    assert (Hin : exists T2, shape2 T2 /\
       forall R, (forall skv shv, range_loop2 (ext_keyring vd kr) 295 "i" "r" th_body3 [] 0 (map g_rcv (h_rcvs h))
                  (envI D (g_enc_header h) (VBytes (h_a h)) SK rv skv shv T2) = R skv shv) ->
       exec2 (ext_keyring vd kr) 297 (update "secretKey" (g_key k) (envO D (g_enc_header h) (VBytes (h_a h)) SK rv T)) th_body2
       = R (g_key k) (VBytes (dh_shared c (fst k) (h_a h)))).
    { destruct h as [fmt [ma mi] ty ea eb rcvs]. destruct k as [ksk kpk].
      unfold th_body2, envO, g_enc_header. cbn [h_format h_version h_type h_a h_b h_rcvs fst].
      destruct HT as [->|(s & t & T2 & -> & HT2)].
      - exists []. split; [left; reflexivity|]. intros R HR. cbn [app]. steps3 (ext_keyring vd kr). apply HR.
      - exists T2. split; [exact HT2|]. intros R HR. cbn [app]. steps3 (ext_keyring vd kr). apply HR. }
    destruct Hin as (T2 & HT2 & Hbody).
    pose proof (Hbody _ (fun skv shv => eq_refl)) as Hb. clear Hbody.
    assert (Hlen0 : (0 + N.of_nat (List.length (h_rcvs h)) < 4294967296)%N) by lia.
    pose proof (th_inner vd kr h (dh_shared c (fst k) (h_a h)) D (VBytes (h_a h)) SK (g_key k) Hv
                         (h_rcvs h) 0%N rv T2 HT2 Hlen0) as Hi.
    change (Z.of_N 0) with 0%Z in Hi.
    rewrite range_loop2_cons_sk.
    destruct (try_hidden_boxes c (h_version h) (dh_shared c (fst k) (h_a h)) (h_rcvs h) 0) as [[[key idx]|]|e].
    + destruct Hi as (e' & Hi). exists e'. rewrite Hb, Hi. reflexivity.
    + destruct Hi as (rv' & T2' & HT2' & Hi).
      specialize (IH (j + 1)%Z rv' (("secretKey", g_key k) :: ("shared", VBytes (dh_shared c (fst k) (h_a h))) :: T2')).
      assert (HT' : shapeO (("secretKey", g_key k) :: ("shared", VBytes (dh_shared c (fst k) (h_a h))) :: T2')).
      { right. do 3 eexists. split; [reflexivity|exact HT2']. }
      specialize (IH HT').
      rewrite Hb, Hi. exact IH.
    + destruct Hi as (-> & e' & Hi). split; [reflexivity|]. exists e'. rewrite Hb, Hi. reflexivity.
Qed.

(* an empty receiver list: the inner loop never runs and "r" is never bound *)
Lemma th_outer_nil (vd : validator) (kr : keyring) (h : header) (D SK : gval) :
  h_rcvs h = [] ->
  forall (keys : list (bytes * bytes)) (j : Z) (T : env),
  (T = [] \/ exists s t, T = [("secretKey", s); ("shared", t)]) ->
  exists e',
    range_loop2 (ext_keyring vd kr) 297 "_" "secretKey" th_body2 th_rest2 j (map g_key keys)
                (envH D (g_enc_header h) (VBytes (h_a h)) SK T)
    = CRet [VNil; VNil; VInt (-1); VNil] e'.
Proof.
  intros Hr.
  induction keys as [|k keys IH]; intros j T HT.
  - cbn [map]. eexists. rewrite range_loop2_nil. unfold th_rest2.
    steps3 (ext_keyring vd kr). reflexivity.
  - cbn [map]. rewrite range_loop2_cons_sk.
    assert (Hb : exec2 (ext_keyring vd kr) 297 (update "secretKey" (g_key k) (envH D (g_enc_header h) (VBytes (h_a h)) SK T)) th_body2
                 = CNorm (envH D (g_enc_header h) (VBytes (h_a h)) SK
                               [("secretKey", g_key k); ("shared", VBytes (dh_shared c (fst k) (h_a h)))])).
    { destruct h as [fmt [ma mi] ty ea eb rcvs]. destruct k as [ksk kpk]. cbn [h_rcvs] in Hr. subst rcvs.
      unfold th_body2, envH, g_enc_header. cbn [h_format h_version h_type h_a h_b h_rcvs fst].
      destruct HT as [->|(s & t & ->)]; cbn [app]; steps3 (ext_keyring vd kr);
        rewrite range_loop2_nil; steps3 (ext_keyring vd kr); reflexivity. }
    rewrite Hb. apply IH. right. eexists; eexists; reflexivity.
Qed.

Lemma try_hidden_nil (keys : list (bytes * bytes)) (v : version) (eph : bytes) :
  try_hidden c keys v eph [] = Ok None.
Proof. induction keys as [|k keys IH]; cbn [try_hidden try_hidden_boxes]; [reflexivity|exact IH]. Qed.
(* (TARGET) *)
Lemma go_tryHiddenReceivers (vd : validator) (kr : keyring) (hh : bytes) (h : header) :
  (vmaj (h_version h) = 1 \/ vmaj (h_version h) = 2)%Z ->
  (N.of_nat (List.length (h_rcvs h)) < 4294967296)%N ->
  let r := run_func2 (ext_keyring vd kr) f_saltpack_decryptStream_tryHiddenReceivers
                     [g_ds0 hh; g_enc_header h; VBytes (h_a h)] in
  g_try_result (fst r) = try_hidden c (kr_keys kr) (h_version h) (h_a h) (h_rcvs h).
Proof.
  intros Hv Hlen. cbv zeta.
  assert (Hpre : exists vs e',
    exec2 (ext_keyring vd kr) 300 [("ds", g_ds0 hh); ("hdr", g_enc_header h); ("ephemeralKey", VBytes (h_a h))]
          (f_body f_saltpack_decryptStream_tryHiddenReceivers) = CRet vs e' /\
    g_try_result (ORet vs) = try_hidden c (kr_keys kr) (h_version h) (h_a h) (h_rcvs h)).
  { destruct (h_rcvs h) as [|r0 rcvs0] eqn:Ercvs.
    - rewrite try_hidden_nil.
      destruct (th_outer_nil vd kr h (g_ds0 hh) (VList (map g_key (kr_keys kr))) Ercvs (kr_keys kr) 0%Z [] (or_introl eq_refl))
        as (e' & Ho).
      exists [VNil; VNil; VInt (-1); VNil], e'. split; [|reflexivity].
      cbv beta iota zeta delta [f_body f_saltpack_decryptStream_tryHiddenReceivers].
      unfold g_enc_header in *. rewrite Ercvs in *.
      steps3 (ext_keyring vd kr). rewrite range_loop2_nil. steps3 (ext_keyring vd kr).
      exact Ho.
    - rewrite <- Ercvs. rewrite <- Ercvs in Hlen.
      destruct (th_loop1 (ext_keyring vd kr) hh (g_enc_header h) (VBytes (h_a h)) (VList (map g_key (kr_keys kr))) (h_rcvs h)
                         0%Z 0%Z [] (or_introl eq_refl)) as (n' & tl' & _ & Hc & Hl1).
      destruct Hc as (x & ->); [rewrite Ercvs; discriminate|].
      pose proof (th_outer vd kr h (dsn hh n') (VList (map g_key (kr_keys kr))) Hv Hlen (kr_keys kr) 0%Z x [] (or_introl eq_refl)) as Ho.
      assert (Hrun : exec2 (ext_keyring vd kr) 300 [("ds", g_ds0 hh); ("hdr", g_enc_header h); ("ephemeralKey", VBytes (h_a h))]
          (f_body f_saltpack_decryptStream_tryHiddenReceivers)
          = range_loop2 (ext_keyring vd kr) 297 "_" "secretKey" th_body2 th_rest2 0 (map g_key (kr_keys kr))
                  (envO (dsn hh n') (g_enc_header h) (VBytes (h_a h)) (VList (map g_key (kr_keys kr))) x [])).
      { cbv beta iota zeta delta [f_body f_saltpack_decryptStream_tryHiddenReceivers].
        unfold g_enc_header in *.
        steps3 (ext_keyring vd kr). rewrite_head Hl1. unfold th_rest1, envH, dsn. cbn [app].
        steps3 (ext_keyring vd kr). reflexivity. }
      rewrite Hrun.
      destruct (try_hidden c (kr_keys kr) (h_version h) (h_a h) (h_rcvs h)) as [[[[k key] idx]|]|e].
      + destruct Ho as (e' & Ho). eexists; eexists; split; [exact Ho|].
        destruct k as [ksk kpk]. cbv [g_try_result as_key g_key fst snd].
        replace (Z.of_N idx <? 0)%Z with false by lia. rewrite N2Z.id. reflexivity.
      + destruct Ho as (e' & Ho). eexists; eexists; split; [exact Ho|]. reflexivity.
      + destruct Ho as (-> & e' & Ho). eexists; eexists; split; [exact Ho|]. reflexivity. }
  destruct Hpre as (vs & e' & Hrun & Hres).
  unfold run_func2. cbn [f_params f_results f_saltpack_decryptStream_tryHiddenReceivers bind_params map app].
  rewrite Hrun. exact Hres.
Qed.

(* ---------- processHeader ---------- *)
(* externs for processHeader: the two try* methods with the MODEL's meaning (justified by the two
   lemmas above), state effects included: they return their four results and then the updated ds *)
Definition set_mki (ds : gval) (f : string) (v : gval) : gval :=
  match ds with
  | VStruct fs => match lookup "mki" fs with
                  | Some (VStruct m) => VStruct (set_field fs "mki" (VStruct (set_field m f v)))
                  | _ => VStruct (set_field fs "mki" (VStruct [(f, v)]))
                  end
  | other => other
  end.

Definition g_of_try (r : result (option ((bytes * bytes) * bytes * N))) : option (list gval) :=
  match r with
  | Ok (Some (k, pk, i)) => Some [g_key k; VBytes pk; VInt (Z.of_N i); VNil]
  | Ok None => Some [VNil; VNil; VInt (-1); VNil]
  | Err ErrBadLookup => Some [VNil; VNil; VInt (-1); VErr "ErrBadLookup" []]
  | Err ErrDecryptionFailed => Some [VNil; VNil; VInt (-1); VErr "ErrDecryptionFailed" []]
  | Err ErrBadSymmetricKey => Some [VNil; VNil; VInt (-1); VErr "ErrBadSymmetricKey" []]
  | Err _ => None
  end.

Definition as_header_rcvs (v : gval) : option (list (bytes * bytes)) :=
  match v with
  | VList l =>
    (fix go (l0 : list gval) : option (list (bytes * bytes)) :=
       match l0 with
       | [] => Some []
       | VStruct [("ReceiverKID", VBytes k); ("PayloadKeyBox", VBytes b)] :: t =>
         match go t with Some r => Some ((k, b) :: r) | None => None end
       | _ => None
       end) l
  | _ => None
  end.

Definition ext_process (vd : validator) (kr : keyring) : externs := fun fn args =>
  if String.eqb fn "decryptStream.tryVisibleReceivers" then
    match args with
    | [ds; VStruct hf; VBytes eph] =>
      match lookup "Version" hf, lookup "Receivers" hf with
      | Some ver, Some rc =>
        match as_version ver, as_header_rcvs rc with
        | Some v, Some rcvs =>
          match g_of_try (try_visible c kr v eph rcvs) with
          | Some rs => Some (rs ++ [set_mki ds "NamedReceivers" (VList (map VBytes (map snd (named_with_index rcvs 0))))])%list
          | None => None
          end
        | _, _ => None
        end
      | _, _ => None
      end
    | _ => None
    end
  else if String.eqb fn "decryptStream.tryHiddenReceivers" then
    match args with
    | [ds; VStruct hf; VBytes eph] =>
      match lookup "Version" hf, lookup "Receivers" hf with
      | Some ver, Some rc =>
        match as_version ver, as_header_rcvs rc with
        | Some v, Some rcvs =>
          match g_of_try (try_hidden c (kr_keys kr) v eph rcvs) with
          | Some rs => Some (rs ++ [set_mki ds "NumAnonReceivers" (VInt (Z.of_N (count_anon rcvs)))])%list
          | None => None
          end
        | _, _ => None
        end
      | _, _ => None
      end
    | _ => None
    end
  else ext_keyring vd kr fn args.

(* what processHeader leaves in the receiver object, read back as the model's (mki, dec_state) *)
Definition field_bytes (fs : list (string * gval)) (f : string) : option bytes :=
  match lookup f fs with Some (VBytes b) => Some b | Some VNil => Some [] | _ => None end.
Definition field_bool (fs : list (string * gval)) (f : string) : bool :=
  match lookup f fs with Some (VBool b) => b | _ => false end.

Definition read_ds (ds : gval) : option (mki * dec_state) :=
  match ds with
  | VStruct fs =>
    match lookup "version" fs, field_bytes fs "payloadKey", lookup "position" fs, field_bytes fs "macKey", field_bytes fs "headerHash", lookup "mki" fs with
    | Some ver, Some pkey, Some (VInt pos), Some mk, Some hh, Some (VStruct m) =>
      match as_version ver, lookup "SenderKey" m, lookup "ReceiverKey" m with
      | Some v, Some (VBytes sender), Some rk =>
        match as_key rk with
        | Some k =>
          let named := match lookup "NamedReceivers" m with Some (VList l) => match as_bytes_list l with Some r => r | None => [] end | _ => [] end in
          let nanon := match lookup "NumAnonReceivers" m with Some (VInt z) => Z.to_N z | _ => 0%N end in
          Some (mkMki sender (field_bool m "SenderIsAnon") (snd k) (field_bool m "ReceiverIsAnon") named nanon,
                mkDec v pkey mk (Z.to_N pos) hh)
        | None => None
        end
      | _, _, _ => None
      end
    | _, _, _, _, _, _ => None
    end
  | _ => None
  end.

Definition g_hdr_err (o : outcome) : option err :=
  match o with
  | ORet [VErr n _] =>
    if String.eqb n "ErrNotASaltpackMessage" then Some ErrNotASaltpackMessage
    else if String.eqb n "ErrWrongMessageType" then Some ErrWrongMessageType
    else if String.eqb n "ErrBadVersion" then Some ErrBadVersion
    else if String.eqb n "ErrBadEphemeralKey" then Some ErrBadEphemeralKey
    else if String.eqb n "ErrBadLookup" then Some ErrBadLookup
    else if String.eqb n "ErrDecryptionFailed" then Some ErrDecryptionFailed
    else if String.eqb n "ErrBadSymmetricKey" then Some ErrBadSymmetricKey
    else if String.eqb n "ErrNoDecryptionKey" then Some ErrNoDecryptionKey
    else if String.eqb n "ErrBadSenderKeySecretbox" then Some ErrBadSenderKeySecretbox
    else if String.eqb n "ErrBadBoxKey" then Some ErrBadBoxKey
    else if String.eqb n "ErrNoSenderKey" then Some ErrNoSenderKey
    else None
  | _ => None
  end.

(* ---------- processHeader ---------- *)
Ltac ev_in3 h ::=
  eval cbv -[Z.eqb Z.ltb Z.leb Z.add Z.sub Z.mul Z.modulo Z.rem Z.quot Z.shiftr Z.shiftl Z.opp
             Z.land Z.lor Z.lxor Z.lnot Z.of_nat Z.of_N Z.to_nat Z.to_N List.length nth_error
             firstn skipn bytes_eqb' bytes_eqb Byte.to_N Byte.of_N N.mul N.ltb N.eqb N.add N.leb b2n n2b Nat.eqb
             N.div N.modulo nth map
             app sha512 hmac512 sb_open sb_seal dh_shared box_seal box_open ed_verify
             nonce_payload_key_box nonce_payload_key_box_v2 nonce_sender_key_sbox
             mac_key_single sum512_truncate256 mac_key_receiver
             lookup_box_secret lookup_sender try_visible try_hidden try_hidden_boxes named_with_index count_anon sym_key
             validate_version format_name mt_encryption kr_keys kr_senders
             map_set map_find as_bytes_list as_header_rcvs tab_of range_loop2 exec2] in h.

Lemma as_header_rcvs_map (l : list (bytes * bytes)) : as_header_rcvs (VList (map g_rcv l)) = Some l.
Proof.
  unfold as_header_rcvs. induction l as [|[k b] l IH]; cbn [map g_rcv fst snd]; [reflexivity|].
  rewrite IH. reflexivity.
Qed.

Lemma try_visible_cases (kr : keyring) (v : version) (eph : bytes) (rcvs : list (bytes * bytes)) :
  (vmaj v = 1 \/ vmaj v = 2)%Z ->
  match try_visible c kr v eph rcvs with
  | Ok (Some (k, pk, pos)) => (pos < N.of_nat (List.length rcvs))%N
  | Ok None => True
  | Err e => e = ErrBadLookup \/ e = ErrDecryptionFailed \/ e = ErrBadSymmetricKey
  end.
Proof.
  intros Hv. unfold try_visible.
  destruct (lookup_box_secret kr _ 0) as [[i k]|]; [|exact I].
  destruct (nth_error (named_with_index rcvs 0) i) as [[orig kid]|] eqn:En; [|left; reflexivity].
  destruct (nwi_nth rcvs 0 i orig kid En) as [_ [box Hbox]]. rewrite N.sub_0_r in Hbox.
  assert (Hlt : (N.to_nat orig < List.length rcvs)%nat) by (apply nth_error_Some; rewrite Hbox; discriminate).
  destruct (nonce_payload_key_box v orig) as [nonce|] eqn:Enonce;
    [|exfalso; unfold nonce_payload_key_box in Enonce; destruct Hv as [Hv|Hv]; rewrite Hv in Enonce; discriminate].
  destruct (box_open c (fst k) eph nonce _) as [pt|]; [|right; left; reflexivity].
  unfold sym_key. destruct (Nat.eqb (List.length pt) 32); cbn [bind]; [lia|right; right; reflexivity].
Qed.

Lemma try_hidden_boxes_cases (v : version) (sh : bytes) :
  (vmaj v = 1 \/ vmaj v = 2)%Z ->
  forall (rest : list (bytes * bytes)) (i : N),
  match try_hidden_boxes c v sh rest i with
  | Ok (Some (key, idx)) => (idx < i + N.of_nat (List.length rest))%N
  | Ok None => True
  | Err e => e = ErrBadSymmetricKey
  end.
Proof.
  intros Hv. induction rest as [|[kid box] rest IH]; intros i; cbn [try_hidden_boxes List.length]; [exact I|].
  assert (Hrec : match try_hidden_boxes c v sh rest (i + 1) with
                 | Ok (Some (_, idx)) => (idx < i + N.of_nat (S (List.length rest)))%N
                 | Ok None => True
                 | Err e => e = ErrBadSymmetricKey
                 end).
  { specialize (IH (i + 1)%N). destruct (try_hidden_boxes c v sh rest (i + 1)) as [[[key idx]|]|e]; [lia|exact I|exact IH]. }
  destruct kid as [|k0 kid]; [|exact Hrec].
  destruct (nonce_payload_key_box v i) as [nonce|] eqn:Enonce;
    [|exfalso; unfold nonce_payload_key_box in Enonce; destruct Hv as [Hv|Hv]; rewrite Hv in Enonce; discriminate].
  destruct (sb_open c sh nonce box) as [pt|]; [|exact Hrec].
  unfold sym_key. destruct (Nat.eqb (List.length pt) 32); cbn [bind]; [lia|reflexivity].
Qed.

Lemma try_hidden_cases (keys : list (bytes * bytes)) (v : version) (eph : bytes) (rcvs : list (bytes * bytes)) :
  (vmaj v = 1 \/ vmaj v = 2)%Z ->
  match try_hidden c keys v eph rcvs with
  | Ok (Some (k, key, idx)) => (idx < N.of_nat (List.length rcvs))%N
  | Ok None => True
  | Err e => e = ErrBadSymmetricKey
  end.
Proof.
  intros Hv. induction keys as [|k keys IH]; cbn [try_hidden]; [exact I|].
  pose proof (try_hidden_boxes_cases v (dh_shared c (fst k) eph) Hv rcvs 0) as Hb.
  destruct (try_hidden_boxes c v (dh_shared c (fst k) eph) rcvs 0) as [[[key idx]|]|e]; [lia|exact IH|exact Hb].
Qed.

Lemma lookup_sender_some (kr : keyring) (kid s : bytes) :
  lookup_sender kr kid = Some s -> s = kid /\ List.length kid = 32%nat.
Proof.
  unfold lookup_sender. destruct (Nat.eqb (List.length kid) 32) eqn:E; cbn [negb]; [|discriminate].
  apply Nat.eqb_eq in E. intros H. split; [|exact E].
  destruct (kr_senders kr) as [l|]; [destruct (existsb _ l)|]; congruence.
Qed.

(* run the evaluator on the left of a hypothesis [HR : exec2 ... = R] until it is stuck *)
Ltac run_hyp X HR := revert HR; cbv beta iota; steps3 X; intros HR.
(* read the final receiver object back *)
Ltac fin_read :=
  lazymatch goal with |- ?L = _ => let L' := ev_in3 L in change L with L' end;
  rewrite as_bytes_list_map; cbv beta iota; rewrite ?N2Z.id; reflexivity.
(* processHeader from the sender secretbox on, once a payload key is known *)
Ltac ph_tail vd kr HR R pk eb a0 ea' ma mi pos ksk hh Hv Hposm :=
    run_hyp (ext_process vd kr) HR;
    let sender := fresh "sender" in let Esb := fresh "Esb" in
    destruct (sb_open c pk nonce_sender_key_sbox eb) as [sender|] eqn:Esb;
    [|run_hyp (ext_process vd kr) HR; subst R; reflexivity];
    let Es32 := fresh "Es32" in
    destruct (Nat.eqb (List.length sender) 32) eqn:Es32; cbn [negb];
    [|run_hyp (ext_process vd kr) HR; subst R; reflexivity];
    run_hyp (ext_process vd kr) HR;
    let Eeq := fresh "Eeq" in
    destruct (bytes_eqb (a0 :: ea') sender) eqn:Eeq; cbn [bind fst snd];
    [ let mk := fresh "mk" in let Emk := fresh "Emk" in
      destruct (mac_key_receiver c (mkV ma mi) pos ksk (a0 :: ea') (a0 :: ea') hh) as [mk|] eqn:Emk;
        [|exfalso; unfold mac_key_receiver in Emk; cbn [vmaj] in Emk; destruct Hv; subst ma; discriminate];
      assert (mac_key_receiver c (mkV ma mi) (Z.to_N (Z.of_N pos mod 18446744073709551616)) ksk (a0 :: ea') (a0 :: ea') hh = Some mk)
        by (rewrite Hposm, N2Z.id; exact Emk);
      run_hyp (ext_process vd kr) HR; subst R; split; [reflexivity|];
      eexists; split; [reflexivity|]; fin_read
    | let s := fresh "s" in let Els := fresh "Els" in
      destruct (lookup_sender kr sender) as [s|] eqn:Els;
      [|run_hyp (ext_process vd kr) HR; subst R; reflexivity];
      let Hs := fresh "Hs" in
      destruct (lookup_sender_some kr sender s Els) as [Hs _]; subst s;
      let s0 := fresh "s0" in let sender' := fresh "sender'" in
      destruct sender as [|s0 sender']; [discriminate|];
      cbn [bind fst snd];
      let mk := fresh "mk" in let Emk := fresh "Emk" in
      destruct (mac_key_receiver c (mkV ma mi) pos ksk (s0 :: sender') (a0 :: ea') hh) as [mk|] eqn:Emk;
        [|exfalso; unfold mac_key_receiver in Emk; cbn [vmaj] in Emk; destruct Hv; subst ma; discriminate];
      assert (mac_key_receiver c (mkV ma mi) (Z.to_N (Z.of_N pos mod 18446744073709551616)) ksk (s0 :: sender') (a0 :: ea') hh = Some mk)
        by (rewrite Hposm, N2Z.id; exact Emk);
      run_hyp (ext_process vd kr) HR; subst R; split; [reflexivity|];
      eexists; split; [reflexivity|]; fin_read ].
(* (TARGET) processHeader = the model's process_enc_header: same error class, and on success the
   receiver object holds exactly the model's MessageKeyInfo and decryption state.
   (vd_ok: the validator admits only major versions 1 and 2, as in C15.) *)
Lemma go_decrypt_processHeader (vd : validator) (kr : keyring) (hh : bytes) (h : header) :
  (forall v, validate_version vd v = true -> (vmaj v = 1 \/ vmaj v = 2)%Z) ->
  (N.of_nat (List.length (h_rcvs h)) < 4294967296)%N ->
  let r := run_func2 (ext_process vd kr) f_saltpack_decryptStream_processHeader [g_ds0 hh; g_enc_header h] in
  match process_enc_header c vd kr hh h with
  | Err e => g_hdr_err (fst r) = Some e
  | Ok (m, st) =>
    fst r = ORet [VNil] /\
    exists ds', lookup "ds" (snd r) = Some ds' /\ read_ds ds' = Some (m, st)
  end.
Proof.
  intros Hvd Hlen. cbv zeta.
  unfold run_func2. cbn [f_params f_results f_saltpack_decryptStream_processHeader bind_params map app].
  remember (exec2 (ext_process vd kr) 300 [("ds", g_ds0 hh); ("hdr", g_enc_header h)]
                  (f_body f_saltpack_decryptStream_processHeader)) as R eqn:HR.
  symmetry in HR.
  destruct h as [fmt [ma mi] ty ea eb rcvs].
  unfold process_enc_header, validate_enc_header. cbn [h_format h_version h_type h_a h_b h_rcvs] in *.
  cbv beta iota zeta delta [f_body f_saltpack_decryptStream_processHeader] in HR.
  unfold g_enc_header, g_ds0 in HR. cbn [h_format h_version h_type h_a h_b h_rcvs] in HR.
  pose proof (as_header_rcvs_map rcvs) as Hahr.
  remember (map g_rcv rcvs) as RL eqn:HRL.
  (* validate *)
  destruct (bytes_eqb fmt format_name) eqn:Efmt; cbn [negb bind].
  2:{ run_hyp (ext_process vd kr) HR. subst R. reflexivity. }
  destruct (ty =? mt_encryption)%Z eqn:Ety; cbn [negb bind].
  2:{ run_hyp (ext_process vd kr) HR. subst R. reflexivity. }
  destruct (validate_version vd (mkV ma mi)) eqn:Evd; cbn [negb bind].
  2:{ run_hyp (ext_process vd kr) HR. subst R. reflexivity. }
  pose proof (Hvd _ Evd) as Hv. cbn [vmaj] in Hv.
  (* the ephemeral key *)
  destruct (Nat.eqb (List.length ea) 32) eqn:Eea; cbn [negb bind].
  2:{ run_hyp (ext_process vd kr) HR. subst R. reflexivity. }
  assert (Hea : exists a0 ea', ea = a0 :: ea') by (destruct ea; [discriminate|eexists; eexists; reflexivity]).
  destruct Hea as (a0 & ea' & ->).
  run_hyp (ext_process vd kr) HR.
  pose proof (try_visible_cases kr (mkV ma mi) (a0 :: ea') rcvs Hv) as Hvis.
  destruct (try_visible c kr (mkV ma mi) (a0 :: ea') rcvs) as [[[[[ksk kpk] pk] pos]|]|e] eqn:Evis; cbn [bind].
  3:{ destruct Hvis as [->|[->| ->]]; run_hyp (ext_process vd kr) HR; subst R; reflexivity. }
  - (* a visible receiver matched *)
    assert (Hpos0 : (Z.of_N pos <? 0)%Z = false) by lia.
    assert (Hposm : (Z.of_N pos mod 18446744073709551616)%Z = Z.of_N pos) by (apply Z.mod_small; lia).
    ph_tail vd kr HR R pk eb a0 ea' ma mi pos ksk hh Hv Hposm.
  - (* no visible receiver: the hidden ones *)
    run_hyp (ext_process vd kr) HR.
    pose proof (try_hidden_cases (kr_keys kr) (mkV ma mi) (a0 :: ea') rcvs Hv) as Hhid.
    destruct (try_hidden c (kr_keys kr) (mkV ma mi) (a0 :: ea') rcvs) as [[[[[ksk kpk] pk] pos]|]|e] eqn:Ehid; cbn [bind].
    3:{ subst e. run_hyp (ext_process vd kr) HR; subst R; reflexivity. }
    + assert (Hpos0 : (Z.of_N pos <? 0)%Z = false) by lia.
      assert (Hposm : (Z.of_N pos mod 18446744073709551616)%Z = Z.of_N pos) by (apply Z.mod_small; lia).
      ph_tail vd kr HR R pk eb a0 ea' ma mi pos ksk hh Hv Hposm.
    + run_hyp (ext_process vd kr) HR; subst R; reflexivity.
Qed.


End Hdr.
