(* GoAstProofs7c.v -- source ties for the ENTRY-POINT GLUE of the three receivers and for the sender's MAC-key
   derivation (/repo/decrypt.go, signcrypt_open.go, verify.go, verify_stream.go, common.go, encrypt.go): the
   bodies translated on this run from the Go syntax trees (gen/GoAstOpen.v), run by the extended evaluator of
   model/GoLang2.v (run_func2: outcome AND final environment) on ENCODED arguments, compute exactly what the
   model (model/Encrypt.v, Packets.v, Verify.v, Decrypt.v, Signcrypt.v) computes, for ALL arguments.

   ENCODINGS.  Versions, headers, msgpack streams as in GoAstProofs.v / 3.v / 4b.v: [g_version], [g_enc_header],
   [g_sig_header], [g_mps_raw input s] (the input BYTES not yet consumed and Go's packet counter s).  Box keys as in
   GoAstProofs5a.v ([g_sk], [g_rcpt]) and 3.v ([g_key]).  A SigningPublicKey object is [g_spk pk] (a struct, never
   nil whatever its bytes; GoAstProofs4b.v's verifyStream object holds the key's BYTES in publicKey, here the key
   OBJECT is stored: with the bytes an empty key would read as nil).  A reader that cannot fail (a *bytes.Buffer,
   bytes.NewReader) is the bytes it holds ([rdr_bytes]); the message reader of VerifyDetachedReader is
   [g_rdr data err]: the bytes it delivers, then io.EOF or an arbitrary read error.  The receiver objects are the
   struct literals the constructors build ([g_ds_new], [g_sos_new], verifyStream) and, after the header,
   [g_ds_done] / [g_sos_done] / [g_vs_new] / [g_vs_key]; newChunkReader(x) is [g_cr_new x].  The plaintext stream a
   constructor returns is, for the all-at-once entry points, the model's [stream_out] ([g_stream]: the chunks
   released, then the ending error).  Error values: the Go value the code builds, or, where an extern stands for a
   callee, the class name with the arguments dropped ([g_herr], GoAstProofs4b.g_err).

   EXTERNS.  msgpackStream.Read(&x) = [ext_read ty]: the model's parser on the remaining input, then go-codec's
   decoding at the STATIC type of x (interface{}, []byte, the four block structs: [view_ebV1] ...), returning
   (seqno, err) and then the advanced stream and the decoded value; the translator records that type in the SVar
   declaring x and not in the call, so the extern is taken at the type of the branch the version selects
   ([enc_target], [sig_target]).  Calls of saltpack functions get the MODEL's meaning (each has, or gets here, its
   own tie): computeMACKeySender, nonceForMACKeyBoxV1/V2, computeMACKeySingle, sum512Truncate256,
   decodeFromBytes (mp_read + view_enc_header), decryptStream.processHeader (process_enc_header:
   go_decrypt_processHeader), signcryptOpenStream.processHeader (process_sc_header: go_signcrypt_processHeader),
   verifyStream.readHeader (verify_read_header: go_verify_readHeader), newVerifyStream, the two other readHeader,
   VerifyDetachedReader, detachedSignatureInputFromHash; the three New*Stream constructors inside Verify / Open /
   SigncryptOpen = the model's verify_stream / open_stream / signcrypt_open_stream, the stream they return being
   the model's loop (justified by go_chunkReader_Read and the three go_*_getNextChunk with *_loop_step), and
   io.ReadAll over it = all chunks and the ending error unless io.EOF.  sha512.*, Hash.*, io.Copy (everything the
   reader delivers goes into the hash state; its error is returned), LookupSigningPublicKey = lookup_signer,
   key.Verify = ed_verify.  An extern has NO value where the model says Unmodelled or where the callee PANICS: the
   evaluator is then stuck at that call ("call"), and the statements say exactly when.

   TARGETS (all proved with Qed; all closed under the global context).  Hypotheses are listed; "none" means none.
   - go_computeMACKeySender: computeMACKeySender(version, index, secret, eSecret, public, headerHash) returns the
       model's mac_key_sender when the version is Version1() or Version2() (the WHOLE version is compared: the
       code switches on it since it is writing) and panics for every other version.  Hypotheses: none.
   - go_computeMACKeysSender: computeMACKeysSender(...) returns mac_key_sender over the receivers in order with
       their indices (GoAstProofs5a.sender_mac_keys; nil for no receiver); for an unknown version and at least
       one receiver the callee panics (stuck "call").  This is exactly the meaning GoAstProofs5a.ext_init gives to
       the call.  Hypothesis: at most 2^64 receivers (the index is converted to uint64; Go slices are shorter).
   - go_assertEndOfStream: assertEndOfStream(stream) returns the Go value of the model's assert_end_of_stream of
       the remaining input (ErrTrailingGarbage / io.EOF / decode error; stuck where the model says Unmodelled), and
       the stream is advanced past the object read, or left as it was after a failed read.  Hypotheses: none.
   - go_readEncryptionBlock, go_readSignatureBlock: for major version 1 or 2 the five results are the model's
       view_enc_block / view_sig_block of the next packet (V1: isFinal computed from the lengths, as the code
       does) with the packet's seqno and nil, the stream advanced; or (nil, nil, false, 0, err) with the stream
       unchanged; stuck where the model says Unmodelled; for any other major version the function panics.  This is
       exactly the meaning GoAstProofs4b.ext_chunk gives to the two calls.  Hypotheses: none (any start counter).
       view_enc_block_struct / view_sig_block_struct tie the struct decoders of [ext_read] to the model's views.
   - go_decryptStream_readHeader: on the object NewDecryptStream builds, readHeader returns the Go value of the
       error of the header stage of the model's open_stream ([dec_read_header]; open_stream_header ties it to
       open_stream), and on success nil, leaving [g_ds_done]: the stream advanced by one packet, the header hash
       sha512(header bytes), version, payload key, MAC key, position and the MessageKeyInfo of the model (the
       receiver key OBJECT being the key processHeader found, [dec_header_key], whose public half is the model's
       mki_receiver).  Stuck "call" where the model says Unmodelled or a panic.  Hypotheses: none.
   - go_signcryptOpenStream_readHeader: the same for the signcryption receiver and [sc_read_header]
       (signcrypt_open_stream_header), leaving [g_sos_done]: payload key, signer (nil and senderAnonymous for the
       anonymous sender), header hash, stream advanced.  Hypotheses: none.
   - go_VerifyDetachedReader: VerifyDetachedReader(vv, message, signature, keyring) returns [vdet_outcome]: the
       header error (ErrFailedToReadHeaderBytes, decode, ErrNotASaltpackMessage, ErrBadVersion, the mode gate
       ErrWrongMessageType), the error of reading the signature packet (io.EOF, decode), ErrNoSenderKey{sender},
       the message reader's error (arbitrary, returned as is), ErrBadSignature, or (key, nil) -- the signature
       being checked against detachedSignatureInputFromHash(SHA-512(headerHash ++ message)).  Hypotheses: none.
     vdet_outcome_model: without a read error the class of that outcome is the model's verify_detached.
   - go_VerifyDetached (and go_VerifyDetached_model): VerifyDetached = VerifyDetachedReader over
       bytes.NewReader(message); the class of its outcome is verify_detached.  Hypotheses: none.
   - go_newVerifyStream: newVerifyStream(vv, r, msgType), r any error-free reader over the input bytes ([rdr_bytes]
       r = Some input: how the encoding says which bytes r holds, not a restriction on them), returns (the
       verifyStream object [g_vs_new]: stream advanced, header, header hash; nil) or (nil, the error of
       verify_read_header).  Hypothesis: msgType is
       MessageTypeAttachedSignature or MessageTypeDetachedSignature (the two constants its callers pass; otherwise
       validate returns ErrInvalidParameter, which the model does not have: as go_verify_readHeader).
   - go_NewVerifyStream: NewVerifyStream returns [nvs_outcome]: the header error, ErrNoSenderKey{sender}, or the
       signer's key, the chunk reader over the verifyStream object with publicKey set, nil.  nvs_outcome_model ties
       it to the model's verify_stream (same error class; on success the object holds the state verify_loop starts
       from).  Hypotheses: none.
   - go_Verify (verify_outcome_model), go_Open (open_outcome_model), go_SigncryptOpen (scopen_outcome_model): the
       all-at-once entry points return the signer / MessageKeyInfo / sender key and the concatenated chunks when the
       stream ends cleanly, (nil, nil, err) when it ends with an error, and the constructor's error otherwise; the
       class of the outcome is the model's verify_all / open_all / signcrypt_open_all.  Hypothesis of the *_model
       forms: the outcome is not the stuck evaluator (the model says Unmodelled or a panic).
   - go_NewDecryptStream, go_NewSigncryptOpenStream: the constructors return [nds_outcome] / [nsos_outcome]: the
       MessageKeyInfo / signer, the chunk reader over the receiver object readHeader left, nil; or the header
       error.  On an error NewDecryptStream (and Open) still return &ds.mki as processHeader left it: the model does
       not describe that value, so it is a parameter [pm] (input -> value) of the externs and the lemmas hold for
       EVERY pm.  Hypotheses: none (r as for newVerifyStream).
   - compose_computeMACKeysSender, compose_readEncryptionBlock, compose_readSignatureBlock, compose_assertEndOfStream:
       the meaning GoAstProofs5a.ext_init / GoAstProofs4b.ext_chunk give to these calls IS the outcome of the translated
       functions proved here (results, the stream written back; no value exactly where the callee is stuck or panics).
     compose_newVerifyStream, compose_verify_readHeader, compose_decryptStream_readHeader,
     compose_signcryptOpenStream_readHeader, compose_NewDecryptStream, compose_NewSigncryptOpenStream: the same for the
       externs of THIS file that stand for functions tied here or in GoAstProofs4b.v (on the objects the callers
       build); for the two constructors: same MessageKeyInfo / signer and same error, the reader standing for the
       model's stream.  Hypotheses: those of the lemmas composed.

   NOT EXPRESSIBLE: nothing got stuck.  LIMITS of what the statements say: (1) the io.Reader handed to the
   constructors is an error-free reader over given bytes (as everywhere in GoAstProofs4b.v the msgpack stream is an
   extern over the remaining input bytes); a reader failing in mid-packet is not modelled.  (2) `&ds.mki` (translated
   as `a'0 := ds.mki; &a'0`) and newChunkReader(ds) are VALUE copies in the evaluator: the aliasing between the
   returned MessageKeyInfo / reader and the stream object is not represented (nothing writes the mki after the
   constructor returns).  (3) versionValidator, keyring and resolver are opaque values; their meaning is in the
   externs.  (4) The composition "reading the returned chunk reader to the end yields the model's loop" is the
   meaning of an extern here (NewVerifyStream etc. inside Verify / Open / SigncryptOpen), not a theorem of this
   file: its pieces are go_chunkReader_Read (4c) and the getNextChunk ties (4b).

   KERNEL NOTE.  [exec2_SIf7c] ... are the branches of GoAstProofs3.exec2_S stated one statement form at a time (the
   recursive calls folded back BEFORE zeta-reducing `next`, or the raw fixpoint stays in the statement); rewriting
   with them instead of exec2_S keeps proof terms small. *)
From Coq Require Import List String NArith ZArith Bool Lia.
From Coq.Strings Require Import Byte.
From SP Require Import Bytes Consts Params Msgpack Crypto Errors Nonce Packets Verify Encrypt Decrypt Signcrypt
                       GoLang GoLang2 GoAst GoAstProofs GoAstProofs2 GoAstProofs3 GoAstProofs4a GoAstProofs4b GoAstProofs5a.
From SP Require Import GoAstOpen.
Import ListNotations.
Local Open Scope string_scope.

(* ---------- typed views of the packets ---------- *)
(* the static type of the target of msgpackStream.Read (the translator records it in the SVar that
   declares the target, not in the call): interface{}, []byte, the four block structs *)
Inductive rtarget := TAny | TByteSlice | TEncV1 | TEncV2 | TSigV1 | TSigV2.

(* what go-codec decodes into the block structs (toarray; the V2 forms via CodecDecodeSelf: final first) *)
Definition view_ebV1 (m : mval) : dres (list bytes * bytes) :=
  dbind (as_array m) (fun l =>
  dbind (as_array (field l 0)) (fun al =>
  dbind (view_list view_auth al) (fun auths =>
  dbind (as_bytes (field l 1)) (fun ct => DOk (auths, ct))))).
Definition view_ebV2 (m : mval) : dres (bool * list bytes * bytes) :=
  dbind (as_array m) (fun l =>
  dbind (as_bool (field l 0)) (fun final =>
  dbind (as_array (field l 1)) (fun al =>
  dbind (view_list view_auth al) (fun auths =>
  dbind (as_bytes (field l 2)) (fun ct => DOk (final, auths, ct)))))).
Definition view_sbV1 (m : mval) : dres (bytes * bytes) :=
  dbind (as_array m) (fun l =>
  dbind (as_bytes (field l 0)) (fun sig =>
  dbind (as_bytes (field l 1)) (fun chunk => DOk (sig, chunk)))).
Definition view_sbV2 (m : mval) : dres (bool * bytes * bytes) :=
  dbind (as_array m) (fun l =>
  dbind (as_bool (field l 0)) (fun final =>
  dbind (as_bytes (field l 1)) (fun sig =>
  dbind (as_bytes (field l 2)) (fun chunk => DOk (final, sig, chunk))))).

(* the model's views are these struct views followed by what the Go code computes from the fields *)
(* (TARGET) *)
Lemma view_enc_block_struct (v : version) (m : mval) :
  view_enc_block v m =
  if (vmaj v =? 1)%Z
  then dbind (view_ebV1 m) (fun x => DOk (fst x, snd x, Nat.eqb (List.length (snd x)) 16))
  else dbind (view_ebV2 m) (fun x => DOk (snd (fst x), snd x, fst (fst x))).
Proof.
  unfold view_enc_block, view_ebV1, view_ebV2.
  destruct (as_array m) as [l| |]; cbn [dbind]; [|destruct (vmaj v =? 1)%Z; reflexivity..].
  destruct (vmaj v =? 1)%Z.
  - destruct (as_array (field l 0)) as [al| |]; cbn [dbind]; try reflexivity.
    destruct (view_list view_auth al) as [auths| |]; cbn [dbind]; try reflexivity.
    destruct (as_bytes (field l 1)) as [ct| |]; reflexivity.
  - destruct (as_bool (field l 0)) as [f| |]; cbn [dbind]; try reflexivity.
    destruct (as_array (field l 1)) as [al| |]; cbn [dbind]; try reflexivity.
    destruct (view_list view_auth al) as [auths| |]; cbn [dbind]; try reflexivity.
    destruct (as_bytes (field l 2)) as [ct| |]; reflexivity.
Qed.
(* (TARGET) *)
Lemma view_sig_block_struct (v : version) (m : mval) :
  view_sig_block v m =
  if (vmaj v =? 1)%Z
  then dbind (view_sbV1 m) (fun x => DOk (fst x, snd x, match snd x with [] => true | _ => false end))
  else dbind (view_sbV2 m) (fun x => DOk (snd (fst x), snd x, fst (fst x))).
Proof.
  unfold view_sig_block, view_sbV1, view_sbV2.
  destruct (as_array m) as [l| |]; cbn [dbind]; [|destruct (vmaj v =? 1)%Z; reflexivity..].
  destruct (vmaj v =? 1)%Z.
  - destruct (as_bytes (field l 0)) as [sig| |]; cbn [dbind]; try reflexivity.
    destruct (as_bytes (field l 1)) as [ch| |]; reflexivity.
  - destruct (as_bool (field l 0)) as [f| |]; cbn [dbind]; try reflexivity.
    destruct (as_bytes (field l 1)) as [sig| |]; cbn [dbind]; try reflexivity.
    destruct (as_bytes (field l 2)) as [ch| |]; reflexivity.
Qed.


(* the decoded structs as Go values (the V2 structs embed the V1 ones: promoted fields) *)
Definition g_ebV1 (x : list bytes * bytes) : gval :=
  VStruct [("HashAuthenticators", VList (map VBytes (fst x))); ("PayloadCiphertext", VBytes (snd x))].
Definition g_ebV2 (x : bool * list bytes * bytes) : gval :=
  VStruct [("HashAuthenticators", VList (map VBytes (snd (fst x)))); ("PayloadCiphertext", VBytes (snd x)); ("IsFinal", VBool (fst (fst x)))].
Definition g_sbV1 (x : bytes * bytes) : gval :=
  VStruct [("Signature", VBytes (fst x)); ("PayloadChunk", VBytes (snd x))].
Definition g_sbV2 (x : bool * bytes * bytes) : gval :=
  VStruct [("Signature", VBytes (snd (fst x))); ("PayloadChunk", VBytes (snd x)); ("IsFinal", VBool (fst (fst x)))].
(* a decoded interface{}: nobody reads it *)
Definition g_any (m : mval) : gval := VStruct [].

Definition rd_results {A : Type} (enc : A -> gval) (mps cur : gval) (r : rd A) : option (list gval) :=
  match r with
  | RdOk a s mps' => Some [VInt s; VNil; mps'; enc a]
  | RdErr e => Some [VInt 0; e; mps; cur]
  | RdNone => None
  end.

(* msgpackStream.Read(&x) at the static type [ty] of x: (seqno, err), then the advanced stream and the
   decoded value (written back to the receiver and to x); after a failed read both are left as they were *)
Definition ext_read (ty : rtarget) : externs := fun fn args =>
  if String.eqb fn "msgpackStream.Read" then
    match args with
    | [mps; cur] =>
      match ty with
      | TAny => rd_results g_any mps cur (mps_read (fun m => DOk m) mps)
      | TByteSlice => rd_results VBytes mps cur (mps_read as_bytes mps)
      | TEncV1 => rd_results g_ebV1 mps cur (mps_read view_ebV1 mps)
      | TEncV2 => rd_results g_ebV2 mps cur (mps_read view_ebV2 mps)
      | TSigV1 => rd_results g_sbV1 mps cur (mps_read view_sbV1 mps)
      | TSigV2 => rd_results g_sbV2 mps cur (mps_read view_sbV2 mps)
      end
    | _ => None
    end
  else None.

(* the block struct the version selects *)
Definition enc_target (v : version) : rtarget := if (vmaj v =? 1)%Z then TEncV1 else TEncV2.
Definition sig_target (v : version) : rtarget := if (vmaj v =? 1)%Z then TSigV1 else TSigV2.


(* one step of exec2 on a statement of a given form (the branch of exec2_S, stated on its own so that
   the proof terms stay small) *)
Ltac exec2_rhs7c ext f e ss :=
  let t := eval cbv beta delta [exec2] in (exec2 ext) in
  let r := eval cbv beta iota in (t (S f) e ss) in
  let p := eval pattern t in r in
  lazymatch p with
  | ?g _ => let g' := eval cbv beta iota zeta in g in
            let r' := eval cbv beta in (g' (exec2 ext)) in exact r'
  end.
Lemma exec2_nil7c (ext : externs) (f : nat) (e : env) : exec2 ext (S f) e [] = CNorm e.
Proof. reflexivity. Qed.
Lemma exec2_SReturn7c (ext : externs) (f : nat) (e : env) es rest :
  exec2 ext (S f) e (SReturn es :: rest) = ltac:(exec2_rhs7c ext f e (SReturn es :: rest)).
Proof. reflexivity. Qed.
Lemma exec2_SPanic7c (ext : externs) (f : nat) (e : env) x rest :
  exec2 ext (S f) e (SPanic x :: rest) = CPanic.
Proof. reflexivity. Qed.
Lemma exec2_SIf7c (ext : externs) (f : nat) (e : env) i c th el rest :
  exec2 ext (S f) e (SIf i c th el :: rest) = ltac:(exec2_rhs7c ext f e (SIf i c th el :: rest)).
Proof. reflexivity. Qed.
Lemma exec2_SVar7c (ext : externs) (f : nat) (e : env) x ty rest :
  exec2 ext (S f) e (SVar x ty :: rest) = exec2 ext f (update x (zero_of ty) e) rest.
Proof. reflexivity. Qed.
Lemma exec2_SAssignCall7c (ext : externs) (f : nat) (e : env) lhs fn args rest :
  exec2 ext (S f) e (SAssign lhs [ECall fn args] :: rest) = ltac:(exec2_rhs7c ext f e (SAssign lhs [ECall fn args] :: rest)).
Proof. reflexivity. Qed.
Lemma exec2_SAssign7c (ext : externs) (f : nat) (e : env) lhs rhs rest :
  exec2 ext (S f) e (SAssign lhs rhs :: rest) = ltac:(exec2_rhs7c ext f e (SAssign lhs rhs :: rest)).
Proof. reflexivity. Qed.
Lemma exec2_SAssignLCall7c (ext : externs) (f : nat) (e : env) lhs fn args rest :
  exec2 ext (S f) e (SAssignL lhs [ECall fn args] :: rest) = ltac:(exec2_rhs7c ext f e (SAssignL lhs [ECall fn args] :: rest)).
Proof. reflexivity. Qed.
Lemma exec2_SAssignL7c (ext : externs) (f : nat) (e : env) lhs rhs rest :
  exec2 ext (S f) e (SAssignL lhs rhs :: rest) = ltac:(exec2_rhs7c ext f e (SAssignL lhs rhs :: rest)).
Proof. reflexivity. Qed.
Lemma exec2_SSwitch7c (ext : externs) (f : nat) (e : env) i tag cases dflt rest :
  exec2 ext (S f) e (SSwitch i tag cases dflt :: rest) = ltac:(exec2_rhs7c ext f e (SSwitch i tag cases dflt :: rest)).
Proof. reflexivity. Qed.
Ltac rew_exec27c x f e ss :=
  lazymatch ss with
  | nil => rewrite (exec2_nil7c x f e)
  | SReturn ?es :: ?rest => rewrite (exec2_SReturn7c x f e es rest)
  | SPanic ?a :: ?rest => rewrite (exec2_SPanic7c x f e a rest)
  | SIf ?i ?c ?th ?el :: ?rest => rewrite (exec2_SIf7c x f e i c th el rest)
  | SVar ?v ?ty :: ?rest => rewrite (exec2_SVar7c x f e v ty rest)
  | SAssign ?lhs [ECall ?fn ?args] :: ?rest => rewrite (exec2_SAssignCall7c x f e lhs fn args rest)
  | SAssign ?lhs ?rhs :: ?rest => rewrite (exec2_SAssign7c x f e lhs rhs rest)
  | SAssignL ?lhs [ECall ?fn ?args] :: ?rest => rewrite (exec2_SAssignLCall7c x f e lhs fn args rest)
  | SAssignL ?lhs ?rhs :: ?rest => rewrite (exec2_SAssignL7c x f e lhs rhs rest)
  | SSwitch ?i ?tag ?cases ?dflt :: ?rest => rewrite (exec2_SSwitch7c x f e i tag cases dflt rest)
  | _ => rewrite (exec2_S x f e ss)
  end; cbv beta iota zeta.

(* ---------- stepping tactics (copies of those of GoAstProofs3.v, which are local to its section) ---------- *)
Ltac use_head_hyp7c :=
  lazymatch goal with
  | |- ?G =>
    let L := lazymatch G with (?L = _ -> _) => L | ?L = _ => L | _ => G end in
    let h := head_scrut3 L in
    match goal with H : h = _ |- _ => rewrite H end
  end; cbv beta iota.
Ltac ev_in7c h :=
  eval cbv -[Z.eqb Z.ltb Z.leb Z.add Z.sub Z.mul Z.modulo Z.rem Z.quot Z.shiftr Z.shiftl Z.opp
             Z.land Z.lor Z.lxor Z.lnot Z.of_nat Z.of_N Z.to_nat Z.to_N List.length nth_error
             firstn skipn bytes_eqb' bytes_eqb Byte.to_N Byte.of_N N.mul N.ltb N.eqb N.add N.leb b2n n2b Nat.eqb
             N.div N.modulo nth map app
             sha512 hmac512 sb_open sb_seal dh_shared box_seal box_open ed_verify
             nonce_mac_key_box_v1 nonce_mac_key_box_v2 mac_key_single sum512_truncate256 mac_key_sender
             known_version sender_mac_keys g_mks as_rcpts
             two64 blocknum ver12 sig_type_ok mp_read view_sig_block view_enc_block view_signcrypt_block view_sig_header
             view_enc_header as_bytes view_ebV1 view_ebV2 view_sbV1 view_sbV2 view_list view_auth
             assert_end_of_stream validate_version format_name as_bytes_list
             range_loop2 exec2] in h.
Ltac ev_term7c X h :=
  lazymatch h with
  | X ?fn ?args => let h' := ev_in7c h in progress (change h with h'); cbv beta iota
  | _ =>
    let p := eval pattern X in h in
    lazymatch p with
    | ?g _ => let g' := ev_in7c g in
              let h' := eval cbv beta in (g' X) in
              progress (change h with h'); cbv beta iota
    end
  end.
Ltac norm_env7c h x f e ss k :=
  let e' := ev_in7c e in
  tryif constr_eq e e' then k e
  else (change h with (exec2 x (S f) e' ss); k e').
Ltac fix_lvars7c :=
  repeat match goal with
  | |- context [lvars ?l] => let r := eval cbv [lvars map] in (lvars l) in change (lvars l) with r
  end.
Ltac step7c X :=
  lazymatch goal with
  | |- ?G =>
    let L := lazymatch G with (?L = _ -> _) => L | ?L = _ => L | _ => G end in
    let h := head_scrut3 L in
    lazymatch h with
    | exec2 ?x (S ?f) ?e (SRange ?k ?v ?coll ?b :: ?rest) =>
      norm_env7c h x f e (SRange k v coll b :: rest) ltac:(fun e' => rewrite exec2_range)
    | exec2 ?x (S ?f) ?e ?ss =>
      norm_env7c h x f e ss ltac:(fun e' => rew_exec27c x f e' ss); fix_lvars7c; cbv beta iota
    | range_loop2 _ _ _ _ _ _ _ _ _ => fail
    | _ => ev_term7c X h
    end
  end.
Ltac is_Nlit7c n := lazymatch n with N0 => idtac | Npos ?p => is_poslit p end.
(* closed literals, looked for in the stuck head only (the whole goal can be large) *)
Ltac lits_in7c h :=
  match h with
  | context [Z.ltb ?a ?b] => is_Zlit a; is_Zlit b; let r := eval cbv in (Z.ltb a b) in change (Z.ltb a b) with r
  | context [Z.leb ?a ?b] => is_Zlit a; is_Zlit b; let r := eval cbv in (Z.leb a b) in change (Z.leb a b) with r
  | context [Z.eqb ?a ?b] => is_Zlit a; is_Zlit b; let r := eval cbv in (Z.eqb a b) in change (Z.eqb a b) with r
  | context [Z.add ?a ?b] => is_Zlit a; is_Zlit b; let r := eval cbv in (Z.add a b) in change (Z.add a b) with r
  | context [Z.sub ?a ?b] => is_Zlit a; is_Zlit b; let r := eval cbv in (Z.sub a b) in change (Z.sub a b) with r
  | context [Z.to_nat ?a] => is_Zlit a; let r := eval cbv in (Z.to_nat a) in change (Z.to_nat a) with r
  | context [Byte.of_N (Z.to_N ?a)] => is_Zlit a; let r := eval cbv in (Byte.of_N (Z.to_N a)) in change (Byte.of_N (Z.to_N a)) with r
  | context [Z.to_N ?a] => is_Zlit a; let r := eval cbv in (Z.to_N a) in change (Z.to_N a) with r
  | context [Z.modulo ?a ?b] => is_Zlit a; is_Zlit b; let r := eval cbv in (Z.modulo a b) in change (Z.modulo a b) with r
  | context [Z.of_N ?n] => is_Nlit7c n; let r := eval cbv in (Z.of_N n) in change (Z.of_N n) with r
  | context [@List.length ?A ?l] => is_spine l; let r := length_lit l in change (@List.length A l) with r
  | context [@firstn ?A ?n ?l] => is_natlit n; is_spine l; let r := firstn_lit A n l in change (@firstn A n l) with r
  | context [@skipn ?A ?n ?l] => is_natlit n; is_spine l; let r := skipn_lit A n l in change (@skipn A n l) with r
  | context [@nth_error ?A ?l ?n] => is_natlit n; is_spine l; let r := nth_error_lit A l n in change (@nth_error A l n) with r
  | context [Z.of_nat ?n] => is_natlit n; let r := eval cbv in (Z.of_nat n) in change (Z.of_nat n) with r
  | context [Nat.eqb ?n ?m] => is_natlit n; is_natlit m; let r := eval cbv in (Nat.eqb n m) in change (Nat.eqb n m) with r
  | context [@app ?A ?l ?k] => is_spine l; let r := app_lit A l k in change (@app A l k) with r
  end; cbv beta iota.
Ltac lits7c :=
  lazymatch goal with
  | |- ?G =>
    let L := lazymatch G with (?L = _ -> _) => L | ?L = _ => L | _ => G end in
    let h := head_scrut3 L in lits_in7c h
  end.
Ltac steps7c X := repeat first [step7c X | use_head_hyp7c | lits7c].
Ltac steps7sc X := repeat first [step7c X | use_head_hyp7c | lits7c | slice1].
Ltac run_hyp7c X HR := revert HR; cbv beta iota; steps7c X; intros HR.
Ltac run_hyp7sc X HR := revert HR; cbv beta iota; steps7sc X; intros HR.
(* replace the stuck head of the left-hand side using an equation about it (up to conversion) *)
Ltac rewrite_head7c Heq :=
  lazymatch goal with
  | |- ?L = _ =>
    let h := head_scrut3 L in
    lazymatch type of Heq with
    | _ = ?r => replace h with r by (symmetry; exact Heq)
    end
  end; cbv beta iota.
Ltac start7c F :=
  cbv beta iota zeta delta [run_func2 f_body f_params f_results F];
  lazymatch goal with
  | |- context [bind_params ?a ?b] =>
    let r := eval cbv [bind_params] in (bind_params a b) in change (bind_params a b) with r; cbv beta iota
  end;
  repeat match goal with
  | |- context [@map (string * string) (string * gval) ?f ?l] =>
    let r := eval cbv in (@map (string * string) (string * gval) f l) in
    change (@map (string * string) (string * gval) f l) with r
  end;
  repeat match goal with
  | |- context [@app (string * gval) ?a ?b] =>
    let r := eval cbv [app] in (@app (string * gval) a b) in
    change (@app (string * gval) a b) with r
  end.


(* name the run of the body R, with HR : exec2 .. = R, the body unfolded in HR *)
Ltac begin7c F R HR :=
  unfold run_func2; cbn [f_params f_results F bind_params];
  repeat match goal with
  | |- context [@map (string * string) (string * gval) ?f ?l] =>
    let r := eval cbv in (@map (string * string) (string * gval) f l) in
    change (@map (string * string) (string * gval) f l) with r
  end;
  repeat match goal with
  | |- context [@app (string * gval) ?a ?b] =>
    let r := eval cbv [app] in (@app (string * gval) a b) in
    change (@app (string * gval) a b) with r
  end;
  match goal with
  | |- context [exec2 ?x ?f ?e (f_body F)] =>
    remember (exec2 x f e (f_body F)) as R eqn:HR; symmetry in HR;
    cbv beta iota zeta delta [f_body F] in HR
  end.

(* ================= computeMACKeySender / computeMACKeysSender ================= *)
Section MacKeys.
Variable c : crypto.

(* key objects as in GoAstProofs5a.v: a BoxSecretKey is [g_sk sk], a BoxPublicKey [g_rcpt (kid, hide)].
   Version1() / Version2(); the nonce constructors, computeMACKeySingle (secret.Box(public, ..) on the
   key objects) and sum512Truncate256 with the model's meaning (each has its own tie in GoAstProofs2.v) *)
Definition ext_mks1 : externs := fun fn args =>
  if String.eqb fn "Version1" then Some [g_version v1]
  else if String.eqb fn "Version2" then Some [g_version v2]
  else if String.eqb fn "computeMACKeySingle" then
    match args with
    | [VStruct [("sk", VBytes sk)]; VStruct (("kid", VBytes pk) :: _); VBytes nonce] => Some [VBytes (mac_key_single c sk pk nonce)]
    | _ => None
    end
  else ext_model c fn args.

(* (TARGET) *)
Lemma go_computeMACKeySender (v : version) (i : N) (ssk esk : bytes) (pk : rcpt) (hh : bytes) :
  fst (run_func2 ext_mks1 f_saltpack_computeMACKeySender
                 [g_version v; VInt (Z.of_N i); g_sk ssk; g_sk esk; g_rcpt pk; VBytes hh])
  = if known_version v then ORet [VBytes (mac_key_sender c v i ssk esk (fst pk) hh)] else OPanic.
Proof.
  destruct v as [ma mi]. destruct pk as [kid hide].
  unfold known_version, known_versions, version_eqb, mac_key_sender. cbn [existsb vmaj vmin fst orb].
  change (vmaj v1) with 1%Z. change (vmin v1) with 0%Z. change (vmaj v2) with 2%Z. change (vmin v2) with 0%Z.
  start7c f_saltpack_computeMACKeySender. unfold g_sk, g_rcpt. cbn [fst snd].
  steps7c ext_mks1.
  destruct (ma =? 1)%Z eqn:E1; cbn [andb orb]; steps7c ext_mks1.
  - destruct (mi =? 0)%Z eqn:E0; cbn [andb orb]; steps7c ext_mks1; [reflexivity|].
    assert (E2 : (ma =? 2)%Z = false) by lia. steps7c ext_mks1. reflexivity.
  - destruct (ma =? 2)%Z eqn:E2; cbn [andb orb]; steps7c ext_mks1; [|reflexivity].
    destruct (mi =? 0)%Z eqn:E0; cbn [andb orb]; steps7sc ext_mks1; reflexivity.
Qed.

(* computeMACKeySender with the model's meaning (go_computeMACKeySender); no value where it panics *)
Definition ext_mks2 : externs := fun fn args =>
  if String.eqb fn "computeMACKeySender" then
    match args with
    | [ver; VInt idx; VStruct [("sk", VBytes ssk)]; VStruct [("sk", VBytes esk)]; VStruct (("kid", VBytes pk) :: _); VBytes hh] =>
      match as_version ver with
      | Some v => if known_version v then Some [VBytes (mac_key_sender c v (Z.to_N idx) ssk esk pk hh)] else None
      | None => None
      end
    | _ => None
    end
  else None.

Definition mk_body : list gstmt :=
  Eval cbv in match nth 1 (f_body f_saltpack_computeMACKeysSender) SBreak with SRange _ _ _ b => b | _ => [] end.
Definition mk_rest : list gstmt := Eval cbv in skipn 2 (f_body f_saltpack_computeMACKeysSender).
Definition envM (V S E R H MK : gval) (tl : env) : env :=
  ([("version", V); ("sender", S); ("ephemeralKey", E); ("receivers", R); ("headerHash", H); ("macKeys", MK)] ++ tl)%list.
Definition tailM (tl : env) : Prop := tl = [] \/ exists a b d, tl = [("i", a); ("receiver", b); ("macKey", d)].

Lemma g_mks_snoc (acc : list bytes) (k : bytes) :
  g_mks (acc ++ [k]) = VList (match g_mks acc with VList l => l | _ => [] end ++ [VBytes k]).
Proof.
  destruct acc as [|a acc]; [reflexivity|].
  change (VList (map VBytes ((a :: acc) ++ [k])) = VList (map VBytes (a :: acc) ++ [VBytes k])).
  rewrite map_app. reflexivity.
Qed.

Lemma mk_loop (v : version) (ssk esk hh : bytes) (R : gval) (rest : list rcpt) :
  known_version v = true ->
  forall (i : N) (acc : list bytes) (tl : env), tailM tl ->
  (i + N.of_nat (List.length rest) <= 18446744073709551616)%N ->
  exists tl', tailM tl' /\
    range_loop2 ext_mks2 298 "i" "receiver" mk_body mk_rest (Z.of_N i) (map g_rcpt rest)
                (envM (g_version v) (g_sk ssk) (g_sk esk) R (VBytes hh) (g_mks acc) tl)
    = exec2 ext_mks2 298 (envM (g_version v) (g_sk ssk) (g_sk esk) R (VBytes hh)
                               (g_mks (acc ++ mapi_from (fun j rc => mac_key_sender c v j ssk esk (fst rc) hh) i rest)) tl') mk_rest.
Proof.
  intros Hkv. induction rest as [|[kid hide] rest IH]; intros i acc tl Htl Hlen.
  - exists tl. split; [exact Htl|]. cbn [map mapi_from]. rewrite app_nil_r. apply range_loop2_nil.
  - cbn [map mapi_from List.length fst] in *.
    assert (Ht2 : forall a b d, tailM [("i", a); ("receiver", b); ("macKey", d)]) by (intros; right; do 3 eexists; reflexivity).
    destruct (IH (i + 1)%N (acc ++ [mac_key_sender c v i ssk esk kid hh])%list
                 [("i", VInt (Z.of_N i)); ("receiver", g_rcpt (kid, hide)); ("macKey", VBytes (mac_key_sender c v i ssk esk kid hh))]
                 (Ht2 _ _ _) ltac:(lia)) as (tl' & Htl' & Heq).
    exists tl'. split; [exact Htl'|].
    rewrite <- app_assoc in Heq. cbn [app] in Heq. etransitivity; [|exact Heq]. clear Heq IH.
    rewrite N2Z.inj_add. change (Z.of_N 1) with 1%Z.
    rewrite range_loop2_cons. rewrite g_mks_snoc.
    assert (Hmod : (Z.of_N i mod 18446744073709551616)%Z = Z.of_N i) by (apply Z.mod_small; lia).
    destruct v as [ma mi]. unfold mk_body, envM, g_version, g_sk, g_rcpt. cbn [vmaj vmin fst snd].
    destruct acc as [|a0 acc0].
    + cbn [g_mks app].
      destruct Htl as [->|(a & b & d & ->)]; cbn [app]; steps7c ext_mks2; rewrite Hmod, N2Z.id; steps7c ext_mks2; reflexivity.
    + remember (a0 :: acc0) as acc eqn:Hacc.
      assert (Hg : g_mks acc = VList (map VBytes acc)) by (subst acc; reflexivity). rewrite Hg. clear Hg Hacc.
      remember (map VBytes acc) as AL.
      destruct Htl as [->|(a & b & d & ->)]; cbn [app]; steps7c ext_mks2; rewrite Hmod, N2Z.id; steps7c ext_mks2; reflexivity.
Qed.

(* (TARGET) *)
Lemma go_computeMACKeysSender (v : version) (ssk esk : bytes) (rs : list rcpt) (hh : bytes) :
  (N.of_nat (List.length rs) <= 18446744073709551616)%N ->
  fst (run_func2 ext_mks2 f_saltpack_computeMACKeysSender
                 [g_version v; g_sk ssk; g_sk esk; VList (map g_rcpt rs); VBytes hh])
  = if known_version v || (match rs with [] => true | _ => false end)
    then ORet [g_mks (sender_mac_keys c v ssk esk hh rs)]
    else OStuck "call".
Proof.
  intros Hlen. unfold sender_mac_keys.
  start7c f_saltpack_computeMACKeysSender.
  steps7c ext_mks2. fold mk_body. fold mk_rest.
  destruct (known_version v) eqn:Hkv; cbn [orb].
  - destruct (mk_loop v ssk esk hh (VList (map g_rcpt rs)) rs Hkv 0%N [] [] (or_introl eq_refl) ltac:(lia)) as (tl' & Htl' & Heq).
    change (Z.of_N 0) with 0%Z in Heq. unfold envM in Heq. cbn [g_mks app] in Heq.
    rewrite_head7c Heq. clear Heq. unfold mk_rest.
    destruct Htl' as [->|(a & b & d & ->)]; cbn [app]; steps7c ext_mks2; reflexivity.
  - destruct rs as [|[kid hide] rs]; cbn [map].
    + rewrite range_loop2_nil. unfold mk_rest. steps7c ext_mks2. reflexivity.
    + rewrite range_loop2_cons. destruct v as [ma mi]. unfold mk_body, g_version, g_sk, g_rcpt. cbn [vmaj vmin fst snd].
      steps7c ext_mks2. reflexivity.
Qed.

End MacKeys.

(* ================= assertEndOfStream, readEncryptionBlock, readSignatureBlock ================= *)
(* (TARGET) *)
Lemma go_assertEndOfStream (input : bytes) (s : Z) :
  let r := run_func2 (ext_read TAny) f_saltpack_assertEndOfStream [g_mps_raw input s] in
  match GoAstProofs4b.g_err (assert_end_of_stream input) with
  | Some ev => fst r = ORet [ev]
  | None => fst r = OStuck "call"
  end /\
  match mp_read input with
  | POk _ rest => lookup "stream" (snd r) = Some (g_mps_raw rest ((s + 1) mod two64))
  | PShort | PBad => lookup "stream" (snd r) = Some (g_mps_raw input s)
  | PUnmod => True
  end.
Proof.
  cbv zeta. unfold assert_end_of_stream.
  begin7c f_saltpack_assertEndOfStream R HR. unfold g_mps_raw in *.
  run_hyp7c (ext_read TAny) HR.
  destruct (mp_read input) as [m rest| | |] eqn:Hmp; run_hyp7c (ext_read TAny) HR; subst R; split; reflexivity.
Qed.

Lemma len16 (ct : bytes) : (Z.of_nat (List.length ct) =? 16)%Z = Nat.eqb (List.length ct) 16.
Proof. destruct (Nat.eqb (List.length ct) 16) eqn:E; [apply Nat.eqb_eq in E|apply Nat.eqb_neq in E]; lia. Qed.
Lemma len0 (ch : bytes) : (Z.of_nat (List.length ch) =? 0)%Z = match ch with [] => true | _ => false end.
Proof. destruct ch; cbn [List.length]; lia. Qed.

(* what the two block readers return and leave in the stream, given the model's view of the packet:
   exactly the meaning GoAstProofs4b.ext_chunk gives to the calls *)
Definition blk_spec {A : Type} (enc : A -> list gval) (input : bytes) (s : Z) (rd : rd A) (r : outcome * env) : Prop :=
  match rd with
  | RdOk a s' mps' => fst r = ORet (enc a ++ [VInt s'; VNil]) /\ lookup "mps" (snd r) = Some mps'
  | RdErr e => fst r = ORet [VNil; VNil; VBool false; VInt 0; e] /\ lookup "mps" (snd r) = Some (g_mps_raw input s)
  | RdNone => fst r = OStuck "call"
  end.

(* (TARGET) *)
Lemma go_readEncryptionBlock (v : version) (input : bytes) (s : Z) :
  let r := run_func2 (ext_read (enc_target v)) f_saltpack_readEncryptionBlock [g_version v; g_mps_raw input s] in
  if ver12 v
  then blk_spec (fun x : list bytes * bytes * bool => [VBytes (snd (fst x)); VList (map VBytes (fst (fst x))); VBool (snd x)])
                input s (mps_read (view_enc_block v) (g_mps_raw input s)) r
  else r = (OPanic, []).
Proof.
  cbv zeta. destruct v as [ma mi]. unfold ver12, enc_target, blk_spec, mps_read, g_mps_raw. cbn [vmaj].
  begin7c f_saltpack_readEncryptionBlock R HR. unfold g_version in HR. cbn [vmaj vmin] in HR.
  run_hyp7c (ext_read (if (ma =? 1)%Z then TEncV1 else TEncV2)) HR.
  destruct (ma =? 1)%Z eqn:E1; cbn [orb].
  - run_hyp7c (ext_read TEncV1) HR.
    destruct (mp_read input) as [m rest| | |] eqn:Hmp; run_hyp7c (ext_read TEncV1) HR; try (subst R; split; reflexivity); try (subst R; reflexivity).
    rewrite view_enc_block_struct. cbn [vmaj]. rewrite E1.
    destruct (view_ebV1 m) as [[auths ct]| |] eqn:Hv; cbn [dbind fst snd]; run_hyp7c (ext_read TEncV1) HR; subst R; try (split; reflexivity); try reflexivity.
    rewrite len16. split; reflexivity.
  - destruct (ma =? 2)%Z eqn:E2; run_hyp7c (ext_read TEncV2) HR; [|subst R; reflexivity].
    destruct (mp_read input) as [m rest| | |] eqn:Hmp; run_hyp7c (ext_read TEncV2) HR; try (subst R; split; reflexivity); try (subst R; reflexivity).
    rewrite view_enc_block_struct. cbn [vmaj]. rewrite E1.
    destruct (view_ebV2 m) as [[[f auths] ct]| |] eqn:Hv; cbn [dbind fst snd]; run_hyp7c (ext_read TEncV2) HR; subst R; try (split; reflexivity); reflexivity.
Qed.

(* (TARGET) *)
Lemma go_readSignatureBlock (v : version) (input : bytes) (s : Z) :
  let r := run_func2 (ext_read (sig_target v)) f_saltpack_readSignatureBlock [g_version v; g_mps_raw input s] in
  if ver12 v
  then blk_spec (fun x : bytes * bytes * bool => [VBytes (fst (fst x)); VBytes (snd (fst x)); VBool (snd x)])
                input s (mps_read (view_sig_block v) (g_mps_raw input s)) r
  else r = (OPanic, []).
Proof.
  cbv zeta. destruct v as [ma mi]. unfold ver12, sig_target, blk_spec, mps_read, g_mps_raw. cbn [vmaj].
  begin7c f_saltpack_readSignatureBlock R HR. unfold g_version in HR. cbn [vmaj vmin] in HR.
  run_hyp7c (ext_read (if (ma =? 1)%Z then TSigV1 else TSigV2)) HR.
  destruct (ma =? 1)%Z eqn:E1; cbn [orb].
  - run_hyp7c (ext_read TSigV1) HR.
    destruct (mp_read input) as [m rest| | |] eqn:Hmp; run_hyp7c (ext_read TSigV1) HR; try (subst R; split; reflexivity); try (subst R; reflexivity).
    rewrite view_sig_block_struct. cbn [vmaj]. rewrite E1.
    destruct (view_sbV1 m) as [[sig ch]| |] eqn:Hv; cbn [dbind fst snd]; run_hyp7c (ext_read TSigV1) HR; subst R; try (split; reflexivity); try reflexivity.
    rewrite len0. split; reflexivity.
  - destruct (ma =? 2)%Z eqn:E2; run_hyp7c (ext_read TSigV2) HR; [|subst R; reflexivity].
    destruct (mp_read input) as [m rest| | |] eqn:Hmp; run_hyp7c (ext_read TSigV2) HR; try (subst R; split; reflexivity); try (subst R; reflexivity).
    rewrite view_sig_block_struct. cbn [vmaj]. rewrite E1.
    destruct (view_sbV2 m) as [[[f sig] ch]| |] eqn:Hv; cbn [dbind fst snd]; run_hyp7c (ext_read TSigV2) HR; subst R; try (split; reflexivity); reflexivity.
Qed.

(* ================= decryptStream.readHeader, signcryptOpenStream.readHeader ================= *)
(* error classes of the header stage as the Go values the externs of this file produce (arguments dropped:
   the model distinguishes classes); no value for Unmodelled and Panic *)
Definition g_herr (e : err) : option gval :=
  match e with
  | ErrFailedToReadHeaderBytes => Some (VErr "ErrFailedToReadHeaderBytes" [])
  | ErrDecode => Some (VErr "decode" [])
  | EOF => Some (VErr "io.EOF" [])
  | ErrNotASaltpackMessage => Some (VErr "ErrNotASaltpackMessage" [])
  | ErrWrongMessageType => Some (VErr "ErrWrongMessageType" [])
  | ErrBadVersion => Some (VErr "ErrBadVersion" [])
  | ErrBadEphemeralKey => Some (VErr "ErrBadEphemeralKey" [])
  | ErrBadLookup => Some (VErr "ErrBadLookup" [])
  | ErrDecryptionFailed => Some (VErr "ErrDecryptionFailed" [])
  | ErrBadSymmetricKey => Some (VErr "ErrBadSymmetricKey" [])
  | ErrNoDecryptionKey => Some (VErr "ErrNoDecryptionKey" [])
  | ErrBadSenderKeySecretbox => Some (VErr "ErrBadSenderKeySecretbox" [])
  | ErrBadBoxKey => Some (VErr "ErrBadBoxKey" [])
  | ErrNoSenderKey => Some (VErr "ErrNoSenderKey" [])
  | ErrBadSignature => Some (VErr "ErrBadSignature" [])
  | _ => None
  end.
Definition herr_ret (e : err) : option (list gval) := match g_herr e with Some ev => Some [ev] | None => None end.
Lemma g_herr_verr (e : err) (ev : gval) : g_herr e = Some ev -> exists nm, ev = VErr nm [].
Proof. destruct e; cbn [g_herr]; intros H; try discriminate; injection H as <-; eexists; reflexivity. Qed.

Definition as_enc_header (v : gval) : option header :=
  match v with
  | VStruct [("FormatName", VBytes fmt); ("Version", ver); ("Type", VInt t); ("Ephemeral", VBytes a); ("SenderSecretbox", VBytes b); ("Receivers", rc)] =>
    match as_version ver, as_header_rcvs rc with
    | Some v, Some rcvs => Some (mkHeader fmt v t a b rcvs)
    | _, _ => None
    end
  | _ => None
  end.
Lemma as_enc_header_g (h : header) : as_enc_header (g_enc_header h) = Some h.
Proof.
  destruct h as [fmt [ma mi] ty ea eb rcvs]. unfold as_enc_header, g_enc_header.
  cbn [h_format h_version h_type h_a h_b h_rcvs g_version as_version vmaj vmin].
  rewrite as_header_rcvs_map. reflexivity.
Qed.

(* decodeFromBytes(&header, headerBytes) at the types EncryptionHeader / SigncryptionHeader *)
Definition decode_enc_header_ext (args : list gval) : option (list gval) :=
  match args with
  | [cur; hb] =>
    match vbytes_of hb with
    | Some b =>
      match mp_read b with
      | POk m _ =>
        match view_enc_header m with
        | DOk h => Some [VNil; g_enc_header h]
        | DErr => Some [VErr "decode" []; cur]
        | DUnmod => None
        end
      | PShort | PBad => Some [VErr "decode" []; cur]
      | PUnmod => None
      end
    | None => None
    end
  | _ => None
  end.

Fixpoint set_fields (fs : list (string * gval)) (upd : list (string * gval)) : list (string * gval) :=
  match upd with
  | [] => fs
  | (f, v) :: t => set_fields (set_field fs f v) t
  end.

Section Hdr7.
Variable c : crypto.

(* the box key processHeader found (the MessageKeyInfo holds the key OBJECT; the model's mki its public half) *)
Definition enc_found_key (kr : keyring) (h : header) : option (bytes * bytes) :=
  match try_visible c kr (h_version h) (h_a h) (h_rcvs h) with
  | Ok (Some (k, _, _)) => Some k
  | Ok None => match try_hidden c (kr_keys kr) (h_version h) (h_a h) (h_rcvs h) with
               | Ok (Some (k, _, _)) => Some k
               | _ => None
               end
  | Err _ => None
  end.
Lemma enc_found_key_ok (vd : validator) (kr : keyring) (hh : bytes) (h : header) (m : mki) (st : dec_state) :
  process_enc_header c vd kr hh h = Ok (m, st) ->
  ds_hh st = hh /\ exists k, enc_found_key kr h = Some k /\ snd k = mki_receiver m.
Proof.
  unfold process_enc_header, enc_found_key.
  destruct (validate_enc_header vd h); cbn [bind]; [|discriminate].
  destruct (negb (Nat.eqb (List.length (h_a h)) 32)); [discriminate|].
  destruct (try_visible c kr (h_version h) (h_a h) (h_rcvs h)) as [[[[k pk] pos]|]|e]; cbn [bind]; [| |discriminate].
  - intros H. 
    destruct (sb_open c pk nonce_sender_key_sbox (h_b h)) as [sender|]; [|discriminate].
    destruct (negb (Nat.eqb (List.length sender) 32)); [discriminate|].
    destruct (if bytes_eqb (h_a h) sender then _ else _) as [sa|]; cbn [bind] in H; [|discriminate].
    destruct (mac_key_receiver c (h_version h) pos (fst k) (fst sa) (h_a h) hh); [|discriminate].
    injection H as <- <-. split; [reflexivity|]. exists k. split; reflexivity.
  - destruct (try_hidden c (kr_keys kr) (h_version h) (h_a h) (h_rcvs h)) as [[[[k pk] pos]|]|e]; cbn [bind]; [| discriminate |discriminate].
    intros H.
    destruct (sb_open c pk nonce_sender_key_sbox (h_b h)) as [sender|]; [|discriminate].
    destruct (negb (Nat.eqb (List.length sender) 32)); [discriminate|].
    destruct (if bytes_eqb (h_a h) sender then _ else _) as [sa|]; cbn [bind] in H; [|discriminate].
    destruct (mac_key_receiver c (h_version h) pos (fst k) (fst sa) (h_a h) hh); [|discriminate].
    injection H as <- <-. split; [reflexivity|]. exists k. split; reflexivity.
Qed.

(* the MessageKeyInfo and the decryptStream object *)
Definition g_mki (m : mki) (k : bytes * bytes) : gval :=
  VStruct [("SenderKey", VBytes (mki_sender m)); ("SenderIsAnon", VBool (mki_sender_anon m));
           ("ReceiverKey", g_key k); ("ReceiverIsAnon", VBool (mki_receiver_anon m));
           ("NamedReceivers", enc_kids (mki_named m)); ("NumAnonReceivers", VInt (Z.of_N (mki_num_anon m)))].
Definition g_mki0 : gval :=
  VStruct [("SenderKey", VNil); ("SenderIsAnon", VBool false); ("ReceiverKey", VNil); ("ReceiverIsAnon", VBool false);
           ("NamedReceivers", VNil); ("NumAnonReceivers", VInt 0)].
(* the object NewDecryptStream builds *)
Definition g_ds_new (VV RING MPS : gval) : gval :=
  VStruct [("versionValidator", VV); ("ring", RING); ("mps", MPS); ("version", VStruct [("Major", VInt 0); ("Minor", VInt 0)]);
           ("payloadKey", VNil); ("senderKey", VNil); ("headerHash", VBytes (repeat x00 64)); ("macKey", VBytes (repeat x00 32));
           ("position", VInt 0); ("mki", g_mki0)].
(* ... and after a successful readHeader *)
Definition g_ds_done (VV RING MPS SK : gval) (m : mki) (st : dec_state) (k : bytes * bytes) : gval :=
  VStruct [("versionValidator", VV); ("ring", RING); ("mps", MPS); ("version", g_version (ds_version st));
           ("payloadKey", VBytes (ds_payload_key st)); ("senderKey", SK); ("headerHash", VBytes (ds_hh st)); ("macKey", VBytes (ds_mac_key st));
           ("position", VInt (Z.of_N (ds_position st))); ("mki", g_mki m k)].

(* what processHeader does to the receiver object (go_decrypt_processHeader: read_ds of the object it leaves
   is the model's (mki, dec_state)); the header hash is the one the object holds *)
Definition ds_set (fs : list (string * gval)) (m : mki) (st : dec_state) (k : bytes * bytes) : gval :=
  VStruct (set_fields fs [("version", g_version (ds_version st)); ("payloadKey", VBytes (ds_payload_key st));
                          ("position", VInt (Z.of_N (ds_position st))); ("macKey", VBytes (ds_mac_key st));
                          ("mki", g_mki m k)]).

Definition ext_dhdr (vd : validator) (kr : keyring) : externs := fun fn args =>
  if String.eqb fn "decodeFromBytes" then decode_enc_header_ext args
  else if String.eqb fn "decryptStream.processHeader" then
    match args with
    | [VStruct fs; hdr] =>
      match field_vbytes fs "headerHash", as_enc_header hdr with
      | Some hh, Some h =>
        match process_enc_header c vd kr hh h with
        | Ok (m, st) => match enc_found_key kr h with Some k => Some [VNil; ds_set fs m st k] | None => None end
        | Err e => herr_ret e
        end
      | _, _ => None
      end
    | _ => None
    end
  else if String.eqb fn "msgpackStream.Read" then ext_read TByteSlice fn args
  else ext_prims c fn args.

(* the header stage of the model's open_stream *)
Definition dec_read_header (vd : validator) (kr : keyring) (input : bytes) : result (mki * dec_state * bytes) :=
  bind (read_header_bytes input) (fun hr =>
  let hh := sha512 c (fst hr) in
  bind (decode_header view_enc_header (fst hr)) (fun h =>
  bind (process_enc_header c vd kr hh h) (fun ms => Ok (ms, snd hr)))).
(* (TARGET) *)
Lemma open_stream_header (vd : validator) (kr : keyring) (input : bytes) :
  open_stream c vd kr input =
  bind (dec_read_header vd kr input) (fun x =>
  Ok (fst (fst x), decrypt_loop c (S (List.length (snd x))) (snd (fst x)) 0 (snd x) [])).
Proof.
  unfold open_stream, dec_read_header.
  destruct (read_header_bytes input) as [hr|e]; cbn [bind]; [|reflexivity].
  destruct (decode_header view_enc_header (fst hr)) as [h|e]; cbn [bind]; [|reflexivity].
  destruct (process_enc_header c vd kr (sha512 c (fst hr)) h) as [ms|e]; reflexivity.
Qed.
(* the box key found, for the header of the input *)
Definition dec_header_key (kr : keyring) (input : bytes) : option (bytes * bytes) :=
  match read_header_bytes input with
  | Ok hr => match decode_header view_enc_header (fst hr) with Ok h => enc_found_key kr h | Err _ => None end
  | Err _ => None
  end.

(* ----- the signcryption receiver ----- *)
(* the object NewSigncryptOpenStream builds, and the object after a successful readHeader *)
Definition g_sos_new (MPS KR RV : gval) : gval :=
  VStruct [("mps", MPS); ("keyring", KR); ("resolver", RV); ("payloadKey", VNil); ("signingPublicKey", VNil);
           ("senderAnonymous", VBool false); ("headerHash", VBytes (repeat x00 64))].
Definition g_signer (signer : option bytes) : gval := match signer with Some pk => VBytes pk | None => VNil end.
Definition g_sos_done (MPS KR RV : gval) (pkey hh : bytes) (signer : option bytes) : gval :=
  VStruct [("mps", MPS); ("keyring", KR); ("resolver", RV); ("payloadKey", VBytes pkey); ("signingPublicKey", g_signer signer);
           ("senderAnonymous", VBool (match signer with None => true | Some _ => false end)); ("headerHash", VBytes hh)].

(* processHeader with the model's meaning (go_signcrypt_processHeader): payloadKey, signingPublicKey and
   senderAnonymous of the receiver object are set *)
Definition ext_schdr (kr : keyring) (signers : sigring) (rv : resolver) : externs := fun fn args =>
  if String.eqb fn "decodeFromBytes" then decode_enc_header_ext args
  else if String.eqb fn "signcryptOpenStream.processHeader" then
    match args with
    | [VStruct fs; hdr] =>
      match as_enc_header hdr with
      | Some h =>
        match process_sc_header c kr signers rv h with
        | Ok (pkey, signer) =>
          Some [VNil; VStruct (set_fields fs [("payloadKey", VBytes pkey); ("signingPublicKey", g_signer signer);
                                              ("senderAnonymous", VBool (match signer with None => true | Some _ => false end))])]
        | Err e => herr_ret e
        end
      | None => None
      end
    | _ => None
    end
  else if String.eqb fn "msgpackStream.Read" then ext_read TByteSlice fn args
  else ext_prims c fn args.

(* the header stage of the model's signcrypt_open_stream: payload key, signer, header hash, rest of the input *)
Definition sc_read_header (kr : keyring) (signers : sigring) (rv : resolver) (input : bytes)
  : result (bytes * option bytes * bytes * bytes) :=
  bind (read_header_bytes input) (fun hr =>
  let hh := sha512 c (fst hr) in
  bind (decode_header view_enc_header (fst hr)) (fun h =>
  bind (process_sc_header c kr signers rv h) (fun ks => Ok (fst ks, snd ks, hh, snd hr)))).
(* (TARGET) *)
Lemma signcrypt_open_stream_header (kr : keyring) (signers : sigring) (rv : resolver) (input : bytes) :
  signcrypt_open_stream c kr signers rv input =
  bind (sc_read_header kr signers rv input) (fun x =>
  let '(pkey, signer, hh, rest) := x in
  Ok (signer, sc_open_loop c (S (List.length rest)) pkey signer hh 0 rest [])).
Proof.
  unfold signcrypt_open_stream, sc_read_header.
  destruct (read_header_bytes input) as [hr|e]; cbn [bind]; [|reflexivity].
  destruct (decode_header view_enc_header (fst hr)) as [h|e]; cbn [bind]; [|reflexivity].
  destruct (process_sc_header c kr signers rv h) as [[pk sg]|e]; reflexivity.
Qed.

End Hdr7.
Ltac ev_in7c h ::=
  eval cbv -[Z.eqb Z.ltb Z.leb Z.add Z.sub Z.mul Z.modulo Z.rem Z.quot Z.shiftr Z.shiftl Z.opp
             Z.land Z.lor Z.lxor Z.lnot Z.of_nat Z.of_N Z.to_nat Z.to_N List.length nth_error
             firstn skipn bytes_eqb' bytes_eqb Byte.to_N Byte.of_N N.mul N.ltb N.eqb N.add N.leb b2n n2b Nat.eqb
             N.div N.modulo nth map app repeat
             sha512 hmac512 sb_open sb_seal dh_shared box_seal box_open ed_verify
             two64 mp_read view_enc_header view_sig_header as_bytes
             process_enc_header process_sc_header g_signer enc_found_key g_herr herr_ret as_header_rcvs as_enc_header
             g_mki enc_kids g_key g_enc_header g_version ds_version ds_payload_key ds_mac_key ds_position ds_hh
             validate_version format_name as_bytes_list
             range_loop2 exec2] in h.

Section Hdr7Proofs.
Variable c : crypto.

(* (TARGET) *)
Lemma go_decryptStream_readHeader (vd : validator) (kr : keyring) (VV RING : gval) (input : bytes) (s : Z) :
  let r := run_func2 (ext_dhdr c vd kr) f_saltpack_decryptStream_readHeader [g_ds_new VV RING (g_mps_raw input s); VNil] in
  match dec_read_header c vd kr input with
  | Ok (m, st, rest) =>
    fst r = ORet [VNil] /\
    exists k, dec_header_key c kr input = Some k /\ snd k = mki_receiver m /\
      lookup "ds" (snd r) = Some (g_ds_done VV RING (g_mps_raw rest ((s + 1) mod two64)) VNil m st k)
  | Err e => match g_herr e with Some ev => fst r = ORet [ev] | None => fst r = OStuck "call" end
  end.
Proof.
  cbv zeta.
  begin7c f_saltpack_decryptStream_readHeader R HR. unfold g_ds_new, g_mps_raw, g_mki0 in HR.
  unfold dec_read_header, dec_header_key, read_header_bytes.
  run_hyp7c (ext_dhdr c vd kr) HR.
  destruct (mp_read input) as [m0 rest| | |] eqn:Hmp; cbn [bind].
  2,3,4: run_hyp7c (ext_dhdr c vd kr) HR; subst R; reflexivity.
  destruct (as_bytes m0) as [hb| |] eqn:Hab; cbn [bind fst snd].
  2,3: run_hyp7c (ext_dhdr c vd kr) HR; subst R; reflexivity.
  run_hyp7c (ext_dhdr c vd kr) HR.
  unfold decode_header.
  destruct (mp_read hb) as [m2 rest2| | |] eqn:Hmp2; cbn [bind].
  2,3,4: run_hyp7c (ext_dhdr c vd kr) HR; subst R; reflexivity.
  destruct (view_enc_header m2) as [h| |] eqn:Hvh; cbn [of_dres bind].
  2,3: run_hyp7c (ext_dhdr c vd kr) HR; subst R; reflexivity.
  run_hyp7c (ext_dhdr c vd kr) HR.
  pose proof (as_enc_header_g h) as Hae.
  destruct (process_enc_header c vd kr (sha512 c hb) h) as [[m st]|e] eqn:Hph; cbn [bind].
  - destruct (enc_found_key_ok c vd kr _ h m st Hph) as (Hhh & k & Hk & Hks).
    run_hyp7c (ext_dhdr c vd kr) HR. subst R. split; [reflexivity|].
    exists k. split; [first [exact Hk|reflexivity]|]. split; [exact Hks|].
    unfold g_ds_done. rewrite Hhh. reflexivity.
  - destruct (g_herr e) as [ev|] eqn:Hge; [destruct (g_herr_verr _ _ Hge) as (nm & ->)|];
      unfold herr_ret in HR; run_hyp7c (ext_dhdr c vd kr) HR; subst R; reflexivity.
Qed.
(* (TARGET) *)
Lemma go_signcryptOpenStream_readHeader (kr : keyring) (signers : sigring) (rv : resolver) (KR RV : gval) (input : bytes) (s : Z) :
  let r := run_func2 (ext_schdr c kr signers rv) f_saltpack_signcryptOpenStream_readHeader [g_sos_new (g_mps_raw input s) KR RV] in
  match sc_read_header c kr signers rv input with
  | Ok (pkey, signer, hh, rest) =>
    fst r = ORet [VNil] /\
    lookup "sos" (snd r) = Some (g_sos_done (g_mps_raw rest ((s + 1) mod two64)) KR RV pkey hh signer)
  | Err e => match g_herr e with Some ev => fst r = ORet [ev] | None => fst r = OStuck "call" end
  end.
Proof.
  cbv zeta.
  begin7c f_saltpack_signcryptOpenStream_readHeader R HR. unfold g_sos_new, g_mps_raw in HR.
  unfold sc_read_header, read_header_bytes.
  run_hyp7c (ext_schdr c kr signers rv) HR.
  destruct (mp_read input) as [m0 rest| | |] eqn:Hmp; cbn [bind].
  2,3,4: run_hyp7c (ext_schdr c kr signers rv) HR; subst R; reflexivity.
  destruct (as_bytes m0) as [hb| |] eqn:Hab; cbn [bind fst snd].
  2,3: run_hyp7c (ext_schdr c kr signers rv) HR; subst R; reflexivity.
  run_hyp7c (ext_schdr c kr signers rv) HR.
  unfold decode_header.
  destruct (mp_read hb) as [m2 rest2| | |] eqn:Hmp2; cbn [bind].
  2,3,4: run_hyp7c (ext_schdr c kr signers rv) HR; subst R; reflexivity.
  destruct (view_enc_header m2) as [h| |] eqn:Hvh; cbn [of_dres bind].
  2,3: run_hyp7c (ext_schdr c kr signers rv) HR; subst R; reflexivity.
  run_hyp7c (ext_schdr c kr signers rv) HR.
  pose proof (as_enc_header_g h) as Hae.
  destruct (process_sc_header c kr signers rv h) as [[pkey signer]|e] eqn:Hph; cbn [bind fst snd].
  - run_hyp7c (ext_schdr c kr signers rv) HR. subst R. split; reflexivity.
  - destruct (g_herr e) as [ev|] eqn:Hge; [destruct (g_herr_verr _ _ Hge) as (nm & ->)|];
      unfold herr_ret in HR; run_hyp7c (ext_schdr c kr signers rv) HR; subst R; reflexivity.
Qed.
End Hdr7Proofs.

(* ================= VerifyDetachedReader, VerifyDetached ================= *)
(* a SigningPublicKey object (never nil, whatever its bytes) *)
Definition g_spk (pk : bytes) : gval := VStruct [("spk", VBytes pk)].
(* the verifyStream object newVerifyStream returns *)
Definition g_vs_new (h : header) (hh : bytes) (mps : gval) : gval :=
  VStruct [("mps", mps); ("header", g_sig_header h); ("headerHash", VBytes hh); ("publicKey", VNil)].
(* an io.Reader over a message: the bytes it delivers, then io.EOF (nil) or a read error *)
Definition g_rdr (d : bytes) (e : option gval) : gval :=
  VStruct [("data", VBytes d); ("err", match e with Some ev => ev | None => VNil end)].
(* the input of a reader that cannot fail (a *bytes.Buffer is the bytes it holds; bytes.NewReader) *)
Definition rdr_bytes (v : gval) : option bytes :=
  match v with
  | VBytes b => Some b
  | VStruct [("data", VBytes d); ("err", VNil)] => Some d
  | _ => None
  end.
(* the chunkReader newChunkReader(c) builds *)
Definition g_cr_new (chunker : gval) : gval := VStruct [("chunker", chunker); ("prevChunk", VNil); ("prevErr", VNil)].
(* the plaintext stream of a receiver, as the model describes it: the chunks it releases, then the error
   that ends it (io.EOF = clean end); no Go value for an end the model calls Unmodelled or a panic *)
Definition g_stream (out : stream_out) : gval :=
  VStruct [("chunks", VList (map VBytes (so_chunks out)));
           ("end", match GoAstProofs4b.g_err (so_end out) with Some ev => ev | None => VNil end)].
(* io.ReadAll over such a stream: everything released, and the ending error unless it is io.EOF *)
Definition read_all_ext (args : list gval) : option (list gval) :=
  match args with
  | [VStruct [("chunks", VList l); ("end", VErr n a)]] =>
    match as_bytes_list l with
    | Some cs => Some [VBytes (List.concat cs); if String.eqb n "io.EOF" then VNil else VErr n a]
    | None => None
    end
  | _ => None
  end.

Lemma as_bytes_list_map7c (l : list bytes) : as_bytes_list (map VBytes l) = Some l.
Proof. induction l as [|b l IH]; cbn [map as_bytes_list]; [reflexivity|]. rewrite IH. reflexivity. Qed.

Section VDet.
Variable c : crypto.

(* bytes.NewBuffer(b) / a *bytes.Buffer handed to newMsgpackStream: the bytes to be read.
   newVerifyStream(vv, r, msgType) with the model's meaning (verify_read_header; go_newVerifyStream below);
   msgpackStream.Read at []byte; LookupSigningPublicKey = lookup_signer, giving a key object or nil;
   sha512.New / Hash.Write / Hash.Sum (ext_prims), detachedSignatureInputFromHash (ext_model);
   io.Copy(hasher, r): everything r delivers goes into the hash state; the count, r's error, then the hash
   state and the drained reader; key.Verify = ed_verify *)
Definition ext_vdet (vd : validator) (kr : sigring) : externs := fun fn args =>
  if String.eqb fn "bytes.NewBuffer" then
    match args with [b] => match vbytes_of b with Some x => Some [VBytes x] | None => None end | _ => None end
  else if String.eqb fn "bytes.NewReader" then
    match args with [b] => match vbytes_of b with Some x => Some [g_rdr x None] | None => None end | _ => None end
  else if String.eqb fn "newVerifyStream" then
    match args with
    | [_; r; VInt typ] =>
      match rdr_bytes r with
      | Some input =>
        if sig_type_ok typ then
          match verify_read_header c vd typ input with
          | Ok (h, hh, rest) => Some [g_vs_new h hh (g_mps_raw rest 1); VNil]
          | Err e => match g_herr e with Some ev => Some [VNil; ev] | None => None end
          end
        else None
      | None => None
      end
    | _ => None
    end
  else if String.eqb fn "msgpackStream.Read" then ext_read TByteSlice fn args
  else if String.eqb fn "SigKeyring.LookupSigningPublicKey" then
    match args with
    | [_; VBytes kid] => match lookup_signer kr kid with Some pk => Some [g_spk pk] | None => Some [VNil] end
    | _ => None
    end
  else if String.eqb fn "io.Copy" then
    match args with
    | [VBytes acc; VStruct [("data", VBytes d); ("err", e)]] =>
      Some [VInt (Z.of_nat (List.length d)); e; VBytes (acc ++ d)%list; VStruct [("data", VBytes []); ("err", e)]]
    | _ => None
    end
  else if String.eqb fn "SigningPublicKey.Verify" then
    match args with
    | [VStruct [("spk", VBytes pk)]; VBytes msg; VBytes sig] =>
      if ed_verify c pk msg sig then Some [VNil] else Some [VErr "ErrBadSignature" []]
    | _ => None
    end
  else ext_model c fn args.

(* what VerifyDetachedReader returns, as Go values: the model's verify_detached with the reader's error
   (if any) reported after the key lookup and before the signature check *)
Definition vdet_outcome (vd : validator) (kr : sigring) (msg : bytes) (rerr : option gval) (sigfile : bytes) : outcome :=
  match verify_read_header c vd mt_detached sigfile with
  | Err e => match g_herr e with Some ev => ORet [VNil; ev] | None => OStuck "call" end
  | Ok (h, hh, rest) =>
    match mp_read rest with
    | PShort => ORet [VNil; VErr "io.EOF" []]
    | PBad => ORet [VNil; VErr "decode" []]
    | PUnmod => OStuck "call"
    | POk m _ =>
      match as_bytes m with
      | DErr => ORet [VNil; VErr "decode" []]
      | DUnmod => OStuck "call"
      | DOk sig =>
        match lookup_signer kr (h_a h) with
        | None => ORet [VNil; VErr "ErrNoSenderKey" [VBytes (h_a h)]]
        | Some pk =>
          match rerr with
          | Some ev => ORet [VNil; ev]
          | None => if ed_verify c pk (detached_sig_input c hh msg) sig then ORet [g_spk pk; VNil]
                    else ORet [VNil; VErr "ErrBadSignature" []]
          end
        end
      end
    end
  end.

(* reading that outcome back as a result of the model (error classes by name) *)
Definition vd_class (o : outcome) : result bytes :=
  match o with
  | ORet [VStruct [("spk", VBytes pk)]; VNil] => Ok pk
  | ORet [VNil; VErr n _] =>
    if String.eqb n "ErrFailedToReadHeaderBytes" then Err ErrFailedToReadHeaderBytes
    else if String.eqb n "decode" then Err ErrDecode
    else if String.eqb n "io.EOF" then Err EOF
    else if String.eqb n "ErrNotASaltpackMessage" then Err ErrNotASaltpackMessage
    else if String.eqb n "ErrBadVersion" then Err ErrBadVersion
    else if String.eqb n "ErrWrongMessageType" then Err ErrWrongMessageType
    else if String.eqb n "ErrNoSenderKey" then Err ErrNoSenderKey
    else if String.eqb n "ErrBadSignature" then Err ErrBadSignature
    else Err Unmodelled
  | _ => Err Unmodelled
  end.

Lemma verify_read_header_errors (vd : validator) (typ : Z) (input : bytes) (e : err) :
  verify_read_header c vd typ input = Err e ->
  e = ErrFailedToReadHeaderBytes \/ e = ErrDecode \/ e = ErrNotASaltpackMessage \/ e = ErrBadVersion \/
  e = ErrWrongMessageType \/ e = Unmodelled.
Proof.
  unfold verify_read_header, read_header_bytes.
  destruct (mp_read input) as [m rest| | |]; cbn [bind]; try (intros H; inversion H; auto 7; fail).
  destruct (as_bytes m) as [hb| |]; cbn [bind fst snd]; try (intros H; inversion H; auto 7; fail).
  unfold decode_header.
  destruct (mp_read hb) as [m2 rest2| | |]; cbn [bind]; try (intros H; inversion H; auto 7; fail).
  destruct (view_sig_header m2) as [h| |]; cbn [of_dres bind]; try (intros H; inversion H; auto 7; fail).
  unfold validate_sig_header.
  destruct (negb (bytes_eqb _ _)); cbn [bind]; [intros H; inversion H; auto 7|].
  destruct (negb (validate_version _ _)); cbn [bind]; [intros H; inversion H; auto 7|].
  destruct (negb (_ =? _)%Z); cbn [bind]; intros H; inversion H; auto 7.
Qed.

(* (TARGET) without a read error the outcome is the model's verify_detached *)
Lemma vdet_outcome_model (vd : validator) (kr : sigring) (msg sigfile : bytes) :
  vd_class (vdet_outcome vd kr msg None sigfile) = verify_detached c vd kr msg sigfile.
Proof.
  unfold vdet_outcome, verify_detached.
  destruct (verify_read_header c vd mt_detached sigfile) as [[[h hh] rest]|e] eqn:Hh; cbn [bind].
  - destruct (mp_read rest) as [m r2| | |]; try reflexivity.
    destruct (as_bytes m) as [sig| |]; cbn [of_dres bind]; try reflexivity.
    destruct (lookup_signer kr (h_a h)) as [pk|]; [|reflexivity].
    destruct (ed_verify c pk (detached_sig_input c hh msg) sig); reflexivity.
  - destruct (verify_read_header_errors _ _ _ _ Hh) as [->|[->|[->|[->|[->| ->]]]]]; reflexivity.
Qed.
End VDet.
Ltac ev_in7c h ::=
  eval cbv -[Z.eqb Z.ltb Z.leb Z.add Z.sub Z.mul Z.modulo Z.rem Z.quot Z.shiftr Z.shiftl Z.opp
             Z.land Z.lor Z.lxor Z.lnot Z.of_nat Z.of_N Z.to_nat Z.to_N List.length nth_error
             firstn skipn bytes_eqb' bytes_eqb Byte.to_N Byte.of_N N.mul N.ltb N.eqb N.add N.leb b2n n2b Nat.eqb
             N.div N.modulo nth map app repeat
             sha512 hmac512 sb_open sb_seal dh_shared box_seal box_open ed_verify
             two64 mp_read view_enc_header view_sig_header as_bytes verify_read_header lookup_signer
             detached_sig_input_from_hash detached_sig_input
             g_herr herr_ret vdet_outcome
             validate_version format_name as_bytes_list
             range_loop2 exec2] in h.

Section VDetProofs.
Variable c : crypto.

(* (TARGET) *)
Lemma go_VerifyDetachedReader (vd : validator) (kr : sigring) (VV KR : gval) (msg : bytes) (rerr : option (string * list gval)) (sigfile : bytes) :
  let rv := match rerr with Some (n, a) => Some (VErr n a) | None => None end in
  fst (run_func2 (ext_vdet c vd kr) f_saltpack_VerifyDetachedReader [VV; g_rdr msg rv; VBytes sigfile; KR])
  = vdet_outcome c vd kr msg rv sigfile.
Proof.
  cbv zeta.
  begin7c f_saltpack_VerifyDetachedReader R HR. unfold g_rdr in HR.
  unfold vdet_outcome. change mt_detached with 2%Z.
  run_hyp7c (ext_vdet c vd kr) HR.
  destruct (verify_read_header c vd 2 sigfile) as [[[h hh] rest]|e] eqn:Hh.
  2:{ destruct (g_herr e) as [ev|] eqn:Hge; [destruct (g_herr_verr _ _ Hge) as (nm & ->)|];
      run_hyp7c (ext_vdet c vd kr) HR; subst R; reflexivity. }
  destruct h as [fmt ver ty ea eb rcvs]. cbn [h_a].
  unfold g_vs_new, g_mps_raw, g_sig_header in HR. cbn [h_format h_version h_type h_a h_b] in HR.
  run_hyp7c (ext_vdet c vd kr) HR.
  destruct (mp_read rest) as [m r2| | |] eqn:Hmp.
  2,3,4: run_hyp7c (ext_vdet c vd kr) HR; subst R; reflexivity.
  destruct (as_bytes m) as [sig| |] eqn:Hab.
  2,3: run_hyp7c (ext_vdet c vd kr) HR; subst R; reflexivity.
  run_hyp7c (ext_vdet c vd kr) HR.
  destruct (lookup_signer kr ea) as [pk|] eqn:Hls.
  2:{ run_hyp7c (ext_vdet c vd kr) HR; subst R; reflexivity. }
  run_hyp7sc (ext_vdet c vd kr) HR.
  destruct rerr as [[n a]|].
  { run_hyp7c (ext_vdet c vd kr) HR; subst R; reflexivity. }
  run_hyp7c (ext_vdet c vd kr) HR.
  change (detached_sig_input c hh msg) with (detached_sig_input_from_hash (sha512 c (hh ++ msg)%list)).
  destruct (ed_verify c pk (detached_sig_input_from_hash (sha512 c (hh ++ msg)%list)) sig) eqn:Hv;
    run_hyp7c (ext_vdet c vd kr) HR; subst R; reflexivity.
Qed.

(* VerifyDetachedReader with the meaning just proved *)
Definition ext_vdet2 (vd : validator) (kr : sigring) : externs := fun fn args =>
  if String.eqb fn "VerifyDetachedReader" then
    match args with
    | [_; VStruct [("data", VBytes msg); ("err", e)]; VBytes sigfile; _] =>
      match (match e with VNil => Some None | VErr n a => Some (Some (VErr n a)) | _ => None end) with
      | Some rv => match vdet_outcome c vd kr msg rv sigfile with ORet rs => Some rs | _ => None end
      | None => None
      end
    | _ => None
    end
  else if String.eqb fn "bytes.NewReader" then
    match args with [b] => match vbytes_of b with Some x => Some [g_rdr x None] | None => None end | _ => None end
  else None.

Lemma vdet_outcome_shape (vd : validator) (kr : sigring) (msg : bytes) (rv : option gval) (sigfile : bytes) :
  (exists a b, vdet_outcome c vd kr msg rv sigfile = ORet [a; b]) \/ vdet_outcome c vd kr msg rv sigfile = OStuck "call".
Proof.
  unfold vdet_outcome.
  destruct (verify_read_header c vd mt_detached sigfile) as [[[h hh] rest]|e].
  2:{ destruct (g_herr e); [left; eexists; eexists; reflexivity|right; reflexivity]. }
  destruct (mp_read rest) as [m r2| | |]; try (left; eexists; eexists; reflexivity); try (right; reflexivity).
  destruct (as_bytes m) as [sig| |]; try (left; eexists; eexists; reflexivity); try (right; reflexivity).
  destruct (lookup_signer kr (h_a h)) as [pk|]; try (left; eexists; eexists; reflexivity).
  destruct rv; [left; eexists; eexists; reflexivity|].
  destruct (ed_verify c pk (detached_sig_input c hh msg) sig); left; eexists; eexists; reflexivity.
Qed.

(* (TARGET) *)
Lemma go_VerifyDetached (vd : validator) (kr : sigring) (VV KR : gval) (msg sigfile : bytes) :
  fst (run_func2 (ext_vdet2 vd kr) f_saltpack_VerifyDetached [VV; VBytes msg; VBytes sigfile; KR])
  = vdet_outcome c vd kr msg None sigfile.
Proof.
  begin7c f_saltpack_VerifyDetached R HR.
  run_hyp7c (ext_vdet2 vd kr) HR.
  destruct (vdet_outcome_shape vd kr msg None sigfile) as [(a & b & Ho)|Ho]; rewrite Ho in *;
    run_hyp7c (ext_vdet2 vd kr) HR; subst R; reflexivity.
Qed.

(* (TARGET) VerifyDetached against the model: the class of what it returns is verify_detached *)
Corollary go_VerifyDetached_model (vd : validator) (kr : sigring) (VV KR : gval) (msg sigfile : bytes) :
  vd_class (fst (run_func2 (ext_vdet2 vd kr) f_saltpack_VerifyDetached [VV; VBytes msg; VBytes sigfile; KR]))
  = verify_detached c vd kr msg sigfile.
Proof. rewrite go_VerifyDetached. apply vdet_outcome_model. Qed.
End VDetProofs.

(* ================= newVerifyStream, NewVerifyStream, Verify ================= *)
Section VS.
Variable c : crypto.

(* newMsgpackStream(r) over an error-free byte reader; verifyStream.readHeader with the model's meaning
   (go_verify_readHeader, GoAstProofs4b.v): mps, headerHash and header of the receiver object are set *)
Definition ext_nvs (vd : validator) : externs := fun fn args =>
  if String.eqb fn "newMsgpackStream" then
    match args with [r] => match rdr_bytes r with Some input => Some [g_mps_raw input 0] | None => None end | _ => None end
  else if String.eqb fn "verifyStream.readHeader" then
    match args with
    | [VStruct fs; _; VInt typ] =>
      if sig_type_ok typ then
        match lookup "mps" fs with
        | Some (VStruct [("decoder", VBytes input); ("seqno", VInt s)]) =>
          match verify_read_header c vd typ input with
          | Ok (h, hh, rest) =>
            Some [VNil; VStruct (set_fields fs [("mps", g_mps_raw rest ((s + 1) mod two64)); ("headerHash", VBytes hh);
                                                ("header", g_sig_header h)])]
          | Err e => herr_ret e
          end
        | _ => None
        end
      else None
    | _ => None
    end
  else None.

(* the verifyStream object NewVerifyStream hands to newChunkReader *)
Definition g_vs_key (h : header) (hh pk : bytes) (mps : gval) : gval :=
  VStruct [("mps", mps); ("header", g_sig_header h); ("headerHash", VBytes hh); ("publicKey", g_spk pk)].

(* newVerifyStream with the meaning of go_newVerifyStream; LookupSigningPublicKey; newChunkReader *)
Definition ext_NVS (vd : validator) (kr : sigring) : externs := fun fn args =>
  if String.eqb fn "newChunkReader" then match args with [x] => Some [g_cr_new x] | _ => None end
  else ext_vdet c vd kr fn args.

(* what NewVerifyStream returns: the head of the model's verify_stream *)
Definition nvs_outcome (vd : validator) (kr : sigring) (input : bytes) : outcome :=
  match verify_read_header c vd mt_attached input with
  | Err e => match g_herr e with Some ev => ORet [VNil; VNil; ev] | None => OStuck "call" end
  | Ok (h, hh, rest) =>
    match lookup_signer kr (h_a h) with
    | None => ORet [VNil; VNil; VErr "ErrNoSenderKey" [VBytes (h_a h)]]
    | Some pk => ORet [g_spk pk; g_cr_new (g_vs_key h hh pk (g_mps_raw rest 1)); VNil]
    end
  end.

(* NewVerifyStream with the model's meaning: the signer and the verified stream of verify_stream (the stream a
   chunkReader over the verifyStream object delivers: go_chunkReader_Read, go_verify_getNextChunk, verify_loop_step) *)
Definition ext_verify (vd : validator) (kr : sigring) : externs := fun fn args =>
  if String.eqb fn "NewVerifyStream" then
    match args with
    | [_; r; _] =>
      match rdr_bytes r with
      | Some input =>
        match verify_stream c vd kr input with
        | Ok (pk, out) => Some [g_spk pk; g_stream out; VNil]
        | Err e => match g_herr e with Some ev => Some [VNil; VNil; ev] | None => None end
        end
      | None => None
      end
    | _ => None
    end
  else if String.eqb fn "bytes.NewReader" then
    match args with [b] => match vbytes_of b with Some x => Some [g_rdr x None] | None => None end | _ => None end
  else if String.eqb fn "io.ReadAll" then read_all_ext args
  else None.

(* what Verify returns, as Go values *)
Definition verify_outcome (vd : validator) (kr : sigring) (input : bytes) : outcome :=
  match verify_stream c vd kr input with
  | Err e => match g_herr e with Some ev => ORet [VNil; VNil; ev] | None => OStuck "call" end
  | Ok (pk, out) =>
    match so_end out with
    | EOF => ORet [g_spk pk; VBytes (List.concat (so_chunks out)); VNil]
    | e => match GoAstProofs4b.g_err e with Some ev => ORet [VNil; VNil; ev] | None => OStuck "call" end
    end
  end.

(* ... read back as a result of the model *)
Definition verify_class (o : outcome) : result (bytes * bytes) :=
  match o with
  | ORet [VStruct [("spk", VBytes pk)]; VBytes msg; VNil] => Ok (pk, msg)
  | ORet [VNil; VNil; VErr n a] =>
    if String.eqb n "ErrFailedToReadHeaderBytes" then Err ErrFailedToReadHeaderBytes
    else if String.eqb n "decode" then Err ErrDecode
    else if String.eqb n "io.ErrUnexpectedEOF" then Err ErrUnexpectedEOF
    else if String.eqb n "ErrNotASaltpackMessage" then Err ErrNotASaltpackMessage
    else if String.eqb n "ErrBadVersion" then Err ErrBadVersion
    else if String.eqb n "ErrWrongMessageType" then Err ErrWrongMessageType
    else if String.eqb n "ErrNoSenderKey" then Err ErrNoSenderKey
    else if String.eqb n "ErrBadSignature" then Err ErrBadSignature
    else if String.eqb n "ErrUnexpectedEmptyBlock" then Err ErrUnexpectedEmptyBlock
    else if String.eqb n "ErrTrailingGarbage" then Err ErrTrailingGarbage
    else if String.eqb n "ErrPacketOverflow" then Err ErrPacketOverflow
    else match a with
         | [VInt z] => if String.eqb n "ErrBadTag" then Err (ErrBadTag (Z.to_N z))
                       else if String.eqb n "ErrBadCiphertext" then Err (ErrBadCiphertext (Z.to_N z)) else Err Unmodelled
         | _ => Err Unmodelled
         end
  | _ => Err Unmodelled
  end.
End VS.
Ltac ev_in7c h ::=
  eval cbv -[Z.eqb Z.ltb Z.leb Z.add Z.sub Z.mul Z.modulo Z.rem Z.quot Z.shiftr Z.shiftl Z.opp
             Z.land Z.lor Z.lxor Z.lnot Z.of_nat Z.of_N Z.to_nat Z.to_N List.length nth_error
             firstn skipn bytes_eqb' bytes_eqb Byte.to_N Byte.of_N N.mul N.ltb N.eqb N.add N.leb b2n n2b Nat.eqb
             N.div N.modulo nth map app repeat List.concat
             sha512 hmac512 sb_open sb_seal dh_shared box_seal box_open ed_verify
             mp_read view_enc_header view_sig_header as_bytes verify_read_header lookup_signer verify_stream
             detached_sig_input_from_hash detached_sig_input
             g_herr herr_ret vdet_outcome g_stream g_spk sig_type_ok rdr_bytes
             validate_version format_name as_bytes_list
             range_loop2 exec2] in h.

Section VSProofs.
Variable c : crypto.

(* (TARGET) *)
Lemma go_newVerifyStream (vd : validator) (VV r : gval) (input : bytes) (typ : Z) :
  rdr_bytes r = Some input -> sig_type_ok typ = true ->
  fst (run_func2 (ext_nvs c vd) f_saltpack_newVerifyStream [VV; r; VInt typ])
  = match verify_read_header c vd typ input with
    | Ok (h, hh, rest) => ORet [g_vs_new h hh (g_mps_raw rest 1); VNil]
    | Err e => match g_herr e with Some ev => ORet [VNil; ev] | None => OStuck "call" end
    end.
Proof.
  intros Hr Hty.
  begin7c f_saltpack_newVerifyStream R HR.
  run_hyp7c (ext_nvs c vd) HR.
  destruct (verify_read_header c vd typ input) as [[[h hh] rest]|e] eqn:Hh.
  - run_hyp7c (ext_nvs c vd) HR. subst R. reflexivity.
  - destruct (g_herr e) as [ev|] eqn:Hge; [destruct (g_herr_verr _ _ Hge) as (nm & ->)|];
      unfold herr_ret in HR; run_hyp7c (ext_nvs c vd) HR; subst R; reflexivity.
Qed.

(* (TARGET) *)
Lemma go_NewVerifyStream (vd : validator) (kr : sigring) (VV r KR : gval) (input : bytes) :
  rdr_bytes r = Some input ->
  fst (run_func2 (ext_NVS c vd kr) f_saltpack_NewVerifyStream [VV; r; KR])
  = nvs_outcome c vd kr input.
Proof.
  intros Hr.
  begin7c f_saltpack_NewVerifyStream R HR.
  unfold nvs_outcome. change mt_attached with 1%Z.
  assert (Hty : sig_type_ok 1 = true) by reflexivity.
  run_hyp7c (ext_NVS c vd kr) HR.
  destruct (verify_read_header c vd 1 input) as [[[h hh] rest]|e] eqn:Hh.
  2:{ destruct (g_herr e) as [ev|] eqn:Hge; [destruct (g_herr_verr _ _ Hge) as (nm & ->)|];
      run_hyp7c (ext_NVS c vd kr) HR; subst R; reflexivity. }
  destruct h as [fmt ver ty ea eb rcvs]. cbn [h_a].
  unfold g_vs_new, g_mps_raw, g_sig_header in HR. cbn [h_format h_version h_type h_a h_b] in HR.
  run_hyp7c (ext_NVS c vd kr) HR.
  destruct (lookup_signer kr ea) as [pk|] eqn:Hls; run_hyp7c (ext_NVS c vd kr) HR; subst R; reflexivity.
Qed.


(* (TARGET) *)
Lemma go_Verify (vd : validator) (kr : sigring) (VV KR : gval) (input : bytes) :
  fst (run_func2 (ext_verify c vd kr) f_saltpack_Verify [VV; VBytes input; KR])
  = verify_outcome c vd kr input.
Proof.
  begin7c f_saltpack_Verify R HR.
  assert (Hr1 : rdr_bytes (VBytes input) = Some input) by reflexivity.
  assert (Hr2 : rdr_bytes (VStruct [("data", VBytes input); ("err", VNil)]) = Some input) by reflexivity.
  unfold verify_outcome.
  run_hyp7c (ext_verify c vd kr) HR.
  destruct (verify_stream c vd kr input) as [[pk [chunks e]]|e] eqn:Hvs.
  2:{ destruct (g_herr e) as [ev|] eqn:Hge; [destruct (g_herr_verr _ _ Hge) as (nm & ->)|];
      run_hyp7c (ext_verify c vd kr) HR; subst R; reflexivity. }
  unfold g_stream in HR. cbn [so_chunks so_end] in *.
  pose proof (as_bytes_list_map7c chunks) as Hbl.
  run_hyp7c (ext_verify c vd kr) HR.
  destruct e; cbn [GoAstProofs4b.g_err] in *; run_hyp7c (ext_verify c vd kr) HR; subst R; reflexivity.
Qed.

(* (TARGET) Verify against the model: the class of what it returns is verify_all *)
Lemma verify_outcome_model (vd : validator) (kr : sigring) (input : bytes) :
  verify_outcome c vd kr input <> OStuck "call" ->
  verify_class (verify_outcome c vd kr input) = verify_all c vd kr input.
Proof.
  unfold verify_outcome, verify_all.
  destruct (verify_stream c vd kr input) as [[pk [chunks e]]|e] eqn:Hvs; cbn [bind so_end so_chunks].
  - destruct e; cbn [GoAstProofs4b.g_err]; intros H; try reflexivity; try (exfalso; apply H; reflexivity).
    + unfold verify_class. cbv [String.eqb Ascii.eqb Bool.eqb]. rewrite N2Z.id. reflexivity.
    + unfold verify_class. cbv [String.eqb Ascii.eqb Bool.eqb]. rewrite N2Z.id. reflexivity.
  - assert (He : e = ErrNoSenderKey \/ e = ErrFailedToReadHeaderBytes \/ e = ErrDecode \/ e = ErrNotASaltpackMessage \/
                e = ErrBadVersion \/ e = ErrWrongMessageType \/ e = Unmodelled).
    { revert Hvs. unfold verify_stream.
      destruct (verify_read_header c vd mt_attached input) as [[[h hh] rest]|e0] eqn:Hh; cbn [bind].
      - destruct (lookup_signer kr (h_a h)); intros H; inversion H. auto.
      - intros H; inversion H; subst e0. destruct (verify_read_header_errors c _ _ _ _ Hh) as [->|[->|[->|[->|[->| ->]]]]]; auto 8. }
    destruct He as [->|[->|[->|[->|[->|[->| ->]]]]]]; cbn [g_herr]; intros H; reflexivity.
Qed.
End VSProofs.

(* ================= NewDecryptStream, Open, NewSigncryptOpenStream, SigncryptOpen ================= *)
Section Ctors.
Variable c : crypto.
(* what readHeader leaves in ds.mki when it fails, as a function of the input: the model does not say
   (processHeader fills the MessageKeyInfo as it goes); the lemmas hold for EVERY such function *)
Variable pm : bytes -> gval.

Lemma dec_header_key_some (vd : validator) (kr : keyring) (input : bytes) (m : mki) (st : dec_state) (rest : bytes) :
  dec_read_header c vd kr input = Ok (m, st, rest) ->
  ds_hh st = sha512 c (match read_header_bytes input with Ok hr => fst hr | Err _ => [] end) /\
  exists k, dec_header_key c kr input = Some k /\ snd k = mki_receiver m.
Proof.
  unfold dec_read_header, dec_header_key.
  destruct (read_header_bytes input) as [hr|e]; cbn [bind]; [|discriminate].
  destruct (decode_header view_enc_header (fst hr)) as [h|e]; cbn [bind]; [|discriminate].
  destruct (process_enc_header c vd kr (sha512 c (fst hr)) h) as [[m' st']|e] eqn:Hp; cbn [bind]; [|discriminate].
  intros H. injection H as <- <- _. exact (enc_found_key_ok c vd kr _ h m' st' Hp).
Qed.

(* decryptStream.readHeader with the meaning of go_decryptStream_readHeader *)
Definition ext_nds (vd : validator) (kr : keyring) : externs := fun fn args =>
  if String.eqb fn "newMsgpackStream" then
    match args with [r] => match rdr_bytes r with Some input => Some [g_mps_raw input 0] | None => None end | _ => None end
  else if String.eqb fn "newChunkReader" then match args with [x] => Some [g_cr_new x] | _ => None end
  else if String.eqb fn "decryptStream.readHeader" then
    match args with
    | [VStruct fs; _] =>
      match lookup "mps" fs with
      | Some (VStruct [("decoder", VBytes input); ("seqno", VInt s)]) =>
        match dec_read_header c vd kr input with
        | Ok (m, st, rest) =>
          match dec_header_key c kr input with
          | Some k =>
            Some [VNil; VStruct (set_fields fs [("mps", g_mps_raw rest ((s + 1) mod two64)); ("version", g_version (ds_version st));
                                                ("payloadKey", VBytes (ds_payload_key st)); ("headerHash", VBytes (ds_hh st));
                                                ("macKey", VBytes (ds_mac_key st)); ("position", VInt (Z.of_N (ds_position st)));
                                                ("mki", g_mki m k)])]
          | None => None
          end
        | Err e => match g_herr e with Some ev => Some [ev; VStruct (set_field fs "mki" (pm input))] | None => None end
        end
      | _ => None
      end
    | _ => None
    end
  else None.

Definition nds_outcome (vd : validator) (kr : keyring) (VV RING : gval) (input : bytes) : outcome :=
  match dec_read_header c vd kr input with
  | Ok (m, st, rest) =>
    match dec_header_key c kr input with
    | Some k => ORet [g_mki m k; g_cr_new (g_ds_done VV RING (g_mps_raw rest 1) VNil m st k); VNil]
    | None => OStuck "call"       (* impossible: dec_header_key_some *)
    end
  | Err e => match g_herr e with Some ev => ORet [pm input; VNil; ev] | None => OStuck "call" end
  end.

(* NewDecryptStream with the model's meaning (open_stream); the plaintext stream is the model's *)
Definition ext_open (vd : validator) (kr : keyring) : externs := fun fn args =>
  if String.eqb fn "NewDecryptStream" then
    match args with
    | [_; r; _] =>
      match rdr_bytes r with
      | Some input =>
        match open_stream c vd kr input with
        | Ok (m, out) => match dec_header_key c kr input with Some k => Some [g_mki m k; g_stream out; VNil] | None => None end
        | Err e => match g_herr e with Some ev => Some [pm input; VNil; ev] | None => None end
        end
      | None => None
      end
    | _ => None
    end
  else if String.eqb fn "bytes.NewBuffer" then
    match args with [b] => match vbytes_of b with Some x => Some [VBytes x] | None => None end | _ => None end
  else if String.eqb fn "io.ReadAll" then read_all_ext args
  else None.

Definition open_outcome (vd : validator) (kr : keyring) (input : bytes) : outcome :=
  match open_stream c vd kr input with
  | Err e => match g_herr e with Some ev => ORet [pm input; VNil; ev] | None => OStuck "call" end
  | Ok (m, out) =>
    match dec_header_key c kr input with
    | None => OStuck "call"
    | Some k =>
      match so_end out with
      | EOF => ORet [g_mki m k; VBytes (List.concat (so_chunks out)); VNil]
      | e => match GoAstProofs4b.g_err e with Some ev => ORet [VNil; VNil; ev] | None => OStuck "call" end
      end
    end
  end.

(* ----- signcryption ----- *)
Definition ext_nsos (kr : keyring) (signers : sigring) (rv : resolver) : externs := fun fn args =>
  if String.eqb fn "newMsgpackStream" then
    match args with [r] => match rdr_bytes r with Some input => Some [g_mps_raw input 0] | None => None end | _ => None end
  else if String.eqb fn "newChunkReader" then match args with [x] => Some [g_cr_new x] | _ => None end
  else if String.eqb fn "signcryptOpenStream.readHeader" then
    match args with
    | [VStruct fs] =>
      match lookup "mps" fs with
      | Some (VStruct [("decoder", VBytes input); ("seqno", VInt s)]) =>
        match sc_read_header c kr signers rv input with
        | Ok (pkey, signer, hh, rest) =>
          Some [VNil; VStruct (set_fields fs [("mps", g_mps_raw rest ((s + 1) mod two64)); ("payloadKey", VBytes pkey);
                                              ("signingPublicKey", g_signer signer);
                                              ("senderAnonymous", VBool (match signer with None => true | Some _ => false end));
                                              ("headerHash", VBytes hh)])]
        | Err e => herr_ret e
        end
      | _ => None
      end
    | _ => None
    end
  else None.

Definition nsos_outcome (kr : keyring) (signers : sigring) (rv : resolver) (KR RV : gval) (input : bytes) : outcome :=
  match sc_read_header c kr signers rv input with
  | Ok (pkey, signer, hh, rest) =>
    ORet [g_signer signer; g_cr_new (g_sos_done (g_mps_raw rest 1) KR RV pkey hh signer); VNil]
  | Err e => match g_herr e with Some ev => ORet [VNil; VNil; ev] | None => OStuck "call" end
  end.

Definition ext_scopen (kr : keyring) (signers : sigring) (rv : resolver) : externs := fun fn args =>
  if String.eqb fn "NewSigncryptOpenStream" then
    match args with
    | [r; _; _] =>
      match rdr_bytes r with
      | Some input =>
        match signcrypt_open_stream c kr signers rv input with
        | Ok (signer, out) => Some [g_signer signer; g_stream out; VNil]
        | Err e => match g_herr e with Some ev => Some [VNil; VNil; ev] | None => None end
        end
      | None => None
      end
    | _ => None
    end
  else if String.eqb fn "bytes.NewBuffer" then
    match args with [b] => match vbytes_of b with Some x => Some [VBytes x] | None => None end | _ => None end
  else if String.eqb fn "io.ReadAll" then read_all_ext args
  else None.

Definition scopen_outcome (kr : keyring) (signers : sigring) (rv : resolver) (input : bytes) : outcome :=
  match signcrypt_open_stream c kr signers rv input with
  | Err e => match g_herr e with Some ev => ORet [VNil; VNil; ev] | None => OStuck "call" end
  | Ok (signer, out) =>
    match so_end out with
    | EOF => ORet [g_signer signer; VBytes (List.concat (so_chunks out)); VNil]
    | e => match GoAstProofs4b.g_err e with Some ev => ORet [VNil; VNil; ev] | None => OStuck "call" end
    end
  end.
End Ctors.
Ltac ev_in7c h ::=
  eval cbv -[Z.eqb Z.ltb Z.leb Z.add Z.sub Z.mul Z.modulo Z.rem Z.quot Z.shiftr Z.shiftl Z.opp
             Z.land Z.lor Z.lxor Z.lnot Z.of_nat Z.of_N Z.to_nat Z.to_N List.length nth_error
             firstn skipn bytes_eqb' bytes_eqb Byte.to_N Byte.of_N N.mul N.ltb N.eqb N.add N.leb b2n n2b Nat.eqb
             N.div N.modulo nth map app repeat List.concat
             sha512 hmac512 sb_open sb_seal dh_shared box_seal box_open ed_verify
             mp_read view_enc_header view_sig_header as_bytes
             dec_read_header dec_header_key sc_read_header open_stream signcrypt_open_stream
             g_herr herr_ret rdr_bytes g_stream g_mki g_signer g_version ds_version ds_payload_key ds_mac_key ds_position ds_hh
             validate_version format_name as_bytes_list
             range_loop2 exec2] in h.


Section CtorProofs.
Variable c : crypto.
Variable pm : bytes -> gval.

(* (TARGET) *)
Lemma go_NewDecryptStream (vd : validator) (kr : keyring) (VV r RING : gval) (input : bytes) :
  rdr_bytes r = Some input ->
  fst (run_func2 (ext_nds c pm vd kr) f_saltpack_NewDecryptStream [VV; r; RING])
  = nds_outcome c pm vd kr VV RING input.
Proof.
  intros Hr.
  begin7c f_saltpack_NewDecryptStream R HR.
  unfold nds_outcome.
  run_hyp7c (ext_nds c pm vd kr) HR.
  destruct (dec_read_header c vd kr input) as [[[m st] rest]|e] eqn:Hh.
  - destruct (dec_header_key_some c vd kr input m st rest Hh) as (Hhh & k & Hk & Hks). rewrite Hk in *.
    run_hyp7c (ext_nds c pm vd kr) HR. subst R. reflexivity.
  - destruct (g_herr e) as [ev|] eqn:Hge; [destruct (g_herr_verr _ _ Hge) as (nm & ->)|];
      run_hyp7c (ext_nds c pm vd kr) HR; subst R; reflexivity.
Qed.
(* (TARGET) *)
Lemma go_Open (vd : validator) (kr : keyring) (VV RING : gval) (input : bytes) :
  fst (run_func2 (ext_open c pm vd kr) f_saltpack_Open [VV; VBytes input; RING])
  = open_outcome c pm vd kr input.
Proof.
  begin7c f_saltpack_Open R HR.
  assert (Hr1 : rdr_bytes (VBytes input) = Some input) by reflexivity.
  assert (Hr2 : rdr_bytes (VStruct [("data", VBytes input); ("err", VNil)]) = Some input) by reflexivity.
  unfold open_outcome.
  run_hyp7c (ext_open c pm vd kr) HR.
  destruct (open_stream c vd kr input) as [[m [chunks e]]|e] eqn:Hos.
  2:{ destruct (g_herr e) as [ev|] eqn:Hge; [destruct (g_herr_verr _ _ Hge) as (nm & ->)|];
      run_hyp7c (ext_open c pm vd kr) HR; subst R; reflexivity. }
  destruct (dec_header_key c kr input) as [k|] eqn:Hk.
  2:{ run_hyp7c (ext_open c pm vd kr) HR; subst R; reflexivity. }
  unfold g_stream in HR. cbn [so_chunks so_end] in *.
  pose proof (as_bytes_list_map7c chunks) as Hbl.
  run_hyp7c (ext_open c pm vd kr) HR.
  destruct e; cbn [GoAstProofs4b.g_err] in *; run_hyp7c (ext_open c pm vd kr) HR; subst R; reflexivity.
Qed.

(* (TARGET) *)
Lemma go_NewSigncryptOpenStream (kr : keyring) (signers : sigring) (rv : resolver) (r KR RV : gval) (input : bytes) :
  rdr_bytes r = Some input ->
  fst (run_func2 (ext_nsos c kr signers rv) f_saltpack_NewSigncryptOpenStream [r; KR; RV])
  = nsos_outcome c kr signers rv KR RV input.
Proof.
  intros Hr.
  begin7c f_saltpack_NewSigncryptOpenStream R HR.
  unfold nsos_outcome.
  run_hyp7c (ext_nsos c kr signers rv) HR.
  destruct (sc_read_header c kr signers rv input) as [[[[pkey signer] hh] rest]|e] eqn:Hh.
  - run_hyp7c (ext_nsos c kr signers rv) HR. subst R. reflexivity.
  - destruct (g_herr e) as [ev|] eqn:Hge; [destruct (g_herr_verr _ _ Hge) as (nm & ->)|];
      unfold herr_ret in HR; run_hyp7c (ext_nsos c kr signers rv) HR; subst R; reflexivity.
Qed.

(* (TARGET) *)
Lemma go_SigncryptOpen (kr : keyring) (signers : sigring) (rv : resolver) (KR RV : gval) (input : bytes) :
  fst (run_func2 (ext_scopen c kr signers rv) f_saltpack_SigncryptOpen [VBytes input; KR; RV])
  = scopen_outcome c kr signers rv input.
Proof.
  begin7c f_saltpack_SigncryptOpen R HR.
  assert (Hr1 : rdr_bytes (VBytes input) = Some input) by reflexivity.
  assert (Hr2 : rdr_bytes (VStruct [("data", VBytes input); ("err", VNil)]) = Some input) by reflexivity.
  unfold scopen_outcome.
  run_hyp7c (ext_scopen c kr signers rv) HR.
  destruct (signcrypt_open_stream c kr signers rv input) as [[signer [chunks e]]|e] eqn:Hos.
  2:{ destruct (g_herr e) as [ev|] eqn:Hge; [destruct (g_herr_verr _ _ Hge) as (nm & ->)|];
      run_hyp7c (ext_scopen c kr signers rv) HR; subst R; reflexivity. }
  unfold g_stream in HR. cbn [so_chunks so_end] in *.
  pose proof (as_bytes_list_map7c chunks) as Hbl.
  run_hyp7c (ext_scopen c kr signers rv) HR.
  destruct e; cbn [GoAstProofs4b.g_err] in *; run_hyp7c (ext_scopen c kr signers rv) HR; subst R; reflexivity.
Qed.
End CtorProofs.

(* ================= the entry points against the model's open_all / signcrypt_open_all ================= *)
(* the class of an error value, by name *)
Definition err_class7c (n : string) (a : list gval) : err :=
  if String.eqb n "ErrFailedToReadHeaderBytes" then ErrFailedToReadHeaderBytes
  else if String.eqb n "decode" then ErrDecode
  else if String.eqb n "io.EOF" then EOF
  else if String.eqb n "io.ErrUnexpectedEOF" then ErrUnexpectedEOF
  else if String.eqb n "ErrNotASaltpackMessage" then ErrNotASaltpackMessage
  else if String.eqb n "ErrWrongMessageType" then ErrWrongMessageType
  else if String.eqb n "ErrBadVersion" then ErrBadVersion
  else if String.eqb n "ErrBadEphemeralKey" then ErrBadEphemeralKey
  else if String.eqb n "ErrBadLookup" then ErrBadLookup
  else if String.eqb n "ErrDecryptionFailed" then ErrDecryptionFailed
  else if String.eqb n "ErrBadSymmetricKey" then ErrBadSymmetricKey
  else if String.eqb n "ErrNoDecryptionKey" then ErrNoDecryptionKey
  else if String.eqb n "ErrBadSenderKeySecretbox" then ErrBadSenderKeySecretbox
  else if String.eqb n "ErrBadBoxKey" then ErrBadBoxKey
  else if String.eqb n "ErrNoSenderKey" then ErrNoSenderKey
  else if String.eqb n "ErrBadSignature" then ErrBadSignature
  else if String.eqb n "ErrUnexpectedEmptyBlock" then ErrUnexpectedEmptyBlock
  else if String.eqb n "ErrTrailingGarbage" then ErrTrailingGarbage
  else if String.eqb n "ErrPacketOverflow" then ErrPacketOverflow
  else match a with
       | [VInt z] => if String.eqb n "ErrBadTag" then ErrBadTag (Z.to_N z)
                     else if String.eqb n "ErrBadCiphertext" then ErrBadCiphertext (Z.to_N z) else Unmodelled
       | _ => Unmodelled
       end.
Lemma class_g_herr (e : err) (ev : gval) : g_herr e = Some ev -> exists n a, ev = VErr n a /\ err_class7c n a = e.
Proof. destruct e; cbn [g_herr]; intros H; try discriminate; injection H as <-; eexists; eexists; split; reflexivity. Qed.
Lemma class_g_err4b (e : err) (ev : gval) : GoAstProofs4b.g_err e = Some ev -> exists n a, ev = VErr n a /\ err_class7c n a = e.
Proof.
  destruct e; cbn [GoAstProofs4b.g_err]; intros H; try discriminate; injection H as <-; eexists; eexists; (split; [reflexivity|]);
    try reflexivity; unfold err_class7c; cbv [String.eqb Ascii.eqb Bool.eqb]; rewrite N2Z.id; reflexivity.
Qed.

Definition as_mki (v : gval) : option mki :=
  match v with
  | VStruct [("SenderKey", VBytes s); ("SenderIsAnon", VBool sa); ("ReceiverKey", rk); ("ReceiverIsAnon", VBool ra);
             ("NamedReceivers", nr); ("NumAnonReceivers", VInt n)] =>
    match as_key rk with
    | Some k => Some (mkMki s sa (snd k) ra (match nr with VList l => match as_bytes_list l with Some r => r | None => [] end | _ => [] end) (Z.to_N n))
    | None => None
    end
  | _ => None
  end.
Lemma as_mki_g (m : mki) (k : bytes * bytes) : snd k = mki_receiver m -> as_mki (g_mki m k) = Some m.
Proof.
  destruct m as [s sa r ra named n]. destruct k as [ks kp]. cbn [snd mki_receiver]. intros ->.
  unfold as_mki, g_mki, g_key, as_key. cbn [fst snd mki_sender mki_sender_anon mki_receiver mki_receiver_anon mki_named mki_num_anon].
  rewrite N2Z.id. destruct named as [|a l]; cbn [enc_kids]; [reflexivity|].
  rewrite as_bytes_list_map7c. reflexivity.
Qed.

Definition open_class (o : outcome) : result (mki * bytes) :=
  match o with
  | ORet [mk; VBytes msg; VNil] => match as_mki mk with Some m => Ok (m, msg) | None => Err Unmodelled end
  | ORet [_; VNil; VErr n a] => Err (err_class7c n a)
  | _ => Err Unmodelled
  end.
Definition as_signer (v : gval) : option (option bytes) :=
  match v with VNil => Some None | VBytes pk => Some (Some pk) | _ => None end.
Definition scopen_class (o : outcome) : result (option bytes * bytes) :=
  match o with
  | ORet [sg; VBytes msg; VNil] => match as_signer sg with Some s => Ok (s, msg) | None => Err Unmodelled end
  | ORet [_; VNil; VErr n a] => Err (err_class7c n a)
  | _ => Err Unmodelled
  end.

Section ModelTies.
Variable c : crypto.
Variable pm : bytes -> gval.

(* (TARGET) Open against the model *)
Lemma open_outcome_model (vd : validator) (kr : keyring) (input : bytes) :
  open_outcome c pm vd kr input <> OStuck "call" ->
  open_class (open_outcome c pm vd kr input) = open_all c vd kr input.
Proof.
  unfold open_outcome, open_all.
  pose proof (open_stream_header c vd kr input) as Hos.
  destruct (open_stream c vd kr input) as [[m [chunks e]]|e] eqn:Ho; cbn [bind fst snd so_end so_chunks].
  - destruct (dec_read_header c vd kr input) as [[[m' st] rest]|e'] eqn:Hh; cbn [bind fst snd] in Hos; [|discriminate].
    destruct (dec_header_key_some c vd kr input m' st rest Hh) as (_ & k & Hk & Hks). rewrite Hk.
    assert (m' = m) by congruence. subst m'.
    destruct e; cbn [GoAstProofs4b.g_err]; intros H; try (exfalso; apply H; reflexivity); cbn [open_class];
      first [reflexivity | rewrite (as_mki_g m k Hks); reflexivity
            | unfold err_class7c; cbv [String.eqb Ascii.eqb Bool.eqb]; rewrite N2Z.id; reflexivity].
  - destruct (g_herr e) as [ev|] eqn:Hge; [|intros H; exfalso; apply H; reflexivity].
    destruct (class_g_herr _ _ Hge) as (n & a & -> & Hc). intros _. cbn [open_class]. rewrite Hc. reflexivity.
Qed.

(* (TARGET) SigncryptOpen against the model *)
Lemma scopen_outcome_model (kr : keyring) (signers : sigring) (rv : resolver) (input : bytes) :
  scopen_outcome c kr signers rv input <> OStuck "call" ->
  scopen_class (scopen_outcome c kr signers rv input) = signcrypt_open_all c kr signers rv input.
Proof.
  unfold scopen_outcome, signcrypt_open_all.
  destruct (signcrypt_open_stream c kr signers rv input) as [[signer [chunks e]]|e] eqn:Ho; cbn [bind fst snd so_end so_chunks].
  - destruct e; cbn [GoAstProofs4b.g_err]; intros H; try (exfalso; apply H; reflexivity); cbn [scopen_class];
      first [reflexivity | destruct signer; reflexivity
            | unfold err_class7c; cbv [String.eqb Ascii.eqb Bool.eqb]; rewrite N2Z.id; reflexivity].
  - destruct (g_herr e) as [ev|] eqn:Hge; [|intros H; exfalso; apply H; reflexivity].
    destruct (class_g_herr _ _ Hge) as (n & a & -> & Hc). intros _. cbn [scopen_class]. rewrite Hc. reflexivity.
Qed.
(* (TARGET) NewVerifyStream against the model's verify_stream: same error class; on success the signer and the
   chunk reader over the verifyStream object holding the state the model's verify_loop starts from *)
Lemma nvs_outcome_model (vd : validator) (kr : sigring) (input : bytes) :
  match verify_stream c vd kr input with
  | Ok (pk, out) =>
    exists h hh rest,
      verify_read_header c vd mt_attached input = Ok (h, hh, rest) /\
      nvs_outcome c vd kr input = ORet [g_spk pk; g_cr_new (g_vs_key h hh pk (g_mps_raw rest 1)); VNil] /\
      out = verify_loop c (S (List.length rest)) (h_version h) pk hh 0 rest []
  | Err e =>
    match g_herr e with
    | Some (VErr n _) => exists a, nvs_outcome c vd kr input = ORet [VNil; VNil; VErr n a]
    | _ => nvs_outcome c vd kr input = OStuck "call"
    end
  end.
Proof.
  unfold verify_stream, nvs_outcome.
  destruct (verify_read_header c vd mt_attached input) as [[[h hh] rest]|e] eqn:Hh; cbn [bind].
  - destruct (lookup_signer kr (h_a h)) as [pk|].
    + exists h, hh, rest. repeat split; reflexivity.
    + cbn [g_herr]. eexists. reflexivity.
  - destruct (g_herr e) as [ev|] eqn:Hge; [|reflexivity].
    destruct (g_herr_verr _ _ Hge) as (nm & ->). eexists. reflexivity.
Qed.
End ModelTies.

(* ================= composition: the meaning other externs give to these calls is what is proved above ================= *)
Lemma as_version_g (v : version) : as_version (g_version v) = Some v.
Proof. destruct v; reflexivity. Qed.

Section Compose.
Variable c : crypto.

(* GoAstProofs5a.ext_init's computeMACKeysSender is the outcome of the translated function *)
(* (TARGET) *)
Lemma compose_computeMACKeysSender (es : gval -> bytes -> gval * gerr) (v : version) (ssk esk : bytes) (rs : list rcpt) (hh : bytes) :
  (N.of_nat (List.length rs) <= 18446744073709551616)%N ->
  fst (run_func2 (ext_mks2 c) f_saltpack_computeMACKeysSender [g_version v; g_sk ssk; g_sk esk; VList (map g_rcpt rs); VBytes hh])
  = match ext_init c es "computeMACKeysSender" [g_version v; g_sk ssk; g_sk esk; VList (map g_rcpt rs); VBytes hh] with
    | Some rsl => ORet rsl
    | None => OStuck "call"
    end.
Proof.
  intros Hlen. rewrite (go_computeMACKeysSender c v ssk esk rs hh Hlen).
  unfold ext_init. cbv [String.eqb Ascii.eqb Bool.eqb]. unfold g_sk.
  rewrite as_version_g, as_rcpts_map.
  destruct (known_version v || match rs with [] => true | _ :: _ => false end); reflexivity.
Qed.

(* GoAstProofs4b.ext_chunk's readEncryptionBlock / readSignatureBlock / assertEndOfStream: the five results and
   the stream written back are those of the translated functions; no value = stuck callee or panic *)
(* (TARGET) *)
Lemma compose_readEncryptionBlock (ty : read_target) (v : version) (input : bytes) (s : Z) :
  let r := run_func2 (ext_read (enc_target v)) f_saltpack_readEncryptionBlock [g_version v; g_mps_raw input s] in
  match ext_chunk c ty "readEncryptionBlock" [g_version v; g_mps_raw input s] with
  | Some rs => fst r = ORet (firstn 5 rs) /\ lookup "mps" (snd r) = nth_error rs 6
  | None => if ver12 v then fst r = OStuck "call" else r = (OPanic, [])
  end.
Proof.
  cbv zeta. pose proof (go_readEncryptionBlock v input s) as H. cbv zeta in H.
  unfold ext_chunk. cbv [String.eqb Ascii.eqb Bool.eqb]. rewrite as_version_g.
  destruct (ver12 v); [|exact H]. unfold blk_spec in H.
  destruct (mps_read (view_enc_block v) (g_mps_raw input s)) as [[[auths ct] final] s' mps'|e|]; exact H.
Qed.
(* (TARGET) *)
Lemma compose_readSignatureBlock (ty : read_target) (v : version) (input : bytes) (s : Z) :
  let r := run_func2 (ext_read (sig_target v)) f_saltpack_readSignatureBlock [g_version v; g_mps_raw input s] in
  match ext_chunk c ty "readSignatureBlock" [g_version v; g_mps_raw input s] with
  | Some rs => fst r = ORet (firstn 5 rs) /\ lookup "mps" (snd r) = nth_error rs 6
  | None => if ver12 v then fst r = OStuck "call" else r = (OPanic, [])
  end.
Proof.
  cbv zeta. pose proof (go_readSignatureBlock v input s) as H. cbv zeta in H.
  unfold ext_chunk. cbv [String.eqb Ascii.eqb Bool.eqb]. rewrite as_version_g.
  destruct (ver12 v); [|exact H]. unfold blk_spec in H.
  destruct (mps_read (view_sig_block v) (g_mps_raw input s)) as [[[sig ch] final] s' mps'|e|]; exact H.
Qed.
(* (TARGET) *)
Lemma compose_assertEndOfStream (ty : read_target) (input : bytes) (s : Z) :
  fst (run_func2 (ext_read TAny) f_saltpack_assertEndOfStream [g_mps_raw input s])
  = match ext_chunk c ty "assertEndOfStream" [g_mps_raw input s] with Some rs => ORet rs | None => OStuck "call" end.
Proof.
  destruct (go_assertEndOfStream input s) as [H _]. cbv zeta in H.
  unfold ext_chunk. cbv [String.eqb Ascii.eqb Bool.eqb]. unfold g_mps_raw at 2, ret_err.
  destruct (GoAstProofs4b.g_err (assert_end_of_stream input)); exact H.
Qed.

(* ext_vdet's newVerifyStream is the outcome of the translated newVerifyStream *)
(* (TARGET) *)
Lemma compose_newVerifyStream (vd : validator) (kr : sigring) (VV : gval) (input : bytes) (typ : Z) :
  sig_type_ok typ = true ->
  fst (run_func2 (ext_nvs c vd) f_saltpack_newVerifyStream [VV; VBytes input; VInt typ])
  = match ext_vdet c vd kr "newVerifyStream" [VV; VBytes input; VInt typ] with Some rs => ORet rs | None => OStuck "call" end.
Proof.
  intros Hty. rewrite (go_newVerifyStream c vd VV (VBytes input) input typ eq_refl Hty).
  unfold ext_vdet. cbv [String.eqb Ascii.eqb Bool.eqb rdr_bytes]. rewrite Hty.
  destruct (verify_read_header c vd typ input) as [[[h hh] rest]|e]; [reflexivity|].
  destruct (g_herr e); reflexivity.
Qed.

(* ext_nvs's verifyStream.readHeader, on the object go_verify_readHeader (GoAstProofs4b.v) is stated on, gives that
   lemma's results: nil and the same receiver object, or an error of the same class *)
(* (TARGET) *)
Lemma compose_verify_readHeader (vd : validator) (typ : Z) (input : bytes) (s : Z) :
  typ = mt_attached \/ typ = mt_detached ->
  let r := run_func2 (ext_vhdr c vd) GoAstRecv.f_saltpack_verifyStream_readHeader
                     [VStruct [("mps", g_mps_raw input s)]; VNil; VInt typ] in
  match ext_nvs c vd "verifyStream.readHeader" [VStruct [("mps", g_mps_raw input s)]; VNil; VInt typ] with
  | Some [VNil; obj] => fst r = ORet [VNil] /\ lookup "v" (snd r) = Some obj
  | Some [ev'] => exists ev, fst r = ORet [ev] /\ hdr_err_class ev = hdr_err_class ev'
  | _ => fst r = OStuck "call"
  end.
Proof.
  intros Ht. cbv zeta. pose proof (go_verify_readHeader c vd typ input s Ht) as H. cbv zeta in H.
  assert (Hok : sig_type_ok typ = true) by (destruct Ht; subst typ; reflexivity).
  unfold ext_nvs. cbv [String.eqb Ascii.eqb Bool.eqb]. rewrite Hok. unfold g_mps_raw in *. cbv [lookup String.eqb Ascii.eqb Bool.eqb].
  destruct (verify_read_header c vd typ input) as [[[h hh] rest]|e] eqn:Hh.
  - exact H.
  - destruct (verify_read_header_errors c _ _ _ _ Hh) as [->|[->|[->|[->|[->| ->]]]]]; exact H.
Qed.

(* ext_nds's / ext_nsos's readHeader, on the object the constructor builds, give the results of the two
   readHeader lemmas: nil and the same receiver object, or the same error value *)
(* (TARGET) *)
Lemma compose_decryptStream_readHeader (pm : bytes -> gval) (vd : validator) (kr : keyring) (VV RING X : gval) (input : bytes) (s : Z) :
  let r := run_func2 (ext_dhdr c vd kr) f_saltpack_decryptStream_readHeader [g_ds_new VV RING (g_mps_raw input s); VNil] in
  match ext_nds c pm vd kr "decryptStream.readHeader" [g_ds_new VV RING (g_mps_raw input s); X] with
  | Some [VNil; obj] => fst r = ORet [VNil] /\ lookup "ds" (snd r) = Some obj
  | Some [ev; _] => fst r = ORet [ev]
  | _ => fst r = OStuck "call"
  end.
Proof.
  cbv zeta. pose proof (go_decryptStream_readHeader c vd kr VV RING input s) as H. cbv zeta in H.
  unfold ext_nds. cbv [String.eqb Ascii.eqb Bool.eqb]. unfold g_ds_new, g_mps_raw in *. cbv [lookup String.eqb Ascii.eqb Bool.eqb].
  destruct (dec_read_header c vd kr input) as [[[m st] rest]|e] eqn:Hh.
  - destruct H as (H1 & k & Hk & Hks & H2). rewrite Hk. split; [exact H1|]. exact H2.
  - destruct (g_herr e) as [ev|] eqn:Hge; [|exact H].
    destruct (g_herr_verr _ _ Hge) as (nm & ->). exact H.
Qed.
(* (TARGET) *)
Lemma compose_signcryptOpenStream_readHeader (kr : keyring) (signers : sigring) (rv : resolver) (KR RV : gval) (input : bytes) (s : Z) :
  let r := run_func2 (ext_schdr c kr signers rv) f_saltpack_signcryptOpenStream_readHeader [g_sos_new (g_mps_raw input s) KR RV] in
  match ext_nsos c kr signers rv "signcryptOpenStream.readHeader" [g_sos_new (g_mps_raw input s) KR RV] with
  | Some [VNil; obj] => fst r = ORet [VNil] /\ lookup "sos" (snd r) = Some obj
  | Some [ev] => fst r = ORet [ev]
  | _ => fst r = OStuck "call"
  end.
Proof.
  cbv zeta. pose proof (go_signcryptOpenStream_readHeader c kr signers rv KR RV input s) as H. cbv zeta in H.
  unfold ext_nsos. cbv [String.eqb Ascii.eqb Bool.eqb]. unfold g_sos_new, g_mps_raw in *. cbv [lookup String.eqb Ascii.eqb Bool.eqb].
  destruct (sc_read_header c kr signers rv input) as [[[[pkey signer] hh] rest]|e] eqn:Hh.
  - exact H.
  - unfold herr_ret. destruct (g_herr e) as [ev|] eqn:Hge; [|exact H].
    destruct (g_herr_verr _ _ Hge) as (nm & ->). exact H.
Qed.

(* the constructors as externs of the all-at-once entry points return the MessageKeyInfo / signer / error of the
   translated constructors (the reader they return stands for the model's stream) *)
(* (TARGET) *)
Lemma compose_NewDecryptStream (pm : bytes -> gval) (vd : validator) (kr : keyring) (VV RING : gval) (input : bytes) :
  match ext_open c pm vd kr "NewDecryptStream" [VV; VBytes input; RING] with
  | Some [mk; strm; e] => exists rdr, nds_outcome c pm vd kr VV RING input = ORet [mk; rdr; e]
  | _ => nds_outcome c pm vd kr VV RING input = OStuck "call"
  end.
Proof.
  unfold ext_open, nds_outcome. cbv [String.eqb Ascii.eqb Bool.eqb rdr_bytes].
  rewrite open_stream_header.
  destruct (dec_read_header c vd kr input) as [[[m st] rest]|e] eqn:Hh; cbn [bind fst snd].
  - destruct (dec_header_key c kr input) as [k|]; [eexists; reflexivity|reflexivity].
  - destruct (g_herr e); [eexists; reflexivity|reflexivity].
Qed.
(* (TARGET) *)
Lemma compose_NewSigncryptOpenStream (kr : keyring) (signers : sigring) (rv : resolver) (KR RV : gval) (input : bytes) :
  match ext_scopen c kr signers rv "NewSigncryptOpenStream" [VBytes input; KR; RV] with
  | Some [sg; strm; e] => exists rdr, nsos_outcome c kr signers rv KR RV input = ORet [sg; rdr; e]
  | _ => nsos_outcome c kr signers rv KR RV input = OStuck "call"
  end.
Proof.
  unfold ext_scopen, nsos_outcome. cbv [String.eqb Ascii.eqb Bool.eqb rdr_bytes].
  rewrite signcrypt_open_stream_header.
  destruct (sc_read_header c kr signers rv input) as [[[[pkey signer] hh] rest]|e] eqn:Hh; cbn [bind fst snd].
  - eexists; reflexivity.
  - destruct (g_herr e); [eexists; reflexivity|reflexivity].
Qed.
End Compose.

(* ================= the statements on concrete inputs (toy primitives) ================= *)
From SP Require Import ToyCrypto Rand Sign.
Section Examples.
(* a toy record whose hash depends on the whole input and whose signatures can fail to verify *)
Definition toy7c : crypto := {|
  sha512 := fun x => fit 64 (rev x); hmac512 := hmac512 toy_crypto; sb_seal := sb_seal toy_crypto; sb_open := sb_open toy_crypto;
  dh_pub := dh_pub toy_crypto; dh_shared := dh_shared toy_crypto;
  ed_pub := fun s => fit 32 s;
  ed_sign := fun s m => fit 64 (m ++ fit 32 s)%list;
  ed_verify := fun pk m sg => bytes_eqb sg (fit 64 (m ++ pk)%list) |}.
Definition x7c_sk : bytes := repeat x07 32.
Definition x7c_pk : bytes := dh_pub toy7c x7c_sk.
Definition x7c_kr : keyring := mkRing [(x7c_sk, x7c_pk)] None.
Definition x7c_ct : bytes :=
  match seal toy7c v2 (Some (repeat x03 32)) [(x7c_pk, false)] [x68; x69] (repeat x05 200) with Ok (b, _) => b | Err _ => [] end.
Definition x7c_ssk : bytes := repeat x09 64.
Definition x7c_spk : bytes := ed_pub toy7c x7c_ssk.
Definition x7c_sig : bytes := match sign_detached toy7c v2 x7c_ssk [x68; x69] (repeat x02 16) with Ok (s, _) => s | Err _ => [] end.
Definition x7c_att : bytes := match sign_attached_stream toy7c v2 x7c_ssk [[x68; x69]] (repeat x02 16) with Ok (s, _) => s | Err _ => [] end.

(* MAC keys: two recipients, version 2; an unknown version with recipients is the callee's panic *)
Example ex_mac_keys :
  fst (run_func2 (ext_mks2 toy7c) f_saltpack_computeMACKeysSender
         [g_version v2; g_sk [x01; x02]; g_sk [x03]; VList (map g_rcpt [([x05], false); ([x06; x07], true)]); VBytes (repeat x09 64)])
  = ORet [g_mks (sender_mac_keys toy7c v2 [x01; x02] [x03] (repeat x09 64) [([x05], false); ([x06; x07], true)])]
  /\ fst (run_func2 (ext_mks2 toy7c) f_saltpack_computeMACKeysSender
         [g_version (mkV 2 1); g_sk [x01; x02]; g_sk [x03]; VList (map g_rcpt [([x05], false)]); VBytes (repeat x09 64)])
  = OStuck "call"
  /\ fst (run_func2 (ext_mks1 toy7c) f_saltpack_computeMACKeySender
         [g_version (mkV 1 1); VInt 5; g_sk [x01; x02]; g_sk [x03]; g_rcpt ([x05], false); VBytes (repeat x09 64)]) = OPanic.
Proof. vm_compute. repeat split. Qed.

(* a V2 encryption packet, a V1 signature packet, a truncated packet *)
Example ex_read_blocks :
  fst (run_func2 (ext_read TEncV2) f_saltpack_readEncryptionBlock
         [g_version v2; g_mps_raw (mp_encode (mv_enc_block v2 [repeat x01 32] [x09; x08] true) ++ [x55])%list 3])
  = ORet [VBytes [x09; x08]; VList [VBytes (repeat x01 32)]; VBool true; VInt 3; VNil]
  /\ fst (run_func2 (ext_read TSigV1) f_saltpack_readSignatureBlock
         [g_version v1; g_mps_raw (mp_encode (mv_sig_block v1 [x0a] (MBin []) false)) 7])
  = ORet [VBytes [x0a]; VBytes []; VBool true; VInt 7; VNil]
  /\ fst (run_func2 (ext_read TEncV1) f_saltpack_readEncryptionBlock [g_version v1; g_mps_raw [x92; xc4] 0])
  = ORet [VNil; VNil; VBool false; VInt 0; VErr "io.EOF" []]
  /\ run_func2 (ext_read TEncV1) f_saltpack_readEncryptionBlock [g_version (mkV 3 0); g_mps_raw [] 0] = (OPanic, []).
Proof. vm_compute. repeat split. Qed.

(* readHeader of the decryption receiver: success (receiver object = the model's state), no key, truncated, not a header *)
Definition x7c_dec_hdr_check (kr : keyring) (ct : bytes) : Prop :=
  let r := run_func2 (ext_dhdr toy7c AnyKnownMajor kr) f_saltpack_decryptStream_readHeader [g_ds_new VNil VNil (g_mps_raw ct 5); VNil] in
  match dec_read_header toy7c AnyKnownMajor kr ct with
  | Ok (m, st, rest) =>
    fst r = ORet [VNil] /\
    match dec_header_key toy7c kr ct with
    | Some k => snd k = mki_receiver m /\ lookup "ds" (snd r) = Some (g_ds_done VNil VNil (g_mps_raw rest 6) VNil m st k)
    | None => False
    end
  | Err e => match g_herr e with Some ev => fst r = ORet [ev] | None => fst r = OStuck "call" end
  end.
Example ex_dec_hdr :
  x7c_dec_hdr_check x7c_kr x7c_ct /\ x7c_dec_hdr_check (mkRing [] None) x7c_ct /\ x7c_dec_hdr_check x7c_kr (firstn 20 x7c_ct)
  /\ x7c_dec_hdr_check x7c_kr (mp_encode (MBin [x01; x02]))
  /\ (exists m st rest, dec_read_header toy7c AnyKnownMajor x7c_kr x7c_ct = Ok (m, st, rest))
  /\ dec_read_header toy7c AnyKnownMajor (mkRing [] None) x7c_ct = Err ErrNoDecryptionKey
  /\ dec_read_header toy7c AnyKnownMajor x7c_kr (firstn 20 x7c_ct) = Err ErrFailedToReadHeaderBytes
  /\ dec_read_header toy7c AnyKnownMajor x7c_kr (mp_encode (MBin [x01; x02])) = Err ErrDecode.
Proof. vm_compute. repeat split. do 3 eexists. reflexivity. Qed.

(* detached verification: valid, other message, unknown signer, failing reader, attached signature, truncated *)
Definition x7c_vd (kr : sigring) (msg : bytes) (rv : option gval) (sg : bytes) : outcome :=
  fst (run_func2 (ext_vdet toy7c AnyKnownMajor kr) f_saltpack_VerifyDetachedReader [VNil; g_rdr msg rv; VBytes sg; VNil]).
Example ex_verify_detached :
  x7c_vd [x7c_spk] [x68; x69] None x7c_sig = ORet [g_spk x7c_spk; VNil]
  /\ verify_detached toy7c AnyKnownMajor [x7c_spk] [x68; x69] x7c_sig = Ok x7c_spk
  /\ x7c_vd [x7c_spk] [x68; x6a] None x7c_sig = ORet [VNil; VErr "ErrBadSignature" []]
  /\ verify_detached toy7c AnyKnownMajor [x7c_spk] [x68; x6a] x7c_sig = Err ErrBadSignature
  /\ x7c_vd [] [x68; x69] None x7c_sig = ORet [VNil; VErr "ErrNoSenderKey" [VBytes x7c_spk]]
  /\ x7c_vd [x7c_spk] [x68; x69] (Some (VErr "boom" [])) x7c_sig = ORet [VNil; VErr "boom" []]
  /\ x7c_vd [x7c_spk] [x68; x69] None x7c_att = ORet [VNil; VErr "ErrWrongMessageType" []]
  /\ verify_detached toy7c AnyKnownMajor [x7c_spk] [x68; x69] x7c_att = Err ErrWrongMessageType
  /\ x7c_vd [x7c_spk] [x68; x69] None (firstn 70 x7c_sig) = ORet [VNil; VErr "io.EOF" []]
  /\ verify_detached toy7c AnyKnownMajor [x7c_spk] [x68; x69] (firstn 70 x7c_sig) = Err EOF
  /\ fst (run_func2 (ext_vdet2 toy7c AnyKnownMajor [x7c_spk]) f_saltpack_VerifyDetached [VNil; VBytes [x68; x69]; VBytes x7c_sig; VNil])
     = ORet [g_spk x7c_spk; VNil].
Proof. vm_compute. repeat split. Qed.

(* Verify / Open: success, truncated, trailing garbage, unknown signer / no key *)
Example ex_verify_open :
  fst (run_func2 (ext_verify toy7c AnyKnownMajor [x7c_spk]) f_saltpack_Verify [VNil; VBytes x7c_att; VNil]) = ORet [g_spk x7c_spk; VBytes [x68; x69]; VNil]
  /\ verify_all toy7c AnyKnownMajor [x7c_spk] x7c_att = Ok (x7c_spk, [x68; x69])
  /\ fst (run_func2 (ext_verify toy7c AnyKnownMajor [x7c_spk]) f_saltpack_Verify [VNil; VBytes (firstn 130 x7c_att); VNil])
     = ORet [VNil; VNil; VErr "io.ErrUnexpectedEOF" []]
  /\ verify_all toy7c AnyKnownMajor [x7c_spk] (firstn 130 x7c_att) = Err ErrUnexpectedEOF
  /\ fst (run_func2 (ext_verify toy7c AnyKnownMajor [x7c_spk]) f_saltpack_Verify [VNil; VBytes (x7c_att ++ [x01])%list; VNil])
     = ORet [VNil; VNil; VErr "ErrTrailingGarbage" []]
  /\ verify_all toy7c AnyKnownMajor [] x7c_att = Err ErrNoSenderKey
  /\ open_class (fst (run_func2 (ext_open toy7c (fun _ => VNil) AnyKnownMajor x7c_kr) f_saltpack_Open [VNil; VBytes x7c_ct; VNil]))
     = open_all toy7c AnyKnownMajor x7c_kr x7c_ct
  /\ (exists m, open_all toy7c AnyKnownMajor x7c_kr x7c_ct = Ok (m, [x68; x69]))
  /\ fst (run_func2 (ext_open toy7c (fun _ => VStruct []) AnyKnownMajor (mkRing [] None)) f_saltpack_Open [VNil; VBytes x7c_ct; VNil])
     = ORet [VStruct []; VNil; VErr "ErrNoDecryptionKey" []].
Proof. vm_compute. repeat split. eexists. reflexivity. Qed.
(* SigncryptOpen and its constructor *)
Definition x7c_sc : bytes :=
  match signcrypt_seal_stream toy7c (Some x7c_ssk) [x7c_pk] [] [[x68; x69]] (repeat x05 300) with Ok (b, _) => b | Err _ => [] end.
Example ex_signcrypt_open :
  scopen_class (fst (run_func2 (ext_scopen toy7c x7c_kr [x7c_spk] None) f_saltpack_SigncryptOpen [VBytes x7c_sc; VNil; VNil]))
  = signcrypt_open_all toy7c x7c_kr [x7c_spk] None x7c_sc
  /\ signcrypt_open_all toy7c x7c_kr [x7c_spk] None x7c_sc = Ok (Some x7c_spk, [x68; x69])
  /\ fst (run_func2 (ext_scopen toy7c x7c_kr [] None) f_saltpack_SigncryptOpen [VBytes x7c_sc; VNil; VNil])
     = ORet [VNil; VNil; VErr "ErrNoSenderKey" []]
  /\ fst (run_func2 (ext_scopen toy7c x7c_kr [x7c_spk] None) f_saltpack_SigncryptOpen [VBytes (firstn 200 x7c_sc); VNil; VNil])
     = scopen_outcome toy7c x7c_kr [x7c_spk] None (firstn 200 x7c_sc)
  /\ (exists pkey hh rest,
        sc_read_header toy7c x7c_kr [x7c_spk] None x7c_sc = Ok (pkey, Some x7c_spk, hh, rest) /\
        fst (run_func2 (ext_nsos toy7c x7c_kr [x7c_spk] None) f_saltpack_NewSigncryptOpenStream [VBytes x7c_sc; VNil; VNil])
        = ORet [VBytes x7c_spk; g_cr_new (g_sos_done (g_mps_raw rest 1) VNil VNil pkey hh (Some x7c_spk)); VNil]).
Proof. vm_compute. repeat split. do 3 eexists. split; reflexivity. Qed.
End Examples.
