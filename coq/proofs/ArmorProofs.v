(* ArmorProofs.v — C11: armor framing.  Output shape, frame grammar soundness and
   completeness, round trip under arbitrary re-flowing.
   Statements marked (TARGET) are used verbatim by props/. *)
From Coq Require Import List NArith ZArith Bool Lia ZifyN ZifyNat ZifyBool.
From Coq.Strings Require Import Byte.
From SP Require Import Bytes Consts Params Msgpack Errors BaseX Encodings Packets Armor BaseXProofs.
Import ListNotations.
Open Scope N_scope.

Definition armorable (typ : Z) : Prop := typ = mt_encryption \/ typ = mt_attached \/ typ = mt_detached.
Definition brand_ok (b : bytes) : Prop := forallb is_alnum b = true /\ len b <= 128.
Definition marker_ok (m : bytes) : Prop := m = header_marker \/ m = footer_marker.

(* ===== auxiliary: equality tests ===== *)

Lemma ar_bytes_eqb_refl (a : bytes) : bytes_eqb a a = true.
Proof.
  induction a as [|x a IH]; [reflexivity|].
  cbn [bytes_eqb]. rewrite (Byte.byte_dec_lb (eq_refl x)). exact IH.
Qed.

Lemma ar_bytes_eqb_true (a : bytes) : forall b, bytes_eqb a b = true -> a = b.
Proof.
  induction a as [|x a IH]; intros [|y b] H; cbn [bytes_eqb] in H; try discriminate.
  - reflexivity.
  - apply andb_true_iff in H as [H1 H2]. apply Byte.byte_dec_bl in H1. subst y.
    f_equal. apply IH. exact H2.
Qed.

Lemma negb_false_true (b : bool) : negb b = false -> b = true.
Proof. destruct b; [reflexivity|discriminate]. Qed.

(* ===== auxiliary: character classes (all by enumeration of the 256 bytes) ===== *)

Lemma eqb_sp_eq b : Byte.eqb b sp = true -> b = sp.
Proof. apply Byte.byte_dec_bl. Qed.

Lemma alnum_not_fws b : is_alnum b = true -> is_frame_ws b = false.
Proof. destruct b; vm_compute; intro H; try reflexivity; discriminate H. Qed.

Lemma alnum_not_tws b : is_alnum b = true -> is_trim_ws b = false.
Proof. destruct b; vm_compute; intro H; try reflexivity; discriminate H. Qed.

Lemma alnum_not_sp b : is_alnum b = true -> Byte.eqb b sp = false.
Proof. destruct b; vm_compute; intro H; try reflexivity; discriminate H. Qed.

Lemma alnum_is_dig b : is_alnum b = true -> is_dig base62 b = true.
Proof. destruct b; vm_compute; intro H; try reflexivity; discriminate H. Qed.

Lemma alnum_valid b : is_alnum b = true -> valid_armor_byte b = true.
Proof. destruct b; vm_compute; intro H; try reflexivity; discriminate H. Qed.

Lemma fws_valid b : is_frame_ws b = true -> valid_armor_byte b = true.
Proof. destruct b; vm_compute; intro H; try reflexivity; discriminate H. Qed.

Lemma fws_not_dig b : is_frame_ws b = true -> is_dig base62 b = false.
Proof. destruct b; vm_compute; intro H; try reflexivity; discriminate H. Qed.

Lemma valid_not_dot b : valid_armor_byte b = true -> Byte.eqb b dot = false.
Proof. destruct b; vm_compute; intro H; try reflexivity; discriminate H. Qed.

Lemma valid_tws_fws b : valid_armor_byte b = true -> is_trim_ws b = true -> is_frame_ws b = true.
Proof. destruct b; vm_compute; intros H1 H2; try reflexivity; try discriminate H1; discriminate H2. Qed.

Lemma fws_sp_tws b : is_frame_ws b = true -> is_trim_ws b = false -> Byte.eqb b sp = false.
Proof. destruct b; vm_compute; intros H1 H2; try reflexivity; try discriminate H1; discriminate H2. Qed.

Lemma sp_fws : is_frame_ws sp = true. Proof. reflexivity. Qed.
Lemma sp_tws : is_trim_ws sp = true. Proof. reflexivity. Qed.

Lemma forallb_imp (f g : byte -> bool) (l : bytes) :
  (forall b, f b = true -> g b = true) -> forallb f l = true -> forallb g l = true.
Proof.
  intros Hfg H. apply forallb_forall. intros x Hx. apply Hfg.
  exact (proj1 (forallb_forall f l) H x Hx).
Qed.

Lemma forallb_rev (f : byte -> bool) (l : bytes) : forallb f l = true -> forallb f (rev l) = true.
Proof.
  intro H. apply forallb_forall. intros x Hx. apply in_rev in Hx.
  exact (proj1 (forallb_forall f l) H x Hx).
Qed.

(* ===== auxiliary: drop_while and trim_space ===== *)

Lemma drop_while_spec (f : byte -> bool) (l : bytes) :
  exists pre, l = pre ++ drop_while f l /\ forallb f pre = true /\
    (drop_while f l = [] \/ exists a t, drop_while f l = a :: t /\ f a = false).
Proof.
  induction l as [|b t IH].
  - exists []. cbn. auto.
  - cbn [drop_while]. destruct (f b) eqn:E.
    + destruct IH as (pre & H1 & H2 & H3). exists (b :: pre). cbn [app forallb].
      rewrite E, H2. split; [f_equal; exact H1|]. split; [reflexivity|exact H3].
    + exists []. cbn [app forallb]. split; [reflexivity|]. split; [reflexivity|].
      right. exists b, t. auto.
Qed.

Lemma drop_while_all (f : byte -> bool) (pre l : bytes) :
  forallb f pre = true -> drop_while f (pre ++ l) = drop_while f l.
Proof.
  induction pre as [|b t IH]; intro H; [reflexivity|].
  cbn [forallb] in H. apply andb_true_iff in H as [H1 H2].
  cbn [app drop_while]. rewrite H1. apply IH. exact H2.
Qed.

(* trimmed strings: empty, or first and last character are not white space *)
Definition trimmed (m : bytes) : Prop :=
  m = [] \/ ((exists a t, m = a :: t /\ is_trim_ws a = false) /\
             (exists t z, m = t ++ [z] /\ is_trim_ws z = false)).

Lemma trim_space_spec (l : bytes) :
  exists pre post, l = pre ++ trim_space l ++ post /\
    forallb is_trim_ws pre = true /\ forallb is_trim_ws post = true /\ trimmed (trim_space l).
Proof.
  unfold trim_space.
  destruct (drop_while_spec is_trim_ws l) as (pre & H1 & H2 & H3).
  set (d1 := drop_while is_trim_ws l) in *.
  destruct (drop_while_spec is_trim_ws (rev d1)) as (post' & G1 & G2 & G3).
  set (d2 := drop_while is_trim_ws (rev d1)) in *.
  assert (Hd1 : d1 = rev d2 ++ rev post').
  { rewrite <- (rev_involutive d1), G1, rev_app_distr. reflexivity. }
  exists pre, (rev post'). split; [rewrite H1 at 1; rewrite Hd1; reflexivity|].
  split; [exact H2|]. split; [apply forallb_rev; exact G2|].
  destruct G3 as [G3|(z & t & G3 & Gz)].
  - left. rewrite G3. reflexivity.
  - right. split.
    + destruct H3 as [H3|(a & t' & H3 & Ha)].
      * rewrite H3 in Hd1. rewrite G3 in Hd1. cbn [rev] in Hd1.
        destruct (rev t); discriminate Hd1.
      * rewrite H3 in Hd1. destruct (rev d2) as [|a' r'] eqn:E.
        -- rewrite G3 in E. cbn [rev] in E. destruct (rev t); discriminate E.
        -- cbn [app] in Hd1. injection Hd1 as <- _. exists a, r'. auto.
    + rewrite G3. cbn [rev]. exists (rev t), z. auto.
Qed.

Lemma trim_space_unique (pre mid post : bytes) :
  forallb is_trim_ws pre = true -> forallb is_trim_ws post = true -> trimmed mid ->
  trim_space (pre ++ mid ++ post) = mid.
Proof.
  intros Hpre Hpost Hmid. unfold trim_space. rewrite drop_while_all by exact Hpre.
  destruct Hmid as [->|[(a & t & Em & Ha) (t' & z & Ez & Hz)]].
  - cbn [app]. rewrite <- (app_nil_r post) at 1. rewrite drop_while_all by exact Hpost.
    reflexivity.
  - assert (E1 : drop_while is_trim_ws (mid ++ post) = mid ++ post).
    { rewrite Em. cbn [app drop_while]. rewrite Ha. reflexivity. }
    rewrite E1, rev_app_distr, drop_while_all by (apply forallb_rev; exact Hpost).
    rewrite Ez, rev_app_distr. cbn [rev app drop_while]. rewrite Hz.
    cbn [rev]. rewrite rev_involutive. reflexivity.
Qed.

Lemma trim_space_trimmed (m : bytes) : trimmed m -> trim_space m = m.
Proof.
  intro H. pose proof (trim_space_unique [] m [] eq_refl eq_refl H) as E.
  cbn [app] in E. rewrite app_nil_r in E. exact E.
Qed.

Lemma trim_space_drop_front (pre l : bytes) :
  forallb is_trim_ws pre = true -> trim_space (pre ++ l) = trim_space l.
Proof.
  intro H. destruct (trim_space_spec l) as (p & q & E & Hp & Hq & Ht).
  rewrite E at 1. rewrite app_assoc. apply trim_space_unique; try assumption.
  rewrite forallb_app, H, Hp. reflexivity.
Qed.

Lemma trim_space_drop_back (l post : bytes) :
  forallb is_trim_ws post = true -> trim_space (l ++ post) = trim_space l.
Proof.
  intro H. destruct (trim_space_spec l) as (p & q & E & Hp & Hq & Ht).
  rewrite E at 1. rewrite <- !app_assoc. apply trim_space_unique; try assumption.
  rewrite forallb_app, H, Hq. reflexivity.
Qed.

(* ===== auxiliary: collapse_ws and normalise ===== *)

Lemma collapse_run_change (l : bytes) :
  collapse_ws l false = collapse_ws l true \/ collapse_ws l false = sp :: collapse_ws l true.
Proof.
  destruct l as [|b t]; [left; reflexivity|]. cbn [collapse_ws].
  destruct (is_frame_ws b); [right|left]; reflexivity.
Qed.

Lemma trim_space_sp (l : bytes) : trim_space (sp :: l) = trim_space l.
Proof. exact (trim_space_drop_front [sp] l eq_refl). Qed.

Lemma trim_collapse_run (l : bytes) :
  trim_space (collapse_ws l true) = trim_space (collapse_ws l false).
Proof.
  destruct (collapse_run_change l) as [E|E]; rewrite E; [reflexivity|].
  symmetry. apply trim_space_sp.
Qed.

Lemma normalise_drop_front (pre l : bytes) :
  forallb is_frame_ws pre = true -> normalise (pre ++ l) = normalise l.
Proof.
  induction pre as [|w pre IH]; intro H; [reflexivity|].
  cbn [forallb] in H. apply andb_true_iff in H as [H1 H2].
  rewrite <- (IH H2). unfold normalise. cbn [app collapse_ws]. rewrite H1.
  rewrite trim_space_sp. apply trim_collapse_run.
Qed.

Lemma collapse_all_ws_true (l : bytes) : forallb is_frame_ws l = true -> collapse_ws l true = [].
Proof.
  induction l as [|b t IH]; intro H; [reflexivity|].
  cbn [forallb] in H. apply andb_true_iff in H as [H1 H2].
  cbn [collapse_ws]. rewrite H1. apply IH. exact H2.
Qed.

Lemma collapse_app_ws (l post : bytes) : forallb is_frame_ws post = true ->
  forall r, exists e, forallb is_trim_ws e = true /\
    collapse_ws (l ++ post) r = collapse_ws l r ++ e.
Proof.
  intro H. induction l as [|b t IH]; intro r.
  - cbn [app collapse_ws]. destruct post as [|w p]; [exists []; auto|].
    cbn [forallb] in H. apply andb_true_iff in H as [H1 H2].
    cbn [collapse_ws]. rewrite H1, (collapse_all_ws_true p H2).
    destruct r; [exists []|exists [sp]]; auto.
  - cbn [app collapse_ws]. destruct (is_frame_ws b).
    + destruct (IH true) as (e & He & E). exists e. split; [exact He|].
      destruct r; rewrite E; reflexivity.
    + destruct (IH false) as (e & He & E). exists e. split; [exact He|].
      rewrite E. reflexivity.
Qed.

Lemma normalise_drop_back (l post : bytes) :
  forallb is_frame_ws post = true -> normalise (l ++ post) = normalise l.
Proof.
  intro H. unfold normalise. destruct (collapse_app_ws l post H false) as (e & He & E).
  rewrite E. apply trim_space_drop_back. exact He.
Qed.

(* white space that survives Encoding.IsValidByte is frame white space, so
   TrimSpace does not change what the frame normaliser sees *)
Lemma normalise_trim_space (x : bytes) :
  forallb valid_armor_byte x = true -> normalise (trim_space x) = normalise x.
Proof.
  intro Hv. destruct (trim_space_spec x) as (p & q & E & Hp & Hq & _).
  rewrite E in Hv. rewrite !forallb_app in Hv.
  apply andb_true_iff in Hv as [Vp Hv]. apply andb_true_iff in Hv as [_ Vq].
  assert (Fp : forallb is_frame_ws p = true).
  { apply forallb_forall. intros b Hb. apply valid_tws_fws.
    - exact (proj1 (forallb_forall _ _) Vp b Hb).
    - exact (proj1 (forallb_forall _ _) Hp b Hb). }
  assert (Fq : forallb is_frame_ws q = true).
  { apply forallb_forall. intros b Hb. apply valid_tws_fws.
    - exact (proj1 (forallb_forall _ _) Vq b Hb).
    - exact (proj1 (forallb_forall _ _) Hq b Hb). }
  rewrite E at 2. rewrite (normalise_drop_front p _ Fp). rewrite (normalise_drop_back _ q Fq).
  reflexivity.
Qed.

(* ===== auxiliary: words and join_sp ===== *)

Lemma split_sp_nonnil (l cur : bytes) : split_sp l cur <> [].
Proof.
  revert cur. induction l as [|b t IH]; intro cur; cbn [split_sp]; [discriminate|].
  destruct (Byte.eqb b sp); [discriminate|apply IH].
Qed.

Lemma join_sp_cons (w : bytes) (t : list bytes) : t <> [] -> join_sp (w :: t) = w ++ sp :: join_sp t.
Proof. destruct t; [congruence|reflexivity]. Qed.

Lemma join_split_sp (l : bytes) : forall cur, join_sp (split_sp l cur) = rev cur ++ l.
Proof.
  induction l as [|b t IH]; intro cur; cbn [split_sp].
  - cbn [join_sp]. rewrite app_nil_r. reflexivity.
  - destruct (Byte.eqb b sp) eqn:E.
    + apply eqb_sp_eq in E. subst b. rewrite join_sp_cons by apply split_sp_nonnil.
      rewrite IH. reflexivity.
    + rewrite IH. cbn [rev]. rewrite <- app_assoc. reflexivity.
Qed.

Lemma join_words (s : bytes) : join_sp (words s) = s.
Proof. unfold words. rewrite join_split_sp. reflexivity. Qed.

Definition nosp (w : bytes) : Prop := forallb (fun b => negb (Byte.eqb b sp)) w = true.

Lemma alnum_nosp (w : bytes) : forallb is_alnum w = true -> nosp w.
Proof.
  apply forallb_imp. intros b H. rewrite (alnum_not_sp b H). reflexivity.
Qed.

Lemma split_sp_word (w : bytes) : nosp w -> forall cur, split_sp w cur = [rev cur ++ w].
Proof.
  induction w as [|b t IH]; intros H cur; cbn [split_sp].
  - rewrite app_nil_r. reflexivity.
  - cbn [forallb] in H. apply andb_true_iff in H as [H1 H2].
    destruct (Byte.eqb b sp); [discriminate H1|].
    rewrite (IH H2). cbn [rev]. rewrite <- app_assoc. reflexivity.
Qed.

Lemma split_sp_word_sp (w t : bytes) : nosp w -> forall cur,
  split_sp (w ++ sp :: t) cur = (rev cur ++ w) :: split_sp t [].
Proof.
  induction w as [|b w IH]; intros H cur.
  - cbn [app split_sp]. change (Byte.eqb sp sp) with true. cbn iota.
    rewrite app_nil_r. reflexivity.
  - cbn [forallb] in H. apply andb_true_iff in H as [H1 H2].
    cbn [app split_sp]. destruct (Byte.eqb b sp); [discriminate H1|].
    rewrite (IH H2). cbn [rev]. rewrite <- app_assoc. reflexivity.
Qed.

Lemma words_join_sp (ws : list bytes) : ws <> [] -> Forall nosp ws -> words (join_sp ws) = ws.
Proof.
  induction ws as [|w t IH]; intros Hne HF; [congruence|].
  inversion HF as [|? ? Hw Ht]; subst. destruct t as [|w2 t'].
  - cbn [join_sp]. unfold words. rewrite split_sp_word by exact Hw. reflexivity.
  - rewrite join_sp_cons by discriminate. unfold words.
    rewrite split_sp_word_sp by exact Hw. cbn [rev app]. f_equal.
    apply IH; [discriminate|exact Ht].
Qed.

Lemma join_sp_split_last (ws : list bytes) (a b : bytes) :
  join_sp (ws ++ [a ++ sp :: b]) = join_sp (ws ++ [a; b]).
Proof.
  induction ws as [|w t IH]; [reflexivity|].
  cbn [app]. rewrite !join_sp_cons by (destruct t; discriminate).
  rewrite IH. reflexivity.
Qed.

(* ===== auxiliary: shape of normalised strings ===== *)

(* every frame-ws character is a space and no space follows a space ([prev]: the
   previous character was a space) *)
Fixpoint nodbl (l : bytes) (prev : bool) : bool :=
  match l with
  | [] => true
  | b :: t => if is_frame_ws b then Byte.eqb b sp && negb prev && nodbl t true else nodbl t false
  end.

(* non-empty words only: no leading, trailing or doubled space *)
Fixpoint tight (l : bytes) (prev : bool) : bool :=
  match l with
  | [] => negb prev
  | b :: t => if Byte.eqb b sp then negb prev && tight t true else tight t false
  end.

Lemma nodbl_collapse (l : bytes) : forall r, nodbl (collapse_ws l r) r = true.
Proof.
  induction l as [|b t IH]; intro r; [reflexivity|]. cbn [collapse_ws].
  destruct (is_frame_ws b) eqn:E.
  - destruct r; [apply IH|]. cbn [nodbl]. rewrite sp_fws.
    change (Byte.eqb sp sp) with true. cbn [negb andb]. apply IH.
  - cbn [nodbl]. rewrite E. apply IH.
Qed.

Lemma nodbl_weaken (l : bytes) : nodbl l true = true -> nodbl l false = true.
Proof.
  destruct l as [|b t]; [reflexivity|]. cbn [nodbl]. destruct (is_frame_ws b); [|auto].
  rewrite andb_false_r. discriminate.
Qed.

Lemma nodbl_suffix (pre l : bytes) : forall p, nodbl (pre ++ l) p = true -> nodbl l false = true.
Proof.
  induction pre as [|b t IH]; intros p H.
  - cbn [app] in H. destruct p; [apply nodbl_weaken|]; exact H.
  - cbn [app nodbl] in H. destruct (is_frame_ws b).
    + apply andb_true_iff in H as [_ H]. exact (IH _ H).
    + exact (IH _ H).
Qed.

Lemma nodbl_prefix (l post : bytes) : forall p, nodbl (l ++ post) p = true -> nodbl l p = true.
Proof.
  induction l as [|b t IH]; intros p H; [reflexivity|].
  cbn [app nodbl] in H |- *. destruct (is_frame_ws b).
  - apply andb_true_iff in H as [H1 H]. rewrite H1. exact (IH _ H).
  - exact (IH _ H).
Qed.

Lemma nodbl_tight (l : bytes) : forall prev,
  nodbl l prev = true -> (prev = true -> l <> []) ->
  (forall l' z, l = l' ++ [z] -> Byte.eqb z sp = false) ->
  tight l prev = true.
Proof.
  induction l as [|b t IH]; intros prev H Hne Hlast.
  - destruct prev; [exfalso; apply Hne; reflexivity|reflexivity].
  - assert (Hlast' : forall l' z, t = l' ++ [z] -> Byte.eqb z sp = false).
    { intros l' z E. apply (Hlast (b :: l') z). rewrite E. reflexivity. }
    cbn [nodbl] in H. cbn [tight]. destruct (Byte.eqb b sp) eqn:Eb.
    + apply eqb_sp_eq in Eb. subst b. rewrite sp_fws in H.
      apply andb_true_iff in H as [H1 H2]. apply andb_true_iff in H1 as [_ H1].
      rewrite H1. cbn [andb]. apply IH; [exact H2| |exact Hlast'].
      intros _ ->. specialize (Hlast [] sp eq_refl). discriminate Hlast.
    + destruct (is_frame_ws b).
      * apply andb_true_iff in H as [H1 _]. apply andb_true_iff in H1 as [H1 _]. congruence.
      * apply IH; [exact H|discriminate|exact Hlast'].
Qed.

Lemma tight_words (l : bytes) : forall cur prev,
  tight l prev = true -> (prev = false -> cur <> []) ->
  Forall (fun w => w <> []) (split_sp l cur).
Proof.
  induction l as [|b t IH]; intros cur prev H Hc.
  - cbn [tight] in H. destruct prev; [discriminate H|]. cbn [split_sp].
    constructor; [|constructor]. intro E. apply (Hc eq_refl).
    rewrite <- (rev_involutive cur), E. reflexivity.
  - cbn [tight] in H. cbn [split_sp]. destruct (Byte.eqb b sp).
    + apply andb_true_iff in H as [H1 H2]. destruct prev; [discriminate H1|].
      constructor.
      * intro E. apply (Hc eq_refl). rewrite <- (rev_involutive cur), E. reflexivity.
      * apply (IH [] true H2). discriminate.
    + apply (IH (b :: cur) false H). discriminate.
Qed.

Lemma normalise_words_nonempty (m : bytes) :
  normalise m <> [] -> Forall (fun w => w <> []) (words (normalise m)).
Proof.
  intro Hne. unfold normalise in *.
  destruct (trim_space_spec (collapse_ws m false)) as (p & q & E & Hp & Hq & Ht).
  set (s := trim_space (collapse_ws m false)) in *.
  pose proof (nodbl_collapse m false) as Hn. rewrite E in Hn.
  apply nodbl_suffix in Hn. apply nodbl_prefix in Hn.
  destruct Ht as [Ht|[(a & t & Ea & Ha) (t' & z & Ez & Hz)]]; [congruence|].
  unfold words. apply (tight_words s [] true); [|discriminate].
  assert (Hfa : is_frame_ws a = false).
  { rewrite Ea in Hn. cbn [nodbl] in Hn. destruct (is_frame_ws a) eqn:Efa; [|reflexivity].
    apply andb_true_iff in Hn as [H1 _]. apply andb_true_iff in H1 as [H1 _].
    apply eqb_sp_eq in H1. subst a. discriminate Ha. }
  assert (Hsa : Byte.eqb a sp = false).
  { destruct (Byte.eqb a sp) eqn:Esa; [|reflexivity]. apply eqb_sp_eq in Esa. subst a.
    discriminate Ha. }
  rewrite Ea. cbn [tight]. rewrite Hsa.
  rewrite Ea in Hn. cbn [nodbl] in Hn. rewrite Hfa in Hn.
  apply nodbl_tight; [exact Hn|discriminate|].
  intros l' z' El. assert (Ez' : z' = z).
  { assert (E2 : s = (a :: l') ++ [z']) by (rewrite Ea, El; reflexivity).
    rewrite Ez in E2. apply app_inj_tail in E2. symmetry. exact (proj2 E2). }
  subst z'. destruct (Byte.eqb z sp) eqn:Ezs; [|reflexivity].
  apply eqb_sp_eq in Ezs. subst z. discriminate Hz.
Qed.

(* ===== auxiliary: canonical word lists ===== *)

Definition aword (w : bytes) : Prop := w <> [] /\ forallb is_alnum w = true.

Lemma collapse_alnum_app (w x : bytes) : forallb is_alnum w = true -> w <> [] ->
  forall r, collapse_ws (w ++ x) r = w ++ collapse_ws x false.
Proof.
  induction w as [|b t IH]; intros H Hne r; [congruence|].
  cbn [forallb] in H. apply andb_true_iff in H as [H1 H2].
  cbn [app collapse_ws]. rewrite (alnum_not_fws b H1). f_equal.
  destruct t as [|b2 t2]; [reflexivity|]. apply IH; [exact H2|discriminate].
Qed.

Lemma collapse_join (ws : list bytes) : Forall aword ws ->
  forall r, collapse_ws (join_sp ws) r = join_sp ws.
Proof.
  induction ws as [|w t IH]; intros HF r; [reflexivity|].
  inversion HF as [|? ? [Hne Hw] Ht]; subst. destruct t as [|w2 t'].
  - cbn [join_sp]. rewrite <- (app_nil_r w) at 1.
    rewrite collapse_alnum_app by assumption. cbn [collapse_ws]. apply app_nil_r.
  - rewrite join_sp_cons by discriminate. rewrite collapse_alnum_app by assumption.
    cbn [collapse_ws]. rewrite sp_fws. rewrite (IH Ht true). reflexivity.
Qed.

Lemma join_first (ws : list bytes) : ws <> [] -> Forall aword ws ->
  exists a t, join_sp ws = a :: t /\ is_alnum a = true.
Proof.
  intros Hne HF. destruct ws as [|w t]; [congruence|].
  inversion HF as [|? ? [Hw Ha] Ht]; subst. destruct w as [|a w']; [congruence|].
  cbn [forallb] in Ha. apply andb_true_iff in Ha as [Ha _].
  destruct t; [exists a, w'|eexists a, _]; cbn [join_sp app]; split; try reflexivity; exact Ha.
Qed.

Lemma join_last (ws : list bytes) : ws <> [] -> Forall aword ws ->
  exists t z, join_sp ws = t ++ [z] /\ is_alnum z = true.
Proof.
  induction ws as [|w t IH]; intros Hne HF; [congruence|].
  inversion HF as [|? ? [Hw Ha] Ht]; subst. destruct t as [|w2 t'].
  - cbn [join_sp]. destruct (exists_last Hw) as (w' & z & ->).
    rewrite forallb_app in Ha. apply andb_true_iff in Ha as [_ Ha]. cbn [forallb] in Ha.
    apply andb_true_iff in Ha as [Ha _]. exists w', z. auto.
  - destruct (IH ltac:(discriminate) Ht) as (m & z & E & Hz).
    rewrite join_sp_cons by discriminate. rewrite E.
    exists (w ++ sp :: m), z. split; [|exact Hz]. rewrite <- app_assoc. reflexivity.
Qed.

Lemma join_trimmed (ws : list bytes) : Forall aword ws -> trimmed (join_sp ws).
Proof.
  intro HF. destruct ws as [|w t]; [left; reflexivity|]. right. split.
  - destruct (join_first (w :: t) ltac:(discriminate) HF) as (a & r & E & Ha).
    exists a, r. split; [exact E|apply alnum_not_tws; exact Ha].
  - destruct (join_last (w :: t) ltac:(discriminate) HF) as (r & z & E & Hz).
    exists r, z. split; [exact E|apply alnum_not_tws; exact Hz].
Qed.

Lemma normalise_join (ws : list bytes) : Forall aword ws -> normalise (join_sp ws) = join_sp ws.
Proof.
  intro HF. unfold normalise. rewrite collapse_join by exact HF.
  apply trim_space_trimmed. apply join_trimmed. exact HF.
Qed.

Lemma aword_nosp (ws : list bytes) : Forall aword ws -> Forall nosp ws.
Proof. intro H. eapply Forall_impl; [|exact H]. intros w [_ Hw]. apply alnum_nosp. exact Hw. Qed.

Lemma join_valid (ws : list bytes) : Forall aword ws -> forallb valid_armor_byte (join_sp ws) = true.
Proof.
  induction ws as [|w t IH]; intro HF; [reflexivity|].
  inversion HF as [|? ? [_ Hw] Ht]; subst.
  pose proof (forallb_imp _ _ w alnum_valid Hw) as Vw. destruct t as [|w2 t'].
  - exact Vw.
  - rewrite join_sp_cons by discriminate. rewrite forallb_app, Vw. cbn [forallb andb].
    change (valid_armor_byte sp) with true. apply IH. exact Ht.
Qed.

Lemma join_length (ws : list bytes) :
  (length (join_sp ws) <= list_sum (map (fun w => S (length w)) ws))%nat.
Proof.
  induction ws as [|w t IH]; [apply Nat.le_refl|]. destruct t as [|w2 t'].
  - cbn [join_sp map list_sum fold_right]. lia.
  - rewrite join_sp_cons by discriminate. rewrite app_length.
    cbn [length map list_sum fold_right] in *. lia.
Qed.

(* ===== frames ===== *)

Definition parse_words (v : list bytes) (sffx marker : bytes) : result bytes :=
  let n := length v in
  if negb (Nat.eqb n 4 || Nat.eqb n 5) then Err ErrBadFrame
  else if negb (bytes_eqb (nth 0 v []) marker) then Err ErrBadFrame
  else if negb (bytes_eqb (join_sp [nth (n - 2) v []; nth (n - 1) v []]) sffx) then Err ErrBadFrame
  else if negb (bytes_eqb (nth (n - 3) v []) format_upper) then Err ErrBadFrame
  else if Nat.eqb n 5 then
    let brand := nth 1 v [] in
    if max_brand_length <? len brand then Err ErrBadFrame else Ok brand
  else Ok [].

Lemma parse_frame_eq (m : bytes) (typ : Z) (marker : bytes) :
  type_string typ <> [] ->
  parse_frame m typ marker =
    if max_frame_length <? len m then Err ErrBadFrame
    else parse_words (words (normalise m)) (type_string typ) marker.
Proof.
  intro H. unfold parse_frame, parse_words. destruct (type_string typ); [congruence|reflexivity].
Qed.

Lemma parse_frame_nil (m : bytes) (typ : Z) (marker : bytes) :
  type_string typ = [] -> parse_frame m typ marker = Err ErrBadFrame.
Proof.
  intro H. unfold parse_frame. rewrite H. destruct (max_frame_length <? len m); reflexivity.
Qed.

Lemma type_string_armorable (typ : Z) : type_string typ <> [] -> armorable typ.
Proof.
  unfold type_string, armorable.
  destruct (Z.eqb_spec typ mt_encryption); [auto|].
  destruct (Z.eqb_spec typ mt_attached); [auto|].
  destruct (Z.eqb_spec typ mt_detached); [auto|congruence].
Qed.

Lemma type_string_split (typ : Z) : armorable typ ->
  exists a b, type_string typ = a ++ sp :: b /\ aword a /\ aword b /\
              (length (type_string typ) <= 18)%nat.
Proof.
  intros [->|[->| ->]].
  - exists (firstn 9 c_saltpack_EncryptionArmorString), (skipn 10 c_saltpack_EncryptionArmorString).
    split; [reflexivity|]. repeat split; try discriminate; try reflexivity; try (vm_compute; lia).
  - exists (firstn 6 c_saltpack_SignedArmorString), (skipn 7 c_saltpack_SignedArmorString).
    split; [reflexivity|]. repeat split; try discriminate; try reflexivity; try (vm_compute; lia).
  - exists (firstn 8 c_saltpack_DetachedSignatureArmorString),
           (skipn 9 c_saltpack_DetachedSignatureArmorString).
    split; [reflexivity|]. repeat split; try discriminate; try reflexivity; try (vm_compute; lia).
Qed.

Lemma type_string_nonnil (typ : Z) : armorable typ -> type_string typ <> [].
Proof. intros [->|[->| ->]]; discriminate. Qed.

Lemma marker_aword (marker : bytes) : marker_ok marker -> aword marker /\ (length marker <= 5)%nat.
Proof. intros [->| ->]; (split; [split; [discriminate|reflexivity]|vm_compute; lia]). Qed.

Lemma format_upper_aword : aword format_upper /\ length format_upper = 8%nat.
Proof. split; [split; [discriminate|reflexivity]|reflexivity]. Qed.

Definition brand_words (brand : bytes) : list bytes := match brand with [] => [] | _ => [brand] end.

Lemma make_frame_eq (marker : bytes) (typ : Z) (brand : bytes) : armorable typ ->
  make_frame marker typ brand = join_sp ([marker] ++ brand_words brand ++ [format_upper; type_string typ]).
Proof. intros [->|[->| ->]]; reflexivity. Qed.

Lemma brand_words_aword (brand : bytes) : brand_ok brand -> Forall aword (brand_words brand).
Proof.
  intros [H _]. destruct brand as [|b t]; [constructor|].
  constructor; [split; [discriminate|exact H]|constructor].
Qed.

(* the canonical frame as a list of non-empty alphanumeric words *)
Lemma make_frame_canon (marker : bytes) (typ : Z) (brand : bytes) :
  marker_ok marker -> armorable typ -> brand_ok brand ->
  exists a b,
    type_string typ = a ++ sp :: b /\
    make_frame marker typ brand = join_sp ([marker] ++ brand_words brand ++ [format_upper; a; b]) /\
    Forall aword ([marker] ++ brand_words brand ++ [format_upper; a; b]).
Proof.
  intros Hm Ht Hb. destruct (type_string_split typ Ht) as (a & b & E & Ha & Hbw & _).
  exists a, b. split; [exact E|]. split.
  - rewrite make_frame_eq by exact Ht. rewrite E.
    change ([marker] ++ brand_words brand ++ [format_upper; a ++ sp :: b])
      with ([marker] ++ brand_words brand ++ [format_upper] ++ [a ++ sp :: b]).
    change ([marker] ++ brand_words brand ++ [format_upper; a; b])
      with ([marker] ++ brand_words brand ++ [format_upper] ++ [a; b]).
    rewrite !app_assoc. apply join_sp_split_last.
  - apply Forall_app. split; [constructor; [exact (proj1 (marker_aword marker Hm))|constructor]|].
    apply Forall_app. split; [apply brand_words_aword; exact Hb|].
    constructor; [exact (proj1 format_upper_aword)|].
    constructor; [exact Ha|]. constructor; [exact Hbw|constructor].
Qed.

Lemma make_frame_normal (marker : bytes) (typ : Z) (brand : bytes) :
  marker_ok marker -> armorable typ -> brand_ok brand ->
  normalise (make_frame marker typ brand) = make_frame marker typ brand.
Proof.
  intros Hm Ht Hb. destruct (make_frame_canon marker typ brand Hm Ht Hb) as (a & b & _ & E & HF).
  rewrite E. apply normalise_join. exact HF.
Qed.

Lemma make_frame_trimmed (marker : bytes) (typ : Z) (brand : bytes) :
  marker_ok marker -> armorable typ -> brand_ok brand ->
  trim_space (make_frame marker typ brand) = make_frame marker typ brand.
Proof.
  intros Hm Ht Hb. destruct (make_frame_canon marker typ brand Hm Ht Hb) as (a & b & _ & E & HF).
  rewrite E. apply trim_space_trimmed. apply join_trimmed. exact HF.
Qed.

Lemma make_frame_valid (marker : bytes) (typ : Z) (brand : bytes) :
  marker_ok marker -> armorable typ -> brand_ok brand ->
  forallb valid_armor_byte (make_frame marker typ brand) = true.
Proof.
  intros Hm Ht Hb. destruct (make_frame_canon marker typ brand Hm Ht Hb) as (a & b & _ & E & HF).
  rewrite E. apply join_valid. exact HF.
Qed.

Lemma make_frame_len (marker : bytes) (typ : Z) (brand : bytes) :
  marker_ok marker -> armorable typ -> brand_ok brand ->
  len (make_frame marker typ brand) <= 163.
Proof.
  intros Hm Ht [_ Hb]. rewrite make_frame_eq by exact Ht.
  pose proof (join_length ([marker] ++ brand_words brand ++ [format_upper; type_string typ])) as H.
  destruct (type_string_split typ Ht) as (_ & _ & _ & _ & _ & Hl).
  pose proof (proj2 (marker_aword marker Hm)) as Hml.
  pose proof (proj2 format_upper_aword) as Hfl.
  unfold len in *.
  destruct brand as [|b0 bt]; cbn [brand_words app map list_sum fold_right] in H |- *;
    rewrite Hfl in H; cbn [length] in *; lia.
Qed.

(* completeness on word lists *)
Lemma parse_words_canon (marker brand a b : bytes) :
  len brand <= 128 ->
  parse_words ([marker] ++ brand_words brand ++ [format_upper; a; b]) (a ++ sp :: b) marker = Ok brand.
Proof.
  intro Hb. assert (Hb' : (max_brand_length <? len brand) = false).
  { change max_brand_length with 128. apply N.ltb_ge. exact Hb. }
  destruct brand as [|b0 bt]; unfold parse_words;
    cbn [brand_words app length Nat.eqb orb negb nth Nat.sub join_sp];
    rewrite !ar_bytes_eqb_refl; cbn [negb]; [reflexivity|].
  rewrite Hb'. reflexivity.
Qed.

(* (TARGET) completeness: any sentence that normalises to the canonical frame and is not too long is accepted *)
Lemma parse_frame_complete (m : bytes) (typ : Z) (marker brand : bytes) :
  marker_ok marker -> armorable typ -> brand_ok brand -> len m <= 512 ->
  normalise m = make_frame marker typ brand ->
  parse_frame m typ marker = Ok brand.
Proof.
  intros Hm Ht Hb Hl Hn.
  rewrite parse_frame_eq by (apply type_string_nonnil; exact Ht).
  assert (Hl' : (max_frame_length <? len m) = false).
  { change max_frame_length with 512. apply N.ltb_ge. exact Hl. }
  rewrite Hl', Hn.
  destruct (make_frame_canon marker typ brand Hm Ht Hb) as (a & b & Ets & E & HF).
  rewrite E, Ets. rewrite words_join_sp; [|discriminate|apply aword_nosp; exact HF].
  apply parse_words_canon. exact (proj2 Hb).
Qed.

(* (TARGET) what MakeArmorHeader/Footer produce parses back to the brand *)
Lemma make_frame_parses (marker : bytes) (typ : Z) (brand : bytes) :
  marker_ok marker -> armorable typ -> brand_ok brand ->
  parse_frame (make_frame marker typ brand) typ marker = Ok brand.
Proof.
  intros Hm Ht Hb. apply parse_frame_complete; try assumption.
  - pose proof (make_frame_len marker typ brand Hm Ht Hb). lia.
  - apply make_frame_normal; assumption.
Qed.

(* soundness on word lists *)
Lemma parse_words_sound (v : list bytes) (sffx marker brand : bytes) :
  Forall (fun w => w <> []) v ->
  parse_words v sffx marker = Ok brand ->
  join_sp v = join_sp ([marker] ++ brand_words brand ++ [format_upper; sffx]) /\ len brand <= 128.
Proof.
  intros HF H. unfold parse_words in H.
  destruct v as [|w0 [|w1 [|w2 [|w3 [|w4 [|w5 v']]]]]];
    cbn [length Nat.eqb orb negb] in H; try discriminate H.
  - (* four words *)
    cbn [nth Nat.sub] in H.
    destruct (bytes_eqb w0 marker) eqn:E0; cbn [negb] in H; [|discriminate H].
    destruct (bytes_eqb (join_sp [w2; w3]) sffx) eqn:E1; cbn [negb] in H; [|discriminate H].
    destruct (bytes_eqb w1 format_upper) eqn:E2; cbn [negb] in H; [|discriminate H].
    injection H as <-. apply ar_bytes_eqb_true in E0, E1, E2. subst.
    split; [|vm_compute; discriminate]. cbn [brand_words app].
    change [marker; format_upper; w2; w3] with ([marker; format_upper] ++ [w2; w3]).
    rewrite <- join_sp_split_last. reflexivity.
  - (* five words *)
    cbn [nth Nat.sub] in H.
    destruct (bytes_eqb w0 marker) eqn:E0; cbn [negb] in H; [|discriminate H].
    destruct (bytes_eqb (join_sp [w3; w4]) sffx) eqn:E1; cbn [negb] in H; [|discriminate H].
    destruct (bytes_eqb w2 format_upper) eqn:E2; cbn [negb] in H; [|discriminate H].
    destruct (max_brand_length <? len w1) eqn:E3; [discriminate H|].
    injection H as <-. apply ar_bytes_eqb_true in E0, E1, E2. subst.
    split; [|apply N.ltb_ge in E3; exact E3].
    assert (Hw1 : w1 <> []).
    { inversion HF as [|? ? _ HF1]; subst. inversion HF1; subst. assumption. }
    destruct w1 as [|c1 t1]; [congruence|]. cbn [brand_words app].
    change [marker; c1 :: t1; format_upper; w3; w4] with ([marker; c1 :: t1; format_upper] ++ [w3; w4]).
    rewrite <- join_sp_split_last. reflexivity.
Qed.

(* (TARGET) soundness of the frame parser: an accepted sentence is, up to runs of
   [>\n\r\t ] and surrounding white space, exactly the canonical frame for the
   expected marker and type, it is at most 512 bytes long and its brand at most 128 *)
Lemma parse_frame_sound (m : bytes) (typ : Z) (marker brand : bytes) :
  marker_ok marker ->
  parse_frame m typ marker = Ok brand ->
  armorable typ /\ normalise m = make_frame marker typ brand /\ len m <= 512 /\ len brand <= 128.
Proof.
  intros _ H.
  assert (Hts : type_string typ <> []).
  { intro E. rewrite (parse_frame_nil m typ marker E) in H. discriminate H. }
  pose proof (type_string_armorable typ Hts) as Ht. split; [exact Ht|].
  rewrite parse_frame_eq in H by exact Hts.
  destruct (max_frame_length <? len m) eqn:El; [discriminate H|].
  apply N.ltb_ge in El. change max_frame_length with 512 in El.
  assert (Hne : normalise m <> []).
  { intro E. rewrite E in H. discriminate H. }
  destruct (parse_words_sound _ _ _ _ (normalise_words_nonempty m Hne) H) as [E Hb].
  rewrite join_words in E. rewrite make_frame_eq by exact Ht. auto.
Qed.

(* (TARGET) the footer must mirror the header's brand and type *)
Lemma check_armor62_sound (hdr ftr : bytes) (typ : Z) (brand : bytes) :
  check_armor62 hdr ftr typ = Ok brand ->
  parse_frame hdr typ header_marker = Ok brand /\ parse_frame ftr typ footer_marker = Ok brand.
Proof.
  unfold check_armor62. intro H.
  destruct (parse_frame hdr typ header_marker) as [b1|] eqn:E1; [|discriminate H].
  destruct (parse_frame ftr typ footer_marker) as [b2|] eqn:E2; [|discriminate H].
  cbn [bind] in H. destruct (bytes_eqb b1 b2) eqn:E; [|discriminate H].
  injection H as <-. apply ar_bytes_eqb_true in E. subst b2. auto.
Qed.

Lemma check_armor62_complete (hdr ftr : bytes) (typ : Z) (brand : bytes) :
  parse_frame hdr typ header_marker = Ok brand -> parse_frame ftr typ footer_marker = Ok brand ->
  check_armor62 hdr ftr typ = Ok brand.
Proof.
  intros H1 H2. unfold check_armor62. rewrite H1, H2. cbn [bind].
  rewrite ar_bytes_eqb_refl. reflexivity.
Qed.

(* ---- body shape ---- *)

(* scanner for "words of at most 15 base-62 characters, at most 200 words per line,
   single separators": wl = length of the current word, wc = complete words on this line *)
Fixpoint shape_scan (l : bytes) (wl wc : nat) : bool :=
  match l with
  | [] => true
  | b :: t =>
    if is_alnum b then Nat.ltb wl 15 && Nat.ltb wc 200 && shape_scan t (S wl) wc
    else if Byte.eqb b sp then Nat.ltb 0 wl && shape_scan t 0 (S wc)
    else if Byte.eqb b x0a then Nat.ltb 0 wl && shape_scan t 0 0
    else false
  end.

(* ===== the base-62 encoding satisfies the hypotheses of BaseXProofs ===== *)

Fixpoint nodupb (l : bytes) : bool :=
  match l with
  | [] => true
  | b :: t => negb (existsb (Byte.eqb b) t) && nodupb t
  end.

Lemma nodupb_sound (l : bytes) : nodupb l = true -> NoDup l.
Proof.
  induction l as [|b t IH]; intro H; [constructor|].
  cbn [nodupb] in H. apply andb_true_iff in H as [H1 H2]. constructor; [|apply IH; exact H2].
  intro Hin. apply negb_true_iff in H1.
  assert (E : existsb (Byte.eqb b) t = true).
  { apply existsb_exists. exists b. split; [exact Hin|apply Byte.byte_dec_lb; reflexivity]. }
  congruence.
Qed.

Lemma b62_lo : 2 <= base base62. Proof. vm_compute. discriminate. Qed.
Lemma b62_hi : base base62 <= 256. Proof. vm_compute. discriminate. Qed.
Lemma b62_nodup : NoDup (enc_alphabet base62). Proof. apply nodupb_sound. vm_compute. reflexivity. Qed.
Lemma b62_ibl : 0 < enc_ibl base62. Proof. reflexivity. Qed.

Lemma b62_decode_encode (src : bytes) : BaseX.decode base62 (BaseX.encode base62 src) = (src, None).
Proof. exact (decode_encode base62 b62_lo b62_hi b62_nodup b62_ibl src). Qed.

Lemma b62_alphabet_alnum : forallb is_alnum (enc_alphabet base62) = true.
Proof. vm_compute. reflexivity. Qed.

Lemma encode_block_alnum (blk : bytes) : forallb is_alnum (encode_block base62 blk) = true.
Proof.
  unfold encode_block. apply forallb_forall. intros x Hx.
  apply in_map_iff in Hx as (d & <- & Hd).
  pose proof (to_digits_bound base62 b62_lo b62_hi b62_nodup b62_ibl
                (N.to_nat (min_chars base62 (len blk))) (be_val blk)) as HF.
  pose proof (proj1 (Forall_forall _ _) HF d Hd) as Hlt. cbv beta in Hlt.
  change (base base62) with 62 in Hlt.
  apply (proj1 (forallb_forall _ _) b62_alphabet_alnum).
  unfold char_of. apply nth_In. change (length (enc_alphabet base62)) with 62%nat. lia.
Qed.

Lemma encode_fuel_alnum : forall fuel src, forallb is_alnum (encode_fuel base62 fuel src) = true.
Proof.
  induction fuel as [|f IH]; intro src; cbn [encode_fuel]; [reflexivity|].
  destruct src as [|b t]; [reflexivity|].
  destruct (split_at (N.to_nat (ibl base62)) (b :: t)) as [blk rest].
  rewrite forallb_app, encode_block_alnum, IH. reflexivity.
Qed.

Lemma encode_alnum (payload : bytes) : forallb is_alnum (BaseX.encode base62 payload) = true.
Proof. apply encode_fuel_alnum. Qed.

(* ===== body shape ===== *)

Definition sepk (k : N) : byte := if (k mod 200) =? 0 then x0a else sp.

Lemma space_words_S (f : nat) (chars : bytes) (k : N) :
  space_words (S f) chars k =
    if Nat.ltb 15 (length chars)
    then firstn 15 chars ++ sepk (k + 1) :: space_words f (skipn 15 chars) (k + 1)
    else chars ++ (if Nat.eqb (length chars) 15 then [sepk (k + 1)] else []).
Proof.
  cbn [space_words]. change bytes_per_word with 15%nat. rewrite split_at_eq. reflexivity.
Qed.

Lemma mod_succ (k : N) : (k + 1) mod 200 = 0 \/ (k + 1) mod 200 = k mod 200 + 1.
Proof.
  pose proof (N.div_mod k 200 ltac:(discriminate)) as H1.
  pose proof (N.mod_lt k 200 ltac:(discriminate)) as H2.
  destruct (N.eq_dec (k mod 200) 199) as [E|E].
  - left. symmetry. apply (N.mod_unique _ _ (k / 200 + 1)); lia.
  - right. symmetry. apply (N.mod_unique _ _ (k / 200)); lia.
Qed.

Lemma shape_alnum_run (w rest : bytes) (wc : nat) : forall wl,
  forallb is_alnum w = true -> (wl + length w <= 15)%nat -> (wc < 200)%nat ->
  shape_scan (w ++ rest) wl wc = shape_scan rest (wl + length w) wc.
Proof.
  induction w as [|b t IH]; intros wl H Hl Hc.
  - cbn [app length]. rewrite Nat.add_0_r. reflexivity.
  - cbn [forallb] in H. apply andb_true_iff in H as [H1 H2]. cbn [length] in Hl.
    cbn [app shape_scan]. rewrite H1.
    assert (E1 : Nat.ltb wl 15 = true) by (apply Nat.ltb_lt; lia).
    assert (E2 : Nat.ltb wc 200 = true) by (apply Nat.ltb_lt; lia).
    rewrite E1, E2. cbn [andb]. rewrite IH by (try assumption; lia).
    cbn [length]. rewrite Nat.add_succ_r. reflexivity.
Qed.

Lemma shape_sep (rest : bytes) (wl : nat) (k : N) : (0 < wl)%nat ->
  shape_scan (sepk (k + 1) :: rest) wl (N.to_nat (k mod 200)) =
  shape_scan rest 0 (N.to_nat ((k + 1) mod 200)).
Proof.
  intro Hwl. assert (E0 : Nat.ltb 0 wl = true) by (apply Nat.ltb_lt; exact Hwl).
  unfold sepk. destruct ((k + 1) mod 200 =? 0) eqn:E.
  - apply N.eqb_eq in E. rewrite E. cbn [shape_scan].
    change (is_alnum x0a) with false. change (Byte.eqb x0a sp) with false.
    change (Byte.eqb x0a x0a) with true. cbn iota. rewrite E0. reflexivity.
  - apply N.eqb_neq in E. destruct (mod_succ k) as [E1|E1]; [congruence|].
    cbn [shape_scan]. change (is_alnum sp) with false. change (Byte.eqb sp sp) with true.
    cbn iota. rewrite E0. cbn [andb]. f_equal. rewrite E1. lia.
Qed.

Lemma alnum_firstn_skipn (n : nat) (l : bytes) : forallb is_alnum l = true ->
  forallb is_alnum (firstn n l) = true /\ forallb is_alnum (skipn n l) = true.
Proof.
  intro H. rewrite <- (firstn_skipn n l) in H. rewrite forallb_app in H.
  apply andb_true_iff in H. exact H.
Qed.

Lemma space_words_shape : forall fuel chars k,
  forallb is_alnum chars = true -> (length chars < fuel)%nat ->
  shape_scan (space_words fuel chars k) 0 (N.to_nat (k mod 200)) = true.
Proof.
  induction fuel as [|f IH]; intros chars k Ha Hl; [lia|].
  pose proof (N.mod_lt k 200 ltac:(discriminate)) as Hk.
  rewrite space_words_S. destruct (Nat.ltb 15 (length chars)) eqn:E.
  - apply Nat.ltb_lt in E. destruct (alnum_firstn_skipn 15 chars Ha) as [Ha1 Ha2].
    assert (Hfl : length (firstn 15 chars) = 15%nat) by (apply firstn_length_le; lia).
    rewrite shape_alnum_run; [|exact Ha1|rewrite Hfl; cbn; lia|lia].
    rewrite Hfl. change (0 + 15)%nat with 15%nat. rewrite shape_sep by lia.
    apply IH; [exact Ha2|]. rewrite skipn_length. lia.
  - apply Nat.ltb_ge in E. rewrite shape_alnum_run; [|exact Ha|cbn; lia|lia].
    cbn [Nat.add]. destruct (Nat.eqb (length chars) 15) eqn:E2; [|reflexivity].
    apply Nat.eqb_eq in E2. rewrite E2. rewrite shape_sep by lia. reflexivity.
Qed.

(* (TARGET) the armored body of every payload has the specified shape *)
Lemma armor_body_shape (payload : bytes) :
  let chars := BaseX.encode base62 payload in
  shape_scan (space_words (S (length chars)) chars 0) 0 0 = true.
Proof.
  intro chars. apply (space_words_shape (S (length chars)) chars 0); [apply encode_alnum|lia].
Qed.

(* ===== body digits ===== *)

Lemma body_digits_app (a b : bytes) : body_digits (a ++ b) = body_digits a ++ body_digits b.
Proof. apply filter_app. Qed.

Lemma body_digits_alnum (w : bytes) : forallb is_alnum w = true -> body_digits w = w.
Proof.
  induction w as [|b t IH]; intro H; [reflexivity|].
  cbn [forallb] in H. apply andb_true_iff in H as [H1 H2].
  unfold body_digits in *. cbn [filter].
  change (match digit_of base62 b with Some _ => true | None => false end) with (is_dig base62 b).
  rewrite (alnum_is_dig b H1), (IH H2). reflexivity.
Qed.

Lemma body_digits_sepk (k : N) (l : bytes) : body_digits (sepk k :: l) = body_digits l.
Proof. unfold sepk. destruct (k mod 200 =? 0); reflexivity. Qed.

Lemma space_words_digits : forall fuel chars k,
  forallb is_alnum chars = true -> (length chars < fuel)%nat ->
  body_digits (space_words fuel chars k) = chars.
Proof.
  induction fuel as [|f IH]; intros chars k Ha Hl; [lia|].
  rewrite space_words_S. destruct (Nat.ltb 15 (length chars)) eqn:E.
  - apply Nat.ltb_lt in E. destruct (alnum_firstn_skipn 15 chars Ha) as [Ha1 Ha2].
    rewrite body_digits_app, body_digits_sepk, (body_digits_alnum _ Ha1).
    rewrite IH; [apply firstn_skipn|exact Ha2|]. rewrite skipn_length. lia.
  - rewrite body_digits_app, (body_digits_alnum _ Ha).
    destruct (Nat.eqb (length chars) 15); [rewrite body_digits_sepk|]; apply app_nil_r.
Qed.

(* (TARGET) the separators are exactly removable: the digits of the spaced body are the encoding *)
Lemma armor_body_digits (payload : bytes) :
  let chars := BaseX.encode base62 payload in
  body_digits (space_words (S (length chars)) chars 0) = chars.
Proof.
  intro chars. apply space_words_digits; [apply encode_alnum|lia].
Qed.

(* ---- round trip, also after arbitrary re-flowing ---- *)

(* s' is s with extra characters of the class [>\n\r\t ] inserted anywhere *)
Inductive ws_ins : bytes -> bytes -> Prop :=
| wi_nil : ws_ins [] []
| wi_keep (b : byte) (s s' : bytes) : ws_ins s s' -> ws_ins (b :: s) (b :: s')
| wi_add (w : byte) (s s' : bytes) : is_frame_ws w = true -> ws_ins s s' -> ws_ins s (w :: s').

(* a received frame sentence that is the canonical frame up to white-space runs *)
Definition frame_reflow (canonical received : bytes) : Prop :=
  normalise received = canonical /\ forallb valid_armor_byte received = true /\
  len (trim_space received) <= 512 /\ len received < 8192.

(* ===== auxiliary: sentences ===== *)

Lemma split_dot_acc_app (a r : bytes) : forallb valid_armor_byte a = true ->
  forall acc, split_dot_acc (a ++ dot :: r) acc = Some (rev acc ++ a, r).
Proof.
  induction a as [|b t IH]; intros H acc.
  - cbn [app split_dot_acc]. change (Byte.eqb dot dot) with true. cbn iota.
    rewrite rev_append_rev, !app_nil_r. reflexivity.
  - cbn [forallb] in H. apply andb_true_iff in H as [H1 H2].
    cbn [app split_dot_acc]. rewrite (valid_not_dot b H1). rewrite (IH H2).
    cbn [rev]. rewrite <- app_assoc. reflexivity.
Qed.

Lemma split_dot_app (a r : bytes) : forallb valid_armor_byte a = true ->
  split_dot (a ++ dot :: r) = Some (a, r).
Proof. intro H. unfold split_dot. rewrite split_dot_acc_app by exact H. reflexivity. Qed.

Lemma read_sentence_app (a r : bytes) : forallb valid_armor_byte a = true -> len a < 8192 ->
  read_sentence (a ++ dot :: r) = Ok (a, r).
Proof.
  intros H Hl. unfold read_sentence. rewrite split_dot_app by exact H.
  assert (E : (frame_read_limit <=? len a) = false).
  { change frame_read_limit with 8192. apply N.leb_gt. exact Hl. }
  rewrite E. reflexivity.
Qed.

Lemma to_ascii_valid (l : bytes) : forallb valid_armor_byte l = true -> to_ascii l = Ok (trim_space l).
Proof. intro H. unfold to_ascii. rewrite H. reflexivity. Qed.

Lemma shape_scan_valid (l : bytes) : forall wl wc,
  shape_scan l wl wc = true -> forallb valid_armor_byte l = true.
Proof.
  induction l as [|b t IH]; intros wl wc H; [reflexivity|].
  cbn [shape_scan] in H. cbn [forallb]. destruct (is_alnum b) eqn:Ea.
  - rewrite (alnum_valid b Ea). apply andb_true_iff in H as [_ H]. exact (IH _ _ H).
  - destruct (Byte.eqb b sp) eqn:Es.
    + apply Byte.byte_dec_bl in Es. subst b. apply andb_true_iff in H as [_ H].
      change (valid_armor_byte sp) with true. exact (IH _ _ H).
    + destruct (Byte.eqb b x0a) eqn:En; [|discriminate H].
      apply Byte.byte_dec_bl in En. subst b. apply andb_true_iff in H as [_ H].
      change (valid_armor_byte x0a) with true. exact (IH _ _ H).
Qed.

Lemma ws_ins_refl (s : bytes) : ws_ins s s.
Proof. induction s; constructor; assumption. Qed.

Lemma ws_ins_valid (s s' : bytes) : ws_ins s s' ->
  forallb valid_armor_byte s = true -> forallb valid_armor_byte s' = true.
Proof.
  induction 1 as [|b s s' _ IH|w s s' Hw _ IH]; intro H; [reflexivity| |].
  - cbn [forallb] in *. apply andb_true_iff in H as [H1 H2]. rewrite H1. exact (IH H2).
  - cbn [forallb]. rewrite (fws_valid w Hw). exact (IH H).
Qed.

Lemma ws_ins_digits (s s' : bytes) : ws_ins s s' -> body_digits s' = body_digits s.
Proof.
  induction 1 as [|b s s' _ IH|w s s' Hw _ IH]; [reflexivity| |].
  - unfold body_digits in *. cbn [filter]. rewrite IH. reflexivity.
  - unfold body_digits in *. cbn [filter].
    change (match digit_of base62 w with Some _ => true | None => false end) with (is_dig base62 w).
    rewrite (fws_not_dig w Hw). exact IH.
Qed.

Lemma frame_reflow_parses (marker : bytes) (typ : Z) (brand X : bytes) :
  marker_ok marker -> armorable typ -> brand_ok brand ->
  frame_reflow (make_frame marker typ brand) X ->
  parse_frame (trim_space X) typ marker = Ok brand.
Proof.
  intros Hm Ht Hb (Hn & Hv & Hl & _).
  apply parse_frame_complete; try assumption.
  rewrite normalise_trim_space by exact Hv. exact Hn.
Qed.

(* (TARGET) C11: for every payload, armorable type and alphanumeric brand of at most
   128 characters: dearmoring the armored text — also after arbitrary runs of
   space, tab, CR, LF or '>' are inserted between any two payload characters,
   between frame words or around the frame — returns the identical payload and
   brand, and the header and footer as received (identical to the canonical ones
   up to the inserted runs). *)
Lemma dearmor_reflow (payload : bytes) (typ : Z) (brand : bytes) (H' B' F' T' : bytes) :
  armorable typ -> brand_ok brand ->
  let chars := BaseX.encode base62 payload in
  frame_reflow (make_frame header_marker typ brand) H' ->
  ws_ins (space_words (S (length chars)) chars 0) B' ->
  frame_reflow (make_frame footer_marker typ brand) F' ->
  forallb is_frame_ws T' = true ->
  dearmor (Some typ) (H' ++ [dot] ++ B' ++ [dot] ++ F' ++ [dot] ++ T') =
  Ok (mkDearmored payload brand (trim_space H') (trim_space F')).
Proof.
  intros Ht Hb chars HH HB HF HT.
  pose proof (frame_reflow_parses header_marker typ brand H' (or_introl eq_refl) Ht Hb HH) as PH.
  pose proof (frame_reflow_parses footer_marker typ brand F' (or_intror eq_refl) Ht Hb HF) as PF.
  destruct HH as (_ & VH & _ & LH). destruct HF as (_ & VF & _ & LF).
  assert (VB : forallb valid_armor_byte B' = true).
  { apply (ws_ins_valid _ _ HB). apply (shape_scan_valid _ 0%nat 0%nat).
    exact (armor_body_shape payload). }
  assert (DB : body_digits B' = chars).
  { rewrite (ws_ins_digits _ _ HB). exact (armor_body_digits payload). }
  assert (VT : forallb valid_armor_byte T' = true).
  { exact (forallb_imp _ _ T' fws_valid HT). }
  change (H' ++ [dot] ++ B' ++ [dot] ++ F' ++ [dot] ++ T')
    with (H' ++ dot :: (B' ++ dot :: (F' ++ dot :: T'))).
  unfold dearmor.
  rewrite (read_sentence_app H' _ VH LH). cbn [bind].
  rewrite (to_ascii_valid H' VH). cbn [bind]. rewrite PH. cbn [bind].
  rewrite (split_dot_app B' _ VB). rewrite VB. cbn [negb].
  rewrite (read_sentence_app F' _ VF LF). cbn [bind].
  rewrite (to_ascii_valid F' VF). cbn [bind].
  rewrite (check_armor62_complete _ _ typ brand PH PF). cbn [bind].
  rewrite VT. cbn [negb]. rewrite DB. unfold chars. rewrite b62_decode_encode.
  reflexivity.
Qed.

(* (TARGET) in particular the library's own output round-trips exactly *)
Lemma dearmor_armor (payload : bytes) (typ : Z) (brand : bytes) :
  armorable typ -> brand_ok brand ->
  dearmor (Some typ) (armor62_seal payload typ brand) =
  Ok (mkDearmored payload brand (make_frame header_marker typ brand) (make_frame footer_marker typ brand)).
Proof.
  intros Ht Hb.
  assert (Hh : marker_ok header_marker) by (left; reflexivity).
  assert (Hf : marker_ok footer_marker) by (right; reflexivity).
  set (hdr := make_frame header_marker typ brand).
  set (ftr := make_frame footer_marker typ brand).
  set (chars := BaseX.encode base62 payload).
  set (body := space_words (S (length chars)) chars 0).
  pose proof (make_frame_len header_marker typ brand Hh Ht Hb) as Lh.
  pose proof (make_frame_len footer_marker typ brand Hf Ht Hb) as Lf.
  pose proof (make_frame_trimmed header_marker typ brand Hh Ht Hb) as Th.
  pose proof (make_frame_trimmed footer_marker typ brand Hf Ht Hb) as Tf.
  fold hdr in Lh, Th. fold ftr in Lf, Tf.
  assert (Rh : frame_reflow hdr hdr).
  { split; [apply make_frame_normal; assumption|].
    split; [apply make_frame_valid; assumption|]. rewrite Th. lia. }
  assert (Tf' : trim_space (sp :: ftr) = ftr) by (rewrite trim_space_sp; exact Tf).
  assert (Rf : frame_reflow ftr (sp :: ftr)).
  { split.
    - change (sp :: ftr) with ([sp] ++ ftr).
      rewrite (normalise_drop_front [sp] ftr eq_refl). apply make_frame_normal; assumption.
    - split.
      + cbn [forallb]. change (valid_armor_byte sp) with true. cbn [andb].
        apply make_frame_valid; assumption.
      + rewrite Tf'. rewrite len_cons. lia. }
  assert (Rb : ws_ins body (sp :: body)).
  { apply wi_add; [reflexivity|apply ws_ins_refl]. }
  pose proof (dearmor_reflow payload typ brand hdr (sp :: body) (sp :: ftr) [x0a]
                Ht Hb Rh Rb Rf eq_refl) as E.
  rewrite Th, Tf' in E. exact E.
Qed.

(* (TARGET) whatever text is accepted by the validating dearmor carries a well-formed,
   mirrored frame of the expected type *)
Lemma dearmor_sound (typ : Z) (input : bytes) (d : dearmored) :
  dearmor (Some typ) input = Ok d ->
  exists h r1 body r2 f r3,
    split_dot input = Some (h, r1) /\ split_dot r1 = Some (body, r2) /\ split_dot r2 = Some (f, r3) /\
    check_armor62 (trim_space h) (trim_space f) typ = Ok (da_brand d) /\
    da_header d = trim_space h /\ da_footer d = trim_space f /\
    BaseX.decode base62 (body_digits body) = (da_payload d, None).
Proof.
  intro H. unfold dearmor in H.
  assert (RS : forall l s r, read_sentence l = Ok (s, r) -> split_dot l = Some (s, r)).
  { intros l s r E. unfold read_sentence in E. destruct (split_dot l) as [[s' r']|].
    - destruct (frame_read_limit <=? len s'); [discriminate E|]. injection E as -> ->. reflexivity.
    - destruct (frame_read_limit <=? len l); discriminate E. }
  assert (TA : forall l s, to_ascii l = Ok s -> s = trim_space l).
  { intros l s E. unfold to_ascii in E. destruct (forallb valid_armor_byte l); [|discriminate E].
    injection E as <-. reflexivity. }
  destruct (read_sentence input) as [[h r1]|] eqn:E1; [|discriminate H]. cbn [bind] in H.
  destruct (to_ascii h) as [hstr|] eqn:E2; [|discriminate H]. cbn [bind] in H.
  destruct (parse_frame hstr typ header_marker) as [brand|] eqn:E3; [|discriminate H].
  cbn [bind] in H.
  destruct (split_dot r1) as [[body r2]|] eqn:E4;
    [|destruct (forallb valid_armor_byte r1); discriminate H].
  destruct (forallb valid_armor_byte body) eqn:E5; cbn [negb] in H; [|discriminate H].
  destruct (read_sentence r2) as [[f r3]|] eqn:E6; [|discriminate H]. cbn [bind] in H.
  destruct (to_ascii f) as [fstr|] eqn:E7; [|discriminate H]. cbn [bind] in H.
  destruct (check_armor62 hstr fstr typ) as [b'|] eqn:E8; [|discriminate H]. cbn [bind] in H.
  destruct (forallb valid_armor_byte r3) eqn:E9; cbn [negb] in H; [|discriminate H].
  destruct (BaseX.decode base62 (body_digits body)) as [pl [e|]] eqn:E10; [discriminate H|].
  injection H as <-. cbn [da_brand da_header da_footer da_payload].
  apply TA in E2, E7. subst hstr fstr.
  destruct (check_armor62_sound _ _ _ _ E8) as [P1 _]. rewrite E3 in P1. injection P1 as ->.
  exists h, r1, body, r2, f, r3. repeat split; auto.
Qed.
