(* AcceptEncProofs.v — C09: every message a spec-following sender can produce is accepted (encryption).
   The GENERAL specification encoders of coq/spec/Spec.v are run through the implementation
   model's receivers.  Statements marked (TARGET) are used verbatim by props/. *)
From Coq Require Import List NArith ZArith Bool Lia ZifyN ZifyNat ZifyBool.
From Coq.Strings Require Import Byte.
From SP Require Import Bytes Params Msgpack Crypto Errors Nonce Packets Chunker Rand Sign Verify Encrypt Decrypt Signcrypt Spec
     MsgpackProofs ChunkerProofs SignProofs EncryptProofs SigncryptProofs AcceptDefs.
Import ListNotations.
Open Scope N_scope.

Section Acc.
Variable c : crypto.
Hypothesis Hc : crypto_ok c.

(* ---- encryption ---- *)
Definition enc_params_ok (p : S_enc) : Prop :=
  (se_major p = 1 \/ se_major p = 2)%Z /\ (0 <= se_minor p <= 127)%Z /\
  length (se_pkey p) = 32%nat /\
  NoDup (map fst (se_rcpts p)) /\ se_rcpts p <> [] /\
  Forall (fun r => length (fst r) = 32%nat) (se_rcpts p) /\
  extras_ok (se_extra_hdr p) /\ extras_ok (se_extra_rcpt p) /\ extras_ok (se_extra_pkt p) /\
  len (mp_encode (S_enc_header_list c p)) < 4294967296 /\
  S_chunks_ok (se_major p) (se_chunks p) /\
  N.of_nat (length (se_chunks p)) < 18446744073709551614 /\
  (forall s, se_sender p = Some s -> dh_pub c s <> dh_pub c (se_eph p)).

(* another recipient's payload-key box of this message opens under this recipient's shared key *)
Definition S_foreign_box_opens (p : S_enc) (sk : bytes) : Prop :=
  exists j r, nth_error (se_rcpts p) j = Some r /\ fst r <> dh_pub c sk /\
    sb_open c (dh_shared c sk (dh_pub c (se_eph p))) (S_payload_key_nonce (se_major p) (N.of_nat j))
      (S_box c (se_eph p) (fst r) (S_payload_key_nonce (se_major p) (N.of_nat j)) (se_pkey p)) <> None.

(* ---------- generic facts ---------- *)

Lemma S_mapi_eq {A B} (f : N -> A -> B) (l : list A) : forall s, S_mapi f s l = mapi_from f s l.
Proof. induction l as [|x t IH]; intros s; cbn [S_mapi mapi_from]; [reflexivity|]. rewrite IH. reflexivity. Qed.

Lemma wf_all_Forall (l : list mval) : wf_all l <-> Forall wf l.
Proof.
  induction l as [|x t IH]; split; intro H.
  - constructor.
  - exact I.
  - apply wf_all_cons in H as [H1 H2]. constructor; [exact H1|apply IH; exact H2].
  - inversion H as [|? ? H1 H2]; subst. apply wf_all_cons. split; [exact H1|apply IH; exact H2].
Qed.

Lemma wf_arr_iff (l : list mval) : wf (MArr l) <-> (N.of_nat (length l) < 4294967296 /\ Forall wf l).
Proof. rewrite <- wf_all_Forall. apply wf_arr. Qed.

Lemma Forall_wf_map_bin (l : list bytes) : Forall (fun b => len b < 4294967296) l -> Forall wf (map MBin l).
Proof. intro H. apply wf_all_Forall. apply wf_all_map_bin. exact H. Qed.

Lemma enc_list_len (l : list mval) : (length l <= length (enc_list l))%nat.
Proof.
  induction l as [|x t IH]; cbn [enc_list length]; [lia|]. rewrite app_length.
  pose proof (mp_encode_len x). lia.
Qed.

Lemma last32 (k n : bytes) :
  skipn 16 (sb_seal c k n (zeros 32)) = firstn 32 (skipn 16 (sb_seal c k n (zeros 32))).
Proof.
  symmetry. apply firstn_all2. rewrite skipn_length, (ok_sb_len c Hc).
  unfold zeros. rewrite repeat_length. lia.
Qed.

(* ---------- the receiver's header processing for ANY version with major 1 or 2 ---------- *)

Section Ver.
Variable v : version.
Hypothesis Hvm : (vmaj v = 1 \/ vmaj v = 2)%Z.

Lemma vmaj_cases_g :
  ((vmaj v =? 1)%Z = true) \/ ((vmaj v =? 1)%Z = false /\ (vmaj v =? 2)%Z = true).
Proof. destruct Hvm as [E|E]; rewrite E; [left|right]; [|split]; reflexivity. Qed.

Lemma nonce_some_g (j : N) : nonce_payload_key_box v j = Some (nonce_of v j).
Proof.
  unfold nonce_of, nonce_payload_key_box.
  destruct vmaj_cases_g as [E|[E1 E2]]; [rewrite E|rewrite E1, E2]; reflexivity.
Qed.

Lemma validate_good_g (vd : validator) : good_validator_e vd v -> validate_version vd v = true.
Proof.
  intros [->| ->]; cbn [validate_version].
  - unfold known_versions. cbn [existsb]. destruct Hvm as [E|E]; rewrite E; reflexivity.
  - apply version_eqb_refl.
Qed.

Lemma validate_enc_ok_g (vd : validator) (a b : bytes) (rcvs : list (bytes * bytes)) :
  good_validator_e vd v ->
  validate_enc_header vd (mkHeader format_name v mt_encryption a b rcvs) = Ok tt.
Proof.
  intros Hvd. unfold validate_enc_header. cbn [h_format h_type h_version].
  rewrite bytes_eqb_refl, Z.eqb_refl, (validate_good_g vd Hvd). reflexivity.
Qed.

Lemma mac_key_agree_g (idx : N) (sk sender_sk eph_sk hh : bytes) :
  mac_key_receiver c v idx sk (dh_pub c sender_sk) (dh_pub c eph_sk) hh =
  Some (mac_key_sender c v idx sender_sk eph_sk (dh_pub c sk) hh).
Proof.
  unfold mac_key_receiver, mac_key_sender.
  destruct vmaj_cases_g as [E|[E1 E2]].
  - rewrite E. rewrite (mac_single_comm c Hc). reflexivity.
  - rewrite E1, E2. rewrite (mac_single_comm c Hc sk sender_sk), (mac_single_comm c Hc sk eph_sk). reflexivity.
Qed.

Section FixedG.
Variables (eph_sk pkey sk pk : bytes).
Hypothesis Hpkey : length pkey = 32%nat.
Hypothesis Hpk : pk = dh_pub c sk.

Local Notation sh := (shared c eph_sk pk).
Local Notation rcvf := (rcv_of c v eph_sk pkey).
Local Notation fbo := (foreign_box_opens_from c v eph_sk pkey pk).

Lemma thb_cons_g (r : rcpt) (t : list (bytes * bytes)) (s : N) :
  try_hidden_boxes c v sh (rcvf s r :: t) s =
  match (if snd r then [] else fst r) with
  | [] => match sb_open c sh (nonce_of v s) (sb_seal c (dh_shared c eph_sk (fst r)) (nonce_of v s) pkey) with
          | None => try_hidden_boxes c v sh t (s + 1)
          | Some p => bind (sym_key p) (fun key => Ok (Some (key, s)))
          end
  | _ => try_hidden_boxes c v sh t (s + 1)
  end.
Proof.
  unfold rcv_of. cbn [try_hidden_boxes].
  destruct (if snd r then [] else fst r); [|reflexivity]. rewrite nonce_some_g. reflexivity.
Qed.

Lemma thb_none_g (rs : list rcpt) : forall s, (forall r, In r rs -> fst r <> pk) ->
  try_hidden_boxes c v sh (mapi_from rcvf s rs) s = Ok None \/ fbo s rs.
Proof.
  induction rs as [|r t IH]; intros s H; [left; reflexivity|].
  cbn [mapi_from]. rewrite thb_cons_g.
  assert (Ht : forall r, In r t -> fst r <> pk) by (intros r' Hr'; apply H; right; exact Hr').
  assert (Hr : fst r <> pk) by (apply H; left; reflexivity).
  assert (IH' : try_hidden_boxes c v sh (mapi_from rcvf (s + 1) t) (s + 1) = Ok None \/
                fbo s (r :: t)).
  { destruct (IH (s + 1) Ht) as [E|Bk]; [left; exact E|right; apply fbo_cons; exact Bk]. }
  destruct (if snd r then [] else fst r); [|exact IH'].
  destruct (sb_open c sh (nonce_of v s) (sb_seal c (dh_shared c eph_sk (fst r)) (nonce_of v s) pkey))
    as [x|] eqn:E; [|exact IH'].
  right. apply fbo_here; [exact Hr|]. rewrite E. discriminate.
Qed.

Lemma thb_find_g (rs : list rcpt) : forall s i,
  nth_error rs i = Some (pk, true) ->
  (forall j r, j <> i -> nth_error rs j = Some r -> fst r <> pk) ->
  try_hidden_boxes c v sh (mapi_from rcvf s rs) s = Ok (Some (pkey, s + N.of_nat i)) \/
  fbo s rs.
Proof.
  induction rs as [|r t IH]; intros s i Hi Hd; [destruct i; discriminate|].
  cbn [mapi_from]. rewrite thb_cons_g. destruct i as [|i].
  - cbn [nth_error] in Hi. injection Hi as ->. cbn [fst snd]. unfold shared.
    rewrite (ok_sb c Hc), (sym_key_pkey pkey Hpkey). cbn [bind N.of_nat]. rewrite N.add_0_r. left. reflexivity.
  - cbn [nth_error] in Hi.
    assert (Ht : forall j r0, j <> i -> nth_error t j = Some r0 -> fst r0 <> pk).
    { intros j r0 Hj Hr0. apply (Hd (S j)); [lia|exact Hr0]. }
    assert (Hr : fst r <> pk) by (apply (Hd 0%nat); [lia|reflexivity]).
    replace (s + N.of_nat (S i)) with (s + 1 + N.of_nat i) by lia.
    assert (IH' : try_hidden_boxes c v sh (mapi_from rcvf (s + 1) t) (s + 1)
                  = Ok (Some (pkey, s + 1 + N.of_nat i)) \/ fbo s (r :: t)).
    { destruct (IH (s + 1) i Hi Ht) as [E|Bk]; [left; exact E|right; apply fbo_cons; exact Bk]. }
    destruct (if snd r then [] else fst r); [|exact IH'].
    destruct (sb_open c sh (nonce_of v s) (sb_seal c (dh_shared c eph_sk (fst r)) (nonce_of v s) pkey))
      as [x|] eqn:E; [|exact IH'].
    right. apply fbo_here; [exact Hr|]. rewrite E. discriminate.
Qed.

Lemma try_visible_found_g (rs : list rcpt) (i : nat) :
  nth_error rs i = Some (pk, false) ->
  (forall j r, j <> i -> nth_error rs j = Some r -> fst r <> pk) ->
  try_visible c (ring1 sk pk) v (dh_pub c eph_sk) (mapi_from rcvf 0 rs) = Ok (Some ((sk, pk), pkey, N.of_nat i)).
Proof.
  intros Hi Hd. unfold try_visible.
  assert (Hne : pk <> []).
  { intro E. pose proof (ok_dh_pub_len c Hc sk) as L. rewrite <- Hpk, E in L. discriminate. }
  destruct (lbs_found c v eph_sk pkey sk pk Hpkey Hpk rs 0 0%nat i Hne Hi Hd) as (j & L & Nj).
  rewrite L. cbn [Nat.add]. rewrite Nj. rewrite N.add_0_l, nonce_some_g.
  cbn [fst]. unfold box_open. rewrite (shared_eq c Hc eph_sk sk pk Hpk), Nat2N.id.
  rewrite (rcv_box c v eph_sk pkey rs i _ Hi). cbn [fst]. unfold shared.
  rewrite (ok_sb c Hc), (sym_key_pkey pkey Hpkey). reflexivity.
Qed.

Lemma try_hidden_none_g (rs : list rcpt) : (forall r, In r rs -> fst r <> pk) ->
  try_hidden c (kr_keys (ring1 sk pk)) v (dh_pub c eph_sk) (mapi_from rcvf 0 rs) = Ok None \/
  ForeignBoxOpens c v eph_sk pkey pk rs.
Proof.
  intro H. cbn [ring1 kr_keys try_hidden fst]. rewrite (shared_eq c Hc eph_sk sk pk Hpk).
  destruct (thb_none_g rs 0 H) as [E|Bk]; [|right; exact Bk]. rewrite E. left. reflexivity.
Qed.

Lemma try_hidden_found_g (rs : list rcpt) (i : nat) :
  nth_error rs i = Some (pk, true) ->
  (forall j r, j <> i -> nth_error rs j = Some r -> fst r <> pk) ->
  try_hidden c (kr_keys (ring1 sk pk)) v (dh_pub c eph_sk) (mapi_from rcvf 0 rs)
    = Ok (Some ((sk, pk), pkey, N.of_nat i)) \/ ForeignBoxOpens c v eph_sk pkey pk rs.
Proof.
  intros Hi Hd. cbn [ring1 kr_keys try_hidden fst]. rewrite (shared_eq c Hc eph_sk sk pk Hpk).
  destruct (thb_find_g rs 0 i Hi Hd) as [E|Bk]; [|right; exact Bk]. rewrite E, N.add_0_l. left. reflexivity.
Qed.

End FixedG.

Section ProcG.
Variables (sender : option bytes) (eph_sk pkey sk : bytes) (rs : list rcpt)
          (vd : validator) (hh : bytes).
Hypothesis Hvd : good_validator_e vd v.
Hypothesis Hpkey : length pkey = 32%nat.
Hypothesis Hsender : forall s, sender = Some s -> dh_pub c s <> dh_pub c eph_sk.

Local Notation sender_sk := (match sender with Some s => s | None => eph_sk end).
Local Notation pk := (dh_pub c sk).
Local Notation hdr := (mkHeader format_name v mt_encryption (dh_pub c eph_sk)
                    (sb_seal c pkey nonce_sender_key_sbox (dh_pub c sender_sk))
                    (mapi_from (rcv_of c v eph_sk pkey) 0 rs)).

Lemma process_tail_g (i : nat) (ranon : bool) (named : list bytes) (nanon : N) :
  match sb_open c pkey nonce_sender_key_sbox (h_b hdr) with
  | None => Err ErrBadSenderKeySecretbox
  | Some sndr =>
    if negb (Nat.eqb (length sndr) 32) then Err ErrBadBoxKey
    else
      bind (if bytes_eqb (dh_pub c eph_sk) sndr then Ok (dh_pub c eph_sk, true)
            else match lookup_sender (ring1 sk pk) sndr with
                 | None => Err ErrNoSenderKey
                 | Some s => Ok (s, false)
                 end) (fun sa =>
      match mac_key_receiver c v (N.of_nat i) (fst (sk, pk)) (fst sa) (dh_pub c eph_sk) hh with
      | None => Err (Panic 8)
      | Some mk =>
        Ok (mkMki (fst sa) (snd sa) (snd (sk, pk)) ranon named nanon,
            mkDec v pkey mk (N.of_nat i) hh)
      end)
  end =
  Ok (mkMki (dh_pub c sender_sk) (match sender with Some _ => false | None => true end) pk ranon named nanon,
      mkDec v pkey (mac_key_sender c v (N.of_nat i) sender_sk eph_sk pk hh) (N.of_nat i) hh).
Proof.
  cbn [h_b]. rewrite (ok_sb c Hc). rewrite (ok_dh_pub_len c Hc). cbn [Nat.eqb negb].
  destruct sender as [s|].
  - rewrite bytes_eqb_neq by (intro E; apply (Hsender s eq_refl); symmetry; exact E).
    unfold lookup_sender. rewrite (ok_dh_pub_len c Hc). cbn [Nat.eqb negb ring1 kr_senders bind fst snd].
    rewrite (mac_key_agree_g (N.of_nat i) sk s eph_sk hh). reflexivity.
  - rewrite bytes_eqb_refl. cbn [bind fst snd].
    rewrite (mac_key_agree_g (N.of_nat i) sk eph_sk eph_sk hh). reflexivity.
Qed.

Lemma process_found_g (i : nat) (hide : bool) :
  NoDup (map fst rs) -> nth_error rs i = Some (pk, hide) ->
  (exists m,
     process_enc_header c vd (ring1 sk pk) hh hdr =
       Ok (m, mkDec v pkey (mac_key_sender c v (N.of_nat i) sender_sk eph_sk pk hh) (N.of_nat i) hh) /\
     mki_sender m = dh_pub c sender_sk /\
     mki_sender_anon m = (match sender with Some _ => false | None => true end) /\
     mki_receiver m = pk /\ mki_receiver_anon m = hide)
  \/ ForeignBoxOpens c v eph_sk pkey pk rs.
Proof.
  intros Hnd Hi.
  assert (Hd : forall j r, j <> i -> nth_error rs j = Some r -> fst r <> pk).
  { intros j r Hj Hr E. apply Hj.
    apply (proj1 (NoDup_nth_error (map fst rs)) Hnd).
    - rewrite map_length. apply (proj1 (nth_error_Some rs j)). rewrite Hr. discriminate.
    - rewrite (map_nth_error fst j rs Hr), (map_nth_error fst i rs Hi). cbn [fst]. rewrite E. reflexivity. }
  unfold process_enc_header.
  rewrite (validate_enc_ok_g vd _ _ _ Hvd). cbn [bind].
  cbn [h_version h_a h_rcvs].
  rewrite (ok_dh_pub_len c Hc). cbn [Nat.eqb negb].
  destruct hide.
  - (* hidden *)
    rewrite (try_visible_none c v eph_sk pkey sk pk rs).
    2:{ intros r Hr Hs E. apply In_nth_error in Hr as [j Hj].
        destruct (Nat.eq_dec j i) as [->|Hne]; [rewrite Hi in Hj; injection Hj as <-; discriminate|].
        exact (Hd j r Hne Hj E). }
    cbn [bind].
    destruct (try_hidden_found_g eph_sk pkey sk pk Hpkey eq_refl rs i Hi Hd) as [E|Bk]; [|right; exact Bk].
    left. rewrite E. cbn [bind]. rewrite process_tail_g. eexists. split; [reflexivity|].
    cbn [mki_sender mki_sender_anon mki_receiver mki_receiver_anon]. repeat split; reflexivity.
  - (* visible *)
    left. rewrite (try_visible_found_g eph_sk pkey sk pk Hpkey eq_refl rs i Hi Hd). cbn [bind].
    rewrite process_tail_g. eexists. split; [reflexivity|].
    cbn [mki_sender mki_sender_anon mki_receiver mki_receiver_anon]. repeat split; reflexivity.
Qed.

End ProcG.
End Ver.

(* ---------- the spec encoder's terms ---------- *)

Section SpecG.
Variables (major minor : Z) (sender : option bytes) (eph pkey : bytes) (rcpts : list (bytes * bool))
          (chunks : list bytes) (xh xr xp : list mval).
Hypothesis Hmaj : (major = 1 \/ major = 2)%Z.
Hypothesis Hmin : (0 <= minor <= 127)%Z.
Hypothesis Hpkey : length pkey = 32%nat.
Hypothesis Hk32 : Forall (fun r : bytes * bool => length (fst r) = 32%nat) rcpts.
Hypothesis Hxh : extras_ok xh.
Hypothesis Hxr : extras_ok xr.
Hypothesis Hxp : extras_ok xp.

Local Notation p := (mkSEnc major minor sender eph pkey rcpts chunks xh xr xp).
Local Notation v := (mkV major minor).
Local Notation ssk := (match sender with Some s => s | None => eph end).
Local Notation sbox := (sb_seal c pkey nonce_sender_key_sbox (dh_pub c ssk)).

Lemma Hvm_v : (vmaj v = 1 \/ vmaj v = 2)%Z.
Proof. exact Hmaj. Qed.

Lemma maj_cases : ((major =? 1)%Z = true) \/ ((major =? 1)%Z = false /\ (major =? 2)%Z = true).
Proof. destruct Hmaj as [E|E]; rewrite E; [left|right]; [|split]; reflexivity. Qed.

Lemma pk_nonce_eq (i : N) : S_payload_key_nonce major i = nonce_of v i.
Proof. destruct Hmaj as [E|E]; rewrite E; reflexivity. Qed.

Definition S_entry (i : N) (r : bytes * bool) : mval :=
  MArr ([if snd r then MNil else MBin (fst r);
         MBin (S_box c eph (fst r) (S_payload_key_nonce major i) pkey)] ++ xr).

Lemma S_header_eq :
  S_enc_header_list c p =
  MArr ([MStr format_name; MArr [MInt major; MInt minor]; MInt mt_encryption; MBin (dh_pub c eph);
         MBin sbox; MArr (mapi_from S_entry 0 rcpts)] ++ xh).
Proof. unfold S_enc_header_list. rewrite S_mapi_eq. reflexivity. Qed.

Lemma view_S_entries (rs : list (bytes * bool)) : forall s,
  view_list view_receiver (mapi_from S_entry s rs) = DOk (mapi_from (rcv_of c v eph pkey) s rs).
Proof.
  induction rs as [|r t IH]; intros s; [reflexivity|].
  cbn [mapi_from view_list]. rewrite IH.
  unfold S_entry, view_receiver, rcv_of, S_box. rewrite pk_nonce_eq.
  cbn [app as_array dbind field nth].
  destruct (snd r); reflexivity.
Qed.

Lemma view_S_header (a b : bytes) :
  view_enc_header (MArr ([MStr format_name; MArr [MInt major; MInt minor]; MInt mt_encryption; MBin a;
                          MBin b; MArr (mapi_from S_entry 0 rcpts)] ++ xh)) =
  DOk (mkHeader format_name v mt_encryption a b (mapi_from (rcv_of c v eph pkey) 0 rcpts)).
Proof.
  unfold view_enc_header, view_version.
  cbn [app as_array dbind field nth as_string as_int as_bytes].
  assert (H1 : (major <=? 9223372036854775807)%Z = true) by (apply Z.leb_le; destruct Hmaj; lia).
  assert (H2 : (minor <=? 9223372036854775807)%Z = true) by (apply Z.leb_le; lia).
  assert (H3 : (mt_encryption <=? 9223372036854775807)%Z = true) by reflexivity.
  rewrite H1. cbn [dbind field nth as_int]. rewrite H2. cbn [dbind]. rewrite H3. cbn [dbind].
  rewrite view_S_entries. reflexivity.
Qed.

(* the number of recipients is bounded by the length of the encoded header *)
Lemma rcpts_le_header : (length rcpts <= length (mp_encode (S_enc_header_list c p)))%nat.
Proof.
  rewrite S_header_eq, mp_encode_arr. cbn [app enc_list].
  rewrite (mp_encode_arr (mapi_from S_entry 0 rcpts)). rewrite !app_length.
  pose proof (enc_list_len (mapi_from S_entry 0 rcpts)) as L. rewrite mapi_from_length in L. lia.
Qed.

Lemma wf_S_entry (i : N) (r : bytes * bool) : length (fst r) = 32%nat -> wf (S_entry i r).
Proof.
  intro Hr. destruct Hxr as [Hx1 Hx2]. unfold S_entry. apply wf_arr_iff. split.
  - rewrite app_length. cbn [length]. lia.
  - cbn [app]. constructor.
    + destruct (snd r); [exact I|]. cbn [wf]. unfold len. rewrite Hr. lia.
    + constructor; [|exact Hx1]. cbn [wf]. unfold len, S_box. rewrite (ok_sb_len c Hc), Hpkey. lia.
Qed.

Lemma wf_S_header : N.of_nat (length rcpts) < 4294967296 -> wf (S_enc_header_list c p).
Proof.
  intro Hn. destruct Hxh as [Hx1 Hx2]. rewrite S_header_eq. apply wf_arr_iff. split.
  - rewrite app_length. cbn [length]. lia.
  - cbn [app]. constructor; [exact format_name_fits|].
    constructor.
    { apply wf_arr_iff. split; [cbn [length]; lia|].
      constructor; [cbn [wf]; destruct Hmaj; lia|]. constructor; [cbn [wf]; lia|constructor]. }
    constructor; [cbn [wf]; change mt_encryption with 0%Z; lia|].
    constructor; [cbn [wf]; unfold len; rewrite (ok_dh_pub_len c Hc); lia|].
    constructor; [cbn [wf]; unfold len; rewrite (ok_sb_len c Hc), (ok_dh_pub_len c Hc); lia|].
    constructor; [|exact Hx1].
    apply wf_arr_iff. split; [rewrite mapi_from_length; exact Hn|].
    apply Forall_forall. intros e He. apply In_nth_error in He as [j Hj].
    rewrite nth_error_mapi_from in Hj. destruct (nth_error rcpts j) as [r|] eqn:Er; [|discriminate].
    cbn [option_map] in Hj. injection Hj as <-. apply wf_S_entry.
    apply nth_error_In in Er. exact (proj1 (Forall_forall _ rcpts) Hk32 r Er).
Qed.

Lemma header_roundtrip_g :
  len (mp_encode (S_enc_header_list c p)) < 4294967296 ->
  decode_header view_enc_header (mp_encode (S_enc_header_list c p)) =
  Ok (mkHeader format_name v mt_encryption (dh_pub c eph) sbox (mapi_from (rcv_of c v eph pkey) 0 rcpts)).
Proof.
  intro Hfit. unfold decode_header. rewrite mp_read_encode_nil.
  - rewrite S_header_eq, view_S_header. reflexivity.
  - apply wf_S_header. pose proof rcpts_le_header. unfold len in Hfit. lia.
Qed.

(* ---------- MAC keys and packets ---------- *)

Lemma S_mac_key_eq (hh : bytes) (i : N) (rpk : bytes) :
  S_mac_key c p hh i rpk = mac_key_sender c v i ssk eph rpk hh.
Proof.
  unfold S_mac_key, mac_key_sender, S_box_zeros_last32, S_box, mac_key_single, box_seal, sum512_truncate256.
  cbn [se_major se_sender se_eph vmaj].
  destruct (major =? 1)%Z.
  - apply last32.
  - rewrite <- !last32. reflexivity.
Qed.

Definition S_mac_keys (hh : bytes) : list bytes :=
  mapi_from (fun i (r : bytes * bool) => S_mac_key c p hh i (fst r)) 0 rcpts.

Lemma S_auths_eq (hh ph : bytes) :
  S_mapi (fun (i : N) (r : bytes * bool) => MBin (firstn 32 (hmac512 c (S_mac_key c p hh i (fst r)) ph))) 0 rcpts =
  map MBin (map (fun k => payload_authenticator c k ph) (S_mac_keys hh)).
Proof. rewrite S_mapi_eq. unfold S_mac_keys. rewrite !map_mapi_from. reflexivity. Qed.

Definition S_ph (hh : bytes) (n : N) (ch : bytes) (fin : bool) : bytes :=
  if (major =? 1)%Z
  then sha512 c (hh ++ nonce_chunk_secretbox n ++ sb_seal c pkey (nonce_chunk_secretbox n) ch)
  else sha512 c (hh ++ nonce_chunk_secretbox n ++ final_byte fin ++ sb_seal c pkey (nonce_chunk_secretbox n) ch).

Lemma S_ph_ok (hh : bytes) (n : N) (ch : bytes) (fin : bool) :
  payload_hash c v hh (nonce_chunk_secretbox n) (sb_seal c pkey (nonce_chunk_secretbox n) ch) fin =
  Some (S_ph hh n ch fin).
Proof.
  unfold payload_hash, S_ph. cbn [vmaj].
  destruct maj_cases as [E|[E1 E2]]; [rewrite E|rewrite E1, E2]; reflexivity.
Qed.

Definition S_block (hh : bytes) (n : N) (ch : bytes) (fin : bool) : mval :=
  let ct := sb_seal c pkey (nonce_chunk_secretbox n) ch in
  let auths := map (fun k => payload_authenticator c k (S_ph hh n ch fin)) (S_mac_keys hh) in
  MArr ((if (major =? 1)%Z then [MArr (map MBin auths); MBin ct]
         else [MBool fin; MArr (map MBin auths); MBin ct]) ++ xp).

Lemma S_enc_packets_cons (hh : bytes) (n : N) (ch : bytes) (fin : bool) (t : list (bytes * bool)) :
  S_enc_packets c p hh n ((ch, fin) :: t) =
  mp_encode (S_block hh n ch fin) ++ S_enc_packets c p hh (n + 1) t.
Proof. unfold S_block. cbv zeta. rewrite <- S_auths_eq. reflexivity. Qed.

Lemma view_S_block (hh : bytes) (n : N) (ch : bytes) (fin : bool) :
  view_enc_block v (S_block hh n ch fin) =
  DOk (map (fit 32) (map (fun k => payload_authenticator c k (S_ph hh n ch fin)) (S_mac_keys hh)),
       sb_seal c pkey (nonce_chunk_secretbox n) ch,
       if (major =? 1)%Z then Nat.eqb (length (sb_seal c pkey (nonce_chunk_secretbox n) ch)) 16 else fin).
Proof.
  unfold view_enc_block, S_block. cbv zeta. cbn [vmaj]. destruct (major =? 1)%Z;
    cbn [app as_array dbind field nth as_bool as_bytes]; rewrite view_list_auth; reflexivity.
Qed.

Lemma wf_S_block (hh : bytes) (n : N) (ch : bytes) (fin : bool) :
  N.of_nat (length rcpts) < 4294967296 -> N.of_nat (length ch) + 16 < 4294967296 ->
  wf (S_block hh n ch fin).
Proof.
  intros Hn Hch. destruct Hxp as [Hx1 Hx2]. unfold S_block. cbv zeta.
  assert (Ha : wf (MArr (map MBin (map (fun k => payload_authenticator c k (S_ph hh n ch fin)) (S_mac_keys hh))))).
  { apply wf_arr_iff. split.
    - rewrite !map_length. unfold S_mac_keys. rewrite mapi_from_length. exact Hn.
    - apply Forall_wf_map_bin. apply Forall_forall. intros b Hb. apply in_map_iff in Hb as (x & <- & _).
      unfold len. rewrite (auth_len c Hc). lia. }
  assert (Hct : wf (MBin (sb_seal c pkey (nonce_chunk_secretbox n) ch))).
  { cbn [wf]. unfold len. rewrite (ok_sb_len c Hc). lia. }
  apply wf_arr_iff. destruct (major =? 1)%Z; (split; [rewrite app_length; cbn [length]; lia|]); cbn [app].
  - constructor; [exact Ha|]. constructor; [exact Hct|exact Hx1].
  - constructor; [exact I|]. constructor; [exact Ha|]. constructor; [exact Hct|exact Hx1].
Qed.

Lemma S_enc_packets_len (hh : bytes) : forall ps n, (length ps <= length (S_enc_packets c p hh n ps))%nat.
Proof.
  induction ps as [|[ch fin] t IH]; intros n; [cbn [length]; lia|].
  rewrite S_enc_packets_cons, app_length. pose proof (mp_encode_len (S_block hh n ch fin)).
  specialize (IH (n + 1)). cbn [length]. lia.
Qed.

Section LoopG.
Variables (hh : bytes) (i : nat) (mk : bytes) (B : nat).
Hypothesis Hmk : nth_error (S_mac_keys hh) i = Some mk.
Hypothesis Hnk : N.of_nat (length rcpts) < 4294967296.
Hypothesis HB : N.of_nat B + 16 < 4294967296.

Local Notation st := (mkDec v pkey mk (N.of_nat i) hh).

Lemma decrypt_loop_g : forall ps n acc fuel,
  ps <> [] -> plan_ok v B n ps ->
  n + N.of_nat (length ps) <= 18446744073709551615 ->
  (length ps <= fuel)%nat ->
  decrypt_loop c fuel st n (S_enc_packets c p hh n ps) acc = mkOut (rev acc ++ map fst ps) EOF.
Proof.
  induction ps as [|[ch fin] t IH]; intros n acc fuel Hne Hok Hbn Hfuel; [contradiction|].
  cbn [plan_ok] in Hok. destruct Hok as (Hlen & Hcs & Hfin_t & Hfin_f & Hok).
  rewrite S_enc_packets_cons.
  destruct fuel as [|fuel]; [cbn [length] in Hfuel; lia|].
  cbn [decrypt_loop]. unfold read_packet.
  rewrite mp_read_encode by (apply wf_S_block; [exact Hnk|lia]).
  cbn [ds_version ds_hh ds_mac_key ds_position ds_payload_key].
  assert (Evm : negb ((vmaj v =? 1)%Z || (vmaj v =? 2)%Z) = false).
  { cbn [vmaj]. destruct maj_cases as [E|[E1 E2]]; [rewrite E|rewrite E1, E2]; reflexivity. }
  rewrite Evm. rewrite view_S_block. cbn [of_dres].
  assert (Eb : block_number_ok n = true).
  { unfold block_number_ok. apply N.ltb_lt. cbn [length] in Hbn. lia. }
  assert (Efin : (if (major =? 1)%Z then Nat.eqb (length (sb_seal c pkey (nonce_chunk_secretbox n) ch)) 16 else fin) = fin).
  { destruct (major =? 1)%Z eqn:E1; [|reflexivity]. rewrite (ok_sb_len c Hc).
    unfold check_chunk_state in Hcs. cbn [vmaj] in Hcs. rewrite E1 in Hcs.
    destruct (Bool.eqb (Nat.eqb (length ch) 0) fin) eqn:E; [|discriminate].
    apply eqb_prop in E. rewrite <- E. destruct (length ch); reflexivity. }
  rewrite Efin, Eb. cbn [negb]. rewrite S_ph_ok. rewrite Nat2N.id.
  rewrite (map_nth_error (fit 32) i _
             (map_nth_error (fun k => payload_authenticator c k (S_ph hh n ch fin)) i (S_mac_keys hh) Hmk)).
  rewrite fit_id by apply (auth_len c Hc). rewrite bytes_eqb_refl. cbn [negb].
  rewrite (ok_sb c Hc). rewrite Hcs.
  destruct fin.
  - rewrite (Hfin_t eq_refl). cbn [S_enc_packets].
    unfold assert_end_of_stream. rewrite mp_read_nil.
    cbn [map fst]. rewrite rev_append_rev. cbn [rev]. rewrite app_nil_r. reflexivity.
  - rewrite (IH (n + 1) (ch :: acc) fuel (Hfin_f eq_refl) Hok) by (cbn [length] in Hfuel, Hbn; lia).
    cbn [rev map fst]. rewrite <- app_assoc. reflexivity.
Qed.

End LoopG.

(* ---------- any chunking the specification allows passes the receiver's chunk checks ---------- *)

Lemma S_max_chunk_N : N.of_nat S_max_chunk = 1048576.
Proof. unfold S_max_chunk. rewrite Z_nat_N. reflexivity. Qed.

Lemma ccs_v1 (ch : bytes) (n : N) (fin : bool) :
  (major =? 1)%Z = true -> Nat.eqb (length ch) 0 = fin -> check_chunk_state v (length ch) n fin = Ok tt.
Proof.
  intros E <-. unfold check_chunk_state. cbn [vmaj]. rewrite E. rewrite eqb_reflx. reflexivity.
Qed.

Lemma ccs_v2_nonempty (ch : bytes) (n : N) (fin : bool) :
  (major =? 1)%Z = false -> (major =? 2)%Z = true -> (1 <= length ch)%nat ->
  check_chunk_state v (length ch) n fin = Ok tt.
Proof.
  intros E1 E2 L. unfold check_chunk_state. cbn [vmaj]. rewrite E1, E2.
  destruct (length ch); [lia|]. reflexivity.
Qed.

Lemma plan_ok_v1 (B : nat) (cs : list bytes) : forall n,
  (major =? 1)%Z = true -> Forall (fun ch => (1 <= length ch <= B)%nat) cs ->
  plan_ok v B n (map (fun ch => (ch, false)) cs ++ [([], true)]).
Proof.
  induction cs as [|a cs IH]; intros n E F.
  - cbn [map app plan_ok]. split; [cbn [length]; lia|]. split; [apply ccs_v1; [exact E|reflexivity]|].
    split; [reflexivity|]. split; [discriminate|exact I].
  - inversion F as [|? ? Fa Ft]; subst. cbn [map app plan_ok]. split; [lia|].
    split; [apply ccs_v1; [exact E|destruct (length a); [lia|reflexivity]]|].
    split; [discriminate|]. split.
    { intros _. destruct (map (fun ch : bytes => (ch, false)) cs); discriminate. }
    apply IH; assumption.
Qed.

Lemma S_flag_last_cons2 (a b : bytes) (t : list bytes) :
  S_flag_last (a :: b :: t) = (a, false) :: S_flag_last (b :: t).
Proof. reflexivity. Qed.

Lemma S_flag_last_nonnil (l : list bytes) : l <> [] -> S_flag_last l <> [].
Proof. destruct l as [|a [|b t]]; intro H; [contradiction|discriminate|rewrite S_flag_last_cons2; discriminate]. Qed.

Lemma S_flag_last_fst (l : list bytes) : map fst (S_flag_last l) = l.
Proof.
  induction l as [|a t IH]; [reflexivity|]. destruct t as [|b t]; [reflexivity|].
  rewrite S_flag_last_cons2. cbn [map fst]. rewrite IH. reflexivity.
Qed.

Lemma S_flag_last_length (l : list bytes) : length (S_flag_last l) = length l.
Proof. rewrite <- (S_flag_last_fst l) at 2. rewrite map_length. reflexivity. Qed.

Lemma plan_ok_v2 (B : nat) (cs : list bytes) : forall n,
  (major =? 1)%Z = false -> (major =? 2)%Z = true -> cs <> [] ->
  Forall (fun ch => (1 <= length ch <= B)%nat) cs ->
  plan_ok v B n (S_flag_last cs).
Proof.
  induction cs as [|a t IH]; intros n E1 E2 Hne F; [contradiction|].
  inversion F as [|? ? Fa Ft]; subst. destruct t as [|b t].
  - cbn [S_flag_last plan_ok]. split; [lia|]. split; [apply ccs_v2_nonempty; [exact E1|exact E2|lia]|].
    split; [reflexivity|]. split; [discriminate|exact I].
  - rewrite S_flag_last_cons2. cbn [plan_ok]. split; [lia|].
    split; [apply ccs_v2_nonempty; [exact E1|exact E2|lia]|].
    split; [discriminate|]. split; [intros _; apply S_flag_last_nonnil; discriminate|].
    apply IH; [exact E1|exact E2|discriminate|exact Ft].
Qed.

Lemma S_packets_ok (cs : list bytes) : S_chunks_ok major cs ->
  plan_ok v S_max_chunk 0 (S_packets major cs) /\ S_packets major cs <> [] /\
  concat (map fst (S_packets major cs)) = concat cs /\
  (length (S_packets major cs) <= length cs + 1)%nat.
Proof.
  unfold S_chunks_ok, S_packets. intro H. destruct maj_cases as [E|[E1 E2]].
  - rewrite E in *. split; [apply plan_ok_v1; [exact E|exact H]|].
    split; [destruct (map (fun ch : bytes => (ch, false)) cs); discriminate|].
    split.
    + rewrite map_app, map_map. cbn [fst map]. rewrite map_id, concat_app. cbn [concat app].
      rewrite app_nil_r. reflexivity.
    + rewrite app_length, map_length. cbn [length]. lia.
  - rewrite E1 in *. rewrite S_flag_last_fst, S_flag_last_length.
    split; [|split; [|split; [reflexivity|lia]]].
    + destruct H as [->|[Hne F]].
      * cbn [S_flag_last plan_ok]. split; [cbn [length]; lia|]. split; [|split; [reflexivity|split; [discriminate|exact I]]].
        unfold check_chunk_state. cbn [vmaj]. rewrite E1, E2. reflexivity.
      * apply plan_ok_v2; assumption.
    + apply S_flag_last_nonnil. destruct H as [->|[Hne _]]; [discriminate|exact Hne].
Qed.

(* ---------- the whole message ---------- *)

Lemma accepted_core (sk : bytes) (hide : bool) (i : nat) (vd : validator) :
  good_validator_e vd v -> NoDup (map fst rcpts) ->
  len (mp_encode (S_enc_header_list c p)) < 4294967296 ->
  S_chunks_ok major chunks -> N.of_nat (length chunks) < 18446744073709551614 ->
  (forall s, sender = Some s -> dh_pub c s <> dh_pub c eph) ->
  nth_error rcpts i = Some (dh_pub c sk, hide) ->
  let kr := mkRing [(sk, dh_pub c sk)] None in
  (exists m chs,
      open_stream c vd kr (S_encode_encryption c p) = Ok (m, mkOut chs EOF) /\
      concat chs = concat chunks /\
      mki_sender m = dh_pub c ssk /\
      mki_sender_anon m = (match sender with Some _ => false | None => true end) /\
      mki_receiver m = dh_pub c sk /\ mki_receiver_anon m = hide /\
      open_all c vd kr (S_encode_encryption c p) = Ok (m, concat chunks))
  \/ ForeignBoxOpens c v eph pkey (dh_pub c sk) rcpts.
Proof.
  intros Hvd Hnd Hfit Hck Hcl Hs Hi kr.
  unfold S_encode_encryption. cbv zeta. cbn [se_major se_chunks].
  set (hdrb := mp_encode (S_enc_header_list c p)) in *.
  set (hh := sha512 c hdrb).
  destruct (process_found_g v Hvm_v sender eph pkey sk rcpts vd hh Hvd Hpkey Hs i hide Hnd Hi)
    as [(m & Hproc & M1 & M2 & M3 & M4)|Bk]; [|right; exact Bk].
  left.
  destruct (S_packets_ok chunks Hck) as (Hok & Hne & Hcat & Hlen).
  assert (Hn : N.of_nat (length rcpts) < 4294967296).
  { pose proof rcpts_le_header as L. fold hdrb in L. unfold len in Hfit. lia. }
  assert (Hopen : open_stream c vd kr (mp_encode (MBin hdrb) ++ S_enc_packets c p hh 0 (S_packets major chunks))
                  = Ok (m, mkOut (map fst (S_packets major chunks)) EOF)).
  { unfold open_stream, read_header_bytes. rewrite mp_read_encode by exact Hfit.
    cbn [as_bytes bind fst snd]. fold hh.
    unfold hdrb at 1. rewrite (header_roundtrip_g Hfit). cbn [bind].
    unfold kr. change (mkRing [(sk, dh_pub c sk)] None) with (ring1 sk (dh_pub c sk)).
    rewrite Hproc. cbn [bind fst snd].
    rewrite (decrypt_loop_g hh i _ S_max_chunk).
    - reflexivity.
    - unfold S_mac_keys. rewrite (nth_error_mapi_from_some _ rcpts 0 i _ Hi). cbn [fst].
      rewrite N.add_0_l, S_mac_key_eq. reflexivity.
    - exact Hn.
    - rewrite S_max_chunk_N. lia.
    - exact Hne.
    - exact Hok.
    - lia.
    - pose proof (S_enc_packets_len hh (S_packets major chunks) 0). lia. }
  exists m, (map fst (S_packets major chunks)).
  split; [exact Hopen|]. split; [exact Hcat|].
  split; [exact M1|]. split; [exact M2|]. split; [exact M3|]. split; [exact M4|].
  unfold open_all. rewrite Hopen. cbn [bind snd fst so_end so_chunks]. rewrite Hcat. reflexivity.
Qed.

End SpecG.

(* (TARGET) *)
Lemma spec_encryption_accepted (p : S_enc) (sk : bytes) (hide : bool) (i : nat) (vd : validator) :
  enc_params_ok p -> admits vd (se_major p) (se_minor p) ->
  nth_error (se_rcpts p) i = Some (dh_pub c sk, hide) ->
  let kr := mkRing [(sk, dh_pub c sk)] None in
  (exists m chunks,
      open_stream c vd kr (S_encode_encryption c p) = Ok (m, mkOut chunks EOF) /\
      concat chunks = concat (se_chunks p) /\
      mki_sender m = dh_pub c (match se_sender p with Some s => s | None => se_eph p end) /\
      mki_sender_anon m = (match se_sender p with Some _ => false | None => true end) /\
      mki_receiver m = dh_pub c sk /\ mki_receiver_anon m = hide /\
      open_all c vd kr (S_encode_encryption c p) = Ok (m, concat (se_chunks p)))
  \/ S_foreign_box_opens p sk.
Proof.
  intros Hp Hvd Hi kr.
  destruct p as [major minor sender eph pkey rcpts chunks xh xr xp].
  unfold enc_params_ok in Hp.
  cbn [se_major se_minor se_sender se_eph se_pkey se_rcpts se_chunks se_extra_hdr se_extra_rcpt se_extra_pkt]
    in Hp, Hvd, Hi |- *.
  destruct Hp as (Hmaj & Hmin & Hpk & Hnd & Hne & Hk32 & Hxh & Hxr & Hxp & Hfit & Hck & Hcl & Hs).
  destruct (accepted_core major minor sender eph pkey rcpts chunks xh xr xp Hmaj Hmin Hpk Hk32 Hxh Hxr Hxp
              sk hide i vd Hvd Hnd Hfit Hck Hcl Hs Hi) as [H|Bk]; [left; exact H|right].
  destruct Bk as (j & r & Hj & Hr & Ho). exists j, r.
  cbn [se_major se_eph se_pkey se_rcpts].
  split; [exact Hj|]. split; [exact Hr|].
  rewrite N.add_0_l in Ho. rewrite (shared_eq c Hc eph sk (dh_pub c sk) eq_refl).
  rewrite (pk_nonce_eq major minor Hmaj). exact Ho.
Qed.

End Acc.
