(* ClassifyProofs.v — C16: stream classification is correct, prefix-stable and sound.
   Statements marked (TARGET) are used verbatim by props/. *)
From Coq Require Import List NArith ZArith Bool Lia ZifyN ZifyNat ZifyBool.
From Coq.Strings Require Import Byte.
From SP Require Import Bytes Consts Params Msgpack Errors BaseX Encodings Packets Armor MsgpackProofs BaseXProofs ArmorProofs.
Import ListNotations.
Open Scope N_scope.

(* the once-encoded header of any spec-following message of any mode: format name,
   version as two positive fixnums, mode, then the mode's remaining fields (at least
   two: the header lists have 5 or 6 elements; more are allowed) *)
Definition spec_header_bytes (maj mi typ : Z) (fields : list mval) : bytes :=
  mp_encode (MArr (MStr format_name :: MArr [MInt maj; MInt mi] :: MInt typ :: fields)).

Definition spec_header_ok (maj mi typ : Z) (fields : list mval) : Prop :=
  (0 <= maj <= 127)%Z /\ (0 <= mi <= 127)%Z /\ known_type typ = true /\
  Forall wf fields /\ N.of_nat (length fields) < 4294967293 /\
  len (spec_header_bytes maj mi typ fields) < 4294967296.

(* a whole binary message: the twice-encoded header followed by anything *)
Definition spec_message (maj mi typ : Z) (fields : list mval) (rest : bytes) : bytes :=
  mp_encode (MBin (spec_header_bytes maj mi typ fields)) ++ rest.

(* ---------- binary classifier on genuine messages ---------- *)

Definition cls_core (maj mi typ : Z) : bytes :=
  mp_encode (MStr format_name) ++ mp_encode (MArr [MInt maj; MInt mi]) ++ mp_encode (MInt typ).

Lemma known_type_cases typ : known_type typ = true -> typ = 0%Z \/ typ = 1%Z \/ typ = 2%Z \/ typ = 3%Z.
Proof.
  unfold known_type. change mt_encryption with 0%Z. change mt_signcryption with 3%Z.
  change mt_attached with 1%Z. change mt_detached with 2%Z. lia.
Qed.

Lemma enc_int_fix z : (0 <= z <= 127)%Z -> enc_int z = [n2b (Z.to_N z)].
Proof.
  intro H. unfold enc_int. destruct (Z.leb_spec 0 z); [|lia].
  unfold enc_uint. destruct (N.leb_spec (Z.to_N z) 127); [reflexivity|lia].
Qed.

Lemma cls_core_len maj mi typ : (0 <= maj <= 127)%Z -> (0 <= mi <= 127)%Z -> known_type typ = true ->
  length (cls_core maj mi typ) = 13%nat.
Proof.
  intros H1 H2 H3. unfold cls_core. rewrite mp_encode_arr.
  cbn [enc_list mp_encode]. rewrite (enc_int_fix maj H1), (enc_int_fix mi H2).
  destruct (known_type_cases typ H3) as [->|[->|[->| ->]]]; reflexivity.
Qed.

Lemma binary_slice_shape (b0 : byte) (Br : bytes) (a0 : byte) (Ar : bytes) (maj mi typ : Z) (tail : bytes) :
  (b2n b0 = 196 /\ length Br = 1%nat) \/ (b2n b0 = 197 /\ length Br = 2%nat) \/ (b2n b0 = 198 /\ length Br = 4%nat) ->
  (147 <= b2n a0 <= 159 /\ length Ar = 0%nat) \/ (b2n a0 = 220 /\ length Ar = 2%nat) \/ (b2n a0 = 221 /\ length Ar = 4%nat) ->
  (0 <= maj <= 127)%Z -> (0 <= mi <= 127)%Z -> known_type typ = true ->
  (23 <= length ((b0 :: Br) ++ (a0 :: Ar) ++ cls_core maj mi typ ++ tail))%nat ->
  binary_slice ((b0 :: Br) ++ (a0 :: Ar) ++ cls_core maj mi typ ++ tail) = Cls typ (mkV maj mi).
Proof.
  intros HB HA Hmaj Hmi Hk Hlen.
  unfold binary_slice.
  assert (El : (len ((b0 :: Br) ++ (a0 :: Ar) ++ cls_core maj mi typ ++ tail) <? min_len_binary) = false).
  { apply N.ltb_ge. change min_len_binary with 23. unfold len. lia. }
  rewrite El.
  change (nth 0 ((b0 :: Br) ++ (a0 :: Ar) ++ cls_core maj mi typ ++ tail) x00) with b0.
  set (skip := if b2n b0 =? 196 then 2%nat else if b2n b0 =? 197 then 3%nat
               else if b2n b0 =? 198 then 5%nat else 0%nat).
  assert (Hs : skip = length (b0 :: Br)).
  { unfold skip. cbn [length]. destruct HB as [[-> ->]|[[-> ->]|[-> ->]]]; reflexivity. }
  clearbody skip. rewrite Hs.
  assert (E0 : Nat.eqb (length (b0 :: Br)) 0 = false) by reflexivity.
  rewrite E0.
  assert (En : nth (length (b0 :: Br)) ((b0 :: Br) ++ (a0 :: Ar) ++ cls_core maj mi typ ++ tail) x00 = a0).
  { rewrite app_nth2 by lia. rewrite Nat.sub_diag. reflexivity. }
  rewrite En.
  set (askip := if (147 <=? b2n a0) && (b2n a0 <=? 159) then 1%nat
                else if b2n a0 =? 220 then 3%nat
                else if b2n a0 =? 221 then 5%nat else 0%nat).
  assert (Ha : askip = length (a0 :: Ar)).
  { unfold askip. cbn [length]. destruct HA as [[H ->]|[[-> ->]|[-> ->]]]; [|reflexivity|reflexivity].
    destruct (N.leb_spec 147 (b2n a0)); [|lia]. destruct (N.leb_spec (b2n a0) 159); [|lia]. reflexivity. }
  clearbody askip. rewrite Ha.
  assert (E1 : Nat.eqb (length (a0 :: Ar)) 0 = false) by reflexivity.
  rewrite E1.
  assert (Esk : skipn (length (b0 :: Br) + length (a0 :: Ar)) ((b0 :: Br) ++ (a0 :: Ar) ++ cls_core maj mi typ ++ tail)
                = cls_core maj mi typ ++ tail).
  { rewrite app_assoc, <- app_length. apply skipn_len_app. }
  rewrite Esk. unfold cls_core. rewrite <- !app_assoc.
  unfold cls_read.
  rewrite mp_read_encode by (cbn; lia).
  cbn [as_string]. rewrite ar_bytes_eqb_refl. cbn [negb].
  rewrite mp_read_encode by (cbn; lia).
  assert (Ev : view_version (MArr [MInt maj; MInt mi]) = DOk (mkV maj mi)).
  { unfold view_version. cbn [as_array dbind field nth as_int].
    destruct (Z.leb_spec maj 9223372036854775807); [|lia].
    destruct (Z.leb_spec mi 9223372036854775807); [|lia]. reflexivity. }
  rewrite Ev.
  assert (Hw : wf (MInt typ)).
  { destruct (known_type_cases typ Hk) as [->|[->|[->| ->]]]; cbn; lia. }
  rewrite mp_read_encode by exact Hw.
  cbn [as_int]. 
  destruct (Z.leb_spec typ 9223372036854775807); [|destruct (known_type_cases typ Hk) as [->|[->|[->| ->]]]; lia].
  rewrite Hk. reflexivity.
Qed.

Definition bin_tag_ok (b0 : byte) (Br : bytes) : Prop :=
  (b2n b0 = 196 /\ length Br = 1%nat) \/ (b2n b0 = 197 /\ length Br = 2%nat) \/ (b2n b0 = 198 /\ length Br = 4%nat).
Definition arr_tag_ok (a0 : byte) (Ar : bytes) : Prop :=
  (147 <= b2n a0 <= 159 /\ length Ar = 0%nat) \/ (b2n a0 = 220 /\ length Ar = 2%nat) \/ (b2n a0 = 221 /\ length Ar = 4%nat).

Lemma enc_bin_hdr_shape l : exists b0 Br, enc_bin_hdr l = b0 :: Br /\ bin_tag_ok b0 Br.
Proof.
  unfold enc_bin_hdr, bin_tag_ok. destruct (l <? 256).
  - exists xc4, [n2b l]. split; [reflexivity|]. left. split; reflexivity.
  - destruct (l <? 65536).
    + exists xc5, (be16 l). split; [reflexivity|]. right; left. split; [reflexivity|apply mp_be_bytes_length].
    + exists xc6, (be32 l). split; [reflexivity|]. right; right. split; [reflexivity|apply mp_be_bytes_length].
Qed.

Lemma enc_arr_hdr_shape n : 3 <= n -> exists a0 Ar, enc_arr_hdr n = a0 :: Ar /\ arr_tag_ok a0 Ar.
Proof.
  intro Hn. unfold enc_arr_hdr, arr_tag_ok. destruct (N.ltb_spec n 16).
  - exists (n2b (144 + n)), []. split; [reflexivity|]. left. rewrite mp_b2n_n2b_small by lia.
    split; [lia|reflexivity].
  - destruct (n <? 65536).
    + exists xdc, (be16 n). split; [reflexivity|]. right; left. split; [reflexivity|apply mp_be_bytes_length].
    + exists xdd, (be32 n). split; [reflexivity|]. right; right. split; [reflexivity|apply mp_be_bytes_length].
Qed.

Lemma spec_message_shape maj mi typ fields rest :
  exists b0 Br a0 Ar tail,
    spec_message maj mi typ fields rest = (b0 :: Br) ++ (a0 :: Ar) ++ cls_core maj mi typ ++ tail /\
    bin_tag_ok b0 Br /\ arr_tag_ok a0 Ar.
Proof.
  unfold spec_message, spec_header_bytes.
  destruct (enc_bin_hdr_shape (len (mp_encode (MArr (MStr format_name :: MArr [MInt maj; MInt mi] :: MInt typ :: fields)))))
    as (b0 & Br & EB & HB).
  destruct (enc_arr_hdr_shape (N.of_nat (length (MStr format_name :: MArr [MInt maj; MInt mi] :: MInt typ :: fields))))
    as (a0 & Ar & EA & HA); [cbn [length]; lia|].
  exists b0, Br, a0, Ar, (enc_list fields ++ rest). split; [|split; assumption].
  change (mp_encode (MBin ?h)) with (enc_bin_hdr (len h) ++ h). rewrite EB.
  rewrite (mp_encode_arr (MStr format_name :: _)). rewrite EA.
  cbn [enc_list]. unfold cls_core. rewrite <- !app_assoc. reflexivity.
Qed.

Lemma binary_slice_agree (maj mi typ : Z) (fields : list mval) (rest d : bytes) :
  spec_header_ok maj mi typ fields -> (23 <= length d)%nat ->
  firstn 23 d = firstn 23 (spec_message maj mi typ fields rest) ->
  binary_slice d = Cls typ (mkV maj mi).
Proof.
  intros (Hmaj & Hmi & Hk & _) Hd Hf.
  destruct (spec_message_shape maj mi typ fields rest) as (b0 & Br & a0 & Ar & tail & E & HB & HA).
  rewrite E in Hf. pose proof (cls_core_len maj mi typ Hmaj Hmi Hk) as Hc.
  set (P := (b0 :: Br) ++ (a0 :: Ar) ++ cls_core maj mi typ).
  assert (HP : (length P <= 23)%nat).
  { unfold P. rewrite !app_length, Hc. cbn [length].
    destruct HB as [[_ ->]|[[_ ->]|[_ ->]]]; destruct HA as [[_ ->]|[[_ ->]|[_ ->]]]; lia. }
  assert (Ed : d = (b0 :: Br) ++ (a0 :: Ar) ++ cls_core maj mi typ ++ (firstn (23 - length P) tail ++ skipn 23 d)).
  { rewrite <- (firstn_skipn 23 d) at 1. rewrite Hf.
    replace ((b0 :: Br) ++ (a0 :: Ar) ++ cls_core maj mi typ ++ tail) with (P ++ tail)
      by (unfold P; rewrite <- !app_assoc; reflexivity).
    rewrite firstn_app, (firstn_all2 P) by exact HP.
    unfold P. rewrite <- !app_assoc. reflexivity. }
  rewrite Ed. apply binary_slice_shape; try assumption. rewrite <- Ed. exact Hd.
Qed.

(* (TARGET) C16 binary: every prefix of a genuine message is classified as "need more
   data" below 23 bytes and as exactly its mode and version from 23 bytes on — never
   "not saltpack", never another mode *)
Lemma binary_prefix_stable (maj mi typ : Z) (fields : list mval) (rest : bytes) (k : nat) :
  spec_header_ok maj mi typ fields ->
  (23 <= length (spec_message maj mi typ fields rest))%nat ->
  binary_slice (firstn k (spec_message maj mi typ fields rest)) =
  if Nat.ltb k 23 then ClsShort else Cls typ (mkV maj mi).
Proof.
  intros Hok Hlen. destruct (Nat.ltb_spec k 23) as [Hk|Hk].
  - unfold binary_slice.
    assert (E : (len (firstn k (spec_message maj mi typ fields rest)) <? min_len_binary) = true).
    { apply N.ltb_lt. change min_len_binary with 23. unfold len. rewrite firstn_length. lia. }
    rewrite E. reflexivity.
  - apply (binary_slice_agree maj mi typ fields rest); [exact Hok| |].
    + rewrite firstn_length. lia.
    + rewrite firstn_firstn. replace (Nat.min 23 k) with 23%nat by lia. reflexivity.
Qed.

(* the armor type label that goes with a mode *)
Definition label_of (typ : Z) : bytes :=
  if (typ =? mt_attached)%Z then c_saltpack_SignedArmorString
  else if (typ =? mt_detached)%Z then c_saltpack_DetachedSignatureArmorString
  else c_saltpack_EncryptionArmorString.

(* (TARGET) C16 soundness: whatever the armored classifier classifies positively really
   carries that mode in the header bytes decoded from its first block, under the frame
   label of that mode, with the brand of the frame *)
Lemma armored_prefix_sound (pref brand : bytes) (typ : Z) (v : version) :
  armored_prefix pref = (brand, Cls typ v) ->
  exists ty body,
    match_header (normalise pref) = Some (brand, ty, body) /\
    ty = label_of typ /\
    binary_slice (fst (BaseX.decode base62 body)) = Cls typ v.
Proof.
  unfold armored_prefix.
  destruct (match_header (normalise pref)) as [[[br ty] bd]|] eqn:Em.
  - destruct (BaseX.decode base62 bd) as [dec err] eqn:Ed.
    destruct (Nat.ltb (length dec) 32); [intro H; injection H as _ H; destruct err as [[|]|]; discriminate|].
    destruct (binary_slice dec) as [| | |t ver] eqn:Eb; try (intro H; discriminate).
    match goal with |- context [bytes_eqb ty ?w] => destruct (bytes_eqb ty w) eqn:Eq end;
      [|intro H; discriminate].
    apply ar_bytes_eqb_true in Eq. intro H. injection H as -> -> ->.
    exists ty, bd. split; [reflexivity|]. split; [exact Eq|]. rewrite Ed. exact Eb.
  - destruct (negb (partial_words_ok 5 (normalise pref))); [intro H; discriminate|].
    destruct (length (words (normalise pref))) as [|[|[|n]]]; intro H; injection H as _ H;
      match type of H with (if ?c then _ else _) = _ => destruct c end; discriminate.
Qed.

Lemma cls_read_ok bs v r : cls_read bs = Some (Some (v, r)) -> mp_read bs = POk v r.
Proof. unfold cls_read. destruct (mp_read bs); intro H; try discriminate. injection H as -> ->. reflexivity. Qed.

(* (TARGET) C16 binary soundness: a positive binary answer means the slice really starts
   with a bin header, an array header, the format name, that version and that mode *)
Lemma binary_slice_sound (b : bytes) (typ : Z) (v : version) :
  binary_slice b = Cls typ v ->
  known_type typ = true /\ (23 <= length b)%nat /\
  exists skip rest1 fv r1 vv r2 tv r3,
    (skip = 3 \/ skip = 4 \/ skip = 5 \/ skip = 6 \/ skip = 7 \/ skip = 8 \/ skip = 10)%nat /\
    skipn skip b = rest1 /\
    mp_read rest1 = POk fv r1 /\ as_string fv = DOk format_name /\
    mp_read r1 = POk vv r2 /\ view_version vv = DOk v /\
    mp_read r2 = POk tv r3 /\ as_int tv = DOk typ.
Proof.
  unfold binary_slice.
  destruct (len b <? min_len_binary) eqn:El; [discriminate|].
  apply N.ltb_ge in El. change min_len_binary with 23 in El. unfold len in El.
  set (skip := if b2n (nth 0 b x00) =? 196 then 2%nat else if b2n (nth 0 b x00) =? 197 then 3%nat
               else if b2n (nth 0 b x00) =? 198 then 5%nat else 0%nat).
  assert (Hs : (skip = 0 \/ skip = 2 \/ skip = 3 \/ skip = 5)%nat).
  { unfold skip. destruct (_ =? 196); [auto|]. destruct (_ =? 197); [auto|]. destruct (_ =? 198); auto. }
  clearbody skip.
  destruct (Nat.eqb skip 0) eqn:Es; [discriminate|]. apply Nat.eqb_neq in Es.
  set (askip := if (147 <=? b2n (nth skip b x00)) && (b2n (nth skip b x00) <=? 159) then 1%nat
                else if b2n (nth skip b x00) =? 220 then 3%nat
                else if b2n (nth skip b x00) =? 221 then 5%nat else 0%nat).
  assert (Ha : (askip = 0 \/ askip = 1 \/ askip = 3 \/ askip = 5)%nat).
  { unfold askip. destruct (_ && _); [auto|]. destruct (_ =? 220); [auto|]. destruct (_ =? 221); auto. }
  clearbody askip.
  destruct (Nat.eqb askip 0) eqn:Ea; [discriminate|]. apply Nat.eqb_neq in Ea.
  destruct (cls_read (skipn (skip + askip) b)) as [[[fv r1]|]|] eqn:E1; try discriminate.
  destruct (as_string fv) as [fmt| |] eqn:Ef; try discriminate.
  destruct (bytes_eqb fmt format_name) eqn:Eq; cbn [negb]; [|discriminate].
  apply ar_bytes_eqb_true in Eq. subst fmt.
  destruct (cls_read r1) as [[[vv r2]|]|] eqn:E2; try discriminate.
  destruct (view_version vv) as [ver| |] eqn:Ev; try discriminate.
  destruct (cls_read r2) as [[[tv r3]|]|] eqn:E3; try discriminate.
  destruct (as_int tv) as [t| |] eqn:Et; try discriminate.
  destruct (known_type t) eqn:Ek; [|discriminate].
  intro H. injection H as -> ->.
  split; [exact Ek|]. split; [lia|].
  exists (skip + askip)%nat, (skipn (skip + askip) b), fv, r1, vv, r2, tv, r3.
  split; [lia|]. split; [reflexivity|].
  repeat split; auto using cls_read_ok.
Qed.

(* armored text of a genuine message: the canonical frame of the mode's label, any
   alphanumeric brand, the message armored as the library does *)
Definition armor_type_of (typ : Z) : Z :=
  if (typ =? mt_attached)%Z then mt_attached else if (typ =? mt_detached)%Z then mt_detached else mt_encryption.

(* ---------- base-62 decoding of a cut digit stream ---------- *)

Lemma b62_obl : obl base62 = 43. Proof. vm_compute. reflexivity. Qed.
Lemma b62_ibl_eq : ibl base62 = 32. Proof. reflexivity. Qed.

Lemma finish_err_kind (ds : list N) (err : bx_err) :
  finish base62 ds = inl err -> err = InvalidEncodingLength.
Proof.
  unfold finish. cbv zeta. destruct (negb _); [intro H; injection H as <-; reflexivity|].
  destruct (_ <=? _); [intro H; injection H as <-; reflexivity|discriminate].
Qed.

Lemma decode_fuel_acc : forall f s off acc,
  exists Y, fst (decode_fuel base62 f s off acc) = rev acc ++ Y.
Proof.
  induction f as [|f IH]; intros s off acc.
  - exists []. cbn [decode_fuel fst]. rewrite rev_append_rev, !app_nil_r. reflexivity.
  - cbn [decode_fuel]. destruct s as [|b t].
    + exists []. cbn [fst]. rewrite rev_append_rev, !app_nil_r. reflexivity.
    + destruct (decode_block base62 (b :: t) off) as [err|[[out rest] c]].
      * exists []. cbn [fst]. rewrite rev_append_rev, !app_nil_r. reflexivity.
      * destruct (IH rest (off + c) (rev_append out acc)) as (Y & E).
        exists (out ++ Y). rewrite E, rev_append_rev, rev_app_distr, rev_involutive, <- app_assoc.
        reflexivity.
Qed.

Lemma map_char_of_inj (l1 l2 : list N) :
  Forall (fun d => d < base base62) l1 -> Forall (fun d => d < base base62) l2 ->
  map (char_of base62) l1 = map (char_of base62) l2 -> l1 = l2.
Proof.
  revert l2. induction l1 as [|a t IH]; intros l2 H1 H2 E; destruct l2 as [|b u]; try discriminate E.
  - reflexivity.
  - inversion H1; subst. inversion H2; subst. cbn [map] in E. injection E as Ea Et.
    f_equal; [|apply IH; assumption].
    pose proof (digit_of_char_of base62 b62_lo b62_hi b62_nodup b62_ibl a ltac:(assumption)) as Da.
    pose proof (digit_of_char_of base62 b62_lo b62_hi b62_nodup b62_ibl b ltac:(assumption)) as Db.
    rewrite Ea in Da. congruence.
Qed.

Definition good62 (s : bytes) : Prop :=
  forall b, In b s -> is_dig base62 b = true \/ is_skip base62 b = true.

(* fewer digits than one block: no complete block comes out, and the error is not "corrupt" *)
Lemma decode62_short (s : bytes) :
  good62 s -> len (filter (is_dig base62) s) < 43 ->
  (length (fst (BaseX.decode base62 s)) < 32)%nat /\
  (snd (BaseX.decode base62 s) = None \/ snd (BaseX.decode base62 s) = Some InvalidEncodingLength).
Proof.
  intros Hg Hl. unfold BaseX.decode.
  destruct s as [|b0 t0] eqn:Es0.
  { cbn [length decode_fuel rev_append fst snd]. split; [lia|left; reflexivity]. }
  rewrite <- Es0 in *. assert (Hne : s <> []) by (rewrite Es0; discriminate). clear Es0 b0 t0.
  destruct (length s) as [|f] eqn:Ef; [destruct s; [congruence|discriminate]|].
  rewrite (decode_fuel_step base62 b62_lo b62_hi b62_nodup b62_ibl) by exact Hne.
  rewrite (decode_block_eq base62 b62_lo b62_hi b62_nodup b62_ibl).
  destruct (scan_good base62 b62_lo b62_hi b62_nodup b62_ibl s 0 0 [] 0 Hg) as (ds & c & rest & Es).
  rewrite Es.
  apply (scan_ok base62 b62_lo b62_hi b62_nodup b62_ibl) in Es
    as (pre & Hs & Hc & Hgp & Hds & Hcnt & Hpre); [|rewrite b62_obl; lia].
  cbn [rev app] in Hds. subst ds. rewrite N.add_0_l, b62_obl in Hcnt.
  pose proof (digits_of_filter base62 b62_lo b62_hi b62_nodup b62_ibl pre) as Hmap.
  assert (Hpl : N.of_nat (length (digits_of base62 pre)) <= len (filter (is_dig base62) s)).
  { rewrite Hs, filter_app, <- Hmap. unfold len. rewrite app_length, map_length. lia. }
  destruct Hcnt as [Hcnt|[Hcnt ->]]; [lia|].
  destruct (finish base62 (digits_of base62 pre)) as [err|out] eqn:Efin.
  - cbn [rev_append fst snd length]. split; [lia|right].
    rewrite (finish_err_kind _ _ Efin). reflexivity.
  - rewrite (decode_fuel_nil base62 b62_lo b62_hi b62_nodup b62_ibl). cbn [fst snd].
    split; [|left; reflexivity].
    rewrite !rev_append_rev, !app_nil_r, rev_involutive.
    destruct (digits_of base62 pre) as [|d D'] eqn:ED.
    + rewrite (finish_nil base62 b62_lo b62_hi b62_nodup b62_ibl) in Efin. injection Efin as <-. cbn; lia.
    + pose proof (digits_of_bound base62 b62_lo b62_hi b62_nodup b62_ibl pre) as HB. rewrite ED in HB.
      destruct (finish_canonical base62 b62_lo b62_hi b62_nodup b62_ibl (d :: D') out HB
                  ltac:(discriminate) ltac:(rewrite b62_obl; lia) Efin) as (F1 & F2 & F3 & F4).
      rewrite b62_ibl_eq in F2.
      assert (Hlo : len out <> 32).
      { intro E32. pose proof (encode_block_len base62 b62_lo b62_hi b62_nodup b62_ibl out) as Hel.
        rewrite F4, E32 in Hel. change (min_chars base62 32) with (obl base62) in Hel.
        rewrite b62_obl in Hel. unfold len in Hel. rewrite map_length in Hel. lia. }
      unfold len in *. lia.
Qed.

(* the digit stream starts with a complete first block: its 32 bytes come out first *)
Lemma decode62_first_block (s blk X : bytes) :
  good62 s -> length blk = 32%nat -> filter (is_dig base62) s = encode_block base62 blk ++ X ->
  exists Y, fst (BaseX.decode base62 s) = blk ++ Y.
Proof.
  intros Hg Hb HD. unfold BaseX.decode.
  assert (Hbl : len blk = 32) by (unfold len; lia).
  pose proof (encode_block_len base62 b62_lo b62_hi b62_nodup b62_ibl blk) as Hel.
  rewrite Hbl in Hel. change (min_chars base62 32) with (obl base62) in Hel. rewrite b62_obl in Hel.
  assert (Hne : s <> []).
  { intros ->. cbn [filter] in HD. symmetry in HD. apply app_eq_nil in HD as [HD _].
    rewrite HD in Hel. discriminate Hel. }
  destruct (length s) as [|f] eqn:Ef; [destruct s; [congruence|discriminate]|].
  rewrite (decode_fuel_step base62 b62_lo b62_hi b62_nodup b62_ibl) by exact Hne.
  rewrite (decode_block_eq base62 b62_lo b62_hi b62_nodup b62_ibl).
  destruct (scan_good base62 b62_lo b62_hi b62_nodup b62_ibl s 0 0 [] 0 Hg) as (ds & c & rest & Es).
  rewrite Es.
  apply (scan_ok base62 b62_lo b62_hi b62_nodup b62_ibl) in Es
    as (pre & Hs & Hc & Hgp & Hds & Hcnt & Hpre); [|rewrite b62_obl; lia].
  cbn [rev app] in Hds. subst ds. rewrite N.add_0_l, b62_obl in Hcnt.
  pose proof (digits_of_filter base62 b62_lo b62_hi b62_nodup b62_ibl pre) as Hmap.
  assert (Hfs : filter (is_dig base62) s = map (char_of base62) (digits_of base62 pre) ++ filter (is_dig base62) rest).
  { rewrite Hs, filter_app, Hmap. reflexivity. }
  destruct Hcnt as [Hcnt|[Hcnt Hr]].
  2:{ exfalso. rewrite Hr in Hfs. cbn [filter] in Hfs. rewrite app_nil_r in Hfs.
      rewrite Hfs in HD. apply (f_equal (@length byte)) in HD.
      rewrite app_length, map_length in HD. unfold len in Hel. lia. }
  assert (E1 : map (char_of base62) (digits_of base62 pre) = encode_block base62 blk).
  { rewrite Hfs in HD. apply (f_equal (firstn 43)) in HD.
    rewrite !firstn_app in HD. rewrite map_length in HD. unfold len in Hel.
    replace (43 - length (digits_of base62 pre))%nat with 0%nat in HD by lia.
    replace (43 - length (encode_block base62 blk))%nat with 0%nat in HD by lia.
    rewrite !firstn_O, !app_nil_r in HD.
    rewrite !firstn_all2 in HD by (rewrite ?map_length; lia). exact HD. }
  unfold encode_block in E1.
  apply map_char_of_inj in E1;
    [|apply (digits_of_bound base62 b62_lo b62_hi b62_nodup b62_ibl)
     |apply (to_digits_bound base62 b62_lo b62_hi b62_nodup b62_ibl)].
  rewrite E1. rewrite (finish_encode_block base62 b62_lo b62_hi b62_nodup b62_ibl)
    by (rewrite ?b62_ibl_eq; lia).
  destruct (decode_fuel_acc f rest (0 + c) (rev_append blk [])) as (Y & EY).
  exists Y. rewrite EY, rev_append_rev, app_nil_r, rev_involutive. reflexivity.
Qed.

(* ---------- runs, collapsing and trimming ---------- *)

Definition frun (c : byte) : bool := is_alnum c || Byte.eqb c sp.
Definition grun (c : byte) : bool := is_alnum c || is_frame_ws c.

Lemma fst_span_cons (f : byte -> bool) (b : byte) (t : bytes) :
  fst (span f (b :: t)) = if f b then b :: fst (span f t) else [].
Proof. cbn [span]. destruct (f b); [|reflexivity]. destruct (span f t); reflexivity. Qed.

Lemma span_all (f : byte -> bool) (l : bytes) : forallb f (fst (span f l)) = true.
Proof.
  induction l as [|b t IH]; [reflexivity|]. rewrite fst_span_cons. destruct (f b) eqn:E; [|reflexivity].
  cbn [forallb]. rewrite E, IH. reflexivity.
Qed.

Lemma span_forall_app (f : byte -> bool) (a : bytes) (d : byte) (r : bytes) :
  forallb f a = true -> f d = false -> span f (a ++ d :: r) = (a, d :: r).
Proof.
  induction a as [|b t IH]; intros H Hd.
  - cbn [app span]. rewrite Hd. reflexivity.
  - cbn [forallb] in H. apply andb_true_iff in H as [H1 H2]. cbn [app span]. rewrite H1, (IH H2 Hd). reflexivity.
Qed.

Lemma span_forall_all (f : byte -> bool) (a : bytes) : forallb f a = true -> span f a = (a, []).
Proof.
  induction a as [|b t IH]; intro H; [reflexivity|].
  cbn [forallb] in H. apply andb_true_iff in H as [H1 H2]. cbn [span]. rewrite H1, (IH H2). reflexivity.
Qed.

Lemma sp_not_dig : is_dig base62 sp = false. Proof. reflexivity. Qed.
Lemma fws_not_alnum b : is_frame_ws b = true -> is_alnum b = false.
Proof. destruct b; vm_compute; intro H; try reflexivity; discriminate H. Qed.
Lemma fws_eqb_sp b : is_frame_ws b = false -> Byte.eqb b sp = false.
Proof. destruct b; vm_compute; intro H; try reflexivity; discriminate H. Qed.

Lemma span_collapse_digits (R : bytes) : forall r,
  filter (is_dig base62) (fst (span frun (collapse_ws R r))) = filter (is_dig base62) (fst (span grun R)).
Proof.
  induction R as [|c t IH]; intro r; [reflexivity|].
  cbn [collapse_ws]. rewrite (fst_span_cons grun). unfold grun at 1.
  destruct (is_frame_ws c) eqn:Ew.
  - rewrite orb_true_r. cbn [filter]. rewrite (fws_not_dig c Ew).
    destruct r.
    + apply IH.
    + rewrite fst_span_cons. change (frun sp) with true. cbn iota. cbn [filter]. rewrite sp_not_dig. apply IH.
  - rewrite orb_false_r. rewrite fst_span_cons. unfold frun at 1. rewrite (fws_eqb_sp c Ew), orb_false_r.
    destruct (is_alnum c); [|reflexivity]. cbn [filter]. rewrite IH. reflexivity.
Qed.

Lemma tws_frun_not_dig b : is_trim_ws b = true -> frun b = true -> is_dig base62 b = false.
Proof. destruct b; vm_compute; intros H1 H2; try reflexivity; try discriminate H1; discriminate H2. Qed.

Lemma span_tws_digits (W : bytes) : forallb is_trim_ws W = true ->
  filter (is_dig base62) (fst (span frun W)) = [].
Proof.
  induction W as [|b t IH]; intro H; [reflexivity|].
  cbn [forallb] in H. apply andb_true_iff in H as [H1 H2].
  rewrite fst_span_cons. destruct (frun b) eqn:E; [|reflexivity].
  cbn [filter]. rewrite (tws_frun_not_dig b H1 E). apply IH. exact H2.
Qed.

Lemma span_trim_back (Y W : bytes) : forallb is_trim_ws W = true ->
  filter (is_dig base62) (fst (span frun (Y ++ W))) = filter (is_dig base62) (fst (span frun Y)).
Proof.
  intro H. induction Y as [|b t IH].
  - cbn [app]. rewrite span_tws_digits by exact H. reflexivity.
  - cbn [app]. rewrite !fst_span_cons. destruct (frun b); [|reflexivity].
    cbn [filter]. rewrite IH. reflexivity.
Qed.

Lemma span_firstn (g : byte -> bool) (A : bytes) (d : byte) (rest : bytes) (j : nat) :
  forallb g A = true -> g d = false ->
  fst (span g (firstn j (A ++ d :: rest))) = firstn j A.
Proof.
  intros HA Hd. destruct (Nat.le_gt_cases j (length A)) as [Hj|Hj].
  - rewrite firstn_app. replace (j - length A)%nat with 0%nat by lia.
    rewrite firstn_O, app_nil_r. rewrite span_forall_all; [reflexivity|].
    rewrite <- (firstn_skipn j A) in HA. rewrite forallb_app in HA. apply andb_true_iff in HA as [HA _]. exact HA.
  - rewrite firstn_app. rewrite (firstn_all2 A) by lia.
    destruct (j - length A)%nat as [|m] eqn:Em; [lia|]. cbn [firstn].
    rewrite span_forall_app by assumption. reflexivity.
Qed.

Lemma filter_firstn (p : byte -> bool) (l : bytes) : forall j,
  exists n, filter p (firstn j l) = firstn n (filter p l).
Proof.
  induction l as [|b t IH]; intro j.
  - exists 0%nat. destruct j; reflexivity.
  - destruct j as [|j]; [exists 0%nat; reflexivity|].
    destruct (IH j) as (n & E). cbn [firstn filter]. destruct (p b).
    + exists (S n). cbn [firstn]. rewrite E. reflexivity.
    + exists n. exact E.
Qed.

(* ---------- normalising the header sentence followed by its period ---------- *)

Lemma collapse_join_app (ws : list bytes) (x : bytes) : ws <> [] -> Forall aword ws ->
  forall r, collapse_ws (join_sp ws ++ x) r = join_sp ws ++ collapse_ws x false.
Proof.
  induction ws as [|w t IH]; intros Hne HF r; [congruence|].
  inversion HF as [|? ? [Hw Ha] Ht]; subst. destruct t as [|w2 t'].
  - cbn [join_sp]. apply collapse_alnum_app; assumption.
  - rewrite join_sp_cons by discriminate. rewrite <- app_assoc.
    rewrite collapse_alnum_app by assumption. cbn [app collapse_ws]. rewrite sp_fws.
    rewrite (IH ltac:(discriminate) Ht true). rewrite <- app_assoc. reflexivity.
Qed.

Lemma normalise_header_dot (ws : list bytes) (R : bytes) : ws <> [] -> Forall aword ws ->
  exists Y W, collapse_ws R false = Y ++ W /\ forallb is_trim_ws W = true /\
    normalise (join_sp ws ++ dot :: R) = join_sp ws ++ dot :: Y.
Proof.
  intros Hne HF. unfold normalise. rewrite collapse_join_app by assumption.
  cbn [collapse_ws]. change (is_frame_ws dot) with false. cbn iota.
  set (X := collapse_ws R false).
  destruct (drop_while_spec is_trim_ws (rev X)) as (pre & H1 & H2 & H3).
  set (d := drop_while is_trim_ws (rev X)) in *.
  assert (EX : X = rev d ++ rev pre).
  { rewrite <- (rev_involutive X), H1, rev_app_distr. reflexivity. }
  exists (rev d), (rev pre). split; [exact EX|]. split; [apply forallb_rev; exact H2|].
  rewrite EX.
  replace (join_sp ws ++ dot :: rev d ++ rev pre) with ([] ++ (join_sp ws ++ dot :: rev d) ++ rev pre)
    by (cbn [app]; rewrite <- app_assoc; reflexivity).
  apply trim_space_unique; [reflexivity|apply forallb_rev; exact H2|].
  right. split.
  - destruct (join_first ws Hne HF) as (a & t & E & Ha). rewrite E. exists a, (t ++ dot :: rev d).
    split; [reflexivity|apply alnum_not_tws; exact Ha].
  - destruct H3 as [H3|(z & t & H3 & Hz)].
    + rewrite H3. cbn [rev]. exists (join_sp ws), dot. split; [reflexivity|reflexivity].
    + rewrite H3. cbn [rev]. exists (join_sp ws ++ dot :: rev t), z. split; [|exact Hz].
      rewrite <- app_assoc. reflexivity.
Qed.

(* ---------- the header regexp on the canonical header ---------- *)

Lemma strip_prefix_app (p l : bytes) : strip_prefix p (p ++ l) = Some l.
Proof.
  induction p as [|x t IH]; [reflexivity|]. cbn [app strip_prefix].
  rewrite (Byte.byte_dec_lb (eq_refl x)). exact IH.
Qed.

Lemma mab_enc Y : match_after_brand (format_upper ++ sp :: c_saltpack_EncryptionArmorString ++ dot :: Y)
  = Some (c_saltpack_EncryptionArmorString, fst (span frun Y)).
Proof. reflexivity. Qed.
Lemma mab_sig Y : match_after_brand (format_upper ++ sp :: c_saltpack_SignedArmorString ++ dot :: Y)
  = Some (c_saltpack_SignedArmorString, fst (span frun Y)).
Proof. reflexivity. Qed.
Lemma mab_det Y : match_after_brand (format_upper ++ sp :: c_saltpack_DetachedSignatureArmorString ++ dot :: Y)
  = Some (c_saltpack_DetachedSignatureArmorString, fst (span frun Y)).
Proof. reflexivity. Qed.

Lemma mab_label aty Y : armorable aty ->
  match_after_brand (format_upper ++ sp :: type_string aty ++ dot :: Y) = Some (type_string aty, fst (span frun Y)).
Proof. intros [->|[->| ->]]; [apply mab_enc|apply mab_sig|apply mab_det]. Qed.

Lemma match_header_frame (brand : bytes) (aty : Z) (Y : bytes) : brand_ok brand -> armorable aty ->
  match_header (make_frame header_marker aty brand ++ dot :: Y) = Some (brand, type_string aty, fst (span frun Y)).
Proof.
  intros [Hb _] Ha. destruct brand as [|b0 bt].
  - destruct Ha as [->|[->| ->]]; reflexivity.
  - rewrite make_frame_eq by exact Ha.
    set (br := b0 :: bt) in *.
    assert (E : join_sp ([header_marker] ++ brand_words br ++ [format_upper; type_string aty]) ++ dot :: Y =
                (header_marker ++ [sp]) ++ br ++ sp :: (format_upper ++ sp :: type_string aty ++ dot :: Y)).
    { unfold br. cbn [brand_words app]. rewrite !join_sp_cons by discriminate. cbn [join_sp].
      rewrite <- !app_assoc. cbn [app]. rewrite <- !app_assoc. reflexivity. }
    rewrite E. unfold match_header. rewrite strip_prefix_app.
    rewrite (span_forall_app is_alnum br sp _ Hb eq_refl).
    unfold br at 1. cbv iota beta. change (Byte.eqb sp sp) with true. cbv iota.
    rewrite mab_label by exact Ha. reflexivity.
Qed.

(* ---------- the armored classifier on genuine messages ---------- *)

Lemma armor_type_armorable typ : armorable (armor_type_of typ).
Proof.
  unfold armor_type_of, armorable. destruct (typ =? mt_attached)%Z; [auto|].
  destruct (typ =? mt_detached)%Z; auto.
Qed.

Lemma type_string_label typ : type_string (armor_type_of typ) = label_of typ.
Proof.
  unfold armor_type_of, label_of. destruct (typ =? mt_attached)%Z; [reflexivity|].
  destruct (typ =? mt_detached)%Z; reflexivity.
Qed.

Lemma valid_grun b : valid_armor_byte b = true -> grun b = true.
Proof. destruct b; vm_compute; intro H; try reflexivity; discriminate H. Qed.

Lemma frun_good62 (s : bytes) : forallb frun s = true -> good62 s.
Proof.
  intros H b Hb. pose proof (proj1 (forallb_forall _ _) H b Hb) as Hf. unfold frun in Hf.
  apply orb_true_iff in Hf as [Hf|Hf].
  - left. apply alnum_is_dig. exact Hf.
  - right. apply eqb_sp_eq in Hf. subst b. reflexivity.
Qed.

(* the header of a genuine armored message as a word list *)
Lemma header_words (aty : Z) (brand : bytes) : armorable aty -> brand_ok brand ->
  exists ws, ws <> [] /\ Forall aword ws /\ make_frame header_marker aty brand = join_sp ws.
Proof.
  intros Ha Hb. destruct (make_frame_canon header_marker aty brand (or_introl eq_refl) Ha Hb) as (a & b & _ & E & HF).
  eexists. split; [|split; [exact HF|exact E]]. discriminate.
Qed.

(* (TARGET) C16 armored, cut after the header period: once the cut lies in the body, the
   answer is "need more data" until the first 43-character block is complete and
   exactly (brand, mode, version) afterwards *)
Lemma armored_prefix_stable_body (maj mi typ : Z) (fields : list mval) (rest : bytes) (brand : bytes) (k : nat) :
  spec_header_ok maj mi typ fields -> brand_ok brand ->
  let msg := spec_message maj mi typ fields rest in
  (32 <= length msg)%nat ->
  let text := armor62_seal msg (armor_type_of typ) brand in
  let hlen := length (make_frame header_marker (armor_type_of typ) brand) in
  (hlen < k)%nat ->
  armored_prefix (firstn k text) = (brand, Cls typ (mkV maj mi)) \/
  armored_prefix (firstn k text) = ([], ClsShort).
Proof.
  intros Hok Hb msg Hmsg text hlen Hk.
  pose proof (armor_type_armorable typ) as Ha.
  set (aty := armor_type_of typ) in *.
  set (hdr := make_frame header_marker aty brand) in *.
  set (chars := BaseX.encode base62 msg).
  set (body := space_words (S (length chars)) chars 0).
  set (tl := sp :: make_frame footer_marker aty brand ++ [dot; x0a]).
  assert (Etext : text = hdr ++ dot :: (sp :: body) ++ dot :: tl).
  { unfold text, armor62_seal, armor_seal. fold hdr chars body. unfold tl. cbn [app]. reflexivity. }
  destruct (k - hlen)%nat as [|j] eqn:Ej; [lia|].
  assert (Epre : firstn k text = hdr ++ dot :: firstn j ((sp :: body) ++ dot :: tl)).
  { rewrite Etext, firstn_app. fold hlen. rewrite Ej. rewrite (firstn_all2 hdr) by (fold hlen; lia).
    reflexivity. }
  set (R := firstn j ((sp :: body) ++ dot :: tl)) in *.
  destruct (header_words aty brand Ha Hb) as (ws & Hne & HF & Ehdr).
  destruct (normalise_header_dot ws R Hne HF) as (Y & W & EYW & HW & Enorm).
  rewrite <- Ehdr in Enorm. fold hdr in Enorm.
  pose proof (match_header_frame brand aty Y Hb Ha) as Emh. fold hdr in Emh.
  set (bd := fst (span frun Y)) in *.
  (* the digits of the body run *)
  assert (Hbody : forallb grun (sp :: body) = true).
  { cbn [forallb]. change (grun sp) with true. cbn [andb].
    apply (forallb_imp valid_armor_byte grun); [exact valid_grun|].
    apply (shape_scan_valid body 0 0). exact (armor_body_shape msg). }
  assert (Hdig : filter (is_dig base62) (sp :: body) = chars).
  { cbn [filter]. rewrite sp_not_dig. exact (armor_body_digits msg). }
  assert (HD : exists n, filter (is_dig base62) bd = firstn n chars).
  { unfold bd. rewrite <- (span_trim_back Y W HW), <- EYW, span_collapse_digits.
    unfold R. rewrite span_firstn by (try exact Hbody; reflexivity).
    destruct (filter_firstn (is_dig base62) (sp :: body) j) as (n & En). exists n. rewrite En, Hdig. reflexivity. }
  destruct HD as (n & HD).
  assert (Hgood : good62 bd) by (apply frun_good62; apply span_all).
  (* the encoding starts with the complete first block *)
  set (blk := firstn 32 msg).
  assert (Hblk : length blk = 32%nat) by (unfold blk; rewrite firstn_length; lia).
  assert (Echars : chars = encode_block base62 blk ++ BaseX.encode base62 (skipn 32 msg)).
  { unfold chars. rewrite <- (firstn_skipn 32 msg) at 1. fold blk.
    apply (encode_app_full base62 b62_lo b62_hi b62_nodup b62_ibl). rewrite Hblk. reflexivity. }
  assert (Hebl : length (encode_block base62 blk) = 43%nat).
  { pose proof (encode_block_len base62 b62_lo b62_hi b62_nodup b62_ibl blk) as H.
    unfold len in H. rewrite Hblk in H. change (min_chars base62 (N.of_nat 32)) with (obl base62) in H.
    rewrite b62_obl in H. lia. }
  unfold armored_prefix. rewrite Epre, Enorm, Emh.
  destruct (BaseX.decode base62 bd) as [dec err] eqn:Edec.
  destruct (N.ltb_spec (len (filter (is_dig base62) bd)) 43) as [Hshort|Hlong].
  - right. destruct (decode62_short bd Hgood Hshort) as [H1 H2]. rewrite Edec in H1, H2. cbn [fst snd] in H1, H2.
    assert (E : Nat.ltb (length dec) 32 = true) by (apply Nat.ltb_lt; exact H1). rewrite E.
    destruct H2 as [->| ->]; reflexivity.
  - left.
    assert (HD2 : filter (is_dig base62) bd = encode_block base62 blk ++ firstn (n - 43) (BaseX.encode base62 (skipn 32 msg))).
    { rewrite HD in Hlong |- *. rewrite Echars in Hlong |- *. rewrite firstn_app, Hebl in Hlong |- *.
      destruct (Nat.le_gt_cases 43 n) as [Hn|Hn].
      - rewrite firstn_all2 by lia. reflexivity.
      - exfalso. unfold len in Hlong. rewrite app_length, !firstn_length in Hlong. lia. }
    destruct (decode62_first_block bd blk _ Hgood Hblk HD2) as (Y' & EY). rewrite Edec in EY. cbn [fst] in EY.
    assert (E : Nat.ltb (length dec) 32 = false).
    { apply Nat.ltb_ge. rewrite EY, app_length. lia. }
    rewrite E.
    assert (Ebs : binary_slice dec = Cls typ (mkV maj mi)).
    { apply (binary_slice_agree maj mi typ fields rest); [exact Hok|rewrite EY, app_length; lia|].
      rewrite EY, firstn_app. replace (23 - length blk)%nat with 0%nat by lia.
      rewrite firstn_O, app_nil_r. unfold blk. rewrite firstn_firstn. reflexivity. }
    rewrite Ebs. unfold aty. rewrite type_string_label. unfold label_of.
    rewrite ar_bytes_eqb_refl. reflexivity.
Qed.

(* ---------- the header regexp needs a period ---------- *)

Lemma strip_prefix_some (p : bytes) : forall l r, strip_prefix p l = Some r -> l = p ++ r.
Proof.
  induction p as [|x t IH]; intros l r H.
  - cbn [strip_prefix] in H. injection H as <-. reflexivity.
  - destruct l as [|y l']; cbn [strip_prefix] in H; [discriminate|].
    destruct (Byte.eqb x y) eqn:E; [|discriminate].
    apply Byte.byte_dec_bl in E. subst y. cbn [app]. f_equal. apply IH. exact H.
Qed.

Lemma span_eq (f : byte -> bool) (l : bytes) : forall a r, span f l = (a, r) -> l = a ++ r.
Proof.
  induction l as [|b t IH]; intros a r H.
  - cbn [span] in H. injection H as <- <-. reflexivity.
  - cbn [span] in H. destruct (f b).
    + destruct (span f t) as [a' r'] eqn:E. injection H as <- <-. cbn [app]. f_equal. apply IH. reflexivity.
    + injection H as <- <-. reflexivity.
Qed.

Definition try_label (r ts : bytes) : option (bytes * bytes) :=
  match strip_prefix ts r with
  | None => None
  | Some r2 =>
    let r3 := match r2 with b :: t => if Byte.eqb b sp then t else r2 | [] => r2 end in
    match r3 with
    | b :: t => if Byte.eqb b dot then Some (ts, fst (span (fun c => is_alnum c || Byte.eqb c sp) t)) else None
    | [] => None
    end
  end.

Lemma mab_eq (l : bytes) :
  match_after_brand l =
  match strip_prefix (format_upper ++ [sp]) l with
  | None => None
  | Some r =>
    match try_label r c_saltpack_EncryptionArmorString with
    | Some x => Some x
    | None => match try_label r c_saltpack_SignedArmorString with
              | Some x => Some x
              | None => try_label r c_saltpack_DetachedSignatureArmorString
              end
    end
  end.
Proof. reflexivity. Qed.

Lemma try_label_nodot (r ts : bytes) : ~ In dot r -> try_label r ts = None.
Proof.
  intro H. unfold try_label. destruct (strip_prefix ts r) as [r2|] eqn:E; [|reflexivity].
  apply strip_prefix_some in E. subst r.
  assert (H2 : ~ In dot r2) by (intro; apply H; apply in_or_app; right; assumption).
  cbv zeta. destruct r2 as [|b t]; [reflexivity|].
  assert (Hb : Byte.eqb b dot = false).
  { destruct (Byte.eqb b dot) eqn:Eb; [|reflexivity]. apply Byte.byte_dec_bl in Eb. subst b.
    exfalso. apply H2. left. reflexivity. }
  destruct (Byte.eqb b sp).
  - destruct t as [|b2 t2]; [reflexivity|].
    destruct (Byte.eqb b2 dot) eqn:Eb; [|reflexivity]. apply Byte.byte_dec_bl in Eb. subst b2.
    exfalso. apply H2. right. left. reflexivity.
  - rewrite Hb. reflexivity.
Qed.

Lemma mab_nodot (l : bytes) : ~ In dot l -> match_after_brand l = None.
Proof.
  intro H. rewrite mab_eq. destruct (strip_prefix (format_upper ++ [sp]) l) as [r|] eqn:E; [|reflexivity].
  apply strip_prefix_some in E. subst l.
  assert (H2 : ~ In dot r) by (intro; apply H; apply in_or_app; right; assumption).
  rewrite !try_label_nodot by exact H2. reflexivity.
Qed.

Lemma match_header_nodot (s : bytes) : ~ In dot s -> match_header s = None.
Proof.
  intro H. unfold match_header.
  destruct (strip_prefix (header_marker ++ [sp]) s) as [r|] eqn:E; [|reflexivity].
  apply strip_prefix_some in E. subst s.
  assert (H2 : ~ In dot r) by (intro; apply H; apply in_or_app; right; assumption).
  rewrite (mab_nodot r H2).
  destruct (span is_alnum r) as [w r2] eqn:Es. apply span_eq in Es. subst r.
  destruct w as [|w0 wt]; [reflexivity|]. destruct r2 as [|b t]; [reflexivity|].
  destruct (Byte.eqb b sp); [|reflexivity].
  rewrite mab_nodot; [reflexivity|]. intro Hin. apply H2. apply in_or_app. right. right. exact Hin.
Qed.

Lemma valid_nodot (s : bytes) : forallb valid_armor_byte s = true -> ~ In dot s.
Proof.
  intros H Hin. pose proof (proj1 (forallb_forall _ _) H dot Hin) as Hd. discriminate Hd.
Qed.

(* ---------- prefixes of a sentence of words ---------- *)

Inductive wpre : list bytes -> list bytes -> Prop :=
| wp_nil (ws : list bytes) : wpre [] ws
| wp_last (w' w x : bytes) (rest : list bytes) : w = w' ++ x -> wpre [w'] (w :: rest)
| wp_cons (w : bytes) (ws' ws : list bytes) : wpre ws' ws -> wpre (w :: ws') (w :: ws).

Lemma wpre_length (ws' ws : list bytes) : wpre ws' ws -> (length ws' <= length ws)%nat.
Proof. induction 1; cbn [length]; lia. Qed.

Lemma cls_is_prefix_app (p x : bytes) : is_prefix p (p ++ x) = true.
Proof.
  induction p as [|b t IH]; [reflexivity|]. cbn [app is_prefix].
  rewrite (Byte.byte_dec_lb (eq_refl b)). exact IH.
Qed.

Lemma cls_is_prefix_app_same (p x y : bytes) : is_prefix (p ++ x) (p ++ y) = is_prefix x y.
Proof.
  induction p as [|b t IH]; [reflexivity|]. cbn [app is_prefix].
  rewrite (Byte.byte_dec_lb (eq_refl b)). exact IH.
Qed.

Lemma join_sp_head (w : bytes) (t : list bytes) : exists x, join_sp (w :: t) = w ++ x.
Proof.
  destruct t as [|w2 t']; [exists []; cbn [join_sp]; symmetry; apply app_nil_r|].
  eexists. apply join_sp_cons. discriminate.
Qed.

Lemma wpre_is_prefix (ws' ws : list bytes) : wpre ws' ws -> is_prefix (join_sp ws') (join_sp ws) = true.
Proof.
  induction 1 as [ws|w' w x rest Hw|w ws' ws H IH].
  - reflexivity.
  - destruct (join_sp_head w rest) as (y & E). rewrite E, Hw. cbn [join_sp].
    rewrite <- app_assoc. apply cls_is_prefix_app.
  - destruct ws' as [|w2 t'].
    + destruct (join_sp_head w ws) as (y & E). rewrite E. cbn [join_sp]. apply cls_is_prefix_app.
    + assert (Hne : ws <> []) by (intros ->; apply wpre_length in H; cbn in H; lia).
      rewrite (join_sp_cons w (w2 :: t')) by discriminate. rewrite (join_sp_cons w ws Hne).
      rewrite cls_is_prefix_app_same. cbn [is_prefix].
      change (Byte.eqb sp sp) with true. cbn [andb]. exact IH.
Qed.

(* cutting a sentence of words: what remains is a sentence of words, possibly followed by one space *)
Lemma firstn_join (ws : list bytes) : Forall aword ws -> forall k,
  exists ws', wpre ws' ws /\ Forall aword ws' /\
    (firstn k (join_sp ws) = join_sp ws' \/ (ws' <> [] /\ firstn k (join_sp ws) = join_sp ws' ++ [sp])).
Proof.
  induction ws as [|w t IH]; intros HF k.
  - exists []. split; [constructor|]. split; [constructor|]. left. destruct k; reflexivity.
  - inversion HF as [|? ? [Hw Ha] Ht]; subst.
    destruct k as [|k'].
    { exists []. split; [constructor|]. split; [constructor|]. left. reflexivity. }
    set (k := S k').
    assert (Hcut : forall m, (0 < m)%nat -> aword (firstn m w) /\ w = firstn m w ++ skipn m w).
    { intros m Hm. split; [|symmetry; apply firstn_skipn]. split.
      - destruct w; [congruence|]. destruct m; [lia|]. discriminate.
      - exact (proj1 (alnum_firstn_skipn m w Ha)). }
    destruct t as [|w2 t'].
    + cbn [join_sp]. destruct (Hcut k ltac:(unfold k; lia)) as [Hk1 Hk2].
      exists [firstn k w]. split; [econstructor; exact Hk2|].
      split; [constructor; [exact Hk1|constructor]|]. left. reflexivity.
    + rewrite join_sp_cons by discriminate. rewrite firstn_app.
      destruct (Nat.le_gt_cases k (length w)) as [Hle|Hgt].
      * replace (k - length w)%nat with 0%nat by lia. rewrite firstn_O, app_nil_r.
        destruct (Hcut k ltac:(unfold k; lia)) as [Hk1 Hk2].
        exists [firstn k w]. split; [econstructor; exact Hk2|].
        split; [constructor; [exact Hk1|constructor]|]. left. reflexivity.
      * rewrite (firstn_all2 w) by lia.
        destruct (k - length w)%nat as [|m] eqn:Em; [lia|]. cbn [firstn].
        destruct (IH Ht m) as (ws'' & Hp & HF'' & Hcase).
        destruct ws'' as [|z r].
        -- exists [w]. split; [constructor; constructor|]. split; [constructor; [split; assumption|constructor]|].
           right. split; [discriminate|]. destruct Hcase as [E|[Hn _]]; [|congruence].
           rewrite E. reflexivity.
        -- exists (w :: z :: r). split; [constructor; exact Hp|].
           split; [constructor; [split; assumption|exact HF'']|].
           rewrite (join_sp_cons w (z :: r)) by discriminate.
           destruct Hcase as [E|[_ E]]; rewrite E; [left; reflexivity|right].
           split; [discriminate|]. rewrite <- app_assoc. reflexivity.
Qed.

Lemma normalise_firstn_join (ws : list bytes) (k : nat) : Forall aword ws ->
  exists ws', wpre ws' ws /\ Forall aword ws' /\ normalise (firstn k (join_sp ws)) = join_sp ws'.
Proof.
  intro HF. destruct (firstn_join ws HF k) as (ws' & Hp & HF' & [E|[_ E]]); exists ws';
    (split; [exact Hp|]); (split; [exact HF'|]); rewrite E.
  - apply normalise_join. exact HF'.
  - rewrite normalise_drop_back by reflexivity. apply normalise_join. exact HF'.
Qed.

Lemma partial_words_join (ws : list bytes) : Forall aword ws -> forall n, (length ws <= n)%nat ->
  partial_words_ok n (join_sp ws) = true.
Proof.
  induction ws as [|w t IH]; intros HF n Hn; [destruct n; reflexivity|].
  inversion HF as [|? ? [Hw Ha] Ht]; subst.
  destruct n as [|n]; [cbn [length] in Hn; lia|].
  destruct t as [|w2 t'].
  - cbn [join_sp]. destruct w as [|b0 bt]; [congruence|]. cbn [partial_words_ok].
    rewrite (span_forall_all is_alnum (b0 :: bt) Ha). reflexivity.
  - rewrite join_sp_cons by discriminate. destruct w as [|b0 bt]; [congruence|].
    cbn [app partial_words_ok]. change (b0 :: bt ++ sp :: join_sp (w2 :: t')) with ((b0 :: bt) ++ sp :: join_sp (w2 :: t')).
    rewrite (span_forall_app is_alnum (b0 :: bt) sp _ Ha eq_refl).
    change (Byte.eqb sp sp) with true. cbv iota. apply IH; [exact Ht|cbn [length] in *; lia].
Qed.

(* ---------- the partial-header branch ---------- *)

Lemma partial_final (aty : Z) (x y : bytes) : armorable aty ->
  is_prefix x (join_sp [header_marker; format_upper; type_string aty]) = true \/
  is_prefix y (join_sp [header_marker; format_upper; type_string aty]) = true ->
  let hp := header_marker ++ sp :: format_upper in
  let e := hp ++ sp :: c_saltpack_EncryptionArmorString in
  let sg := hp ++ sp :: c_saltpack_SignedArmorString in
  let d := hp ++ sp :: c_saltpack_DetachedSignatureArmorString in
  has_prefix e x || has_prefix sg x || has_prefix d x || has_prefix e y || has_prefix sg y || has_prefix d y = true.
Proof.
  intros Ha H hp e sg d. unfold has_prefix.
  destruct Ha as [->|[->| ->]].
  - change (join_sp [header_marker; format_upper; type_string mt_encryption]) with e in H.
    destruct H as [H|H]; rewrite H, ?orb_true_r, ?orb_true_l; reflexivity.
  - change (join_sp [header_marker; format_upper; type_string mt_attached]) with sg in H.
    destruct H as [H|H]; rewrite H, ?orb_true_r, ?orb_true_l; reflexivity.
  - change (join_sp [header_marker; format_upper; type_string mt_detached]) with d in H.
    destruct H as [H|H]; rewrite H, ?orb_true_r, ?orb_true_l; reflexivity.
Qed.

Lemma classify_partial (P : bytes) (ws' : list bytes) (aty : Z) (brand a b : bytes) :
  armorable aty -> type_string aty = a ++ sp :: b ->
  wpre ws' ([header_marker] ++ brand_words brand ++ [format_upper; a; b]) ->
  Forall aword ws' -> normalise P = join_sp ws' -> armored_prefix P = ([], ClsShort).
Proof.
  intros Ha Eab Hp HF En.
  assert (ET : join_sp [header_marker; format_upper; type_string aty] = join_sp [header_marker; format_upper; a; b]).
  { rewrite Eab. exact (join_sp_split_last [header_marker; format_upper] a b). }
  assert (Hlen : (length ws' <= 5)%nat).
  { apply wpre_length in Hp. rewrite !app_length in Hp. cbn [length] in Hp.
    destruct brand; cbn [brand_words length] in Hp; lia. }
  unfold armored_prefix. rewrite En.
  rewrite (match_header_nodot _ (valid_nodot _ (join_valid ws' HF))).
  rewrite (partial_words_join ws' HF 5 Hlen). cbn [negb].
  destruct ws' as [|x [|y [|z r]]].
  - reflexivity.
  - rewrite words_join_sp by (try discriminate; apply aword_nosp; exact HF).
    cbn [length nth].
    assert (E : has_prefix header_marker x = true).
    { unfold has_prefix. cbn [app] in Hp. inversion Hp as [|? ? x0 ? Hw|]; subst.
      - rewrite Hw. apply cls_is_prefix_app.
      - reflexivity. }
    rewrite E. reflexivity.
  - rewrite words_join_sp by (try discriminate; apply aword_nosp; exact HF).
    cbn [length nth]. cbn [app] in Hp. inversion Hp; subst. reflexivity.
  - rewrite words_join_sp by (try discriminate; apply aword_nosp; exact HF).
    cbn [length nth skipn].
    rewrite (partial_final aty (join_sp (x :: z :: r)) (join_sp (x :: y :: z :: r)) Ha); [reflexivity|].
    rewrite ET. destruct brand as [|b0 bt]; cbn [brand_words app] in Hp.
    + right. apply wpre_is_prefix. exact Hp.
    + left. apply wpre_is_prefix.
      inversion Hp as [| |? ? ? Hp2]; subst. inversion Hp2 as [| |? ? ? Hp3]; subst.
      constructor. exact Hp3.
Qed.

(* (TARGET) C16 armored, cut inside the header sentence: "need more data" *)
Lemma armored_prefix_stable_header (typ : Z) (payload brand : bytes) (k : nat) :
  known_type typ = true -> brand_ok brand ->
  let text := armor62_seal payload (armor_type_of typ) brand in
  let hlen := length (make_frame header_marker (armor_type_of typ) brand) in
  (k <= hlen)%nat ->
  armored_prefix (firstn k text) = ([], ClsShort).
Proof.
  intros _ Hb text hlen Hk.
  pose proof (armor_type_armorable typ) as Ha.
  destruct (make_frame_canon header_marker (armor_type_of typ) brand (or_introl eq_refl) Ha Hb)
    as (a & b & Eab & Ehdr & HF).
  destruct (normalise_firstn_join _ k HF) as (ws' & Hp & HF' & En).
  apply (classify_partial _ ws' (armor_type_of typ) brand a b Ha Eab Hp HF').
  rewrite <- En, <- Ehdr. f_equal.
  unfold text, armor62_seal, armor_seal. rewrite firstn_app.
  replace (k - length (make_frame header_marker (armor_type_of typ) brand))%nat with 0%nat by (fold hlen; lia).
  rewrite firstn_O, app_nil_r. reflexivity.
Qed.
