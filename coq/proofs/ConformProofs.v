(* ConformProofs.v — C08: what the library model emits IS the specified wire format:
   literal byte equality between the implementation model (coq/model, constants
   regenerated from /repo) and the specification model (coq/spec/Spec.v, literals
   copied from specs/*.md) instantiated with full 1 MiB chunks, minor version 0 and
   no extra fields.  Statements marked (TARGET) are used verbatim by props/. *)
From Coq Require Import List NArith ZArith Bool Lia ZifyN ZifyNat ZifyBool.
From Coq.Strings Require Import Byte.
From SP Require Import Bytes Params Msgpack Crypto Errors Nonce Packets Chunker Rand Sign Verify Encrypt Decrypt Signcrypt Spec
     MsgpackProofs ChunkerProofs SignProofs.
Import ListNotations.
Open Scope N_scope.

(* the library's chunking of a message, as the list of chunks a spec sender would declare *)
Definition canon_chunks (v : version) (B : nat) (msg : bytes) : list bytes :=
  if (vmaj v =? 1)%Z then match msg with [] => [] | _ => chunks B msg end else chunks B msg.

Definition canon_enc (v : version) (sender : option bytes) (eph_sk pkey : bytes) (rs : list rcpt) (msg : bytes) : S_enc :=
  mkSEnc (vmaj v) (vmin v) sender eph_sk pkey rs (canon_chunks v enc_block_size msg) [] [] [].

Definition canon_sig (v : version) (sk nonce : bytes) (msg : bytes) : S_sig :=
  mkSSig (vmaj v) (vmin v) sk nonce (canon_chunks v sig_block_size msg) msg [] [].

Definition canon_sc_rcpt (r : sc_rcpt) : S_sc_rcpt :=
  match r with BoxRcpt pk => S_BoxR pk | SymRcpt k i => S_SymR k i end.
Definition canon_sc (signer : option bytes) (eph_sk pkey : bytes) (rs : list sc_rcpt) (msg : bytes) : S_sc :=
  mkSSc 0 signer eph_sk pkey (map canon_sc_rcpt rs) (chunks enc_block_size msg) [] [] [].

(* ---------- auxiliary: the constants, one by one ---------- *)

Lemma k_format_name : format_name = S_format_name. Proof. reflexivity. Qed.
Lemma k_nonce_sender : nonce_sender_key_sbox = S_nonce_sender_key. Proof. reflexivity. Qed.
Lemma k_nonce_derived : nonce_derived_shared_key = S_nonce_derived. Proof. reflexivity. Qed.
Lemma k_nonce_pk_v1 : Consts.s_saltpack_nonceForPayloadKeyBox_0 = S_nonce_payload_key_v1. Proof. reflexivity. Qed.
Lemma k_nonce_recip : Consts.s_saltpack_nonceForPayloadKeyBoxV2_0 = S_nonce_recip_prefix. Proof. reflexivity. Qed.
Lemma k_nonce_pload : Consts.s_saltpack_nonceForChunkSecretBox_0 = S_nonce_payload_prefix. Proof. reflexivity. Qed.
Lemma k_attached : sig_attached_prefix = S_attached_prefix. Proof. reflexivity. Qed.
Lemma k_detached : sig_detached_prefix = S_detached_prefix. Proof. reflexivity. Qed.
Lemma k_encrypted : sig_encrypted_prefix = S_encrypted_prefix. Proof. reflexivity. Qed.
Lemma k_box_id : signcryption_boxkey_id_context = S_box_id_key. Proof. reflexivity. Qed.
Lemma k_sym_key : signcryption_symkey_context = S_sym_key_key. Proof. reflexivity. Qed.
Lemma k_mt_enc : mt_encryption = S_mode_encryption. Proof. reflexivity. Qed.
Lemma k_mt_att : mt_attached = S_mode_attached. Proof. reflexivity. Qed.
Lemma k_mt_det : mt_detached = S_mode_detached. Proof. reflexivity. Qed.
Lemma k_mt_sc : mt_signcryption = S_mode_signcryption. Proof. reflexivity. Qed.
Lemma k_enc_bs : enc_block_size = S_max_chunk.
Proof. unfold enc_block_size, S_max_chunk. apply (f_equal Z.to_nat). reflexivity. Qed.
Lemma k_sig_bs : sig_block_size = S_max_chunk.
Proof. unfold sig_block_size, S_max_chunk. apply (f_equal Z.to_nat). reflexivity. Qed.

Lemma k_recip_nonce (i : N) : nonce_payload_key_box_v2 i = S_nonce_recip_prefix ++ be64 i.
Proof. unfold nonce_payload_key_box_v2. rewrite k_nonce_recip. reflexivity. Qed.
Lemma k_chunk_nonce (i : N) : nonce_chunk_secretbox i = S_nonce_payload_prefix ++ be64 i.
Proof. unfold nonce_chunk_secretbox. rewrite k_nonce_pload. reflexivity. Qed.
Lemma k_hash_nonce (hh : bytes) (f : bool) (i : N) : hash16_flag_index hh f i = S_hash_nonce hh f i.
Proof. reflexivity. Qed.

Lemma ebs_N : N.of_nat enc_block_size = 1048576.
Proof. unfold enc_block_size. rewrite Z_nat_N. reflexivity. Qed.
Lemma ebs_pos : (0 < enc_block_size)%nat.
Proof. pose proof ebs_N. lia. Qed.

#[local] Opaque enc_block_size sig_block_size S_max_chunk.

(* ---------- auxiliary: the packet plan is the spec's packet list of the canonical chunking ---------- *)

Lemma mark_last_flag_last (l : list bytes) : mark_last l = S_flag_last l.
Proof.
  induction l as [|x t IH]; [reflexivity|].
  destruct t as [|y t']; [reflexivity|].
  change (mark_last (x :: y :: t')) with ((x, false) :: mark_last (y :: t')).
  change (S_flag_last (x :: y :: t')) with ((x, false) :: S_flag_last (y :: t')).
  rewrite IH. reflexivity.
Qed.

Lemma plan_canon (v : version) (B : nat) (msg : bytes) :
  plan v B msg = S_packets (vmaj v) (canon_chunks v B msg).
Proof.
  unfold plan, S_packets, canon_chunks. destruct (vmaj v =? 1)%Z.
  - unfold plan_v1. destruct msg; reflexivity.
  - unfold plan_v2. apply mark_last_flag_last.
Qed.

Lemma vmaj_not1_is2 (v : version) : (vmaj v = 1 \/ vmaj v = 2)%Z -> (vmaj v =? 1)%Z = false -> (vmaj v =? 2)%Z = true.
Proof. intros H E. lia. Qed.

Lemma chunks_sizes (B : nat) (b : byte) (m : bytes) : (0 < B)%nat ->
  Forall (fun ch : bytes => (1 <= length ch <= B)%nat) (chunks B (b :: m)).
Proof.
  intros HB. destruct (chunks_shape B HB (b :: m)) as (init & lastc & E & F & L & Nn & _).
  rewrite E. apply Forall_app. split.
  - eapply Forall_impl; [|exact F]. cbv beta. intros a Ha. lia.
  - constructor; [|constructor].
    destruct lastc as [|x t]; [specialize (Nn eq_refl); discriminate|]. cbn [length] in *. lia.
Qed.

#[local] Opaque mp_encode be64.

Lemma S_mapi_ext {A B} (f g : N -> A -> B) (l : list A) :
  (forall i x, f i x = g i x) -> forall i, S_mapi f i l = S_mapi g i l.
Proof.
  intros H. induction l as [|x t IH]; intro i; cbn [S_mapi]; [reflexivity|].
  rewrite H, IH. reflexivity.
Qed.

Lemma map_mapi_S_mapi {A B C} (g : B -> C) (f : N -> A -> B) (l : list A) :
  forall i, map g (mapi_from f i l) = S_mapi (fun i x => g (f i x)) i l.
Proof.
  induction l as [|x t IH]; intro i; cbn [map mapi_from S_mapi]; [reflexivity|].
  rewrite IH. reflexivity.
Qed.

Section Conf.
Variable c : crypto.
Hypothesis Hc : crypto_ok c.   (* only ok_sb_len is needed: 'the last 32 bytes of the box' = bytes 16..48 *)

(* (TARGET) the generated constants are the specification's literals *)
Lemma constants_conform :
  format_name = S_format_name /\
  nonce_sender_key_sbox = S_nonce_sender_key /\
  nonce_derived_shared_key = S_nonce_derived /\
  (forall i, nonce_payload_key_box v1 i = Some S_nonce_payload_key_v1) /\
  (forall i, nonce_payload_key_box v2 i = Some (S_nonce_recip_prefix ++ be64 i)) /\
  (forall i, nonce_chunk_secretbox i = S_nonce_payload_prefix ++ be64 i) /\
  (forall hh f i, nonce_chunk_signcryption hh f i = S_hash_nonce hh f i) /\
  (forall hh f i, nonce_mac_key_box_v2 hh f i = S_hash_nonce hh f i) /\
  sig_attached_prefix = S_attached_prefix /\ sig_detached_prefix = S_detached_prefix /\
  sig_encrypted_prefix = S_encrypted_prefix /\
  signcryption_boxkey_id_context = S_box_id_key /\ signcryption_symkey_context = S_sym_key_key /\
  mt_encryption = S_mode_encryption /\ mt_attached = S_mode_attached /\
  mt_detached = S_mode_detached /\ mt_signcryption = S_mode_signcryption /\
  enc_block_size = S_max_chunk /\ sig_block_size = S_max_chunk /\
  v1 = mkV 1 0 /\ v2 = mkV 2 0.
Proof.
  split; [exact k_format_name|]. split; [exact k_nonce_sender|]. split; [exact k_nonce_derived|].
  split. { intro i. change (nonce_payload_key_box v1 i) with (Some Consts.s_saltpack_nonceForPayloadKeyBox_0).
           rewrite k_nonce_pk_v1. reflexivity. }
  split. { intro i. change (nonce_payload_key_box v2 i) with (Some (nonce_payload_key_box_v2 i)).
           rewrite k_recip_nonce. reflexivity. }
  split; [exact k_chunk_nonce|].
  split; [exact k_hash_nonce|]. split; [exact k_hash_nonce|].
  split; [exact k_attached|]. split; [exact k_detached|]. split; [exact k_encrypted|].
  split; [exact k_box_id|]. split; [exact k_sym_key|].
  split; [exact k_mt_enc|]. split; [exact k_mt_att|]. split; [exact k_mt_det|]. split; [exact k_mt_sc|].
  split; [exact k_enc_bs|]. split; [exact k_sig_bs|].
  split; reflexivity.
Qed.

(* (TARGET) the library's chunking is one the specification allows: chunks of 1 byte
   to 1 MiB, the empty message as the single empty chunk (V2) / no chunk (V1) *)
Lemma canon_chunks_ok (v : version) (msg : bytes) :
  v = v1 \/ v = v2 -> S_chunks_ok (vmaj v) (canon_chunks v enc_block_size msg).
Proof.
  intros Hv. unfold S_chunks_ok, canon_chunks. rewrite <- k_enc_bs.
  destruct Hv as [-> | ->].
  - change (vmaj v1 =? 1)%Z with true. cbv iota.
    destruct msg as [|b m]; [constructor|]. apply chunks_sizes, ebs_pos.
  - change (vmaj v2 =? 1)%Z with false. cbv iota.
    destruct msg as [|b m]; [left; reflexivity|right]. split.
    + apply chunks_nonnil, ebs_pos.
    + apply chunks_sizes, ebs_pos.
Qed.

(* ---------- shared small facts ---------- *)

Lemma final_byte_conf (f : bool) : final_byte f = S_final_byte f.
Proof. reflexivity. Qed.

Lemma box_seal_conf (sk pk n m : bytes) : box_seal c sk pk n m = S_box c sk pk n m.
Proof. reflexivity. Qed.

Lemma mac_single_conf (sk pk n : bytes) : mac_key_single c sk pk n = S_box_zeros_last32 c sk pk n.
Proof.
  unfold mac_key_single, S_box_zeros_last32. rewrite box_seal_conf.
  apply firstn_all2. rewrite skipn_length. unfold S_box. rewrite (ok_sb_len c Hc).
  unfold zeros. rewrite repeat_length. clear. lia.
Qed.

(* ---------- encryption ---------- *)

Section Enc.
Variables (v : version) (sender : option bytes) (eph_sk pkey : bytes) (rs : list rcpt) (chs : list bytes).
Hypothesis Hv : (vmaj v = 1 \/ vmaj v = 2)%Z.
Let ssk := match sender with Some s => s | None => eph_sk end.
Let p := mkSEnc (vmaj v) (vmin v) sender eph_sk pkey rs chs [] [] [].

Lemma payload_key_nonce_conf (i : N) :
  match nonce_payload_key_box v i with Some n => n | None => [] end = S_payload_key_nonce (vmaj v) i.
Proof.
  unfold nonce_payload_key_box, S_payload_key_nonce.
  destruct (vmaj v =? 1)%Z eqn:E1; [exact k_nonce_pk_v1|].
  rewrite (vmaj_not1_is2 v Hv E1). apply k_recip_nonce.
Qed.

Lemma enc_entries_conf : forall (l : list rcpt) (i : N),
  map mv_receiver (mapi_from (enc_receiver_entry c v eph_sk pkey) i l) =
  S_mapi (fun (i : N) (r : bytes * bool) =>
            MArr ([if snd r then MNil else MBin (fst r);
                   MBin (S_box c (se_eph p) (fst r) (S_payload_key_nonce (se_major p) i) (se_pkey p))]
                  ++ se_extra_rcpt p)) i l.
Proof.
  induction l as [|r t IH]; intro i; cbn [map mapi_from S_mapi]; [reflexivity|].
  rewrite IH. f_equal.
  unfold mv_receiver, enc_receiver_entry. cbn [fst snd p se_eph se_major se_pkey se_extra_rcpt app].
  rewrite payload_key_nonce_conf. unfold S_box.
  destruct (snd r); reflexivity.
Qed.

Lemma enc_header_conf :
  mv_enc_header v mt_encryption (dh_pub c eph_sk)
                (sb_seal c pkey nonce_sender_key_sbox (dh_pub c ssk))
                (mapi_from (enc_receiver_entry c v eph_sk pkey) 0 rs)
  = S_enc_header_list c p.
Proof.
  unfold mv_enc_header, S_enc_header_list, mv_version.
  rewrite enc_entries_conf.
  cbn [p se_sender se_eph se_major se_minor se_pkey se_rcpts se_extra_hdr se_extra_rcpt app].
  rewrite k_format_name, k_mt_enc, k_nonce_sender. reflexivity.
Qed.

Lemma mac_key_conf (hh : bytes) (i : N) (rpk : bytes) :
  mac_key_sender c v i ssk eph_sk rpk hh = S_mac_key c p hh i rpk.
Proof.
  unfold mac_key_sender, S_mac_key. cbn [p se_sender se_eph se_major].
  fold ssk. destruct (vmaj v =? 1)%Z.
  - unfold nonce_mac_key_box_v1. apply mac_single_conf.
  - unfold sum512_truncate256, nonce_mac_key_box_v2. rewrite !mac_single_conf, !k_hash_nonce. reflexivity.
Qed.

Lemma auths_conf (hh ph : bytes) : forall (l : list rcpt) (i : N),
  map MBin (map (fun mk => payload_authenticator c mk ph)
                (mapi_from (fun i rc => mac_key_sender c v i ssk eph_sk (fst rc) hh) i l)) =
  S_mapi (fun (i : N) (r : bytes * bool) => MBin (firstn 32 (hmac512 c (S_mac_key c p hh i (fst r)) ph))) i l.
Proof.
  induction l as [|r t IH]; intro i; cbn [map mapi_from S_mapi]; [reflexivity|].
  rewrite IH. unfold payload_authenticator. rewrite mac_key_conf. reflexivity.
Qed.

Lemma encrypt_packets_conf (hh : bytes) : forall (ps : list (bytes * bool)) (n : N) (body : bytes),
  encrypt_packets c v pkey hh (mapi_from (fun i rc => mac_key_sender c v i ssk eph_sk (fst rc) hh) 0 rs) n ps = Ok body ->
  body = S_enc_packets c p hh n ps.
Proof.
  induction ps as [|[chunk final] t IH]; intros n body H; cbn [encrypt_packets S_enc_packets] in *.
  - injection H as <-. reflexivity.
  - destruct (negb (block_number_ok n)); [discriminate|].
    unfold payload_hash in H. cbn [p se_major se_pkey se_rcpts se_extra_pkt].
    destruct (encrypt_packets c v pkey hh _ (n + 1) t) as [rest|e] eqn:Er.
    2:{ destruct (vmaj v =? 1)%Z; [discriminate|]. destruct (vmaj v =? 2)%Z; discriminate. }
    apply IH in Er. subst rest. fold p.
    unfold mv_enc_block in H. rewrite k_chunk_nonce in H.
    destruct (vmaj v =? 1)%Z eqn:E1.
    + cbn [bind] in H. rewrite auths_conf in H. cbn [app].
      assert (E : body = _) by (injection H; intro E; symmetry; exact E). exact E.
    + rewrite (vmaj_not1_is2 v Hv E1) in H. cbn [bind] in H. rewrite auths_conf, final_byte_conf in H. cbn [app].
      assert (E : body = _) by (injection H; intro E; symmetry; exact E). exact E.
Qed.

End Enc.

(* (TARGET) encryption, V1 and V2 *)
Lemma encryption_conforms (v : version) (sender : option bytes) (eph_sk pkey : bytes)
      (rs : list rcpt) (pieces : list bytes) (out : bytes) :
  v = v1 \/ v = v2 ->
  seal_core c v sender eph_sk pkey rs pieces = Ok out ->
  out = S_encode_encryption c (canon_enc v sender eph_sk pkey rs (concat pieces)).
Proof.
  intros Hv H. apply vmaj_v in Hv.
  unfold seal_core in H. rewrite cw_session_plan in H by apply ebs_pos.
  rewrite plan_canon in H. rewrite (enc_header_conf v sender eph_sk pkey rs
     (canon_chunks v enc_block_size (concat pieces)) Hv) in H.
  match type of H with bind ?X _ = _ => destruct X as [body|e] eqn:Eb end; [|discriminate].
  apply (encrypt_packets_conf v sender eph_sk pkey rs (canon_chunks v enc_block_size (concat pieces)) Hv) in Eb.
  subst body. cbn [bind] in H.
  assert (E : out = _) by (injection H; intro E; symmetry; exact E). exact E.
Qed.

(* ---------- signatures ---------- *)

Section Sig.
Variables (v : version) (sk nonce : bytes) (chs : list bytes) (msg : bytes).
Hypothesis Hv : (vmaj v = 1 \/ vmaj v = 2)%Z.
Let p := mkSSig (vmaj v) (vmin v) sk nonce chs msg [] [].

Lemma sig_header_conf (typ : Z) :
  mv_sig_header v typ (ed_pub c sk) nonce = S_sig_header_list c p typ.
Proof.
  unfold mv_sig_header, S_sig_header_list, mv_version.
  cbn [p ss_major ss_minor ss_sk ss_nonce ss_extra_hdr app]. rewrite k_format_name. reflexivity.
Qed.

Lemma sign_packets_conf (hh : bytes) : forall (ps : list (bytes * bool)) (n : N) (body : bytes),
  sign_packets c v sk hh n ps = Ok body -> body = S_sig_packets c p hh n ps.
Proof.
  induction ps as [|[chunk final] t IH]; intros n body H; cbn [sign_packets S_sig_packets] in *.
  - injection H as <-. reflexivity.
  - unfold attached_sig_input in H. cbn [p ss_major ss_sk ss_extra_pkt].
    destruct (sign_packets c v sk hh (n + 1) t) as [rest|e] eqn:Er.
    2:{ destruct (vmaj v =? 1)%Z; [|destruct (vmaj v =? 2)%Z; [|discriminate]];
        destruct (check_chunk_state v (length chunk) n final); discriminate. }
    apply IH in Er. subst rest. fold p.
    unfold mv_sig_block in H. rewrite k_attached in H.
    destruct (vmaj v =? 1)%Z eqn:E1.
    + destruct (check_chunk_state v (length chunk) n final); [|discriminate].
      cbn [bind] in H. cbn [app].
      assert (E : body = _) by (injection H; intro E; symmetry; exact E). exact E.
    + rewrite (vmaj_not1_is2 v Hv E1) in H.
      destruct (check_chunk_state v (length chunk) n final); [|discriminate].
      cbn [bind] in H. rewrite final_byte_conf in H. cbn [app].
      assert (E : body = _) by (injection H; intro E; symmetry; exact E). exact E.
Qed.

End Sig.

(* (TARGET) attached signatures, V1 and V2; the header nonce is the 16 bytes drawn *)
Lemma attached_conforms (v : version) (sk : bytes) (pieces : list bytes) (r r' : rng) (out : bytes) :
  v = v1 \/ v = v2 ->
  sign_attached_stream c v sk pieces r = Ok (out, r') ->
  out = S_encode_attached c (canon_sig v sk (firstn 16 r) (concat pieces)).
Proof.
  intros Hv H. unfold sign_attached_stream in H.
  rewrite (known_version_v v Hv) in H. cbn [negb] in H. apply vmaj_v in Hv.
  destruct (read_full 16 r) as [[nonce r1]|] eqn:Er; [|discriminate].
  apply read_full_inv in Er. destruct Er as (-> & -> & _).
  rewrite cw_session_plan in H by apply sig_block_size_pos.
  rewrite plan_canon in H. unfold sig_header_bytes in H.
  rewrite (sig_header_conf v sk (firstn 16 r) (canon_chunks v sig_block_size (concat pieces)) (concat pieces)) in H.
  match type of H with bind ?X _ = _ => destruct X as [body|e] eqn:Eb end; [|discriminate].
  apply (sign_packets_conf v sk (firstn 16 r) (canon_chunks v sig_block_size (concat pieces)) (concat pieces) Hv) in Eb.
  subst body. cbn [bind] in H. rewrite k_mt_att in H.
  assert (E : out = _) by (injection H; intros _ E; symmetry; exact E). exact E.
Qed.

(* (TARGET) detached signatures *)
Lemma detached_conforms (v : version) (sk msg : bytes) (r r' : rng) (out : bytes) :
  v = v1 \/ v = v2 ->
  sign_detached c v sk msg r = Ok (out, r') ->
  out = S_encode_detached c (canon_sig v sk (firstn 16 r) msg).
Proof.
  intros Hv H. unfold sign_detached in H.
  rewrite (known_version_v v Hv) in H. cbn [negb] in H.
  destruct (read_full 16 r) as [[nonce r1]|] eqn:Er; [|discriminate].
  apply read_full_inv in Er. destruct Er as (-> & -> & _).
  unfold sig_header_bytes, detached_sig_input, detached_sig_input_from_hash in H.
  rewrite (sig_header_conf v sk (firstn 16 r) (canon_chunks v sig_block_size msg) msg) in H.
  rewrite k_mt_det, k_detached in H.
  assert (E : out = _) by (injection H; intros _ E; symmetry; exact E). exact E.
Qed.

(* ---------- signcryption ---------- *)

Section Sc.
Variables (signer : option bytes) (eph_sk pkey : bytes) (rs : list sc_rcpt) (chs : list bytes).
Let p := mkSSc 0 signer eph_sk pkey (map canon_sc_rcpt rs) chs [] [] [].

Lemma sc_entry_conf (i : N) (r : sc_rcpt) :
  mv_receiver (sc_receiver_entry c eph_sk (dh_pub c eph_sk) pkey i r) = S_sc_entry c p i (canon_sc_rcpt r).
Proof.
  destruct r as [pk|key ident]; unfold mv_receiver, sc_receiver_entry, S_sc_entry, canon_sc_rcpt;
    cbn [fst snd p sc_eph sc_pkey sc_extra_rcpt app].
  - unfold box_key_identifier, derived_box_key, S_box_zeros_last32.
    rewrite box_seal_conf, k_recip_nonce, k_nonce_derived, k_box_id. reflexivity.
  - unfold derived_sym_key. rewrite k_recip_nonce, k_sym_key. reflexivity.
Qed.

Lemma sc_entries_conf : forall (l : list sc_rcpt) (i : N),
  map mv_receiver (mapi_from (sc_receiver_entry c eph_sk (dh_pub c eph_sk) pkey) i l) =
  S_mapi (S_sc_entry c p) i (map canon_sc_rcpt l).
Proof.
  induction l as [|r t IH]; intro i; cbn [map mapi_from S_mapi]; [reflexivity|].
  rewrite IH, sc_entry_conf. reflexivity.
Qed.

Lemma sc_header_conf :
  mv_enc_header v2 mt_signcryption (dh_pub c eph_sk)
     (sb_seal c pkey nonce_sender_key_sbox (match signer with None => zeros 32 | Some s => ed_pub c s end))
     (mapi_from (sc_receiver_entry c eph_sk (dh_pub c eph_sk) pkey) 0 rs)
  = S_sc_header_list c p.
Proof.
  unfold mv_enc_header, S_sc_header_list.
  rewrite sc_entries_conf.
  cbn [p sc_minor sc_signer sc_eph sc_pkey sc_rcpts sc_extra_hdr app].
  rewrite k_format_name, k_mt_sc, k_nonce_sender.
  change (mv_version v2) with (MArr [MInt 2; MInt 0]).
  destruct signer; reflexivity.
Qed.

Lemma signcrypt_packets_conf (hh : bytes) : forall (ps : list (bytes * bool)) (n : N) (body : bytes),
  signcrypt_packets c signer pkey hh n ps = Ok body -> body = S_sc_packets c p hh n ps.
Proof.
  induction ps as [|[chunk final] t IH]; intros n body H; cbn [signcrypt_packets S_sc_packets] in *.
  - injection H as <-. reflexivity.
  - destruct (negb (block_number_ok n)); [discriminate|].
    cbn [p sc_signer sc_pkey sc_extra_pkt].
    destruct (signcrypt_packets c signer pkey hh (n + 1) t) as [rest|e] eqn:Er; [|discriminate].
    apply IH in Er. subst rest. fold p. cbn [bind] in H.
    unfold mv_signcrypt_block, nonce_chunk_signcryption, signcrypt_sig_input in H.
    rewrite k_hash_nonce, k_encrypted, final_byte_conf in H. cbn [app].
    assert (E : body = _) by (injection H; intro E; symmetry; exact E). exact E.
Qed.

End Sc.

(* (TARGET) signcryption *)
Lemma signcryption_conforms (signer : option bytes) (eph_sk pkey : bytes) (rs : list sc_rcpt)
      (pieces : list bytes) (out : bytes) :
  signcrypt_core c signer eph_sk pkey rs pieces = Ok out ->
  out = S_encode_signcryption c (canon_sc signer eph_sk pkey rs (concat pieces)).
Proof.
  intros H. unfold signcrypt_core in H.
  match type of H with (if ?b then _ else _) = _ => destruct b end; [discriminate|].
  rewrite cw_session_plan in H by apply ebs_pos.
  change (plan v2 enc_block_size (concat pieces)) with (mark_last (chunks enc_block_size (concat pieces))) in H.
  rewrite mark_last_flag_last in H.
  rewrite (sc_header_conf signer eph_sk pkey rs (chunks enc_block_size (concat pieces))) in H.
  match type of H with bind ?X _ = _ => destruct X as [body|e] eqn:Eb end; [|discriminate].
  apply (signcrypt_packets_conf signer eph_sk pkey rs (chunks enc_block_size (concat pieces))) in Eb.
  subst body. cbn [bind] in H.
  assert (E : out = _) by (injection H; intro E; symmetry; exact E). exact E.
Qed.

End Conf.

(* (TARGET) the one recorded deviation: the specification says the signature header
   nonce is 32 random bytes; the library draws 16 *)
Lemma sig_nonce_is_16_bytes (c : crypto) (v : version) (sk : bytes) (pieces : list bytes) (r r' : rng) (out : bytes) :
  sign_attached_stream c v sk pieces r = Ok (out, r') -> length (firstn 16 r) = 16%nat.
Proof.
  intros H. unfold sign_attached_stream in H.
  destruct (negb (known_version v)); [discriminate|].
  destruct (read_full 16 r) as [[nonce r1]|] eqn:Er; [|discriminate].
  apply read_full_inv in Er. destruct Er as (_ & _ & Hl).
  apply firstn_length_le'. exact Hl.
Qed.
