(* GoAstProofs5d.v - source ties for the ARMOR ENCODER STREAM of /repo/armor.go AFTER THE STICKY-ERROR FIX
   (armorEncoderStream.Write, .spaceAndOutputBuffer, .Close as translated in gen/GoAstEnc.v from the fixed source),
   split off GoAstProofs5b.v, which keeps the base-X stream encoder and is imported here.  The representation of the
   underlying io.Writer ([wr], [g_wr], [wr_write], [run_calls]), of the base-X encoder object ([gobj], [g_obj]), the
   fuel convention ([run2], every bound explicit) and the stepping tactics are those of GoAstProofs5b.v (see its header).
   The entries of 5b's header about the armor stream describe the code BEFORE the fix; THIS header is the description of
   the armor lemmas as they are now.

   THE FIX.  armorEncoderStream had no sticky error: a failed Write had already taken a word off s.buf, and a later Close
   returned nil for an armor that missed it (WriteFaultProofs.v, C14).  The fixed struct has a field `err error`;
   Write and Close return s.err at once when it is set; every error return of Write (encoder.Write,
   spaceAndOutputBuffer) and of Close (encoder.Close, spaceAndOutputBuffer, the Write of the last characters, the Fprintf
   of the footer) stores the error in s.err first.  Consequence used throughout: AFTER EVERY Write OR Close, s.err IS THE
   ERROR THAT CALL RETURNED (nil if it returned nil).

   THE OBJECT.  [g_armor chars footer w encv k err] = VStruct [buf := the unread characters of the bytes.Buffer; footer;
   encoded := g_wr w; encoder := encv; nWords := k; params := Armor62Params (15, 200, '.'); err := g_werr err], the fields
   in the order of the declaration ([g_armor_fields]); err : option string is nil or an error value.

   TARGETS (all Qed; closed under the global context).  W, C, SP : the meaning given to the three method calls
   s.encoder.Write(b), s.encoder.Close(), s.spaceAndOutputBuffer() (section variables: ANY functions).
   - go_spaceAndOutputBuffer_run   spaceAndOutputBuffer computes exactly [ga_space]: error, pending characters, word
       count and writer, for every state, every schedule of the writer and every value of s.err, which it leaves alone.
       Hypothesis: fuel >= 14 + len(chars)/15.  (nWords is a Go int; the evaluator's int does not wrap.)
   - ga_space_model                ga_space against ae_space (calls = word, separator, ... [sp_calls]).  No hypothesis.
   - go_armor_Write_glue           Write on an object with s.err = nil, for EVERY behaviour of its two callees: it returns
       the encoder's count with the first error of the two, AND THAT ERROR IS STORED IN s.err of the receiver the callees
       left (encoder.Write failed: the object with the new encoder and err := the error; spaceAndOutputBuffer failed:
       the struct it left, err := its error; no failure: the struct it left, untouched).  Hypotheses: fuel >= 12; W's
       result has the shape (n, error, encoder); SP's receiver result is a struct.
   - go_armor_Write_sticky         with s.err = x set: Write returns (0, x), calls neither W nor SP (no hypothesis on
       them) and leaves the object as it was.  Hypothesis: fuel >= 12.
   - go_armor_Close_glue           Close on an object with s.err = nil, for every behaviour of the callees, and after the
       two calls one Write of the remaining characters, then one Fprintf of padding + ". " + footer + ".\n"
       ([ga_close_tail]), every schedule: the error returned - whichever of the four places it comes from - is stored in
       s.err; if Close returns nil s.err is what SP left.  Hypotheses: fuel >= 20; shapes of the callee results.
   - go_armor_Close_sticky         with s.err = x set: Close returns x, calls nothing, writes nothing (NO footer) and
       leaves the object as it was.  Hypothesis: fuel >= 20.
   - ga_close_tail_model           the two final writes are the tail of ae_close.  No hypothesis.
   - ga_write / ga_close           the specification functions of Write / Close with the shared bytes.Buffer made explicit,
       now with the sticky error as an argument; s.err afterwards = the returned error.  ga_close now also gives the object
       it leaves (so that calls after a Close can be followed).  ga_write_sticky / ga_close_sticky: with err = Some x
       they return x (count 0) and the state unchanged (by computation).
   - ga_write_model, ga_close_model   for a stream WITHOUT stored error (err = None) the behaviour is what it was: against
       ae_write / ae_close, bytes written in order up to the first failure, count, new ae_state.  Hypotheses:
       gobj_ok base62 128, e.err = nil, the encoder's own writer (the bytes.Buffer) never fails.
   - go_armor_Write_aliased, go_armor_Close_aliased   the translated Write / Close on an object with s.err = nil compute
       ga_write / ga_close (the whole receiver object afterwards, INCLUDING s.err := the returned error) and agree with
       ae_write / ae_close, WHEN the method calls are read as: s.encoder.Write / Close = the base-X methods of 5b (trailing
       copy performed), s.spaceAndOutputBuffer = the translated method run after the encoder's output has appeared in
       s.buf, leaving s.err alone (go_spaceAndOutputBuffer_run).  These readings are hypotheses (they state the sharing of
       the bytes.Buffer, which the evaluator cannot express - item 2 of NOT EXPRESSIBLE in 5b's header, unchanged).
   OUTSIDE: a Close that returned nil leaves s.err = nil, so a SECOND Close after a successful one runs again (it writes
   the last characters and the footer a second time); the fix does not address that and no lemma here is about it.
   Meaning of the externs: as in 5b's header ("Buffer.Len/Next/Bytes", "fmt.Fprintf" = ONE Write of the formatted text). *)
From Coq Require Import List String NArith ZArith Bool Lia.
From Coq.Strings Require Import Byte.
From SP Require Import Bytes Consts Params Errors BaseX Encodings Armor Streams StreamProofs GoLang GoLang2 GoAst GoAstProofs GoAstProofs2 GoAstProofs3.
From SP Require Import GoAstEnc.
From SP Require Import GoAstProofs5b.
Import ListNotations.
Local Open Scope string_scope.
Local Open Scope list_scope.
Local Open Scope nat_scope.
(* ================= the armor encoder stream (/repo/armor.go) ================= *)

Lemma bpw_15 : bytes_per_word = 15.
Proof. reflexivity. Qed.
Lemma wpl_200 : words_per_line = 200%N.
Proof. reflexivity. Qed.

(* spaceAndOutputBuffer with a writer that may fail: (error, pending characters, words, writer) *)
Fixpoint ga_space (fuel : nat) (chars : bytes) (k : N) (w : wr) : option string * bytes * N * wr :=
  match fuel with
  | 0 => (None, chars, k, w)
  | S f =>
    if Nat.ltb 15 (List.length chars) then
      let wd := firstn 15 chars in
      let r := skipn 15 chars in
      let k1 := (k + 1)%N in
      let sep := if (k1 mod 200 =? 0)%N then x0a else sp in
      let (e1, w1) := wr_write w wd in
      match e1 with
      | Some x => (Some x, r, k1, w1)
      | None =>
        let (e2, w2) := wr_write w1 [sep] in
        match e2 with
        | Some x => (Some x, r, k1, w2)
        | None => ga_space f r k1 w2
        end
      end
    else (None, chars, k, w)
  end.

(* the armorEncoderStream object; Armor62Params *)
Definition g_params : gval :=
  VStruct [("BytesPerWord", VInt 15); ("WordsPerLine", VInt 200); ("Punctuation", VInt 46); ("Encoding", VNil)].
(* the fields, in the order of the struct declaration; err (the sticky error added by the fix of /repo/armor.go) is nil or
   an error value *)
Definition g_armor_fields (chars footer : bytes) (w : wr) (encv : gval) (k : N) (err : option string) : list (string * gval) :=
  [("buf", VBytes chars); ("footer", VBytes footer); ("encoded", g_wr w); ("encoder", encv);
   ("nWords", VInt (Z.of_N k)); ("params", g_params); ("err", g_werr err)].
Definition g_armor (chars footer : bytes) (w : wr) (encv : gval) (k : N) (err : option string) : gval :=
  VStruct (g_armor_fields chars footer w encv k err).
(* `s.err = e` on an armor object *)
Lemma g_armor_set_err (chars footer : bytes) (w : wr) (encv : gval) (k : N) (err err' : option string) :
  set_field (g_armor_fields chars footer w encv k err) "err" (g_werr err') = g_armor_fields chars footer w encv k err'.
Proof. reflexivity. Qed.

Definition byte_of_Z (z : Z) : byte := match Byte.of_N (Z.to_N z) with Some c => c | None => x00 end.

(* externs of the armor layer.  W, C, SP: the meaning given to the calls s.encoder.Write(b), s.encoder.Close()
   and s.spaceAndOutputBuffer() (results first, then the updated receiver) *)
(* the end of Close: the last characters, then the padding, the punctuation and the footer in one Fprintf *)
Definition ga_close_tail (chars footer : bytes) (w : wr) (k : N) : option string * wr * N :=
  let (e3, w3) := wr_write w chars in
  match e3 with
  | Some x => (Some x, w3, k)
  | None =>
    let k1 := (k + 1)%N in
    let pad := if Nat.eqb (List.length chars) 15 then (if (k1 mod 200 =? 0)%N then [x0a] else [sp]) else [] in
    let (e4, w4) := wr_write w3 (pad ++ [dot; sp] ++ footer ++ [dot; x0a]) in
    (e4, w4, k1)
  end.

Section ArmorExt.
Variable W : gval -> bytes -> option (list gval).
Variable C : gval -> option (list gval).
Variable SP : gval -> option (list gval).

Definition fprintf_format : bytes := [x25; x73; x25; x63; x20; x25; x73; x25; x63; x0a].   (* "%s%c %s%c\n" *)

Definition ext_ae : externs := fun fn args =>
  if String.eqb fn "Buffer.Len" then
    match args with [VBytes c] => Some [VInt (Z.of_nat (List.length c))] | _ => None end
  else if String.eqb fn "Buffer.Next" then
    match args with
    | [VBytes c; VInt n] => if Z.ltb n 0 then None else Some [VBytes (firstn (Z.to_nat n) c); VBytes (skipn (Z.to_nat n) c)]
    | _ => None
    end
  else if String.eqb fn "Buffer.Bytes" then
    match args with [VBytes c] => Some [VBytes c] | _ => None end
  else if String.eqb fn "fmt.Fprintf" then
    (* one Write of the formatted text: pad, punctuation, space, footer, punctuation, newline *)
    match args with
    | [wv; VBytes fmt; VBytes pad; VInt p1; VBytes footer; VInt p2] =>
      if bytes_eqb fmt fprintf_format then
        ext_bx base62 "Writer.Write" [wv; VBytes (pad ++ [byte_of_Z p1; sp] ++ footer ++ [byte_of_Z p2; x0a])]
      else None
    | _ => None
    end
  else if String.eqb fn "WriteCloser.Write" then
    match args with [ev; VBytes b] => W ev b | _ => None end
  else if String.eqb fn "WriteCloser.Close" then
    match args with [ev] => C ev | _ => None end
  else if String.eqb fn "armorEncoderStream.spaceAndOutputBuffer" then
    match args with [sv] => SP sv | _ => None end
  else ext_bx base62 fn args.
End ArmorExt.

Definition no_W : gval -> bytes -> option (list gval) := fun _ _ => None.
Definition no_C : gval -> option (list gval) := fun _ => None.

Local Notation S10 f := (S (S (S (S (S (S (S (S (S (S f)))))))))).

Definition sp_for : gstmt := Eval cbv in nth 0 (f_body f_saltpack_armorEncoderStream_spaceAndOutputBuffer) (SUnsup "").
Definition sp_cond : gexpr := Eval cbv in match sp_for with SFor c _ => c | _ => ENil end.
Definition sp_body : list gstmt := Eval cbv in match sp_for with SFor _ b => b | _ => [] end.

Definition env_sp (chars footer : bytes) (w : wr) (encv : gval) (k : N) (err : option string) (tl : option (bytes * Z)) : env :=
  ("s", g_armor chars footer w encv k err) ::
  match tl with
  | None => []
  | Some (b0, z0) => [("buf", VBytes b0); ("sep", VInt z0); ("err", VNil)]
  end.

Lemma rem200 (k : N) : (Z.rem (Z.of_N k) 200 =? 0)%Z = (k mod 200 =? 0)%N.
Proof.
  rewrite Z.rem_mod_nonneg by lia. change 200%Z with (Z.of_N 200). rewrite <- N2Z.inj_mod.
  destruct (k mod 200 =? 0)%N eqn:E; [apply N.eqb_eq in E|apply N.eqb_neq in E]; lia.
Qed.

Ltac ev_in5 h ::=
  eval cbv -[Z.eqb Z.ltb Z.leb Z.add Z.sub Z.mul Z.modulo Z.rem Z.quot Z.opp Z.of_nat Z.of_N Z.to_nat Z.to_N
             List.length nth_error firstn skipn app map concat
             Byte.to_N Byte.of_N Nat.eqb Nat.leb Nat.ltb Nat.min Nat.sub Nat.add Nat.mul Nat.div Nat.modulo
             N.add N.mul N.modulo N.eqb N.sub N.div
             BaseX.encode encoded_len ibl_nat obl_nat put_out g_werr
             range_loop2 for_loop2 exec2] in h.

Ltac map_lit5 A B f l :=
  lazymatch l with
  | nil => constr:(@nil B)
  | cons ?x ?t => let r := map_lit5 A B f t in let y := eval cbv beta in (f x) in constr:(@cons B y r)
  end.
Ltac lits4' :=
  match goal with
  | |- context [@map ?A ?B ?f ?l] => is_spine l; let r := map_lit5 A B f l in change (@map A B f l) with r
  end; cbv beta iota.
Ltac steps5 X ::= repeat first [step5 X | use_head_hyp5 | lits1 | lits2 | lits3 | lits4' | zdec].

Section ArmorProofs.
Variable W : gval -> bytes -> option (list gval).
Variable C : gval -> option (list gval).
Variable SP : gval -> option (list gval).

Lemma space_loop (footer : bytes) (encv : gval) (err : option string) (f : nat) :
  forall (n : nat) (chars : bytes) (k : N) (w : wr) (tl : option (bytes * Z)),
  List.length chars / 15 < n ->
  let '(er, chars', k', w') := ga_space n chars k w in
  exists env',
    for_loop2 (ext_ae W C SP) (S10 f) sp_cond sp_body [SReturn [ENil]] n (env_sp chars footer w encv k err tl)
    = CRet [g_werr er] env' /\
    lookup "s" env' = Some (g_armor chars' footer w' encv k' err).
Proof.
  induction n as [|n IH]; intros chars k w tl Hn; [inversion Hn|].
  cbn [ga_space].
  destruct w as [log sched].
  unfold sp_cond, sp_body, env_sp, g_armor, g_armor_fields, g_params, g_wr. cbn [w_log w_sched].
  match goal with
  | |- context [for_loop2 ?x ?ff ?c ?b ?r ?n0 ?e0] => remember (for_loop2 x ff c b r n0 e0) as R eqn:HR
  end.
  symmetry in HR. rewrite for_loop2_S in HR.
  destruct (Nat.ltb 15 (List.length chars)) eqn:Elen.
  2:{ apply Nat.ltb_ge in Elen.
      destruct tl as [[b0 z0]|]; run_hyp5 (ext_ae W C SP) HR; subst R; eexists; (split; [reflexivity|reflexivity]). }
  apply Nat.ltb_lt in Elen.
  assert (Hk1 : (Z.of_N k + 1)%Z = Z.of_N (k + 1)) by lia.
  pose proof (rem200 (k + 1)) as Hrem.
  assert (Hstep : forall sep, sep = (if ((k + 1) mod 200 =? 0)%N then x0a else sp) ->
    let wd := firstn 15 chars in
    let (e1, w1) := wr_write (mkWr log sched) wd in
    match e1 with
    | Some x => exists env', R = CRet [VErr x []] env' /\ lookup "s" env' = Some (g_armor (skipn 15 chars) footer w1 encv (k + 1) err)
    | None =>
      let (e2, w2) := wr_write w1 [sep] in
      match e2 with
      | Some x => exists env', R = CRet [VErr x []] env' /\ lookup "s" env' = Some (g_armor (skipn 15 chars) footer w2 encv (k + 1) err)
      | None => exists z0, for_loop2 (ext_ae W C SP) (S10 f) sp_cond sp_body [SReturn [ENil]] n
                             (env_sp (skipn 15 chars) footer w2 encv (k + 1) err (Some (wd, z0))) = R
      end
    end).
  { intros sep Hsep. cbv zeta.
    destruct ((k + 1) mod 200 =? 0)%N eqn:Emod; subst sep;
    destruct tl as [[b0 z0]|]; run_hyp5 (ext_ae W C SP) HR; rewrite Hk1 in HR; run_hyp5 (ext_ae W C SP) HR;
    (destruct sched as [|[x|] sched]; hr_simpl HR; run_hyp5 (ext_ae W C SP) HR; cbn [wr_write w_sched w_log];
     [ eexists; unfold sp_cond, sp_body, env_sp, g_armor, g_armor_fields, g_params, g_wr; cbn [w_log w_sched]; rewrite !map_app; exact HR
     | subst R; eexists; split; [reflexivity|]; unfold g_armor, g_armor_fields, g_params, g_wr; cbn [w_log w_sched]; rewrite map_app; reflexivity
     | destruct sched as [|[y|] sched]; hr_simpl HR; run_hyp5 (ext_ae W C SP) HR; cbn [wr_write w_sched w_log];
       [ eexists; unfold sp_cond, sp_body, env_sp, g_armor, g_armor_fields, g_params, g_wr; cbn [w_log w_sched]; rewrite !map_app; exact HR
       | subst R; eexists; split; [reflexivity|]; unfold g_armor, g_armor_fields, g_params, g_wr; cbn [w_log w_sched]; rewrite !map_app; reflexivity
       | eexists; unfold sp_cond, sp_body, env_sp, g_armor, g_armor_fields, g_params, g_wr; cbn [w_log w_sched]; rewrite !map_app; exact HR ] ]). }
  clear HR.
  specialize (Hstep _ eq_refl). cbv zeta in Hstep.
  replace (Nat.ltb 15 (List.length chars)) with true by (symmetry; apply Nat.ltb_lt; exact Elen).
  cbv zeta.
  destruct (wr_write (mkWr log sched) (firstn 15 chars)) as [[x|] w1].
  { destruct Hstep as (env' & -> & H1). exists env'. split; [reflexivity|exact H1]. }
  destruct (wr_write w1 [if ((k + 1) mod 200 =? 0)%N then x0a else sp]) as [[x|] w2].
  { destruct Hstep as (env' & -> & H1). exists env'. split; [reflexivity|exact H1]. }
  destruct Hstep as (z0 & Hs).
  specialize (IH (skipn 15 chars) (k + 1)%N w2 (Some (firstn 15 chars, z0))).
  destruct (ga_space n (skipn 15 chars) (k + 1) w2) as [[[er' chars'] k'] w'].
  rewrite Hs in IH. apply IH. rewrite skipn_length. lia.
Qed.
(* (TARGET) *)
Lemma go_spaceAndOutputBuffer_run (chars footer : bytes) (w : wr) (encv : gval) (k : N) (err : option string) (F : nat) :
  14 + List.length chars / 15 <= F ->
  let r := run2 (ext_ae W C SP) F f_saltpack_armorEncoderStream_spaceAndOutputBuffer [g_armor chars footer w encv k err] in
  let '(er, chars', k', w') := ga_space (S (List.length chars / 15)) chars k w in
  fst r = ORet [g_werr er] /\ lookup "s" (snd r) = Some (g_armor chars' footer w' encv k' err).
Proof.
  intros HF. remember (List.length chars / 15) as q eqn:Hq.
  do 14 (destruct F as [|F]; [lia|]).
  cbv zeta. start5 f_saltpack_armorEncoderStream_spaceAndOutputBuffer.
  name_run R HR. rewrite exec2_for in HR.
  lazymatch type of HR with
  | for_loop2 _ (S (S (S (S (S (S (S (S (S (S ?f0)))))))))) _ _ _ ?n0 _ = _ =>
    pose proof (space_loop footer encv err f0 n0 chars k w None ltac:(lia)) as HL
  end.
  (* the spec does not depend on the fuel beyond the number of words *)
  assert (Hirr : forall n1 n2 c k0 w0, List.length c / 15 < n1 -> List.length c / 15 < n2 -> ga_space n1 c k0 w0 = ga_space n2 c k0 w0).
  { clear. induction n1 as [|n1 IH]; intros n2 c k0 w0 H1 H2; [inversion H1|].
    destruct n2 as [|n2]; [inversion H2|]. cbn [ga_space].
    destruct (Nat.ltb 15 (List.length c)) eqn:E; [|reflexivity]. apply Nat.ltb_lt in E.
    destruct (wr_write w0 (firstn 15 c)) as [[x|] w1]; [reflexivity|].
    destruct (wr_write w1 _) as [[x|] w2]; [reflexivity|].
    apply IH; rewrite skipn_length; lia. }
  rewrite (Hirr (S q) (S (S (S (S (S (S (S (S (S (S (S (S (S F))))))))))))) chars k w) by lia.
  destruct (ga_space _ chars k w) as [[[er chars'] k'] w'].
  destruct HL as (env' & HL & H1).
  assert (HR' : R = CRet [g_werr er] env') by (rewrite <- HR; exact HL).
  clear HR. subst R. cbn [fst snd]. split; [reflexivity|exact H1].
Qed.

(* (TARGET) Write, s.err = nil: for EVERY behaviour of the two callees.  The first error of the two is returned AND
   stored in s.err (on whatever struct the callee left as the receiver) *)
Lemma go_armor_Write_glue (chars footer b : bytes) (w : wr) (encv encv' : gval) (fs2 : list (string * gval)) (k : N) (n : Z)
      (e1 e2 : option string) (F : nat) :
  12 <= F ->
  W encv b = Some [VInt n; g_werr e1; encv'] ->
  (e1 = None -> SP (g_armor chars footer w encv' k None) = Some [g_werr e2; VStruct fs2]) ->
  let r := run2 (ext_ae W C SP) F f_saltpack_armorEncoderStream_Write [g_armor chars footer w encv k None; VBytes b] in
  fst r = ORet [VInt n; g_werr (match e1 with Some x => Some x | None => e2 end)] /\
  lookup "s" (snd r) = Some (match e1 with
                             | Some x => g_armor chars footer w encv' k (Some x)
                             | None => match e2 with
                                       | Some y => VStruct (set_field fs2 "err" (VErr y []))
                                       | None => VStruct fs2
                                       end
                             end).
Proof.
  intros HF HW HSP. do 12 (destruct F as [|F]; [lia|]).
  destruct w as [log sched].
  cbv zeta. start5 f_saltpack_armorEncoderStream_Write.
  unfold g_armor, g_armor_fields, g_params, g_wr in *. cbn [w_log w_sched] in *. rewrite g_werr_none in *.
  name_run R HR. run_hyp5 (ext_ae W C SP) HR.
  destruct e1 as [x|].
  - rewrite g_werr_some in *. run_hyp5 (ext_ae W C SP) HR. subst R. cbn. split; reflexivity.
  - specialize (HSP eq_refl). rewrite g_werr_none in *. run_hyp5 (ext_ae W C SP) HR.
    destruct e2 as [y|]; [rewrite g_werr_some in *|rewrite g_werr_none in *];
      run_hyp5 (ext_ae W C SP) HR; subst R; cbn; split; reflexivity.
Qed.

(* (TARGET) the sticky error: with s.err set, Write returns (0, s.err), calls nothing and changes nothing *)
Lemma go_armor_Write_sticky (chars footer b : bytes) (w : wr) (encv : gval) (k : N) (x : string) (F : nat) :
  12 <= F ->
  let r := run2 (ext_ae W C SP) F f_saltpack_armorEncoderStream_Write [g_armor chars footer w encv k (Some x); VBytes b] in
  fst r = ORet [VInt 0; VErr x []] /\ lookup "s" (snd r) = Some (g_armor chars footer w encv k (Some x)).
Proof.
  intros HF. do 12 (destruct F as [|F]; [lia|]).
  destruct w as [log sched].
  cbv zeta. start5 f_saltpack_armorEncoderStream_Write.
  unfold g_armor, g_armor_fields, g_params, g_wr in *. cbn [w_log w_sched] in *. rewrite g_werr_some in *.
  name_run R HR. run_hyp5 (ext_ae W C SP) HR. subst R. cbn. split; reflexivity.
Qed.

(* (TARGET) Close, s.err = nil: for EVERY behaviour of the two callees.  The error Close returns - from either callee or
   from one of its own two writes - is stored in s.err first (err2 is whatever spaceAndOutputBuffer left there; it
   survives only when Close returns nil) *)
Lemma go_armor_Close_glue (chars footer : bytes) (w : wr) (encv encv' : gval) (k : N) (e1 e2 : option string)
      (chars2 footer2 : bytes) (w2 : wr) (encv2 : gval) (k2 : N) (err2 : option string) (F : nat) :
  20 <= F ->
  C encv = Some [g_werr e1; encv'] ->
  (e1 = None -> SP (g_armor chars footer w encv' k None) = Some [g_werr e2; g_armor chars2 footer2 w2 encv2 k2 err2]) ->
  let r := run2 (ext_ae W C SP) F f_saltpack_armorEncoderStream_Close [g_armor chars footer w encv k None] in
  match e1 with
  | Some x => fst r = ORet [VErr x []] /\ lookup "s" (snd r) = Some (g_armor chars footer w encv' k (Some x))
  | None =>
    match e2 with
    | Some y => fst r = ORet [VErr y []] /\ lookup "s" (snd r) = Some (g_armor chars2 footer2 w2 encv2 k2 (Some y))
    | None =>
      let '(e, w4, k4) := ga_close_tail chars2 footer2 w2 k2 in
      fst r = ORet [g_werr e] /\
      lookup "s" (snd r) = Some (g_armor chars2 footer2 w4 encv2 k4 (match e with Some z => Some z | None => err2 end))
    end
  end.
Proof.
  intros HF HC HSP. do 20 (destruct F as [|F]; [lia|]).
  destruct w as [log sched]. destruct w2 as [log2 sched2].
  cbv zeta. start5 f_saltpack_armorEncoderStream_Close.
  unfold ga_close_tail, g_armor, g_armor_fields, g_params, g_wr in *. cbn [w_log w_sched] in *. rewrite g_werr_none in *.
  name_run R HR. run_hyp5 (ext_ae W C SP) HR.
  destruct e1 as [x|].
  { rewrite g_werr_some in *. run_hyp5 (ext_ae W C SP) HR. subst R. cbn. split; reflexivity. }
  specialize (HSP eq_refl). rewrite g_werr_none in *. run_hyp5 (ext_ae W C SP) HR.
  destruct e2 as [y|].
  { rewrite g_werr_some in *. run_hyp5 (ext_ae W C SP) HR. subst R. cbn. split; reflexivity. }
  rewrite g_werr_none in *. run_hyp5 (ext_ae W C SP) HR.
  assert (Hk1 : (Z.of_N k2 + 1)%Z = Z.of_N (k2 + 1)) by lia.
  pose proof (rem200 (k2 + 1)) as Hrem.
  destruct sched2 as [|[x|] sched2]; hr_simpl HR; run_hyp5 (ext_ae W C SP) HR; cbn [wr_write w_sched w_log].
  2:{ subst R. cbn. rewrite map_app. split; reflexivity. }
  all: rewrite Hk1 in HR; run_hyp5 (ext_ae W C SP) HR.
  all: destruct (Nat.eqb (List.length chars2) 15) eqn:E15;
       [apply Nat.eqb_eq in E15; run_hyp5 (ext_ae W C SP) HR; destruct ((k2 + 1) mod 200 =? 0)%N eqn:Emod
       |apply Nat.eqb_neq in E15]; run_hyp5 (ext_ae W C SP) HR.
  all: try (subst R; cbn [fst snd lookup String.eqb Ascii.eqb Bool.eqb wr_write w_sched w_log g_werr]; rewrite !map_app; split; reflexivity).
  all: destruct sched2 as [|[y|] sched2]; hr_simpl HR; run_hyp5 (ext_ae W C SP) HR; cbn [wr_write w_sched w_log];
       subst R; cbn [fst snd lookup String.eqb Ascii.eqb Bool.eqb wr_write w_sched w_log g_werr]; rewrite !map_app; split; reflexivity.
Qed.

(* (TARGET) the sticky error: with s.err set, Close returns s.err, calls nothing and changes nothing (no footer is written) *)
Lemma go_armor_Close_sticky (chars footer : bytes) (w : wr) (encv : gval) (k : N) (x : string) (F : nat) :
  20 <= F ->
  let r := run2 (ext_ae W C SP) F f_saltpack_armorEncoderStream_Close [g_armor chars footer w encv k (Some x)] in
  fst r = ORet [VErr x []] /\ lookup "s" (snd r) = Some (g_armor chars footer w encv k (Some x)).
Proof.
  intros HF. do 20 (destruct F as [|F]; [lia|]).
  destruct w as [log sched].
  cbv zeta. start5 f_saltpack_armorEncoderStream_Close.
  unfold g_armor, g_armor_fields, g_params, g_wr in *. cbn [w_log w_sched] in *. rewrite g_werr_some in *.
  name_run R HR. run_hyp5 (ext_ae W C SP) HR. subst R. cbn. split; reflexivity.
Qed.

End ArmorProofs.



(* ---------- spaceAndOutputBuffer and the end of Close against the model ---------- *)
(* the Write calls spaceAndOutputBuffer makes: word, separator, word, separator ... *)
Fixpoint sp_calls (fuel : nat) (chars : bytes) (k : N) : list bytes :=
  match fuel with
  | 0 => []
  | S f =>
    if Nat.ltb 15 (List.length chars) then
      firstn 15 chars :: [ae_sep (k + 1)%N] :: sp_calls f (skipn 15 chars) (k + 1)%N
    else []
  end.

Lemma ga_space_irrel : forall n1 n2 c k0 w0, List.length c / 15 < n1 -> List.length c / 15 < n2 ->
  ga_space n1 c k0 w0 = ga_space n2 c k0 w0.
Proof.
  induction n1 as [|n1 IH]; intros n2 c k0 w0 H1 H2; [inversion H1|].
  destruct n2 as [|n2]; [inversion H2|]. cbn [ga_space].
  destruct (Nat.ltb 15 (List.length c)) eqn:E; [|reflexivity]. apply Nat.ltb_lt in E.
  destruct (wr_write w0 (firstn 15 c)) as [[x|] w1]; [reflexivity|].
  destruct (wr_write w1 _) as [[x|] w2]; [reflexivity|].
  apply IH; rewrite skipn_length; lia.
Qed.

Lemma ae_space_unfold (f : nat) (chars : bytes) (k : N) (acc : bytes) :
  ae_space (S f) chars k acc =
  if Nat.ltb 15 (List.length chars) then
    ae_space f (skipn 15 chars) (k + 1)%N (acc ++ firstn 15 chars ++ [ae_sep (k + 1)%N])
  else (acc, chars, k).
Proof.
  cbn [ae_space]. change bytes_per_word with 15. rewrite sp_split_at. reflexivity.
Qed.

Lemma ae_space_irrel : forall n1 n2 c k0 acc, List.length c / 15 < n1 -> List.length c / 15 < n2 ->
  ae_space n1 c k0 acc = ae_space n2 c k0 acc.
Proof.
  induction n1 as [|n1 IH]; intros n2 c k0 acc H1 H2; [inversion H1|].
  destruct n2 as [|n2]; [inversion H2|]. rewrite !ae_space_unfold.
  destruct (Nat.ltb 15 (List.length c)) eqn:E; [|reflexivity]. apply Nat.ltb_lt in E.
  apply IH; rewrite skipn_length; lia.
Qed.

(* (TARGET) *)
Lemma ga_space_model : forall (n : nat) (chars : bytes) (k : N) (w : wr) (acc : bytes),
  let '(out, rest, k') := ae_space n chars k acc in
  let '(j, erm, wm) := run_calls (sp_calls n chars k) w in
  let '(er, chars', k2, w') := ga_space n chars k w in
  out = acc ++ List.concat (sp_calls n chars k) /\ er = erm /\ w' = wm /\ (er = None -> chars' = rest /\ k2 = k').
Proof.
  induction n as [|n IH]; intros chars k w acc.
  - cbn. rewrite app_nil_r. auto.
  - rewrite ae_space_unfold. cbn [sp_calls ga_space].
    destruct (Nat.ltb 15 (List.length chars)) eqn:E.
    2:{ cbn [run_calls List.concat]. rewrite app_nil_r. auto. }
    change (if ((k + 1) mod 200 =? 0)%N then x0a else sp) with (ae_sep (k + 1)).
    cbn [run_calls].
    specialize (IH (skipn 15 chars) (k + 1)%N).
    destruct (wr_write w (firstn 15 chars)) as [[x|] w1].
    { specialize (IH w (acc ++ firstn 15 chars ++ [ae_sep (k + 1)])).
      destruct (ae_space n (skipn 15 chars) (k + 1) _) as [[out rest] k'].
      destruct (run_calls _ w) as [[j erm] wm]. destruct (ga_space n _ _ w) as [[[er c'] k2] w'].
      destruct IH as (H1 & _). split; [|split; [reflexivity|split; [reflexivity|discriminate]]].
      rewrite H1. cbn [List.concat]. rewrite <- !app_assoc. reflexivity. }
    destruct (wr_write w1 [ae_sep (k + 1)]) as [[x|] w2].
    { specialize (IH w (acc ++ firstn 15 chars ++ [ae_sep (k + 1)])).
      destruct (ae_space n (skipn 15 chars) (k + 1) _) as [[out rest] k'].
      destruct (run_calls _ w) as [[j erm] wm]. destruct (ga_space n _ _ w) as [[[er c'] k2] w'].
      destruct IH as (H1 & _). split; [|split; [reflexivity|split; [reflexivity|discriminate]]].
      rewrite H1. cbn [List.concat]. rewrite <- !app_assoc. reflexivity. }
    specialize (IH w2 (acc ++ firstn 15 chars ++ [ae_sep (k + 1)])).
    destruct (ae_space n (skipn 15 chars) (k + 1) _) as [[out rest] k'].
    destruct (run_calls _ w2) as [[j erm] wm]. destruct (ga_space n _ _ w2) as [[[er c'] k2] w'].
    destruct IH as (H1 & H2 & H3 & H4). split; [|auto].
    rewrite H1. cbn [List.concat]. rewrite <- !app_assoc. reflexivity.
Qed.

(* (TARGET) the end of Close hands the writer the last characters and then the closing text *)
Lemma ga_close_tail_model (lst footer : bytes) (w : wr) (k : N) :
  let pad := if Nat.eqb (List.length lst) bytes_per_word then [ae_sep (k + 1)%N] else [] in
  let '(j, erm, wm) := run_calls [lst; pad ++ [dot; sp] ++ footer ++ [dot; x0a]] w in
  let '(e, w', k') := ga_close_tail lst footer w k in
  e = erm /\ w' = wm /\ (e = None -> k' = (k + 1)%N).
Proof.
  cbv zeta. unfold ga_close_tail. cbn [run_calls]. change bytes_per_word with 15.
  destruct (wr_write w lst) as [[x|] w3]; [repeat split; discriminate|].
  unfold ae_sep. change words_per_line with 200%N.
  destruct ((k + 1) mod 200 =? 0)%N; destruct (Nat.eqb (List.length lst) 15);
    (destruct (wr_write w3 _) as [[x|] w4]; repeat split; discriminate).
Qed.

(* ---------- Write and Close of the armor stream, with the shared bytes.Buffer made explicit ---------- *)
(* The base-X encoder's underlying writer IS the stream's buffer s.buf (one *bytes.Buffer behind two fields).
   The evaluator has no references, so this sharing is stated here, at the level of the specifications:
   the encoder object writes into its own writer (a log that never fails); the bytes it wrote are then moved
   to the pending characters ([drain]) before spaceAndOutputBuffer looks at them. *)
Definition drained (o : gobj) : gobj := mkGo (go_err o) (go_buf o) (go_nbuf o) (go_out o) (mkWr [] []).

(* Write on the stream whose sticky error s.err is [err]: (count, returned error, encoder object, pending characters,
   words, writer).  THE ERROR STORED IN s.err AFTERWARDS IS THE RETURNED ONE: with s.err set Write returns (0, s.err) and
   touches nothing; otherwise the error of encoder.Write / spaceAndOutputBuffer, if any, is stored before it is returned,
   and a Write that returns nil leaves s.err = nil (go_armor_Write_aliased / go_armor_Write_sticky state the object) *)
Definition ga_write (o : gobj) (chars : bytes) (k : N) (w : wr) (err : option string) (p : bytes)
  : nat * option string * gobj * bytes * N * wr :=
  match err with
  | Some x => (0, Some x, o, chars, k, w)
  | None =>
    let '(n, e1, o', p') := gw_write base62 128 o p in
    let o1 := pending_copy o' p' in
    match e1 with
    | Some x => (n, Some x, o1, chars, k, w)
    | None =>
      let chars1 := chars ++ List.concat (w_log (go_w o1)) in
      let '(er, chars', k', w') := ga_space (S (List.length chars1 / 15)) chars1 k w in
      (n, er, drained o1, chars', k', w')
    end
  end.

(* Close: (returned error, encoder object, pending characters, words, writer).  As for Write, THE ERROR STORED IN s.err
   AFTERWARDS IS THE RETURNED ONE: with s.err set it is returned and nothing is touched; otherwise an error of
   encoder.Close, of spaceAndOutputBuffer or of one of the two final writes is stored before it is returned.
   (s.buf.Bytes() does not consume: the last characters stay in s.buf.) *)
Definition ga_close (o : gobj) (chars : bytes) (k : N) (w : wr) (err : option string) (footer : bytes)
  : option string * gobj * bytes * N * wr :=
  match err with
  | Some x => (Some x, o, chars, k, w)
  | None =>
    let (e1, o') := gw_close base62 o in
    match e1 with
    | Some x => (Some x, o', chars, k, w)
    | None =>
      let chars1 := chars ++ List.concat (w_log (go_w o')) in
      let '(er, chars', k', w') := ga_space (S (List.length chars1 / 15)) chars1 k w in
      match er with
      | Some x => (Some x, drained o', chars', k', w')
      | None => let '(e, w4, k4) := ga_close_tail chars' footer w' k' in (e, drained o', chars', k4, w4)
      end
    end
  end.

(* (TARGET) the sticky error, on the specification functions *)
Lemma ga_write_sticky (o : gobj) (chars : bytes) (k : N) (w : wr) (x : string) (p : bytes) :
  ga_write o chars k w (Some x) p = (0, Some x, o, chars, k, w).
Proof. reflexivity. Qed.
Lemma ga_close_sticky (o : gobj) (chars : bytes) (k : N) (w : wr) (x : string) (footer : bytes) :
  ga_close o chars k w (Some x) footer = (Some x, o, chars, k, w).
Proof. reflexivity. Qed.

Lemma run_calls_nofail (calls : list bytes) : forall l, run_calls calls (mkWr l []) = (List.length calls, None, mkWr (l ++ calls) []).
Proof.
  induction calls as [|c t IH]; intros l; cbn [run_calls List.length].
  - rewrite app_nil_r. reflexivity.
  - unfold wr_write. cbn [w_sched w_log]. rewrite IH, <- app_assoc. reflexivity.
Qed.

Lemma concat_chunks (m : nat) : 0 < m -> forall f l, List.length l <= f -> List.concat (chunks f m l) = l.
Proof.
  intros Hm. induction f as [|f IH]; intros l Hl.
  - destruct l; [reflexivity|cbn in Hl; lia].
  - destruct l as [|b l]; [reflexivity|]. cbn [chunks List.concat].
    rewrite IH by (rewrite skipn_length; cbn [List.length] in *; lia). apply firstn_skipn.
Qed.
Lemma concat_go_calls (en : encoding) (K : nat) (ws : list bytes) : 0 < K * obl_nat en ->
  List.concat (go_calls en K ws) = List.concat ws.
Proof.
  intros H. unfold go_calls. induction ws as [|a ws IH]; [reflexivity|].
  cbn [flat_map List.concat]. rewrite concat_app, IH, concat_chunks by lia. reflexivity.
Qed.

Lemma ibl62_nat : ibl_nat base62 = 32.
Proof. reflexivity. Qed.
Lemma obl62_nat : obl_nat base62 = 43.
Proof. vm_compute. reflexivity. Qed.

Lemma ae_space_len_fuel (c : bytes) (k : N) (acc : bytes) (n2 : nat) : List.length c / 15 < n2 ->
  ae_space (List.length c) c k acc = ae_space n2 c k acc.
Proof.
  intros H. destruct c as [|b c].
  - destruct n2; [inversion H|]. rewrite ae_space_unfold. reflexivity.
  - apply ae_space_irrel; [|exact H]. cbn [List.length]. apply Nat.div_lt; lia.
Qed.

(* (TARGET) *)
Theorem ga_write_model (o : gobj) (chars : bytes) (k : N) (w : wr) (p : bytes) :
  gobj_ok base62 128 o -> go_err o = None -> go_w o = mkWr [] [] ->
  let st := mkAe (firstn (go_nbuf o) (go_buf o)) chars k in
  let (out, st') := ae_write st p in
  let '(n, er, o2, chars', k', w') := ga_write o chars k w None p in
  n = List.length p /\ gobj_ok base62 128 o2 /\ go_err o2 = None /\ go_w o2 = mkWr [] [] /\
  firstn (go_nbuf o2) (go_buf o2) = ae_bx st' /\
  exists (calls : list bytes) (j : nat),
    List.concat calls = out /\ run_calls calls w = (j, er, w') /\
    (er = None -> chars' = ae_chars st' /\ k' = ae_words st').
Proof.
  intros Hok Herr Hw. cbv zeta. unfold ae_write, ga_write. cbn [ae_bx ae_chars ae_words].
  pose proof (gw_write_model base62 128 ltac:(rewrite ibl62_nat; lia) ltac:(lia) o p Hok Herr) as HM. cbv zeta in HM.
  destruct (bxe_write base62 (firstn (go_nbuf o) (go_buf o)) p) as [ws mb'].
  rewrite Hw, run_calls_nofail in HM. cbn [app] in HM.
  destruct (gw_write base62 128 o p) as [[[n e1] o'] p'].
  destruct HM as (H1 & H2 & H3 & H4). subst e1.
  destruct H4 as (Hn & Hnb & Hfb & Hok').
  assert (Hlog : w_log (go_w (pending_copy o' p')) = go_calls base62 128 ws).
  { unfold pending_copy. cbn [go_w]. rewrite H2. reflexivity. }
  rewrite Hlog, concat_go_calls by (rewrite obl62_nat; lia).
  remember (chars ++ List.concat ws) as chars1 eqn:Hc1.
  rewrite (ae_space_len_fuel chars1 k [] (S (List.length chars1 / 15))) by lia.
  pose proof (ga_space_model (S (List.length chars1 / 15)) chars1 k w []) as HS. cbv zeta in HS.
  destruct (ae_space (S (List.length chars1 / 15)) chars1 k []) as [[out rest] k2].
  destruct (run_calls (sp_calls (S (List.length chars1 / 15)) chars1 k) w) as [[j erm] wm] eqn:Erc.
  destruct (ga_space (S (List.length chars1 / 15)) chars1 k w) as [[[er chars'] k'] w'].
  destruct HS as (S1 & S2 & S3 & S4). cbn [app] in S1.
  cbn [ae_bx ae_chars ae_words].
  split; [exact Hn|]. split.
  { destruct Hok' as (A & B & Cc). unfold drained, pending_copy in *. cbn [go_buf go_out go_err go_nbuf] in *. repeat split; assumption. }
  split; [unfold drained, pending_copy; cbn [go_err]; exact H3|].
  split; [reflexivity|].
  split; [unfold drained; cbn [go_nbuf go_buf]; exact Hfb|].
  exists (sp_calls (S (List.length chars1 / 15)) chars1 k), j.
  split; [symmetry; exact S1|]. split; [rewrite Erc; subst; reflexivity|exact S4].
Qed.

(* (TARGET) *)
Theorem ga_close_model (o : gobj) (chars : bytes) (k : N) (w : wr) (footer : bytes) :
  gobj_ok base62 128 o -> go_err o = None -> go_w o = mkWr [] [] ->
  let st := mkAe (firstn (go_nbuf o) (go_buf o)) chars k in
  let '(e, o2, chars2, k2, w4) := ga_close o chars k w None footer in
  exists (calls : list bytes) (j : nat),
    List.concat calls = ae_close st footer /\ run_calls calls w = (j, e, w4).
Proof.
  intros Hok Herr Hw. cbv zeta. unfold ae_close, ga_close. cbn [ae_bx ae_chars ae_words].
  pose proof (gw_close_model base62 128 ltac:(rewrite ibl62_nat; lia) ltac:(lia) o Hok Herr) as HM. cbv zeta in HM.
  rewrite Hw, run_calls_nofail in HM. cbn [app] in HM.
  destruct (gw_close base62 o) as [e1 o'].
  destruct HM as (H1 & H2 & H3 & _). subst e1. rewrite H2. cbn [w_log].
  remember (chars ++ List.concat (bxe_close base62 (firstn (go_nbuf o) (go_buf o)))) as chars1 eqn:Hc1.
  rewrite (ae_space_len_fuel chars1 k [] (S (List.length chars1 / 15))) by lia.
  pose proof (ga_space_model (S (List.length chars1 / 15)) chars1 k w []) as HS. cbv zeta in HS.
  destruct (ae_space (S (List.length chars1 / 15)) chars1 k []) as [[out lst] k2].
  destruct (run_calls (sp_calls (S (List.length chars1 / 15)) chars1 k) w) as [[j erm] wm] eqn:Erc.
  destruct (ga_space (S (List.length chars1 / 15)) chars1 k w) as [[[er chars'] k'] w'].
  destruct HS as (S1 & S2 & S3 & S4). cbn [app] in S1. subst erm wm.
  set (pad := if Nat.eqb (List.length lst) bytes_per_word then [ae_sep (k2 + 1)] else []).
  assert (Hcat : List.concat (sp_calls (S (List.length chars1 / 15)) chars1 k ++ [lst; pad ++ [dot; sp] ++ footer ++ [dot; x0a]])
                 = out ++ lst ++ pad ++ [dot; sp] ++ footer ++ [dot; x0a]).
  { rewrite concat_app, <- S1. cbn [List.concat]. rewrite app_nil_r. reflexivity. }
  destruct er as [x|].
  - exists (sp_calls (S (List.length chars1 / 15)) chars1 k ++ [lst; pad ++ [dot; sp] ++ footer ++ [dot; x0a]]), j.
    rewrite run_calls_app, Erc. split; [exact Hcat|reflexivity].
  - destruct (S4 eq_refl) as [-> ->].
    pose proof (ga_close_tail_model lst footer w' k2) as HT. cbv zeta in HT. fold pad in HT.
    destruct (run_calls [lst; pad ++ [dot; sp] ++ footer ++ [dot; x0a]] w') as [[j2 e2] w2] eqn:Er2.
    destruct (ga_close_tail lst footer w' k2) as [[e w4] k4].
    destruct HT as (T1 & T2 & _). subst e w4.
    exists (sp_calls (S (List.length chars1 / 15)) chars1 k ++ [lst; pad ++ [dot; sp] ++ footer ++ [dot; x0a]]), (j + j2).
    rewrite run_calls_app, Erc, Er2. split; [exact Hcat|reflexivity].
Qed.

(* ---------- the translated Write and Close under that reading of the two method calls ---------- *)
Section ArmorAliased.
Variable W : gval -> bytes -> option (list gval).
Variable C : gval -> option (list gval).
Variable SP : gval -> option (list gval).

(* (TARGET) s.err = nil *)
Theorem go_armor_Write_aliased (o : gobj) (chars footer : bytes) (k : N) (w : wr) (p : bytes) (F : nat) :
  12 <= F -> gobj_ok base62 128 o -> go_err o = None -> go_w o = mkWr [] [] ->
  (* s.encoder.Write(p) means the base-X encoder's Write (go_encoder_Write), its trailing copy performed *)
  (let '(n, e1, o', p') := gw_write base62 128 o p in
   W (g_obj base62 o) p = Some [VInt (Z.of_nat n); g_werr e1; g_obj base62 (pending_copy o' p')]) ->
  (* s.spaceAndOutputBuffer() means the translated method (go_spaceAndOutputBuffer_run) run after the bytes the
     encoder wrote have appeared in s.buf *)
  (forall o1 : gobj,
   let chars1 := chars ++ List.concat (w_log (go_w o1)) in
   let '(er, chars', k', w') := ga_space (S (List.length chars1 / 15)) chars1 k w in
   SP (g_armor chars footer w (g_obj base62 o1) k None)
   = Some [g_werr er; g_armor chars' footer w' (g_obj base62 (drained o1)) k' None]) ->
  let r := run2 (ext_ae W C SP) F f_saltpack_armorEncoderStream_Write [g_armor chars footer w (g_obj base62 o) k None; VBytes p] in
  let st := mkAe (firstn (go_nbuf o) (go_buf o)) chars k in
  let (out, st') := ae_write st p in
  exists (er : option string) (o2 : gobj) (chars' : bytes) (k' : N) (w' : wr),
    ga_write o chars k w None p = (List.length p, er, o2, chars', k', w') /\
    fst r = ORet [VInt (Z.of_nat (List.length p)); g_werr er] /\
    (* the returned error is stored in s.err *)
    lookup "s" (snd r) = Some (g_armor chars' footer w' (g_obj base62 o2) k' er) /\
    gobj_ok base62 128 o2 /\ go_err o2 = None /\ go_w o2 = mkWr [] [] /\
    firstn (go_nbuf o2) (go_buf o2) = ae_bx st' /\
    exists (calls : list bytes) (j : nat),
      List.concat calls = out /\ run_calls calls w = (j, er, w') /\
      (er = None -> chars' = ae_chars st' /\ k' = ae_words st').
Proof.
  intros HF Hok Herr Hw HW HSP. cbv zeta.
  pose proof (ga_write_model o chars k w p Hok Herr Hw) as HM. cbv zeta in HM.
  destruct (ae_write (mkAe (firstn (go_nbuf o) (go_buf o)) chars k) p) as [out st'].
  unfold ga_write in HM |- *.
  pose proof (gw_write_model base62 128 ltac:(rewrite ibl62_nat; lia) ltac:(lia) o p Hok Herr) as HE. cbv zeta in HE.
  destruct (bxe_write base62 (firstn (go_nbuf o) (go_buf o)) p) as [ws mb'].
  rewrite Hw, run_calls_nofail in HE.
  destruct (gw_write base62 128 o p) as [[[n e1] o'] p'].
  destruct HE as (E1 & _). subst e1.
  specialize (HSP (pending_copy o' p')). cbv zeta in HSP.
  destruct (ga_space _ _ k w) as [[[er chars'] k'] w'].
  destruct HM as (M1 & M2 & M3 & M4 & M5 & M6).
  pose proof (go_armor_Write_glue W C SP chars footer p w (g_obj base62 o) (g_obj base62 (pending_copy o' p'))
                (g_armor_fields chars' footer w' (g_obj base62 (drained (pending_copy o' p'))) k' None) k (Z.of_nat n) None er F HF HW
                (fun _ => HSP)) as HG.
  cbv zeta in HG. destruct HG as [G1 G2].
  exists er, (drained (pending_copy o' p')), chars', k', w'.
  rewrite <- M1. split; [reflexivity|]. split; [exact G1|].
  split; [rewrite G2; destruct er as [y|]; reflexivity|].
  split; [exact M2|]. split; [exact M3|]. split; [exact M4|]. split; [exact M5|exact M6].
Qed.

(* (TARGET) s.err = nil *)
Theorem go_armor_Close_aliased (o : gobj) (chars footer : bytes) (k : N) (w : wr) (F : nat) :
  20 <= F -> gobj_ok base62 128 o -> go_err o = None -> go_w o = mkWr [] [] ->
  (let (e1, o') := gw_close base62 o in C (g_obj base62 o) = Some [g_werr e1; g_obj base62 o']) ->
  (forall o1 : gobj,
   let chars1 := chars ++ List.concat (w_log (go_w o1)) in
   let '(er, chars', k', w') := ga_space (S (List.length chars1 / 15)) chars1 k w in
   SP (g_armor chars footer w (g_obj base62 o1) k None)
   = Some [g_werr er; g_armor chars' footer w' (g_obj base62 (drained o1)) k' None]) ->
  let r := run2 (ext_ae W C SP) F f_saltpack_armorEncoderStream_Close [g_armor chars footer w (g_obj base62 o) k None] in
  let st := mkAe (firstn (go_nbuf o) (go_buf o)) chars k in
  exists (e : option string) (o2 : gobj) (chars2 : bytes) (k2 : N) (w4 : wr) (calls : list bytes) (j : nat),
    ga_close o chars k w None footer = (e, o2, chars2, k2, w4) /\
    fst r = ORet [g_werr e] /\
    (* the returned error is stored in s.err *)
    lookup "s" (snd r) = Some (g_armor chars2 footer w4 (g_obj base62 o2) k2 e) /\
    List.concat calls = ae_close st footer /\ run_calls calls w = (j, e, w4).
Proof.
  intros HF Hok Herr Hw HC HSP. cbv zeta.
  pose proof (ga_close_model o chars k w footer Hok Herr Hw) as HM. cbv zeta in HM.
  unfold ga_close in HM |- *.
  pose proof (gw_close_model base62 128 ltac:(rewrite ibl62_nat; lia) ltac:(lia) o Hok Herr) as HE. cbv zeta in HE.
  rewrite Hw, run_calls_nofail in HE.
  destruct (gw_close base62 o) as [e1 o'].
  destruct HE as (E1 & _). subst e1.
  specialize (HSP o'). cbv zeta in HSP.
  destruct (ga_space _ _ k w) as [[[er chars'] k'] w'].
  pose proof (go_armor_Close_glue W C SP chars footer w (g_obj base62 o) (g_obj base62 o') k None er
                chars' footer w' (g_obj base62 (drained o')) k' None F HF HC (fun _ => HSP)) as HG.
  cbv zeta in HG.
  destruct er as [x|].
  - destruct HM as (calls & j & M1 & M2). destruct HG as [G1 G2].
    exists (Some x), (drained o'), chars', k', w', calls, j.
    split; [reflexivity|]. split; [exact G1|]. split; [exact G2|]. split; [exact M1|exact M2].
  - destruct (ga_close_tail chars' footer w' k') as [[e w4] k4].
    destruct HM as (calls & j & M1 & M2). destruct HG as [G1 G2].
    exists e, (drained o'), chars', k4, w4, calls, j.
    split; [reflexivity|]. split; [exact G1|]. split; [rewrite G2; destruct e; reflexivity|]. split; [exact M1|exact M2].
Qed.
End ArmorAliased.

(* ---------- the two constructs the evaluator cannot express, as facts about the translated terms ---------- *)
(* Write of the base-X encoder, trailing fringe: `copy(e.buf[0:len(p)], p)`.  The only argument place the
   results of this call can be written back to is the local p; e.buf is out of reach. *)
Lemma encoder_Write_copy_places :
  mutable_places [ESlice (ESel (EVar "e") "buf") (Some (EInt 0)) (Some (ELen (EVar "p"))); EVar "p"] = [LVar "p"].
Proof. reflexivity. Qed.
Lemma encoder_Write_copy_is_the_statement :
  nth 0 in_tail (SUnsup "") =
  SExpr (ECall "copy" [ESlice (ESel (EVar "e") "buf") (Some (EInt 0)) (Some (ELen (EVar "p"))); EVar "p"]).
Proof. reflexivity. Qed.
(* Write / Close of the armor stream: `s.encoder.Write(b)` / `s.encoder.Close()` can update s.encoder (and b),
   not s.buf, although the encoder's writer and s.buf are the same *bytes.Buffer. *)
Lemma armor_Write_call_places :
  mutable_places [ESel (EVar "s") "encoder"; EVar "b"] = [LField (LVar "s") "encoder"; LVar "b"].
Proof. reflexivity. Qed.
Lemma armor_Close_call_places :
  mutable_places [ESel (EVar "s") "encoder"] = [LField (LVar "s") "encoder"].
Proof. reflexivity. Qed.

