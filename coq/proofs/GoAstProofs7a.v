(* GoAstProofs7a.v -- source ties for the READ side of the armor layer (/repo/armor.go): the methods of
   framedDecoderStream (isValidByteSequence, toASCII, loadHeader, Read, GetHeader, GetFooter, GetBrand) as
   translated on this run from the Go syntax trees (gen/GoAstDearmor.v), run by the extended evaluator of
   model/GoLang2.v on ENCODED receiver objects, compute exactly what the state machine of this file
   ([gfds_load_header_m], [gfds_read], [gfds_get_*]: framedDecoderStream for ARBITRARY header / frame checkers)
   computes -- every return value, the error, and the object left in the receiver -- and that machine, at the
   checkers the library ships (parseFrame / CheckArmor62 at a message type) and at "no checkers", is the model's
   fds_load_header / fds_read of model/ArmorStream.v.

   HOW THE OBJECTS ARE REPRESENTED
   - *framedDecoderStream: [g_fds r st]: header, footer ([]byte; an empty one is nil or empty: flags rp_zh, rp_zf of
     the representation r), frameBrand, state (0..3 = fds_phase), r (the punctuatedReader object [g_pr z1 z2 buf pr] of GoAstProofs4c.v), headerChecker /
     frameChecker (nil, or a non-nil function value), frameLim (an ARBITRARY value flim; newArmorDecoderStream stores
     8192 = [lim0], the model's fds_lim; the field is never written), params (BytesPerWord, WordsPerLine, Punctuation
     of Armor62Params and an Encoding field holding an ARBITRARY value encv; only Encoding is read).  st : fds_state is the model's record (reader state, phase, header,
     footer, brand).
   - the checkers are Section variables hc : option (string -> string * error), fc : option (string -> string ->
     string * error) (None = nil); an error is a value of the model's type err.
   EXTERNS ([ext_fds]; other saltpack functions get the meaning their own tie proves)
   - punctuatedReader.ReadUntilPunctuation(lim) = pr_read_until fuel lim (tie: GoAstProofs4d.v; its hypotheses --
     buf of 4096 bytes, the invariant pr_this = [] -> pr_this_punct = false, pr_clean, and fuel above rup_need --
     are the conditions under which this meaning is the proved one; [fuel] is the model's, a Section variable, and
     every statement here holds for every fuel);  punctuatedReader.Read(p) = pr_read (len p) (tie:
     go_punctuatedReader_Read, under the same invariant), writing the new reader object back into s.r and the
     buffer, with the data at its front, back into p.  What those ties leave open (nil or empty representation of
     empty slices in the new reader object, the reader's internal buffer, the bytes of p beyond the returned
     count) is supplied by oracles Orup, Ord: every statement holds for EVERY oracle.
   - s.headerChecker / s.frameChecker = hc / fc;  Encoding.IsValidByte(b) = valid_armor_byte b (the base62 armor
     encoding; the Encoding object itself is not inspected);  strings.TrimSpace = trim_space;  makeErrBadFrame =
     the error class ErrBadFrame;  fmt.Errorf(m) = an error value carrying m.
   - inside Read / GetHeader / GetBrand / toASCII / consumeUntilEOF the calls s.loadHeader(), s.consumeUntilEOF(),
     s.toASCII(b), s.isValidByteSequence(b) are externs with the meaning gfds_load_header_m, fds_consume, to_ascii,
     forallb valid_armor_byte; those that change the receiver write back [g_fds r' st'], the representation r'
     chosen by an oracle (Olh, Oce): every statement holds for every oracle.

   In every statement "some representation r'" comes with [keeps_ok r r']: if the reader's internal buffer has its
   real length 4096 in r and the oracles keep it (oracles_ok), it has in r' -- the condition the tie of
   ReadUntilPunctuation puts on the object, so the statements compose with themselves and with that tie.

   TARGETS (all proved with Qed; Print Assumptions: closed under the global context)
   Go side (evaluator = the machine of this file), for every hc, fc, encv, fuel, flim and oracles:
   - go_isValidByteSequence: isValidByteSequence(p) returns forallb valid_armor_byte p; receiver unchanged.
     No hypothesis.  p is given as the LIST OF ITS BYTE VALUES [g_blist p]: the evaluator's `range` iterates lists
     only.  With p given as a byte string (VBytes, what every caller passes) the evaluator is stuck:
     go_isValidByteSequence_bytes_stuck (OStuck "range"); a nil slice: go_isValidByteSequence_nil (true).
   - go_toASCII: toASCII(buf) on a byte string returns (trim_space buf, nil) if every byte is valid, ("",
     ErrBadFrame) otherwise, i.e. [asc_val; res_err] of to_ascii buf; receiver unchanged.  No hypothesis.
     LIMIT: for a NIL slice the evaluator cannot convert string(nil) (x_toASCII_nil: OStuck "return").
   - go_loadHeader: returns the error of gfds_load_header_m st and leaves [g_fds r' st'] for some representation
     r', st' = the state of gfds_load_header_m st: nothing unless the phase is Header; else the sentence read by
     ReadUntilPunctuation(s.frameLim) is stored in s.header (nil on error), then, with a header checker, toASCII and the
     checker: s.frameBrand := the checker's first result (ALSO when it returns an error), state := Body on success.
     No hypothesis.
   - go_framedDecoderStream_Read: Read(p) returns (len d, e) and leaves [g_fds r' st'] for some r', where
     ((d, e), st') = gfds_read (len p) st; and p afterwards is [buf2 st1 p] (st1 = the state after the header
     stage): p itself if the body stage did not run, else the whole slice as written back by the extern
     punctuatedReader.Read -- the bytes it returned, then whatever the oracle says the reader left behind them --
     and in both cases d is at its front (firstn (len d) p' = d).  When a stage after the body fails the count is
     0 and d = [] although the body bytes are in p (as in Go).  Hypothesis: pr_clean (fds_pr st) (GoAstProofs4d.v): the underlying io.Reader never returns the value
     ErrPunctuated itself.  NEEDED FOR TRUTH: Read would take it for the end of the body (x_read_marker).  It holds
     of the initial object over a source that never delivers that value (fds_init_clean) and is kept by every
     Read and loadHeader (gfds_read_clean, gfds_load_header_m_clean).
   - go_GetFooter: ("", fmt.Errorf(..)) before the footer phase, else toASCII(s.footer); receiver unchanged.
   - go_GetHeader, go_GetBrand: load the header if the phase is Header (error: ("", err)), then toASCII(s.header),
     resp. (s.frameBrand, nil); receiver = some representation of the state after loading.  No hypothesis.
   The externs (auxiliary, closed):
   - ext_Read_sound, ext_RUP_sound: the two reader externs return and write back exactly what the translated
     punctuatedReader.Read / ReadUntilPunctuation do, under the hypotheses of their own ties.
   Model side:
   - gfds_read_model, gfds_load_header_m_model: at frameLim = 8192, for hc = parseFrame(., typ, headerMarker), fc = CheckArmor62(., ., typ)
     ([hc_of], [fc_of]; [jb], [jb2] = the string such a checker returns together with an error, arbitrary) the
     machine of this file and fds_read (Some typ) / fds_load_header, started in RELATED states, return the same
     (data, error) and end in related states; without checkers the relation is equality.  Related [fds_rel] =
     equal but for frameBrand while the phase is Header.  No hypothesis.
     FINDING: after a header the checker refuses, Go has overwritten s.frameBrand with the checker's first result
     (parseFrame returns the over-long brand with "Brand is too long"), the model keeps the old brand
     (x_loadHeader_refused).  Not observable through the API: in that phase GetBrand loads a header first.
   - gfds_read_init: from fds_init the results agree.
   - gfds_read_clean (with gfds_load_header_m_clean, fds_init_clean): pr_clean is kept by Read.
   - go_framedDecoderStream_Read_model (and its instances go_Read_armor62_encryption / _attached / _detached for
     the three shipped checker pairs; armor62_signcrypt.go reuses the encryption pair): Read on an object related
     to a model state b returns fds_read chk fuel (len p) b's (len d, e), leaves an object related to its state,
     and d at the front of p.  Hypothesis: pr_clean, as above.

   NOT EXPRESSIBLE
   - f_saltpack_framedDecoderStream_consumeUntilEOF: `n, err := s.r.Read(buf[:])` fills the LOCAL array buf through
     a slice expression; GoLang2.expr_lval does not treat ESlice as a place, so the extern cannot write the data
     back (with the faithful four-result extern the evaluator reports OStuck "call", for every state:
     go_consumeUntilEOF_not_expressible; a three-result one leaves buf all zero and the next statement,
     isValidByteSequence(buf[0:n]), looks at zeros: x_consume_zeros).  ReadUntilPunctuation has the same call with the window
     p.buf[:] of a FIELD of the receiver, which GoAstProofs4d.v could express; here the array is a local.
     Inside Read the call s.consumeUntilEOF() has the model's meaning fds_consume. *)
From Coq Require Import List String NArith ZArith Bool Lia.
From Coq.Strings Require Import Byte.
From SP Require Import Bytes Consts Params Errors BaseX Encodings Armor Streams StreamProofs ArmorStream
                       GoLang GoLang2 GoAst GoAstStreams GoAstProofs GoAstProofs2 GoAstProofs3 GoAstProofs4c GoAstProofs4d.
From SP Require Import GoAstDearmor.
Import ListNotations.
Local Open Scope string_scope.

(* ================= encodings ================= *)
Definition ph_code (p : fds_phase) : Z :=
  match p with FdsHeader => 0 | FdsBody => 1 | FdsFooter => 2 | FdsEnd => 3 end.
Definition ph_of_code (z : Z) : option fds_phase :=
  if (z =? 0)%Z then Some FdsHeader else if (z =? 1)%Z then Some FdsBody
  else if (z =? 2)%Z then Some FdsFooter else if (z =? 3)%Z then Some FdsEnd else None.
Lemma ph_of_code_code (p : fds_phase) : ph_of_code (ph_code p) = Some p.
Proof. destruct p; reflexivity. Qed.

(* a []byte as the list of its byte values (what the evaluator's `range` iterates over) *)
Definition g_byte (c : byte) : gval := VInt (Z.of_N (Byte.to_N c)).
Definition g_blist (p : bytes) : gval := VList (map g_byte p).

(* a checker: the (string, error) pair it returns *)
Definition checker1 := bytes -> bytes * option err.
Definition checker2 := bytes -> bytes -> bytes * option err.
(* a function value: nil or not *)
Definition g_fn {A} (o : option A) : gval := match o with None => VNil | Some _ => VStruct [("func", VBool true)] end.

(* how the slices of the object are represented (nil or empty for an empty one), and the reader's buffer *)
Record fds_rep := mkRep { rp_zh : bool; rp_zf : bool; rp_z1 : bool; rp_z2 : bool; rp_buf : bytes }.

Definition read_fds (v : gval) : option fds_state :=
  match v with
  | VStruct [("header", hv); ("footer", fv); ("frameBrand", VBytes br); ("state", VInt z); ("params", _);
             ("r", rv); ("headerChecker", _); ("frameChecker", _); ("frameLim", _)] =>
    match read_slice hv, read_slice fv, ph_of_code z, read_pr rv with
    | Some h, Some f, Some ph, Some (_, pr) => Some (mkFds pr ph h f br)
    | _, _, _, _ => None
    end
  | _ => None
  end.

Definition footer_early : string := "the footer can be retrieved only after the stream has been exhausted".
Definition fmt_err (msg : string) : gval := VErr "fmt.Errorf" [VBytes (list_byte_of_string msg)].

(* the two results of ReadUntilPunctuation and of toASCII *)
Definition rup_val (r : result bytes) : gval := match r with Ok s => VBytes s | Err _ => VNil end.
Definition res_err {A} (r : result A) : gval := match r with Ok _ => VNil | Err e => g_err e end.
Definition asc_val (r : result bytes) : gval := match r with Ok s => VBytes s | Err _ => VBytes [] end.
Lemma rup_val_err (r : result bytes) : [rup_val r; res_err r] = g_rup_result r.
Proof. destruct r; reflexivity. Qed.

Definition set_pr (st : fds_state) (pr : pr_state) : fds_state :=
  mkFds pr (fds_ph st) (fds_hdr st) (fds_ftr st) (fds_brand st).

Section Fds7.
Variable hc : option checker1.
Variable fc : option checker2.
Variable encv : gval.          (* the *basex.Encoding object of the armor parameters *)
Variable fuel : nat.           (* the model's fuel for ReadUntilPunctuation / consumeUntilEOF *)
Variable flim : Z.             (* s.frameLim (newArmorDecoderStream stores 8192) *)
Variable Orup : gval -> (bool * bool) * bytes.
Variable Ord : read_oracle.
Variable Olh : gval -> fds_rep.
Variable Oce : gval -> fds_rep.

Definition g_fds (r : fds_rep) (st : fds_state) : gval :=
  VStruct [("header", g_slice (rp_zh r) (fds_hdr st)); ("footer", g_slice (rp_zf r) (fds_ftr st));
           ("frameBrand", VBytes (fds_brand st)); ("state", VInt (ph_code (fds_ph st)));
           ("params", VStruct [("BytesPerWord", VInt 15); ("WordsPerLine", VInt 200); ("Punctuation", VInt 46);
                               ("Encoding", encv)]);
           ("r", g_pr (rp_z1 r) (rp_z2 r) (rp_buf r) (fds_pr st));
           ("headerChecker", g_fn hc); ("frameChecker", g_fn fc);
           ("frameLim", VInt flim)].

Lemma read_fds_g (r : fds_rep) (st : fds_state) : read_fds (g_fds r st) = Some st.
Proof.
  destruct st as [pr ph h f br]. unfold read_fds, g_fds. cbn [fds_pr fds_ph fds_hdr fds_ftr fds_brand].
  rewrite !read_slice_g, ph_of_code_code, read_pr_g. reflexivity.
Qed.

(* ---------- what the Go code computes, for arbitrary checkers ---------- *)
Definition gfds_load_header (st : fds_state) : option err * fds_state :=
  match pr_read_until fuel (Z.to_nat flim) (fds_pr st) [] with
  | (Err x, pr') => (Some x, mkFds pr' FdsHeader [] (fds_ftr st) (fds_brand st))
  | (Ok h, pr') =>
    match hc with
    | None => (None, mkFds pr' FdsBody h (fds_ftr st) (fds_brand st))
    | Some f =>
      match to_ascii h with
      | Err x => (Some x, mkFds pr' FdsHeader h (fds_ftr st) (fds_brand st))
      | Ok hs =>
        match snd (f hs) with
        | Some x => (Some x, mkFds pr' FdsHeader h (fds_ftr st) (fst (f hs)))
        | None => (None, mkFds pr' FdsBody h (fds_ftr st) (fst (f hs)))
        end
      end
    end
  end.
(* the method: nothing happens unless the stream is at its header *)
Definition gfds_load_header_m (st : fds_state) : option err * fds_state :=
  match fds_ph st with FdsHeader => gfds_load_header st | _ => (None, st) end.

Definition gfds_consume (st : fds_state) : err * fds_state :=
  (fst (fds_consume fuel (fds_pr st)), set_pr st (snd (fds_consume fuel (fds_pr st)))).

(* the three later stages of Read *)
Definition gfds_body (n : nat) (st : fds_state) : (bytes + err) * fds_state :=
  match fds_ph st with
  | FdsBody =>
    match pr_read n (fds_pr st) with
    | (PrData d, pr') => (inl d, set_pr st pr')
    | (PrPunct d, pr') => (inl d, mkFds pr' FdsFooter (fds_hdr st) (fds_ftr st) (fds_brand st))
    | (PrErr _ x, pr') => (inr (match x with EOF => ErrUnexpectedEOF | x' => x' end), set_pr st pr')
    end
  | _ => (inl [], st)
  end.
Definition gfds_footer (st : fds_state) : option err * fds_state :=
  match fds_ph st with
  | FdsFooter =>
    match pr_read_until fuel (Z.to_nat flim) (fds_pr st) [] with
    | (Err x, pr') => (Some x, mkFds pr' FdsFooter (fds_hdr st) [] (fds_brand st))
    | (Ok ft, pr') =>
      match fc with
      | None => (None, mkFds pr' FdsEnd (fds_hdr st) ft (fds_brand st))
      | Some g =>
        match to_ascii (fds_hdr st) with
        | Err x => (Some x, mkFds pr' FdsFooter (fds_hdr st) ft (fds_brand st))
        | Ok hs =>
          match to_ascii ft with
          | Err x => (Some x, mkFds pr' FdsFooter (fds_hdr st) ft (fds_brand st))
          | Ok fs =>
            match snd (g hs fs) with
            | Some x => (Some x, mkFds pr' FdsFooter (fds_hdr st) ft (fds_brand st))
            | None => (None, mkFds pr' FdsEnd (fds_hdr st) ft (fds_brand st))
            end
          end
        end
      end
    end
  | _ => (None, st)
  end.
Definition gfds_end (d : bytes) (st : fds_state) : (bytes * option err) * fds_state :=
  match fds_ph st with
  | FdsEnd =>
    match fst (gfds_consume st), d with
    | EOF, _ :: _ => ((d, None), snd (gfds_consume st))
    | x, _ => ((d, Some x), snd (gfds_consume st))
    end
  | _ => ((d, None), st)
  end.
(* Read(p), len(p) = n *)
Definition gfds_read (n : nat) (st : fds_state) : (bytes * option err) * fds_state :=
  match fst (gfds_load_header_m st) with
  | Some x => (([], Some x), snd (gfds_load_header_m st))
  | None =>
    match fst (gfds_body n (snd (gfds_load_header_m st))) with
    | inr x => (([], Some x), snd (gfds_body n (snd (gfds_load_header_m st))))
    | inl d =>
      match fst (gfds_footer (snd (gfds_body n (snd (gfds_load_header_m st))))) with
      | Some x => (([], Some x), snd (gfds_footer (snd (gfds_body n (snd (gfds_load_header_m st))))))
      | None => gfds_end d (snd (gfds_footer (snd (gfds_body n (snd (gfds_load_header_m st))))))
      end
    end
  end.

Definition ext_fds : externs := fun fn args =>
  if String.eqb fn "punctuatedReader.ReadUntilPunctuation" then
    match args with
    | [pv; VInt lim] =>
      match read_pr pv with
      | Some (_, st) =>
        let m := pr_read_until fuel (Z.to_nat lim) st [] in
        Some [rup_val (fst m); res_err (fst m);
              g_pr (fst (fst (Orup pv))) (snd (fst (Orup pv))) (snd (Orup pv)) (snd m)]
      | None => None
      end
    | _ => None
    end
  else if String.eqb fn "punctuatedReader.Read" then
    match args with
    | [pv; VBytes out] =>
      match read_pr pv with
      | Some (buf, st) =>
        let res := fst (pr_read (List.length out) st) in
        let d := pr_data res in
        Some [VInt (Z.of_nat (List.length d)); pr_res_err res;
              g_pr (fst (fst (Ord st out))) (snd (fst (Ord st out))) buf (snd (pr_read (List.length out) st));
              VBytes (d ++ skipn (List.length d) (snd (Ord st out)))%list]
      | None => None
      end
    | _ => None
    end
  else if String.eqb fn "framedDecoderStream.toASCII" then
    match args with
    | [_; v] => match read_slice v with Some b => Some [asc_val (to_ascii b); res_err (to_ascii b)] | None => None end
    | _ => None
    end
  else if String.eqb fn "framedDecoderStream.isValidByteSequence" then
    match args with
    | [_; v] => match read_slice v with Some b => Some [VBool (forallb valid_armor_byte b)] | None => None end
    | _ => None
    end
  else if String.eqb fn "Encoding.IsValidByte" then
    match args with
    | [_; VInt z] =>
      if (Z.ltb z 0 || Z.leb 256 z)%bool then None
      else match Byte.of_N (Z.to_N z) with Some c => Some [VBool (valid_armor_byte c)] | None => None end
    | _ => None
    end
  else if String.eqb fn "makeErrBadFrame" then Some [VErr "ErrBadFrame" []]
  else if String.eqb fn "fmt.Errorf" then
    match args with [VBytes m] => Some [VErr "fmt.Errorf" [VBytes m]] | _ => None end
  else if String.eqb fn "strings.TrimSpace" then
    match args with [VBytes b] => Some [VBytes (trim_space b)] | _ => None end
  else if String.eqb fn "s.headerChecker" then
    match hc, args with
    | Some f, [VBytes hs] => Some [VBytes (fst (f hs)); g_err_opt (snd (f hs))]
    | _, _ => None
    end
  else if String.eqb fn "s.frameChecker" then
    match fc, args with
    | Some g, [VBytes hs; VBytes fs] => Some [VBytes (fst (g hs fs)); g_err_opt (snd (g hs fs))]
    | _, _ => None
    end
  else if String.eqb fn "framedDecoderStream.loadHeader" then
    match args with
    | [sv] => match read_fds sv with
              | Some st => Some [g_err_opt (fst (gfds_load_header_m st)); g_fds (Olh sv) (snd (gfds_load_header_m st))]
              | None => None
              end
    | _ => None
    end
  else if String.eqb fn "framedDecoderStream.consumeUntilEOF" then
    match args with
    | [sv] => match read_fds sv with
              | Some st => Some [g_err (fst (gfds_consume st)); g_fds (Oce sv) (snd (gfds_consume st))]
              | None => None
              end
    | _ => None
    end
  else None.

(* the reader's internal buffer keeps its real length (what the tie of ReadUntilPunctuation asks of the object) *)
Definition rep_ok (r : fds_rep) : Prop := List.length (rp_buf r) = 4096%nat.
Definition oracles_ok : Prop :=
  (forall v, List.length (snd (Orup v)) = 4096%nat) /\ (forall v, rep_ok (Olh v)) /\ (forall v, rep_ok (Oce v)).
Definition keeps_ok (r r' : fds_rep) : Prop := oracles_ok -> rep_ok r -> rep_ok r'.
Ltac okrep :=
  let HO1 := fresh in let HO2 := fresh in let HO3 := fresh in let Hr := fresh in
  intros (HO1 & HO2 & HO3) Hr; unfold rep_ok in *; cbn [rp_buf] in *;
  first [exact Hr | apply HO1 | apply HO2 | apply HO3].

(* ---------- stepping ---------- *)
(* the continuation of an `if`, kept folded: unfolding it copies the branch under execution into every
   arm of the match, which is exponential in the nesting depth *)
Definition next2 (X : externs) (f : nat) (rest : list gstmt) (r : ctl) : ctl :=
  match r with CNorm e' => exec2 X f e' rest | other => other end.
Lemma exec2_if (X : externs) (f : nat) (e : env) c th el rest :
  exec2 X (S (S f)) e (SIf [] c th el :: rest) =
  match eval X 64 e c with
  | Some (VBool true) => next2 X (S f) rest (exec2 X (S f) e th)
  | Some (VBool false) => next2 X (S f) rest (exec2 X (S f) e el)
  | _ => CStuck "if"
  end.
Proof. reflexivity. Qed.
Lemma next2_norm X f rest e : next2 X f rest (CNorm e) = exec2 X f e rest. Proof. reflexivity. Qed.
Lemma next2_ret X f rest vs e : next2 X f rest (CRet vs e) = CRet vs e. Proof. reflexivity. Qed.
Local Ltac head_scrut3 t ::=
  lazymatch t with
  | match ?x with _ => _ end => head_scrut3 x
  | fst ?x => head_scrut3 x
  | snd ?x => head_scrut3 x
  | next2 _ _ _ ?x => head_scrut3 x
  | _ => t
  end.
Local Ltac ev_in4 h ::=
  eval cbv -[Z.eqb Z.ltb Z.leb Z.add Z.sub Z.mul Z.modulo Z.rem Z.quot Z.shiftr Z.shiftl Z.opp
             Z.land Z.lor Z.lxor Z.lnot Z.of_nat Z.of_N Z.to_nat Z.to_N List.length nth_error
             firstn skipn bytes_eqb' bytes_eqb Byte.to_N Byte.of_N Byte.eqb N.mul N.ltb N.eqb N.add N.leb Nat.eqb Nat.leb Nat.ltb
             Nat.min Nat.sub Nat.add nth map repeat app
             err_name err_args g_err_opt g_slice read_slice g_pr read_pr g_byte fds_lim
             valid_armor_byte forallb to_ascii trim_space pr_read_until pr_read fds_consume pr_data pr_res_err
             gfds_load_header gfds_load_header_m gfds_consume rup_val res_err asc_val
             fst snd bytes checker1 checker2 is_eof is_punct_err gfds_body gfds_footer gfds_end val_eqb for_loop2 range_loop2 next2 exec2] in h.

Lemma ext_valid_byte (c : byte) :
  ext_fds "Encoding.IsValidByte" [encv; g_byte c] = Some [VBool (valid_armor_byte c)].
Proof.
  unfold ext_fds, g_byte. cbn [String.eqb Ascii.eqb Bool.eqb].
  pose proof (Byte.to_N_bounded c) as Hb.
  replace (Z.of_N (Byte.to_N c) <? 0)%Z with false by lia.
  replace (256 <=? Z.of_N (Byte.to_N c))%Z with false by lia.
  cbn [orb]. rewrite N2Z.id, Byte.of_to_N. reflexivity.
Qed.

Lemma read_slice_vb (b : bytes) : read_slice (VBytes b) = Some b. Proof. reflexivity. Qed.
Lemma read_slice_nil : read_slice VNil = Some []. Proof. reflexivity. Qed.

Lemma veq_fn {A} (o : option A) : val_eqb 8 (g_fn o) VNil = Some (match o with None => true | Some _ => false end).
Proof. destruct o; reflexivity. Qed.
Ltac veq7 :=
  lazymatch goal with
  | |- ?G =>
    let L := lazymatch G with (?L = _ -> _) => L | ?L = _ => L | _ => G end in
    let h := head_scrut3 L in
    lazymatch h with
    | val_eqb _ (g_fn _) VNil => rewrite veq_fn
    | val_eqb _ (g_err _) VNil => rewrite veq_nil
    | val_eqb _ (g_err _) (VErr "ErrPunctuated" []) => rewrite veq_punct
    | val_eqb _ (g_err _) (VErr "io.EOF" []) => rewrite veq_eof
    | val_eqb _ (VErr (err_name ?e) (err_args ?e)) (VErr "ErrPunctuated" []) =>
      change (VErr (err_name e) (err_args e)) with (g_err e); rewrite veq_punct
    | val_eqb _ (VErr (err_name ?e) (err_args ?e)) (VErr "io.EOF" []) =>
      change (VErr (err_name e) (err_args e)) with (g_err e); rewrite veq_eof
    | val_eqb _ _ _ => let h' := eval cbv in h in change h with h'
    end
  end; cbv beta iota.
Ltac rw7 :=
  lazymatch goal with
  | |- ?G =>
    let L := lazymatch G with (?L = _ -> _) => L | ?L = _ => L | _ => G end in
    let h := head_scrut3 L in
    lazymatch h with
    | ext_fds "Encoding.IsValidByte" [_; g_byte _] => rewrite ext_valid_byte
    | read_pr (g_pr _ _ _ _) => rewrite read_pr_g
    | read_slice (g_slice _ _) => rewrite read_slice_g
    | read_slice (VBytes _) => rewrite read_slice_vb
    | read_slice VNil => rewrite read_slice_nil
    | ph_of_code (ph_code _) => rewrite ph_of_code_code
    | context [Z.to_nat (Z.of_nat _)] => rewrite Nat2Z.id
    end
  end; cbv beta iota.
Ltac hyp7 :=
  first
  [ match goal with |- context [Z.to_nat (Z.of_nat fds_lim)] => rewrite (Nat2Z.id fds_lim) end
  | match goal with
    | H : pr_read_until ?a ?b ?c ?d = _ |- context [pr_read_until ?a ?b ?c ?d] => rewrite H
    | H : pr_read ?a ?b = _ |- context [pr_read ?a ?b] => rewrite H
    | H : fds_consume ?a ?b = _ |- context [fds_consume ?a ?b] => rewrite H
    | H : to_ascii ?a = _ |- context [to_ascii ?a] => rewrite H
    | H : snd (?f ?a) = ?v |- context [@snd ?A ?B (?f ?a)] => rewrite (H : @snd A B (f a) = v)
    | H : fst (?f ?a) = ?v |- context [@fst ?A ?B (?f ?a)] => rewrite (H : @fst A B (f a) = v)
    end ]; cbn [fst snd rup_val res_err asc_val g_err_opt pr_data pr_res_err].
Ltac if7 :=
  lazymatch goal with
  | |- ?G =>
    let L := lazymatch G with (?L = _ -> _) => L | ?L = _ => L | _ => G end in
    let h := head_scrut3 L in
    lazymatch h with
    | exec2 ?x (S (S ?f)) ?e (SIf [] ?c ?th ?el :: ?rest) =>
      norm_env4 h x (S f) e (SIf [] c th el :: rest) ltac:(fun e' => rewrite (exec2_if x f e' c th el rest))
    | CNorm _ => rewrite next2_norm
    | CRet _ _ => rewrite next2_ret
    end
  end; cbv beta iota.
Ltac steps7 := repeat first [rw7 | if7 | step4 ext_fds | use_head_hyp4 | hyp7 | veq7 | lits1 | lits2 | lits3 | slice1 | arith4].

(* ================= isValidByteSequence ================= *)
Definition ivb_body : list gstmt :=
  Eval cbv in match f_body f_saltpack_framedDecoderStream_isValidByteSequence with [SRange _ _ _ b; _] => b | _ => [] end.
Definition ivb_rest : list gstmt := [SReturn [EBool true]].
Definition envV (S P : gval) (tl : env) : env := ([("s", S); ("p", P)] ++ tl)%list.
Definition ivb_tail (tl : env) : Prop := tl = [] \/ exists x, tl = [("b", x)].

Lemma ivb_loop (f : nat) (r : fds_rep) (st : fds_state) (P : gval) (l : bytes) :
  forall (i : Z) (tl : env), ivb_tail tl ->
  exists tl',
  range_loop2 ext_fds (S (S (S (S f)))) "_" "b" ivb_body ivb_rest i (map g_byte l) (envV (g_fds r st) P tl)
  = CRet [VBool (forallb valid_armor_byte l)] (envV (g_fds r st) P tl').
Proof.
  induction l as [|c l IH]; intros i tl Htl.
  - exists tl. rewrite range_loop2_nil. unfold ivb_rest, envV.
    destruct Htl as [->|(x & ->)]; cbn [app]; steps7; reflexivity.
  - cbn [map forallb]. rewrite range_loop2_cons.
    cbn [String.eqb Ascii.eqb Bool.eqb].
    destruct (valid_armor_byte c) eqn:Ev; cbn [andb].
    + destruct (IH (i + 1)%Z [("b", g_byte c)]) as (tl' & Hl); [right; eexists; reflexivity|].
      exists tl'. rewrite <- Hl. unfold ivb_body, envV, g_fds.
      destruct Htl as [->|(x & ->)]; cbn [app]; steps7; reflexivity.
    + exists [("b", g_byte c)]. unfold ivb_body, envV, g_fds.
      destruct Htl as [->|(x & ->)]; cbn [app]; steps7; reflexivity.
Qed.

(* (TARGET) *)
Lemma go_isValidByteSequence (r : fds_rep) (st : fds_state) (p : bytes) :
  let R := run_func2 ext_fds f_saltpack_framedDecoderStream_isValidByteSequence [g_fds r st; g_blist p] in
  fst R = ORet [VBool (forallb valid_armor_byte p)] /\ lookup "s" (snd R) = Some (g_fds r st).
Proof.
  cbv zeta. start4 f_saltpack_framedDecoderStream_isValidByteSequence.
  rewrite exec2_range.
  change (eval ext_fds 64 [("s", g_fds r st); ("p", g_blist p)] (EVar "p")) with (Some (VList (map g_byte p))).
  cbv beta iota.
  destruct (ivb_loop 295 r st (g_blist p) p 0%Z [] (or_introl eq_refl)) as (tl' & Hl).
  fold ivb_body. change [SReturn [EBool true]] with ivb_rest.
  change [("s", g_fds r st); ("p", g_blist p)] with (envV (g_fds r st) (g_blist p) []).
  change 299%nat with (S (S (S (S 295)))). rewrite Hl. split; reflexivity.
Qed.

(* a nil slice *)
Lemma go_isValidByteSequence_nil (r : fds_rep) (st : fds_state) :
  fst (run_func2 ext_fds f_saltpack_framedDecoderStream_isValidByteSequence [g_fds r st; VNil]) = ORet [VBool true].
Proof. reflexivity. Qed.

(* with the slice given as a byte string (the representation every caller passes) the evaluator is stuck *)
Lemma go_isValidByteSequence_bytes_stuck (r : fds_rep) (st : fds_state) (p : bytes) :
  fst (run_func2 ext_fds f_saltpack_framedDecoderStream_isValidByteSequence [g_fds r st; VBytes p]) = OStuck "range".
Proof. reflexivity. Qed.

(* ================= toASCII ================= *)
(* (TARGET) *)
Lemma go_toASCII (r : fds_rep) (st : fds_state) (b : bytes) :
  let R := run_func2 ext_fds f_saltpack_framedDecoderStream_toASCII [g_fds r st; VBytes b] in
  fst R = ORet [asc_val (to_ascii b); res_err (to_ascii b)] /\ lookup "s" (snd R) = Some (g_fds r st).
Proof.
  cbv zeta.
  remember (run_func2 ext_fds f_saltpack_framedDecoderStream_toASCII [g_fds r st; VBytes b]) as R eqn:HR.
  symmetry in HR. revert HR. start4 f_saltpack_framedDecoderStream_toASCII. intros HR.
  unfold to_ascii.
  destruct (forallb valid_armor_byte b) eqn:Ev; revert HR; steps7; intros <-; split; reflexivity.
Qed.

(* ================= loadHeader ================= *)
Lemma g_slice_false (l : bytes) : g_slice false l = VBytes l.
Proof. destruct l; reflexivity. Qed.
Lemma g_slice_true_nil : g_slice true [] = VNil.
Proof. reflexivity. Qed.
Ltac fin7 zh l :=
  eexists (mkRep zh _ _ _ _); split;
  [ unfold g_fds;
    cbn [fds_pr fds_ph fds_hdr fds_ftr fds_brand rp_zh rp_zf rp_z1 rp_z2 rp_buf ph_code];
    rewrite ?(g_slice_false l), ?g_slice_true_nil;
    try (match goal with H : hc = _ |- _ => rewrite H end);
    try (match goal with H : fc = _ |- _ => rewrite H end); reflexivity
  | okrep ].

(* (TARGET) *)
Lemma go_loadHeader (r : fds_rep) (st : fds_state) :
  let R := run_func2 ext_fds f_saltpack_framedDecoderStream_loadHeader [g_fds r st] in
  fst R = ORet [g_err_opt (fst (gfds_load_header_m st))] /\
  exists r', lookup "s" (snd R) = Some (g_fds r' (snd (gfds_load_header_m st))) /\ keeps_ok r r'.
Proof.
  cbv zeta.
  remember (run_func2 ext_fds f_saltpack_framedDecoderStream_loadHeader [g_fds r st]) as R eqn:HR.
  symmetry in HR. revert HR. start4 f_saltpack_framedDecoderStream_loadHeader. intros HR.
  destruct st as [pr ph h f br]. destruct r as [zh zf z1 z2 buf].
  unfold gfds_load_header_m, gfds_load_header. unfold g_fds in HR.
  cbn [fds_pr fds_ph fds_hdr fds_ftr fds_brand rp_zh rp_zf rp_z1 rp_z2 rp_buf] in *.
  destruct ph; cbn [ph_code] in HR.
  2,3,4: revert HR; steps7; intros <-; split; [reflexivity|eexists (mkRep _ _ _ _ _); split; [reflexivity|okrep]].
  destruct (pr_read_until fuel (Z.to_nat flim) pr []) as [[hd|x] pr'] eqn:Erup.
  2:{ revert HR; steps7; intros <-; split; [reflexivity|fin7 true (@nil byte)]. }
  destruct hc as [chk|] eqn:Ehc.
  2:{ revert HR; steps7; intros <-; split; [reflexivity|fin7 false hd]. }
  destruct (to_ascii hd) as [hs|x] eqn:Ea.
  2:{ revert HR; steps7; intros <-; split; [reflexivity|fin7 false hd]. }
  destruct (snd (chk hs)) as [x|] eqn:Ee;
    revert HR; steps7; intros <-; (split; [reflexivity|fin7 false hd]).
Qed.

(* ================= Read ================= *)
Definition rd_b1 : gstmt := Eval cbv in nth 0 (f_body f_saltpack_framedDecoderStream_Read) SBreak.
Definition rd_b2 : gstmt := Eval cbv in nth 1 (f_body f_saltpack_framedDecoderStream_Read) SBreak.
Definition rd_b3 : gstmt := Eval cbv in nth 2 (f_body f_saltpack_framedDecoderStream_Read) SBreak.
Definition rd_b4 : gstmt := Eval cbv in nth 3 (f_body f_saltpack_framedDecoderStream_Read) SBreak.
Definition rd_b5 : gstmt := Eval cbv in nth 4 (f_body f_saltpack_framedDecoderStream_Read) SBreak.
Lemma rd_body_split : f_body f_saltpack_framedDecoderStream_Read = [rd_b1; rd_b2; rd_b3; rd_b4; rd_b5].
Proof. reflexivity. Qed.

Definition F8 (f : nat) : nat := S (S (S (S (S (S (S (S (S (S (S (S (S (S (S (S f))))))))))))))).
Definition envR (Sv P N E : gval) (tl : env) : env := ("s", Sv) :: ("p", P) :: ("n", N) :: ("err", E) :: tl.
Definition rep1 (r : fds_rep) (st : fds_state) : fds_rep :=
  match fds_ph st with FdsHeader => Olh (g_fds r st) | _ => r end.

Lemma rd_blk1 (f : nat) (r : fds_rep) (st : fds_state) (P : gval) (rest : list gstmt) :
  exec2 ext_fds (S (F8 f)) (envR (g_fds r st) P (VInt 0) VNil []) (rd_b1 :: rest) =
  match fst (gfds_load_header_m st) with
  | Some x => CRet [VInt 0; g_err x] (envR (g_fds (rep1 r st) (snd (gfds_load_header_m st))) P (VInt 0) (g_err x) [])
  | None => exec2 ext_fds (F8 f) (envR (g_fds (rep1 r st) (snd (gfds_load_header_m st))) P (VInt 0) VNil []) rest
  end.
Proof.
  destruct st as [pr ph h ft br]. destruct r as [zh zf z1 z2 buf].
  unfold F8, rd_b1, envR, rep1, g_fds. cbn [fds_pr fds_ph fds_hdr fds_ftr fds_brand rp_zh rp_zf rp_z1 rp_z2 rp_buf].
  destruct ph; cbn [ph_code].
  2,3,4: unfold gfds_load_header_m; cbn [fds_ph fst snd]; steps7; reflexivity.
  destruct (fst (gfds_load_header_m (mkFds pr FdsHeader h ft br))) as [x|] eqn:El; steps7; reflexivity.
Qed.

Definition rep2 (r : fds_rep) (st : fds_state) (p : bytes) : fds_rep :=
  match fds_ph st with
  | FdsBody => mkRep (rp_zh r) (rp_zf r) (fst (fst (Ord (fds_pr st) p))) (snd (fst (Ord (fds_pr st) p))) (rp_buf r)
  | _ => r
  end.
(* the caller's buffer after the body stage: the data at the front, then what the reader left there *)
Definition buf2 (st : fds_state) (p : bytes) : bytes :=
  match fds_ph st with
  | FdsBody =>
    let d := pr_data (fst (pr_read (List.length p) (fds_pr st))) in
    (d ++ skipn (List.length d) (snd (Ord (fds_pr st) p)))%list
  | _ => p
  end.
Definition cnt2 (st : fds_state) (p : bytes) : Z :=
  match fds_ph st with
  | FdsBody => Z.of_nat (List.length (pr_data (fst (pr_read (List.length p) (fds_pr st)))))
  | _ => 0%Z
  end.

Lemma rd_blk2 (f : nat) (r : fds_rep) (st : fds_state) (p : bytes) (rest : list gstmt) :
  (forall d, fst (pr_read (List.length p) (fds_pr st)) <> PrErr d ErrPunctuated) ->
  exec2 ext_fds (S (F8 f)) (envR (g_fds r st) (VBytes p) (VInt 0) VNil []) (rd_b2 :: rest) =
  match fst (gfds_body (List.length p) st) with
  | inl _ => exec2 ext_fds (F8 f) (envR (g_fds (rep2 r st p) (snd (gfds_body (List.length p) st)))
                                        (VBytes (buf2 st p)) (VInt (cnt2 st p)) VNil []) rest
  | inr x => CRet [VInt 0; g_err x] (envR (g_fds (rep2 r st p) (snd (gfds_body (List.length p) st)))
                                          (VBytes (buf2 st p)) (VInt (cnt2 st p)) (g_err x) [])
  end.
Proof.
  intros Hnp.
  destruct st as [pr ph h ft br]. destruct r as [zh zf z1 z2 buf].
  unfold F8, rd_b2, envR, rep2, buf2, cnt2, gfds_body, set_pr, g_fds.
  cbn [fds_pr fds_ph fds_hdr fds_ftr fds_brand rp_zh rp_zf rp_z1 rp_z2 rp_buf] in *.
  destruct ph; cbn [ph_code fst snd].
  1,3,4: steps7; reflexivity.
  cbv zeta. destruct (pr_read (List.length p) pr) as [[d|d|d x] pr'] eqn:Er; cbn [fst snd pr_data] in *.
  - steps7; reflexivity.
  - steps7; reflexivity.
  - assert (Hp : is_punct_err x = false).
    { destruct (is_punct_err x) eqn:Ep; [|reflexivity]. apply is_punct_err_true in Ep. subst x.
      exfalso. apply (Hnp d). reflexivity. }
    destruct (is_eof x) eqn:Ee.
    + apply is_eof_true in Ee. subst x. steps7; reflexivity.
    + rewrite (is_eof_false x Ee). steps7; reflexivity.
Qed.

Ltac prep3 :=
  unfold g_fds; cbn [fds_pr fds_ph fds_hdr fds_ftr fds_brand rp_zh rp_zf rp_z1 rp_z2 rp_buf ph_code g_slice fst snd].
(* an early return: the environment is whatever the run produces *)
Ltac fin3_ret zf l :=
  eexists (mkRep _ zf _ _ _), [], _; prep3; rewrite ?(g_slice_false l);
  try (match goal with H : fc = _ |- _ => rewrite !H end);
  split; [steps7; reflexivity|split; [reflexivity|split; [reflexivity|okrep]]].
(* falling through to the next stage *)
Ltac fin3_go zf l P :=
  eexists (mkRep _ zf _ _ _), _, [("s", _); ("p", P)]; prep3; rewrite ?(g_slice_false l);
  try (match goal with H : fc = _ |- _ => rewrite !H end);
  split; [steps7; reflexivity|split; [reflexivity|split; [reflexivity|okrep]]].

Lemma rd_blk3 (f : nat) (r : fds_rep) (st : fds_state) (P N : gval) (rest : list gstmt) :
  exists r3 tl3 E,
  exec2 ext_fds (S (F8 f)) (envR (g_fds r st) P N VNil []) (rd_b3 :: rest) =
  match fst (gfds_footer st) with
  | Some x => CRet [VInt 0; g_err x] E
  | None => exec2 ext_fds (F8 f) (envR (g_fds r3 (snd (gfds_footer st))) P N VNil tl3) rest
  end /\ lookup "s" E = Some (g_fds r3 (snd (gfds_footer st))) /\ lookup "p" E = Some P /\ keeps_ok r r3.
Proof.
  destruct st as [pr ph h ft br]. destruct r as [zh zf z1 z2 buf].
  unfold F8, rd_b3, envR, gfds_footer.
  cbn [fds_pr fds_ph fds_hdr fds_ftr fds_brand].
  destruct ph.
  1,2,4: eexists (mkRep _ _ _ _ _), _, [("s", _); ("p", P)]; prep3;
         (split; [steps7; reflexivity|split; [reflexivity|split; [reflexivity|okrep]]]).
  destruct (pr_read_until fuel (Z.to_nat flim) pr []) as [[fo|x] pr'] eqn:Erup.
  2: fin3_ret true (@nil byte).
  destruct fc as [chk|] eqn:Efc.
  2: fin3_go false fo P.
  destruct (to_ascii h) as [hs|x] eqn:Eah.
  2: fin3_ret false fo.
  destruct (to_ascii fo) as [fs|x] eqn:Eaf.
  2: fin3_ret false fo.
  destruct (snd (chk hs fs)) as [x|] eqn:Ee.
  - fin3_ret false fo.
  - fin3_go false fo P.
Qed.

Definition nonempty {A} (l : list A) : bool := match l with [] => false | _ => true end.
Lemma gfds_end_eq (d : bytes) (st : fds_state) :
  gfds_end d st =
  match fds_ph st with
  | FdsEnd => ((d, if (is_eof (fst (gfds_consume st)) && nonempty d)%bool then None else Some (fst (gfds_consume st))),
               snd (gfds_consume st))
  | _ => ((d, None), st)
  end.
Proof.
  unfold gfds_end. destruct (fds_ph st); try reflexivity.
  destruct (fst (gfds_consume st)); destruct d; reflexivity.
Qed.

Lemma rd_blk45 (f : nat) (r : fds_rep) (st : fds_state) (P : gval) (d : bytes) (tl : env) :
  exists r4 E,
  exec2 ext_fds (S (F8 f)) (envR (g_fds r st) P (VInt (Z.of_nat (List.length d))) VNil tl) [rd_b4; rd_b5] =
  CRet [VInt (Z.of_nat (List.length d)); g_err_opt (snd (fst (gfds_end d st)))] E /\
  lookup "s" E = Some (g_fds r4 (snd (gfds_end d st))) /\ lookup "p" E = Some P /\ keeps_ok r r4.
Proof.
  rewrite gfds_end_eq.
  destruct st as [pr ph h ft br]. destruct r as [zh zf z1 z2 buf].
  unfold F8, rd_b4, rd_b5, envR.
  cbn [fds_pr fds_ph fds_hdr fds_ftr fds_brand].
  destruct ph.
  1,2,3: eexists (mkRep _ _ _ _ _), _; prep3; (split; [steps7; reflexivity|split; [reflexivity|split; [reflexivity|okrep]]]).
  destruct (is_eof (fst (gfds_consume (mkFds pr FdsEnd h ft br)))) eqn:Ex; cbn [andb].
  1: destruct d as [|d0 d']; cbn [nonempty];
     [|assert (H0 : (0 <? Z.of_nat (List.length (d0 :: d')))%Z = true) by (cbn [List.length]; lia)].
  all: eexists (Oce _), _; cbn [fst snd g_err_opt]; (split; [unfold g_fds; cbn [fds_pr fds_ph fds_hdr fds_ftr fds_brand rp_zh rp_zf rp_z1 rp_z2 rp_buf ph_code]; steps7; reflexivity|split; [reflexivity|split; [reflexivity|okrep]]]).
Qed.

Lemma pr_read_until_clean (k lim : nat) : forall (st : pr_state) (acc : bytes),
  pr_clean st -> pr_clean (snd (pr_read_until k lim st acc)).
Proof.
  induction k as [|k IH]; intros st acc Hc; [exact Hc|]. rewrite pr_read_until_S.
  destruct (pr_read_clean 4096 st Hc) as [_ Hc'].
  destruct (pr_read 4096 st) as [[d|d|d e] st']; cbn [snd] in Hc'; cbv zeta.
  - destruct (Nat.leb lim (List.length (acc ++ d)%list)); [exact Hc'|]. destruct d; [exact Hc'|]. apply IH. exact Hc'.
  - destruct (Nat.leb lim (List.length (acc ++ d)%list)); exact Hc'.
  - exact Hc'.
Qed.
Lemma gfds_load_header_m_clean (st : fds_state) :
  pr_clean (fds_pr st) -> pr_clean (fds_pr (snd (gfds_load_header_m st))).
Proof.
  intros Hc. unfold gfds_load_header_m, gfds_load_header. destruct (fds_ph st); try exact Hc.
  pose proof (pr_read_until_clean fuel (Z.to_nat flim) (fds_pr st) [] Hc) as H.
  destruct (pr_read_until fuel (Z.to_nat flim) (fds_pr st) []) as [[hd|x] pr']; cbn [snd] in H; [|exact H].
  destruct hc as [chk|]; [|exact H]. destruct (to_ascii hd); [|exact H]. destruct (snd (chk a)); exact H.
Qed.
Lemma gfds_body_facts (st : fds_state) (p d : bytes) :
  fst (gfds_body (List.length p) st) = inl d ->
  cnt2 st p = Z.of_nat (List.length d) /\ firstn (List.length d) (buf2 st p) = d.
Proof.
  unfold gfds_body, cnt2, buf2. destruct (fds_ph st); cbn [fst].
  1,3,4: intros H; injection H as <-; split; reflexivity.
  destruct (pr_read (List.length p) (fds_pr st)) as [[d1|d1|d1 x] pr']; cbn [fst pr_data]; intros H;
    [injection H as <-|injection H as <-|discriminate]; (split; [reflexivity|apply firstn_app_len]).
Qed.
Lemma gfds_end_data (d : bytes) (st : fds_state) : fst (fst (gfds_end d st)) = d.
Proof. rewrite gfds_end_eq. destruct (fds_ph st); reflexivity. Qed.

(* (TARGET) *)
Theorem go_framedDecoderStream_Read (r : fds_rep) (st : fds_state) (p : bytes) :
  pr_clean (fds_pr st) ->
  let R := run_func2 ext_fds f_saltpack_framedDecoderStream_Read [g_fds r st; VBytes p] in
  let m := gfds_read (List.length p) st in
  fst R = ORet [VInt (Z.of_nat (List.length (fst (fst m)))); g_err_opt (snd (fst m))] /\
  (exists r', lookup "s" (snd R) = Some (g_fds r' (snd m)) /\ keeps_ok r r') /\
  (let p' := buf2 (snd (gfds_load_header_m st)) p in
   lookup "p" (snd R) = Some (VBytes p') /\ firstn (List.length (fst (fst m))) p' = fst (fst m)).
Proof.
  intros Hcl. cbv zeta. rewrite run_func2_at_300. unfold run_func2_at.
  cbn [f_params f_results f_saltpack_framedDecoderStream_Read bind_params].
  rewrite rd_body_split.
  lazymatch goal with
  | |- context [exec2 ext_fds 300 ?e ?b] =>
    change (exec2 ext_fds 300 e b)
      with (exec2 ext_fds (S (F8 283)) (envR (g_fds r st) (VBytes p) (VInt 0) VNil []) (rd_b1 :: [rd_b2; rd_b3; rd_b4; rd_b5]))
  end.
  rewrite rd_blk1. unfold gfds_read.
  assert (Hk1 : keeps_ok r (rep1 r st)).
  { unfold rep1. destruct (fds_ph st); [intros (_ & HO & _) _; apply HO|intros _ H; exact H..]. }
  assert (Hk2 : keeps_ok r (rep2 (rep1 r st) (snd (gfds_load_header_m st)) p)).
  { unfold rep2. destruct (fds_ph (snd (gfds_load_header_m st))); exact Hk1. }
  pose proof (gfds_load_header_m_clean st Hcl) as Hcl1.
  destruct (fst (gfds_load_header_m st)) as [x|] eqn:E1.
  { cbn [fst snd g_err_opt List.length]. split; [reflexivity|]. split; [eexists; split; [reflexivity|exact Hk1]|].
    split; [|reflexivity]. unfold buf2.
    assert (Hh : fds_ph (snd (gfds_load_header_m st)) = FdsHeader).
    { revert E1. unfold gfds_load_header_m, gfds_load_header. destruct (fds_ph st) eqn:Ep; try discriminate.
      destruct (pr_read_until fuel (Z.to_nat flim) (fds_pr st) []) as [[hd|y] pr']; [|reflexivity].
      destruct hc as [chk|]; [|discriminate]. destruct (to_ascii hd); [|reflexivity].
      destruct (snd (chk a)); [reflexivity|discriminate]. }
    rewrite Hh. reflexivity. }
  set (st1 := snd (gfds_load_header_m st)) in *.
  change (F8 283) with (S (F8 282)).
  rewrite rd_blk2 by (apply (pr_read_clean (List.length p) (fds_pr st1) Hcl1)).
  destruct (fst (gfds_body (List.length p) st1)) as [d|x] eqn:E2.
  2:{ cbn [fst snd g_err_opt List.length]. split; [reflexivity|]. split; [eexists; split; [reflexivity|exact Hk2]|].
      split; reflexivity. }
  destruct (gfds_body_facts st1 p d E2) as [Hn Hf].
  set (st2 := snd (gfds_body (List.length p) st1)) in *.
  change (F8 282) with (S (F8 281)).
  destruct (rd_blk3 281 (rep2 (rep1 r st) st1 p) st2 (VBytes (buf2 st1 p)) (VInt (cnt2 st1 p)) [rd_b4; rd_b5])
    as (r3 & tl3 & E & Heq & Hs & Hp & Hk3).
  rewrite Heq. clear Heq.
  assert (Hk3' : keeps_ok r r3) by (intros HO Hr; exact (Hk3 HO (Hk2 HO Hr))).
  destruct (fst (gfds_footer st2)) as [x|] eqn:E3.
  { cbn [fst snd g_err_opt List.length]. split; [reflexivity|]. split; [eexists; split; [exact Hs|exact Hk3']|].
    split; [exact Hp|reflexivity]. }
  set (st3 := snd (gfds_footer st2)) in *.
  change (F8 281) with (S (F8 280)). rewrite Hn.
  destruct (rd_blk45 280 r3 st3 (VBytes (buf2 st1 p)) d tl3) as (r4 & E4 & Heq & Hs4 & Hp4 & Hk4).
  rewrite Heq. cbn [fst snd]. rewrite gfds_end_data.
  split; [reflexivity|]. split; [eexists; split; [exact Hs4|intros HO Hr; exact (Hk4 HO (Hk3' HO Hr))]|].
  split; [exact Hp4|exact Hf].
Qed.

(* ---------- the hypothesis of Read is re-established by every call ---------- *)
Lemma fds_consume_clean (k : nat) : forall (pr : pr_state), pr_clean pr -> pr_clean (snd (fds_consume k pr)).
Proof.
  induction k as [|k IH]; intros pr Hc; [exact Hc|]. cbn [fds_consume].
  destruct (pr_read_clean 4096 pr Hc) as [_ Hc'].
  destruct (pr_read 4096 pr) as [[d|d|d e] pr']; cbn [snd] in Hc' |- *; try exact Hc'.
  destruct d as [|d0 d']; [exact Hc'|].
  destruct (forallb valid_armor_byte (d0 :: d')); [apply IH; exact Hc'|exact Hc'].
Qed.
Lemma gfds_body_clean (n : nat) (st : fds_state) : pr_clean (fds_pr st) -> pr_clean (fds_pr (snd (gfds_body n st))).
Proof.
  intros Hc. unfold gfds_body. destruct (fds_ph st); try exact Hc.
  destruct (pr_read_clean n (fds_pr st) Hc) as [_ Hc'].
  destruct (pr_read n (fds_pr st)) as [[d|d|d e] pr']; exact Hc'.
Qed.
Lemma gfds_footer_clean (st : fds_state) : pr_clean (fds_pr st) -> pr_clean (fds_pr (snd (gfds_footer st))).
Proof.
  intros Hc. unfold gfds_footer. destruct (fds_ph st); try exact Hc.
  pose proof (pr_read_until_clean fuel (Z.to_nat flim) (fds_pr st) [] Hc) as H.
  destruct (pr_read_until fuel (Z.to_nat flim) (fds_pr st) []) as [[fo|x] pr']; cbn [snd] in H; [|exact H].
  destruct fc as [chk|]; [|exact H]. destruct (to_ascii (fds_hdr st)); [|exact H].
  destruct (to_ascii fo); [|exact H]. destruct (snd (chk a a0)); exact H.
Qed.
Lemma gfds_end_clean (d : bytes) (st : fds_state) : pr_clean (fds_pr st) -> pr_clean (fds_pr (snd (gfds_end d st))).
Proof.
  intros Hc. rewrite gfds_end_eq. destruct (fds_ph st); try exact Hc.
  cbn [snd]. unfold gfds_consume, set_pr. cbn [snd fds_pr]. apply fds_consume_clean. exact Hc.
Qed.
(* (TARGET) *)
Lemma gfds_read_clean (n : nat) (st : fds_state) : pr_clean (fds_pr st) -> pr_clean (fds_pr (snd (gfds_read n st))).
Proof.
  intros Hc. unfold gfds_read.
  pose proof (gfds_load_header_m_clean st Hc) as H1.
  destruct (fst (gfds_load_header_m st)); [exact H1|].
  pose proof (gfds_body_clean n _ H1) as H2.
  destruct (fst (gfds_body n (snd (gfds_load_header_m st)))); [|exact H2].
  pose proof (gfds_footer_clean _ H2) as H3.
  destruct (fst (gfds_footer (snd (gfds_body n (snd (gfds_load_header_m st)))))); [exact H3|].
  apply gfds_end_clean. exact H3.
Qed.
Lemma fds_init_clean (s : source) : src_clean s -> pr_clean (fds_pr (fds_init s)).
Proof. intros H. split; [exact H|discriminate]. Qed.


(* ================= the getters ================= *)
(* GetFooter: an error before the footer stage, else toASCII of the stored footer; the object is not touched *)
Definition gfds_get_footer (st : fds_state) : list gval :=
  match fds_ph st with
  | FdsHeader | FdsBody => [VBytes []; fmt_err footer_early]
  | _ => [asc_val (to_ascii (fds_ftr st)); res_err (to_ascii (fds_ftr st))]
  end.
(* GetHeader / GetBrand: load the header if that has not happened yet *)
Definition gfds_get_header (st : fds_state) : list gval * fds_state :=
  match fst (gfds_load_header_m st) with
  | Some x => ([VBytes []; g_err x], snd (gfds_load_header_m st))
  | None => ([asc_val (to_ascii (fds_hdr (snd (gfds_load_header_m st))));
              res_err (to_ascii (fds_hdr (snd (gfds_load_header_m st))))], snd (gfds_load_header_m st))
  end.
Definition gfds_get_brand (st : fds_state) : list gval * fds_state :=
  match fst (gfds_load_header_m st) with
  | Some x => ([VBytes []; g_err x], snd (gfds_load_header_m st))
  | None => ([VBytes (fds_brand (snd (gfds_load_header_m st))); VNil], snd (gfds_load_header_m st))
  end.

(* (TARGET) *)
Lemma go_GetFooter (r : fds_rep) (st : fds_state) :
  let R := run_func2 ext_fds f_saltpack_framedDecoderStream_GetFooter [g_fds r st] in
  fst R = ORet (gfds_get_footer st) /\ lookup "s" (snd R) = Some (g_fds r st).
Proof.
  cbv zeta.
  remember (run_func2 ext_fds f_saltpack_framedDecoderStream_GetFooter [g_fds r st]) as R eqn:HR.
  symmetry in HR. revert HR. start4 f_saltpack_framedDecoderStream_GetFooter. intros HR.
  destruct st as [pr ph h ft br]. destruct r as [zh zf z1 z2 buf].
  unfold gfds_get_footer. unfold g_fds in HR.
  cbn [fds_pr fds_ph fds_hdr fds_ftr fds_brand rp_zh rp_zf rp_z1 rp_z2 rp_buf] in *.
  destruct ph; cbn [ph_code] in HR; revert HR; steps7; intros <-; split; reflexivity.
Qed.

(* (TARGET) *)
Lemma go_GetHeader (r : fds_rep) (st : fds_state) :
  let R := run_func2 ext_fds f_saltpack_framedDecoderStream_GetHeader [g_fds r st] in
  fst R = ORet (fst (gfds_get_header st)) /\
  exists r', lookup "s" (snd R) = Some (g_fds r' (snd (gfds_get_header st))) /\ keeps_ok r r'.
Proof.
  cbv zeta.
  remember (run_func2 ext_fds f_saltpack_framedDecoderStream_GetHeader [g_fds r st]) as R eqn:HR.
  symmetry in HR. revert HR. start4 f_saltpack_framedDecoderStream_GetHeader. intros HR.
  destruct st as [pr ph h ft br]. destruct r as [zh zf z1 z2 buf].
  unfold gfds_get_header. unfold g_fds in HR.
  cbn [fds_pr fds_ph fds_hdr fds_ftr fds_brand rp_zh rp_zf rp_z1 rp_z2 rp_buf] in *.
  destruct ph; cbn [ph_code] in HR.
  2,3,4: unfold gfds_load_header_m; cbn [fds_ph fds_hdr fst snd]; revert HR; steps7; intros <-;
         (split; [reflexivity|eexists (mkRep _ _ _ _ _); split; [reflexivity|okrep]]).
  destruct (fst (gfds_load_header_m (mkFds pr FdsHeader h ft br))) as [x|] eqn:El;
    revert HR; steps7; intros <-; (split; [reflexivity|eexists (Olh _); split; [reflexivity|okrep]]).
Qed.

(* (TARGET) *)
Lemma go_GetBrand (r : fds_rep) (st : fds_state) :
  let R := run_func2 ext_fds f_saltpack_framedDecoderStream_GetBrand [g_fds r st] in
  fst R = ORet (fst (gfds_get_brand st)) /\
  exists r', lookup "s" (snd R) = Some (g_fds r' (snd (gfds_get_brand st))) /\ keeps_ok r r'.
Proof.
  cbv zeta.
  remember (run_func2 ext_fds f_saltpack_framedDecoderStream_GetBrand [g_fds r st]) as R eqn:HR.
  symmetry in HR. revert HR. start4 f_saltpack_framedDecoderStream_GetBrand. intros HR.
  destruct st as [pr ph h ft br]. destruct r as [zh zf z1 z2 buf].
  unfold gfds_get_brand. unfold g_fds in HR.
  cbn [fds_pr fds_ph fds_hdr fds_ftr fds_brand rp_zh rp_zf rp_z1 rp_z2 rp_buf] in *.
  destruct ph; cbn [ph_code] in HR.
  2,3,4: unfold gfds_load_header_m; cbn [fds_ph fds_brand fst snd]; revert HR; steps7; intros <-;
         (split; [reflexivity|eexists (mkRep _ _ _ _ _); split; [reflexivity|okrep]]).
  destruct (fst (gfds_load_header_m (mkFds pr FdsHeader h ft br))) as [x|] eqn:El;
    revert HR; steps7; intros <-; (split; [reflexivity|eexists (Olh _); split; [reflexivity|okrep]]).
Qed.

(* ================= consumeUntilEOF: NOT EXPRESSIBLE ================= *)
Lemma go_consumeUntilEOF_not_expressible (r : fds_rep) (st : fds_state) :
  fst (run_func2 ext_fds f_saltpack_framedDecoderStream_consumeUntilEOF [g_fds r st]) = OStuck "call".
Proof.
  remember (run_func2 ext_fds f_saltpack_framedDecoderStream_consumeUntilEOF [g_fds r st]) as R eqn:HR.
  symmetry in HR. revert HR. start4 f_saltpack_framedDecoderStream_consumeUntilEOF. intros HR.
  destruct st as [pr ph h ft br]. destruct r as [zh zf z1 z2 buf]. unfold g_fds in HR.
  cbn [fds_pr fds_ph fds_hdr fds_ftr fds_brand rp_zh rp_zf rp_z1 rp_z2 rp_buf] in *.
  revert HR; steps7; rewrite for_loop2_S; steps7; intros <-; reflexivity.
Qed.

End Fds7.

(* ================= the two reader externs are what their own ties prove ================= *)
(* punctuatedReader.Read: the translated method (GoAstProofs4c.v), run on the reader object and a caller buffer,
   returns the first two results of the extern and leaves in "p" / "out" its third and fourth results, for some
   value of the oracle that keeps the buffer's length *)
Lemma ext_Read_sound (z1 z2 : bool) (buf : bytes) (st : pr_state) (out : bytes) :
  (pr_this st = [] -> pr_this_punct st = false) ->
  let r := run_func2 ext_pr f_saltpack_punctuatedReader_Read [g_pr z1 z2 buf st; VBytes out] in
  exists (fl : bool * bool) (raw : bytes), List.length raw = List.length out /\
    forall hc fc encv fuel flim Orup Olh Oce,
    ext_fds hc fc encv fuel flim Orup (fun _ _ => (fl, raw)) Olh Oce "punctuatedReader.Read" [g_pr z1 z2 buf st; VBytes out]
    = Some (match fst r with ORet vs => vs | _ => [] end ++
            [match lookup "p" (snd r) with Some v => v | None => VNil end;
             match lookup "out" (snd r) with Some v => v | None => VNil end])%list.
Proof.
  intros Hwf. cbv zeta.
  destruct (read_call_sound z1 z2 buf st out Hwf) as (fl & raw & Hlen & Hret & Hp & Hout & _).
  exists fl, raw. split; [exact Hlen|]. intros hc fc encv fuel flim Orup Olh Oce.
  rewrite Hret, Hp, Hout. unfold ext_fds. cbn [String.eqb Ascii.eqb Bool.eqb].
  rewrite read_pr_g. unfold read_call. reflexivity.
Qed.

(* punctuatedReader.ReadUntilPunctuation: the translated method (GoAstProofs4d.v) returns the first two results of
   the extern and leaves its third in "p", for some value of the oracle, whenever the model's fuel and the
   evaluator's exceed the number of turns the loop can take *)
Lemma ext_RUP_sound (O : read_oracle) (z1 z2 : bool) (buf : bytes) (st : pr_state) (lim : Z) (fuel : nat) :
  oracle_ok O -> List.length buf = 4096%nat ->
  (pr_this st = [] -> pr_this_punct st = false) -> pr_clean st ->
  (rup_need (Z.to_nat lim) st [] < 299)%nat -> (rup_need (Z.to_nat lim) st [] < fuel)%nat ->
  let r := run_func2 (ext_rup O) f_saltpack_punctuatedReader_ReadUntilPunctuation [g_pr z1 z2 buf st; VInt lim] in
  exists (fl : bool * bool) (buf' : bytes), List.length buf' = 4096%nat /\
    forall hc fc encv flim Ord Olh Oce,
    ext_fds hc fc encv fuel flim (fun _ => (fl, buf')) Ord Olh Oce "punctuatedReader.ReadUntilPunctuation" [g_pr z1 z2 buf st; VInt lim]
    = Some (match fst r with ORet vs => vs | _ => [] end ++
            [match lookup "p" (snd r) with Some v => v | None => VNil end])%list.
Proof.
  intros HO Hb Hwf Hcl Hk Hf. cbv zeta.
  destruct (go_punctuatedReader_ReadUntilPunctuation_300 O z1 z2 buf st lim HO Hb Hwf Hcl Hk)
    as (Hret & z1' & z2' & buf' & Hp & Hb').
  rewrite (pr_read_until_fuel _ fuel) in Hret, Hp by lia.
  exists (z1', z2'), buf'. split; [exact Hb'|]. intros hc fc encv flim Ord Olh Oce.
  rewrite Hret, Hp. unfold ext_fds. cbn [String.eqb Ascii.eqb Bool.eqb].
  rewrite read_pr_g. cbn [fst snd]. rewrite <- rup_val_err. reflexivity.
Qed.

(* ================= the model's state machine is the instance for the shipped checkers ================= *)
(* the checker closures of armor62_decrypt.go / armor62_verify.go / armor62_signcrypt.go over the model's
   parse_frame / check_armor62; [jb], [jb2]: the string returned TOGETHER WITH an error (parseFrame returns the
   over-long brand with "Brand is too long", the empty string otherwise; the model does not record it) *)
Definition hc_of (typ : Z) (jb : bytes -> bytes) : checker1 := fun hs =>
  match parse_frame hs typ header_marker with Ok b => (b, None) | Err x => (jb hs, Some x) end.
Definition fc_of (typ : Z) (jb2 : bytes -> bytes -> bytes) : checker2 := fun hs fs =>
  match check_armor62 hs fs typ with Ok b => (b, None) | Err x => (jb2 hs fs, Some x) end.
Definition hc_opt (chk : option Z) (jb : bytes -> bytes) : option checker1 :=
  match chk with Some typ => Some (hc_of typ jb) | None => None end.
Definition fc_opt (chk : option Z) (jb2 : bytes -> bytes -> bytes) : option checker2 :=
  match chk with Some typ => Some (fc_of typ jb2) | None => None end.

(* equal but for frameBrand while the header has not been accepted: Go stores there whatever the header
   checker returned with its error, the model keeps the old value; nothing reads the field in that state
   (GetBrand loads the header first) *)
Definition fds_eqv (a b : fds_state) : Prop :=
  fds_pr a = fds_pr b /\ fds_ph a = fds_ph b /\ fds_hdr a = fds_hdr b /\ fds_ftr a = fds_ftr b /\
  (fds_ph a <> FdsHeader -> fds_brand a = fds_brand b).
Lemma fds_eqv_refl (a : fds_state) : fds_eqv a a.
Proof. repeat split. Qed.
Lemma fds_eqv_eq (a b : fds_state) : fds_eqv a b -> fds_ph a <> FdsHeader -> a = b.
Proof.
  destruct a, b. unfold fds_eqv. cbn. intros (-> & -> & -> & -> & H) Hp. rewrite (H Hp). reflexivity.
Qed.

(* the frame limit of newArmorDecoderStream *)
Definition lim0 : Z := Z.of_nat fds_lim.
Lemma lim0_nat : Z.to_nat lim0 = fds_lim.
Proof. apply Nat2Z.id. Qed.

Section Model.
Variable chk : option Z.
Variable jb : bytes -> bytes.
Variable jb2 : bytes -> bytes -> bytes.
Variable fuel : nat.
Let hc := hc_opt chk jb.
Let fc := fc_opt chk jb2.

(* the model's footer stage *)
Definition mfooter (st : fds_state) : option err * fds_state :=
  match fds_ph st with
  | FdsFooter =>
    match pr_read_until fuel fds_lim (fds_pr st) [] with
    | (Err x, pr') => (Some x, mkFds pr' FdsFooter (fds_hdr st) [] (fds_brand st))
    | (Ok f, pr') =>
      match chk with
      | None => (None, mkFds pr' FdsEnd (fds_hdr st) f (fds_brand st))
      | Some typ =>
        match bind (to_ascii (fds_hdr st)) (fun hs => bind (to_ascii f) (fun fs => check_armor62 hs fs typ)) with
        | Ok _ => (None, mkFds pr' FdsEnd (fds_hdr st) f (fds_brand st))
        | Err x => (Some x, mkFds pr' FdsFooter (fds_hdr st) f (fds_brand st))
        end
      end
    end
  | _ => (None, st)
  end.

Lemma gfds_footer_model (st : fds_state) : gfds_footer fc fuel lim0 st = mfooter st.
Proof.
  unfold gfds_footer, mfooter, fc, fc_opt. rewrite lim0_nat. destruct (fds_ph st); try reflexivity.
  destruct (pr_read_until fuel fds_lim (fds_pr st) []) as [[f|x] pr']; [|reflexivity].
  destruct chk as [typ|]; [|reflexivity].
  destruct (to_ascii (fds_hdr st)) as [hs|x]; [|reflexivity]. cbn [bind].
  destruct (to_ascii f) as [fs|x]; [|reflexivity]. cbn [bind].
  unfold fc_of. destruct (check_armor62 hs fs typ); reflexivity.
Qed.

(* fds_read is the composition of its four stages *)
Lemma fds_read_stages (n : nat) (st : fds_state) :
  fds_read chk fuel n st =
  let hs := match fds_ph st with FdsHeader => fds_load_header chk fuel st | _ => (None, st) end in
  match fst hs with
  | Some x => (([], Some x), snd hs)
  | None =>
    match fst (gfds_body n (snd hs)) with
    | inr x => (([], Some x), snd (gfds_body n (snd hs)))
    | inl d =>
      match fst (mfooter (snd (gfds_body n (snd hs)))) with
      | Some x => (([], Some x), snd (mfooter (snd (gfds_body n (snd hs)))))
      | None => gfds_end fuel d (snd (mfooter (snd (gfds_body n (snd hs)))))
      end
    end
  end.
Proof.
  unfold fds_read. cbv zeta.
  destruct (match fds_ph st with FdsHeader => fds_load_header chk fuel st | _ => (None, st) end) as [herr st1].
  cbn [fst snd]. destruct herr as [x|]; [reflexivity|].
  unfold gfds_body, set_pr.
  destruct (fds_ph st1) eqn:Ep1; cbn [fst snd].
  2:{ destruct (pr_read n (fds_pr st1)) as [[d|d|d x] pr']; cbn [fst snd fds_ph].
      - unfold mfooter, gfds_end. cbn [fds_ph]. reflexivity.
      - unfold mfooter. cbn [fds_ph fds_pr fds_hdr fds_ftr fds_brand].
        destruct (pr_read_until fuel fds_lim pr' []) as [[f|x] pr'']; [|reflexivity].
        destruct chk as [typ|].
        + destruct (bind (to_ascii (fds_hdr st1)) (fun hs => bind (to_ascii f) (fun fs => check_armor62 hs fs typ)));
            cbn [fst snd]; [|reflexivity].
          unfold gfds_end, gfds_consume, set_pr. cbn [fds_ph fds_pr fds_hdr fds_ftr fds_brand fst snd].
          destruct (fds_consume fuel pr'') as [x pr3]. cbn [fst snd]. destruct x; destruct d; reflexivity.
        + cbn [fst snd]. unfold gfds_end, gfds_consume, set_pr. cbn [fds_ph fds_pr fds_hdr fds_ftr fds_brand fst snd].
          destruct (fds_consume fuel pr'') as [x pr3]. cbn [fst snd]. destruct x; destruct d; reflexivity.
      - reflexivity. }
  - unfold mfooter. rewrite Ep1. cbn [fst snd]. unfold gfds_end. rewrite Ep1. reflexivity.
  - unfold mfooter. rewrite Ep1.
    destruct (pr_read_until fuel fds_lim (fds_pr st1) []) as [[f|x] pr'']; [|reflexivity].
    destruct chk as [typ|].
    + destruct (bind (to_ascii (fds_hdr st1)) (fun hs => bind (to_ascii f) (fun fs => check_armor62 hs fs typ)));
        cbn [fst snd]; [|reflexivity].
      unfold gfds_end, gfds_consume, set_pr. cbn [fds_ph fds_pr fds_hdr fds_ftr fds_brand fst snd].
      destruct (fds_consume fuel pr'') as [x pr3]. cbn [fst snd]. destruct x; reflexivity.
    + cbn [fst snd]. unfold gfds_end, gfds_consume, set_pr. cbn [fds_ph fds_pr fds_hdr fds_ftr fds_brand fst snd].
      destruct (fds_consume fuel pr'') as [x pr3]. cbn [fst snd]. destruct x; reflexivity.
  - unfold mfooter. rewrite Ep1. cbn [fst snd].
    unfold gfds_end, gfds_consume, set_pr. rewrite Ep1.
    destruct st1 as [pr1 ph1 h1 f1 b1]. cbn [fds_ph fds_pr fds_hdr fds_ftr fds_brand fst snd] in *. subst ph1.
    destruct (fds_consume fuel pr1) as [x pr3]. cbn [fst snd]. destruct x; reflexivity.
Qed.

(* the relation between the Go-level and the model's state: equality without checkers; with checkers,
   equality but for the brand of a header that has not been accepted *)
Definition fds_rel (a b : fds_state) : Prop := match chk with None => a = b | Some _ => fds_eqv a b end.
Lemma fds_rel_refl (a : fds_state) : fds_rel a a.
Proof. unfold fds_rel. destruct chk; [apply fds_eqv_refl|reflexivity]. Qed.
Lemma fds_rel_eq (a b : fds_state) : fds_rel a b -> fds_ph a <> FdsHeader -> a = b.
Proof. unfold fds_rel. destruct chk; [apply fds_eqv_eq|intros -> _; reflexivity]. Qed.
Lemma fds_rel_ph (a b : fds_state) : fds_rel a b -> fds_ph a = fds_ph b.
Proof. unfold fds_rel. destruct chk; [intros (_ & H & _); exact H|intros ->; reflexivity]. Qed.

(* the header stage: same error; on success the same state, in the body phase; on failure related states,
   still at the header *)
Lemma gfds_load_header_model (a b : fds_state) : fds_rel a b -> fds_ph a = FdsHeader ->
  fst (gfds_load_header hc fuel lim0 a) = fst (fds_load_header chk fuel b) /\
  match fst (fds_load_header chk fuel b) with
  | None => snd (gfds_load_header hc fuel lim0 a) = snd (fds_load_header chk fuel b) /\
            fds_ph (snd (fds_load_header chk fuel b)) = FdsBody
  | Some _ => fds_rel (snd (gfds_load_header hc fuel lim0 a)) (snd (fds_load_header chk fuel b)) /\
              fds_ph (snd (gfds_load_header hc fuel lim0 a)) = FdsHeader
  end.
Proof.
  unfold fds_rel, gfds_load_header, fds_load_header, hc, hc_opt. rewrite lim0_nat.
  destruct chk as [typ|].
  - destruct a as [pr ph h f br1], b as [pr2 ph2 h2 f2 br2]. unfold fds_eqv.
    cbn [fds_pr fds_ph fds_hdr fds_ftr fds_brand].
    intros (<- & <- & <- & <- & _) ->.
    destruct (pr_read_until fuel fds_lim pr []) as [[hd|x] pr'].
    2:{ cbn [fst snd fds_ph]. split; [reflexivity|]. split; [|reflexivity]. repeat split. intros H; exfalso; apply H; reflexivity. }
    destruct (to_ascii hd) as [hs|x]; cbn [bind].
    2:{ cbn [fst snd fds_ph]. split; [reflexivity|]. split; [|reflexivity]. repeat split. intros H; exfalso; apply H; reflexivity. }
    unfold hc_of. destruct (parse_frame hs typ header_marker) as [bd|x]; cbn [fst snd fds_ph].
    + split; [reflexivity|]. split; reflexivity.
    + split; [reflexivity|]. split; [|reflexivity]. repeat split. intros H; exfalso; apply H; reflexivity.
  - intros -> Hp. destruct (pr_read_until fuel fds_lim (fds_pr b) []) as [[hd|x] pr']; cbn [fst snd fds_ph].
    + split; [reflexivity|]. split; reflexivity.
    + split; [reflexivity|]. split; reflexivity.
Qed.

(* (TARGET) *)
Theorem gfds_read_model (n : nat) (a b : fds_state) : fds_rel a b ->
  fst (gfds_read hc fc fuel lim0 n a) = fst (fds_read chk fuel n b) /\
  fds_rel (snd (gfds_read hc fc fuel lim0 n a)) (snd (fds_read chk fuel n b)).
Proof.
  intros Hrel. rewrite fds_read_stages. cbv zeta. unfold gfds_read, gfds_load_header_m.
  rewrite <- (fds_rel_ph a b Hrel).
  destruct (fds_ph a) eqn:Epa.
  1:{ destruct (gfds_load_header_model a b Hrel Epa) as [He Hs]. rewrite He.
      destruct (fst (fds_load_header chk fuel b)) as [x|].
      - cbn [fst snd]. split; [reflexivity|apply Hs].
      - destruct Hs as [-> _]. rewrite !gfds_footer_model. split; [reflexivity|apply fds_rel_refl]. }
  all: assert (a = b) by (apply (fds_rel_eq a b Hrel); rewrite Epa; discriminate); subst b;
       cbn [fst snd]; rewrite !gfds_footer_model; split; [reflexivity|apply fds_rel_refl].
Qed.

(* (TARGET) loadHeader *)
Theorem gfds_load_header_m_model (a b : fds_state) : fds_rel a b ->
  fst (gfds_load_header_m hc fuel lim0 a) = fst (match fds_ph b with FdsHeader => fds_load_header chk fuel b | _ => (None, b) end) /\
  fds_rel (snd (gfds_load_header_m hc fuel lim0 a)) (snd (match fds_ph b with FdsHeader => fds_load_header chk fuel b | _ => (None, b) end)).
Proof.
  intros Hrel. unfold gfds_load_header_m. rewrite <- (fds_rel_ph a b Hrel).
  destruct (fds_ph a) eqn:Epa.
  1:{ destruct (gfds_load_header_model a b Hrel Epa) as [He Hs]. split; [exact He|].
      destruct (fst (fds_load_header chk fuel b)); [apply Hs|]. destruct Hs as [-> _]. apply fds_rel_refl. }
  all: split; [reflexivity|exact Hrel].
Qed.

End Model.

(* (TARGET) the three shipped pairs of checkers and the stream without checkers: from the initial state the Go-level
   machine and the model's stay related, call after call, and return the same (data, error) *)
Corollary gfds_read_init (chk : option Z) (jb : bytes -> bytes) (jb2 : bytes -> bytes -> bytes) (fuel : nat) (n : nat) (s : source) :
  fst (gfds_read (hc_opt chk jb) (fc_opt chk jb2) fuel lim0 n (fds_init s)) = fst (fds_read chk fuel n (fds_init s)).
Proof.
  destruct (gfds_read_model chk jb jb2 fuel n (fds_init s) (fds_init s)) as [H _]; [|exact H].
  unfold fds_rel. destruct chk; [apply fds_eqv_refl|reflexivity].
Qed.

(* (TARGET) Read against the model's state machine, for the three shipped checker pairs (chk = Some typ) and for the
   stream without checkers (chk = None) *)
Corollary go_framedDecoderStream_Read_model (chk : option Z) (jb : bytes -> bytes) (jb2 : bytes -> bytes -> bytes)
      (encv : gval) (fuel : nat) (Orup : gval -> (bool * bool) * bytes) (Ord : read_oracle) (Olh Oce : gval -> fds_rep)
      (r : fds_rep) (a b : fds_state) (p : bytes) :
  fds_rel chk a b -> pr_clean (fds_pr a) ->
  let hc := hc_opt chk jb in
  let fc := fc_opt chk jb2 in
  let R := run_func2 (ext_fds hc fc encv fuel lim0 Orup Ord Olh Oce) f_saltpack_framedDecoderStream_Read [g_fds hc fc encv lim0 r a; VBytes p] in
  let m := fds_read chk fuel (List.length p) b in
  fst R = ORet [VInt (Z.of_nat (List.length (fst (fst m)))); g_err_opt (snd (fst m))] /\
  (exists r' a', lookup "s" (snd R) = Some (g_fds hc fc encv lim0 r' a') /\ fds_rel chk a' (snd m) /\
                 keeps_ok Orup Olh Oce r r') /\
  (exists p', lookup "p" (snd R) = Some (VBytes p') /\ firstn (List.length (fst (fst m))) p' = fst (fst m)).
Proof.
  intros Hrel Hcl. cbv zeta.
  destruct (go_framedDecoderStream_Read (hc_opt chk jb) (fc_opt chk jb2) encv fuel lim0 Orup Ord Olh Oce r a p Hcl)
    as (Hret & (r' & Hs & Hk) & Hp).
  destruct (gfds_read_model chk jb jb2 fuel (List.length p) a b Hrel) as [Hf Hr].
  rewrite <- Hf. split; [exact Hret|]. split; [|eexists; exact Hp].
  exists r', (snd (gfds_read (hc_opt chk jb) (fc_opt chk jb2) fuel lim0 (List.length p) a)). split; [exact Hs|split; [exact Hr|exact Hk]].
Qed.
(* armor62EncryptionHeaderChecker / FrameChecker (also the signcryption pair), armor62SignatureHeaderChecker / FrameChecker,
   armor62DetachedSignatureHeaderChecker / FrameChecker *)
Definition go_Read_armor62_encryption := go_framedDecoderStream_Read_model (Some mt_encryption).
Definition go_Read_armor62_attached := go_framedDecoderStream_Read_model (Some mt_attached).
Definition go_Read_armor62_detached := go_framedDecoderStream_Read_model (Some mt_detached).

(* ================= the statements on concrete inputs ================= *)
Section Examples.
Definition x_O1 : gval -> (bool * bool) * bytes := fun _ => ((true, false), repeat x00 4096).
Definition x_O2 : read_oracle := fun _ out => ((false, true), out).
Definition x_rep : fds_rep := mkRep true true true true (repeat x00 4096).
Definition x_O3 : gval -> fds_rep := fun _ => x_rep.
Definition s2b (s : string) : bytes := list_byte_of_string s.
(* parseFrame returns the second word with its "Brand is too long" *)
Definition x_jb : bytes -> bytes := fun hs => nth 1 (words (normalise hs)) [].
Definition x_hc := hc_opt (Some mt_encryption) x_jb.
Definition x_fc := fc_opt (Some mt_encryption) (fun _ _ => []).
Definition x_ext := ext_fds x_hc x_fc VNil 50 lim0 x_O1 x_O2 x_O3 x_O3.
Definition x_g := g_fds x_hc x_fc VNil lim0 x_rep.
Definition x_src (tail : string) : source :=
  mkSource [mkSeg (s2b "BEGIN SALTPACK ENCRYPTED MESSAGE. abc") None;
            mkSeg (s2b ("def. END SALTPACK ENCRYPTED MESSAGE." ++ tail)) None] EOF.
Definition x_run (fn : gfunc) (st : fds_state) (more : list gval) :=
  let R := run_func2 x_ext fn (x_g st :: more) in
  (fst R, match lookup "s" (snd R) with Some v => read_fds v | None => None end).

Example x_ivb :
  fst (x_run f_saltpack_framedDecoderStream_isValidByteSequence (fds_init (x_src "")) [g_blist (s2b "abc d")]) = ORet [VBool true] /\
  fst (x_run f_saltpack_framedDecoderStream_isValidByteSequence (fds_init (x_src "")) [g_blist (s2b "abc.d")]) = ORet [VBool false] /\
  forallb valid_armor_byte (s2b "abc d") = true /\ forallb valid_armor_byte (s2b "abc.d") = false.
Proof. vm_compute. repeat split. Qed.
Example x_toASCII :
  fst (x_run f_saltpack_framedDecoderStream_toASCII (fds_init (x_src "")) [VBytes (s2b " abc d ")]) = ORet [VBytes (s2b "abc d"); VNil] /\
  fst (x_run f_saltpack_framedDecoderStream_toASCII (fds_init (x_src "")) [VBytes (s2b " abc!d ")]) = ORet [VBytes []; g_err ErrBadFrame] /\
  to_ascii (s2b " abc d ") = Ok (s2b "abc d") /\ to_ascii (s2b " abc!d ") = Err ErrBadFrame.
Proof. vm_compute. repeat split. Qed.
(* a nil slice: string(nil) is not evaluated *)
Example x_toASCII_nil :
  fst (x_run f_saltpack_framedDecoderStream_toASCII (fds_init (x_src "")) [VNil]) = OStuck "return".
Proof. vm_compute. reflexivity. Qed.

(* loadHeader: accepted; refused (the Go object then holds what the checker returned, the model the old brand) *)
Example x_loadHeader_ok :
  let m := fds_load_header (Some mt_encryption) 50 (fds_init (x_src "")) in
  x_run f_saltpack_framedDecoderStream_loadHeader (fds_init (x_src "")) [] = (ORet [VNil], Some (snd m)) /\ fst m = None /\
  fds_ph (snd m) = FdsBody.
Proof. vm_compute. repeat split. Qed.
Definition x_long : source :=
  mkSource [mkSeg (s2b "BEGIN AAAAAAAAAAAAAAAAAAAAAAAAAAAAAAAAAAAAAAAAAAAAAAAAAAAAAAAAAAAAAAAAAAAAAAAAAAAAAAAAAAAAAAAAAAAAAAAAAAAAAAAAAAAAAAAAAAAAAAAAAAAAAAAAAAAAA SALTPACK ENCRYPTED MESSAGE. abc") None] EOF.
Example x_loadHeader_refused :
  let m := fds_load_header (Some mt_encryption) 50 (fds_init x_long) in
  let g := x_run f_saltpack_framedDecoderStream_loadHeader (fds_init x_long) [] in
  fst g = ORet [g_err ErrBadFrame] /\ fst m = Some ErrBadFrame /\
  option_map fds_ph (snd g) = Some FdsHeader /\ fds_ph (snd m) = FdsHeader /\
  option_map fds_hdr (snd g) = Some (fds_hdr (snd m)) /\
  fds_brand (snd m) = [] /\ option_map (fun s => List.length (fds_brand s)) (snd g) = Some 133%nat.
Proof. vm_compute. repeat split. Qed.

(* Read: header and the first body bytes; then the rest of the body, the footer and the end of the input *)
Definition x_read (st : fds_state) (n : nat) :=
  let R := run_func2 x_ext f_saltpack_framedDecoderStream_Read [x_g st; VBytes (repeat x00 n)] in
  (fst R, match lookup "s" (snd R) with Some v => read_fds v | None => None end,
   match lookup "p" (snd R) with Some (VBytes p') => p' | _ => [] end).
Example x_read_first :
  let m := fds_read (Some mt_encryption) 50 10 (fds_init (x_src "")) in
  x_read (fds_init (x_src "")) 10 = (ORet [VInt 4; VNil], Some (snd m), (s2b " abc" ++ repeat x00 6)%list) /\
  fst m = (s2b " abc", None).
Proof. vm_compute. repeat split. Qed.
Definition x_st2 (tail : string) : fds_state := snd (fds_read (Some mt_encryption) 50 10 (fds_init (x_src tail))).
Example x_read_end :
  let m := fds_read (Some mt_encryption) 50 10 (x_st2 " ") in
  x_read (x_st2 " ") 10 = (ORet [VInt 3; VNil], Some (snd m), (s2b "def" ++ repeat x00 7)%list) /\
  fst m = (s2b "def", None) /\ fds_ph (snd m) = FdsEnd.
Proof. vm_compute. repeat split. Qed.
(* text after the footer that the armor alphabet does not allow *)
Example x_read_garbage :
  let m := fds_read (Some mt_encryption) 50 10 (x_st2 " !!") in
  fst (fst (x_read (x_st2 " !!") 10)) = ORet [VInt 3; g_err ErrTrailingGarbage] /\
  snd (fst (x_read (x_st2 " !!") 10)) = Some (snd m) /\ fst m = (s2b "def", Some ErrTrailingGarbage).
Proof. vm_compute. repeat split. Qed.
(* a wrong frame *)
Definition x_bad : source := mkSource [mkSeg (s2b "BEGIN SALTPACK BOGUS MESSAGE. abc.") None] EOF.
Example x_read_badframe :
  let m := fds_read (Some mt_encryption) 50 10 (fds_init x_bad) in
  fst (fst (x_read (fds_init x_bad) 10)) = ORet [VInt 0; g_err ErrBadFrame] /\ fst m = ([], Some ErrBadFrame).
Proof. vm_compute. repeat split. Qed.
(* why pr_clean is needed: an underlying reader whose own error is the punctuation marker: Read takes it for the
   end of the body and moves on to the footer, the model reports the source's error in the body phase *)
Example x_read_marker :
  let st := mkFds (pr_init (mkSource [] ErrPunctuated)) FdsBody [] [] [] in
  option_map fds_ph (snd (fst (x_read st 10))) = Some FdsFooter /\
  fds_ph (snd (fds_read (Some mt_encryption) 50 10 st)) = FdsBody.
Proof. vm_compute. repeat split. Qed.

Example x_getters :
  let st0 := fds_init (x_src "") in
  fst (x_run f_saltpack_framedDecoderStream_GetHeader st0 []) = ORet [VBytes (s2b "BEGIN SALTPACK ENCRYPTED MESSAGE"); VNil] /\
  fst (x_run f_saltpack_framedDecoderStream_GetBrand st0 []) = ORet [VBytes []; VNil] /\
  fst (x_run f_saltpack_framedDecoderStream_GetFooter st0 []) = ORet [VBytes []; fmt_err footer_early] /\
  fst (x_run f_saltpack_framedDecoderStream_GetFooter (snd (fds_read (Some mt_encryption) 50 10 (x_st2 " "))) [])
    = ORet [VBytes (s2b "END SALTPACK ENCRYPTED MESSAGE"); VNil] /\
  fst (x_run f_saltpack_framedDecoderStream_GetHeader (fds_init x_bad) []) = ORet [VBytes []; g_err ErrBadFrame].
Proof. vm_compute. repeat split. Qed.

(* consumeUntilEOF: the data read never reaches the local array *)
Example x_consume :
  fst (x_run f_saltpack_framedDecoderStream_consumeUntilEOF (snd (fds_read (Some mt_encryption) 50 10 (x_st2 " "))) []) = OStuck "call".
Proof. vm_compute. reflexivity. Qed.
(* with a Read extern that writes only the reader back (three results) the loop runs, on a buffer that stays
   all zero: valid text after the footer is reported as garbage, where the model says EOF *)
Definition x_ext3 : externs := fun fn args =>
  if String.eqb fn "punctuatedReader.Read" then
    match x_ext fn args with Some [a; b; c; _] => Some [a; b; c] | o => o end
  else x_ext fn args.
Example x_consume_zeros :
  let st0 := mkFds (pr_init (mkSource [mkSeg (s2b "  ") None] EOF)) FdsEnd [] [] [] in
  fst (run_func2 x_ext3 f_saltpack_framedDecoderStream_consumeUntilEOF [x_g st0]) = ORet [g_err ErrTrailingGarbage] /\
  fst (fds_consume 50 (fds_pr st0)) = EOF.
Proof. vm_compute. repeat split. Qed.
End Examples.
