(* GoAstProofs6b.v — source ties for the SIGNCRYPTION SENDER (/repo/signcrypt_seal.go): the bodies of its
   functions as translated on this run from /repo's Go syntax trees (gen/GoAstSign.v), run by the extended
   evaluator of model/GoLang2.v (run_func2: outcome AND final environment) on ENCODED arguments, compute exactly
   what the model (model/Signcrypt.v, model/Chunker.v, model/Rand.v) computes — every return value, the error
   class, and the state left in the receiver object `sss` — for EVERY crypto record, every argument and every
   behaviour of the underlying writer.

   ENCODINGS.  A BoxPublicKey is its key bytes (ToKID = identity); a BoxSecretKey is its secret bytes
   (GetPublicKey = dh_pub, Box = box_seal); a SigningSecretKey is {sk} or nil (GetPublicKey = ed_pub,
   Sign = ed_sign, never failing); a ReceiverSymmetricKey is {Key, Identifier} ([g_sym]); a receiverKeysMaker is
   {pk} or a ReceiverSymmetricKey ([g_maker]); a receiverKeys entry is {ReceiverKID, PayloadKeyBox} ([g_entry]).
   The stream object is [g_sss st] for a record st : sss_state (version, encoder, encryptionKey, signingKey,
   buffer = the unread bytes of sss.buffer, headerHash, numBlocks, err); [as_sss] inverts it.  The encoder
   (go-codec over the output io.Writer) is an ARBITRARY value whose behaviour is the section variable
   [enc_step : gval -> bytes -> gval * gerr] (object, packet bytes |-> new object, error): encoder.Encode(x)
   hands it mp_encode of the MessagePack value of x ([as_packet]: the header bytes as bin, a signcryptionBlock
   as [ciphertext, final]).  [mem_enc] is the instance for the in-memory writer of signcryptSeal (the object is
   the bytes written so far).  Error values are [gerr] = nil or (name, arguments).
   EXTERNS.  [ext_sc]: the key objects, secretbox.Seal, hmac/sha512 ([ext_prims]), the nonce constructors,
   computeSigncryptionSignatureInput, encryptionBlockNumber.check ([ext_model]; each has its own tie in
   GoAstProofs2/3.v) and the saltpack functions tied in this file with the MODEL's meaning.  [ext_blk] adds
   Buffer.Next / Buffer.Len, encoder.Encode and assertEncodedChunkState (NO value where the callee panics: the
   evaluator cannot propagate a callee's panic, it is stuck at that call — [enc_chunk_ok] says exactly when).
   [ext_wr] adds sss.signcryptBlock with the meaning proved for it; [ext_init] adds checkSigncryptReceivers,
   the rng (shuffle = Rand.shuffle on the receivers in the order shuffleSigncryptReceivers lays them out,
   createSymmetricKey = read_full 32), CreateEphemeralKey (read_full 32), r.makeReceiverKeys
   (sc_receiver_entry) and encodeToBytes (mp_encode of mv_enc_header).  The composition lemmas
   (ext_sc_* / ext_init_* / ext_wr_signcryptBlock) show those meanings ARE the outcomes of the translated callees.
   RANDOMNESS.  The signcryptRNG object is [g_rng ra rk]: the stream position its shuffleReceivers draws from and
   the one its createSymmetricKey draws from; the EphemeralKeyCreator object is the stream rb it draws from.
   Each draw consumes its stream as model/Rand.v says and writes the rest back into the object, so the
   randomness consumed is part of the statements.  (Go has two objects, the model's signcrypt_seal_stream one
   stream r read in program order; that reading is ra = r, rb = what shuffle leaves, rk = what the ephemeral
   key leaves: two separate objects cannot alias one source in the evaluator.)

   TARGETS (all proved with Qed; Print Assumptions: closed under the global context).
   - go_derivedEphemeralKeyFromBoxKeys   derivedEphemeralKeyFromBoxKeys(pk, sk) returns derived_box_key sk pk.
       Hypothesis: the box of the 32 zero bytes is 48 bytes long (crypto_ok.ok_sb_len; the code takes the LAST
       32 bytes, the model drops the first 16, and a shorter box makes the slice expression panic).
   - go_keyIdentifierFromDerivedKey      returns box_key_identifier d i.
       Hypothesis: that HMAC-SHA512 digest has at least 32 bytes (ok_hmac_len; the code slices [0:32]).
   - go_receiverBoxKey_makeReceiverKeys  returns the entry sc_receiver_entry .. (BoxRcpt pk). No hypothesis.
   - go_ReceiverSymmetricKey_makeReceiverKeys  the same for SymRcpt key ident.
       Hypothesis: the HMAC digest of the derived key has at least 32 bytes (slice [0:32], as above).
   - go_checkSigncryptReceiverCount      = sc_count_check z1 z2 for ALL integers: panic on a negative count,
       ErrBadReceivers, or nil.  No hypothesis.  (sc_count_check_lengths: on two list lengths it is the count
       part of sc_check_receivers.)
   - go_checkSigncryptReceivers          = sc_check_outcome: nil / ErrBadReceivers / ErrRepeatedKey(kid) exactly
       as sc_check_receivers decides, the reported kid being the first repeated one (first_dup; has_dup says
       there is one: first_dup_has_dup).  Both loops, the set idiom included.  No hypothesis.
   - go_signcryptBlock                   signcryptBlock(isFinal) on [g_sss st] = sss_block st isFinal: panic iff
       isFinal and bytes remain buffered; ErrPacketOverflow (state: only the buffer consumed); else the packet
       [secretbox(sig ++ chunk), final] (sig = 64 zero bytes for an anonymous sender, else ed_sign over
       signcrypt_sig_input) under nonce_chunk_signcryption handed to the encoder, its error returned, and on
       success numBlocks + 1.  BStuck "extern" = assertEncodedChunkState panics.  No hypothesis.
   - sss_block_model                     for a Version-2 stream and NaCl/ed25519 lengths (hypotheses: vmaj = 2 —
       newSigncryptSealStream sets Version2() —, ok_sb_len, ok_sig_len) that assertion never fires and
       sss_block is ONE STEP of the model's signcrypt_packets ([signcrypt_packets_step]).
   - go_signcryptSealStream_Write        Write(p) = sss_write st p: the sticky error; else p appended to the
       buffer and full blocks flushed while more than 1 MiB is buffered; returns (len p, nil) or (0, err) with
       err stored in sss.err.  No hypothesis: the 296 turns the evaluator gives the loop are part of sss_write
       (WStuck "loop fuel" beyond; a bound on the EVALUATOR, not on the Go code).
   - go_signcryptSealStream_Close        Close() = sss_close st.  No hypothesis (CloseStuck "call" = the callee
       signcryptBlock(true) panics, i.e. more than one block is still buffered; never after Write).
   - sss_write_model / sss_close_model / sss_session_model   over the in-memory writer, a Version-2 stream and
       the two length facts: Write emits signcrypt_packets of the non-final blocks of Chunker.cw_write and
       keeps its remainder; Close emits the packet of cw_close; a whole session emits signcrypt_packets of
       cw_session (what signcrypt_core runs), for every split into pieces.  Further hypotheses: no sticky
       error, at most one block buffered before Close (cw_write_bounded), and the evaluator's fuel
       (buffer ++ p of at most 296 MiB per Write call).

   - go_signcryptSealStream_init         init(boxes, syms, creator, rng) on [g_sss st] = sss_init: the error of
       checkSigncryptReceivers; else the three draws in program order — shuffle of the receivers (Rand.shuffle on
       the layout of shuffleSigncryptReceivers), ephemeral secret key (read_full 32 of the creator's stream),
       payload key (read_full 32) — each ErrRand when its stream is short; panic for a signing key whose public
       key is not 32 bytes long; else the payload key stored in sss.encryptionKey, the header
       [sc_header_go] = mp_encode (mv_enc_header version 3 (dh_pub eph) sender-secretbox entries) with the
       sender secretbox over the signer's public key (32 zero bytes for an anonymous sender) and the entries
       sc_receiver_entry of the receivers IN SHUFFLED ORDER with their indices, its SHA-512 stored in
       sss.headerHash, the header (as bin) handed to the encoder and the encoder's error returned.  The
       statement also gives what is left in the two random sources ("rng", "ephemeralKeyCreator" in the final
       environment).  No hypothesis (the receiver index fits uint64 because the check has bounded the count).
       The keyed literal SigncryptionHeader{..} reaches the evaluator completed with the zero values of the
       fields it omits (the translator does that), so eh.Receivers is nil before the first append.
   - signcrypt_core_go / sss_seal_core   the header of sss_init is the header construction of the model's
       signcrypt_core (same sender-key length check = Panic 10), and init; Write*; Close over the in-memory
       writer on a fresh Version-2 object write exactly signcrypt_core's bytes on the three draws (or
       ErrPacketOverflow where the model says so).  Hypotheses of sss_seal_core: ok_sb_len, ok_sig_len, the
       fresh object (v2, empty output, no error, empty buffer, counter 0), the check and the three draws
       succeed, pieces of at most 295 MiB (evaluator fuel). *)
From Coq Require Import List String NArith ZArith Bool Lia.
From Coq.Strings Require Import Byte.
From SP Require Import Bytes Consts Params Msgpack Crypto Errors Nonce Packets Chunker Rand Verify Encrypt Decrypt Signcrypt
                       GoLang GoLang2 GoAst GoAstSign GoAstProofs GoAstProofs2 GoAstProofs3 RandProofs ChunkerProofs ToyCrypto.
Import ListNotations.
Local Open Scope string_scope.

(* ---------- the for loop of the extended evaluator as a function of its own fuel ---------- *)
Definition for_loop6 (ext : externs) (f : nat) (c : gexpr) (body rest : list gstmt) : nat -> env -> ctl :=
  fix loop (n : nat) (e1 : env) {struct n} : ctl :=
    match n with
    | O => CStuck "loop fuel"
    | S n' =>
      match eval ext 64 e1 c with
      | Some (VBool true) =>
        match exec2 ext f e1 body with
        | CNorm e2 | CCont e2 => loop n' e2
        | CBrk e2 => exec2 ext f e2 rest
        | other => other
        end
      | Some (VBool false) => exec2 ext f e1 rest
      | _ => CStuck "for"
      end
    end.
Lemma exec2_for6 (ext : externs) (f : nat) (e : env) c body rest :
  exec2 ext (S f) e (SFor c body :: rest) = for_loop6 ext f c body rest f e.
Proof. reflexivity. Qed.
Lemma for_loop6_S ext f c body rest n e1 :
  for_loop6 ext f c body rest (S n) e1 =
  match eval ext 64 e1 c with
  | Some (VBool true) =>
    match exec2 ext f e1 body with
    | CNorm e2 | CCont e2 => for_loop6 ext f c body rest n e2
    | CBrk e2 => exec2 ext f e2 rest
    | other => other
    end
  | Some (VBool false) => exec2 ext f e1 rest
  | _ => CStuck "for"
  end.
Proof. reflexivity. Qed.

(* encryptionBlockSize as the number the code passes to buffer.Next (kept folded: a unary million) *)
Definition blk : nat := Z.to_nat 1048576.
Lemma blk_enc_block_size : blk = enc_block_size.
Proof. unfold blk, enc_block_size, c_saltpack_encryptionBlockSize. reflexivity. Qed.

(* an error value of Go: nil or a named error with its arguments *)
Definition gerr := option (string * list gval).
Definition g_errv (e : gerr) : gval := match e with None => VNil | Some (n, a) => VErr n a end.

(* a signing secret key object (nil for an anonymous sender) *)
Definition g_signer (s : option bytes) : gval :=
  match s with None => VNil | Some sk => VStruct [("sk", VBytes sk)] end.
(* a symmetric-key recipient *)
Definition g_sym (s : bytes * bytes) : gval := VStruct [("Key", VBytes (fst s)); ("Identifier", VBytes (snd s))].
(* a receiverKeysMaker: receiverBoxKey{pk} or a ReceiverSymmetricKey *)
Definition g_maker (r : sc_rcpt) : gval :=
  match r with
  | BoxRcpt pk => VStruct [("pk", VBytes pk)]
  | SymRcpt key ident => g_sym (key, ident)
  end.
(* a receiverKeys entry of the header (ReceiverKID is never nil in a signcryption header) *)
Definition g_entry (e : option bytes * bytes) : gval :=
  VStruct [("ReceiverKID", match fst e with Some k => VBytes k | None => VNil end); ("PayloadKeyBox", VBytes (snd e))].

(* ---------- checkSigncryptReceiverCount as a function of its two int arguments ---------- *)
Definition sc_count_check (z1 z2 : Z) : outcome :=
  if ((z1 <? 0) || (z2 <? 0))%Z then OPanic
  else if ((4294967295 <? z1) || (4294967295 <? z2) || (z1 + z2 <=? 0) || (4294967295 <? z1 + z2))%Z
       then ORet [VErr "ErrBadReceivers" []]
       else ORet [VNil].

(* ---------- the receiver set of checkSigncryptReceivers ---------- *)
(* the first key id (in list order) that equals one seen before it *)
Fixpoint first_dup_from (seen l : list bytes) : option bytes :=
  match l with
  | [] => None
  | k :: t => if existsb (fun k0 => bytes_eqb k0 k) seen then Some k else first_dup_from (seen ++ [k]) t
  end.
Definition first_dup (l : list bytes) : option bytes := first_dup_from [] l.

(* the Go map receiverSet as the evaluator holds it: insertion order, every value true *)
Definition set_of (seen : list bytes) : list gval := map (fun k => VList [VBytes k; VBool true]) seen.

Lemma map_find_set_of (k : bytes) (seen : list bytes) :
  map_find (VBytes k) (set_of seen)
  = if existsb (fun k0 => bytes_eqb k0 k) seen then Some (Some (VBool true)) else Some None.
Proof.
  induction seen as [|k0 seen IH]; cbn [set_of map map_find existsb]; [reflexivity|].
  cbn [val_eqb]. change (bytes_eqb' k0 k) with (bytes_eqb k0 k). destruct (bytes_eqb k0 k); cbn [orb]; [reflexivity|]. exact IH.
Qed.

Lemma map_set_set_of (k : bytes) (seen : list bytes) :
  existsb (fun k0 => bytes_eqb k0 k) seen = false ->
  map_set (set_of seen) (VBytes k) (VBool true) = Some (set_of (seen ++ [k])).
Proof.
  induction seen as [|k0 seen IH]; cbn [set_of map map_set existsb app]; [reflexivity|].
  cbn [val_eqb]. change (bytes_eqb' k0 k) with (bytes_eqb k0 k). destruct (bytes_eqb k0 k); cbn [orb]; [discriminate|].
  intros H. fold (set_of seen). rewrite (IH H). reflexivity.
Qed.

Lemma first_dup_from_has_dup (l : list bytes) : forall seen,
  match first_dup_from seen l with Some _ => true | None => false end
  = existsb (fun k => existsb (fun k0 => bytes_eqb k0 k) seen) l || has_dup l.
Proof.
  induction l as [|k t IH]; intros seen; cbn [first_dup_from existsb has_dup]; [reflexivity|].
  destruct (existsb (fun k0 => bytes_eqb k0 k) seen) eqn:E; cbn [orb]; [reflexivity|].
  rewrite IH.
  assert (Hx : existsb (fun k1 => existsb (fun k0 => bytes_eqb k0 k1) (seen ++ [k])) t
               = existsb (fun k1 => existsb (fun k0 => bytes_eqb k0 k1) seen) t || existsb (bytes_eqb k) t).
  { clear. induction t as [|x t IHt]; cbn [existsb]; [reflexivity|].
    rewrite IHt, existsb_app. cbn [existsb]. rewrite orb_false_r.
    destruct (existsb (fun k0 => bytes_eqb k0 x) seen), (bytes_eqb k x),
             (existsb (fun k1 => existsb (fun k0 => bytes_eqb k0 k1) seen) t), (existsb (bytes_eqb k) t); reflexivity. }
  rewrite Hx.
  destruct (existsb (fun k1 => existsb (fun k0 => bytes_eqb k0 k1) seen) t), (existsb (bytes_eqb k) t), (has_dup t); reflexivity.
Qed.

(* has_dup says whether there is a repeated key; first_dup says which one the Go code reports *)
Lemma first_dup_has_dup (l : list bytes) :
  has_dup l = match first_dup l with Some _ => true | None => false end.
Proof.
  unfold first_dup. rewrite first_dup_from_has_dup.
  replace (existsb (fun k => existsb (fun k0 => bytes_eqb k0 k) []) l) with false; [reflexivity|].
  induction l as [|x l IH]; cbn [existsb]; [reflexivity|exact IH].
Qed.


(* ---------- stepping tactics (copies of those of GoAstProofs3.v, which are local to its section; the
   list of constants kept folded is this file's) ---------- *)
Ltac use_head_hyp6 :=
  lazymatch goal with
  | |- ?G =>
    let L := lazymatch G with (?L = _ -> _) => L | ?L = _ => L | _ => G end in
    let h := head_scrut3 L in
    match goal with H : h = _ |- _ => rewrite H end
  end; cbv beta iota.
Ltac ev_in6 h :=
  eval cbv -[Z.eqb Z.ltb Z.leb Z.add Z.sub Z.mul Z.modulo Z.rem Z.quot Z.shiftr Z.shiftl Z.opp
             Z.land Z.lor Z.lxor Z.lnot Z.of_nat Z.of_N Z.to_nat Z.to_N List.length nth_error
             firstn skipn bytes_eqb' bytes_eqb Byte.to_N Byte.of_N N.mul N.ltb N.eqb N.add N.leb b2n n2b Nat.eqb
             Nat.leb Nat.ltb N.div N.modulo nth map app repeat zeros
             sha512 hmac512 sb_open sb_seal dh_shared dh_pub box_seal box_open ed_pub ed_sign
             derived_box_key box_key_identifier derived_sym_key sc_receiver_entry
             block_number_ok nonce_chunk_signcryption nonce_payload_key_box_v2 nonce_sender_key_sbox
             nonce_derived_shared_key signcrypt_sig_input sym_key
             mp_encode check_chunk_state version_eqb v1 v2 blk sc_count_check set_of first_dup_from
             map_set map_find as_bytes_list range_loop2 for_loop6 exec2] in h.
Ltac ev_term6 X h :=
  lazymatch h with
  | X ?fn ?args => let h' := ev_in6 h in progress (change h with h'); cbv beta iota
  | _ =>
    let p := eval pattern X in h in
    lazymatch p with
    | ?g _ => let g' := ev_in6 g in
              let h' := eval cbv beta in (g' X) in
              progress (change h with h'); cbv beta iota
    end
  end.
Ltac norm_env6 h x f e ss k :=
  let e' := ev_in6 e in
  tryif constr_eq e e' then k e
  else (change h with (exec2 x (S f) e' ss); k e').
Ltac fix_lvars6 :=
  repeat match goal with
  | |- context [lvars ?l] => let r := eval cbv [lvars map] in (lvars l) in change (lvars l) with r
  end.
Ltac step6 X :=
  lazymatch goal with
  | |- ?G =>
    let L := lazymatch G with (?L = _ -> _) => L | ?L = _ => L | _ => G end in
    let h := head_scrut3 L in
    lazymatch h with
    | exec2 ?x (S ?f) ?e (SRange ?k ?v ?coll ?b :: ?rest) =>
      norm_env6 h x f e (SRange k v coll b :: rest) ltac:(fun e' => rewrite exec2_range)
    | exec2 ?x (S ?f) ?e (SFor ?c ?b :: ?rest) =>
      norm_env6 h x f e (SFor c b :: rest) ltac:(fun e' => rewrite exec2_for6)
    | exec2 ?x (S ?f) ?e (SMapLookup ?v ?ok ?m ?k :: ?rest) =>
      norm_env6 h x f e (SMapLookup v ok m k :: rest) ltac:(fun e' => rewrite exec2_maplookup)
    | exec2 ?x (S ?f) ?e ?ss =>
      tryif is_var ss then fail else
      norm_env6 h x f e ss ltac:(fun e' => rewrite (exec2_S x f e' ss); cbv beta iota zeta); fix_lvars6; cbv beta iota
    | range_loop2 _ _ _ _ _ _ _ _ _ => fail
    | for_loop6 _ _ _ _ _ _ _ => fail
    | _ => ev_term6 X h
    end
  end.
Ltac map_lit6 A B f l :=
  lazymatch l with
  | nil => constr:(@nil B)
  | cons ?x ?t => let r := map_lit6 A B f t in let y := eval cbv beta in (f x) in constr:(@cons B y r)
  end.
Ltac lits6 :=
  match goal with
  | |- context [@map ?A ?B ?f ?l] => is_spine l; let r := map_lit6 A B f l in change (@map A B f l) with r
  end; cbv beta iota.
(* closed integer arithmetic; unlike lits1, expands Z.to_nat only of small literals (not the block size) *)
Ltac is_small_Zlit z :=
  lazymatch z with
  | Z0 => idtac
  | Zpos ?p => is_poslit p; let b := eval cbv in (Pos.ltb p 1000) in lazymatch b with true => idtac end
  end.
Ltac lits1' :=
  match goal with
  | |- context [Z.ltb ?a ?b] => is_Zlit a; is_Zlit b; let r := eval cbv in (Z.ltb a b) in change (Z.ltb a b) with r
  | |- context [Z.leb ?a ?b] => is_Zlit a; is_Zlit b; let r := eval cbv in (Z.leb a b) in change (Z.leb a b) with r
  | |- context [Z.eqb ?a ?b] => is_Zlit a; is_Zlit b; let r := eval cbv in (Z.eqb a b) in change (Z.eqb a b) with r
  | |- context [Z.add ?a ?b] => is_Zlit a; is_Zlit b; let r := eval cbv in (Z.add a b) in change (Z.add a b) with r
  | |- context [Z.sub ?a ?b] => is_Zlit a; is_Zlit b; let r := eval cbv in (Z.sub a b) in change (Z.sub a b) with r
  | |- context [Z.to_nat ?a] => is_small_Zlit a; let r := eval cbv in (Z.to_nat a) in change (Z.to_nat a) with r
  end; cbv beta iota.
Ltac slice6 := progress (rewrite ?skipn_O, ?N2Z.id, ?len_ltb0, ?Z.ltb_irrefl, ?firstn_full, ?app_nil_r); cbv beta iota.
(* recorded facts about uint64 wrap-around *)
Ltac extra6 := match goal with H : (_ mod _)%Z = _ |- _ => rewrite H end; cbv beta iota.
Ltac zeros6 := match goal with |- context [repeat x00 ?n] => change (repeat x00 n) with (zeros n) end.
Ltac steps6 X := repeat first [step6 X | use_head_hyp6 | lits1' | lits2 | lits3 | lits6 | slice6 | extra6 | zeros6].
Ltac start6 F :=
  cbv beta iota zeta delta [run_func2 f_body f_params f_results F];
  lazymatch goal with
  | |- context [bind_params ?a ?b] =>
    let r := eval cbv [bind_params] in (bind_params a b) in change (bind_params a b) with r; cbv beta iota
  end;
  change (@map (string * string) (string * gval) _ []) with (@nil (string * gval));
  change (@app (string * gval) ?l []) with l.
(* replace the stuck head of the left-hand side using an equation about it (up to conversion) *)
Ltac rewrite_head6 Heq :=
  lazymatch goal with
  | |- ?L = _ =>
    let h := head_scrut3 L in
    lazymatch type of Heq with
    | _ = ?r => replace h with r by (symmetry; exact Heq)
    end
  end; cbv beta iota.
Ltac run_hyp6 X HR := revert HR; cbv beta iota; steps6 X; intros HR.

Section Sc.
Variable c : crypto.

(* ================= externs: key objects, primitives, and saltpack functions with the model's meaning ================= *)
(* A BoxPublicKey is its 32 key bytes (ToKID is the identity); a BoxSecretKey is its secret bytes
   (GetPublicKey = dh_pub, Box = box_seal); a SigningSecretKey is {sk} (GetPublicKey = ed_pub, Sign = ed_sign,
   never failing); secretbox.Seal appends the box to its first argument. *)
Definition ext_sc : externs := fun fn args =>
  if String.eqb fn "nonceForDerivedSharedKey" then Some [VBytes nonce_derived_shared_key]
  else if String.eqb fn "nonceForSenderKeySecretBox" then Some [VBytes nonce_sender_key_sbox]
  else if String.eqb fn "symmetricKeyFromSlice" then
    match args with
    | [v] => match vbytes_of v with
             | Some b => match sym_key b with Ok k => Some [VBytes k; VNil] | Err _ => Some [VNil; VErr "ErrBadSymmetricKey" []] end
             | None => None
             end
    | _ => None
    end
  else if String.eqb fn "rawBoxKeyFromSlice" then
    match args with
    | [v] => match vbytes_of v with
             | Some b => if Nat.eqb (List.length b) 32 then Some [VBytes b; VNil] else Some [VNil; VErr "ErrBadBoxKey" []]
             | None => None
             end
    | _ => None
    end
  else if String.eqb fn "BoxSecretKey.GetPublicKey" then
    match args with [VBytes sk] => Some [VBytes (dh_pub c sk)] | _ => None end
  else if String.eqb fn "BoxPublicKey.ToKID" then
    match args with [VBytes pk] => Some [VBytes pk] | _ => None end
  else if String.eqb fn "SigningSecretKey.GetPublicKey" then
    match args with [VStruct [("sk", VBytes sk)]] => Some [VBytes (ed_pub c sk)] | _ => None end
  else if String.eqb fn "SigningPublicKey.ToKID" then
    match args with [VBytes pk] => Some [VBytes pk] | _ => None end
  else if String.eqb fn "SigningSecretKey.Sign" then
    match args with
    | [VStruct [("sk", VBytes sk)]; VBytes msg] => Some [VBytes (ed_sign c sk msg); VNil]
    | _ => None
    end
  else if String.eqb fn "secretbox.Seal" then
    match args with
    | [out; VBytes pt; VBytes nonce; VBytes key] =>
      match vbytes_of out with
      | Some o => Some [VBytes (o ++ sb_seal c key nonce pt)%list]
      | None => None
      end
    | _ => None
    end
  else if String.eqb fn "derivedEphemeralKeyFromBoxKeys" then
    match args with [VBytes pk; VBytes sk] => Some [VBytes (derived_box_key c sk pk)] | _ => None end
  else if String.eqb fn "keyIdentifierFromDerivedKey" then
    match args with [VBytes d; VInt i] => Some [VBytes (box_key_identifier c d (Z.to_N i))] | _ => None end
  else if String.eqb fn "checkSigncryptReceiverCount" then
    match args with
    | [VInt z1; VInt z2] => match sc_count_check z1 z2 with ORet vs => Some vs | _ => None end   (* no value: the callee panics *)
    | _ => None
    end
  else ext_model c fn args.

(* ================= the small pure helpers ================= *)

(* (TARGET) *)
Lemma go_derivedEphemeralKeyFromBoxKeys (pk sk : bytes) :
  List.length (box_seal c sk pk nonce_derived_shared_key (zeros 32)) = 48%nat ->
  fst (run_func2 ext_sc f_saltpack_derivedEphemeralKeyFromBoxKeys [VBytes pk; VBytes sk])
  = ORet [VBytes (derived_box_key c sk pk)].
Proof.
  intros H.
  start6 f_saltpack_derivedEphemeralKeyFromBoxKeys. unfold derived_box_key.
  steps6 ext_sc. rewrite H.
  assert (Hsk : sym_key (skipn 16 (box_seal c sk pk nonce_derived_shared_key (zeros 32)))
                = Ok (skipn 16 (box_seal c sk pk nonce_derived_shared_key (zeros 32)))).
  { unfold sym_key. rewrite skipn_length, H. reflexivity. }
  assert (Hf : firstn 32 (skipn 16 (box_seal c sk pk nonce_derived_shared_key (zeros 32)))
               = skipn 16 (box_seal c sk pk nonce_derived_shared_key (zeros 32))).
  { apply firstn_all2. rewrite skipn_length, H. cbv; lia. }
  steps6 ext_sc. rewrite Hf. steps6 ext_sc. reflexivity.
Qed.

(* (TARGET) *)
Lemma go_keyIdentifierFromDerivedKey (d : bytes) (i : N) :
  (32 <= List.length (hmac512 c signcryption_boxkey_id_context (d ++ nonce_payload_key_box_v2 i)%list))%nat ->
  fst (run_func2 ext_sc f_saltpack_keyIdentifierFromDerivedKey [VBytes d; VInt (Z.of_N i)])
  = ORet [VBytes (box_key_identifier c d i)].
Proof.
  intros H.
  assert (H1 : (Z.of_nat (List.length (hmac512 c signcryption_boxkey_id_context (d ++ nonce_payload_key_box_v2 i)%list)) <? 32)%Z = false) by lia.
  start6 f_saltpack_keyIdentifierFromDerivedKey. unfold box_key_identifier.
  let x := eval vm_compute in signcryption_boxkey_id_context in change signcryption_boxkey_id_context with x in *.
  steps6 ext_sc. reflexivity.
Qed.

(* (TARGET) *)
Lemma go_receiverBoxKey_makeReceiverKeys (pk eph_sk payload_key : bytes) (i : N) :
  fst (run_func2 ext_sc f_saltpack_receiverBoxKey_makeReceiverKeys
         [g_maker (BoxRcpt pk); VBytes eph_sk; VBytes payload_key; VInt (Z.of_N i)])
  = ORet [g_entry (sc_receiver_entry c eph_sk (dh_pub c eph_sk) payload_key i (BoxRcpt pk))].
Proof.
  start6 f_saltpack_receiverBoxKey_makeReceiverKeys. unfold g_maker, g_entry, sc_receiver_entry. cbn [fst snd].
  steps6 ext_sc. reflexivity.
Qed.

(* (TARGET) *)
Lemma go_ReceiverSymmetricKey_makeReceiverKeys (key ident eph_sk payload_key : bytes) (i : N) :
  (32 <= List.length (hmac512 c signcryption_symkey_context (dh_pub c eph_sk ++ key)%list))%nat ->
  fst (run_func2 ext_sc f_saltpack_ReceiverSymmetricKey_makeReceiverKeys
         [g_maker (SymRcpt key ident); VBytes eph_sk; VBytes payload_key; VInt (Z.of_N i)])
  = ORet [g_entry (sc_receiver_entry c eph_sk (dh_pub c eph_sk) payload_key i (SymRcpt key ident))].
Proof.
  intros H.
  assert (H1 : (Z.of_nat (List.length (hmac512 c signcryption_symkey_context (dh_pub c eph_sk ++ key)%list)) <? 32)%Z = false) by lia.
  assert (H2 : (List.length (firstn 32 (hmac512 c signcryption_symkey_context (dh_pub c eph_sk ++ key)%list)) =? 32)%nat = true)
    by (rewrite firstn_length_le by assumption; reflexivity).
  start6 f_saltpack_ReceiverSymmetricKey_makeReceiverKeys.
  unfold g_maker, g_sym, g_entry, sc_receiver_entry, derived_sym_key. cbn [fst snd].
  let x := eval vm_compute in signcryption_symkey_context in change signcryption_symkey_context with x in *.
  steps6 ext_sc. reflexivity.
Qed.

(* ================= the receiver checks ================= *)
(* (TARGET) *)
Lemma go_checkSigncryptReceiverCount (z1 z2 : Z) :
  fst (run_func2 ext_sc f_saltpack_checkSigncryptReceiverCount [VInt z1; VInt z2]) = sc_count_check z1 z2.
Proof.
  start6 f_saltpack_checkSigncryptReceiverCount. unfold sc_count_check.
  destruct (z1 <? 0)%Z eqn:E1; cbn [orb]; [steps6 ext_sc; reflexivity|].
  destruct (z2 <? 0)%Z eqn:E2; cbn [orb]; [steps6 ext_sc; reflexivity|].
  destruct (4294967295 <? z1)%Z eqn:E3; cbn [orb]; [steps6 ext_sc; reflexivity|].
  destruct (4294967295 <? z2)%Z eqn:E4; cbn [orb]; [steps6 ext_sc; reflexivity|].
  destruct (z1 + z2 <=? 0)%Z eqn:E5; cbn [orb]; [steps6 ext_sc; reflexivity|].
  destruct (4294967295 <? z1 + z2)%Z eqn:E6; steps6 ext_sc; reflexivity.
Qed.

Lemma max_receiver_count_val : max_receiver_count = 4294967295%Z.
Proof. reflexivity. Qed.

(* the count check on two list lengths is the count part of the model's sc_check_receivers *)
Lemma sc_count_check_lengths (n1 n2 : nat) :
  sc_count_check (Z.of_nat n1) (Z.of_nat n2)
  = if Nat.eqb (n1 + n2) 0 then ORet [VErr "ErrBadReceivers" []]
    else if (max_receiver_count <? Z.of_nat (n1 + n2))%Z then ORet [VErr "ErrBadReceivers" []]
    else ORet [VNil].
Proof.
  unfold sc_count_check. rewrite max_receiver_count_val.
  replace (Z.of_nat n1 <? 0)%Z with false by lia. replace (Z.of_nat n2 <? 0)%Z with false by lia. cbn [orb].
  destruct (Nat.eqb (n1 + n2) 0) eqn:E0.
  - apply Nat.eqb_eq in E0. replace (Z.of_nat n1 + Z.of_nat n2 <=? 0)%Z with true by lia.
    rewrite !orb_true_r. reflexivity.
  - apply Nat.eqb_neq in E0. replace (Z.of_nat n1 + Z.of_nat n2 <=? 0)%Z with false by lia. rewrite orb_false_r.
    rewrite Nat2Z.inj_add.
    destruct (4294967295 <? Z.of_nat n1 + Z.of_nat n2)%Z eqn:E.
    + rewrite orb_true_r. reflexivity.
    + replace (4294967295 <? Z.of_nat n1)%Z with false by lia. replace (4294967295 <? Z.of_nat n2)%Z with false by lia.
      reflexivity.
Qed.

(* ---------- the two loops of checkSigncryptReceivers ---------- *)
Definition crv_body1 : list gstmt :=
  Eval cbv in match nth 3 (f_body f_saltpack_checkSigncryptReceivers) SBreak with SRange _ _ _ b => b | _ => [] end.
Definition crv_rest1 : list gstmt :=
  Eval cbv in skipn 4 (f_body f_saltpack_checkSigncryptReceivers).
Definition crv_body2 : list gstmt :=
  Eval cbv in match nth 4 (f_body f_saltpack_checkSigncryptReceivers) SBreak with SRange _ _ _ b => b | _ => [] end.
Definition crv_rest2 : list gstmt :=
  Eval cbv in skipn 5 (f_body f_saltpack_checkSigncryptReceivers).

Definition envC (B S : gval) (T : list gval) (tl : env) : env :=
  ([("receiverBoxKeys", B); ("receiverSymmetricKeys", S); ("err", VNil); ("receiverSet", VList T)] ++ tl)%list.
Definition tailC (tl : env) : Prop :=
  tl = [] \/ exists a b c0 d e, tl = [("receiver", a); ("kid", b); ("kidString", c0); ("v'", d); ("ok'", e)].

Definition dup_result (o : option bytes) : gval :=
  match o with Some kid => VErr "ErrRepeatedKey" [VBytes kid] | None => VNil end.

Lemma crv_loop2 (rest : list (bytes * bytes)) :
  forall (i : Z) (seen : list bytes) (B S : gval) (tl : env), tailC tl ->
  exists e',
    range_loop2 ext_sc 295 "_" "receiver" crv_body2 crv_rest2 i (map g_sym rest) (envC B S (set_of seen) tl)
    = CRet [dup_result (first_dup_from seen (map snd rest))] e'.
Proof.
  induction rest as [|[key k] rest IH]; intros i seen B S tl Htl.
  - cbn [map first_dup_from dup_result]. eexists. rewrite range_loop2_nil. unfold crv_rest2.
    steps6 ext_sc. reflexivity.
  - cbn [map first_dup_from snd]. rewrite range_loop2_cons. unfold crv_body2, envC, g_sym at 1. cbn [fst snd].
    pose proof (map_find_set_of k seen) as Hmf.
    destruct (existsb (fun k0 => bytes_eqb k0 k) seen) eqn:Eex.
    + remember (set_of seen) as SL eqn:HSL. clear HSL. cbn [dup_result].
      eexists.
      destruct Htl as [->|(a & b & c0 & d & e & ->)]; cbn [app]; steps6 ext_sc; reflexivity.
    + pose proof (map_set_set_of k seen Eex) as Hms.
      destruct (IH (i + 1)%Z (seen ++ [k])%list B S
                   [("receiver", g_sym (key, k)); ("kid", VBytes k); ("kidString", VBytes k); ("v'", VInt 0); ("ok'", VBool false)])
        as (e' & Heq).
      { right. do 5 eexists. reflexivity. }
      exists e'. rewrite <- Heq. clear Heq IH.
      remember (set_of (seen ++ [k])) as SL' eqn:HSL'. clear HSL'.
      remember (set_of seen) as SL eqn:HSL. clear HSL.
      unfold envC, g_sym.
      destruct Htl as [->|(a & b & c0 & d & e & ->)]; cbn [app fst snd]; steps6 ext_sc; reflexivity.
Qed.

Lemma crv_loop1 (syms : list (bytes * bytes)) (rest : list bytes) :
  forall (i : Z) (seen : list bytes) (B : gval) (tl : env), tailC tl ->
  exists e',
    range_loop2 ext_sc 296 "_" "receiver" crv_body1 crv_rest1 i (map VBytes rest)
                (envC B (VList (map g_sym syms)) (set_of seen) tl)
    = CRet [dup_result (first_dup_from seen (rest ++ map snd syms))] e'.
Proof.
  induction rest as [|k rest IH]; intros i seen B tl Htl.
  - cbn [map app]. rewrite range_loop2_nil. unfold crv_rest1.
    destruct (crv_loop2 syms 0%Z seen B (VList (map g_sym syms)) tl Htl) as (e' & Heq).
    exists e'. rewrite <- Heq. clear Heq. fold crv_body2. unfold envC.
    match goal with |- context [@map ?A gval g_sym syms] => generalize (@map A gval g_sym syms); intros SY end.
    remember (set_of seen) as SL eqn:HSL. clear HSL.
    destruct Htl as [->|(a & b & c0 & d & e & ->)]; cbn [app]; steps6 ext_sc; reflexivity.
  - cbn [map app first_dup_from]. rewrite range_loop2_cons. unfold crv_body1, envC.
    pose proof (map_find_set_of k seen) as Hmf.
    destruct (existsb (fun k0 => bytes_eqb k0 k) seen) eqn:Eex.
    + remember (set_of seen) as SL eqn:HSL. clear HSL. cbn [dup_result].
      match goal with |- context [@map ?A gval g_sym syms] => generalize (@map A gval g_sym syms); intros SY end.
      eexists.
      destruct Htl as [->|(a & b & c0 & d & e & ->)]; cbn [app]; steps6 ext_sc; reflexivity.
    + pose proof (map_set_set_of k seen Eex) as Hms.
      destruct (IH (i + 1)%Z (seen ++ [k])%list B
                   [("receiver", VBytes k); ("kid", VBytes k); ("kidString", VBytes k); ("v'", VInt 0); ("ok'", VBool false)])
        as (e' & Heq).
      { right. do 5 eexists. reflexivity. }
      exists e'. rewrite <- Heq. clear Heq IH.
      match goal with |- context [@map ?A gval g_sym syms] => generalize (@map A gval g_sym syms); intros SY end.
      remember (set_of (seen ++ [k])) as SL' eqn:HSL'. clear HSL'.
      remember (set_of seen) as SL eqn:HSL. clear HSL.
      unfold envC.
      destruct Htl as [->|(a & b & c0 & d & e & ->)]; cbn [app]; steps6 ext_sc; reflexivity.
Qed.

(* the outcome of checkSigncryptReceivers, as a function of the model's data *)
Definition sc_check_outcome (boxes : list bytes) (syms : list (bytes * bytes)) : outcome :=
  match sc_check_receivers boxes syms with
  | Ok _ => ORet [VNil]
  | Err ErrRepeatedKey => ORet [dup_result (first_dup (boxes ++ map snd syms))]
  | Err _ => ORet [VErr "ErrBadReceivers" []]
  end.

(* (TARGET) *)
Lemma go_checkSigncryptReceivers (boxes : list bytes) (syms : list (bytes * bytes)) :
  fst (run_func2 ext_sc f_saltpack_checkSigncryptReceivers [VList (map VBytes boxes); VList (map g_sym syms)])
  = sc_check_outcome boxes syms.
Proof.
  unfold sc_check_outcome, sc_check_receivers. rewrite first_dup_has_dup.
  pose proof (sc_count_check_lengths (List.length boxes) (List.length syms)) as Hc.
  assert (Hl1 : List.length (map VBytes boxes) = List.length boxes) by apply map_length.
  assert (Hl2 : List.length (map g_sym syms) = List.length syms) by apply map_length.
  start6 f_saltpack_checkSigncryptReceivers.
  destruct (crv_loop1 syms boxes 0%Z [] (VList (map VBytes boxes)) [] (or_introl eq_refl)) as (e' & Hl).
  unfold envC in Hl. cbn [set_of map app] in Hl.
  remember (map VBytes boxes) as BL eqn:HBL.
  remember (map g_sym syms) as SY eqn:HSY.
  rewrite <- Hl1, <- Hl2 in Hc |- *.
  destruct (Nat.eqb (List.length BL + List.length SY) 0) eqn:E0.
  { steps6 ext_sc. reflexivity. }
  destruct (max_receiver_count <? Z.of_nat (List.length BL + List.length SY))%Z eqn:E1.
  { steps6 ext_sc. reflexivity. }
  steps6 ext_sc. fold crv_body1. fold crv_rest1. rewrite_head6 Hl. cbn [fst].
  unfold first_dup. destruct (first_dup_from [] (boxes ++ map snd syms)); reflexivity.
Qed.

End Sc.


(* ================= the signcryptSealStream object ================= *)
Definition as_errv (v : gval) : option gerr :=
  match v with VNil => Some None | VErr n a => Some (Some (n, a)) | _ => None end.
Definition as_signer (v : gval) : option (option bytes) :=
  match v with VNil => Some None | VStruct [("sk", VBytes sk)] => Some (Some sk) | _ => None end.
Lemma as_errv_g_errv (e : gerr) : as_errv (g_errv e) = Some e.
Proof. destruct e as [[n a]|]; reflexivity. Qed.
Lemma as_signer_g_signer (s : option bytes) : as_signer (g_signer s) = Some s.
Proof. destruct s; reflexivity. Qed.
Lemma N_ltb0' (n : N) : (Z.of_N n <? 0)%Z = false. Proof. lia. Qed.

(* the fields of *signcryptSealStream that signcryptBlock / Write / Close / init read or write.  [ss_enc] is
   the encoder object (the go-codec encoder over the output writer): an arbitrary value whose meaning is given
   by the section variable [enc_step] below; [ss_buf] is the unread content of sss.buffer; [ss_n] is
   sss.numBlocks (uint64); [ss_signer] the signing secret key, None for an anonymous sender *)
Record sss_state := mkSss {
  ss_v : version; ss_enc : gval; ss_key : bytes; ss_signer : option bytes; ss_buf : bytes; ss_hh : bytes;
  ss_n : N; ss_err : gerr }.

Definition g_sss (st : sss_state) : gval :=
  VStruct [("version", g_version (ss_v st)); ("encoder", ss_enc st); ("encryptionKey", VBytes (ss_key st));
           ("signingKey", g_signer (ss_signer st)); ("buffer", VBytes (ss_buf st)); ("headerHash", VBytes (ss_hh st));
           ("numBlocks", VInt (Z.of_N (ss_n st))); ("err", g_errv (ss_err st))].

Definition as_sss (v : gval) : option sss_state :=
  match v with
  | VStruct [("version", VStruct [("Major", VInt ma); ("Minor", VInt mi)]); ("encoder", w); ("encryptionKey", VBytes k);
             ("signingKey", sg); ("buffer", VBytes buf); ("headerHash", VBytes hh); ("numBlocks", VInt n); ("err", ev)] =>
    match as_signer sg, as_errv ev with
    | Some s, Some e => if Z.ltb n 0 then None else Some (mkSss (mkV ma mi) w k s buf hh (Z.to_N n) e)
    | _, _ => None
    end
  | _ => None
  end.
Lemma as_sss_g_sss (st : sss_state) : as_sss (g_sss st) = Some st.
Proof.
  destruct st as [[ma mi] w k s buf hh n e]. unfold g_sss, as_sss, g_version. cbn [ss_v ss_enc ss_key ss_signer ss_buf ss_hh ss_n ss_err vmaj vmin].
  rewrite as_signer_g_signer, as_errv_g_errv, N_ltb0', N2Z.id. reflexivity.
Qed.

Definition set_buf (st : sss_state) (b : bytes) : sss_state :=
  mkSss (ss_v st) (ss_enc st) (ss_key st) (ss_signer st) b (ss_hh st) (ss_n st) (ss_err st).
Definition set_enc (st : sss_state) (w : gval) : sss_state :=
  mkSss (ss_v st) w (ss_key st) (ss_signer st) (ss_buf st) (ss_hh st) (ss_n st) (ss_err st).
Definition set_n (st : sss_state) (n : N) : sss_state :=
  mkSss (ss_v st) (ss_enc st) (ss_key st) (ss_signer st) (ss_buf st) (ss_hh st) n (ss_err st).
Definition set_err (st : sss_state) (e : gerr) : sss_state :=
  mkSss (ss_v st) (ss_enc st) (ss_key st) (ss_signer st) (ss_buf st) (ss_hh st) (ss_n st) e.

(* assertEncodedChunkState(version, ciphertext, secretbox.Overhead, blockIndex, isFinal) does not panic *)
Definition enc_chunk_ok (v : version) (ct : bytes) (ov : Z) (n : N) (final : bool) : bool :=
  negb (Z.of_nat (List.length ct) <? ov)%Z &&
  match check_chunk_state v (Z.to_nat (Z.of_nat (List.length ct) - ov)) n final with Ok _ => true | Err _ => false end.

(* the value handed to encoder.Encode, as a MessagePack value *)
Definition as_packet (v : gval) : option mval :=
  match v with
  | VBytes b => Some (MBin b)                        (* the header bytes, encoded a second time *)
  | VStruct [("PayloadCiphertext", VBytes ct); ("IsFinal", VBool f)] => Some (mv_signcrypt_block ct f)
  | _ => None
  end.

Inductive bres := BStuck (w : string) | BPanic | BRet (e : gerr) (st : sss_state).
Inductive wres := WStuck (w : string) | WRet (n : Z) (e : gerr) (st : sss_state).
Inductive cres := CloseStuck (w : string) | ClosePanic | CloseRet (e : gerr) (st : sss_state).

Section Stream.
Variable c : crypto.
(* encoder.Encode(x): what encoding the packet bytes of x does to the encoder object (the bytes reach the
   underlying writer, which may fail) and the error it returns.  The in-memory writer of signcryptSeal
   (a bytes.Buffer) is the instance [mem_enc] at the end of the file. *)
Variable enc_step : gval -> bytes -> gval * gerr.

(* the signature of a chunk (64 zero bytes for an anonymous sender) and the packet the sender emits for it *)
Definition sc_chunk_sig (signer : option bytes) (hh nonce : bytes) (final : bool) (chunk : bytes) : bytes :=
  match signer with
  | None => zeros 64
  | Some sk => ed_sign c sk (signcrypt_sig_input c hh nonce final chunk)
  end.
Definition sc_chunk_ct (signer : option bytes) (key hh : bytes) (n : N) (chunk : bytes) (final : bool) : bytes :=
  let nonce := nonce_chunk_signcryption hh final n in
  sb_seal c key nonce (sc_chunk_sig signer hh nonce final chunk ++ chunk)%list.
Definition sc_packet (signer : option bytes) (key hh : bytes) (n : N) (chunk : bytes) (final : bool) : bytes :=
  mp_encode (mv_signcrypt_block (sc_chunk_ct signer key hh n chunk final) final).

(* one step of the model's signcrypt_packets is that packet *)
Lemma signcrypt_packets_step (signer : option bytes) (key hh : bytes) (n : N) (chunk : bytes) (final : bool) (t : list (bytes * bool)) :
  signcrypt_packets c signer key hh n ((chunk, final) :: t)
  = if negb (block_number_ok n) then Err ErrPacketOverflow
    else bind (signcrypt_packets c signer key hh (n + 1) t) (fun rest => Ok (sc_packet signer key hh n chunk final ++ rest)%list).
Proof. destruct signer; reflexivity. Qed.

Definition ext_blk : externs := fun fn args =>
  if String.eqb fn "Buffer.Next" then
    match args with
    | [cur; VInt n] =>
      match vbytes_of cur with
      | Some b => if Z.ltb n 0 then None else Some [VBytes (firstn (Z.to_nat n) b); VBytes (skipn (Z.to_nat n) b)]
      | None => None
      end
    | _ => None
    end
  else if String.eqb fn "Buffer.Len" then
    match args with
    | [cur] => match vbytes_of cur with Some b => Some [VInt (Z.of_nat (List.length b))] | None => None end
    | _ => None
    end
  else if String.eqb fn "assertEncodedChunkState" then
    match args with
    | [ver; VBytes ct; VInt ov; VInt idx; VBool f] =>
      match as_version ver with
      | Some v => if enc_chunk_ok v ct ov (Z.to_N idx) f then Some [] else None   (* no value: the callee panics *)
      | None => None
      end
    | _ => None
    end
  else if String.eqb fn "encoder.Encode" then
    match args with
    | [w; x] =>
      match as_packet x with
      | Some m => let r := enc_step w (mp_encode m) in Some [g_errv (snd r); fst r]
      | None => None
      end
    | _ => None
    end
  else ext_sc c fn args.

(* ---------- signcryptBlock: the specification ---------- *)
(* everything after `plaintext := sss.buffer.Next(encryptionBlockSize)`: [pt] is the plaintext taken,
   [rest] what stays in the buffer *)
Definition sss_block_from (st : sss_state) (final : bool) (pt rest : bytes) : bres :=
  let st1 := set_buf st rest in
  if final && negb (Z.of_nat (List.length rest) =? 0)%Z then BPanic
  else if negb (block_number_ok (ss_n st)) then BRet (Some ("ErrPacketOverflow", [])) st1
  else
    let ct := sc_chunk_ct (ss_signer st) (ss_key st) (ss_hh st) (ss_n st) pt final in
    if negb (enc_chunk_ok (ss_v st) ct 16 (ss_n st) final) then BStuck "extern"
    else
      let r := enc_step (ss_enc st) (mp_encode (mv_signcrypt_block ct final)) in
      match snd r with
      | Some e => BRet (Some e) (set_enc st1 (fst r))
      | None => BRet None (set_n (set_enc st1 (fst r)) (ss_n st + 1))
      end.
Definition sss_block (st : sss_state) (final : bool) : bres :=
  sss_block_from st final (firstn blk (ss_buf st)) (skipn blk (ss_buf st)).

Ltac ev_in6 h ::=
  eval cbv -[Z.eqb Z.ltb Z.leb Z.add Z.sub Z.mul Z.modulo Z.rem Z.quot Z.shiftr Z.shiftl Z.opp
             Z.land Z.lor Z.lxor Z.lnot Z.of_nat Z.of_N Z.to_nat Z.to_N List.length nth_error
             firstn skipn bytes_eqb' bytes_eqb Byte.to_N Byte.of_N N.mul N.ltb N.eqb N.add N.leb b2n n2b Nat.eqb
             Nat.leb Nat.ltb N.div N.modulo nth map app repeat zeros
             sha512 hmac512 sb_open sb_seal dh_shared dh_pub box_seal box_open ed_pub ed_sign
             derived_box_key box_key_identifier derived_sym_key sc_receiver_entry
             block_number_ok nonce_chunk_signcryption nonce_payload_key_box_v2 nonce_sender_key_sbox
             nonce_derived_shared_key signcrypt_sig_input sym_key
             mp_encode check_chunk_state version_eqb v1 v2 blk sc_count_check set_of first_dup_from
             enc_chunk_ok mv_signcrypt_block sss_block sss_block_from as_signer as_errv
             map_set map_find as_bytes_list range_loop2 for_loop6 exec2] in h.

Definition sb_after_next : list gstmt :=
  Eval cbv in skipn 1 (f_body f_saltpack_signcryptSealStream_signcryptBlock).
(* the environment after `plaintext := sss.buffer.Next(..)` *)
Definition env_next (st : sss_state) (final : bool) (pt rest : bytes) : env :=
  [("sss", g_sss (set_buf st rest)); ("isFinal", VBool final); ("plaintext", VBytes pt)].

Lemma sb_tail_exec (st : sss_state) (final : bool) (pt rest : bytes) :
  match sss_block_from st final pt rest with
  | BStuck w => exec2 ext_blk 299 (env_next st final pt rest) sb_after_next = CStuck w
  | BPanic => exec2 ext_blk 299 (env_next st final pt rest) sb_after_next = CPanic
  | BRet e st' => exists env', exec2 ext_blk 299 (env_next st final pt rest) sb_after_next = CRet [g_errv e] env' /\
                               lookup "sss" env' = Some (g_sss st')
  end.
Proof.
  remember (exec2 ext_blk 299 (env_next st final pt rest) sb_after_next) as R eqn:HR. symmetry in HR.
  destruct st as [[ma mi] w k s buf hh n err].
  unfold sss_block_from, sc_chunk_ct, sc_chunk_sig.
  unfold env_next, sb_after_next, g_sss in HR.
  cbn [ss_v ss_enc ss_key ss_signer ss_buf ss_hh ss_n ss_err set_buf set_enc set_n] in *.
  assert (Hfin : (if final then negb (Z.of_nat (List.length rest) =? 0)%Z else false)
                 = final && negb (Z.of_nat (List.length rest) =? 0)%Z) by (destruct final; reflexivity).
  assert (Hn : block_number_ok n = true -> (Z.of_N n mod 18446744073709551616)%Z = Z.of_N n /\
                                           ((Z.of_N n + 1) mod 18446744073709551616)%Z = Z.of_N (n + 1)).
  { unfold block_number_ok. intros Hb. apply N.ltb_lt in Hb. split; rewrite Z.mod_small by lia; lia. }
  destruct final.
  - destruct (Z.of_nat (List.length rest) =? 0)%Z eqn:Elen; cbn [andb negb].
    2:{ run_hyp6 ext_blk HR. subst R. reflexivity. }
    run_hyp6 ext_blk HR.
    destruct (block_number_ok n) eqn:Hb; cbn [negb].
    2:{ run_hyp6 ext_blk HR. subst R. eexists. split; [reflexivity|exact eq_refl]. }
    destruct (Hn eq_refl) as [Hmod Hinc]. clear Hn.
    destruct s as [sk|]; run_hyp6 ext_blk HR.
    all: lazymatch goal with |- context [enc_chunk_ok ?a ?b ?d ?e ?f] => destruct (enc_chunk_ok a b d e f) eqn:Hc end; cbn [negb].
    all: try (run_hyp6 ext_blk HR; subst R; reflexivity).
    all: lazymatch goal with |- context [enc_step ?w0 ?p] => destruct (enc_step w0 p) as [w' [[en ea]|]] eqn:Eenc end; cbn [fst snd].
    all: run_hyp6 ext_blk HR; subst R; eexists; (split; [reflexivity|exact eq_refl]).
  - cbn [andb].
    run_hyp6 ext_blk HR.
    destruct (block_number_ok n) eqn:Hb; cbn [negb].
    2:{ run_hyp6 ext_blk HR. subst R. eexists. split; [reflexivity|exact eq_refl]. }
    destruct (Hn eq_refl) as [Hmod Hinc]. clear Hn.
    destruct s as [sk|]; run_hyp6 ext_blk HR.
    all: lazymatch goal with |- context [enc_chunk_ok ?a ?b ?d ?e ?f] => destruct (enc_chunk_ok a b d e f) eqn:Hc end; cbn [negb].
    all: try (run_hyp6 ext_blk HR; subst R; reflexivity).
    all: lazymatch goal with |- context [enc_step ?w0 ?p] => destruct (enc_step w0 p) as [w' [[en ea]|]] eqn:Eenc end; cbn [fst snd].
    all: run_hyp6 ext_blk HR; subst R; eexists; (split; [reflexivity|exact eq_refl]).
Qed.

Ltac steps6_to n X :=
  repeat (lazymatch goal with |- exec2 _ n _ _ = _ => fail | _ => idtac end;
          first [step6 X | use_head_hyp6 | lits1' | lits2 | lits3 | lits6 | slice6 | extra6 | zeros6]).

(* (TARGET) *)
Lemma go_signcryptBlock (st : sss_state) (final : bool) :
  let r := run_func2 ext_blk f_saltpack_signcryptSealStream_signcryptBlock [g_sss st; VBool final] in
  match sss_block st final with
  | BStuck w => fst r = OStuck w
  | BPanic => fst r = OPanic
  | BRet e st' => fst r = ORet [g_errv e] /\ lookup "sss" (snd r) = Some (g_sss st')
  end.
Proof.
  cbv zeta. unfold sss_block.
  pose proof (sb_tail_exec st final (firstn blk (ss_buf st)) (skipn blk (ss_buf st))) as Ht.
  assert (Hrun : exec2 ext_blk 300 [("sss", g_sss st); ("isFinal", VBool final)]
                       (f_body f_saltpack_signcryptSealStream_signcryptBlock)
                 = exec2 ext_blk 299 (env_next st final (firstn blk (ss_buf st)) (skipn blk (ss_buf st))) sb_after_next).
  { clear Ht. destruct st as [[ma mi] w k s buf hh n err].
    unfold env_next, sb_after_next, g_sss, blk.
    cbn [ss_v ss_enc ss_key ss_signer ss_buf ss_hh ss_n ss_err set_buf].
    cbv beta iota zeta delta [f_body f_saltpack_signcryptSealStream_signcryptBlock].
    steps6_to 299%nat ext_blk. reflexivity. }
  unfold run_func2. cbn [f_params f_results f_saltpack_signcryptSealStream_signcryptBlock bind_params map app].
  rewrite Hrun. clear Hrun.
  destruct (sss_block_from st final (firstn blk (ss_buf st)) (skipn blk (ss_buf st))) as [w| |e st'].
  - rewrite Ht. reflexivity.
  - rewrite Ht. reflexivity.
  - destruct Ht as (env' & Hrun & Hes). rewrite Hrun. cbn [fst snd]. split; [reflexivity|exact Hes].
Qed.

(* ================= Write and Close ================= *)
(* sss.signcryptBlock(isFinal) with the meaning just proved (go_signcryptBlock): its error, then the receiver
   object it leaves; no value where signcryptBlock panics or is stuck *)
Definition ext_wr : externs := fun fn args =>
  if String.eqb fn "signcryptSealStream.signcryptBlock" then
    match args with
    | [sss; VBool f] =>
      match as_sss sss with
      | Some st => match sss_block st f with BRet e st' => Some [g_errv e; g_sss st'] | _ => None end
      | None => None
      end
    | _ => None
    end
  else ext_blk fn args.

(* the loop `for sss.buffer.Len() > encryptionBlockSize { sss.err = sss.signcryptBlock(false); ... }`;
   [fuel] is the evaluator's bound on the number of iterations *)
Fixpoint sss_drain (fuel : nat) (st : sss_state) (ret : Z) : wres :=
  match fuel with
  | O => WStuck "loop fuel"
  | S f =>
    if (1048576 <? Z.of_nat (List.length (ss_buf st)))%Z then
      match sss_block st false with
      | BRet None st' => sss_drain f (set_err st' None) ret
      | BRet (Some e) st' => WRet 0 (Some e) (set_err st' (Some e))
      | _ => WStuck "call"
      end
    else WRet ret None st
  end.

(* Write(plaintext); 296 is the number of turns the evaluator (run_func2, fuel 300) gives the loop *)
Definition sss_write_at (F : nat) (st : sss_state) (p : bytes) : wres :=
  match ss_err st with
  | Some e => WRet 0 (Some e) st
  | None => sss_drain F (set_buf st (ss_buf st ++ p)%list) (Z.of_nat (List.length p))
  end.
Definition sss_write := sss_write_at 296.

(* Close() *)
Definition sss_close (st : sss_state) : cres :=
  match sss_block st true with
  | BRet (Some e) st' => CloseRet (Some e) st'
  | BRet None st' => if (0 <? Z.of_nat (List.length (ss_buf st')))%Z then ClosePanic else CloseRet None st'
  | _ => CloseStuck "call"
  end.

Ltac ev_in6 h ::=
  eval cbv -[Z.eqb Z.ltb Z.leb Z.add Z.sub Z.mul Z.modulo Z.rem Z.quot Z.shiftr Z.shiftl Z.opp
             Z.land Z.lor Z.lxor Z.lnot Z.of_nat Z.of_N Z.to_nat Z.to_N List.length nth_error
             firstn skipn bytes_eqb' bytes_eqb Byte.to_N Byte.of_N N.mul N.ltb N.eqb N.add N.leb b2n n2b Nat.eqb
             Nat.leb Nat.ltb N.div N.modulo nth map app repeat zeros
             sha512 hmac512 sb_open sb_seal dh_shared dh_pub box_seal box_open ed_pub ed_sign
             derived_box_key box_key_identifier derived_sym_key sc_receiver_entry
             block_number_ok nonce_chunk_signcryption nonce_payload_key_box_v2 nonce_sender_key_sbox
             nonce_derived_shared_key signcrypt_sig_input sym_key
             mp_encode check_chunk_state version_eqb v1 v2 blk sc_count_check set_of first_dup_from
             enc_chunk_ok mv_signcrypt_block sss_block sss_block_from as_signer as_errv g_signer g_errv sss_drain
             map_set map_find as_bytes_list range_loop2 for_loop6 exec2] in h.
(* decoding the receiver object handed to an extern; error values of a known shape *)
Ltac obj6 := progress (rewrite ?as_signer_g_signer, ?as_errv_g_errv, ?N_ltb0'); cbv beta iota.
Ltac gerr6 :=
  match goal with
  | |- context [g_errv None] => change (g_errv None) with VNil
  | |- context [g_errv (Some (?a, ?b))] => change (g_errv (Some (a, b))) with (VErr a b)
  end; cbv beta iota.
Ltac steps6 X ::= repeat first [step6 X | use_head_hyp6 | lits1' | lits2 | lits3 | lits6 | slice6 | extra6 | zeros6 | obj6 | gerr6].

Definition wr_cond : gexpr :=
  Eval cbv in match nth 3 (f_body f_saltpack_signcryptSealStream_Write) SBreak with SFor cnd _ => cnd | _ => ENil end.
Definition wr_body : list gstmt :=
  Eval cbv in match nth 3 (f_body f_saltpack_signcryptSealStream_Write) SBreak with SFor _ b => b | _ => [] end.
Definition wr_rest : list gstmt :=
  Eval cbv in skipn 4 (f_body f_saltpack_signcryptSealStream_Write).
Definition envW (st : sss_state) (p : bytes) (ret : Z) : env :=
  [("sss", g_sss st); ("plaintext", VBytes p); ("ret", VInt ret)].

Lemma wr_loop (p : bytes) (ret : Z) (k : nat) : forall (st : sss_state),
  match sss_drain k st ret with
  | WStuck w => for_loop6 ext_wr 296 wr_cond wr_body wr_rest k (envW st p ret) = CStuck w
  | WRet n e st' => exists env', for_loop6 ext_wr 296 wr_cond wr_body wr_rest k (envW st p ret) = CRet [VInt n; g_errv e] env' /\
                                 lookup "sss" env' = Some (g_sss st')
  end.
Proof.
  induction k as [|k IH]; intros st; [reflexivity|].
  remember (for_loop6 ext_wr 296 wr_cond wr_body wr_rest (S k) (envW st p ret)) as R eqn:HR. symmetry in HR.
  rewrite for_loop6_S in HR. cbn [sss_drain].
  destruct st as [[ma mi] w key s buf hh n err].
  unfold envW, g_sss, wr_cond, wr_body, wr_rest in HR.
  cbn [ss_v ss_enc ss_key ss_signer ss_buf ss_hh ss_n ss_err] in *.
  run_hyp6 ext_wr HR.
  destruct (1048576 <? Z.of_nat (List.length buf))%Z eqn:Ebig.
  2:{ run_hyp6 ext_wr HR. subst R. eexists. split; [reflexivity|exact eq_refl]. }
  run_hyp6 ext_wr HR.
  revert HR.
  destruct (sss_block (mkSss (mkV ma mi) w key s buf hh n err) false) as [w0| |[[en ea]|] st'] eqn:Eb; intros HR.
  - run_hyp6 ext_wr HR. subst R. reflexivity.
  - run_hyp6 ext_wr HR. subst R. reflexivity.
  - run_hyp6 ext_wr HR. subst R. eexists. split; [reflexivity|exact eq_refl].
  - run_hyp6 ext_wr HR. subst R. exact (IH (set_err st' None)).
Qed.

(* (TARGET) *)
Lemma go_signcryptSealStream_Write (st : sss_state) (p : bytes) :
  let r := run_func2 ext_wr f_saltpack_signcryptSealStream_Write [g_sss st; VBytes p] in
  match sss_write st p with
  | WStuck w => fst r = OStuck w
  | WRet n e st' => fst r = ORet [VInt n; g_errv e] /\ lookup "sss" (snd r) = Some (g_sss st')
  end.
Proof.
  cbv zeta. unfold sss_write, sss_write_at, run_func2.
  cbn [f_params f_results f_saltpack_signcryptSealStream_Write bind_params map app].
  remember (exec2 ext_wr 300 [("sss", g_sss st); ("plaintext", VBytes p)]
                  (f_body f_saltpack_signcryptSealStream_Write)) as R eqn:HR.
  symmetry in HR.
  destruct st as [[ma mi] w key s buf hh n err].
  cbv beta iota zeta delta [f_body f_saltpack_signcryptSealStream_Write] in HR.
  unfold g_sss in HR. unfold set_buf.
  cbn [ss_v ss_enc ss_key ss_signer ss_buf ss_hh ss_n ss_err] in *.
  destruct err as [[en ea]|].
  - run_hyp6 ext_wr HR. subst R. split; reflexivity.
  - run_hyp6 ext_wr HR.
    pose proof (wr_loop p (Z.of_nat (List.length p)) 296 (mkSss (mkV ma mi) w key s (buf ++ p)%list hh n None)) as Hl.
    destruct (sss_drain 296 (mkSss (mkV ma mi) w key s (buf ++ p)%list hh n None) (Z.of_nat (List.length p))) as [w0|n0 e0 st'].
    + assert (HR' : R = CStuck w0) by (rewrite <- HR; exact Hl). rewrite HR'. reflexivity.
    + destruct Hl as (env' & Hl & Hs).
      assert (HR' : R = CRet [VInt n0; g_errv e0] env') by (rewrite <- HR; exact Hl). rewrite HR'.
      split; [reflexivity|exact Hs].
Qed.

(* (TARGET) *)
Lemma go_signcryptSealStream_Close (st : sss_state) :
  let r := run_func2 ext_wr f_saltpack_signcryptSealStream_Close [g_sss st] in
  match sss_close st with
  | CloseStuck w => fst r = OStuck w
  | ClosePanic => fst r = OPanic
  | CloseRet e st' => fst r = ORet [g_errv e] /\ lookup "sss" (snd r) = Some (g_sss st')
  end.
Proof.
  cbv zeta. unfold sss_close, run_func2.
  cbn [f_params f_results f_saltpack_signcryptSealStream_Close bind_params map app].
  remember (exec2 ext_wr 300 [("sss", g_sss st)] (f_body f_saltpack_signcryptSealStream_Close)) as R eqn:HR.
  symmetry in HR.
  destruct st as [[ma mi] w key s buf hh n err].
  cbv beta iota zeta delta [f_body f_saltpack_signcryptSealStream_Close] in HR.
  unfold g_sss in HR.
  cbn [ss_v ss_enc ss_key ss_signer ss_buf ss_hh ss_n ss_err] in *.
  run_hyp6 ext_wr HR.
  revert HR.
  destruct (sss_block (mkSss (mkV ma mi) w key s buf hh n err) true) as [w0| |[[en ea]|] st'] eqn:Eb; intros HR.
  - run_hyp6 ext_wr HR. subst R. reflexivity.
  - run_hyp6 ext_wr HR. subst R. reflexivity.
  - run_hyp6 ext_wr HR. subst R. split; [reflexivity|exact eq_refl].
  - run_hyp6 ext_wr HR.
    destruct st' as [[ma' mi'] w' key' s' buf' hh' n' err']. cbn [ss_buf] in *.
    destruct (0 <? Z.of_nat (List.length buf'))%Z eqn:Elen.
    + run_hyp6 ext_wr HR. subst R. reflexivity.
    + run_hyp6 ext_wr HR. subst R. split; [reflexivity|exact eq_refl].
Qed.

End Stream.



(* ================= the specifications above and the model (model/Signcrypt.v, model/Chunker.v) ================= *)
(* the encoder over an in-memory writer (the bytes.Buffer of signcryptSeal): the object is the bytes written *)
Definition mem_enc (w : gval) (p : bytes) : gval * gerr :=
  match w with VBytes out => (VBytes (out ++ p), None) | _ => (w, Some ("ErrIO", [])) end.

Lemma blk_pos : (0 < blk)%nat.
Proof. rewrite blk_enc_block_size. unfold enc_block_size, c_saltpack_encryptionBlockSize. lia. Qed.
Lemma blk_Z : Z.of_nat blk = 1048576%Z.
Proof. unfold blk. lia. Qed.

Section Model.
Local Opaque blk.
Variable c : crypto.
(* NaCl's and ed25519's lengths (crypto_ok.ok_sb_len, ok_sig_len) *)
Hypothesis Hsb : forall k n m, List.length (sb_seal c k n m) = (16 + List.length m)%nat.
Hypothesis Hsig : forall s m, List.length (ed_sign c s m) = 64%nat.

Lemma sc_chunk_ct_len (signer : option bytes) (key hh : bytes) (n : N) (chunk : bytes) (final : bool) :
  List.length (sc_chunk_ct c signer key hh n chunk final) = (80 + List.length chunk)%nat.
Proof.
  unfold sc_chunk_ct, sc_chunk_sig. rewrite Hsb, app_length.
  destruct signer; [rewrite Hsig|unfold zeros; rewrite repeat_length]; lia.
Qed.

(* with those lengths assertEncodedChunkState never fires for a Version 2 stream: the plaintext of the
   secretbox always holds the 64 signature bytes *)
Lemma enc_chunk_ok_v2 (v : version) (signer : option bytes) (key hh : bytes) (n : N) (chunk : bytes) (final : bool) :
  vmaj v = 2%Z -> enc_chunk_ok v (sc_chunk_ct c signer key hh n chunk final) 16 n final = true.
Proof.
  intros Hv. unfold enc_chunk_ok. rewrite sc_chunk_ct_len.
  replace (Z.of_nat (80 + List.length chunk) <? 16)%Z with false by lia. cbn [negb andb].
  unfold check_chunk_state. rewrite Hv. cbn [Z.eqb Pos.eqb].
  replace (Z.to_nat (Z.of_nat (80 + List.length chunk) - 16)) with (S (63 + List.length chunk)) by lia.
  reflexivity.
Qed.

(* (TARGET) signcryptBlock is one step of the model's signcrypt_packets: the packet of that step handed to the
   encoder, the counter incremented *)
Lemma sss_block_model (enc_step : gval -> bytes -> gval * gerr) (st : sss_state) (final : bool) :
  vmaj (ss_v st) = 2%Z ->
  sss_block c enc_step st final =
  let pt := firstn blk (ss_buf st) in
  let rest := skipn blk (ss_buf st) in
  if final && negb (Z.of_nat (List.length rest) =? 0)%Z then BPanic
  else match signcrypt_packets c (ss_signer st) (ss_key st) (ss_hh st) (ss_n st) [(pt, final)] with
       | Err _ => BRet (Some ("ErrPacketOverflow", [])) (set_buf st rest)
       | Ok packet =>
         let r := enc_step (ss_enc st) packet in
         match snd r with
         | Some e => BRet (Some e) (set_enc (set_buf st rest) (fst r))
         | None => BRet None (set_n (set_enc (set_buf st rest) (fst r)) (ss_n st + 1))
         end
       end.
Proof.
  intros Hv. cbv zeta. unfold sss_block, sss_block_from.
  destruct (final && negb (Z.of_nat (List.length (skipn blk (ss_buf st))) =? 0)%Z); [reflexivity|].
  rewrite (signcrypt_packets_step c). cbn [signcrypt_packets bind].
  destruct (block_number_ok (ss_n st)); cbn [negb]; [|reflexivity].
  rewrite (enc_chunk_ok_v2 _ _ _ _ _ _ _ Hv). cbn [negb]. rewrite app_nil_r. reflexivity.
Qed.

(* ---------- Write and Close over the in-memory writer, and the chunker discipline ---------- *)
Definition st_after (st : sss_state) (out buf : bytes) (n : N) : sss_state :=
  mkSss (ss_v st) (VBytes out) (ss_key st) (ss_signer st) buf (ss_hh st) n (ss_err st).
Definition overflow : gerr := Some ("ErrPacketOverflow", []).

Lemma chunks_count (B : nat) : (0 < B)%nat -> forall (k : nat) (l : bytes),
  (List.length l <= S k * B)%nat -> (List.length (chunks B l) <= S k)%nat.
Proof.
  intros HB. induction k as [|k IH]; intros l Hl.
  - rewrite chunks_small by lia. cbn. lia.
  - destruct (Nat.le_gt_cases (List.length l) B) as [Hs|Hbig].
    + rewrite chunks_small by lia. cbn. lia.
    + rewrite chunks_big by lia. cbn [List.length]. apply le_n_S. apply IH. rewrite skipn_length. lia.
Qed.

Lemma sss_block_mem (st : sss_state) (out : bytes) :
  vmaj (ss_v st) = 2%Z -> ss_enc st = VBytes out ->
  sss_block c mem_enc st false =
  if negb (block_number_ok (ss_n st)) then BRet overflow (set_buf st (skipn blk (ss_buf st)))
  else BRet None (st_after st (out ++ sc_packet c (ss_signer st) (ss_key st) (ss_hh st) (ss_n st) (firstn blk (ss_buf st)) false)%list
                           (skipn blk (ss_buf st)) (ss_n st + 1)).
Proof.
  intros Hv He. rewrite (sss_block_model mem_enc st false Hv). cbv zeta. cbn [andb].
  rewrite (signcrypt_packets_step c). cbn [signcrypt_packets bind].
  destruct (block_number_ok (ss_n st)); cbn [negb]; [|reflexivity].
  rewrite He, app_nil_r. reflexivity.
Qed.

Lemma sss_drain_chunks (ret : Z) : forall (k : nat) (st : sss_state) (out : bytes),
  vmaj (ss_v st) = 2%Z -> ss_enc st = VBytes out -> ss_err st = None ->
  (List.length (chunks blk (ss_buf st)) <= k)%nat ->
  match signcrypt_packets c (ss_signer st) (ss_key st) (ss_hh st) (ss_n st) (nonfinal (removelast (chunks blk (ss_buf st)))) with
  | Ok body => sss_drain c mem_enc k st ret
               = WRet ret None (st_after st (out ++ body)%list (last (chunks blk (ss_buf st)) [])
                                         (ss_n st + N.of_nat (List.length (removelast (chunks blk (ss_buf st))))))
  | Err _ => exists st', sss_drain c mem_enc k st ret = WRet 0 overflow st' /\ ss_err st' = overflow
  end.
Proof.
  induction k as [|k IH]; intros st out Hv He Herr Hk.
  - exfalso. pose proof (chunks_nonnil blk (ss_buf st) blk_pos) as Hnn. destruct (chunks blk (ss_buf st)); [congruence|cbn [List.length] in Hk; inversion Hk].
  - cbn [sss_drain]. rewrite <- blk_Z.
    destruct (Z.of_nat blk <? Z.of_nat (List.length (ss_buf st)))%Z eqn:Ebig.
    + assert (Hbig : (blk < List.length (ss_buf st))%nat) by (apply Z.ltb_lt in Ebig; apply Nat2Z.inj_lt in Ebig; exact Ebig).
      rewrite (chunks_big blk (ss_buf st) blk_pos Hbig) in *.
      pose proof (chunks_nonnil blk (skipn blk (ss_buf st)) blk_pos) as Hnn.
      rewrite removelast_cons_nonnil, last_cons_nonnil by exact Hnn.
      cbn [nonfinal map List.length]. fold (nonfinal (removelast (chunks blk (skipn blk (ss_buf st))))).
      rewrite (signcrypt_packets_step c). rewrite (sss_block_mem st out Hv He).
      destruct (block_number_ok (ss_n st)); cbn [negb].
      2:{ eexists. split; reflexivity. }
      specialize (IH (set_err (st_after st (out ++ sc_packet c (ss_signer st) (ss_key st) (ss_hh st) (ss_n st) (firstn blk (ss_buf st)) false)%list
                                        (skipn blk (ss_buf st)) (ss_n st + 1)) None)
                     (out ++ sc_packet c (ss_signer st) (ss_key st) (ss_hh st) (ss_n st) (firstn blk (ss_buf st)) false)%list).
      cbn [set_err st_after ss_v ss_enc ss_key ss_signer ss_buf ss_hh ss_n ss_err] in IH.
      specialize (IH Hv eq_refl eq_refl). cbn [List.length] in Hk. specialize (IH (le_S_n _ _ Hk)).
      destruct (signcrypt_packets c (ss_signer st) (ss_key st) (ss_hh st) (ss_n st + 1)
                  (nonfinal (removelast (chunks blk (skipn blk (ss_buf st)))))) as [body|e]; cbn [bind].
      * rewrite IH. f_equal. unfold st_after. cbn [ss_v ss_enc ss_key ss_signer ss_buf ss_hh ss_n ss_err].
        rewrite Herr, <- app_assoc. f_equal.
        generalize (List.length (removelast (chunks blk (skipn blk (ss_buf st))))). intros m. lia.
      * exact IH.
    + assert (Hsm : (List.length (ss_buf st) <= blk)%nat) by (apply Z.ltb_ge in Ebig; apply Nat2Z.inj_le in Ebig; exact Ebig).
      rewrite (chunks_small blk (ss_buf st) blk_pos Hsm). cbn [removelast nonfinal map signcrypt_packets last List.length].
      rewrite app_nil_r, N.add_0_r. f_equal.
      destruct st as [v w key s buf hh n err]. unfold st_after. cbn [ss_v ss_enc ss_key ss_signer ss_buf ss_hh ss_n ss_err] in *.
      rewrite He. reflexivity.
Qed.

(* (TARGET) Write over the in-memory writer: the non-final blocks cw_write emits are signcrypted as the
   model's signcrypt_packets does and appended to the output; cw_write's remainder stays buffered *)
Theorem sss_write_model (st : sss_state) (out p : bytes) :
  vmaj (ss_v st) = 2%Z -> ss_enc st = VBytes out -> ss_err st = None ->
  (List.length (ss_buf st ++ p) <= 296 * blk)%nat ->
  let blocks := fst (cw_write enc_block_size (ss_buf st) p) in
  let buf' := snd (cw_write enc_block_size (ss_buf st) p) in
  match signcrypt_packets c (ss_signer st) (ss_key st) (ss_hh st) (ss_n st) (nonfinal blocks) with
  | Ok body => sss_write c mem_enc st p
               = WRet (Z.of_nat (List.length p)) None (st_after st (out ++ body)%list buf' (ss_n st + N.of_nat (List.length blocks)))
  | Err _ => exists st', sss_write c mem_enc st p = WRet 0 overflow st' /\ ss_err st' = overflow
  end.
Proof.
  intros Hv He Herr Hlen. cbv zeta. rewrite <- blk_enc_block_size.
  unfold cw_write. rewrite (drain_spec blk blk_pos) by lia. cbn [rev app fst snd].
  unfold sss_write, sss_write_at. rewrite Herr.
  pose proof (sss_drain_chunks (Z.of_nat (List.length p)) 296 (set_buf st (ss_buf st ++ p)%list) out) as H.
  cbn [set_buf ss_v ss_enc ss_key ss_signer ss_buf ss_hh ss_n ss_err] in H.
  specialize (H Hv He Herr (chunks_count blk blk_pos 295 _ Hlen)).
  destruct (signcrypt_packets c (ss_signer st) (ss_key st) (ss_hh st) (ss_n st)
              (nonfinal (removelast (chunks blk (ss_buf st ++ p)%list)))) as [body|e].
  - rewrite H. reflexivity.
  - exact H.
Qed.

(* (TARGET) Close over the in-memory writer, on a buffer of at most one block (what Write leaves:
   cw_write_bounded): the final packet of cw_close, signcrypted as the model does *)
Theorem sss_close_model (st : sss_state) (out : bytes) :
  vmaj (ss_v st) = 2%Z -> ss_enc st = VBytes out ->
  (List.length (ss_buf st) <= blk)%nat ->
  match signcrypt_packets c (ss_signer st) (ss_key st) (ss_hh st) (ss_n st) (cw_close v2 enc_block_size (ss_buf st)) with
  | Ok body => sss_close c mem_enc st = CloseRet None (st_after st (out ++ body)%list [] (ss_n st + 1))
  | Err _ => sss_close c mem_enc st = CloseRet overflow (set_buf st [])
  end.
Proof.
  intros Hv He Hlen. rewrite <- blk_enc_block_size.
  unfold cw_close. change (vmaj v2 =? 1)%Z with false. cbv iota. rewrite ChunkerProofs.split_at_spec. cbn [fst].
  unfold sss_close. rewrite (sss_block_model mem_enc st true Hv). cbv zeta.
  rewrite skipn_all2 by exact Hlen. cbn [List.length Z.of_nat Z.eqb negb andb]. unfold bytes in *.
  destruct (signcrypt_packets c (ss_signer st) (ss_key st) (ss_hh st) (ss_n st) [(firstn blk (ss_buf st), true)]) as [body|e].
  - rewrite He. cbn [mem_enc fst snd set_n set_enc set_buf ss_buf List.length Z.of_nat Z.ltb Z.compare].
    unfold st_after. cbn [ss_v ss_enc ss_key ss_signer ss_buf ss_hh ss_n ss_err]. reflexivity.
  - reflexivity.
Qed.

End Model.



(* ================= init ================= *)
(* the signcryptRNG object: the stream position its shuffleReceivers draws from and the one its
   createSymmetricKey draws from (two methods, two sources; see the head of the file); the
   EphemeralKeyCreator object is the stream it draws the 32 secret-key bytes from *)
Definition g_rng (ra rk : bytes) : gval := VStruct [("shuffle", VBytes ra); ("key", VBytes rk)].

Fixpoint as_syms (l : list gval) : option (list (bytes * bytes)) :=
  match l with
  | [] => Some []
  | VStruct [("Key", VBytes k); ("Identifier", VBytes i)] :: t =>
    match as_syms t with Some r => Some ((k, i) :: r) | None => None end
  | _ => None
  end.
Lemma as_syms_map (l : list (bytes * bytes)) : as_syms (map g_sym l) = Some l.
Proof. induction l as [|[k i] l IH]; cbn [map as_syms g_sym fst snd]; [reflexivity|]. rewrite IH. reflexivity. Qed.

(* the receivers in the order shuffleSigncryptReceivers lays them out before shuffling *)
Definition all_rcpts (boxes : list bytes) (syms : list (bytes * bytes)) : list sc_rcpt :=
  (map BoxRcpt boxes ++ map (fun s => SymRcpt (fst s) (snd s)) syms)%list.

Definition as_maker (v : gval) : option sc_rcpt :=
  match v with
  | VStruct [("pk", VBytes pk)] => Some (BoxRcpt pk)
  | VStruct [("Key", VBytes k); ("Identifier", VBytes i)] => Some (SymRcpt k i)
  | _ => None
  end.
Lemma as_maker_g (r : sc_rcpt) : as_maker (g_maker r) = Some r.
Proof. destruct r; reflexivity. Qed.

Fixpoint as_entries (l : list gval) : option (list (option bytes * bytes)) :=
  match l with
  | [] => Some []
  | VStruct [("ReceiverKID", VBytes k); ("PayloadKeyBox", VBytes b)] :: t =>
    match as_entries t with Some r => Some ((Some k, b) :: r) | None => None end
  | _ => None
  end.

Definition rand_err : list gval := [VNil; VErr "ErrRand" []].

Section Init.
Variable c : crypto.
Variable enc_step : gval -> bytes -> gval * gerr.

Definition ext_init : externs := fun fn args =>
  if String.eqb fn "checkSigncryptReceivers" then
    match args with
    | [VList bl; VList sl] =>
      match as_bytes_list bl, as_syms sl with
      | Some boxes, Some syms => match sc_check_outcome boxes syms with ORet vs => Some vs | _ => None end
      | _, _ => None
      end
    | _ => None
    end
  else if String.eqb fn "signcryptRNG.shuffleReceivers" then
    match args with
    | [VStruct [("shuffle", VBytes ra); ("key", rk)]; VList bl; VList sl] =>
      match as_bytes_list bl, as_syms sl with
      | Some boxes, Some syms =>
        match shuffle (all_rcpts boxes syms) ra with
        | Some (rs, ra') => Some [VList (map g_maker rs); VNil; VStruct [("shuffle", VBytes ra'); ("key", rk)]]
        | None => Some (rand_err ++ [VStruct [("shuffle", VBytes ra); ("key", rk)]])%list
        end
      | _, _ => None
      end
    | _ => None
    end
  else if String.eqb fn "signcryptRNG.createSymmetricKey" then
    match args with
    | [VStruct [("shuffle", ra); ("key", VBytes rk)]] =>
      match read_full 32 rk with
      | Some (k, rk') => Some [VBytes k; VNil; VStruct [("shuffle", ra); ("key", VBytes rk')]]
      | None => Some (rand_err ++ [VStruct [("shuffle", ra); ("key", VBytes rk)]])%list
      end
    | _ => None
    end
  else if String.eqb fn "EphemeralKeyCreator.CreateEphemeralKey" then
    match args with
    | [VBytes rb] =>
      match read_full 32 rb with
      | Some (sk, rb') => Some [VBytes sk; VNil; VBytes rb']
      | None => Some (rand_err ++ [VBytes rb])%list
      end
    | _ => None
    end
  else if String.eqb fn "receiverKeysMaker.makeReceiverKeys" then
    match args with
    | [r; VBytes eph_sk; VBytes key; VInt i] =>
      match as_maker r with
      | Some rc => Some [g_entry (sc_receiver_entry c eph_sk (dh_pub c eph_sk) key (Z.to_N i) rc)]
      | None => None
      end
    | _ => None
    end
  else if String.eqb fn "encodeToBytes" then
    match args with
    | [VStruct [("FormatName", VBytes f); ("Version", ver); ("Type", VInt t); ("Ephemeral", VBytes e);
                ("SenderSecretbox", VBytes sb); ("Receivers", VList rl)]] =>
      match as_version ver, as_entries rl with
      | Some v, Some entries =>
        Some [VBytes (mp_encode (MArr [MStr f; mv_version v; MInt t; MBin e; MBin sb; MArr (map mv_receiver entries)])); VNil]
      | _, _ => None
      end
    | _ => None
    end
  else ext_blk c enc_step fn args.

Lemma shuffle_loop_length {A} (i : nat) : forall (l l' : list A) (r r' : rng),
  shuffle_loop i l r = Some (l', r') -> List.length l' = List.length l.
Proof.
  induction i as [|i IH]; intros l l' r r' H; cbn [shuffle_loop] in H.
  - injection H as <- _. reflexivity.
  - destruct (uint32n (N.of_nat (S (S i))) r) as [[j r1]|]; [|discriminate].
    rewrite (IH _ _ _ _ H). apply swap_length.
Qed.
Lemma shuffle_length {A} (l l' : list A) (r r' : rng) : shuffle l r = Some (l', r') -> List.length l' = List.length l.
Proof. apply shuffle_loop_length. Qed.

Lemma sc_check_outcome_ok (boxes : list bytes) (syms : list (bytes * bytes)) :
  sc_check_receivers boxes syms = Ok tt -> sc_check_outcome boxes syms = ORet [VNil].
Proof. intros H. unfold sc_check_outcome. rewrite H. reflexivity. Qed.
Lemma sc_check_outcome_err (boxes : list bytes) (syms : list (bytes * bytes)) (e : err) :
  sc_check_receivers boxes syms = Err e -> exists n a, sc_check_outcome boxes syms = ORet [VErr n a].
Proof.
  intros H. unfold sc_check_outcome. rewrite H.
  assert (Hd : e = ErrRepeatedKey -> exists k, first_dup (boxes ++ map snd syms) = Some k).
  { intros ->. unfold sc_check_receivers in H.
    destruct (Nat.eqb _ 0); [discriminate|]. destruct (_ <? _)%Z; [discriminate|].
    destruct (has_dup (boxes ++ map snd syms)) eqn:Ed; [|discriminate].
    rewrite first_dup_has_dup in Ed. destruct (first_dup (boxes ++ map snd syms)); [eexists; reflexivity|discriminate]. }
  destruct e; try (eexists; eexists; reflexivity).
  destruct (Hd eq_refl) as [k ->]. eexists; eexists; reflexivity.
Qed.

End Init.



(* ================= init: the specification and the source tie ================= *)
Inductive ires := IPanic | IRet (e : gerr) (st : sss_state) (ra rk rb : bytes).

Definition set_key (st : sss_state) (k : bytes) : sss_state :=
  mkSss (ss_v st) (ss_enc st) k (ss_signer st) (ss_buf st) (ss_hh st) (ss_n st) (ss_err st).
Definition set_hh (st : sss_state) (hh : bytes) : sss_state :=
  mkSss (ss_v st) (ss_enc st) (ss_key st) (ss_signer st) (ss_buf st) hh (ss_n st) (ss_err st).

(* eh.Receivers: nil until the first append *)
Definition g_entries (l : list (option bytes * bytes)) : gval :=
  match l with [] => VNil | _ => VList (map g_entry l) end.

(* the error checkSigncryptReceivers returns *)
Definition check_err (boxes : list bytes) (syms : list (bytes * bytes)) : gerr :=
  match sc_check_receivers boxes syms with
  | Ok _ => None
  | Err ErrRepeatedKey => match first_dup (boxes ++ map snd syms) with
                          | Some k => Some ("ErrRepeatedKey", [VBytes k])
                          | None => None
                          end
  | Err _ => Some ("ErrBadReceivers", [])
  end.
Lemma sc_check_outcome_err_val (boxes : list bytes) (syms : list (bytes * bytes)) :
  sc_check_outcome boxes syms = ORet [g_errv (check_err boxes syms)].
Proof.
  unfold sc_check_outcome, check_err. destruct (sc_check_receivers boxes syms) as [[]|e]; [reflexivity|].
  destruct e; try reflexivity. destruct (first_dup _); reflexivity.
Qed.
Definition rand_gerr : gerr := Some ("ErrRand", []).

Section InitTie.
Variable c : crypto.
Variable enc_step : gval -> bytes -> gval * gerr.

(* the header bytes init builds from the three draws *)
Definition sc_sender_pub_go (signer : option bytes) : bytes :=
  match signer with None => zeros 32 | Some sk => ed_pub c sk end.
Definition sc_header_go (v : version) (signer : option bytes) (eph_sk key : bytes) (rs : list sc_rcpt) : bytes :=
  mp_encode (mv_enc_header v mt_signcryption (dh_pub c eph_sk)
               (sb_seal c key nonce_sender_key_sbox (sc_sender_pub_go signer))
               (mapi_from (sc_receiver_entry c eph_sk (dh_pub c eph_sk) key) 0 rs)).

(* init: checks, the three draws in program order, header, header hash, header packet *)
Definition sss_init (st : sss_state) (boxes : list bytes) (syms : list (bytes * bytes)) (ra rk rb : bytes) : ires :=
  match sc_check_receivers boxes syms with
  | Err _ => IRet (check_err boxes syms) st ra rk rb
  | Ok _ =>
    match shuffle (all_rcpts boxes syms) ra with
    | None => IRet rand_gerr st ra rk rb
    | Some (rs, ra1) =>
      match read_full 32 rb with
      | None => IRet rand_gerr st ra1 rk rb
      | Some (eph_sk, rb1) =>
        match read_full 32 rk with
        | None => IRet rand_gerr st ra1 rk rb1
        | Some (key, rk1) =>
          if negb (Nat.eqb (List.length (sc_sender_pub_go (ss_signer st))) 32) then IPanic
          else
            let hdr := sc_header_go (ss_v st) (ss_signer st) eph_sk key rs in
            let r := enc_step (ss_enc st) (mp_encode (MBin hdr)) in
            IRet (snd r) (set_enc (set_hh (set_key st key) (sha512 c hdr)) (fst r)) ra1 rk1 rb1
        end
      end
    end
  end.

Ltac ev_in6 h ::=
  eval cbv -[Z.eqb Z.ltb Z.leb Z.add Z.sub Z.mul Z.modulo Z.rem Z.quot Z.shiftr Z.shiftl Z.opp
             Z.land Z.lor Z.lxor Z.lnot Z.of_nat Z.of_N Z.to_nat Z.to_N List.length nth_error
             firstn skipn bytes_eqb' bytes_eqb Byte.to_N Byte.of_N N.mul N.ltb N.eqb N.add N.leb b2n n2b Nat.eqb
             Nat.leb Nat.ltb N.div N.modulo nth map app repeat zeros
             sha512 hmac512 sb_open sb_seal dh_shared dh_pub box_seal box_open ed_pub ed_sign
             derived_box_key box_key_identifier derived_sym_key sc_receiver_entry
             block_number_ok nonce_chunk_signcryption nonce_payload_key_box_v2 nonce_sender_key_sbox
             nonce_derived_shared_key signcrypt_sig_input sym_key
             mp_encode check_chunk_state version_eqb v1 v2 blk sc_count_check set_of first_dup_from
             enc_chunk_ok mv_signcrypt_block sss_block sss_block_from as_signer as_errv g_signer g_errv sss_drain
             sc_check_outcome all_rcpts shuffle read_full as_syms as_maker as_entries g_maker mv_receiver mv_version
             mapi_from check_err
             map_set map_find as_bytes_list range_loop2 for_loop6 exec2] in h.
Ltac obj6 := progress (rewrite ?as_signer_g_signer, ?as_errv_g_errv, ?N_ltb0', ?as_maker_g); cbv beta iota.
Ltac gerr6 :=
  match goal with
  | |- context [g_errv None] => change (g_errv None) with VNil
  | |- context [g_errv (Some (?a, ?b))] => change (g_errv (Some (a, b))) with (VErr a b)
  end; cbv beta iota.
Ltac gsig6 :=
  match goal with
  | |- context [g_signer None] => change (g_signer None) with VNil
  | |- context [g_signer (Some ?a)] => change (g_signer (Some a)) with (VStruct [("sk", VBytes a)])
  end; cbv beta iota.
Ltac steps6 X ::= repeat first [step6 X | use_head_hyp6 | lits1' | lits2 | lits3 | lits6 | slice6 | extra6 | zeros6 | obj6 | gerr6 | gsig6].

Definition il_body : list gstmt :=
  Eval cbv in match nth 11 (f_body f_saltpack_signcryptSealStream_init) SBreak with SRange _ _ _ b => b | _ => [] end.
Definition il_rest : list gstmt := Eval cbv in skipn 12 (f_body f_saltpack_signcryptSealStream_init).

Lemma as_entries_mapi (eph key : bytes) (rs : list sc_rcpt) : forall i,
  as_entries (map g_entry (mapi_from (sc_receiver_entry c eph (dh_pub c eph) key) i rs))
  = Some (mapi_from (sc_receiver_entry c eph (dh_pub c eph) key) i rs).
Proof.
  induction rs as [|r rs IH]; intros i; cbn [mapi_from map as_entries]; [reflexivity|].
  destruct r as [pk|k id]; cbn [sc_receiver_entry g_entry fst snd]; rewrite IH; reflexivity.
Qed.

Section Loop.
Variables (eph key : bytes) (VER W SG BUF HH NB ER B S CR RG RV FN TY EP SB NO : gval) (mid : env).
Hypothesis Hmid : mid = [] \/ exists v, mid = [("signingPublicKeyBytes", v)].

Definition envL (RC : gval) (tl : env) : env :=
  ([("sss", VStruct [("version", VER); ("encoder", W); ("encryptionKey", VBytes key); ("signingKey", SG);
                     ("buffer", BUF); ("headerHash", HH); ("numBlocks", NB); ("err", ER)]);
    ("receiverBoxKeys", B); ("receiverSymmetricKeys", S); ("ephemeralKeyCreator", CR); ("rng", RG); ("err", VNil);
    ("receivers", RV); ("ephemeralKey", VBytes eph);
    ("eh", VStruct [("FormatName", FN); ("Version", VER); ("Type", TY); ("Ephemeral", EP); ("SenderSecretbox", SB); ("Receivers", RC)]);
    ("encryptionKey", VBytes key); ("nonce", NO)] ++ mid ++ tl)%list.

Lemma init_loop (rest : list sc_rcpt) :
  forall (i : N) (acc : list (option bytes * bytes)) (tl : env), tail_ok tl ->
  (i + N.of_nat (List.length rest) < 18446744073709551616)%N ->
  exists tl', (rest = [] -> tl' = tl) /\ (rest <> [] -> tail2 tl') /\
    range_loop2 (ext_init c enc_step) 288 "i" "r" il_body il_rest (Z.of_N i) (map g_maker rest) (envL (g_entries acc) tl)
    = exec2 (ext_init c enc_step) 288
            (envL (g_entries (acc ++ mapi_from (sc_receiver_entry c eph (dh_pub c eph) key) i rest)) tl') il_rest.
Proof.
  induction rest as [|r0 rest IH]; intros i acc tl Htl Hlen.
  - exists tl. split; [reflexivity|]. split; [intros Hc; congruence|].
    cbn [map mapi_from]. rewrite app_nil_r. apply range_loop2_nil.
  - cbn [map mapi_from]. cbn [List.length] in Hlen.
    set (e0 := sc_receiver_entry c eph (dh_pub c eph) key i r0).
    assert (Ht2 : tail2 [("i", VInt (Z.of_N i)); ("r", g_maker r0)]) by (eexists; eexists; reflexivity).
    destruct (IH (i + 1)%N (acc ++ [e0])%list _ (or_intror Ht2) ltac:(lia)) as (tl' & Hnil & Hcons & Heq).
    exists tl'. split; [intros Hc; discriminate|]. split.
    { intros _. destruct rest; [rewrite Hnil by reflexivity; exact Ht2|apply Hcons; discriminate]. }
    rewrite <- app_assoc in Heq. cbn [app] in Heq.
    etransitivity; [|exact Heq]. clear Heq IH Hnil Hcons.
    assert (Hmod : (Z.of_N i mod 18446744073709551616)%Z = Z.of_N i) by (apply Z.mod_small; lia).
    rewrite N2Z.inj_add. change (Z.of_N 1) with 1%Z.
    rewrite range_loop2_cons. unfold il_body, envL.
    assert (Hg : g_entries (acc ++ [e0])
                 = match acc with
                   | [] => VList [g_entry e0]
                   | _ => VList (map g_entry acc ++ [g_entry e0])
                   end).
    { destruct acc; cbn [app g_entries map]; [reflexivity|]. rewrite map_app. reflexivity. }
    rewrite Hg. clear Hg. subst e0.
    destruct acc as [|x acc0].
    + cbn [g_entries].
      destruct Hmid as [->|(v & ->)]; destruct Htl as [->|(a & b & ->)]; cbn [app]; steps6 (ext_init c enc_step); reflexivity.
    + unfold g_entries. generalize (map g_entry (x :: acc0)). intros AL.
      destruct Hmid as [->|(v & ->)]; destruct Htl as [->|(a & b & ->)]; cbn [app]; steps6 (ext_init c enc_step); reflexivity.
Qed.
End Loop.

Ltac ev_in6 h ::=
  eval cbv -[Z.eqb Z.ltb Z.leb Z.add Z.sub Z.mul Z.modulo Z.rem Z.quot Z.shiftr Z.shiftl Z.opp
             Z.land Z.lor Z.lxor Z.lnot Z.of_nat Z.of_N Z.to_nat Z.to_N List.length nth_error
             firstn skipn bytes_eqb' bytes_eqb Byte.to_N Byte.of_N N.mul N.ltb N.eqb N.add N.leb b2n n2b Nat.eqb
             Nat.leb Nat.ltb N.div N.modulo nth map app repeat zeros
             sha512 hmac512 sb_open sb_seal dh_shared dh_pub box_seal box_open ed_pub ed_sign
             derived_box_key box_key_identifier derived_sym_key sc_receiver_entry
             block_number_ok nonce_chunk_signcryption nonce_payload_key_box_v2 nonce_sender_key_sbox
             nonce_derived_shared_key signcrypt_sig_input sym_key
             mp_encode check_chunk_state version_eqb v1 v2 blk sc_count_check set_of first_dup_from
             enc_chunk_ok mv_signcrypt_block sss_block sss_block_from as_signer as_errv g_signer g_errv sss_drain
             sc_check_outcome all_rcpts shuffle read_full as_syms as_maker as_entries g_maker mv_receiver mv_version
             mapi_from check_err g_entry
             map_set map_find as_bytes_list range_loop2 for_loop6 exec2] in h.
Ltac obj6 ::= progress (rewrite ?as_signer_g_signer, ?as_errv_g_errv, ?N_ltb0', ?as_maker_g, ?as_entries_mapi); cbv beta iota.

Lemma check_err_some (boxes : list bytes) (syms : list (bytes * bytes)) (e : err) :
  sc_check_receivers boxes syms = Err e -> exists n a, check_err boxes syms = Some (n, a).
Proof.
  intros H. destruct (sc_check_outcome_err boxes syms e H) as (n & a & Ho).
  rewrite sc_check_outcome_err_val in Ho. destruct (check_err boxes syms) as [[n' a']|]; [eexists; eexists; reflexivity|discriminate].
Qed.

(* run the loop of init with init_loop: HR is about the range loop over the shuffled receivers *)
Ltac apply_init_loop HR eph key r0 rs' Hlen tl' Hc Hl :=
  lazymatch type of HR with
  | range_loop2 _ _ _ _ _ _ _ _
      (("sss", VStruct [("version", ?VER); ("encoder", ?W); _; ("signingKey", ?SG); ("buffer", ?BUF); ("headerHash", ?HH); ("numBlocks", ?NB); ("err", ?ER)])
       :: ("receiverBoxKeys", ?B) :: ("receiverSymmetricKeys", ?S) :: ("ephemeralKeyCreator", ?CR) :: ("rng", ?RG) :: _ :: ("receivers", ?RV) :: _
       :: ("eh", VStruct [("FormatName", ?FN); _; ("Type", ?TY); ("Ephemeral", ?EP); ("SenderSecretbox", ?SB); _]) :: _ :: ("nonce", ?NO) :: ?MID) = _ =>
    let Hm := fresh "Hm" in
    assert (Hm : MID = [] \/ exists v, MID = [("signingPublicKeyBytes", v)]) by (first [left; reflexivity | right; eexists; reflexivity]);
    destruct (init_loop eph key VER W SG BUF HH NB ER B S CR RG RV FN TY EP SB NO MID Hm (r0 :: rs') 0%N [] [] (or_introl eq_refl) Hlen) as (tl' & _ & Hc & Hl)
  end.

(* (TARGET) init = sss_init: the error, the receiver object, and the randomness left in the two sources *)
Lemma go_signcryptSealStream_init (st : sss_state) (boxes : list bytes) (syms : list (bytes * bytes)) (ra rk rb : bytes) :
  let r := run_func2 (ext_init c enc_step) f_saltpack_signcryptSealStream_init
             [g_sss st; VList (map VBytes boxes); VList (map g_sym syms); VBytes rb; g_rng ra rk] in
  match sss_init st boxes syms ra rk rb with
  | IPanic => fst r = OPanic
  | IRet e st' ra' rk' rb' =>
    fst r = ORet [g_errv e] /\ lookup "sss" (snd r) = Some (g_sss st') /\
    lookup "rng" (snd r) = Some (g_rng ra' rk') /\ lookup "ephemeralKeyCreator" (snd r) = Some (VBytes rb')
  end.
Proof.
  cbv zeta. unfold sss_init, run_func2.
  cbn [f_params f_results f_saltpack_signcryptSealStream_init bind_params map app].
  remember (exec2 (ext_init c enc_step) 300
                  [("sss", g_sss st); ("receiverBoxKeys", VList (map VBytes boxes));
                   ("receiverSymmetricKeys", VList (map g_sym syms)); ("ephemeralKeyCreator", VBytes rb);
                   ("rng", g_rng ra rk)]
                  (f_body f_saltpack_signcryptSealStream_init)) as R eqn:HR.
  symmetry in HR.
  pose proof (as_bytes_list_map boxes) as Hab. pose proof (as_syms_map syms) as Has.
  pose proof (sc_check_outcome_err_val boxes syms) as Hco.
  revert HR Hab Has.
  match goal with |- context [@map ?A gval VBytes boxes] => generalize (@map A gval VBytes boxes); intros BL end.
  match goal with |- context [@map ?A gval g_sym syms] => generalize (@map A gval g_sym syms); intros SL end.
  intros HR Hab Has.
  destruct st as [[ma mi] w key0 s buf hh n err].
  let b := eval cbv in (f_body f_saltpack_signcryptSealStream_init) in change (f_body f_saltpack_signcryptSealStream_init) with b in HR.
  unfold g_sss, g_rng in HR. cbn [ss_v ss_enc ss_key ss_signer ss_buf ss_hh ss_n ss_err set_key set_hh set_enc] in *.
  destruct (sc_check_receivers boxes syms) as [[]|e] eqn:Ec.
  2:{ destruct (check_err_some boxes syms e Ec) as (en & ea & Hce). rewrite Hce in *.
      run_hyp6 (ext_init c enc_step) HR. subst R. repeat split. }
  assert (Hce : check_err boxes syms = None) by (unfold check_err; rewrite Ec; reflexivity). rewrite Hce in Hco.
  run_hyp6 (ext_init c enc_step) HR.
  destruct (shuffle (all_rcpts boxes syms) ra) as [[rs ra1]|] eqn:Esh.
  2:{ run_hyp6 (ext_init c enc_step) HR. subst R. repeat split. }
  assert (Hrs : exists r0 rs', rs = r0 :: rs' /\ (0 + N.of_nat (List.length (r0 :: rs')) < 18446744073709551616)%N).
  { apply shuffle_length in Esh.
    assert (Hn : (List.length boxes + List.length syms <> 0)%nat /\ (Z.of_nat (List.length boxes + List.length syms) <= 4294967295)%Z).
    { unfold sc_check_receivers in Ec. destruct (Nat.eqb_spec (List.length boxes + List.length syms) 0); [discriminate|].
      rewrite max_receiver_count_val in Ec. destruct (Z.ltb_spec 4294967295 (Z.of_nat (List.length boxes + List.length syms))); [discriminate|].
      split; assumption. }
    unfold all_rcpts in Esh. rewrite app_length, !map_length in Esh.
    destruct rs as [|r0 rs']; [cbn [List.length] in Esh; lia|]. exists r0, rs'. split; [reflexivity|]. lia. }
  destruct Hrs as (r0 & rs' & -> & Hlen).
  run_hyp6 (ext_init c enc_step) HR.
  destruct (read_full 32 rb) as [[eph rb1]|] eqn:Eeph.
  2:{ run_hyp6 (ext_init c enc_step) HR. subst R. repeat split. }
  run_hyp6 (ext_init c enc_step) HR.
  destruct (read_full 32 rk) as [[key rk1]|] eqn:Ekey.
  2:{ run_hyp6 (ext_init c enc_step) HR. subst R. repeat split. }
  assert (Hge : g_entries ([] ++ mapi_from (sc_receiver_entry c eph (dh_pub c eph) key) 0 (r0 :: rs'))
                = VList (map g_entry (mapi_from (sc_receiver_entry c eph (dh_pub c eph) key) 0 (r0 :: rs')))) by reflexivity.
  unfold sc_header_go, sc_sender_pub_go, mv_enc_header.
  let x := eval vm_compute in format_name in change format_name with x.
  change mt_signcryption with 3%Z.
  destruct s as [sk|]; cbn [ss_signer].
  - run_hyp6 (ext_init c enc_step) HR.
    destruct (Nat.eqb (List.length (ed_pub c sk)) 32) eqn:E32; cbn [negb].
    + assert (Hz : (Z.of_nat (List.length (ed_pub c sk)) =? 32)%Z = true) by (apply Nat.eqb_eq in E32; lia).
      run_hyp6 (ext_init c enc_step) HR.
      apply_init_loop HR eph key r0 rs' Hlen tl' Hc Hl.
      destruct Hc as (a & b & ->); [discriminate|].
      match type of Hl with _ = ?rhs => assert (HR2 : rhs = R) by (rewrite <- Hl; exact HR) end.
      clear HR Hl. unfold envL, il_rest in HR2. rewrite Hge in HR2. cbn [app] in HR2.
      run_hyp6 (ext_init c enc_step) HR2.
      unfold bytes in *. revert HR2.
      lazymatch goal with |- context [enc_step ?w0 ?p] => destruct (enc_step w0 p) as [w' [[en ea]|]] eqn:Eenc end; cbn [fst snd]; intros HR2.
      * run_hyp6 (ext_init c enc_step) HR2. subst R. repeat split.
      * run_hyp6 (ext_init c enc_step) HR2. subst R. repeat split.
    + assert (Hz : (Z.of_nat (List.length (ed_pub c sk)) =? 32)%Z = false) by (apply Nat.eqb_neq in E32; lia).
      run_hyp6 (ext_init c enc_step) HR. subst R. reflexivity.
  - change (Nat.eqb (List.length (zeros 32)) 32) with true. cbn [negb].
    run_hyp6 (ext_init c enc_step) HR.
    apply_init_loop HR eph key r0 rs' Hlen tl' Hc Hl.
    destruct Hc as (a & b & ->); [discriminate|].
    match type of Hl with _ = ?rhs => assert (HR2 : rhs = R) by (rewrite <- Hl; exact HR) end.
    clear HR Hl. unfold envL, il_rest in HR2. rewrite Hge in HR2. cbn [app] in HR2.
    run_hyp6 (ext_init c enc_step) HR2.
    unfold bytes in *. revert HR2.
    lazymatch goal with |- context [enc_step ?w0 ?p] => destruct (enc_step w0 p) as [w' [[en ea]|]] eqn:Eenc end; cbn [fst snd]; intros HR2.
    * run_hyp6 (ext_init c enc_step) HR2. subst R. repeat split.
    * run_hyp6 (ext_init c enc_step) HR2. subst R. repeat split.
Qed.

End InitTie.



(* ================= composition: the meaning the extern tables give to calls of the functions tied above
   is the outcome of running their translated bodies ================= *)
Section Compose.
Variable c : crypto.
Variable enc_step : gval -> bytes -> gval * gerr.

Lemma ext_sc_derivedEphemeralKeyFromBoxKeys (pk sk : bytes) :
  List.length (box_seal c sk pk nonce_derived_shared_key (zeros 32)) = 48%nat ->
  option_map ORet (ext_sc c "derivedEphemeralKeyFromBoxKeys" [VBytes pk; VBytes sk])
  = Some (fst (run_func2 (ext_sc c) f_saltpack_derivedEphemeralKeyFromBoxKeys [VBytes pk; VBytes sk])).
Proof. intros H. rewrite (go_derivedEphemeralKeyFromBoxKeys c pk sk H). reflexivity. Qed.

Lemma ext_sc_keyIdentifierFromDerivedKey (d : bytes) (i : N) :
  (32 <= List.length (hmac512 c signcryption_boxkey_id_context (d ++ nonce_payload_key_box_v2 i)%list))%nat ->
  option_map ORet (ext_sc c "keyIdentifierFromDerivedKey" [VBytes d; VInt (Z.of_N i)])
  = Some (fst (run_func2 (ext_sc c) f_saltpack_keyIdentifierFromDerivedKey [VBytes d; VInt (Z.of_N i)])).
Proof.
  intros H. rewrite (go_keyIdentifierFromDerivedKey c d i H).
  cbv [ext_sc String.eqb Ascii.eqb Bool.eqb option_map]. rewrite N2Z.id. reflexivity.
Qed.

Lemma ext_sc_checkSigncryptReceiverCount (z1 z2 : Z) :
  ext_sc c "checkSigncryptReceiverCount" [VInt z1; VInt z2]
  = match fst (run_func2 (ext_sc c) f_saltpack_checkSigncryptReceiverCount [VInt z1; VInt z2]) with
    | ORet vs => Some vs
    | _ => None                      (* the callee panics *)
    end.
Proof. rewrite (go_checkSigncryptReceiverCount c z1 z2). reflexivity. Qed.

Lemma ext_init_checkSigncryptReceivers (boxes : list bytes) (syms : list (bytes * bytes)) :
  option_map ORet (ext_init c enc_step "checkSigncryptReceivers" [VList (map VBytes boxes); VList (map g_sym syms)])
  = Some (fst (run_func2 (ext_sc c) f_saltpack_checkSigncryptReceivers [VList (map VBytes boxes); VList (map g_sym syms)])).
Proof.
  rewrite (go_checkSigncryptReceivers c boxes syms).
  cbv [ext_init String.eqb Ascii.eqb Bool.eqb]. rewrite as_bytes_list_map, as_syms_map.
  rewrite sc_check_outcome_err_val. reflexivity.
Qed.

(* r.makeReceiverKeys(...) dispatches on the dynamic type of the receiverKeysMaker *)
Lemma ext_init_makeReceiverKeys (r : sc_rcpt) (eph_sk key : bytes) (i : N) :
  (forall k ident, r = SymRcpt k ident ->
     (32 <= List.length (hmac512 c signcryption_symkey_context (dh_pub c eph_sk ++ k)%list))%nat) ->
  option_map ORet (ext_init c enc_step "receiverKeysMaker.makeReceiverKeys" [g_maker r; VBytes eph_sk; VBytes key; VInt (Z.of_N i)])
  = Some (fst (run_func2 (ext_sc c)
                 match r with
                 | BoxRcpt _ => f_saltpack_receiverBoxKey_makeReceiverKeys
                 | SymRcpt _ _ => f_saltpack_ReceiverSymmetricKey_makeReceiverKeys
                 end [g_maker r; VBytes eph_sk; VBytes key; VInt (Z.of_N i)])).
Proof.
  intros H. destruct r as [pk|k ident].
  - rewrite (go_receiverBoxKey_makeReceiverKeys c pk eph_sk key i).
    cbv [ext_init String.eqb Ascii.eqb Bool.eqb option_map]. rewrite as_maker_g, N2Z.id. reflexivity.
  - rewrite (go_ReceiverSymmetricKey_makeReceiverKeys c k ident eph_sk key i (H k ident eq_refl)).
    cbv [ext_init String.eqb Ascii.eqb Bool.eqb option_map]. rewrite as_maker_g, N2Z.id. reflexivity.
Qed.

(* sss.signcryptBlock(isFinal) inside Write and Close *)
Lemma ext_wr_signcryptBlock (st : sss_state) (final : bool) :
  ext_wr c enc_step "signcryptSealStream.signcryptBlock" [g_sss st; VBool final]
  = match sss_block c enc_step st final with
    | BRet e st' => Some [g_errv e; g_sss st']
    | _ => None                      (* the callee panics, or is itself stuck *)
    end.
Proof. cbv [ext_wr String.eqb Ascii.eqb Bool.eqb]. rewrite as_sss_g_sss. reflexivity. Qed.

End Compose.



(* ================= a whole session: Write each piece, then Close ================= *)
Section Session.
Local Opaque blk.
Variable c : crypto.
Hypothesis Hsb : forall k n m, List.length (sb_seal c k n m) = (16 + List.length m)%nat.
Hypothesis Hsig : forall s m, List.length (ed_sign c s m) = 64%nat.

Fixpoint sss_session (enc_step : gval -> bytes -> gval * gerr) (st : sss_state) (pieces : list bytes) : cres :=
  match pieces with
  | [] => sss_close c enc_step st
  | p :: t =>
    match sss_write c enc_step st p with
    | WRet _ None st' => sss_session enc_step st' t
    | WRet _ (Some e) st' => CloseRet (Some e) st'
    | WStuck w => CloseStuck w
    end
  end.

Lemma signcrypt_packets_app (signer : option bytes) (key hh : bytes) (a : list (bytes * bool)) : forall (n : N) (b : list (bytes * bool)),
  signcrypt_packets c signer key hh n (a ++ b) =
  bind (signcrypt_packets c signer key hh n a) (fun x =>
  bind (signcrypt_packets c signer key hh (n + N.of_nat (List.length a)) b) (fun y => Ok (x ++ y)%list)).
Proof.
  induction a as [|[ch f] a IH]; intros n b.
  - cbn [app signcrypt_packets bind List.length N.of_nat]. rewrite N.add_0_r.
    destruct (signcrypt_packets c signer key hh n b); reflexivity.
  - cbn [app List.length]. rewrite !(signcrypt_packets_step c).
    destruct (block_number_ok n); cbn [negb]; [|reflexivity].
    rewrite IH. replace (n + 1 + N.of_nat (List.length a))%N with (n + N.of_nat (S (List.length a)))%N by lia.
    destruct (signcrypt_packets c signer key hh (n + 1) a) as [x|e]; cbn [bind]; [|reflexivity].
    destruct (signcrypt_packets c signer key hh (n + N.of_nat (S (List.length a))) b) as [y|e]; cbn [bind]; [|reflexivity].
    rewrite app_assoc. reflexivity.
Qed.

(* (TARGET) Write* then Close over the in-memory writer emit exactly the packets the model's sender emits
   for cw_session (the plan signcrypt_core runs signcrypt_packets on), whatever the split into pieces *)
Theorem sss_session_model (pieces : list bytes) : forall (st : sss_state) (out : bytes),
  vmaj (ss_v st) = 2%Z -> ss_enc st = VBytes out -> ss_err st = None ->
  (List.length (ss_buf st) <= blk)%nat ->
  Forall (fun p : bytes => (List.length p <= 295 * blk)%nat) pieces ->
  match signcrypt_packets c (ss_signer st) (ss_key st) (ss_hh st) (ss_n st) (cw_session v2 enc_block_size (ss_buf st) pieces) with
  | Ok body => sss_session mem_enc st pieces
               = CloseRet None (st_after st (out ++ body)%list []
                                 (ss_n st + N.of_nat (List.length (cw_session v2 enc_block_size (ss_buf st) pieces))))
  | Err _ => exists st', sss_session mem_enc st pieces = CloseRet overflow st'
  end.
Proof.
  induction pieces as [|p t IH]; intros st out Hv He Herr Hlen Hall.
  - cbn [cw_session sss_session].
    pose proof (sss_close_model c Hsb Hsig st out Hv He Hlen) as Hc.
    assert (Hl : List.length (cw_close v2 enc_block_size (ss_buf st)) = 1%nat) by reflexivity.
    rewrite Hl. change (N.of_nat 1) with 1%N.
    destruct (signcrypt_packets c (ss_signer st) (ss_key st) (ss_hh st) (ss_n st) (cw_close v2 enc_block_size (ss_buf st))).
    + exact Hc.
    + eexists. exact Hc.
  - cbn [cw_session sss_session]. inversion Hall as [|p' t' Hp Ht]; subst p' t'.
    assert (Hfuel : (List.length (ss_buf st ++ p) <= 296 * blk)%nat).
    { rewrite app_length. change 296%nat with (1 + 295)%nat. rewrite Nat.mul_add_distr_r, Nat.mul_1_l.
      apply Nat.add_le_mono; assumption. }
    pose proof (sss_write_model c Hsb Hsig st out p Hv He Herr Hfuel) as Hw. cbv zeta in Hw.
    assert (Hpos : (0 < enc_block_size)%nat) by (rewrite <- blk_enc_block_size; exact blk_pos).
    pose proof (cw_write_bounded enc_block_size (ss_buf st) p Hpos) as Hb.
    destruct (cw_write enc_block_size (ss_buf st) p) as [blocks buf'] eqn:Ecw. cbn [fst snd] in Hw, Hb.
    change (map (fun c0 : bytes => (c0, false)) blocks) with (nonfinal blocks).
    assert (Hnl : List.length (nonfinal blocks) = List.length blocks) by (unfold nonfinal; apply map_length).
    rewrite app_length, Hnl, signcrypt_packets_app, Hnl.
    destruct (signcrypt_packets c (ss_signer st) (ss_key st) (ss_hh st) (ss_n st) (nonfinal blocks)) as [body1|e]; cbn [bind].
    + rewrite Hw.
      specialize (IH (st_after st (out ++ body1)%list buf' (ss_n st + N.of_nat (List.length blocks))) (out ++ body1)%list).
      cbn [st_after ss_v ss_enc ss_key ss_signer ss_buf ss_hh ss_n ss_err] in IH.
      rewrite <- blk_enc_block_size in Hb.
      specialize (IH Hv eq_refl Herr Hb Ht).
      destruct (signcrypt_packets c (ss_signer st) (ss_key st) (ss_hh st) (ss_n st + N.of_nat (List.length blocks))
                  (cw_session v2 enc_block_size buf' t)) as [body2|e]; cbn [bind].
      * rewrite IH. unfold st_after. cbn [ss_v ss_enc ss_key ss_signer ss_buf ss_hh ss_n ss_err].
        rewrite <- app_assoc. f_equal. f_equal.
        generalize (List.length blocks) (List.length (cw_session v2 enc_block_size buf' t)). intros a b. lia.
      * exact IH.
    + destruct Hw as (st' & Hw & Hse). rewrite Hw. exists st'. reflexivity.
Qed.

Lemma signcrypt_packets_err (signer : option bytes) (key hh : bytes) (l : list (bytes * bool)) : forall (n : N) (e : err),
  signcrypt_packets c signer key hh n l = Err e -> e = ErrPacketOverflow.
Proof.
  induction l as [|[ch f] l IH]; intros n e H; [discriminate|].
  rewrite (signcrypt_packets_step c) in H. destruct (block_number_ok n); cbn [negb] in H; [|congruence].
  destruct (signcrypt_packets c signer key hh (n + 1) l) as [x|e'] eqn:E; cbn [bind] in H; [discriminate|].
  injection H as <-. exact (IH _ _ E).
Qed.

(* (TARGET) the model's signcrypt_core, with its header named as init builds it *)
Lemma signcrypt_core_go (signer : option bytes) (eph_sk key : bytes) (rs : list sc_rcpt) (pieces : list bytes) :
  signcrypt_core c signer eph_sk key rs pieces =
  if negb (Nat.eqb (List.length (sc_sender_pub_go c signer)) 32) then Err (Panic 10)
  else bind (signcrypt_packets c signer key (sha512 c (sc_header_go c v2 signer eph_sk key rs)) 0
               (cw_session v2 enc_block_size [] pieces))
         (fun body => Ok (mp_encode (MBin (sc_header_go c v2 signer eph_sk key rs)) ++ body)%list).
Proof. destruct signer; reflexivity. Qed.

(* (TARGET) init (sss_init, i.e. the translated init by go_signcryptSealStream_init), then Write*, then Close,
   over the in-memory writer and a fresh Version 2 stream object: the bytes written are the model's
   signcrypt_core on the three draws *)
Theorem sss_seal_core (st : sss_state) (boxes : list bytes) (syms : list (bytes * bytes)) (ra rk rb : bytes)
        (rs : list sc_rcpt) (ra1 eph_sk rb1 key rk1 : bytes) (pieces : list bytes) :
  ss_v st = v2 -> ss_enc st = VBytes [] -> ss_err st = None -> ss_buf st = [] -> ss_n st = 0%N ->
  sc_check_receivers boxes syms = Ok tt ->
  shuffle (all_rcpts boxes syms) ra = Some (rs, ra1) ->
  read_full 32 rb = Some (eph_sk, rb1) ->
  read_full 32 rk = Some (key, rk1) ->
  Forall (fun p : bytes => (List.length p <= 295 * blk)%nat) pieces ->
  match signcrypt_core c (ss_signer st) eph_sk key rs pieces with
  | Ok out =>
    exists st1, sss_init c mem_enc st boxes syms ra rk rb = IRet None st1 ra1 rk1 rb1 /\
    exists st2, sss_session mem_enc st1 pieces = CloseRet None st2 /\ ss_enc st2 = VBytes out /\ ss_buf st2 = []
  | Err (Panic _) => sss_init c mem_enc st boxes syms ra rk rb = IPanic
  | Err _ =>
    exists st1, sss_init c mem_enc st boxes syms ra rk rb = IRet None st1 ra1 rk1 rb1 /\
    exists st2, sss_session mem_enc st1 pieces = CloseRet overflow st2
  end.
Proof.
  intros Hv He Herr Hbuf Hn Hck Hsh Heph Hkey Hall.
  rewrite signcrypt_core_go. unfold sss_init. rewrite Hck, Hsh, Heph, Hkey.
  destruct (negb (Nat.eqb (List.length (sc_sender_pub_go c (ss_signer st))) 32)); [reflexivity|].
  rewrite Hv, He. cbn [mem_enc fst snd app].
  set (hdr := sc_header_go c v2 (ss_signer st) eph_sk key rs).
  set (st1 := set_enc (set_hh (set_key st key) (sha512 c hdr)) (VBytes (mp_encode (MBin hdr)))).
  pose proof (sss_session_model pieces st1 (mp_encode (MBin hdr))) as Hs.
  assert (Hv1 : vmaj (ss_v st1) = 2%Z) by (subst st1; cbn [set_enc set_hh set_key ss_v]; rewrite Hv; reflexivity).
  assert (Hb1 : (List.length (ss_buf st1) <= blk)%nat).
  { subst st1. cbn [set_enc set_hh set_key ss_buf]. rewrite Hbuf. cbn [List.length]. apply Nat.le_0_l. }
  specialize (Hs Hv1 eq_refl Herr Hb1 Hall).
  subst st1. cbn [set_enc set_hh set_key ss_v ss_enc ss_key ss_signer ss_buf ss_hh ss_n ss_err] in Hs.
  rewrite Hbuf, Hn in Hs.
  destruct (signcrypt_packets c (ss_signer st) key (sha512 c hdr) 0 (cw_session v2 enc_block_size [] pieces)) as [body|e] eqn:Esp; cbn [bind].
  - eexists. split; [reflexivity|]. eexists. split; [exact Hs|]. split; reflexivity.
  - assert (He' : e = ErrPacketOverflow) by (exact (signcrypt_packets_err _ _ _ _ _ _ Esp)).
    subst e. destruct Hs as (st2 & Hs). eexists. split; [reflexivity|]. exists st2. exact Hs.
Qed.

End Session.

(* ================= the statements evaluated on concrete inputs (model/ToyCrypto.v; computed) ================= *)
Section Examples.
Let bs (s : string) : bytes := list_byte_of_string s.
Let st0 (signer : option bytes) (buf : bytes) (n : N) : sss_state :=
  mkSss v2 (VBytes []) (bs "key") signer buf (bs "0123456789abcdefHH") n None.
Let field (f : string) (v : option gval) : option gval :=
  match v with Some (VStruct fs) => lookup f fs | _ => None end.

(* a repeated identifier across the two receiver kinds *)
Example ex_checkSigncryptReceivers :
  fst (run_func2 (ext_sc toy_crypto) f_saltpack_checkSigncryptReceivers
         [VList (map VBytes [bs "a"; bs "b"]); VList (map g_sym [(bs "k", bs "c"); (bs "k2", bs "a")])])
  = ORet [VErr "ErrRepeatedKey" [VBytes (bs "a")]]
  /\ sc_check_receivers [bs "a"; bs "b"] [(bs "k", bs "c"); (bs "k2", bs "a")] = Err ErrRepeatedKey.
Proof. split; vm_compute; reflexivity. Qed.

(* Write of 1 MiB + 2 bytes onto a buffer of 1 MiB + 3 bytes: two blocks flushed, 5 bytes stay buffered *)
Example ex_Write_two_blocks :
  let r := run_func2 (ext_wr toy_crypto mem_enc) f_saltpack_signcryptSealStream_Write
             [g_sss (st0 (Some (bs "signer")) (repeat x00 (blk + 3)) 7); VBytes (repeat x00 (blk + 2))] in
  fst r = ORet [VInt 1048578; VNil] /\
  field "numBlocks" (lookup "sss" (snd r)) = Some (VInt 9) /\
  field "buffer" (lookup "sss" (snd r)) = Some (VBytes (repeat x00 5)).
Proof. vm_compute. repeat split. Qed.

(* the block counter runs out in the middle of a Write *)
Example ex_Write_overflow :
  fst (run_func2 (ext_wr toy_crypto mem_enc) f_saltpack_signcryptSealStream_Write
         [g_sss (st0 None (repeat x00 (blk + 3)) 18446744073709551614); VBytes (repeat x00 (blk + 2))])
  = ORet [VInt 0; VErr "ErrPacketOverflow" []].
Proof. vm_compute. reflexivity. Qed.

(* Close: the final packet; a failing writer *)
Example ex_Close :
  fst (run_func2 (ext_wr toy_crypto mem_enc) f_saltpack_signcryptSealStream_Close [g_sss (st0 None (bs "hello") 3)]) = ORet [VNil]
  /\ fst (run_func2 (ext_wr toy_crypto mem_enc) f_saltpack_signcryptSealStream_Close
            [g_sss (mkSss v2 VNil (bs "key") None (bs "x") (bs "0123456789abcdefHH") 3 None)]) = ORet [VErr "ErrIO" []].
Proof. split; vm_compute; reflexivity. Qed.

(* init: the three draws, and what they leave in the two random sources *)
Example ex_init :
  let args := [g_sss (st0 None [] 0); VList (map VBytes [bs "a"; bs "b"]); VList (map g_sym [(bs "k", bs "id")]);
               VBytes (bs "ABCDEFGHIJABCDEFGHIJABCDEFGHIJABCDEFGHIJ");
               g_rng (bs "0123456789012345678901234567890123456789") (bs "abcdefghijabcdefghijabcdefghijabcdefghij")] in
  let r := run_func2 (ext_init toy_crypto mem_enc) f_saltpack_signcryptSealStream_init args in
  fst r = ORet [VNil] /\
  lookup "rng" (snd r) = Some (g_rng (bs "89012345678901234567890123456789") (bs "cdefghij")) /\
  lookup "ephemeralKeyCreator" (snd r) = Some (VBytes (bs "CDEFGHIJ")) /\
  field "encryptionKey" (lookup "sss" (snd r)) = Some (VBytes (bs "abcdefghijabcdefghijabcdefghijab")) /\
  option_map fst (shuffle (all_rcpts [bs "a"; bs "b"] [(bs "k", bs "id")]) (bs "0123456789012345678901234567890123456789"))
    = Some [BoxRcpt (bs "b"); SymRcpt (bs "k") (bs "id"); BoxRcpt (bs "a")].
Proof. vm_compute. repeat split. Qed.
End Examples.
