(* GoAstProofs8b.v -- source ties for the STREAM CLASSIFIERS of /repo/classify_and_decrypt.go: IsSaltpackBinary,
   IsSaltpackArmored, ClassifyStream and ClassifyEncryptedStreamAndMakeDecoder.  Their bodies, translated on this run
   from the Go syntax trees (gen/GoAstEntry.v), are run by the extended evaluator of model/GoLang2.v (run_func2: outcome
   AND final environment) on ENCODED arguments and compute exactly a specification function written over the
   model's classifiers (model/Armor.v: binary_slice = IsSaltpackBinarySlice, armored_prefix = IsSaltpackArmoredPrefix),
   for ALL arguments, and leave the *bufio.Reader they were given UNCHANGED (property C16: classification consumes
   no input).  model/Armor.v has no stream-level classifier of its own; the specification functions below
   ([isbin_spec], [isarm_spec], [cs_spec], [ced_spec]) are that stream level, and the second half of the file says
   what they mean in terms of binary_slice / armored_prefix and composes them with the theorems of ClassifyProofs.v.

   TRUSTED: THE CONTRACT OF bufio (package documentation of bufio.Reader; not derived from Go's source here).
   A *bufio.Reader is the abstract state [bufrd]: [br_data], the bytes the reader will still deliver (buffered or
   not yet read from the underlying reader); [br_err], the error that follows them (io.EOF for a source that just
   ends; any other error value otherwise; a source is a FINITE byte string followed by an error); [br_size], the
   buffer size Size() reports.  [peek st n] is Peek(n): the first min(n, Size(), available) bytes, WITHOUT consuming
   anything, and: bufio.ErrNegativeCount for n < 0; bufio.ErrBufferFull when n > Size(); the source's error when
   fewer than n bytes exist; nil otherwise.  Peek does not change the abstract state (it may move bytes from the
   source into the buffer, and it hands a pending read error out, to meet it again at the next read: neither changes
   what the reader will deliver).  Size() returns [br_size].  bufio.NewReader(rd) is a reader over rd's bytes and
   error with buffer size 4096, or rd itself when rd is a *bufio.Reader whose buffer is at least that large
   ([new_reader], [newreader_size]).  No lower bound on the size is assumed (bufio's constructors guarantee 16): the
   specification functions say what the code does for every size, and the lemmas that read them carry `0 < size`
   (resp. `23 <= size`) where the reading needs it (for Size() = 0, a zero-value Reader, Peek(0) returns no bytes
   and NO error and IsSaltpackArmored returns ("", MessageTypeUnknown, Version{}, nil): [isarm_spec] says so).

   ENCODINGS.  An error value is its class name and arguments ([perr]; Go's == on the values the code compares
   with, bufio.ErrBufferFull, io.EOF, ErrShortSliceOrBuffer, nil, is [is_err] / [is_nil]: same name, no
   arguments).  [g_bufrd st]: the reader object; [g_src d e osz]: an io.Reader delivering d then e, osz its buffer
   size when it is itself a *bufio.Reader.  Versions as in GoAstProofs.v ([g_version]); Version{} is VStruct [] where
   the code writes the literal ([g_vzero_lit]) and VNil where it returns a named result never assigned
   ([g_vzero_var]: the early return of IsSaltpackArmored) - one Go value, two representations in the evaluator,
   and the statements say which one appears.  MessageTypeUnknown is -1.  Results are compared as WHOLE lists of Go
   values ([g_bin_res], [g_arm_res], [g_cs_res], the eight results of ClassifyEncryptedStreamAndMakeDecoder).

   EXTERNS ([ext_cls], [ext_ced]).  Reader.Peek / Reader.Size / bufio.NewReader: the contract above.
   IsSaltpackBinarySlice = the model's binary_slice ([cls_vals]; its own tie is go_IsSaltpackBinarySlice in
   GoAstProofs.v, see compose_IsSaltpackBinarySlice); IsSaltpackArmoredPrefix = the model's armored_prefix
   ([arm_vals]).  IsSaltpackArmored / IsSaltpackBinary inside ClassifyStream and ClassifyStream inside
   ClassifyEncryptedStreamAndMakeDecoder = the results proved here followed by the reader they leave, written back to
   the argument (compose_IsSaltpackArmored, compose_IsSaltpackBinary, compose_ClassifyStream).  An extern has NO
   value where the model says Unmodelled (ClsUnmod: go-codec input outside the modelled subset): the evaluator is
   then stuck at that call ("call"), and the statements say exactly when ([spec_out]).  The four entry points
   NewDecryptStream, NewDearmor62DecryptStream, NewSigncryptOpenStream, NewDearmor62SigncryptOpenStream are Section
   variables of ARBITRARY meaning in the main lemma (so it holds for the meaning GoAstProofs7c.v proves and for any
   other), then instantiated ([ext_ced_m]): the binary ones by GoAstProofs7c.ext_open / ext_scopen (the model's
   open_stream / signcrypt_open_stream over the reader's bytes; the reader must end with io.EOF, 7c's readers cannot
   fail), the armored ones by the binary one over the payload of the model's dearmor, with its brand
   ([dearmored_entry]).

   TARGETS (all proved with Qed; all closed under the global context).  Hypotheses listed; "none" means none.
   - go_IsSaltpackBinary: IsSaltpackBinary(stream) returns [isbin_spec]: ErrShortSliceOrBuffer when Peek(23) says
       bufio.ErrBufferFull (buffer smaller than 23 bytes), (Unknown, Version{}, the source's error) when fewer than 23
       bytes exist, otherwise the results of the slice classifier on the 23 peeked bytes; the stream object is
       unchanged.  Stuck "call" exactly where binary_slice says Unmodelled.  Hypotheses: none.
   - go_IsSaltpackArmored: IsSaltpackArmored(stream) returns [isarm_spec]: with (buf, err) = Peek(Size()), the early
       return ("", Unknown, Version{}, err) when err is neither nil nor io.EOF or buf is empty, otherwise the results
       of the prefix classifier on buf; the stream object is unchanged.  Hypotheses: none.
   - go_ClassifyStream: ClassifyStream(stream) returns [cs_spec]: (true, brand, type, version, nil) when
       IsSaltpackArmored succeeds; (false, "", Unknown, Version{}, ErrShortSliceOrBuffer) when it says short; otherwise
       IsSaltpackBinary's answer, (false, "", type, version, nil) or (false, "", Unknown, Version{}, its error); the
       stream object is unchanged.  Hypotheses: none.
   - cs_spec_model: for a reader with a buffer (0 < size), some data, and a source that ends cleanly when it ends
       inside the buffer ([clean_end]), cs_spec is [cs_model]: the armored classifier on the first Size() bytes when
       positive, short when it says short, else (buffer < 23: short; fewer than 23 bytes: io.EOF) the binary classifier
       on the first 23 bytes, else not-saltpack.  Hypotheses: those three (they select the documented use; without
       them go_ClassifyStream still says what happens).
   - cs_sound_armored, cs_sound_binary: a positive answer of ClassifyStream is sound (armored_prefix_sound /
       binary_slice_sound of ClassifyProofs.v on the peeked bytes).  Hypothesis: 0 < size (see above: Size() = 0).
   - cs_armored_stable: the armored form (any brand) of a genuine message, through a buffer of ANY size > 0, is
       classified as exactly (armored, brand, mode, version) or as ErrShortSliceOrBuffer, never anything else.
       Hypotheses: those of ClassifyProofs.armored_prefix_stable_body (spec-following header, alphanumeric brand,
       message of at least 32 bytes), 0 < size, the stream is the text and ends with io.EOF.
   - cs_binary_stable: a genuine binary message through a buffer of at least 23 bytes is classified as exactly
       (binary, mode, version).  Hypotheses: spec-following header, 23 <= length, 23 <= size, ends with io.EOF.
   - go_ClassifyEncryptedStreamAndMakeDecoder: for ARBITRARY meanings of the four entry points the eight results
       are [ced_spec]: with stream = bufio.NewReader(source) and ClassifyStream's answer on it, (nil, Unknown, nil,
       nil, false, "", Version{}, ErrShortSliceOrBuffer) for short, the same with ErrNotASaltpackMessage for any other
       error; for type 0 the results (mki, plainsource, [brand,] err) of NewDearmor62DecryptStream(
       CheckKnownMajorVersion, stream, keyring) when armored, of NewDecryptStream(...) otherwise, placed as
       (plainsource, 0, mki, nil, isArmored, brand, version, err); for type 3 those of
       NewDearmor62SigncryptOpenStream / NewSigncryptOpenStream(stream, keyring, resolver) as (plainsource, 3, nil,
       senderPublic, isArmored, brand, version, err); ErrWrongMessageType{0, type} for any other type.  The stream
       handed to the entry point is the one ClassifyStream left: unchanged.  Stuck "call" where ClassifyStream or the
       entry point has no value.  Hypotheses: none.
   - ced_errors: the three error answers, read off [ced_spec].  Hypotheses: none.
   - ced_binary_encryption, ced_binary_signcryption, ced_armored_encryption, ced_armored_signcryption: with the
       entry points meaning what GoAstProofs7c.v proves, a stream classified as (binary|armored, encryption|
       signcryption) yields exactly the plaintext stream, MessageKeyInfo / sender key and error of the DIRECT entry
       point on the same bytes ([direct_enc], [direct_sc]: the model's open_stream / signcrypt_open_stream), plus
       isArmored, the brand and the version.  Hypotheses: the source ends with io.EOF (7c's readers cannot fail); for
       the armored ones the armor is well formed (dearmor = Ok dd; see LIMITS).
   - ced_genuine_binary_encryption, ced_genuine_binary_signcryption, ced_genuine_armored: stability composed with
       the dispatch: a genuine binary encryption / signcryption message (spec-following header, anything after it) read
       from any source gives exactly the results of the direct binary entry point on its bytes; its armored form (any
       brand) gives those results on the MESSAGE with isArmored and the brand, or ErrShortSliceOrBuffer (the disjunct
       ClassifyProofs.armored_prefix_stable_body leaves open: the buffer ends before the first block does; that a
       4096-byte buffer always reaches it for a brand of at most 128 characters is NOT proved here).  Hypotheses: those of cs_binary_stable /
       cs_armored_stable; the stream is the message and ends with io.EOF.
   - compose_IsSaltpackBinarySlice, compose_IsSaltpackArmored, compose_IsSaltpackBinary, compose_ClassifyStream: the
       meaning the externs of this file give to calls of tied functions IS the outcome of those functions.
       Hypotheses: none.

   NOT EXPRESSIBLE: nothing got stuck in the four functions of this file.  IsSaltpackArmoredPrefix itself (called by
   IsSaltpackArmored; gen/GoAstFrame.v) is not expressible in the evaluator ([]string slicing, regexp): it stays an
   extern with the model's meaning and is tied to /repo by the exhaustive correspondence campaign (C11/C16).

   LIMITS of what the statements say.  (1) A source is a finite byte string followed by an error value; a reader is
   described by what it will deliver, not by its buffer contents.  (2) The plaintext reader an entry point returns
   reads from the SAME *bufio.Reader object; the evaluator passes values, so this aliasing is not represented (nothing
   touches the stream after the call).  (3) The denotational meaning of the two armored constructors has a value
   only when the whole armor is well formed: the Go constructors read the header frame only and report later framing
   errors through the plaintext stream, which the one-shot dearmor cannot express; the main lemma does not depend on
   this (arbitrary meanings).  (4) versionValidator, keyring and resolver are opaque values. *)
From Coq Require Import List String NArith ZArith Bool Lia.
From Coq.Strings Require Import Byte.
From SP Require Import Bytes Consts Params Msgpack Crypto Errors Packets Verify Encrypt Decrypt Signcrypt BaseX Encodings Armor
                       ArmorProofs ClassifyProofs
                       GoLang GoLang2 GoAst GoAstProofs GoAstProofs3 GoAstProofs4b GoAstProofs7c GoAstEntry.
Import ListNotations.
Local Open Scope string_scope.

(* ---------- error values ---------- *)
(* an error value: class name and arguments; nil is None *)
Notation perr := (string * list gval)%type (only parsing).
Definition g_operr (e : option perr) : gval := match e with None => VNil | Some (n, a) => VErr n a end.
(* Go's e == X for a package-level error value X (a name without arguments), and e == nil *)
Definition is_err (n0 : string) (e : option perr) : bool :=
  match e with Some (n, []) => String.eqb n n0 | _ => false end.
Definition is_nil (e : option perr) : bool := match e with None => true | Some _ => false end.

(* ---------- the *bufio.Reader object and its documented contract (TRUSTED, see the header) ---------- *)
Record bufrd := mkBR {
  br_data : bytes;      (* the bytes the reader will still deliver *)
  br_err : perr;        (* the error that follows them (io.EOF: the source just ends) *)
  br_size : Z           (* Size(): the size of the buffer *)
}.
Definition g_bufrd (st : bufrd) : gval :=
  VStruct [("data", VBytes (br_data st)); ("err", VErr (fst (br_err st)) (snd (br_err st))); ("size", VInt (br_size st))].
Definition bufrd_of (v : gval) : option bufrd :=
  match v with
  | VStruct [("data", VBytes d); ("err", VErr n a); ("size", VInt s)] => Some (mkBR d (n, a) s)
  | _ => None
  end.

(* Peek(n): the bytes and the error; the reader is not changed *)
Definition peek (st : bufrd) (n : Z) : bytes * option perr :=
  if (n <? 0)%Z then ([], Some ("bufio.ErrNegativeCount", []))
  else if (br_size st <? n)%Z then (firstn (Z.to_nat (br_size st)) (br_data st), Some ("bufio.ErrBufferFull", []))
  else if (Z.of_nat (List.length (br_data st)) <? n)%Z then (br_data st, Some (br_err st))
  else (firstn (Z.to_nat n) (br_data st), None).

(* ---------- results ---------- *)
(* Version{}: as the literal the code writes, and as a named result never assigned *)
Definition g_vzero_lit : gval := VStruct [].
Definition g_vzero_var : gval := VNil.

Definition short_err : option perr := Some ("ErrShortSliceOrBuffer", []).
Definition notsp_err : option perr := Some ("ErrNotASaltpackMessage", []).

(* (msgType, version, err); (brand, msgType, version, err); (isArmored, brand, msgType, version, err) *)
Definition bin_res := (Z * gval * option perr)%type.
Definition arm_res := (bytes * Z * gval * option perr)%type.
Definition cs_res := (bool * bytes * Z * gval * option perr)%type.
Definition g_bin_res (r : bin_res) : list gval :=
  let '(t, v, e) := r in [VInt t; v; g_operr e].
Definition g_arm_res (r : arm_res) : list gval :=
  let '(b, t, v, e) := r in [VBytes b; VInt t; v; g_operr e].
Definition g_cs_res (r : cs_res) : list gval :=
  let '(a, b, t, v, e) := r in [VBool a; VBytes b; VInt t; v; g_operr e].

(* what IsSaltpackBinarySlice / IsSaltpackArmoredPrefix return for the model's classification (None: Unmodelled) *)
Definition cls_vals (c : classification) : option bin_res :=
  match c with
  | Cls t v => Some (t, g_version v, None)
  | ClsShort => Some ((-1)%Z, g_vzero_lit, short_err)
  | ClsNot => Some ((-1)%Z, g_vzero_lit, notsp_err)
  | ClsUnmod => None
  end.
Definition arm_vals (p : bytes * classification) : option arm_res :=
  match snd p with
  | Cls t v => Some (fst p, t, g_version v, None)
  | ClsShort => Some ([], (-1)%Z, g_vzero_lit, short_err)
  | ClsNot => Some ([], (-1)%Z, g_vzero_lit, notsp_err)
  | ClsUnmod => None
  end.

(* ---------- the specification functions (None: the evaluator is stuck at a call without value) ---------- *)
(* IsSaltpackBinary *)
Definition isbin_spec (st : bufrd) : option bin_res :=
  let (b, e) := peek st 23 in
  if is_err "bufio.ErrBufferFull" e then Some ((-1)%Z, g_vzero_lit, short_err)
  else if is_nil e then cls_vals (binary_slice b)
  else Some ((-1)%Z, g_vzero_lit, e).

(* IsSaltpackArmored *)
Definition isarm_spec (st : bufrd) : option arm_res :=
  let (buf, e) := peek st (br_size st) in
  if (negb (is_nil e) && negb (is_err "io.EOF" e)) || (Z.of_nat (List.length buf) =? 0)%Z
  then Some ([], (-1)%Z, g_vzero_var, e)
  else arm_vals (armored_prefix buf).

(* ClassifyStream *)
Definition cs_spec (st : bufrd) : option cs_res :=
  match isarm_spec st with
  | None => None
  | Some (brand, t, v, e) =>
    if is_nil e then Some (true, brand, t, v, e)
    else if is_err "ErrShortSliceOrBuffer" e then Some (false, [], (-1)%Z, g_vzero_lit, short_err)
    else match isbin_spec st with
         | None => None
         | Some (t', v', e') =>
           if is_nil e' then Some (false, [], t', v', e') else Some (false, [], (-1)%Z, g_vzero_lit, e')
         end
  end.

(* ---------- externs of the three classifiers ---------- *)
Definition ext_cls : externs := fun fn args =>
  if String.eqb fn "Reader.Peek" then
    match args with
    | [r; VInt n] => match bufrd_of r with
                     | Some st => match peek st n with (b, e) => Some [VBytes b; g_operr e] end
                     | None => None
                     end
    | _ => None
    end
  else if String.eqb fn "Reader.Size" then
    match args with
    | [r] => match bufrd_of r with Some st => Some [VInt (br_size st)] | None => None end
    | _ => None
    end
  else if String.eqb fn "IsSaltpackBinarySlice" then
    match args with
    | [VBytes b] => match cls_vals (binary_slice b) with Some r => Some (g_bin_res r) | None => None end
    | _ => None
    end
  else if String.eqb fn "IsSaltpackArmoredPrefix" then
    match args with
    | [VBytes s] => match arm_vals (armored_prefix s) with Some r => Some (g_arm_res r) | None => None end
    | _ => None
    end
  else if String.eqb fn "IsSaltpackArmored" then
    match args with
    | [r] => match bufrd_of r with
             | Some st => match isarm_spec st with
                          | Some (b, t, v, e) => Some [VBytes b; VInt t; v; g_operr e; g_bufrd st]
                          | None => None
                          end
             | None => None
             end
    | _ => None
    end
  else if String.eqb fn "IsSaltpackBinary" then
    match args with
    | [r] => match bufrd_of r with
             | Some st => match isbin_spec st with
                          | Some (t, v, e) => Some [VInt t; v; g_operr e; g_bufrd st]
                          | None => None
                          end
             | None => None
             end
    | _ => None
    end
  else None.

(* the outcome a specification function describes *)
Definition spec_out {A : Type} (enc : A -> list gval) (r : option A) : outcome :=
  match r with Some x => ORet (enc x) | None => OStuck "call" end.

(* ---------- stepping ---------- *)
Lemma veq_err8 (n : string) (a : list gval) (n0 : string) :
  val_eqb 8 (VErr n a) (VErr n0 []) = Some (is_err n0 (Some (n, a))).
Proof.
  cbn [val_eqb is_err]. destruct (String.eqb n n0); destruct a; reflexivity.
Qed.

(* copies of GoAstProofs7c's stepping tactics over this file's own evaluation strategy [ev_in8] (the model's
   classifiers, peek, the specification functions and val_eqb stay folded) *)
Ltac ev_in8 h :=
  eval cbv -[Z.eqb Z.ltb Z.leb Z.add Z.sub Z.mul Z.modulo Z.rem Z.quot Z.shiftr Z.shiftl Z.opp
             Z.land Z.lor Z.lxor Z.lnot Z.of_nat Z.of_N Z.to_nat Z.to_N List.length nth_error
             firstn skipn bytes_eqb' bytes_eqb Byte.to_N Byte.of_N N.mul N.ltb N.eqb N.add N.leb b2n n2b Nat.eqb
             N.div N.modulo nth app
             peek binary_slice armored_prefix cls_vals arm_vals isbin_spec isarm_spec cs_spec g_operr is_err is_nil
             g_version val_eqb
             range_loop2 exec2] in h.
Ltac ev_term8 X h :=
  lazymatch h with
  | X ?fn ?args => let h' := ev_in8 h in progress (change h with h'); cbv beta iota
  | _ =>
    let p := eval pattern X in h in
    lazymatch p with
    | ?g _ => let g' := ev_in8 g in
              let h' := eval cbv beta in (g' X) in
              progress (change h with h'); cbv beta iota
    end
  end.
Ltac norm_env8 h x f e ss k :=
  let e' := ev_in8 e in
  tryif constr_eq e e' then k e
  else (change h with (exec2 x (S f) e' ss); k e').
Ltac step8 X :=
  lazymatch goal with
  | |- ?G =>
    let L := lazymatch G with (?L = _ -> _) => L | ?L = _ => L | _ => G end in
    let h := head_scrut3 L in
    lazymatch h with
    | exec2 ?x (S ?f) ?e ?ss =>
      norm_env8 h x f e ss ltac:(fun e' => rew_exec27c x f e' ss); fix_lvars7c; cbv beta iota
    | _ => ev_term8 X h
    end
  end.
Ltac veq8 :=
  lazymatch goal with
  | |- ?G =>
    let L := lazymatch G with (?L = _ -> _) => L | ?L = _ => L | _ => G end in
    let h := head_scrut3 L in
    lazymatch h with
    | val_eqb _ (VErr ?n ?a) (VErr ?n0 []) =>
      first [is_var n; rewrite (veq_err8 n a n0) | let h' := eval cbv in h in change h with h']
    | val_eqb _ (VInt ?x) (VInt ?y) => change h with (Some (Z.eqb x y))
    | val_eqb _ _ _ => let h' := eval cbv in h in change h with h'
    end
  end; cbv beta iota.
Ltac gop8 :=
  lazymatch goal with
  | |- ?G =>
    let L := lazymatch G with (?L = _ -> _) => L | ?L = _ => L | _ => G end in
    let h := head_scrut3 L in
    lazymatch h with
    | g_operr (Some (?n, ?a)) => change h with (VErr n a)
    | g_operr None => change h with VNil
    end
  end; cbv beta iota.
Ltac steps8 X := repeat first [step8 X | use_head_hyp7c | veq8 | lits7c | gop8].
Ltac run_hyp8 X HR := revert HR; cbv beta iota; steps8 X; intros HR.

(* ================= IsSaltpackBinary, IsSaltpackArmored, ClassifyStream ================= *)
Ltac fin8 R := let HR := fresh "HR" in intros HR; subst R; split; [reflexivity|first [intros _; reflexivity | intros H; destruct H; reflexivity]].

(* (TARGET) *)
Lemma go_IsSaltpackBinary (st : bufrd) :
  let r := run_func2 ext_cls f_saltpack_IsSaltpackBinary [g_bufrd st] in
  fst r = spec_out g_bin_res (isbin_spec st) /\
  (isbin_spec st <> None -> lookup "stream" (snd r) = Some (g_bufrd st)).
Proof.
  destruct st as [d [en ea] sz]. cbv zeta.
  begin7c f_saltpack_IsSaltpackBinary R HR.
  unfold isbin_spec.
  revert HR; cbv beta iota; steps8 ext_cls.
  destruct (peek (mkBR d (en, ea) sz) 23) as [b e] eqn:Hp.
  destruct e as [[n a]|]; cbn [is_nil]; steps8 ext_cls.
  - destruct (is_err "bufio.ErrBufferFull" (Some (n, a))) eqn:H1; steps8 ext_cls; fin8 R.
  - cbn [is_err]. destruct (cls_vals (binary_slice b)) as [[[t v] e']|] eqn:Hc; steps8 ext_cls; fin8 R.
Qed.

(* (TARGET) *)
Lemma go_IsSaltpackArmored (st : bufrd) :
  let r := run_func2 ext_cls f_saltpack_IsSaltpackArmored [g_bufrd st] in
  fst r = spec_out g_arm_res (isarm_spec st) /\
  (isarm_spec st <> None -> lookup "stream" (snd r) = Some (g_bufrd st)).
Proof.
  destruct st as [d [en ea] sz]. cbv zeta.
  begin7c f_saltpack_IsSaltpackArmored R HR.
  unfold isarm_spec. cbn [br_size].
  revert HR; cbv beta iota; steps8 ext_cls.
  destruct (peek (mkBR d (en, ea) sz) sz) as [buf e] eqn:Hp.
  destruct e as [[n a]|]; cbn [is_nil negb andb orb]; steps8 ext_cls.
  - destruct (is_err "io.EOF" (Some (n, a))) eqn:H1; cbn [negb andb orb]; steps8 ext_cls; [|fin8 R].
    destruct (Z.of_nat (List.length buf) =? 0)%Z eqn:Hl; steps8 ext_cls; [fin8 R|].
    destruct (arm_vals (armored_prefix buf)) as [[[[br t] v] e']|] eqn:Hc; steps8 ext_cls; fin8 R.
  - cbn [is_err].
    destruct (Z.of_nat (List.length buf) =? 0)%Z eqn:Hl; steps8 ext_cls; [fin8 R|].
    destruct (arm_vals (armored_prefix buf)) as [[[[br t] v] e']|] eqn:Hc; steps8 ext_cls; fin8 R.
Qed.

(* (TARGET) *)
Lemma go_ClassifyStream (st : bufrd) :
  let r := run_func2 ext_cls f_saltpack_ClassifyStream [g_bufrd st] in
  fst r = spec_out g_cs_res (cs_spec st) /\
  (cs_spec st <> None -> lookup "stream" (snd r) = Some (g_bufrd st)).
Proof.
  destruct st as [d [en ea] sz]. cbv zeta.
  begin7c f_saltpack_ClassifyStream R HR.
  unfold cs_spec.
  revert HR; cbv beta iota; steps8 ext_cls.
  destruct (isarm_spec (mkBR d (en, ea) sz)) as [[[[br t] v] e]|] eqn:Ha; steps8 ext_cls; [|fin8 R].
  destruct e as [[n a]|]; cbn [is_nil]; steps8 ext_cls; [|fin8 R].
  destruct (is_err "ErrShortSliceOrBuffer" (Some (n, a))) eqn:H1; steps8 ext_cls; [fin8 R|].
  destruct (isbin_spec (mkBR d (en, ea) sz)) as [[[t' v'] e']|] eqn:Hb; steps8 ext_cls; [|fin8 R].
  destruct e' as [[n' a']|]; cbn [is_nil]; steps8 ext_cls; fin8 R.
Qed.

(* ================= ClassifyEncryptedStreamAndMakeDecoder ================= *)
(* an io.Reader: the bytes it will deliver, the error that follows them, and, when it is itself a
   *bufio.Reader, its buffer size *)
Definition g_src (d : bytes) (e : perr) (osz : option Z) : gval :=
  VStruct [("data", VBytes d); ("err", VErr (fst e) (snd e)); ("bufsize", match osz with Some n => VInt n | None => VNil end)].
Definition src_of (v : gval) : option (bytes * perr * option Z) :=
  match v with
  | VStruct [("data", VBytes d); ("err", VErr n a); ("bufsize", VInt s)] => Some (d, (n, a), Some s)
  | VStruct [("data", VBytes d); ("err", VErr n a); ("bufsize", VNil)] => Some (d, (n, a), None)
  | _ => None
  end.
(* bufio.NewReader(rd) = NewReaderSize(rd, 4096): rd itself when it is a *bufio.Reader of at least that size *)
Definition newreader_size (osz : option Z) : Z :=
  match osz with Some n => if (4096 <=? n)%Z then n else 4096%Z | None => 4096%Z end.
Definition new_reader (d : bytes) (e : perr) (osz : option Z) : bufrd := mkBR d e (newreader_size osz).

(* the function value CheckKnownMajorVersion *)
Definition ckmv : gval := Eval cbv in VBytes (list_byte_of_string "func:CheckKnownMajorVersion").

Ltac ev_in8 h ::=
  eval cbv -[Z.eqb Z.ltb Z.leb Z.add Z.sub Z.mul Z.modulo Z.rem Z.quot Z.shiftr Z.shiftl Z.opp
             Z.land Z.lor Z.lxor Z.lnot Z.of_nat Z.of_N Z.to_nat Z.to_N List.length nth_error
             firstn skipn bytes_eqb' bytes_eqb Byte.to_N Byte.of_N N.mul N.ltb N.eqb N.add N.leb b2n n2b Nat.eqb
             N.div N.modulo nth app
             peek binary_slice armored_prefix cls_vals arm_vals isbin_spec isarm_spec cs_spec g_operr is_err is_nil
             g_version val_eqb src_of g_src newreader_size
             range_loop2 exec2] in h.

Section Dispatch.
(* the four entry points, with ARBITRARY meanings: arguments -> results (None: the callee is stuck / panics) *)
Variable nds : gval -> gval -> gval -> option (gval * gval * gval).             (* NewDecryptStream(vv, r, ring) = (mki, plain, err) *)
Variable ndds : gval -> gval -> gval -> option (gval * gval * gval * gval).     (* NewDearmor62DecryptStream: (mki, plain, brand, err) *)
Variable nsos : gval -> gval -> gval -> option (gval * gval * gval).            (* NewSigncryptOpenStream(r, ring, resolver) = (sender, plain, err) *)
Variable ndsos : gval -> gval -> gval -> option (gval * gval * gval * gval).    (* NewDearmor62SigncryptOpenStream: (sender, plain, brand, err) *)

Definition ext_ced : externs := fun fn args =>
  if String.eqb fn "bufio.NewReader" then
    match args with
    | [s] => match src_of s with Some (d, e, osz) => Some [g_bufrd (new_reader d e osz)] | None => None end
    | _ => None
    end
  else if String.eqb fn "ClassifyStream" then
    match args with
    | [r] => match bufrd_of r with
             | Some st => match cs_spec st with
                          | Some (a, b, t, v, e) => Some [VBool a; VBytes b; VInt t; v; g_operr e; g_bufrd st]
                          | None => None
                          end
             | None => None
             end
    | _ => None
    end
  else if String.eqb fn "NewDecryptStream" then
    match args with
    | [vv; r; ring] => match nds vv r ring with Some (mk, ps, e) => Some [mk; ps; e] | None => None end
    | _ => None
    end
  else if String.eqb fn "NewDearmor62DecryptStream" then
    match args with
    | [vv; r; ring] => match ndds vv r ring with Some (mk, ps, br, e) => Some [mk; ps; br; e] | None => None end
    | _ => None
    end
  else if String.eqb fn "NewSigncryptOpenStream" then
    match args with
    | [r; ring; rv] => match nsos r ring rv with Some (sp, ps, e) => Some [sp; ps; e] | None => None end
    | _ => None
    end
  else if String.eqb fn "NewDearmor62SigncryptOpenStream" then
    match args with
    | [r; ring; rv] => match ndsos r ring rv with Some (sp, ps, br, e) => Some [sp; ps; br; e] | None => None end
    | _ => None
    end
  else None.

Definition ced_fail (e : gval) : list gval :=
  [VNil; VInt (-1); VNil; VNil; VBool false; VBytes []; g_vzero_lit; e].

Definition ced_spec (d : bytes) (e : perr) (osz : option Z) (RING RV : gval) : option (list gval) :=
  let st := new_reader d e osz in
  match cs_spec st with
  | None => None
  | Some (arm, _, t, v, err) =>
    if is_err "ErrShortSliceOrBuffer" err then Some (ced_fail (VErr "ErrShortSliceOrBuffer" []))
    else if negb (is_nil err) then Some (ced_fail (VErr "ErrNotASaltpackMessage" []))
    else if (t =? 0)%Z then
      if arm
      then match ndds ckmv (g_bufrd st) RING with
           | Some (mk, ps, br, e') => Some [ps; VInt t; mk; VNil; VBool true; br; v; e']
           | None => None
           end
      else match nds ckmv (g_bufrd st) RING with
           | Some (mk, ps, e') => Some [ps; VInt t; mk; VNil; VBool false; VBytes []; v; e']
           | None => None
           end
    else if (t =? 3)%Z then
      if arm
      then match ndsos (g_bufrd st) RING RV with
           | Some (sp, ps, br, e') => Some [ps; VInt t; VNil; sp; VBool true; br; v; e']
           | None => None
           end
      else match nsos (g_bufrd st) RING RV with
           | Some (sp, ps, e') => Some [ps; VInt t; VNil; sp; VBool false; VBytes []; v; e']
           | None => None
           end
    else Some (ced_fail (VErr "ErrWrongMessageType" [VInt 0; VInt t]))
  end.

(* (TARGET) *)
Lemma go_ClassifyEncryptedStreamAndMakeDecoder (d : bytes) (e : perr) (osz : option Z) (RING RV : gval) :
  fst (run_func2 ext_ced f_saltpack_ClassifyEncryptedStreamAndMakeDecoder [g_src d e osz; RING; RV])
  = spec_out (fun x => x) (ced_spec d e osz RING RV).
Proof.
  destruct e as [en ea].
  begin7c f_saltpack_ClassifyEncryptedStreamAndMakeDecoder R HR.
  unfold ced_spec, new_reader, ckmv, g_bufrd. cbn [br_data br_err br_size fst snd].
  assert (Hsrc : src_of (g_src d (en, ea) osz) = Some (d, (en, ea), osz)) by (destruct osz; reflexivity).
  revert HR; cbv beta iota; steps8 ext_ced.
  destruct (cs_spec (mkBR d (en, ea) (newreader_size osz))) as [[[[[arm b] t] v] err]|] eqn:Hcs.
  2:{ steps8 ext_ced. intros HR. subst R. reflexivity. }
  steps8 ext_ced.
  destruct err as [[n a]|]; cbn [is_nil negb].
  { steps8 ext_ced.
    destruct (is_err "ErrShortSliceOrBuffer" (Some (n, a))) eqn:H1;
      steps8 ext_ced; intros HR; subst R; reflexivity. }
  cbn [is_err]. steps8 ext_ced.
  destruct (t =? 0)%Z eqn:Ht0.
  { steps8 ext_ced. destruct arm; steps8 ext_ced.
    - destruct (ndds _ _ RING) as [[[[mk ps] br] e']|] eqn:Hn; steps8 ext_ced; intros HR; subst R; reflexivity.
    - destruct (nds _ _ RING) as [[[mk ps] e']|] eqn:Hn; steps8 ext_ced; intros HR; subst R; reflexivity. }
  steps8 ext_ced.
  destruct (t =? 3)%Z eqn:Ht3.
  { steps8 ext_ced. destruct arm; steps8 ext_ced.
    - destruct (ndsos _ RING RV) as [[[[sp ps] br] e']|] eqn:Hn; steps8 ext_ced; intros HR; subst R; reflexivity.
    - destruct (nsos _ RING RV) as [[[sp ps] e']|] eqn:Hn; steps8 ext_ced; intros HR; subst R; reflexivity. }
  steps8 ext_ced; intros HR; subst R; reflexivity.
Qed.
End Dispatch.

(* ================= what the specification functions say (model side) ================= *)
Definition eof_err : perr := ("io.EOF", []).
(* the source ends cleanly whenever it ends before the buffer is full *)
Definition clean_end (st : bufrd) : Prop :=
  (Z.of_nat (List.length (br_data st)) < br_size st)%Z -> br_err st = eof_err.

Lemma peek_enough (st : bufrd) (n : Z) :
  (0 <= n <= br_size st)%Z -> (n <= Z.of_nat (List.length (br_data st)))%Z ->
  peek st n = (firstn (Z.to_nat n) (br_data st), None).
Proof.
  intros H1 H2. unfold peek.
  destruct (Z.ltb_spec n 0); [lia|]. destruct (Z.ltb_spec (br_size st) n); [lia|].
  destruct (Z.ltb_spec (Z.of_nat (List.length (br_data st))) n); [lia|]. reflexivity.
Qed.
Lemma peek_ends (st : bufrd) (n : Z) :
  (0 <= n <= br_size st)%Z -> (Z.of_nat (List.length (br_data st)) < n)%Z ->
  peek st n = (br_data st, Some (br_err st)).
Proof.
  intros H1 H2. unfold peek.
  destruct (Z.ltb_spec n 0); [lia|]. destruct (Z.ltb_spec (br_size st) n); [lia|].
  destruct (Z.ltb_spec (Z.of_nat (List.length (br_data st))) n); [|lia]. reflexivity.
Qed.
Lemma peek_too_big (st : bufrd) (n : Z) :
  (0 <= n)%Z -> (br_size st < n)%Z ->
  peek st n = (firstn (Z.to_nat (br_size st)) (br_data st), Some ("bufio.ErrBufferFull", [])).
Proof.
  intros H1 H2. unfold peek.
  destruct (Z.ltb_spec n 0); [lia|]. destruct (Z.ltb_spec (br_size st) n); [|lia]. reflexivity.
Qed.

(* IsSaltpackBinary: ErrShortSliceOrBuffer for a buffer of fewer than 23 bytes; the source's error when it ends
   before 23 bytes; otherwise the slice classifier on the first 23 bytes *)
Lemma isbin_small_buffer (st : bufrd) :
  (br_size st < 23)%Z -> isbin_spec st = Some ((-1)%Z, g_vzero_lit, short_err).
Proof. intros H. unfold isbin_spec. rewrite peek_too_big by lia. reflexivity. Qed.
Lemma isbin_enough (st : bufrd) :
  (23 <= br_size st)%Z -> (23 <= List.length (br_data st))%nat ->
  isbin_spec st = cls_vals (binary_slice (firstn 23 (br_data st))).
Proof. intros H1 H2. unfold isbin_spec. rewrite peek_enough by lia. reflexivity. Qed.
Lemma isbin_ends (st : bufrd) :
  (23 <= br_size st)%Z -> (List.length (br_data st) < 23)%nat ->
  is_err "bufio.ErrBufferFull" (Some (br_err st)) = false ->
  isbin_spec st = Some ((-1)%Z, g_vzero_lit, Some (br_err st)).
Proof. intros H1 H2 H3. unfold isbin_spec. rewrite peek_ends by lia. rewrite H3. reflexivity. Qed.

(* IsSaltpackArmored: the prefix classifier on the first Size() bytes (all of them when the source ends
   cleanly before); a source that is empty or fails gives its error *)
Lemma isarm_reads (st : bufrd) :
  (0 < br_size st)%Z -> br_data st <> [] -> clean_end st ->
  isarm_spec st = arm_vals (armored_prefix (firstn (Z.to_nat (br_size st)) (br_data st))).
Proof.
  intros H1 H2 H3. unfold isarm_spec.
  destruct (Z.ltb_spec (Z.of_nat (List.length (br_data st))) (br_size st)) as [Hl|Hl].
  - rewrite peek_ends by lia. rewrite (H3 Hl). cbn [is_nil is_err negb andb orb String.eqb Ascii.eqb Bool.eqb].
    assert (Hn : List.length (br_data st) <> 0%nat) by (destruct (br_data st); [congruence|cbn; lia]).
    destruct (Z.eqb_spec (Z.of_nat (List.length (br_data st))) 0); [lia|].
    rewrite firstn_all2 by lia. reflexivity.
  - rewrite peek_enough by lia. cbn [is_nil negb andb orb].
    rewrite firstn_length. destruct (Z.eqb_spec (Z.of_nat (Nat.min (Z.to_nat (br_size st)) (List.length (br_data st)))) 0); [lia|].
    reflexivity.
Qed.
Lemma isarm_empty (st : bufrd) :
  (0 < br_size st)%Z -> br_data st = [] ->
  isarm_spec st = Some ([], (-1)%Z, g_vzero_var, Some (br_err st)).
Proof.
  intros H1 H2. unfold isarm_spec. rewrite peek_ends by (try rewrite H2; cbn; lia).
  rewrite H2. cbn [List.length Z.of_nat Z.eqb]. rewrite orb_true_r. reflexivity.
Qed.
Lemma isarm_fails (st : bufrd) :
  (Z.of_nat (List.length (br_data st)) < br_size st)%Z -> is_err "io.EOF" (Some (br_err st)) = false ->
  isarm_spec st = Some ([], (-1)%Z, g_vzero_var, Some (br_err st)).
Proof.
  intros H1 H2. unfold isarm_spec. rewrite peek_ends by lia. rewrite H2. reflexivity.
Qed.

(* ClassifyStream as the task words it: the armored classifier's answer when it is positive, "short" when it says
   short, otherwise the binary classifier's, otherwise not-saltpack (or the end of a source shorter than 23 bytes) *)
Definition cs_model (st : bufrd) : option cs_res :=
  match armored_prefix (firstn (Z.to_nat (br_size st)) (br_data st)) with
  | (brand, Cls t v) => Some (true, brand, t, g_version v, None)
  | (_, ClsShort) => Some (false, [], (-1)%Z, g_vzero_lit, short_err)
  | (_, ClsUnmod) => None
  | (_, ClsNot) =>
    if (br_size st <? 23)%Z then Some (false, [], (-1)%Z, g_vzero_lit, short_err)
    else if Nat.ltb (List.length (br_data st)) 23 then Some (false, [], (-1)%Z, g_vzero_lit, Some eof_err)
    else match binary_slice (firstn 23 (br_data st)) with
         | Cls t v => Some (false, [], t, g_version v, None)
         | ClsShort => Some (false, [], (-1)%Z, g_vzero_lit, short_err)
         | ClsNot => Some (false, [], (-1)%Z, g_vzero_lit, notsp_err)
         | ClsUnmod => None
         end
  end.

(* (TARGET) *)
Lemma cs_spec_model (st : bufrd) :
  (0 < br_size st)%Z -> br_data st <> [] -> clean_end st ->
  cs_spec st = cs_model st.
Proof.
  intros H1 H2 H3. unfold cs_spec, cs_model. rewrite (isarm_reads st H1 H2 H3).
  destruct (armored_prefix (firstn (Z.to_nat (br_size st)) (br_data st))) as [brand [| | |t v]]; cbn [arm_vals snd fst];
    try reflexivity.
  cbn [is_nil notsp_err is_err String.eqb Ascii.eqb Bool.eqb].
  destruct (Z.ltb_spec (br_size st) 23) as [Hs|Hs].
  { rewrite isbin_small_buffer by lia. reflexivity. }
  destruct (Nat.ltb_spec (List.length (br_data st)) 23) as [Hl|Hl].
  { rewrite isbin_ends; [| lia | lia | rewrite H3 by lia; reflexivity]. rewrite H3 by lia. reflexivity. }
  rewrite isbin_enough by lia.
  destruct (binary_slice (firstn 23 (br_data st))) as [| | |t v]; reflexivity.
Qed.

(* soundness of positive answers *)
Lemma cs_positive (st : bufrd) (arm : bool) (brand : bytes) (t : Z) (v : gval) :
  (0 < br_size st)%Z ->
  cs_spec st = Some (arm, brand, t, v, None) ->
  exists v', v = g_version v' /\
    if arm then armored_prefix (fst (peek st (br_size st))) = (brand, Cls t v')
    else brand = [] /\ binary_slice (fst (peek st 23)) = Cls t v'.
Proof.
  intros Hs. unfold cs_spec.
  destruct (isarm_spec st) as [[[[br ta] va] ea]|] eqn:Ha; [|discriminate].
  assert (Harm : ea = None -> exists v', va = g_version v' /\ armored_prefix (fst (peek st (br_size st))) = (br, Cls ta v')).
  { intros ->. revert Ha. unfold isarm_spec.
    destruct (peek st (br_size st)) as [buf e] eqn:Hp. cbn [fst].
    assert (He : e = None -> (Z.of_nat (List.length buf) =? 0)%Z = false).
    { intros ->. revert Hp. unfold peek.
      destruct (Z.ltb_spec (br_size st) 0); [discriminate|].
      destruct (Z.ltb_spec (br_size st) (br_size st)); [lia|].
      destruct (Z.ltb_spec (Z.of_nat (List.length (br_data st))) (br_size st)); [discriminate|].
      intros H'. injection H' as <-. rewrite firstn_length. lia. }
    destruct e as [pe|].
    - cbn [is_nil negb andb]. destruct (negb (is_err "io.EOF" (Some pe)) || (Z.of_nat (List.length buf) =? 0)%Z); [discriminate|].
      destruct (armored_prefix buf) as [b0 [| | |t0 v0]]; cbn [arm_vals snd fst]; try discriminate.
      intros H'. injection H' as <- <- <-. eauto.
    - rewrite (He eq_refl). cbn [is_nil negb andb orb].
      destruct (armored_prefix buf) as [b0 [| | |t0 v0]]; cbn [arm_vals snd fst]; try discriminate.
      intros H'. injection H' as <- <- <-. eauto. }
  destruct ea as [pe|]; cbn [is_nil].
  2:{ intros H'. injection H' as <- <- <- <-. exact (Harm eq_refl). }
  destruct (is_err "ErrShortSliceOrBuffer" (Some pe)); [discriminate|].
  unfold isbin_spec. destruct (peek st 23) as [b e] eqn:Hp. cbn [fst].
  destruct (is_err "bufio.ErrBufferFull" e); [discriminate|].
  destruct e as [pe'|]; cbn [is_nil]; [discriminate|].
  destruct (binary_slice b) as [| | |t0 v0]; cbn [cls_vals is_nil short_err notsp_err]; try discriminate.
  intros H'. injection H' as <- <- <- <-. eauto.
Qed.

(* ... composed with the soundness theorems of ClassifyProofs (C16) *)
(* (TARGET) *)
Lemma cs_sound_armored (st : bufrd) (brand : bytes) (t : Z) (v : gval) :
  (0 < br_size st)%Z ->
  cs_spec st = Some (true, brand, t, v, None) ->
  exists v' ty body,
    v = g_version v' /\
    match_header (normalise (fst (peek st (br_size st)))) = Some (brand, ty, body) /\
    ty = label_of t /\
    binary_slice (fst (BaseX.decode base62 body)) = Cls t v'.
Proof.
  intros Hs H. destruct (cs_positive st true brand t v Hs H) as (v' & -> & Ha).
  destruct (armored_prefix_sound _ _ _ _ Ha) as (ty & body & H1 & H2 & H3).
  exists v', ty, body. auto.
Qed.
(* (TARGET) *)
Lemma cs_sound_binary (st : bufrd) (brand : bytes) (t : Z) (v : gval) :
  (0 < br_size st)%Z ->
  cs_spec st = Some (false, brand, t, v, None) ->
  brand = [] /\ known_type t = true /\
  exists v' skip rest1 fv r1 vv r2 tv r3,
    v = g_version v' /\
    (skip = 3 \/ skip = 4 \/ skip = 5 \/ skip = 6 \/ skip = 7 \/ skip = 8 \/ skip = 10)%nat /\
    skipn skip (fst (peek st 23)) = rest1 /\
    mp_read rest1 = POk fv r1 /\ as_string fv = DOk format_name /\
    mp_read r1 = POk vv r2 /\ view_version vv = DOk v' /\
    mp_read r2 = POk tv r3 /\ as_int tv = DOk t.
Proof.
  intros Hs H. destruct (cs_positive st false brand t v Hs H) as (v' & -> & -> & Hb).
  destruct (binary_slice_sound _ _ _ Hb) as (Hk & _ & skip & rest1 & fv & r1 & vv & r2 & tv & r3 & H').
  split; [reflexivity|]. split; [exact Hk|].
  exists v', skip, rest1, fv, r1, vv, r2, tv, r3. split; [reflexivity|exact H'].
Qed.

(* prefix stability: a genuine armored message, read through a buffer of ANY size, is classified as itself or as
   "buffer too short" - never as something else *)
(* (TARGET) *)
Lemma cs_armored_stable (maj mi typ : Z) (fields : list mval) (rest brand : bytes) (size : Z) :
  spec_header_ok maj mi typ fields -> brand_ok brand ->
  let msg := spec_message maj mi typ fields rest in
  (32 <= List.length msg)%nat ->
  let text := armor62_seal msg (armor_type_of typ) brand in
  (0 < size)%Z ->
  cs_spec (mkBR text eof_err size) = Some (true, brand, typ, g_version (mkV maj mi), None) \/
  cs_spec (mkBR text eof_err size) = Some (false, [], (-1)%Z, g_vzero_lit, short_err).
Proof.
  intros Hok Hb msg Hmsg text Hs.
  assert (Hne : text <> []).
  { unfold text, armor62_seal, armor_seal. intros H. apply (f_equal (@List.length byte)) in H.
    rewrite !app_length in H. cbn [List.length] in H. lia. }
  rewrite cs_spec_model; [|exact Hs|exact Hne|intros _; reflexivity].
  unfold cs_model. cbn [br_size br_data].
  set (k := Z.to_nat size).
  set (hlen := List.length (make_frame header_marker (armor_type_of typ) brand)).
  destruct (Nat.ltb_spec hlen k) as [Hk|Hk].
  - pose proof (armored_prefix_stable_body maj mi typ fields rest brand k Hok Hb Hmsg Hk) as E.
    cbv zeta in E. fold msg in E. fold text in E.
    destruct E as [E|E]; rewrite E; [left|right]; reflexivity.
  - assert (Hkt : known_type typ = true) by (destruct Hok as (_ & _ & Hk' & _); exact Hk').
    pose proof (armored_prefix_stable_header typ msg brand k Hkt Hb Hk) as E.
    cbv zeta in E. fold text in E. rewrite E. right. reflexivity.
Qed.

(* a binary message starts with a bin tag, which is no frame character: the armored classifier says "not saltpack" *)
Lemma drop_while_app_keep (f : byte -> bool) (b : byte) : f b = false ->
  forall l, exists y, drop_while f (l ++ [b])%list = (y ++ [b])%list.
Proof.
  intros Hb. induction l as [|a l IH]; cbn [app drop_while].
  - rewrite Hb. exists []. reflexivity.
  - destruct (f a); [exact IH|]. exists (a :: l). reflexivity.
Qed.
Lemma trim_space_head (b : byte) (t : bytes) : is_trim_ws b = false -> exists t', trim_space (b :: t) = b :: t'.
Proof.
  intros Hb. unfold trim_space. cbn [drop_while]. rewrite Hb. cbn [rev].
  destruct (drop_while_app_keep is_trim_ws b Hb (rev t)) as [y Hy]. rewrite Hy.
  rewrite rev_app_distr. cbn [rev app]. eauto.
Qed.
Lemma normalise_head (b : byte) (t : bytes) :
  is_frame_ws b = false -> is_trim_ws b = false -> exists t', normalise (b :: t) = b :: t'.
Proof. intros H1 H2. unfold normalise. cbn [collapse_ws]. rewrite H1. apply trim_space_head. exact H2. Qed.
Lemma bin_tag_classes (b : byte) : (b2n b = 196 \/ b2n b = 197 \/ b2n b = 198)%N ->
  is_frame_ws b = false /\ is_trim_ws b = false /\ is_alnum b = false /\ Byte.eqb x42 b = false.
Proof.
  destruct b; intros H;
    first [ repeat split; reflexivity
          | exfalso; vm_compute in H; destruct H as [H|[H|H]]; discriminate H ].
Qed.
Lemma armored_prefix_bin_tag (b : byte) (t : bytes) : (b2n b = 196 \/ b2n b = 197 \/ b2n b = 198)%N ->
  armored_prefix (b :: t) = ([], ClsNot).
Proof.
  intros H. destruct (bin_tag_classes b H) as (H1 & H2 & H3 & H4).
  unfold armored_prefix. destruct (normalise_head b t H1 H2) as [t' ->].
  assert (Hm : match_header (b :: t') = None).
  { unfold match_header, header_marker.
    change (c_saltpack_headerMarker ++ [sp])%list with (x42 :: (tl c_saltpack_headerMarker ++ [sp]))%list.
    cbn [strip_prefix]. rewrite H4. reflexivity. }
  rewrite Hm. cbn [partial_words_ok span]. rewrite H3. reflexivity.
Qed.

(* prefix stability, binary: a genuine binary message, read through any buffer of at least 23 bytes, is classified
   as exactly its mode and version *)
(* (TARGET) *)
Lemma cs_binary_stable (maj mi typ : Z) (fields : list mval) (rest : bytes) (size : Z) :
  spec_header_ok maj mi typ fields ->
  let msg := spec_message maj mi typ fields rest in
  (23 <= List.length msg)%nat -> (23 <= size)%Z ->
  cs_spec (mkBR msg eof_err size) = Some (false, [], typ, g_version (mkV maj mi), None).
Proof.
  intros Hok msg Hmsg Hs.
  assert (Hne : msg <> []) by (intros H; rewrite H in Hmsg; cbn in Hmsg; lia).
  rewrite cs_spec_model; [|cbn [br_size]; lia|exact Hne|intros _; reflexivity].
  unfold cs_model. cbn [br_size br_data].
  pose proof (binary_prefix_stable maj mi typ fields rest 23 Hok Hmsg) as Hb. fold msg in Hb.
  change (Nat.ltb 23 23) with false in Hb. cbv beta iota in Hb.
  destruct (spec_message_shape maj mi typ fields rest) as (b0 & Br & a0 & Ar & tail & E & HB & HA).
  fold msg in E.
  assert (Ha : armored_prefix (firstn (Z.to_nat size) msg) = ([], ClsNot)).
  { rewrite E. destruct (Z.to_nat size) as [|k] eqn:Ek; [lia|].
    cbn [app firstn]. apply armored_prefix_bin_tag. unfold bin_tag_ok in HB. tauto. }
  rewrite Ha.
  destruct (Z.ltb_spec size 23); [lia|]. destruct (Nat.ltb_spec (List.length msg) 23); [lia|].
  rewrite Hb. reflexivity.
Qed.

(* ================= the externs standing for tied functions mean what the ties prove ================= *)
Lemma bufrd_of_g (st : bufrd) : bufrd_of (g_bufrd st) = Some st.
Proof. destruct st as [d [n a] sz]. reflexivity. Qed.

(* IsSaltpackBinarySlice inside IsSaltpackBinary: the results the extern gives classify as the translated slice
   classifier's (go_IsSaltpackBinarySlice, GoAstProofs.v); it has no value exactly where the model says Unmodelled *)
(* (TARGET) *)
Lemma compose_IsSaltpackBinarySlice (b : bytes) :
  match ext_cls "IsSaltpackBinarySlice" [VBytes b] with
  | Some rs => g_classification (ORet rs) = g_classification (run_func ext_decode f_saltpack_IsSaltpackBinarySlice [VBytes b])
  | None => binary_slice b = ClsUnmod
  end.
Proof.
  rewrite go_IsSaltpackBinarySlice. unfold ext_cls. cbn [String.eqb Ascii.eqb Bool.eqb].
  destruct (binary_slice b) as [| | |t [ma mi]]; reflexivity.
Qed.

(* IsSaltpackArmored / IsSaltpackBinary inside ClassifyStream: the extern returns the results of the translated
   function followed by the reader it leaves *)
(* (TARGET) *)
Lemma compose_IsSaltpackArmored (st : bufrd) :
  let r := run_func2 ext_cls f_saltpack_IsSaltpackArmored [g_bufrd st] in
  ext_cls "IsSaltpackArmored" [g_bufrd st] =
  match fst r, lookup "stream" (snd r) with ORet rs, Some s => Some (rs ++ [s])%list | _, _ => None end.
Proof.
  destruct (go_IsSaltpackArmored st) as [H1 H2]. cbv zeta in *. rewrite H1.
  destruct (isarm_spec st) as [[[[b t] v] e]|] eqn:E; cbn [spec_out].
  - rewrite H2 by congruence.
    unfold ext_cls. cbn [String.eqb Ascii.eqb Bool.eqb]. rewrite bufrd_of_g, E. reflexivity.
  - unfold ext_cls. cbn [String.eqb Ascii.eqb Bool.eqb]. rewrite bufrd_of_g, E. reflexivity.
Qed.
(* (TARGET) *)
Lemma compose_IsSaltpackBinary (st : bufrd) :
  let r := run_func2 ext_cls f_saltpack_IsSaltpackBinary [g_bufrd st] in
  ext_cls "IsSaltpackBinary" [g_bufrd st] =
  match fst r, lookup "stream" (snd r) with ORet rs, Some s => Some (rs ++ [s])%list | _, _ => None end.
Proof.
  destruct (go_IsSaltpackBinary st) as [H1 H2]. cbv zeta in *. rewrite H1.
  destruct (isbin_spec st) as [[[t v] e]|] eqn:E; cbn [spec_out].
  - rewrite H2 by congruence.
    unfold ext_cls. cbn [String.eqb Ascii.eqb Bool.eqb]. rewrite bufrd_of_g, E. reflexivity.
  - unfold ext_cls. cbn [String.eqb Ascii.eqb Bool.eqb]. rewrite bufrd_of_g, E. reflexivity.
Qed.
(* ClassifyStream inside ClassifyEncryptedStreamAndMakeDecoder, whatever the four entry points mean *)
(* (TARGET) *)
Lemma compose_ClassifyStream nds ndds nsos ndsos (st : bufrd) :
  let r := run_func2 ext_cls f_saltpack_ClassifyStream [g_bufrd st] in
  ext_ced nds ndds nsos ndsos "ClassifyStream" [g_bufrd st] =
  match fst r, lookup "stream" (snd r) with ORet rs, Some s => Some (rs ++ [s])%list | _, _ => None end.
Proof.
  destruct (go_ClassifyStream st) as [H1 H2]. cbv zeta in *. rewrite H1.
  destruct (cs_spec st) as [[[[[a b] t] v] e]|] eqn:E; cbn [spec_out].
  - rewrite H2 by congruence.
    unfold ext_ced. cbn [String.eqb Ascii.eqb Bool.eqb]. rewrite bufrd_of_g, E. reflexivity.
  - unfold ext_ced. cbn [String.eqb Ascii.eqb Bool.eqb]. rewrite bufrd_of_g, E. reflexivity.
Qed.

(* ================= ClassifyEncryptedStreamAndMakeDecoder: the errors, whatever the entry points mean ================= *)
(* (TARGET) *)
Lemma ced_errors nds ndds nsos ndsos (d : bytes) (e : perr) (osz : option Z) (RING RV : gval)
      (arm : bool) (b : bytes) (t : Z) (v : gval) (err : option perr) :
  cs_spec (new_reader d e osz) = Some (arm, b, t, v, err) ->
  (is_err "ErrShortSliceOrBuffer" err = true ->
   ced_spec nds ndds nsos ndsos d e osz RING RV = Some (ced_fail (VErr "ErrShortSliceOrBuffer" []))) /\
  (err <> None -> is_err "ErrShortSliceOrBuffer" err = false ->
   ced_spec nds ndds nsos ndsos d e osz RING RV = Some (ced_fail (VErr "ErrNotASaltpackMessage" []))) /\
  (err = None -> t <> 0%Z -> t <> 3%Z ->
   ced_spec nds ndds nsos ndsos d e osz RING RV = Some (ced_fail (VErr "ErrWrongMessageType" [VInt 0; VInt t]))).
Proof.
  intros H. unfold ced_spec. cbv zeta. rewrite H. repeat split.
  - intros ->. reflexivity.
  - intros Hn ->. destruct err; [reflexivity|congruence].
  - intros -> H0 H3. cbn [is_err is_nil negb].
    destruct (Z.eqb_spec t 0); [congruence|]. destruct (Z.eqb_spec t 3); [congruence|]. reflexivity.
Qed.

(* ================= the entry points with the meaning GoAstProofs7c.v proves ================= *)
Section Model.
Variable c : crypto.
Variable pm : bytes -> gval.
Variable vd : validator.
Variable kr : keyring.
Variable signers : sigring.
Variable rv : resolver.

Definition tri3 (l : option (list gval)) : option (gval * gval * gval) :=
  match l with Some [x; y; z] => Some (x, y, z) | _ => None end.
(* the bytes a *bufio.Reader over a source that ends with io.EOF will deliver (7c's readers cannot fail) *)
Definition rd_input (r : gval) : option bytes :=
  match bufrd_of r with
  | Some st => if is_err "io.EOF" (Some (br_err st)) then Some (br_data st) else None
  | None => None
  end.
(* NewDecryptStream / NewSigncryptOpenStream: GoAstProofs7c.ext_open / ext_scopen over those bytes *)
Definition nds_m (vv r ring : gval) : option (gval * gval * gval) :=
  match rd_input r with
  | Some input => tri3 (ext_open c pm vd kr "NewDecryptStream" [vv; VBytes input; ring])
  | None => None
  end.
Definition nsos_m (r ring rvv : gval) : option (gval * gval * gval) :=
  match rd_input r with
  | Some input => tri3 (ext_scopen c kr signers rv "NewSigncryptOpenStream" [VBytes input; ring; rvv])
  | None => None
  end.
(* NewDearmor62*Stream, denotationally: the binary entry point over the payload of the model's dearmor, and the
   brand; no value when dearmor fails (see the header: LIMITS) *)
Definition dearmored_entry (bin : bytes -> option (gval * gval * gval)) (r : gval) : option (gval * gval * gval * gval) :=
  match rd_input r with
  | Some txt =>
    match dearmor (Some mt_encryption) txt with
    | Ok dd =>
      match bin (da_payload dd) with
      | Some (x, ps, VNil) => Some (x, ps, VBytes (da_brand dd), VNil)
      | Some (x, ps, e) => Some (x, VNil, VBytes [], e)
      | None => None
      end
    | Err _ => None
    end
  | None => None
  end.
Definition ndds_m (vv r ring : gval) : option (gval * gval * gval * gval) :=
  dearmored_entry (fun p => tri3 (ext_open c pm vd kr "NewDecryptStream" [vv; VBytes p; ring])) r.
Definition ndsos_m (r ring rvv : gval) : option (gval * gval * gval * gval) :=
  dearmored_entry (fun p => tri3 (ext_scopen c kr signers rv "NewSigncryptOpenStream" [VBytes p; ring; rvv])) r.

Definition ext_ced_m : externs := ext_ced nds_m ndds_m nsos_m ndsos_m.

Lemma rd_input_eof (st : bufrd) : br_err st = eof_err -> rd_input (g_bufrd st) = Some (br_data st).
Proof. intros H. unfold rd_input. rewrite bufrd_of_g, H. reflexivity. Qed.

(* what the direct binary entry points return on the bytes [input], in the positions of
   ClassifyEncryptedStreamAndMakeDecoder's results *)
Definition direct_enc (input : bytes) (arm : bool) (brand : gval) (v : gval) : outcome :=
  match open_stream c vd kr input with
  | Ok (m, out) =>
    match dec_header_key c kr input with
    | Some k => ORet [g_stream out; VInt 0; g_mki m k; VNil; VBool arm; brand; v; VNil]
    | None => OStuck "call"
    end
  | Err e =>
    match g_herr e with
    | Some ev => ORet [VNil; VInt 0; pm input; VNil; VBool arm; VBytes []; v; ev]
    | None => OStuck "call"
    end
  end.
Definition direct_sc (input : bytes) (arm : bool) (brand : gval) (v : gval) : outcome :=
  match signcrypt_open_stream c kr signers rv input with
  | Ok (signer, out) => ORet [g_stream out; VInt 3; VNil; GoAstProofs7c.g_signer signer; VBool arm; brand; v; VNil]
  | Err e =>
    match g_herr e with
    | Some ev => ORet [VNil; VInt 3; VNil; VNil; VBool arm; VBytes []; v; ev]
    | None => OStuck "call"
    end
  end.

(* binary encryption message detected: the results of NewDecryptStream over the same bytes *)
(* (TARGET) *)
Lemma ced_binary_encryption (d : bytes) (osz : option Z) (RING RV : gval) (b : bytes) (v : gval) :
  cs_spec (new_reader d eof_err osz) = Some (false, b, 0%Z, v, None) ->
  fst (run_func2 ext_ced_m f_saltpack_ClassifyEncryptedStreamAndMakeDecoder [g_src d eof_err osz; RING; RV])
  = direct_enc d false (VBytes []) v.
Proof.
  intros H. unfold ext_ced_m. rewrite go_ClassifyEncryptedStreamAndMakeDecoder.
  unfold ced_spec. cbv zeta. rewrite H. cbn [is_err is_nil negb Z.eqb].
  unfold nds_m. rewrite rd_input_eof by reflexivity. cbn [new_reader br_data].
  unfold ext_open, direct_enc. cbn [String.eqb Ascii.eqb Bool.eqb rdr_bytes].
  destruct (open_stream c vd kr d) as [[m out]|e].
  - destruct (dec_header_key c kr d) as [k|]; reflexivity.
  - destruct (g_herr e) as [ev|]; reflexivity.
Qed.
(* binary signcryption message detected: the results of NewSigncryptOpenStream over the same bytes *)
(* (TARGET) *)
Lemma ced_binary_signcryption (d : bytes) (osz : option Z) (RING RV : gval) (b : bytes) (v : gval) :
  cs_spec (new_reader d eof_err osz) = Some (false, b, 3%Z, v, None) ->
  fst (run_func2 ext_ced_m f_saltpack_ClassifyEncryptedStreamAndMakeDecoder [g_src d eof_err osz; RING; RV])
  = direct_sc d false (VBytes []) v.
Proof.
  intros H. unfold ext_ced_m. rewrite go_ClassifyEncryptedStreamAndMakeDecoder.
  unfold ced_spec. cbv zeta. rewrite H. cbn [is_err is_nil negb Z.eqb Pos.eqb].
  unfold nsos_m. rewrite rd_input_eof by reflexivity. cbn [new_reader br_data].
  unfold ext_scopen, direct_sc. cbn [String.eqb Ascii.eqb Bool.eqb rdr_bytes].
  destruct (signcrypt_open_stream c kr signers rv d) as [[s out]|e].
  - reflexivity.
  - destruct (g_herr e) as [ev|]; reflexivity.
Qed.
(* armored messages (well-formed armor): the results of the binary entry point over the dearmored payload,
   and the brand of the frame (on an error of the binary entry point: no stream, no brand, as the code says) *)
(* (TARGET) *)
Lemma ced_armored_encryption (d : bytes) (osz : option Z) (RING RV : gval) (b : bytes) (v : gval) (dd : dearmored) :
  cs_spec (new_reader d eof_err osz) = Some (true, b, 0%Z, v, None) ->
  dearmor (Some mt_encryption) d = Ok dd ->
  fst (run_func2 ext_ced_m f_saltpack_ClassifyEncryptedStreamAndMakeDecoder [g_src d eof_err osz; RING; RV])
  = direct_enc (da_payload dd) true (VBytes (da_brand dd)) v.
Proof.
  intros H Hd. unfold ext_ced_m. rewrite go_ClassifyEncryptedStreamAndMakeDecoder.
  unfold ced_spec. cbv zeta. rewrite H. cbn [is_err is_nil negb Z.eqb].
  unfold ndds_m, dearmored_entry. rewrite rd_input_eof by reflexivity. cbn [new_reader br_data]. rewrite Hd.
  unfold ext_open, direct_enc. cbn [String.eqb Ascii.eqb Bool.eqb rdr_bytes].
  destruct (open_stream c vd kr (da_payload dd)) as [[m out]|e].
  - destruct (dec_header_key c kr (da_payload dd)) as [k|]; reflexivity.
  - destruct (g_herr e) as [ev|] eqn:Hg; [|reflexivity].
    destruct (g_herr_verr _ _ Hg) as (nm & ->). reflexivity.
Qed.
(* (TARGET) *)
Lemma ced_armored_signcryption (d : bytes) (osz : option Z) (RING RV : gval) (b : bytes) (v : gval) (dd : dearmored) :
  cs_spec (new_reader d eof_err osz) = Some (true, b, 3%Z, v, None) ->
  dearmor (Some mt_encryption) d = Ok dd ->
  fst (run_func2 ext_ced_m f_saltpack_ClassifyEncryptedStreamAndMakeDecoder [g_src d eof_err osz; RING; RV])
  = direct_sc (da_payload dd) true (VBytes (da_brand dd)) v.
Proof.
  intros H Hd. unfold ext_ced_m. rewrite go_ClassifyEncryptedStreamAndMakeDecoder.
  unfold ced_spec. cbv zeta. rewrite H. cbn [is_err is_nil negb Z.eqb Pos.eqb].
  unfold ndsos_m, dearmored_entry. rewrite rd_input_eof by reflexivity. cbn [new_reader br_data]. rewrite Hd.
  unfold ext_scopen, direct_sc. cbn [String.eqb Ascii.eqb Bool.eqb rdr_bytes].
  destruct (signcrypt_open_stream c kr signers rv (da_payload dd)) as [[s out]|e].
  - reflexivity.
  - destruct (g_herr e) as [ev|] eqn:Hg; [|reflexivity].
    destruct (g_herr_verr _ _ Hg) as (nm & ->). reflexivity.
Qed.
(* ----- genuine messages: stability of the classification composed with the dispatch ----- *)
Lemma newreader_size_ge (osz : option Z) : (4096 <= newreader_size osz)%Z.
Proof. unfold newreader_size. destruct osz as [n|]; [destruct (Z.leb_spec 4096 n)|]; lia. Qed.

(* a genuine binary encryption / signcryption message (any spec-following header, anything after it) through
   ClassifyEncryptedStreamAndMakeDecoder: exactly the results of the direct binary entry point on those bytes *)
(* (TARGET) *)
Lemma ced_genuine_binary_encryption (maj mi : Z) (fields : list mval) (rest : bytes) (osz : option Z) (RING RV : gval) :
  spec_header_ok maj mi 0 fields ->
  let msg := spec_message maj mi 0 fields rest in
  (23 <= List.length msg)%nat ->
  fst (run_func2 ext_ced_m f_saltpack_ClassifyEncryptedStreamAndMakeDecoder [g_src msg eof_err osz; RING; RV])
  = direct_enc msg false (VBytes []) (g_version (mkV maj mi)).
Proof.
  intros Hok msg Hlen. apply (ced_binary_encryption msg osz RING RV []).
  unfold new_reader. apply (cs_binary_stable maj mi 0 fields rest _ Hok Hlen).
  pose proof (newreader_size_ge osz). lia.
Qed.
(* (TARGET) *)
Lemma ced_genuine_binary_signcryption (maj mi : Z) (fields : list mval) (rest : bytes) (osz : option Z) (RING RV : gval) :
  spec_header_ok maj mi 3 fields ->
  let msg := spec_message maj mi 3 fields rest in
  (23 <= List.length msg)%nat ->
  fst (run_func2 ext_ced_m f_saltpack_ClassifyEncryptedStreamAndMakeDecoder [g_src msg eof_err osz; RING; RV])
  = direct_sc msg false (VBytes []) (g_version (mkV maj mi)).
Proof.
  intros Hok msg Hlen. apply (ced_binary_signcryption msg osz RING RV []).
  unfold new_reader. apply (cs_binary_stable maj mi 3 fields rest _ Hok Hlen).
  pose proof (newreader_size_ge osz). lia.
Qed.
(* the armored form (any brand) of such a message: the results of the direct binary entry point on the MESSAGE, armored,
   with the brand - or ErrShortSliceOrBuffer when the buffer does not reach the end of the first block *)
(* (TARGET) *)
Lemma ced_genuine_armored (maj mi typ : Z) (fields : list mval) (rest brand : bytes) (osz : option Z) (RING RV : gval) :
  typ = 0%Z \/ typ = 3%Z ->
  spec_header_ok maj mi typ fields -> brand_ok brand ->
  let msg := spec_message maj mi typ fields rest in
  (32 <= List.length msg)%nat ->
  let text := armor62_seal msg mt_encryption brand in
  let r := fst (run_func2 ext_ced_m f_saltpack_ClassifyEncryptedStreamAndMakeDecoder [g_src text eof_err osz; RING; RV]) in
  r = (if (typ =? 0)%Z then direct_enc msg true (VBytes brand) (g_version (mkV maj mi))
       else direct_sc msg true (VBytes brand) (g_version (mkV maj mi))) \/
  r = ORet (ced_fail (VErr "ErrShortSliceOrBuffer" [])).
Proof.
  intros Ht Hok Hb msg Hlen text r.
  assert (Hat : armor_type_of typ = mt_encryption) by (destruct Ht as [-> | ->]; reflexivity).
  assert (Hd : dearmor (Some mt_encryption) text
               = Ok (mkDearmored msg brand (make_frame header_marker mt_encryption brand) (make_frame footer_marker mt_encryption brand))).
  { apply dearmor_armor; [left; reflexivity|exact Hb]. }
  pose proof (newreader_size_ge osz) as Hsz.
  destruct (cs_armored_stable maj mi typ fields rest brand (newreader_size osz) Hok Hb Hlen ltac:(lia)) as [E|E];
    rewrite Hat in E; fold msg in E; fold text in E.
  - left. unfold r. destruct Ht as [-> | ->]; cbn [Z.eqb Pos.eqb].
    + rewrite (ced_armored_encryption text osz RING RV brand _ _ E Hd). reflexivity.
    + rewrite (ced_armored_signcryption text osz RING RV brand _ _ E Hd). reflexivity.
  - right. unfold r, ext_ced_m. rewrite go_ClassifyEncryptedStreamAndMakeDecoder.
    destruct (ced_errors nds_m ndds_m nsos_m ndsos_m text eof_err osz RING RV _ _ _ _ _ E) as (H1 & _).
    rewrite (H1 eq_refl). reflexivity.
Qed.
End Model.

(* ================= the statements evaluated on concrete inputs (computed; non-vacuity) ================= *)
From SP Require Import ToyCrypto.
Definition t_msg : bytes := spec_message 2 0 0 [MBin (zeros 32); MArr []] [x01; x02].
Definition t_sig : bytes := spec_message 2 0 1 [MBin (zeros 32); MArr []] [x01; x02].
Definition t_txt : bytes := armor62_seal t_msg (armor_type_of 0) [x4b; x42].
Definition t_boom : perr := ("boom", [VInt 3]).
Definition t_holds {A : Type} (enc : A -> list gval) (r : outcome * env) (s : option A) (st : bufrd) : Prop :=
  fst r = spec_out enc s /\ lookup "stream" (snd r) = Some (g_bufrd st).

Example ex_IsSaltpackBinary :
  let run st := t_holds g_bin_res (run_func2 ext_cls f_saltpack_IsSaltpackBinary [g_bufrd st]) (isbin_spec st) st in
  run (mkBR t_msg eof_err 4096) /\ isbin_spec (mkBR t_msg eof_err 4096) = Some (0%Z, g_version (mkV 2 0), None) /\
  run (mkBR t_msg eof_err 16) /\ isbin_spec (mkBR t_msg eof_err 16) = Some ((-1)%Z, g_vzero_lit, short_err) /\
  run (mkBR (firstn 10 t_msg) eof_err 4096) /\ isbin_spec (mkBR (firstn 10 t_msg) eof_err 4096) = Some ((-1)%Z, g_vzero_lit, Some eof_err) /\
  run (mkBR (firstn 10 t_msg) t_boom 4096) /\ run (mkBR t_txt eof_err 4096) /\
  isbin_spec (mkBR t_txt eof_err 4096) = Some ((-1)%Z, g_vzero_lit, notsp_err).
Proof. vm_compute. repeat split. Qed.

Example ex_IsSaltpackArmored :
  let run st := t_holds g_arm_res (run_func2 ext_cls f_saltpack_IsSaltpackArmored [g_bufrd st]) (isarm_spec st) st in
  run (mkBR t_txt eof_err 4096) /\ isarm_spec (mkBR t_txt eof_err 4096) = Some ([x4b; x42], 0%Z, g_version (mkV 2 0), None) /\
  run (mkBR t_txt eof_err 40) /\ isarm_spec (mkBR t_txt eof_err 40) = Some ([], (-1)%Z, g_vzero_lit, short_err) /\
  run (mkBR [] eof_err 40) /\ isarm_spec (mkBR [] eof_err 40) = Some ([], (-1)%Z, g_vzero_var, Some eof_err) /\
  run (mkBR t_txt t_boom 4096) /\ isarm_spec (mkBR t_txt t_boom 4096) = Some ([], (-1)%Z, g_vzero_var, Some t_boom) /\
  run (mkBR t_txt t_boom 100) /\ isarm_spec (mkBR t_txt t_boom 100) = Some ([x4b; x42], 0%Z, g_version (mkV 2 0), None) /\
  run (mkBR t_msg eof_err 4096) /\ isarm_spec (mkBR t_msg eof_err 4096) = Some ([], (-1)%Z, g_vzero_lit, notsp_err).
Proof. vm_compute. repeat split. Qed.

Example ex_ClassifyStream :
  let run st := t_holds g_cs_res (run_func2 ext_cls f_saltpack_ClassifyStream [g_bufrd st]) (cs_spec st) st in
  run (mkBR t_txt eof_err 4096) /\ cs_spec (mkBR t_txt eof_err 4096) = Some (true, [x4b; x42], 0%Z, g_version (mkV 2 0), None) /\
  run (mkBR t_msg eof_err 4096) /\ cs_spec (mkBR t_msg eof_err 4096) = Some (false, [], 0%Z, g_version (mkV 2 0), None) /\
  run (mkBR t_txt eof_err 40) /\ cs_spec (mkBR t_txt eof_err 40) = Some (false, [], (-1)%Z, g_vzero_lit, short_err) /\
  run (mkBR t_msg eof_err 16) /\ cs_spec (mkBR t_msg eof_err 16) = Some (false, [], (-1)%Z, g_vzero_lit, short_err) /\
  run (mkBR [x41; x2e; x42] eof_err 40) /\ cs_spec (mkBR [x41; x2e; x42] eof_err 40) = Some (false, [], (-1)%Z, g_vzero_lit, Some eof_err) /\
  run (mkBR (x2e :: t_msg) t_boom 4096) /\ cs_spec (mkBR (x2e :: t_msg) t_boom 4096) = Some (false, [], (-1)%Z, g_vzero_lit, notsp_err) /\
  run (mkBR t_msg t_boom 4096) /\ cs_spec (mkBR t_msg t_boom 4096) = Some (false, [], 0%Z, g_version (mkV 2 0), None).
Proof. vm_compute. repeat split. Qed.

(* the dispatch with marker values for the four entry points *)
Example ex_ClassifyEncrypted_dispatch :
  let nds := fun vv r ring : gval => Some (VInt 11, VInt 12, VNil) in
  let ndds := fun vv r ring : gval => Some (VInt 21, VInt 22, VBytes [x4b], VNil) in
  let nsos := fun r ring rvv : gval => Some (VInt 31, VInt 32, VErr "ErrNoDecryptionKey" []) in
  let ndsos := fun r ring rvv : gval => Some (VInt 41, VInt 42, VBytes [x4b], VNil) in
  let run d := fst (run_func2 (ext_ced nds ndds nsos ndsos) f_saltpack_ClassifyEncryptedStreamAndMakeDecoder
                              [g_src d eof_err None; VInt 7; VInt 8]) in
  let spec d := spec_out (fun x => x) (ced_spec nds ndds nsos ndsos d eof_err None (VInt 7) (VInt 8)) in
  let sc := spec_message 2 0 3 [MBin (zeros 32); MArr []] [] in
  run t_msg = spec t_msg /\
  run t_msg = ORet [VInt 12; VInt 0; VInt 11; VNil; VBool false; VBytes []; g_version (mkV 2 0); VNil] /\
  run t_txt = spec t_txt /\
  run t_txt = ORet [VInt 22; VInt 0; VInt 21; VNil; VBool true; VBytes [x4b]; g_version (mkV 2 0); VNil] /\
  run sc = spec sc /\
  run sc = ORet [VInt 32; VInt 3; VNil; VInt 31; VBool false; VBytes []; g_version (mkV 2 0); VErr "ErrNoDecryptionKey" []] /\
  run (armor62_seal sc 0 []) = spec (armor62_seal sc 0 []) /\
  run (armor62_seal sc 0 []) = ORet [VInt 42; VInt 3; VNil; VInt 41; VBool true; VBytes [x4b]; g_version (mkV 2 0); VNil] /\
  run t_sig = spec t_sig /\
  run t_sig = ORet (ced_fail (VErr "ErrWrongMessageType" [VInt 0; VInt 1])) /\
  run (firstn 30 t_txt) = spec (firstn 30 t_txt) /\
  run (firstn 30 t_txt) = ORet (ced_fail (VErr "ErrShortSliceOrBuffer" [])) /\
  run [x41; x2e; x42] = spec [x41; x2e; x42] /\
  run [x41; x2e; x42] = ORet (ced_fail (VErr "ErrNotASaltpackMessage" [])).
Proof. vm_compute. repeat split. Qed.

(* a genuine toy message through the entry points with the meaning of GoAstProofs7c.v: the plaintext stream and the
   MessageKeyInfo of the direct entry point, binary and armored *)
Definition t_sk : bytes := repeat x22 32.
Definition t_ssk : bytes := repeat x33 32.
Definition t_rnd : bytes := (repeat x44 32 ++ repeat x55 32 ++ repeat x66 40)%list.
Definition t_wire : bytes :=
  match seal_stream toy_crypto v2 (Some t_ssk) [(dh_pub toy_crypto t_sk, false)] [[x68; x69]; [x21]] t_rnd with
  | Ok (w, _) => w | Err _ => [] end.
Definition t_ring : keyring := mkRing [(t_sk, dh_pub toy_crypto t_sk)] None.
Example ex_ClassifyEncrypted_model :
  let X := ext_ced_m toy_crypto (fun _ => VNil) AnyKnownMajor t_ring [] None in
  let run d := fst (run_func2 X f_saltpack_ClassifyEncryptedStreamAndMakeDecoder [g_src d eof_err None; VNil; VNil]) in
  let atxt := armor62_seal t_wire 0 [x4b] in
  match run t_wire with
  | ORet [ps; VInt 0; VStruct _; VNil; VBool false; VBytes []; v; VNil] =>
    ps = g_stream (mkOut [[x68; x69; x21]] EOF) /\ v = g_version v2
  | _ => False
  end /\
  run t_wire = direct_enc toy_crypto (fun _ => VNil) AnyKnownMajor t_ring t_wire false (VBytes []) (g_version v2) /\
  match run atxt with
  | ORet [ps; VInt 0; VStruct _; VNil; VBool true; VBytes [x4b]; v; VNil] =>
    ps = g_stream (mkOut [[x68; x69; x21]] EOF) /\ v = g_version v2
  | _ => False
  end /\
  (* no key for it: the error of the direct entry point *)
  fst (run_func2 (ext_ced_m toy_crypto (fun _ => VNil) AnyKnownMajor (mkRing [] None) [] None)
                 f_saltpack_ClassifyEncryptedStreamAndMakeDecoder [g_src t_wire eof_err None; VNil; VNil])
  = ORet [VNil; VInt 0; VNil; VNil; VBool false; VBytes []; g_version v2; VErr "ErrNoDecryptionKey" []].
Proof. vm_compute. repeat split. Qed.
