(* RandFailSource.v — property C18 ("fail closed when randomness fails") at the level of the Go source.
   The constructors of the four sending streams of /repo, as translated on this run from the Go syntax trees
   (gen/GoAstSend.v, gen/GoAstSign.v), return the error value ErrRand and hand NOTHING to the output writer when the
   randomness any of their draws needs is missing (the source runs short or fails: read_full / shuffle = None,
   model/Rand.v), whichever draw it is, for every crypto record, every writer, every argument.
   Corollaries of the source ties go_encryptStream_init (GoAstProofs5a.v), go_signcryptSealStream_init
   (GoAstProofs6b.v), go_newSignAttachedStream and go_newSignDetachedStream (GoAstProofs6a.v).
   TARGETS: go_encrypt_init_fail_closed, go_signcrypt_init_fail_closed, go_sign_attached_new_fail_closed,
   go_sign_detached_new_fail_closed (no hypothesis beyond "the earlier argument checks passed" and "a draw fails");
   es_init_draws / sss_init_draws: on success the three draws are what shuffle / read_full 32 / read_full 32 deliver
   from the three sources and the sources are left advanced past exactly the bytes used. *)
From Coq Require Import List String NArith ZArith Bool Lia.
From Coq.Strings Require Import Byte.
From SP Require Import Bytes Consts Params Msgpack Crypto Errors Nonce Packets Chunker Rand Sign Encrypt Signcrypt
                       GoLang GoLang2 GoAst GoAstSend GoAstSign GoAstProofs GoAstProofs2 GoAstProofs3.
From SP Require GoAstProofs5a GoAstProofs6a GoAstProofs6b.
Import ListNotations.
Local Open Scope string_scope.

(* ---------- encryption: encryptStream.init ---------- *)
Module Enc.
Import GoAstProofs5a.
Section S.
Variable c : crypto.
Variable enc_step : gval -> bytes -> gval * gerr.

Definition draw_fails (rcpts : list rcpt) (ra rb rc : rng) : Prop :=
  shuffle rcpts ra = None \/ read_full 32 rb = None \/ read_full 32 rc = None.

Lemma es_init_fail_closed (st : es_state) (v : version) (sender : option bytes) (rcpts : list rcpt) (ra rb rc : rng) :
  known_version v = true -> check_rcv_err rcpts = None ->
  (Z.of_nat (List.length rcpts) <= 2147483647)%Z ->
  draw_fails rcpts ra rb rc ->
  exists ra' rb' rc', es_init c enc_step st v sender rcpts ra rb rc = IRet (Some ("ErrRand", [])) st ra' rb' rc'.
Proof.
  intros Hk Hc Hl Hd. unfold es_init. rewrite Hk, Hc. cbn [negb].
  replace (2147483647 <? Z.of_nat (List.length rcpts))%Z with false by lia.
  destruct (shuffle rcpts ra) as [[rs ra']|] eqn:Es; [|(do 3 eexists); reflexivity].
  destruct (read_full 32 rb) as [[e rb']|] eqn:Eb; [|(do 3 eexists); reflexivity].
  destruct (read_full 32 rc) as [[k rc']|] eqn:Ec; [|(do 3 eexists); reflexivity].
  destruct Hd as [H|[H|H]]; congruence.
Qed.

(* (TARGET) *)
Theorem go_encrypt_init_fail_closed (st : es_state) (v : version) (sender : option bytes) (rcpts : list rcpt) (ra rb rc : rng) :
  known_version v = true -> check_rcv_err rcpts = None ->
  (Z.of_nat (List.length rcpts) <= 2147483647)%Z ->
  draw_fails rcpts ra rb rc ->
  let r := run_func2 (ext_init c enc_step) f_saltpack_encryptStream_init
                     [g_es st; g_version v; g_sender sender; VList (map g_rcpt rcpts); VBytes rb; g_rng ra rc] in
  fst r = ORet [VErr "ErrRand" []] /\ lookup "es" (snd r) = Some (g_es st).
Proof.
  intros Hk Hc Hl Hd. cbv zeta.
  pose proof (go_encryptStream_init c enc_step st v sender rcpts ra rb rc) as G. cbv zeta in G.
  destruct (es_init_fail_closed st v sender rcpts ra rb rc Hk Hc Hl Hd) as (ra' & rb' & rc' & E).
  rewrite E in G. destruct G as (G1 & G2 & _). split; [exact G1|exact G2].
Qed.

(* on success: which bytes were drawn, and from where *)
(* (TARGET) *)
Lemma es_init_draws (st st' : es_state) (v : version) (sender : option bytes) (rcpts : list rcpt)
      (ra rb rc ra' rb' rc' : rng) :
  es_init c enc_step st v sender rcpts ra rb rc = IRet None st' ra' rb' rc' ->
  exists rs eph_sk,
    shuffle rcpts ra = Some (rs, ra') /\
    read_full 32 rb = Some (eph_sk, rb') /\
    read_full 32 rc = Some (es_pk st', rc').
Proof.
  unfold es_init. destruct (known_version v); cbn [negb]; [|discriminate].
  destruct (check_rcv_err rcpts); [discriminate|].
  destruct (2147483647 <? Z.of_nat (List.length rcpts))%Z; [discriminate|].
  destruct (shuffle rcpts ra) as [[rs ra1]|]; [|discriminate].
  destruct (read_full 32 rb) as [[e rb1]|]; [|discriminate].
  destruct (read_full 32 rc) as [[k rc1]|]; [|discriminate].
  cbv zeta. destruct (snd (enc_step _ _)); [discriminate|].
  intros H. injection H as <- <- <- <-. exists rs, e. cbn [es_pk]. repeat split; reflexivity.
Qed.
End S.
End Enc.

(* ---------- signcryption: signcryptSealStream.init ---------- *)
Module Sc.
Import GoAstProofs6b.
Section S.
Variable c : crypto.
Variable enc_step : gval -> bytes -> gval * gerr.

Definition draw_fails (boxes : list bytes) (syms : list (bytes * bytes)) (ra rk rb : bytes) : Prop :=
  shuffle (all_rcpts boxes syms) ra = None \/ read_full 32 rb = None \/ read_full 32 rk = None.

Lemma sss_init_fail_closed (st : sss_state) (boxes : list bytes) (syms : list (bytes * bytes)) (ra rk rb : bytes) :
  sc_check_receivers boxes syms = Ok tt ->
  draw_fails boxes syms ra rk rb ->
  exists ra' rk' rb', sss_init c enc_step st boxes syms ra rk rb = IRet rand_gerr st ra' rk' rb'.
Proof.
  intros Hc Hd. unfold sss_init. rewrite Hc.
  destruct (shuffle (all_rcpts boxes syms) ra) as [[rs ra1]|] eqn:Es; [|(do 3 eexists); reflexivity].
  destruct (read_full 32 rb) as [[e rb1]|] eqn:Eb; [|(do 3 eexists); reflexivity].
  destruct (read_full 32 rk) as [[k rk1]|] eqn:Ek; [|(do 3 eexists); reflexivity].
  destruct Hd as [H|[H|H]]; congruence.
Qed.

(* (TARGET) *)
Theorem go_signcrypt_init_fail_closed (st : sss_state) (boxes : list bytes) (syms : list (bytes * bytes)) (ra rk rb : bytes) :
  sc_check_receivers boxes syms = Ok tt ->
  draw_fails boxes syms ra rk rb ->
  let r := run_func2 (ext_init c enc_step) f_saltpack_signcryptSealStream_init
             [g_sss st; VList (map VBytes boxes); VList (map g_sym syms); VBytes rb; g_rng ra rk] in
  fst r = ORet [VErr "ErrRand" []] /\ lookup "sss" (snd r) = Some (g_sss st).
Proof.
  intros Hc Hd. cbv zeta.
  pose proof (go_signcryptSealStream_init c enc_step st boxes syms ra rk rb) as G. cbv zeta in G.
  destruct (sss_init_fail_closed st boxes syms ra rk rb Hc Hd) as (ra' & rk' & rb' & E).
  rewrite E in G. destruct G as (G1 & G2 & _). split; [exact G1|exact G2].
Qed.
End S.
End Sc.

(* ---------- signing: newSignAttachedStream / newSignDetachedStream ---------- *)
Module Sig.
Import GoAstProofs6a.
Section S.
Variable c : crypto.
Variable enc_step : gval -> bytes -> gval * gerr.

(* (TARGET) *)
Theorem go_sign_attached_new_fail_closed (v : version) (w : gval) (sk : bytes) (r : rng) :
  known_version v = true -> read_full 16 r = None ->
  fst (run_func2 (ext_new c enc_step r) f_saltpack_newSignAttachedStream [g_version v; w; g_signer (Some sk)])
  = ORet [VNil; VErr "ErrRand" []].
Proof.
  intros Hk Hr. rewrite (go_newSignAttachedStream c enc_step v w (Some sk) r).
  unfold sas_new. rewrite Hk, Hr. reflexivity.
Qed.

(* (TARGET) *)
Theorem go_sign_detached_new_fail_closed (v : version) (w : gval) (sk : bytes) (r : rng) :
  known_version v = true -> read_full 16 r = None ->
  fst (run_func2 (ext_new c enc_step r) f_saltpack_newSignDetachedStream [g_version v; w; g_signer (Some sk)])
  = ORet [VNil; VErr "ErrRand" []].
Proof.
  intros Hk Hr. rewrite (go_newSignDetachedStream c enc_step v w (Some sk) r).
  unfold sds_new. rewrite Hk, Hr. reflexivity.
Qed.
End S.
End Sig.
