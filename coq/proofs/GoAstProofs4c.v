(* GoAstProofs4c.v -- source ties for saltpack's own reader adaptors (/repo/chunk_reader.go,
   /repo/punctuated_reader.go): the method bodies as translated on this run from the Go syntax
   trees (gen/GoAst.v), run by the extended evaluator of model/GoLang2.v on ENCODED receiver
   objects, compute exactly what the state machines of model/Streams.v compute: returned count,
   returned error AND the state left in the receiver object, for every state, every caller
   buffer (the empty one included) and every underlying source.

   TARGETS
   - go_chunkReader_Read (and go_chunkReader_Read_300, the same at the fixed fuel of run_func2):
       chunkReader.Read(p) on the encoding [g_cr st] of a state st = (prevChunk, sticky error,
       pending (chunk, error) results of the chunker) returns (len out, e) and leaves [g_cr st'] in
       the receiver, where ((out, e), st') = cr_read _ (len p) st []; when cr_read reports the
       panic of Read itself ("empty chunk and nil error", Panic 12; an exhausted chunker is read
       as returning (nil, nil), Panic 11) the Go code panics.  [cr_go_panics] tells these two
       outcomes apart from a Panic-class error that the chunker itself delivered.
       The call r.chunker.getNextChunk() is the extern that pops the first pending result and
       writes the shortened list back into r.chunker; copy returns min(len dst, len src).
       Hypotheses: (1) 10 <= F, and (2) length (cr_pending st) < F, where S F is the fuel of the
       evaluator: each turn of the `for` loop that does not return pops one pending result, and the
       evaluator gives a loop as many turns as it has fuel.  They are bounds on the EVALUATOR, not
       on the Go code (no hypothesis on st, p or the chunks).  The _300 form has 299 for F.
       The model's own fuel only has to exceed the number of pending results (cr_read_fuel); the
       statement uses the value cr_drain uses.
       LIMIT OF THE SEMANTICS: the bytes that copy(p[n:], r.prevChunk) writes into the caller's
       buffer are not observable in the evaluator: the destination is a slice EXPRESSION, which
       GoLang2.expr_lval does not treat as a place, so an extern cannot write it back.  The lemma
       therefore ties the COUNT (= length of the model's output), the error and the receiver
       state (prevChunk loses exactly the copied prefix); "p" itself is shown unchanged.
   - go_punctuatedReader_Read:
       punctuatedReader.Read(out) on the encoding [g_pr z1 z2 buf st] returns
       (len d, nil | ErrPunctuated | e) for pr_read (len out) st = (PrData d | PrPunct d | PrErr d e, st'),
       leaves an encoding of st' in the receiver, and leaves in the caller's buffer (same length)
       the bytes d at the front.  p.r.Read(out) is the extern given by src_read on the decoded
       source, writing the source and the buffer back; copy and bytes.Index have their library
       meaning (bytes.Index for an arbitrary separator; the punctuation field holds the model's dot).
       z1/z2 say whether an empty nextSegment / thisSegment is represented by nil (as after
       newPunctuatedReader, or after `p.nextSegment = nil`) or by an empty slice: the statement
       holds for both representations and says that some representation of st' results, so it
       composes with itself.
       Hypothesis: pr_this st = [] -> pr_this_punct st = false (errThisSegment is ErrPunctuated
       only while thisSegment is non-empty).  It is a fact established by earlier code on every
       path: it holds of pr_init and is kept by every Read (pr_punct_wf_init, pr_punct_wf_read
       below; it is a conjunct of StreamProofs.pr_inv).  The model normalises the flag in states
       that violate it; the Go code would keep the stale ErrPunctuated.

   ReadUntilPunctuation: see GoAstProofs4d.v (the translator now desugars the `fallthrough`). *)
From Coq Require Import List String NArith ZArith Bool Lia.
From Coq.Strings Require Import Byte.
From SP Require Import Bytes Consts Params Errors Armor Streams StreamProofs GoLang GoLang2 GoAst GoAstProofs GoAstProofs2 GoAstProofs3.
From SP Require Import GoAstStreams.
Import ListNotations.
Local Open Scope string_scope.

(* ---------- the evaluator at an arbitrary fuel ---------- *)
Definition run_func2_at (F : nat) (ext : externs) (fn : gfunc) (args : list gval) : outcome * env :=
  match bind_params (f_params fn) args with
  | None => (OStuck "arity", [])
  | Some e0 =>
    let e := (e0 ++ map (fun r => (fst r, zero_of (snd r))) (f_results fn))%list in
    match exec2 ext F e (f_body fn) with
    | CRet vs e' => (ORet vs, e')
    | CPanic => (OPanic, [])
    | CStuck w => (OStuck w, [])
    | CBrk e' | CCont e' => (OStuck "break/continue outside a loop", e')
    | CNorm e' =>
      match (fix rs (l : list (string * string)) : option (list gval) :=
               match l with
               | [] => Some []
               | r :: t => match lookup (fst r) e', rs t with Some v, Some vs => Some (v :: vs) | _, _ => None end
               end) (f_results fn) with
      | Some vs => (ORet vs, e')
      | None => (OStuck "fell off the end", e')
      end
    end
  end.
Lemma run_func2_at_300 ext fn args : run_func2 ext fn args = run_func2_at 300 ext fn args.
Proof. reflexivity. Qed.

(* the for loop of the extended evaluator as a function of its own fuel *)
Definition for_loop2 (ext : externs) (f : nat) (c : gexpr) (body rest : list gstmt) : nat -> env -> ctl :=
  fix loop (n : nat) (e1 : env) : ctl :=
    match n with
    | O => CStuck "loop fuel"
    | S n' =>
      match eval ext 64 e1 c with
      | Some (VBool true) =>
        match exec2 ext f e1 body with
        | CNorm e2 | CCont e2 => loop n' e2
        | CBrk e2 => exec2 ext f e2 rest
        | other => other
        end
      | Some (VBool false) => exec2 ext f e1 rest
      | _ => CStuck "for"
      end
    end.
Lemma exec2_for (ext : externs) (f : nat) (e : env) c body rest :
  exec2 ext (S f) e (SFor c body :: rest) = for_loop2 ext f c body rest f e.
Proof. reflexivity. Qed.
Lemma for_loop2_S (ext : externs) (f : nat) c body rest n e1 :
  for_loop2 ext f c body rest (S n) e1 =
    match eval ext 64 e1 c with
    | Some (VBool true) =>
      match exec2 ext f e1 body with
      | CNorm e2 | CCont e2 => for_loop2 ext f c body rest n e2
      | CBrk e2 => exec2 ext f e2 rest
      | other => other
      end
    | Some (VBool false) => exec2 ext f e1 rest
    | _ => CStuck "for"
    end.
Proof. reflexivity. Qed.

(* ---------- errors as Go values ---------- *)
Definition err_name (e : err) : string :=
  match e with
  | EOF => "io.EOF"
  | ErrUnexpectedEOF => "io.ErrUnexpectedEOF"
  | ErrFailedToReadHeaderBytes => "ErrFailedToReadHeaderBytes"
  | ErrDecode => "ErrDecode"
  | ErrBadVersion => "ErrBadVersion"
  | ErrWrongMessageType => "ErrWrongMessageType"
  | ErrNotASaltpackMessage => "ErrNotASaltpackMessage"
  | ErrNoSenderKey => "ErrNoSenderKey"
  | ErrNoDecryptionKey => "ErrNoDecryptionKey"
  | ErrBadEphemeralKey => "ErrBadEphemeralKey"
  | ErrBadSenderKeySecretbox => "ErrBadSenderKeySecretbox"
  | ErrBadBoxKey => "ErrBadBoxKey"
  | ErrBadSymmetricKey => "ErrBadSymmetricKey"
  | ErrBadTag _ => "ErrBadTag"
  | ErrBadCiphertext _ => "ErrBadCiphertext"
  | ErrBadSignature => "ErrBadSignature"
  | ErrTrailingGarbage => "ErrTrailingGarbage"
  | ErrUnexpectedEmptyBlock => "ErrUnexpectedEmptyBlock"
  | ErrPacketOverflow => "ErrPacketOverflow"
  | ErrDecryptionFailed => "ErrDecryptionFailed"
  | ErrBadLookup => "ErrBadLookup"
  | ErrWrongNumberOfKeys => "ErrWrongNumberOfKeys"
  | ErrBadReceivers => "ErrBadReceivers"
  | ErrRepeatedKey => "ErrRepeatedKey"
  | ErrInvalidParameter => "ErrInvalidParameter"
  | ErrRand => "ErrRand"
  | ErrBadFrame => "ErrBadFrame"
  | ErrOverflow => "ErrOverflow"
  | ErrBxCorrupt _ => "basex.CorruptInputError"
  | ErrBxLength => "basex.ErrInvalidEncodingLength"
  | ErrIO => "ErrIO"
  | ErrPunctuated => "ErrPunctuated"
  | Unmodelled => "Unmodelled"
  | Panic _ => "Panic"
  end.
Definition err_args (e : err) : list gval :=
  match e with
  | ErrBadTag s => [VInt (Z.of_N s)]
  | ErrBadCiphertext s => [VInt (Z.of_N s)]
  | ErrBxCorrupt o => [VInt (Z.of_N o)]
  | Panic s => [VInt (Z.of_N s)]
  | _ => []
  end.
Definition g_err (e : err) : gval := VErr (err_name e) (err_args e).
Definition g_err_opt (e : option err) : gval := match e with Some e' => g_err e' | None => VNil end.

Definition err_of_g (v : gval) : option err :=
  match v with
  | VErr n [] =>
    if String.eqb n "io.EOF" then Some EOF
    else if String.eqb n "io.ErrUnexpectedEOF" then Some ErrUnexpectedEOF
    else if String.eqb n "ErrFailedToReadHeaderBytes" then Some ErrFailedToReadHeaderBytes
    else if String.eqb n "ErrDecode" then Some ErrDecode
    else if String.eqb n "ErrBadVersion" then Some ErrBadVersion
    else if String.eqb n "ErrWrongMessageType" then Some ErrWrongMessageType
    else if String.eqb n "ErrNotASaltpackMessage" then Some ErrNotASaltpackMessage
    else if String.eqb n "ErrNoSenderKey" then Some ErrNoSenderKey
    else if String.eqb n "ErrNoDecryptionKey" then Some ErrNoDecryptionKey
    else if String.eqb n "ErrBadEphemeralKey" then Some ErrBadEphemeralKey
    else if String.eqb n "ErrBadSenderKeySecretbox" then Some ErrBadSenderKeySecretbox
    else if String.eqb n "ErrBadBoxKey" then Some ErrBadBoxKey
    else if String.eqb n "ErrBadSymmetricKey" then Some ErrBadSymmetricKey
    else if String.eqb n "ErrBadSignature" then Some ErrBadSignature
    else if String.eqb n "ErrTrailingGarbage" then Some ErrTrailingGarbage
    else if String.eqb n "ErrUnexpectedEmptyBlock" then Some ErrUnexpectedEmptyBlock
    else if String.eqb n "ErrPacketOverflow" then Some ErrPacketOverflow
    else if String.eqb n "ErrDecryptionFailed" then Some ErrDecryptionFailed
    else if String.eqb n "ErrBadLookup" then Some ErrBadLookup
    else if String.eqb n "ErrWrongNumberOfKeys" then Some ErrWrongNumberOfKeys
    else if String.eqb n "ErrBadReceivers" then Some ErrBadReceivers
    else if String.eqb n "ErrRepeatedKey" then Some ErrRepeatedKey
    else if String.eqb n "ErrInvalidParameter" then Some ErrInvalidParameter
    else if String.eqb n "ErrRand" then Some ErrRand
    else if String.eqb n "ErrBadFrame" then Some ErrBadFrame
    else if String.eqb n "ErrOverflow" then Some ErrOverflow
    else if String.eqb n "basex.ErrInvalidEncodingLength" then Some ErrBxLength
    else if String.eqb n "ErrIO" then Some ErrIO
    else if String.eqb n "ErrPunctuated" then Some ErrPunctuated
    else if String.eqb n "Unmodelled" then Some Unmodelled
    else None
  | VErr n [VInt z] =>
    if Z.ltb z 0 then None
    else if String.eqb n "ErrBadTag" then Some (ErrBadTag (Z.to_N z))
    else if String.eqb n "ErrBadCiphertext" then Some (ErrBadCiphertext (Z.to_N z))
    else if String.eqb n "basex.CorruptInputError" then Some (ErrBxCorrupt (Z.to_N z))
    else if String.eqb n "Panic" then Some (Panic (Z.to_N z))
    else None
  | _ => None
  end.
Definition err_opt_of_g (v : gval) : option (option err) :=
  match v with
  | VNil => Some None
  | _ => match err_of_g v with Some e => Some (Some e) | None => None end
  end.

Lemma N_ltb0 (n : N) : (Z.of_N n <? 0)%Z = false. Proof. lia. Qed.
Lemma err_of_g_err (e : err) : err_of_g (g_err e) = Some e.
Proof. destruct e; cbn [g_err err_name err_args err_of_g]; rewrite ?N_ltb0, ?N2Z.id; reflexivity. Qed.
Lemma err_opt_of_g_err (e : option err) : err_opt_of_g (g_err_opt e) = Some e.
Proof.
  destruct e as [e|]; [|reflexivity]. unfold err_opt_of_g, g_err_opt.
  rewrite err_of_g_err. destruct e; reflexivity.
Qed.
(* hence the encoding of errors is injective *)
Lemma g_err_opt_inj (a b : option err) : g_err_opt a = g_err_opt b -> a = b.
Proof. intros H. apply (f_equal err_opt_of_g) in H. rewrite !err_opt_of_g_err in H. congruence. Qed.
Lemma g_err_not_nil (e : err) : val_eqb 8 (g_err e) VNil = Some false.
Proof. destruct e; reflexivity. Qed.

(* ================= chunkReader.Read ================= *)
(* the receiver object: the fields of chunkReader, the chunker being the list of its pending results *)
Definition g_chunk (r : bytes * option err) : gval := VList [VBytes (fst r); g_err_opt (snd r)].
Definition g_cr (st : cr_state) : gval :=
  VStruct [("chunker", VList (map g_chunk (cr_pending st)));
           ("prevChunk", VBytes (cr_prev st));
           ("prevErr", g_err_opt (cr_err st))].

(* copy(p[n:], r.prevChunk): the number of bytes copied (the destination is not a place of the
   evaluator, see the head of the file); r.chunker.getNextChunk(): the chunker is the list of its
   pending results, the call pops the first one and writes the rest back into r.chunker; an
   exhausted chunker answers (nil, nil) *)
Definition ext_cr : externs := fun fn args =>
  if String.eqb fn "copy" then
    match args with
    | [VBytes dst; VBytes src] => Some [VInt (Z.of_nat (Nat.min (List.length dst) (List.length src)))]
    | _ => None
    end
  else if String.eqb fn "chunker.getNextChunk" then
    match args with
    | [VList (VList [ch; e] :: t)] => Some [ch; e; VList t]
    | [VList []] => Some [VBytes []; VNil; VList []]
    | _ => None
    end
  else None.


(* ================= punctuatedReader: encodings and externs ================= *)
Definition g_seg (sg : seg) : gval := VList [VBytes (seg_data sg); g_err_opt (seg_err sg)].
Definition g_source (s : source) : gval :=
  VStruct [("segs", VList (map g_seg (src_segs s))); ("final", g_err (src_final s))].
Definition as_seg (v : gval) : option seg :=
  match v with
  | VList [VBytes d; e] => match err_opt_of_g e with Some eo => Some (mkSeg d eo) | None => None end
  | _ => None
  end.
Fixpoint as_segs (l : list gval) : option (list seg) :=
  match l with
  | [] => Some []
  | v :: t => match as_seg v, as_segs t with Some sg, Some r => Some (sg :: r) | _, _ => None end
  end.
Definition as_source (v : gval) : option source :=
  match v with
  | VStruct [("segs", VList l); ("final", fe)] =>
    match as_segs l, err_of_g fe with Some sg, Some e => Some (mkSource sg e) | _, _ => None end
  | _ => None
  end.
Lemma as_source_g (s : source) : as_source (g_source s) = Some s.
Proof.
  destruct s as [segs fin]. unfold as_source, g_source. cbn [src_segs src_final].
  assert (H : as_segs (map g_seg segs) = Some segs).
  { induction segs as [|[d e] segs IH]; [reflexivity|]. cbn [map as_segs]. rewrite IH.
    unfold as_seg, g_seg. cbn [seg_data seg_err]. rewrite err_opt_of_g_err. reflexivity. }
  rewrite H, err_of_g_err. reflexivity.
Qed.

(* bytes.Index: the first position at which sep occurs in s *)
Fixpoint is_prefix (sep s : bytes) : bool :=
  match sep, s with
  | [], _ => true
  | a :: sep', b :: s' => Byte.eqb a b && is_prefix sep' s'
  | _ :: _, [] => false
  end.
Fixpoint bytes_index (s sep : bytes) : option nat :=
  if is_prefix sep s then Some 0%nat
  else match s with
       | [] => None
       | _ :: t => match bytes_index t sep with Some i => Some (S i) | None => None end
       end.
Definition index_Z (s sep : bytes) : Z := match bytes_index s sep with Some i => Z.of_nat i | None => (-1)%Z end.

(* the receiver object: the fields of punctuatedReader; an empty byte slice may be represented by nil *)
Definition g_slice (z : bool) (l : bytes) : gval :=
  match l with [] => if z then VNil else VBytes [] | _ => VBytes l end.
Definition g_pr (z1 z2 : bool) (buf : bytes) (st : pr_state) : gval :=
  VStruct [("r", g_source (pr_src st)); ("punctuation", VBytes [dot]);
           ("nextSegment", g_slice z1 (pr_next st)); ("thisSegment", g_slice z2 (pr_this st));
           ("errThisSegment", if pr_this_punct st then VErr "ErrPunctuated" [] else VNil);
           ("errRead", g_err_opt (pr_err st)); ("buf", VBytes buf)].

(* p.r.Read(out): src_read on the decoded source; results n, err, then the new source (written back
   into p.r) and the buffer with the data at its front (written back into out).
   copy(out, src): the count, then the destination after the copy (written back into out).
   bytes.Index(s, sep): the first position of sep in s, or -1 *)
Definition read_result (out : bytes) (r : (bytes * option err) * source) : list gval :=
  [VInt (Z.of_nat (List.length (fst (fst r)))); g_err_opt (snd (fst r)); g_source (snd r);
   VBytes (fst (fst r) ++ skipn (List.length (fst (fst r))) out)%list].
Definition ext_pr : externs := fun fn args =>
  if String.eqb fn "copy" then
    match args with
    | [VBytes dst; VBytes src] =>
      let k := Nat.min (List.length dst) (List.length src) in
      Some [VInt (Z.of_nat k); VBytes (firstn k src ++ skipn k dst)%list]
    | _ => None
    end
  else if String.eqb fn "Reader.Read" then
    match args with
    | [rv; VBytes out] =>
      match as_source rv with
      | Some s => Some (read_result out (src_read (List.length out) s))
      | None => None
      end
    | _ => None
    end
  else if String.eqb fn "bytes.Index" then
    match args with
    | [VBytes s; VBytes sep] => Some [VInt (index_Z s sep)]
    | _ => None
    end
  else None.

Definition pr_data (r : pr_result) : bytes := match r with PrData d | PrPunct d | PrErr d _ => d end.
Definition pr_res_err (r : pr_result) : gval :=
  match r with PrData _ => VNil | PrPunct _ => VErr "ErrPunctuated" [] | PrErr _ e => g_err e end.

(* ---------- stepping tactics (as step3/steps3 of GoAstProofs3.v, with the for loop and this file's model functions folded) ---------- *)
Ltac ev_in4 h :=
  eval cbv -[Z.eqb Z.ltb Z.leb Z.add Z.sub Z.mul Z.modulo Z.rem Z.quot Z.shiftr Z.shiftl Z.opp
             Z.land Z.lor Z.lxor Z.lnot Z.of_nat Z.of_N Z.to_nat Z.to_N List.length nth_error
             firstn skipn bytes_eqb' bytes_eqb Byte.to_N Byte.of_N Byte.eqb N.mul N.ltb N.eqb N.add N.leb Nat.eqb Nat.leb Nat.ltb
             Nat.min Nat.sub Nat.add nth map repeat app
             err_name err_args g_chunk g_seg g_source as_source src_read read_result bytes_index index_Z split_dot pr_scan dot
             for_loop2 range_loop2 exec2] in h.
Ltac ev_term4 X h :=
  lazymatch h with
  | X ?fn ?args => let h' := ev_in4 h in progress (change h with h'); cbv beta iota
  | _ =>
    let p := eval pattern X in h in
    lazymatch p with
    | ?g _ => let g' := ev_in4 g in
              let h' := eval cbv beta in (g' X) in
              progress (change h with h'); cbv beta iota
    end
  end.
Ltac norm_env4 h x f e ss k :=
  let e' := ev_in4 e in
  tryif constr_eq e e' then k e
  else (change h with (exec2 x (S f) e' ss); k e').
Ltac use_head_hyp4 :=
  lazymatch goal with
  | |- ?G =>
    let L := lazymatch G with (?L = _ -> _) => L | ?L = _ => L | _ => G end in
    let h := head_scrut3 L in
    match goal with H : h = _ |- _ => rewrite H end
  end; cbv beta iota.
Ltac fix_lvars4 :=
  repeat match goal with
  | |- context [lvars ?l] => let r := eval cbv [lvars map] in (lvars l) in change (lvars l) with r
  end.
Ltac step4 X :=
  lazymatch goal with
  | |- ?G =>
    let L := lazymatch G with (?L = _ -> _) => L | ?L = _ => L | _ => G end in
    let h := head_scrut3 L in
    lazymatch h with
    | exec2 ?x (S ?f) ?e (SFor ?c ?b :: ?rest) =>
      norm_env4 h x f e (SFor c b :: rest) ltac:(fun e' => rewrite exec2_for)
    | exec2 ?x (S ?f) ?e ?ss =>
      (* an abstract continuation is left alone *)
      tryif is_var ss then fail else
      norm_env4 h x f e ss ltac:(fun e' => rewrite (exec2_S x f e' ss); cbv beta iota zeta); fix_lvars4; cbv beta iota
    | for_loop2 _ _ _ _ _ _ _ => fail
    | _ => ev_term4 X h
    end
  end.
Ltac steps4 X := repeat first [step4 X | use_head_hyp4 | lits1 | lits2 | lits3 | slice1].
Ltac start4 F :=
  cbv beta iota zeta delta [run_func2 f_body f_params f_results F];
  lazymatch goal with
  | |- context [bind_params ?a ?b] =>
    let r := eval cbv [bind_params] in (bind_params a b) in change (bind_params a b) with r; cbv beta iota
  end;
  cbv beta iota zeta delta [map fst snd zero_of String.eqb Ascii.eqb Bool.eqb orb width app].

(* ---------- list facts ---------- *)
Lemma skipn_min {A} (l : list A) (a : nat) : skipn (Nat.min a (List.length l)) l = skipn a l.
Proof.
  destruct (Nat.le_gt_cases a (List.length l)) as [H|H].
  - rewrite Nat.min_l by exact H. reflexivity.
  - rewrite Nat.min_r by lia. rewrite !skipn_all2 by lia. reflexivity.
Qed.
Lemma slice_len {A} (p : list A) (o : nat) : (o <= List.length p)%nat ->
  List.length (firstn (Z.to_nat (Z.of_nat (List.length p) - Z.of_nat o)) (skipn (Z.to_nat (Z.of_nat o)) p)) = (List.length p - o)%nat.
Proof. intros H. rewrite Nat2Z.id, firstn_length, skipn_length. lia. Qed.
Lemma slice_rest {A} (l : list A) (k : nat) : (k <= List.length l)%nat ->
  firstn (Z.to_nat (Z.of_nat (List.length l) - Z.of_nat k)) (skipn (Z.to_nat (Z.of_nat k)) l) = skipn k l.
Proof. intros H. rewrite Nat2Z.id. apply firstn_all2. rewrite skipn_length. lia. Qed.

Definition cr_body : list gstmt :=
  Eval cbv in match f_body f_saltpack_chunkReader_Read with [SFor _ b] => b | _ => [] end.
Definition envC (R : gval) (p : bytes) (n : Z) (tl : env) : env :=
  ([("r", R); ("p", VBytes p); ("n", VInt n); ("err", VNil)] ++ tl)%list.
Definition cr_tail (tl : env) : Prop := tl = [] \/ exists x, tl = [("copied", x)].

(* the model's result is a panic of Read itself (not an error delivered by the chunker) *)
Definition cr_go_panics (r : (bytes * option err) * cr_state) : bool :=
  match r with
  | ((_, Some (Panic _)), st') => match cr_err st' with None => true | Some _ => false end
  | _ => false
  end.

Lemma cr_read_S (f n : nat) (st : cr_state) (out : bytes) :
  cr_read (S f) n st out =
    let room := (n - List.length out)%nat in
    let copied := firstn room (cr_prev st) in
    let rest := skipn room (cr_prev st) in
    let out' := (out ++ copied)%list in
    match rest with
    | _ :: _ => ((out', None), mkCr rest (cr_err st) (cr_pending st))
    | [] =>
      match cr_err st with
      | Some e => ((out', Some e), mkCr [] (Some e) (cr_pending st))
      | None =>
        match cr_pending st with
        | [] => ((out', Some (Panic 11)), mkCr [] None [])
        | (ch, e) :: t =>
          match ch, e with
          | [], None => ((out', Some (Panic 12)), mkCr [] None t)
          | _, _ => cr_read f n (mkCr ch e t) out'
          end
        end
      end
    end.
Proof. reflexivity. Qed.

Lemma ltb_nat0 (n : nat) : (Z.of_nat n <? 0)%Z = false. Proof. lia. Qed.
Lemma ltb_len_min {A} (l : list A) (a : nat) : (Z.of_nat (List.length l) <? Z.of_nat (Nat.min a (List.length l)))%Z = false.
Proof. lia. Qed.
Ltac arith4 := progress (rewrite ?ltb_nat0, ?ltb_len_min, ?Z.ltb_irrefl); cbv beta iota.
Ltac steps4c X := repeat first [step4 X | use_head_hyp4 | lits1 | lits2 | lits3 | slice1 | arith4].
Ltac run_hyp4 X HR := revert HR; cbv beta iota; steps4c X; intros HR.

Lemma cr_go_panics_err (o : bytes) (e : option err) (x : bytes) (e' : err) (y : list (bytes * option err)) :
  cr_go_panics ((o, e), mkCr x (Some e') y) = false.
Proof. destruct e as [[]|]; reflexivity. Qed.

Lemma g_chunk_eq (ch : bytes) (e : option err) : g_chunk (ch, e) = VList [VBytes ch; g_err_opt e].
Proof. reflexivity. Qed.

Definition cr_rest : list gstmt := Eval cbv in tl cr_body.
Definition F9 (f : nat) : nat := S (S (S (S (S (S (S (S (S f)))))))).

(* the loop body after the draining of prevChunk: the sticky error, or the next chunk *)
Lemma cr_rest_step (f : nat) (p : bytes) (n : Z) (er : option err) (pend : list (bytes * option err)) (tl : env) :
  cr_tail tl ->
  exec2 ext_cr (F9 f) (envC (g_cr (mkCr [] er pend)) p n tl) cr_rest
  = match er with
    | Some e => CRet [VInt n; g_err e] (envC (g_cr (mkCr [] er pend)) p n tl)
    | None =>
      match pend with
      | [] => CPanic
      | ([], None) :: t => CPanic
      | (ch, e) :: t => CNorm (envC (g_cr (mkCr ch e t)) p n tl)
      end
    end.
Proof.
  intros Htl. unfold F9, cr_rest, envC, g_cr. cbn [cr_prev cr_err cr_pending].
  destruct er as [e|].
  - destruct Htl as [->|(x & ->)]; cbn [app]; steps4c ext_cr; reflexivity.
  - destruct pend as [|[ch e] t].
    + destruct Htl as [->|(x & ->)]; cbn [app map]; steps4c ext_cr; reflexivity.
    + cbn [map]. rewrite g_chunk_eq.
      destruct ch as [|c0 ch']; [|assert (Hc : (Z.of_nat (List.length (c0 :: ch')) =? 0)%Z = false) by (cbn [List.length]; lia)];
        destruct e as [e|]; cbn [g_err_opt];
        destruct Htl as [->|(x & ->)]; cbn [app]; steps4c ext_cr; reflexivity.
Qed.

Definition cr_first : gstmt := Eval cbv in hd SBreak cr_body.

Lemma cr_first_nil (f : nat) (rest : list gstmt) (p : bytes) (n : Z) (er : option err) (pend : list (bytes * option err)) (tl : env) :
  cr_tail tl ->
  exec2 ext_cr (S (F9 f)) (envC (g_cr (mkCr [] er pend)) p n tl) (cr_first :: rest)
  = exec2 ext_cr (F9 f) (envC (g_cr (mkCr [] er pend)) p n tl) rest.
Proof.
  intros Htl. unfold F9, cr_first, envC, g_cr. cbn [cr_prev cr_err cr_pending].
  destruct Htl as [->|(x & ->)]; cbn [app]; steps4c ext_cr; reflexivity.
Qed.

Lemma cr_first_copy (f : nat) (rst : list gstmt) (p : bytes) (o : nat) (b : byte) (prev' : bytes) (er : option err) (pend : list (bytes * option err)) (tl : env) :
  cr_tail tl -> (o <= List.length p)%nat ->
  let room := (List.length p - o)%nat in
  let c := Nat.min room (List.length (b :: prev')) in
  exec2 ext_cr (S (F9 f)) (envC (g_cr (mkCr (b :: prev') er pend)) p (Z.of_nat o) tl) (cr_first :: rst)
  = match skipn room (b :: prev') with
    | [] => exec2 ext_cr (F9 f) (envC (g_cr (mkCr [] er pend)) p (Z.of_nat (o + c)) [("copied", VInt (Z.of_nat c))]) rst
    | rest => CRet [VInt (Z.of_nat (o + c)); VNil] (envC (g_cr (mkCr rest er pend)) p (Z.of_nat (o + c)) [("copied", VInt (Z.of_nat c))])
    end.
Proof.
  intros Htl Ho room c. unfold F9, cr_first, envC, g_cr. cbn [cr_prev cr_err cr_pending].
  assert (H0 : (0 <? Z.of_nat (List.length (b :: prev')))%Z = true) by (cbn [List.length]; lia).
  assert (H2 : (Z.of_nat (List.length p) <? Z.of_nat o)%Z = false) by lia.
  destruct Htl as [->|(x & ->)]; cbn [app]; steps4c ext_cr;
    rewrite (slice_len p o Ho), slice_rest by (apply Nat.le_min_r);
    rewrite skipn_min, <- Nat2Z.inj_add; fold room; fold c;
    (destruct (skipn room (b :: prev')) as [|r0 rest] eqn:Erest;
     [|assert (H3 : (0 <? Z.of_nat (List.length (r0 :: rest)))%Z = true) by (cbn [List.length]; lia)];
     steps4c ext_cr; reflexivity).
Qed.

Lemma cr_body_split : cr_body = cr_first :: cr_rest. Proof. reflexivity. Qed.

Lemma cr_loop (p : bytes) (f : nat) (k : nat) :
  forall (st : cr_state) (out : bytes) (tl : env), cr_tail tl ->
  (List.length out <= List.length p)%nat -> (List.length (cr_pending st) < k)%nat ->
  exists tl',
  for_loop2 ext_cr (S (F9 f)) (EBool true) cr_body [] k
            (envC (g_cr st) p (Z.of_nat (List.length out)) tl)
  = match cr_read k (List.length p) st out with
    | ((out', e), st') as r =>
      if cr_go_panics r then CPanic
      else CRet [VInt (Z.of_nat (List.length out')); g_err_opt e]
                (envC (g_cr st') p (Z.of_nat (List.length out')) tl')
    end.
Proof.
  induction k as [|k IH]; intros st out tl Htl Hout Hk; [lia|].
  rewrite for_loop2_S, cr_read_S. cbv zeta.
  change (eval ext_cr 64 (envC (g_cr st) p (Z.of_nat (List.length out)) tl) (EBool true)) with (Some (VBool true)).
  cbv beta iota. change cr_body with (cr_first :: cr_rest) at 1.
  destruct st as [prev er pend]. cbn [cr_prev cr_err cr_pending] in *.
  (* what the rest of the body does once prevChunk is drained, for both ways of getting there *)
  assert (Hrest : forall (out' : bytes) (tl1 : env), cr_tail tl1 -> (List.length out' <= List.length p)%nat ->
    exists tl',
    match exec2 ext_cr (F9 f) (envC (g_cr (mkCr [] er pend)) p (Z.of_nat (List.length out')) tl1) cr_rest with
    | CNorm e2 | CCont e2 => for_loop2 ext_cr (S (F9 f)) (EBool true) cr_body [] k e2
    | CBrk e2 => exec2 ext_cr (S (F9 f)) e2 []
    | other => other
    end
    = (let (p0, st') :=
         match er with
         | Some e => ((out', Some e), mkCr [] (Some e) pend)
         | None =>
           match pend with
           | [] => ((out', Some (Panic 11)), mkCr [] None [])
           | (ch, e) :: t =>
             match ch, e with
             | [], None => ((out', Some (Panic 12)), mkCr [] None t)
             | _, _ => cr_read k (List.length p) (mkCr ch e t) out'
             end
           end
         end in
       let (out'', e) := p0 in
       if cr_go_panics ((out'', e), st') then CPanic
       else CRet [VInt (Z.of_nat (List.length out'')); g_err_opt e]
                 (envC (g_cr st') p (Z.of_nat (List.length out'')) tl'))).
  { intros out' tl1 Htl1 Hout'. rewrite (cr_rest_step f p _ er pend tl1 Htl1).
    destruct er as [e|].
    - exists tl1. rewrite cr_go_panics_err. reflexivity.
    - destruct pend as [|[ch e] t]; [exists []; reflexivity|].
      cbn [List.length] in Hk.
      assert (Hgo : exists tl', for_loop2 ext_cr (S (F9 f)) (EBool true) cr_body [] k
                                 (envC (g_cr (mkCr ch e t)) p (Z.of_nat (List.length out')) tl1)
                    = (let (p0, st') := cr_read k (List.length p) (mkCr ch e t) out' in
                       let (out'', e0) := p0 in
                       if cr_go_panics ((out'', e0), st') then CPanic
                       else CRet [VInt (Z.of_nat (List.length out'')); g_err_opt e0]
                                 (envC (g_cr st') p (Z.of_nat (List.length out'')) tl'))).
      { apply IH; [exact Htl1|exact Hout'|cbn [cr_pending]; lia]. }
      destruct ch as [|c0 ch']; [destruct e as [e|]; [exact Hgo|exists []; reflexivity]|exact Hgo]. }
  destruct prev as [|b prev'].
  - rewrite firstn_nil, skipn_nil, app_nil_r.
    rewrite (cr_first_nil f cr_rest p _ er pend tl Htl).
    apply Hrest; assumption.
  - rewrite (cr_first_copy f cr_rest p (List.length out) b prev' er pend tl Htl Hout). cbv zeta.
    set (room := (List.length p - List.length out)%nat).
    assert (Hlen : List.length (out ++ firstn room (b :: prev')) = (List.length out + Nat.min room (List.length (b :: prev')))%nat)
      by (rewrite app_length, firstn_length; reflexivity).
    rewrite <- Hlen.
    destruct (skipn room (b :: prev')) as [|r0 rest] eqn:Erest.
    + apply Hrest; [right; eexists; reflexivity|].
      rewrite Hlen. unfold room. lia.
    + eexists. reflexivity.
Qed.

(* the model's fuel only has to exceed the number of pending chunk results *)
Lemma cr_read_fuel (k1 : nat) : forall (k2 n : nat) (st : cr_state) (out : bytes),
  (List.length (cr_pending st) < k1)%nat -> (List.length (cr_pending st) < k2)%nat ->
  cr_read k1 n st out = cr_read k2 n st out.
Proof.
  induction k1 as [|k1 IH]; intros k2 n st out H1 H2; [lia|].
  destruct k2 as [|k2]; [lia|]. rewrite !cr_read_S. cbv zeta.
  destruct (skipn (n - List.length out) (cr_prev st)); [|reflexivity].
  destruct (cr_err st); [reflexivity|].
  destruct (cr_pending st) as [|[ch e] t] eqn:Ep; [reflexivity|]. cbn [List.length] in H1, H2.
  destruct ch; [destruct e; [|reflexivity]|]; apply IH; cbn [cr_pending]; lia.
Qed.

(* (TARGET) *)
Theorem go_chunkReader_Read (F : nat) (st : cr_state) (p : bytes) :
  (10 <= F)%nat -> (List.length (cr_pending st) < F)%nat ->
  let r := run_func2_at (S F) ext_cr f_saltpack_chunkReader_Read [g_cr st; VBytes p] in
  match cr_read (S (S (List.length (cr_pending st)))) (List.length p) st [] with
  | ((out, e), st') as m =>
    if cr_go_panics m then r = (OPanic, [])
    else fst r = ORet [VInt (Z.of_nat (List.length out)); g_err_opt e] /\
         lookup "r" (snd r) = Some (g_cr st') /\
         lookup "p" (snd r) = Some (VBytes p)
  end.
Proof.
  intros HF Hk. cbv zeta.
  rewrite (cr_read_fuel _ F) by lia.
  assert (HF' : exists f, F = S (F9 f)) by (exists (F - 10)%nat; unfold F9; lia).
  destruct HF' as [f ->].
  destruct (cr_loop p f (S (F9 f)) st [] [] (or_introl eq_refl) ltac:(cbn; lia) Hk) as [tl' Hl].
  cbn [List.length] in Hl. change (Z.of_nat 0) with 0%Z in Hl.
  unfold run_func2_at. cbn [f_params f_results f_body f_saltpack_chunkReader_Read bind_params map app fst snd zero_of].
  change (zero_of "int") with (VInt 0). change (zero_of "error") with VNil.
  fold cr_body. rewrite exec2_for.
  change [("r", g_cr st); ("p", VBytes p); ("n", VInt 0); ("err", VNil)] with (envC (g_cr st) p 0 []).
  rewrite Hl.
  destruct (cr_read (S (F9 f)) (List.length p) st []) as [[out e] st'].
  destruct (cr_go_panics (out, e, st')); [reflexivity|].
  cbn [fst snd]. split; [reflexivity|]. split; reflexivity.
Qed.

(* (TARGET) the same at the fuel of run_func2 *)
Corollary go_chunkReader_Read_300 (st : cr_state) (p : bytes) :
  (List.length (cr_pending st) < 299)%nat ->
  let r := run_func2 ext_cr f_saltpack_chunkReader_Read [g_cr st; VBytes p] in
  match cr_read (S (S (List.length (cr_pending st)))) (List.length p) st [] with
  | ((out, e), st') as m =>
    if cr_go_panics m then r = (OPanic, [])
    else fst r = ORet [VInt (Z.of_nat (List.length out)); g_err_opt e] /\
         lookup "r" (snd r) = Some (g_cr st') /\
         lookup "p" (snd r) = Some (VBytes p)
  end.
Proof. intros H. rewrite run_func2_at_300. apply (go_chunkReader_Read 299 st p); [lia|exact H]. Qed.


(* the statement on concrete inputs (a return with a full buffer, the end of the stream, the panic) *)
Example cr_ex_state : cr_state := mkCr [x01; x02; x03] None [([x04; x05], None); ([x06], Some EOF)].
Example cr_ex_full :
  run_func2 ext_cr f_saltpack_chunkReader_Read [g_cr cr_ex_state; VBytes (repeat x00 4)]
  = (ORet [VInt 4; VNil],
     [("r", g_cr (mkCr [x05] None [([x06], Some EOF)])); ("p", VBytes (repeat x00 4)); ("n", VInt 4); ("err", VNil); ("copied", VInt 1)])
  /\ cr_read 4 4 cr_ex_state [] = (([x01; x02; x03; x04], None), mkCr [x05] None [([x06], Some EOF)]).
Proof. split; vm_compute; reflexivity. Qed.
Example cr_ex_eof :
  fst (run_func2 ext_cr f_saltpack_chunkReader_Read [g_cr cr_ex_state; VBytes (repeat x00 10)]) = ORet [VInt 6; g_err EOF]
  /\ cr_read 4 10 cr_ex_state [] = (([x01; x02; x03; x04; x05; x06], Some EOF), mkCr [] (Some EOF) []).
Proof. split; vm_compute; reflexivity. Qed.
Example cr_ex_panic :
  run_func2 ext_cr f_saltpack_chunkReader_Read [g_cr (mkCr [] None [([x04], None); ([], None)]); VBytes (repeat x00 10)] = (OPanic, [])
  /\ cr_read 4 10 (mkCr [] None [([x04], None); ([], None)]) [] = (([x04], Some (Panic 12)), mkCr [] None []).
Proof. split; vm_compute; reflexivity. Qed.

(* ================= punctuatedReader.Read ================= *)
Lemma firstn_min {A} (l : list A) (a : nat) : firstn (Nat.min a (List.length l)) l = firstn a l.
Proof.
  destruct (Nat.le_gt_cases a (List.length l)) as [H|H].
  - rewrite Nat.min_l by exact H. reflexivity.
  - rewrite Nat.min_r by lia. rewrite !firstn_all2 by lia. reflexivity.
Qed.

Lemma bytes_index_dot (a r : bytes) : nodot a -> bytes_index (a ++ dot :: r)%list [dot] = Some (List.length a).
Proof.
  induction a as [|b t IH]; intros Hn; cbn [app bytes_index is_prefix List.length].
  - rewrite byte_eqb_refl. reflexivity.
  - destruct (Byte.eqb dot b) eqn:E.
    + apply Byte.byte_dec_bl in E. exfalso. apply Hn. left. symmetry. exact E.
    + cbn [andb]. rewrite IH by (intro H; apply Hn; right; exact H). reflexivity.
Qed.
Lemma bytes_index_nodot (l : bytes) : nodot l -> bytes_index l [dot] = None.
Proof.
  induction l as [|b t IH]; intros Hn; cbn [bytes_index is_prefix]; [reflexivity|].
  destruct (Byte.eqb dot b) eqn:E.
  - apply Byte.byte_dec_bl in E. exfalso. apply Hn. left. symmetry. exact E.
  - cbn [andb]. rewrite IH by (intro H; apply Hn; right; exact H). reflexivity.
Qed.
(* bytes.Index with the one-byte separator agrees with the model's scan *)
Lemma index_scan (s : bytes) :
  match pr_scan s with
  | (a, Some r) => index_Z s [dot] = Z.of_nat (List.length a) /\ s = (a ++ dot :: r)%list
  | (a, None) => index_Z s [dot] = (-1)%Z /\ a = s
  end.
Proof.
  unfold pr_scan, index_Z. destruct (split_dot s) as [[a r]|] eqn:E.
  - apply split_dot_some in E. destruct E as [-> Hn]. rewrite bytes_index_dot by exact Hn. split; reflexivity.
  - apply split_dot_none in E. rewrite bytes_index_nodot by exact E. split; reflexivity.
Qed.

Lemma src_read_len (n : nat) (s : source) : (List.length (fst (fst (src_read n s))) <= n)%nat.
Proof.
  unfold src_read. destruct (src_segs s) as [|sg t]; cbn [fst List.length]; [lia|].
  destruct (Nat.leb (List.length (seg_data sg)) n) eqn:L.
  - apply Nat.leb_le in L. destruct (seg_err sg); exact L.
  - cbn [fst]. rewrite firstn_length. lia.
Qed.

Lemma firstn_app_len {A} (a b : list A) : firstn (List.length a) (a ++ b) = a.
Proof. rewrite firstn_app, Nat.sub_diag, firstn_O, app_nil_r. apply firstn_all. Qed.
Lemma copy_len {A} (src dst : list A) :
  List.length (firstn (List.length dst) src ++ skipn (Nat.min (List.length dst) (List.length src)) dst) = List.length dst.
Proof. rewrite app_length, firstn_length, skipn_length. lia. Qed.

Lemma g_slice_false (l : bytes) : g_slice false l = VBytes l.
Proof. destruct l; reflexivity. Qed.
Ltac fin_p := unfold g_pr; cbn [pr_src pr_next pr_this pr_this_punct pr_err]; rewrite ?g_slice_false; reflexivity.

Lemma pr_read_nxt (n : nat) (src : source) (nx : bytes) (tp : bool) (perr : option err) : nx <> [] ->
  pr_read n (mkPr src nx [] tp perr) =
    let (a, rest) := pr_scan nx in
    let nxt := match rest with Some r => r | None => [] end in
    let punct := match rest with Some _ => true | None => false end in
    let d := firstn n a in
    let r := skipn n a in
    match r with
    | [] => ((if punct then PrPunct d else PrData d), mkPr src nxt [] false perr)
    | _ => (PrData d, mkPr src nxt r punct perr)
    end.
Proof. destruct nx; [congruence|reflexivity]. Qed.

Definition pr_first : gstmt := Eval cbv in hd SBreak (f_body f_saltpack_punctuatedReader_Read).
Definition pr_rest : list gstmt := Eval cbv in tl (f_body f_saltpack_punctuatedReader_Read).
(* no short copy pending: the first statement does nothing, whichever way the empty slice is represented *)
Lemma pr_first_skip (f : nat) (rest : list gstmt) (z2 : bool) (vr vn ve vr2 vb vo : gval) :
  exec2 ext_pr (S (S (S (S f))))
        [("p", VStruct [("r", vr); ("punctuation", VBytes [dot]); ("nextSegment", vn); ("thisSegment", g_slice z2 []);
                        ("errThisSegment", ve); ("errRead", vr2); ("buf", vb)]);
         ("out", vo); ("n", VInt 0); ("err", VNil)] (pr_first :: rest)
  = exec2 ext_pr (S (S (S f)))
        [("p", VStruct [("r", vr); ("punctuation", VBytes [dot]); ("nextSegment", vn); ("thisSegment", g_slice z2 []);
                        ("errThisSegment", ve); ("errRead", vr2); ("buf", vb)]);
         ("out", vo); ("n", VInt 0); ("err", VNil)] rest.
Proof. unfold pr_first. destruct z2; cbn [g_slice]; steps4c ext_pr; reflexivity. Qed.

(* nothing buffered after a punctuation mark: the else branch is taken, whichever way the empty slice is represented *)
Lemma pr_next_skip (f : nat) (th el rest : list gstmt) (z1 : bool) (vr vt ve vr2 vb vo : gval) :
  exec2 ext_pr (S (S (S (S (S (S f))))))
        [("p", VStruct [("r", vr); ("punctuation", VBytes [dot]); ("nextSegment", if z1 then VNil else VBytes []);
                        ("thisSegment", vt); ("errThisSegment", ve); ("errRead", vr2); ("buf", vb)]);
         ("out", vo); ("n", VInt 0); ("err", VNil)]
        (SVar "src" "[]byte" :: SAssign ["usedBuffer"] [EBool false] ::
         SIf [] (EBin OGt "bool" (ELen (ESel (EVar "p") "nextSegment")) (EInt 0)) th el :: rest)
  = match exec2 ext_pr (S (S (S f)))
        [("p", VStruct [("r", vr); ("punctuation", VBytes [dot]); ("nextSegment", if z1 then VNil else VBytes []);
                        ("thisSegment", vt); ("errThisSegment", ve); ("errRead", vr2); ("buf", vb)]);
         ("out", vo); ("n", VInt 0); ("err", VNil); ("src", VNil); ("usedBuffer", VBool false)] el with
    | CNorm e' => exec2 ext_pr (S (S (S f))) e' rest
    | _ => exec2 ext_pr (S (S (S f)))
        [("p", VStruct [("r", vr); ("punctuation", VBytes [dot]); ("nextSegment", if z1 then VNil else VBytes []);
                        ("thisSegment", vt); ("errThisSegment", ve); ("errRead", vr2); ("buf", vb)]);
         ("out", vo); ("n", VInt 0); ("err", VNil); ("src", VNil); ("usedBuffer", VBool false)] el
    end.
Proof. destruct z1; steps4c ext_pr; reflexivity. Qed.

Definition pr_then : list gstmt :=
  Eval cbv in match nth 2 pr_rest SBreak with SIf _ _ th _ => th | _ => [] end.
Definition pr_else : list gstmt :=
  Eval cbv in match nth 2 pr_rest SBreak with SIf _ _ _ el => el | _ => [] end.
Definition pr_after : list gstmt := Eval cbv in skipn 3 pr_rest.
Lemma pr_body_split :
  f_body f_saltpack_punctuatedReader_Read
  = pr_first :: SVar "src" "[]byte" :: SAssign ["usedBuffer"] [EBool false] ::
    SIf [] (EBin OGt "bool" (ELen (ESel (EVar "p") "nextSegment")) (EInt 0)) pr_then pr_else :: pr_after.
Proof. reflexivity. Qed.

(* an error of the underlying reader that comes without data is returned at once *)
Definition no_data_err (data : bytes) (e : option err) : option err :=
  match data, e with [], Some e' => Some e' | _, _ => None end.
Lemma no_data_err_some (data : bytes) (e : option err) (e' : err) :
  no_data_err data e = Some e' -> data = [] /\ e = Some e'.
Proof. destruct data; destruct e; cbn; intros H; try discriminate; injection H as <-; split; reflexivity. Qed.
Lemma pr_read_src (n : nat) (src : source) (tp : bool) :
  pr_read n (mkPr src [] [] tp None) =
    let '((data, e), s') := src_read n src in
    match no_data_err data e with
    | Some e' => (PrErr [] e', mkPr s' [] [] false None)
    | None =>
      let (a, rest) := pr_scan data in
      ((match rest with Some _ => PrPunct a | None => PrData a end),
       mkPr s' (match rest with Some r => r | None => [] end) [] false e)
    end.
Proof.
  unfold pr_read. cbn [pr_src pr_next pr_this pr_this_punct pr_err].
  destruct (src_read n src) as [[data e] s']. destruct data; destruct e; reflexivity.
Qed.

(* the else branch: read from the underlying reader, defer an error that comes with data *)
Lemma pr_else_block (f : nat) (vn vt ve vb : gval) (src s' : source) (out dt : bytes) (eo : option err) :
  src_read (List.length out) src = ((dt, eo), s') ->
  exec2 ext_pr (S (S (S (S (S (S (S (S f))))))))
        [("p", VStruct [("r", g_source src); ("punctuation", VBytes [dot]); ("nextSegment", vn);
                        ("thisSegment", vt); ("errThisSegment", ve); ("errRead", VNil); ("buf", vb)]);
         ("out", VBytes out); ("n", VInt 0); ("err", VNil); ("src", VNil); ("usedBuffer", VBool false)] pr_else
  = match no_data_err dt eo with
    | Some e =>
      CRet [VInt 0; g_err e]
        [("p", VStruct [("r", g_source s'); ("punctuation", VBytes [dot]); ("nextSegment", vn);
                        ("thisSegment", vt); ("errThisSegment", ve); ("errRead", VNil); ("buf", vb)]);
         ("out", VBytes out); ("n", VInt 0); ("err", g_err e); ("src", VNil); ("usedBuffer", VBool false)]
    | None =>
      CNorm
        [("p", VStruct [("r", g_source s'); ("punctuation", VBytes [dot]); ("nextSegment", vn);
                        ("thisSegment", vt); ("errThisSegment", ve); ("errRead", g_err_opt eo); ("buf", vb)]);
         ("out", VBytes (dt ++ skipn (List.length dt) out)); ("n", VInt (Z.of_nat (List.length dt)));
         ("err", VNil); ("src", VBytes dt); ("usedBuffer", VBool false)]
    end.
Proof.
  intros Esr. unfold pr_else.
  pose proof (src_read_len (List.length out) src) as Hdl. rewrite Esr in Hdl. cbn [fst snd] in Hdl.
  assert (Hol : List.length (dt ++ skipn (List.length dt) out) = List.length out)
    by (rewrite app_length, skipn_length; lia).
  assert (Hb : (Z.of_nat (List.length (dt ++ skipn (List.length dt) out)) <? Z.of_nat (List.length dt))%Z = false)
    by (rewrite Hol; lia).
  assert (E3 : firstn (Z.to_nat (Z.of_nat (List.length dt) - 0)) (dt ++ skipn (List.length dt) out) = dt)
    by (rewrite Z.sub_0_r, Nat2Z.id; apply firstn_app_len).
  steps4c ext_pr. rewrite as_source_g, Esr. unfold read_result. cbn [fst snd].
  destruct eo as [e|].
  - destruct dt as [|d0 dt'].
    + cbn [no_data_err g_err_opt]. steps4c ext_pr. reflexivity.
    + remember (d0 :: dt') as dt eqn:Hdt.
      assert (Hne : (Z.of_nat (List.length dt) =? 0)%Z = false) by (subst dt; cbn [List.length]; lia).
      replace (no_data_err dt (Some e)) with (@None err) by (subst dt; reflexivity).
      clear Hdt. cbn [g_err_opt]. steps4c ext_pr. rewrite E3. reflexivity.
  - replace (no_data_err dt None) with (@None err) by (destruct dt; reflexivity).
    cbn [g_err_opt]. steps4c ext_pr. rewrite E3. reflexivity.
Qed.

(* the scan of freshly read data [dt] (now at the front of the caller's buffer) and the return *)
Ltac pr_tail HR R dt out z1 z2 Hol :=
  let Hi := fresh "Hi" in let a := fresh "a" in let r := fresh "r" in let Esc := fresh "Esc" in
  pose proof (index_scan dt) as Hi;
  destruct (pr_scan dt) as [a [r|]] eqn:Esc;
  [ let Hs := fresh "Hs" in let Hi' := fresh "Hi'" in
    destruct Hi as [Hi' Hs];
    assert ((0 <=? Z.of_nat (List.length a))%Z = true) by lia;
    assert (List.length dt = (List.length a + S (List.length r))%nat) by (rewrite Hs, app_length; reflexivity);
    assert ((Z.of_nat (List.length a) + 1 <? 0)%Z = false) by lia;
    assert ((Z.of_nat (List.length dt) <? Z.of_nat (List.length a) + 1)%Z = false) by lia;
    assert ((Z.of_nat (List.length dt) <? Z.of_nat (List.length a))%Z = false) by lia;
    let E1 := fresh "E1" in let E2 := fresh "E2" in
    assert (E1 : firstn (Z.to_nat (Z.of_nat (List.length a) - 0)) dt = a)
      by (rewrite Z.sub_0_r, Nat2Z.id, Hs; apply firstn_app_len);
    assert (E2 : firstn (Z.to_nat (Z.of_nat (List.length dt) - (Z.of_nat (List.length a) + 1)))
                        (skipn (Z.to_nat (Z.of_nat (List.length a) + 1)) dt) = r)
      by (replace (Z.to_nat (Z.of_nat (List.length a) + 1)) with (List.length a + 1)%nat by lia;
          rewrite Hs at 2; rewrite skipn_app, skipn_all2 by lia;
          replace (List.length a + 1 - List.length a)%nat with 1%nat by lia; cbn [skipn app];
          apply firstn_all2; lia);
    run_hyp4 ext_pr HR; rewrite Hi' in HR; run_hyp4 ext_pr HR;
    rewrite ?E1, ?E2 in HR; run_hyp4 ext_pr HR;
    destruct z2; run_hyp4 ext_pr HR; subst R; cbn [fst snd pr_data pr_res_err];
    (split; [reflexivity
            |split; [first [exists false, true; fin_p|exists false, false; fin_p]
                    |eexists; (split; [reflexivity|]); split; [exact Hol|rewrite Hs, <- app_assoc; apply firstn_app_len]]])
  | let Hi' := fresh "Hi'" in let Ha := fresh "Ha" in
    destruct Hi as [Hi' Ha]; subst a;
    assert ((0 <=? -1)%Z = false) by reflexivity;
    run_hyp4 ext_pr HR; rewrite Hi' in HR; run_hyp4 ext_pr HR;
    subst R; cbn [fst snd pr_data pr_res_err];
    (split; [reflexivity
            |split; [exists z1, z2; fin_p
                    |eexists; (split; [reflexivity|]); split; [exact Hol|apply firstn_app_len]]]) ].

Lemma list_match_same {A T} (l : list A) (x : T) : match l with [] => x | _ :: _ => x end = x.
Proof. destruct l; reflexivity. Qed.

(* (TARGET) *)
Theorem go_punctuatedReader_Read (z1 z2 : bool) (buf : bytes) (st : pr_state) (out : bytes) :
  (pr_this st = [] -> pr_this_punct st = false) ->
  let r := run_func2 ext_pr f_saltpack_punctuatedReader_Read [g_pr z1 z2 buf st; VBytes out] in
  match pr_read (List.length out) st with
  | (res, st') =>
    fst r = ORet [VInt (Z.of_nat (List.length (pr_data res))); pr_res_err res] /\
    (exists z1' z2', lookup "p" (snd r) = Some (g_pr z1' z2' buf st')) /\
    (exists out', lookup "out" (snd r) = Some (VBytes out') /\
                  List.length out' = List.length out /\ firstn (List.length (pr_data res)) out' = pr_data res)
  end.
Proof.
  intros Hwf. cbv zeta.
  remember (run_func2 ext_pr f_saltpack_punctuatedReader_Read [g_pr z1 z2 buf st; VBytes out]) as R eqn:HR.
  symmetry in HR. revert HR. start4 f_saltpack_punctuatedReader_Read. intros HR.
  destruct st as [src nxt this tp perr]. cbn [pr_src pr_next pr_this pr_this_punct pr_err] in *.
  unfold g_pr in HR. cbn [pr_src pr_next pr_this pr_this_punct pr_err] in HR.
  destruct this as [|t0 this'].
  2:{ (* a short copy left over *)
    unfold pr_read. cbn [pr_src pr_next pr_this pr_this_punct pr_err].
    cbn [g_slice] in HR.
    assert (H0 : (0 <? Z.of_nat (List.length (t0 :: this')))%Z = true) by (cbn [List.length]; lia).
    run_hyp4 ext_pr HR.
    rewrite slice_rest in HR by (apply Nat.le_min_r).
    rewrite skipn_min, firstn_min in HR.
    destruct (skipn (List.length out) (t0 :: this')) as [|r0 rest] eqn:Erest.
    - run_hyp4 ext_pr HR. subst R. cbn [fst snd]. split; [|split].
      + destruct tp; cbn [pr_data pr_res_err]; rewrite firstn_length; reflexivity.
      + exists z1, false. reflexivity.
      + eexists. split; [reflexivity|]. split; [apply copy_len|].
        destruct tp; cbn [pr_data]; apply firstn_app_len.
    - assert (H1 : (Z.of_nat (List.length (r0 :: rest)) =? 0)%Z = false) by (cbn [List.length]; lia).
      run_hyp4 ext_pr HR. subst R. cbn [fst snd]. split; [|split].
      + cbn [pr_data pr_res_err]; rewrite firstn_length; reflexivity.
      + exists z1, false. reflexivity.
      + eexists. split; [reflexivity|]. split; [apply copy_len|].
        cbn [pr_data]; apply firstn_app_len. }
  rewrite (Hwf eq_refl) in *. clear Hwf.
  lazymatch type of HR with context [exec2 ext_pr 300 ?e0 ?l] =>
    change l with (pr_first :: SVar "src" "[]byte" :: SAssign ["usedBuffer"] [EBool false] ::
                   SIf [] (EBin OGt "bool" (ELen (ESel (EVar "p") "nextSegment")) (EInt 0)) pr_then pr_else :: pr_after) in HR
  end.
  change 300%nat with (S (S (S (S 296)))) in HR.
  rewrite pr_first_skip in HR. change 299%nat with (S (S (S (S (S (S 293)))))) in HR.
  destruct nxt as [|n0 nxt'].
  2:{ (* a buffered segment *)
    unfold pr_then, pr_else, pr_after in HR. cbn [g_slice] in HR. remember (n0 :: nxt') as nx eqn:Hnx.
    assert (H0 : (0 <? Z.of_nat (List.length nx))%Z = true) by (subst nx; cbn [List.length]; lia).
    rewrite pr_read_nxt by (subst nx; discriminate).
    clear Hnx n0 nxt'.
    pose proof (index_scan nx) as Hi.
    destruct (pr_scan nx) as [a [r|]] eqn:Esc; cbv zeta.
    - destruct Hi as [Hi Hs].
      assert (Hge : (0 <=? Z.of_nat (List.length a))%Z = true) by lia.
      assert (Hlen : List.length nx = (List.length a + S (List.length r))%nat) by (rewrite Hs, app_length; reflexivity).
      assert (Hb1 : (Z.of_nat (List.length a) + 1 <? 0)%Z = false) by lia.
      assert (Hb2 : (Z.of_nat (List.length nx) <? Z.of_nat (List.length a) + 1)%Z = false) by lia.
      assert (Hb3 : (Z.of_nat (List.length nx) <? Z.of_nat (List.length a))%Z = false) by lia.
      assert (E1 : firstn (Z.to_nat (Z.of_nat (List.length a) - 0)) nx = a).
      { rewrite Z.sub_0_r, Nat2Z.id, Hs. apply firstn_app_len. }
      assert (E2 : firstn (Z.to_nat (Z.of_nat (List.length nx) - (Z.of_nat (List.length a) + 1)))
                          (skipn (Z.to_nat (Z.of_nat (List.length a) + 1)) nx) = r).
      { replace (Z.to_nat (Z.of_nat (List.length a) + 1)) with (List.length a + 1)%nat by lia.
        rewrite Hs at 2. rewrite skipn_app, skipn_all2 by lia.
        replace (List.length a + 1 - List.length a)%nat with 1%nat by lia. cbn [skipn app].
        apply firstn_all2. lia. }
      run_hyp4 ext_pr HR; rewrite Hi in HR; run_hyp4 ext_pr HR; rewrite ?E1, ?E2 in HR; run_hyp4 ext_pr HR;
        rewrite slice_rest in HR by (apply Nat.le_min_r);
        rewrite skipn_min, firstn_min in HR;
        (destruct (skipn (List.length out) a) as [|r0 rest] eqn:Erest;
         [|assert (H1 : (0 <? Z.of_nat (List.length (r0 :: rest)))%Z = true) by (cbn [List.length]; lia)];
         run_hyp4 ext_pr HR; subst R; cbn [fst snd pr_data pr_res_err];
         (split; [rewrite firstn_length; reflexivity
                 |split; [exists false, false; fin_p
                         |eexists; (split; [reflexivity|]); split; [apply copy_len|apply firstn_app_len]]])).
    - destruct Hi as [Hi ->].
      assert (Hge : (0 <=? -1)%Z = false) by reflexivity.
      run_hyp4 ext_pr HR; rewrite Hi in HR; run_hyp4 ext_pr HR;
        rewrite slice_rest in HR by (apply Nat.le_min_r);
        rewrite skipn_min, firstn_min in HR;
        (destruct (skipn (List.length out) nx) as [|r0 rest] eqn:Erest;
         [|assert (H1 : (0 <? Z.of_nat (List.length (r0 :: rest)))%Z = true) by (cbn [List.length]; lia)];
         run_hyp4 ext_pr HR; subst R; cbn [fst snd pr_data pr_res_err];
         (split; [rewrite firstn_length; reflexivity
                 |split; [exists true, false; fin_p
                         |eexists; (split; [reflexivity|]); split; [apply copy_len|apply firstn_app_len]]])).
  }
  cbn [g_slice] in HR. rewrite pr_next_skip in HR.
  destruct perr as [e|].
  { (* the deferred error of the underlying reader *)
    unfold pr_read. cbn [pr_src pr_next pr_this pr_this_punct pr_err g_err_opt].
    unfold pr_else in HR.
    run_hyp4 ext_pr HR; subst R; cbn [fst snd pr_data pr_res_err];
      (split; [reflexivity|split; [exists z1, z2; fin_p|eexists; split; [reflexivity|split; reflexivity]]]). }
  cbn [g_err_opt] in HR. rewrite pr_read_src.
  pose proof (src_read_len (List.length out) src) as Hdl.
  destruct (src_read (List.length out) src) as [[data eo] s'] eqn:Esr. cbn [fst snd] in Hdl.
  change 296%nat with (S (S (S (S (S (S (S (S 288)))))))) in HR.
  rewrite (pr_else_block 288 _ _ _ _ src s' out data eo Esr) in HR.
  assert (Hol : List.length (data ++ skipn (List.length data) out) = List.length out)
    by (rewrite app_length, skipn_length; lia).
  destruct (no_data_err data eo) as [e|] eqn:End.
  - (* an error without data *)
    subst R. cbn [fst snd pr_data pr_res_err].
    split; [reflexivity|]. split; [exists z1, z2; fin_p|].
    eexists. split; [reflexivity|]. split; reflexivity.
  - unfold pr_after in HR. pr_tail HR R data out z1 z2 Hol.
Qed.

(* the statement on concrete inputs (punctuation found in fresh data, the deferred error) *)
Example pr_ex_src : source := mkSource [mkSeg [x61; x62; dot; x63; x64; dot; x65] None; mkSeg [x66; x67] (Some EOF)] ErrIO.
Example pr_ex_punct :
  fst (run_func2 ext_pr f_saltpack_punctuatedReader_Read [g_pr true true [] (pr_init pr_ex_src); VBytes (repeat x00 10)])
  = ORet [VInt 2; VErr "ErrPunctuated" []]
  /\ fst (pr_read 10 (pr_init pr_ex_src)) = PrPunct [x61; x62].
Proof. split; vm_compute; reflexivity. Qed.
Example pr_ex_err :
  let st := mkPr (mkSource [] EOF) [] [] false (Some EOF) in
  fst (run_func2 ext_pr f_saltpack_punctuatedReader_Read [g_pr true true [] st; VBytes (repeat x00 5)]) = ORet [VInt 0; g_err EOF]
  /\ fst (pr_read 5 st) = PrErr [] EOF.
Proof. split; vm_compute; reflexivity. Qed.

(* punctuatedReader.ReadUntilPunctuation: the translator now desugars the `fallthrough` of its switch (the
   clause's statements followed by the next clause's); its equivalence with pr_read_until is in
   GoAstProofs4d.v. *)

(* the invariant used by go_punctuatedReader_Read holds initially and is kept by every Read *)
Lemma pr_punct_wf_init (s : source) : pr_this (pr_init s) = [] -> pr_this_punct (pr_init s) = false.
Proof. reflexivity. Qed.
Lemma pr_punct_wf_read (n : nat) (st : pr_state) :
  (pr_this st = [] -> pr_this_punct st = false) ->
  pr_this (snd (pr_read n st)) = [] -> pr_this_punct (snd (pr_read n st)) = false.
Proof.
  intros Hwf. destruct st as [src nxt this tp perr]. unfold pr_read. cbn [pr_src pr_next pr_this pr_this_punct pr_err] in *.
  destruct this as [|t0 this'].
  - rewrite (Hwf eq_refl). destruct nxt as [|n0 nxt'].
    + destruct perr as [e|]; [intros _; reflexivity|].
      destruct (src_read n src) as [[data e] s'].
      destruct data as [|d0 data']; [destruct e|]; try (intros _; reflexivity);
        destruct (pr_scan _) as [a rest]; intros _; reflexivity.
    + destruct (pr_scan (n0 :: nxt')) as [a rest].
      destruct (skipn n a) eqn:E; cbn [snd pr_this pr_this_punct]; [reflexivity|discriminate].
  - destruct (skipn n (t0 :: this')) eqn:E; cbn [snd pr_this pr_this_punct]; [reflexivity|discriminate].
Qed.
