(* ChunkerProofs.v — the chunking discipline: shape of the packet plan, and
   independence of the way the plaintext is split across Write calls.
   Statements marked (TARGET) are used by props/ files. *)
From Coq Require Import List NArith ZArith Bool Lia ZifyN ZifyNat ZifyBool.
From Coq.Strings Require Import Byte.
From SP Require Import Bytes Params Errors Packets Chunker.
Import ListNotations.

Definition nonfinal (cs : list bytes) : list (bytes * bool) := map (fun c => (c, false)) cs.

(* ---------- split_at is firstn / skipn ---------- *)

Lemma split_at_acc_spec (n : nat) : forall (l acc : bytes),
  split_at_acc n l acc = (rev acc ++ firstn n l, skipn n l).
Proof.
  induction n as [|n IH]; intros l acc.
  - simpl. rewrite rev_append_rev, app_nil_r. reflexivity.
  - destruct l as [|b t].
    + simpl. rewrite rev_append_rev, !app_nil_r. reflexivity.
    + simpl. rewrite IH. simpl. rewrite <- app_assoc. reflexivity.
Qed.

Lemma split_at_spec (n : nat) (l : bytes) : split_at n l = (firstn n l, skipn n l).
Proof. unfold split_at. rewrite split_at_acc_spec. reflexivity. Qed.

(* ---------- chunk_split: unfolding and fuel independence ---------- *)

Lemma chunk_split_S (f B : nat) (l : bytes) :
  chunk_split (S f) B l =
  if Nat.leb (length l) B then [l] else firstn B l :: chunk_split f B (skipn B l).
Proof. simpl. rewrite split_at_spec. reflexivity. Qed.

Lemma chunk_split_fuel (B : nat) : (0 < B)%nat ->
  forall f1 f2 (l : bytes), (length l <= f1)%nat -> (length l <= f2)%nat ->
    chunk_split f1 B l = chunk_split f2 B l.
Proof.
  intros HB. induction f1 as [|f1 IH]; intros f2 l H1 H2.
  - destruct l; [|simpl in H1; lia].
    destruct f2; reflexivity.
  - destruct f2 as [|f2].
    + destruct l; [|simpl in H2; lia]. reflexivity.
    + rewrite !chunk_split_S.
      destruct (Nat.leb_spec (length l) B); [reflexivity|].
      f_equal. apply IH; rewrite skipn_length; lia.
Qed.

Lemma chunks_eq (B : nat) (l : bytes) : (0 < B)%nat ->
  chunks B l =
  if Nat.leb (length l) B then [l] else firstn B l :: chunks B (skipn B l).
Proof.
  intros HB. unfold chunks.
  destruct (length l) as [|n] eqn:E.
  - destruct l; [reflexivity|discriminate].
  - rewrite chunk_split_S. rewrite E.
    destruct (Nat.leb_spec (S n) B); [reflexivity|].
    f_equal. apply chunk_split_fuel; trivial; rewrite skipn_length; lia.
Qed.

Lemma chunks_small (B : nat) (l : bytes) : (0 < B)%nat -> (length l <= B)%nat ->
  chunks B l = [l].
Proof.
  intros HB H. rewrite chunks_eq by trivial.
  destruct (Nat.leb_spec (length l) B); [reflexivity|lia].
Qed.

Lemma chunks_big (B : nat) (l : bytes) : (0 < B)%nat -> (B < length l)%nat ->
  chunks B l = firstn B l :: chunks B (skipn B l).
Proof.
  intros HB H. rewrite chunks_eq by trivial.
  destruct (Nat.leb_spec (length l) B); [lia|reflexivity].
Qed.

Lemma chunks_nonnil (B : nat) (l : bytes) : (0 < B)%nat -> chunks B l <> [].
Proof.
  intros HB. rewrite chunks_eq by trivial.
  destruct (Nat.leb (length l) B); discriminate.
Qed.

(* ---------- the shape of chunks ---------- *)

Lemma chunks_shape (B : nat) : (0 < B)%nat -> forall (l : bytes),
  exists init lastc,
    chunks B l = init ++ [lastc] /\
    Forall (fun c : bytes => length c = B) init /\
    (length lastc <= B)%nat /\
    (lastc = [] -> l = []) /\
    concat init ++ lastc = l.
Proof.
  intros HB l.
  assert (G : forall n (l : bytes), (length l <= n)%nat ->
    exists init lastc,
      chunks B l = init ++ [lastc] /\
      Forall (fun c : bytes => length c = B) init /\
      (length lastc <= B)%nat /\
      (lastc = [] -> l = []) /\
      concat init ++ lastc = l).
  { clear l. induction n as [|n IH]; intros l Hn.
    - exists [], l. rewrite chunks_small by lia.
      repeat split; auto; lia.
    - destruct (Nat.leb_spec (length l) B) as [Hs|Hb].
      + exists [], l. rewrite chunks_small by lia.
        repeat split; auto.
      + destruct (IH (skipn B l)) as (init & lastc & E & F & L & N & C).
        { rewrite skipn_length. lia. }
        exists (firstn B l :: init), lastc.
        rewrite chunks_big, E by lia.
        split; [reflexivity|].
        split. { constructor; trivial. rewrite firstn_length. lia. }
        split; [trivial|].
        split.
        { intros Hl. apply N in Hl.
          apply (f_equal (@length byte)) in Hl. rewrite skipn_length in Hl.
          simpl in Hl. lia. }
        simpl. rewrite <- app_assoc, C. apply firstn_skipn. }
  apply (G (length l)). lia.
Qed.

Lemma full_blocks_nil (B : nat) (init : list bytes) : (0 < B)%nat ->
  Forall (fun c : bytes => length c = B) init -> concat init = [] -> init = [].
Proof.
  intros HB F C. destruct init as [|c t]; [reflexivity|].
  inversion F; subst. simpl in C. apply app_eq_nil in C. destruct C as [C _].
  subst c. simpl in HB. lia.
Qed.

(* ---------- mark_last ---------- *)

Lemma mark_last_cons (a : bytes) (l : list bytes) : l <> [] ->
  mark_last (a :: l) = (a, false) :: mark_last l.
Proof. destruct l; [congruence|reflexivity]. Qed.

Lemma mark_last_app (xs cs : list bytes) : cs <> [] ->
  mark_last (xs ++ cs) = nonfinal xs ++ mark_last cs.
Proof.
  intros H. induction xs as [|a xs IH]; [reflexivity|].
  simpl app. rewrite mark_last_cons, IH; [reflexivity|].
  destruct xs; simpl; [trivial|discriminate].
Qed.

Lemma mark_last_snoc (xs : list bytes) (y : bytes) :
  mark_last (xs ++ [y]) = nonfinal xs ++ [(y, true)].
Proof. rewrite mark_last_app by discriminate. reflexivity. Qed.

Lemma map_fst_nonfinal (cs : list bytes) : map fst (nonfinal cs) = cs.
Proof.
  unfold nonfinal. rewrite map_map. simpl. apply map_id.
Qed.

Lemma plan_v1_nonnil (B : nat) (m : bytes) : m <> [] ->
  plan_v1 B m = nonfinal (chunks B m) ++ [([], true)].
Proof. destruct m; [congruence|reflexivity]. Qed.

(* (TARGET) V2 plan: full non-final blocks, then one final block of at most B
   bytes which is empty only for the empty message *)
Lemma plan_v2_shape (B : nat) (msg : bytes) :
  (0 < B)%nat ->
  exists init lastc,
    plan_v2 B msg = nonfinal init ++ [(lastc, true)] /\
    Forall (fun c => length c = B) init /\
    (length lastc <= B)%nat /\
    (lastc = [] -> msg = []) /\
    concat init ++ lastc = msg.
Proof.
  intros HB.
  destruct (chunks_shape B HB msg) as (init & lastc & E & F & L & N & C).
  exists init, lastc. unfold plan_v2. rewrite E, mark_last_snoc. auto.
Qed.

(* (TARGET) V1 plan: non-empty non-final blocks of at most B bytes, then the empty final block *)
Lemma plan_v1_shape (B : nat) (msg : bytes) :
  (0 < B)%nat ->
  exists cs,
    plan_v1 B msg = nonfinal cs ++ [([], true)] /\
    Forall (fun c => (0 < length c <= B)%nat) cs /\
    concat cs = msg.
Proof.
  intros HB. destruct msg as [|b m].
  - exists []. repeat split. constructor.
  - destruct (chunks_shape B HB (b :: m)) as (init & lastc & E & F & L & N & C).
    exists (chunks B (b :: m)).
    split; [apply plan_v1_nonnil; discriminate|].
    rewrite E. split.
    + apply Forall_app. split.
      * eapply Forall_impl; [|exact F]. simpl. intros a Ha. lia.
      * constructor; [|constructor].
        destruct lastc; [specialize (N eq_refl); discriminate|simpl in *; lia].
    + rewrite concat_app. simpl. rewrite app_nil_r. exact C.
Qed.

(* (TARGET) the plan carries exactly the message, in order *)
Lemma plan_concat (v : version) (B : nat) (msg : bytes) :
  (0 < B)%nat -> concat (map fst (plan v B msg)) = msg.
Proof.
  intros HB. unfold plan. destruct (vmaj v =? 1)%Z.
  - destruct (plan_v1_shape B msg HB) as (cs & E & _ & C).
    rewrite E, map_app, map_fst_nonfinal, concat_app. simpl.
    rewrite app_nil_r. exact C.
  - destruct (plan_v2_shape B msg HB) as (init & lastc & E & _ & _ & _ & C).
    rewrite E, map_app, map_fst_nonfinal, concat_app. simpl.
    rewrite app_nil_r. exact C.
Qed.

Lemma nth_error_marked (cs : list bytes) (y c : bytes) (f : bool) (i : nat) :
  nth_error (nonfinal cs ++ [(y, true)]) i = Some (c, f) ->
  (f = false /\ In c cs) \/ (f = true /\ c = y /\ i = length cs).
Proof.
  intros H.
  assert (Hlen : length (nonfinal cs) = length cs) by (unfold nonfinal; apply map_length).
  destruct (Nat.lt_ge_cases i (length cs)) as [Hi|Hi].
  - left. rewrite nth_error_app1 in H by lia.
    apply nth_error_In in H. unfold nonfinal in H. apply in_map_iff in H.
    destruct H as (x & Hx & Hin). inversion Hx; subst. auto.
  - right. rewrite nth_error_app2 in H by lia. rewrite Hlen in H.
    destruct (i - length cs)%nat as [|k] eqn:Ek.
    + simpl in H. inversion H; subst. repeat split; lia.
    + simpl in H. destruct k; discriminate.
Qed.

(* (TARGET) every planned packet passes the chunk-state check at its index *)
Lemma plan_chunk_state (v : version) (B : nat) (msg : bytes) :
  (0 < B)%nat -> (vmaj v = 1 \/ vmaj v = 2)%Z ->
  forall i chunk final, nth_error (plan v B msg) i = Some (chunk, final) ->
    check_chunk_state v (length chunk) (N.of_nat i) final = Ok tt.
Proof.
  intros HB Hv i chunk final H.
  unfold plan in H. unfold check_chunk_state.
  destruct Hv as [Hv|Hv]; rewrite Hv in *; simpl in H |- *.
  - destruct (plan_v1_shape B msg HB) as (cs & E & F & _).
    rewrite E in H. apply nth_error_marked in H.
    destruct H as [(Hf & Hin)|(Hf & Hc & _)]; subst.
    + rewrite Forall_forall in F. apply F in Hin.
      destruct (Nat.eqb_spec (length chunk) 0); [lia|reflexivity].
    + reflexivity.
  - destruct (plan_v2_shape B msg HB) as (init & lastc & E & F & L & N & C).
    rewrite E in H. apply nth_error_marked in H.
    destruct H as [(Hf & Hin)|(Hf & Hc & Hi)]; subst.
    + rewrite Forall_forall in F. apply F in Hin.
      destruct (Nat.eqb_spec (length chunk) 0); [lia|reflexivity].
    + destruct lastc as [|b t]; [|reflexivity].
      specialize (N eq_refl). rewrite app_nil_r in N. rename N into C'.
      apply (full_blocks_nil B init HB F) in C'. subst init. reflexivity.
Qed.

(* (TARGET) no chunk exceeds the block size *)
Lemma plan_chunk_bound (v : version) (B : nat) (msg : bytes) :
  (0 < B)%nat -> Forall (fun p => (length (fst p) <= B)%nat) (plan v B msg).
Proof.
  intros HB. unfold plan. destruct (vmaj v =? 1)%Z.
  - destruct (plan_v1_shape B msg HB) as (cs & E & F & _).
    rewrite E. apply Forall_app. split.
    + unfold nonfinal. apply Forall_map. eapply Forall_impl; [|exact F].
      simpl. intros a Ha. lia.
    + constructor; [simpl; lia|constructor].
  - destruct (plan_v2_shape B msg HB) as (init & lastc & E & F & L & _ & _).
    rewrite E. apply Forall_app. split.
    + unfold nonfinal. apply Forall_map. eapply Forall_impl; [|exact F].
      simpl. intros a Ha. lia.
    + constructor; [simpl; lia|constructor].
Qed.

(* ---------- streaming ---------- *)

Lemma last_cons_nonnil {A} (a d : A) (l : list A) : l <> [] -> last (a :: l) d = last l d.
Proof. destruct l; [congruence|reflexivity]. Qed.

Lemma removelast_cons_nonnil {A} (a : A) (l : list A) : l <> [] ->
  removelast (a :: l) = a :: removelast l.
Proof. destruct l; [congruence|reflexivity]. Qed.

(* drain computes the chunks: everything but the last is emitted, the last stays buffered *)
Lemma drain_spec (B : nat) : (0 < B)%nat ->
  forall fuel (l : bytes) (acc : list bytes), (length l <= fuel)%nat ->
    drain fuel B l acc = (rev acc ++ removelast (chunks B l), last (chunks B l) []).
Proof.
  intros HB. induction fuel as [|f IH]; intros l acc Hl.
  - rewrite chunks_small by lia. simpl.
    rewrite rev_append_rev, !app_nil_r. reflexivity.
  - simpl drain. rewrite split_at_spec.
    destruct (Nat.leb_spec (length l) B) as [Hs|Hb].
    + rewrite chunks_small by lia. simpl.
      rewrite rev_append_rev, !app_nil_r. reflexivity.
    + rewrite IH by (rewrite skipn_length; lia).
      rewrite (chunks_big B l) by lia.
      rewrite removelast_cons_nonnil, last_cons_nonnil by (apply chunks_nonnil; trivial).
      simpl rev. rewrite <- app_assoc. reflexivity.
Qed.

Lemma cw_write_spec (B : nat) (buf p : bytes) : (0 < B)%nat ->
  exists init lastc,
    cw_write B buf p = (init, lastc) /\
    chunks B (buf ++ p) = init ++ [lastc] /\
    Forall (fun c : bytes => length c = B) init /\
    (length lastc <= B)%nat /\
    (lastc = [] -> buf ++ p = []) /\
    concat init ++ lastc = buf ++ p.
Proof.
  intros HB.
  destruct (chunks_shape B HB (buf ++ p)) as (init & lastc & E & F & L & N & C).
  exists init, lastc. split; [|auto].
  unfold cw_write. rewrite drain_spec by auto.
  rewrite E, removelast_last, last_last. reflexivity.
Qed.

(* (TARGET) bounded buffering: after every Write at most B bytes stay buffered *)
Lemma cw_write_bounded (B : nat) (buf p : bytes) :
  (0 < B)%nat -> (length (snd (cw_write B buf p)) <= B)%nat.
Proof.
  intros HB.
  destruct (cw_write_spec B buf p HB) as (init & lastc & E & _ & _ & L & _).
  rewrite E. exact L.
Qed.

(* (TARGET) ... and the buffer plus the emitted blocks are exactly the bytes written so far *)
Lemma cw_write_conserves (B : nat) (buf p : bytes) :
  (0 < B)%nat ->
  concat (fst (cw_write B buf p)) ++ snd (cw_write B buf p) = buf ++ p /\
  Forall (fun c => length c = B) (fst (cw_write B buf p)).
Proof.
  intros HB.
  destruct (cw_write_spec B buf p HB) as (init & lastc & E & _ & F & _ & _ & C).
  rewrite E. simpl. auto.
Qed.

(* more input after a buffer of chunks: only the last chunk is affected *)
Lemma chunks_app (B : nat) : (0 < B)%nat -> forall (l rest : bytes),
  chunks B (l ++ rest) =
  removelast (chunks B l) ++ chunks B (last (chunks B l) [] ++ rest).
Proof.
  intros HB l rest.
  assert (G : forall n (l : bytes), (length l <= n)%nat ->
    chunks B (l ++ rest) =
    removelast (chunks B l) ++ chunks B (last (chunks B l) [] ++ rest)).
  { clear l. induction n as [|n IH]; intros l Hn.
    - rewrite (chunks_small B l) by lia. reflexivity.
    - destruct (Nat.leb_spec (length l) B) as [Hs|Hb].
      + rewrite (chunks_small B l) by lia. reflexivity.
      + rewrite (chunks_big B l) by lia.
        rewrite removelast_cons_nonnil, last_cons_nonnil by (apply chunks_nonnil; trivial).
        rewrite (chunks_big B (l ++ rest)) by (try rewrite app_length; lia).
        rewrite firstn_app, skipn_app.
        replace (B - length l)%nat with 0%nat by lia.
        simpl firstn. simpl skipn. rewrite app_nil_r.
        rewrite IH by (rewrite skipn_length; lia).
        reflexivity. }
  apply (G (length l)). lia.
Qed.

Lemma cw_close_plan (v : version) (B : nat) (buf : bytes) :
  (0 < B)%nat -> (length buf <= B)%nat -> cw_close v B buf = plan v B buf.
Proof.
  intros HB L. unfold cw_close, plan.
  rewrite split_at_spec. simpl fst. rewrite firstn_all2 by trivial.
  destruct (vmaj v =? 1)%Z.
  - destruct buf as [|b t]; [reflexivity|].
    rewrite plan_v1_nonnil by discriminate. rewrite chunks_small by trivial. reflexivity.
  - unfold plan_v2. rewrite chunks_small by trivial. reflexivity.
Qed.

Lemma cw_session_gen (v : version) (B : nat) : (0 < B)%nat ->
  forall (pieces : list bytes) (buf : bytes), (length buf <= B)%nat ->
    cw_session v B buf pieces = plan v B (buf ++ concat pieces).
Proof.
  intros HB. induction pieces as [|p t IH]; intros buf L.
  - simpl. rewrite app_nil_r. apply cw_close_plan; trivial.
  - simpl cw_session.
    destruct (cw_write_spec B buf p HB) as (init & lastc & E & Ec & F & Ll & N & C).
    rewrite E. rewrite IH by trivial.
    simpl concat. rewrite app_assoc.
    assert (K : chunks B ((buf ++ p) ++ concat t) = init ++ chunks B (lastc ++ concat t)).
    { rewrite chunks_app by trivial. rewrite Ec, removelast_last, last_last. reflexivity. }
    fold (nonfinal init).
    unfold plan. destruct (vmaj v =? 1)%Z.
    + destruct (lastc ++ concat t) as [|b m] eqn:Em.
      * apply app_eq_nil in Em. destruct Em as [E1 E2]. subst lastc.
        rewrite E2 in *. specialize (N eq_refl). rewrite N in *.
        rewrite app_nil_r in C. apply (full_blocks_nil B init HB F) in C. subst init.
        reflexivity.
      * assert (Hm : (buf ++ p) ++ concat t <> []).
        { rewrite <- C, <- app_assoc, Em. intros Habs.
          apply app_eq_nil in Habs. destruct Habs; discriminate. }
        rewrite !plan_v1_nonnil by (trivial; discriminate).
        rewrite K. unfold nonfinal. rewrite map_app, app_assoc. reflexivity.
    + unfold plan_v2. rewrite K.
      apply eq_sym, mark_last_app, chunks_nonnil; trivial.
Qed.

(* (TARGET) write-fragmentation independence: any sequence of Write calls
   (including empty ones) followed by Close emits exactly the one-shot plan *)
Lemma cw_session_plan (v : version) (B : nat) (pieces : list bytes) :
  (0 < B)%nat -> cw_session v B [] pieces = plan v B (concat pieces).
Proof.
  intros HB. rewrite cw_session_gen by (trivial; simpl; lia). reflexivity.
Qed.
