(* MsgpackProofs.v — round trip of the MessagePack model on the values saltpack's
   senders produce.  Statements marked (TARGET) are used by later proofs. *)
From Coq Require Import List PeanoNat NArith ZArith Bool Lia ZifyN ZifyNat ZifyBool.
From Coq.Strings Require Import Byte.
From SP Require Import Bytes Msgpack.
Import ListNotations.
Open Scope N_scope.

(* values within the ranges the encoder can represent *)
Fixpoint wf (v : mval) : Prop :=
  match v with
  | MNil | MBool _ => True
  | MInt z => (-9223372036854775808 <= z < 18446744073709551616)%Z
  | MBin b | MStr b => len b < 4294967296
  | MArr l =>
    N.of_nat (length l) < 4294967296 /\
    (fix all (l : list mval) : Prop := match l with [] => True | x :: t => wf x /\ all t end) l
  end.

(* ---------- bytes <-> numbers (self-contained copies; this file does not
   depend on BaseXProofs) ---------- *)
Lemma mp_b2n_n2b n : b2n (n2b n) = n mod 256.
Proof.
  unfold n2b, b2n. destruct (Byte.of_N (n mod 256)) eqn:E.
  - apply Byte.to_of_N; exact E.
  - apply Byte.of_N_None_iff in E. pose proof (N.mod_lt n 256). lia.
Qed.

Lemma mp_b2n_n2b_small n : n < 256 -> b2n (n2b n) = n.
Proof. intro H. rewrite mp_b2n_n2b. apply N.mod_small. exact H. Qed.

Lemma mp_len_app l1 l2 : len (l1 ++ l2) = len l1 + len l2.
Proof. unfold len. rewrite app_length. lia. Qed.

Lemma mp_be_val_acc_app l1 : forall acc l2,
  be_val_acc acc (l1 ++ l2) = be_val_acc (be_val_acc acc l1) l2.
Proof. induction l1 as [|b t IH]; intros acc l2; cbn [be_val_acc app]; auto. Qed.

Lemma mp_be_val_app_one l b : be_val (l ++ [b]) = be_val l * 256 + b2n b.
Proof. unfold be_val. rewrite mp_be_val_acc_app. reflexivity. Qed.

Lemma mp_be_bytes_acc_eq k : forall n acc, be_bytes_acc k n acc = be_bytes k n ++ acc.
Proof.
  unfold be_bytes. induction k as [|k IH]; intros n acc; cbn [be_bytes_acc].
  - reflexivity.
  - rewrite (IH (n/256) (n2b n :: acc)), (IH (n/256) [n2b n]).
    rewrite <- app_assoc. reflexivity.
Qed.

Lemma mp_be_bytes_S k n : be_bytes (S k) n = be_bytes k (n/256) ++ [n2b n].
Proof. unfold be_bytes at 1. cbn [be_bytes_acc]. apply mp_be_bytes_acc_eq. Qed.

Lemma mp_be_bytes_length k : forall n, length (be_bytes k n) = k.
Proof.
  induction k as [|k IH]; intro n.
  - reflexivity.
  - rewrite mp_be_bytes_S, app_length, IH. cbn [length]. lia.
Qed.

Lemma mp_be_val_be_bytes k : forall v, v < 256 ^ N.of_nat k -> be_val (be_bytes k v) = v.
Proof.
  induction k as [|k IH]; intros v Hv.
  - change (N.of_nat 0) with 0 in Hv. rewrite N.pow_0_r in Hv.
    assert (v = 0) by lia. subst. reflexivity.
  - rewrite Nat2N.inj_succ, N.pow_succ_r' in Hv.
    rewrite mp_be_bytes_S, mp_be_val_app_one, mp_b2n_n2b, IH.
    + pose proof (N.div_mod v 256). lia.
    + apply N.div_lt_upper_bound; lia.
Qed.

Lemma mp_split_at_acc_eq n : forall l acc,
  split_at_acc n l acc = (rev acc ++ firstn n l, skipn n l).
Proof.
  induction n as [|n IH]; intros l acc; destruct l as [|b t];
    cbn [split_at_acc firstn skipn]; rewrite ?rev_append_rev, ?app_nil_r; try reflexivity.
  rewrite IH. cbn [rev]. rewrite <- app_assoc. reflexivity.
Qed.

Lemma mp_split_at_eq n l : split_at n l = (firstn n l, skipn n l).
Proof. unfold split_at. rewrite mp_split_at_acc_eq. reflexivity. Qed.

(* ---------- take / take_val ---------- *)
Lemma firstn_len_app (a r : bytes) : firstn (length a) (a ++ r) = a.
Proof. induction a as [|x a IH]; cbn [length firstn app]; [destruct r|rewrite IH]; reflexivity. Qed.

Lemma skipn_len_app (a r : bytes) : skipn (length a) (a ++ r) = r.
Proof. induction a as [|x a IH]; cbn [length skipn app]; auto. Qed.

Lemma take_app a r : take (len a) (a ++ r) = Some (a, r).
Proof.
  unfold take. rewrite mp_len_app.
  destruct (N.leb_spec (len a) (len a + len r)) as [_|H]; [|lia].
  rewrite mp_split_at_eq. unfold len. rewrite Nat2N.id.
  rewrite firstn_len_app, skipn_len_app. reflexivity.
Qed.

Lemma take_split n bs a r : take n bs = Some (a, r) -> bs = a ++ r.
Proof.
  unfold take. destruct (n <=? len bs); [|discriminate].
  rewrite mp_split_at_eq. intro H. injection H as <- <-.
  symmetry. apply firstn_skipn.
Qed.

Lemma take_val_be k n r : n < 256 ^ N.of_nat k ->
  take_val k (be_bytes k n ++ r) = Some (n, r).
Proof.
  intro H. unfold take_val.
  replace (N.of_nat k) with (len (be_bytes k n))
    by (unfold len; rewrite mp_be_bytes_length; reflexivity).
  rewrite take_app, mp_be_val_be_bytes by exact H. reflexivity.
Qed.

Lemma take_val_be1 n r : n < 256 -> take_val 1 (n2b n :: r) = Some (n, r).
Proof. intro H. apply (take_val_be 1 n r). exact H. Qed.
Lemma take_val_be2 n r : n < 65536 -> take_val 2 (be16 n ++ r) = Some (n, r).
Proof. intro H. apply (take_val_be 2 n r). exact H. Qed.
Lemma take_val_be4 n r : n < 4294967296 -> take_val 4 (be32 n ++ r) = Some (n, r).
Proof. intro H. apply (take_val_be 4 n r). exact H. Qed.
Lemma take_val_be8 n r : n < 18446744073709551616 -> take_val 8 (be64 n ++ r) = Some (n, r).
Proof. intro H. apply (take_val_be 8 n r). exact H. Qed.

Lemma take_val_split k bs n r : take_val k bs = Some (n, r) -> exists a, bs = a ++ r.
Proof.
  unfold take_val. destruct (take (N.of_nat k) bs) as [[a r']|] eqn:E; [|discriminate].
  intro H. injection H as _ <-. exists a. eapply take_split; eassumption.
Qed.

(* ---------- parse_head, tag by tag ---------- *)
Lemma ph_c0 r : parse_head (xc0 :: r) = HVal (POk MNil r).
Proof. reflexivity. Qed.
Lemma ph_c2 r : parse_head (xc2 :: r) = HVal (POk (MBool false) r).
Proof. reflexivity. Qed.
Lemma ph_c3 r : parse_head (xc3 :: r) = HVal (POk (MBool true) r).
Proof. reflexivity. Qed.
Lemma ph_c4 r : parse_head (xc4 :: r) = with_len 1 r (fun n r' => bytes_of n MBin r').
Proof. reflexivity. Qed.
Lemma ph_c5 r : parse_head (xc5 :: r) = with_len 2 r (fun n r' => bytes_of n MBin r').
Proof. reflexivity. Qed.
Lemma ph_c6 r : parse_head (xc6 :: r) = with_len 4 r (fun n r' => bytes_of n MBin r').
Proof. reflexivity. Qed.
Lemma ph_cc r : parse_head (xcc :: r) = with_len 1 r (fun n r' => HVal (POk (MInt (Z.of_N n)) r')).
Proof. reflexivity. Qed.
Lemma ph_cd r : parse_head (xcd :: r) = with_len 2 r (fun n r' => HVal (POk (MInt (Z.of_N n)) r')).
Proof. reflexivity. Qed.
Lemma ph_ce r : parse_head (xce :: r) = with_len 4 r (fun n r' => HVal (POk (MInt (Z.of_N n)) r')).
Proof. reflexivity. Qed.
Lemma ph_cf r : parse_head (xcf :: r) = with_len 8 r (fun n r' => HVal (POk (MInt (Z.of_N n)) r')).
Proof. reflexivity. Qed.
Lemma ph_d0 r : parse_head (xd0 :: r) = with_len 1 r (fun n r' => HVal (POk (MInt (signed 8 n)) r')).
Proof. reflexivity. Qed.
Lemma ph_d1 r : parse_head (xd1 :: r) = with_len 2 r (fun n r' => HVal (POk (MInt (signed 16 n)) r')).
Proof. reflexivity. Qed.
Lemma ph_d2 r : parse_head (xd2 :: r) = with_len 4 r (fun n r' => HVal (POk (MInt (signed 32 n)) r')).
Proof. reflexivity. Qed.
Lemma ph_d3 r : parse_head (xd3 :: r) = with_len 8 r (fun n r' => HVal (POk (MInt (signed 64 n)) r')).
Proof. reflexivity. Qed.
Lemma ph_d9 r : parse_head (xd9 :: r) = with_len 1 r (fun n r' => bytes_of n MStr r').
Proof. reflexivity. Qed.
Lemma ph_da r : parse_head (xda :: r) = with_len 2 r (fun n r' => bytes_of n MStr r').
Proof. reflexivity. Qed.
Lemma ph_db r : parse_head (xdb :: r) = with_len 4 r (fun n r' => bytes_of n MStr r').
Proof. reflexivity. Qed.
Lemma ph_dc r : parse_head (xdc :: r) = with_len 2 r (fun n r' => HArr n r').
Proof. reflexivity. Qed.
Lemma ph_dd r : parse_head (xdd :: r) = with_len 4 r (fun n r' => HArr n r').
Proof. reflexivity. Qed.

(* the chain of range tests, with the tag known only up to bounds *)
Definition head_of_tag (tn : N) (r : bytes) : head :=
    if tn <=? 127 then HVal (POk (MInt (Z.of_N tn)) r)
    else if tn <=? 143 then HVal PUnmod
    else if tn <=? 159 then HArr (tn - 144) r
    else if tn <=? 191 then bytes_of (tn - 160) MStr r
    else if tn =? 192 then HVal (POk MNil r)
    else if tn =? 193 then HVal PBad
    else if tn =? 194 then HVal (POk (MBool false) r)
    else if tn =? 195 then HVal (POk (MBool true) r)
    else if tn =? 196 then with_len 1 r (fun n r' => bytes_of n MBin r')
    else if tn =? 197 then with_len 2 r (fun n r' => bytes_of n MBin r')
    else if tn =? 198 then with_len 4 r (fun n r' => bytes_of n MBin r')
    else if tn <=? 203 then HVal PUnmod
    else if tn =? 204 then with_len 1 r (fun n r' => HVal (POk (MInt (Z.of_N n)) r'))
    else if tn =? 205 then with_len 2 r (fun n r' => HVal (POk (MInt (Z.of_N n)) r'))
    else if tn =? 206 then with_len 4 r (fun n r' => HVal (POk (MInt (Z.of_N n)) r'))
    else if tn =? 207 then with_len 8 r (fun n r' => HVal (POk (MInt (Z.of_N n)) r'))
    else if tn =? 208 then with_len 1 r (fun n r' => HVal (POk (MInt (signed 8 n)) r'))
    else if tn =? 209 then with_len 2 r (fun n r' => HVal (POk (MInt (signed 16 n)) r'))
    else if tn =? 210 then with_len 4 r (fun n r' => HVal (POk (MInt (signed 32 n)) r'))
    else if tn =? 211 then with_len 8 r (fun n r' => HVal (POk (MInt (signed 64 n)) r'))
    else if tn <=? 216 then HVal PUnmod
    else if tn =? 217 then with_len 1 r (fun n r' => bytes_of n MStr r')
    else if tn =? 218 then with_len 2 r (fun n r' => bytes_of n MStr r')
    else if tn =? 219 then with_len 4 r (fun n r' => bytes_of n MStr r')
    else if tn =? 220 then with_len 2 r (fun n r' => HArr n r')
    else if tn =? 221 then with_len 4 r (fun n r' => HArr n r')
    else if tn <=? 223 then HVal PUnmod
    else HVal (POk (MInt (Z.of_N tn - 256)%Z) r).

Lemma parse_head_cons t r : parse_head (t :: r) = head_of_tag (b2n t) r.
Proof. reflexivity. Qed.

Ltac chain_step :=
  match goal with
  | |- context[N.leb ?a ?b] => destruct (N.leb_spec a b); try lia
  | |- context[N.eqb ?a ?b] => destruct (N.eqb_spec a b); try lia
  end.

Lemma ph_fixint k r : k <= 127 ->
  parse_head (n2b k :: r) = HVal (POk (MInt (Z.of_N k)) r).
Proof.
  intro H. rewrite parse_head_cons, mp_b2n_n2b_small by lia.
  unfold head_of_tag. chain_step. reflexivity.
Qed.

Lemma ph_fixarr k r : 144 <= k <= 159 -> parse_head (n2b k :: r) = HArr (k - 144) r.
Proof.
  intro H. rewrite parse_head_cons, mp_b2n_n2b_small by lia.
  unfold head_of_tag. do 3 chain_step. reflexivity.
Qed.

Lemma ph_fixstr k r : 160 <= k <= 191 -> parse_head (n2b k :: r) = bytes_of (k - 160) MStr r.
Proof.
  intro H. rewrite parse_head_cons, mp_b2n_n2b_small by lia.
  unfold head_of_tag. do 4 chain_step. reflexivity.
Qed.

Lemma ph_negfix k r : 224 <= k <= 255 ->
  parse_head (n2b k :: r) = HVal (POk (MInt (Z.of_N k - 256)%Z) r).
Proof.
  intro H. rewrite parse_head_cons, mp_b2n_n2b_small by lia.
  unfold head_of_tag. repeat chain_step. reflexivity.
Qed.

(* ---------- parse_head of each encoder form ---------- *)
Lemma with_len_be1 n r cont : n < 256 -> with_len 1 (n2b n :: r) cont = cont n r.
Proof. intro H. unfold with_len. rewrite take_val_be1 by exact H. reflexivity. Qed.
Lemma with_len_be2 n r cont : n < 65536 -> with_len 2 (be16 n ++ r) cont = cont n r.
Proof. intro H. unfold with_len. rewrite take_val_be2 by exact H. reflexivity. Qed.
Lemma with_len_be4 n r cont : n < 4294967296 -> with_len 4 (be32 n ++ r) cont = cont n r.
Proof. intro H. unfold with_len. rewrite take_val_be4 by exact H. reflexivity. Qed.
Lemma with_len_be8 n r cont : n < 18446744073709551616 -> with_len 8 (be64 n ++ r) cont = cont n r.
Proof. intro H. unfold with_len. rewrite take_val_be8 by exact H. reflexivity. Qed.

Lemma bytes_of_app a mk r : bytes_of (len a) mk (a ++ r) = HVal (POk (mk a) r).
Proof. unfold bytes_of. rewrite take_app. reflexivity. Qed.

Lemma ph_enc_uint n r : n < 18446744073709551616 ->
  parse_head (enc_uint n ++ r) = HVal (POk (MInt (Z.of_N n)) r).
Proof.
  intro H. unfold enc_uint. repeat chain_step; cbn [app].
  - apply ph_fixint. lia.
  - rewrite ph_cc, with_len_be1 by lia. reflexivity.
  - rewrite ph_cd, with_len_be2 by lia. reflexivity.
  - rewrite ph_ce, with_len_be4 by lia. reflexivity.
  - rewrite ph_cf, with_len_be8 by lia. reflexivity.
Qed.

Lemma signed8_neg z : (-128 <= z < 0)%Z -> signed 8 (Z.to_N (z + 256)) = z.
Proof.
  intro H. unfold signed. change (2 ^ (8 - 1)) with 128. change (2 ^ 8) with 256.
  destruct (N.ltb_spec (Z.to_N (z + 256)) 128); lia.
Qed.
Lemma signed16_neg z : (-32768 <= z < 0)%Z -> signed 16 (Z.to_N (z + 65536)) = z.
Proof.
  intro H. unfold signed. change (2 ^ (16 - 1)) with 32768. change (2 ^ 16) with 65536.
  destruct (N.ltb_spec (Z.to_N (z + 65536)) 32768); lia.
Qed.
Lemma signed32_neg z : (-2147483648 <= z < 0)%Z -> signed 32 (Z.to_N (z + 4294967296)) = z.
Proof.
  intro H. unfold signed. change (2 ^ (32 - 1)) with 2147483648. change (2 ^ 32) with 4294967296.
  destruct (N.ltb_spec (Z.to_N (z + 4294967296)) 2147483648); lia.
Qed.
Lemma signed64_neg z : (-9223372036854775808 <= z < 0)%Z ->
  signed 64 (Z.to_N (z + 18446744073709551616)) = z.
Proof.
  intro H. unfold signed. change (2 ^ (64 - 1)) with 9223372036854775808.
  change (2 ^ 64) with 18446744073709551616.
  destruct (N.ltb_spec (Z.to_N (z + 18446744073709551616)) 9223372036854775808); lia.
Qed.

Ltac zchain_step :=
  match goal with
  | |- context[Z.leb ?a ?b] => destruct (Z.leb_spec a b); try lia
  end.

Lemma ph_enc_int z r : (-9223372036854775808 <= z < 18446744073709551616)%Z ->
  parse_head (enc_int z ++ r) = HVal (POk (MInt z) r).
Proof.
  intro H. unfold enc_int. repeat zchain_step; cbn [app].
  - rewrite ph_enc_uint by lia. rewrite Z2N.id by lia. reflexivity.
  - rewrite ph_negfix by lia. do 3 f_equal. lia.
  - rewrite ph_d0, with_len_be1 by lia. rewrite signed8_neg by lia. reflexivity.
  - rewrite ph_d1, with_len_be2 by lia. rewrite signed16_neg by lia. reflexivity.
  - rewrite ph_d2, with_len_be4 by lia. rewrite signed32_neg by lia. reflexivity.
  - rewrite ph_d3, with_len_be8 by lia. rewrite signed64_neg by lia. reflexivity.
Qed.

Ltac ltchain_step :=
  match goal with
  | |- context[N.ltb ?a ?b] => destruct (N.ltb_spec a b); try lia
  end.

Lemma ph_enc_bin b r : len b < 4294967296 ->
  parse_head ((enc_bin_hdr (len b) ++ b) ++ r) = HVal (POk (MBin b) r).
Proof.
  intro H. rewrite <- app_assoc. unfold enc_bin_hdr. repeat ltchain_step; cbn [app].
  - rewrite ph_c4, with_len_be1 by lia. apply bytes_of_app.
  - rewrite ph_c5, with_len_be2 by lia. apply bytes_of_app.
  - rewrite ph_c6, with_len_be4 by lia. apply bytes_of_app.
Qed.

Lemma ph_enc_str b r : len b < 4294967296 ->
  parse_head ((enc_str_hdr (len b) ++ b) ++ r) = HVal (POk (MStr b) r).
Proof.
  intro H. rewrite <- app_assoc. unfold enc_str_hdr. repeat ltchain_step; cbn [app].
  - rewrite ph_fixstr by lia. replace (160 + len b - 160) with (len b) by lia.
    apply bytes_of_app.
  - rewrite ph_d9, with_len_be1 by lia. apply bytes_of_app.
  - rewrite ph_da, with_len_be2 by lia. apply bytes_of_app.
  - rewrite ph_db, with_len_be4 by lia. apply bytes_of_app.
Qed.

Lemma ph_enc_arr n r : n < 4294967296 -> parse_head (enc_arr_hdr n ++ r) = HArr n r.
Proof.
  intro H. unfold enc_arr_hdr. repeat ltchain_step; cbn [app].
  - rewrite ph_fixarr by lia. f_equal. lia.
  - rewrite ph_dc, with_len_be2 by lia. reflexivity.
  - rewrite ph_dd, with_len_be4 by lia. reflexivity.
Qed.

(* ---------- every encoding is non-empty ---------- *)
Lemma enc_uint_len n : (1 <= length (enc_uint n))%nat.
Proof. unfold enc_uint. repeat chain_step; cbn [length]; lia. Qed.

Lemma enc_int_len z : (1 <= length (enc_int z))%nat.
Proof.
  unfold enc_int. repeat zchain_step; cbn [length]; try lia. apply enc_uint_len.
Qed.

Lemma enc_bin_hdr_len n : (1 <= length (enc_bin_hdr n))%nat.
Proof. unfold enc_bin_hdr. repeat ltchain_step; cbn [length]; lia. Qed.
Lemma enc_str_hdr_len n : (1 <= length (enc_str_hdr n))%nat.
Proof. unfold enc_str_hdr. repeat ltchain_step; cbn [length]; lia. Qed.
Lemma enc_arr_hdr_len n : (1 <= length (enc_arr_hdr n))%nat.
Proof. unfold enc_arr_hdr. repeat ltchain_step; cbn [length]; lia. Qed.

Fixpoint enc_list (l : list mval) : bytes :=
  match l with [] => [] | x :: t => mp_encode x ++ enc_list t end.

Lemma mp_encode_arr l :
  mp_encode (MArr l) = enc_arr_hdr (N.of_nat (length l)) ++ enc_list l.
Proof.
  reflexivity.
Qed.

Lemma mp_encode_len v : (1 <= length (mp_encode v))%nat.
Proof.
  destruct v as [|[]|z|b|b|l].
  - cbn. lia.
  - cbn. lia.
  - cbn. lia.
  - apply enc_int_len.
  - cbn [mp_encode]. rewrite app_length. pose proof (enc_bin_hdr_len (len b)). lia.
  - cbn [mp_encode]. rewrite app_length. pose proof (enc_str_hdr_len (len b)). lia.
  - rewrite mp_encode_arr, app_length.
    pose proof (enc_arr_hdr_len (N.of_nat (length l))). lia.
Qed.

(* ---------- induction on values (nested lists) ---------- *)
Section MvalInd.
  Variable P : mval -> Prop.
  Hypothesis HNil : P MNil.
  Hypothesis HBool : forall b, P (MBool b).
  Hypothesis HInt : forall z, P (MInt z).
  Hypothesis HBin : forall b, P (MBin b).
  Hypothesis HStr : forall b, P (MStr b).
  Hypothesis HArr' : forall l, Forall P l -> P (MArr l).
  Fixpoint mval_ind' (v : mval) : P v :=
    match v with
    | MNil => HNil
    | MBool b => HBool b
    | MInt z => HInt z
    | MBin b => HBin b
    | MStr b => HStr b
    | MArr l =>
      HArr' l ((fix go (l : list mval) : Forall P l :=
                  match l with
                  | [] => Forall_nil P
                  | x :: t => Forall_cons x (mval_ind' x) (go t)
                  end) l)
    end.
End MvalInd.

(* ---------- unfolding the parser one step ---------- *)
Lemma mp_parse_S f bs :
  mp_parse (S f) bs =
  match parse_head bs with
  | HVal p => p
  | HArr n r =>
    match mp_parse_n f n r [] with
    | POk l r' => POk (MArr l) r'
    | PShort => PShort | PBad => PBad | PUnmod => PUnmod
    end
  end.
Proof. reflexivity. Qed.

Lemma mp_parse_n_S f n bs acc :
  mp_parse_n (S f) n bs acc =
  if n =? 0 then POk (rev_append acc []) bs
  else
    match mp_parse f bs with
    | POk v r => mp_parse_n f (n - 1) r (v :: acc)
    | PShort => PShort | PBad => PBad | PUnmod => PUnmod
    end.
Proof. reflexivity. Qed.

Definition wf_all (l : list mval) : Prop :=
  (fix all (l : list mval) : Prop := match l with [] => True | x :: t => wf x /\ all t end) l.

Definition parse_ok (v : mval) : Prop :=
  wf v -> forall f rest, (2 * length (mp_encode v) <= f)%nat ->
  mp_parse f (mp_encode v ++ rest) = POk v rest.

Lemma parse_n_encode l : Forall parse_ok l -> wf_all l ->
  forall f rest acc, (2 * length (enc_list l) + 1 <= f)%nat ->
  mp_parse_n f (N.of_nat (length l)) (enc_list l ++ rest) acc = POk (rev acc ++ l) rest.
Proof.
  induction 1 as [|x t Hx Ht IH]; intros Hwf f rest acc Hf.
  - destruct f as [|f]; [lia|]. rewrite mp_parse_n_S. cbn [length enc_list app].
    change (N.of_nat 0 =? 0) with true. cbn iota.
    rewrite rev_append_rev, !app_nil_r. reflexivity.
  - destruct Hwf as [Hwx Hwt].
    cbn [enc_list length] in *. rewrite app_length in Hf.
    pose proof (mp_encode_len x) as Hlx.
    destruct f as [|f]; [lia|]. rewrite mp_parse_n_S.
    destruct (N.eqb_spec (N.of_nat (S (length t))) 0) as [E|_]; [lia|].
    rewrite <- app_assoc. rewrite (Hx Hwx) by lia.
    replace (N.of_nat (S (length t)) - 1) with (N.of_nat (length t)) by lia.
    rewrite (IH Hwt) by lia. cbn [rev]. rewrite <- app_assoc. reflexivity.
Qed.

Lemma parse_encode_gen v : parse_ok v.
Proof.
  induction v as [|b|z|b|b|l IH] using mval_ind'; unfold parse_ok; intros Hwf f rest Hf.
  - destruct f as [|f]; [cbn in Hf; lia|]. rewrite mp_parse_S. reflexivity.
  - destruct f as [|f]; [destruct b; cbn in Hf; lia|]. rewrite mp_parse_S.
    destruct b; reflexivity.
  - pose proof (mp_encode_len (MInt z)). destruct f as [|f]; [lia|].
    rewrite mp_parse_S. cbn [mp_encode]. rewrite ph_enc_int by exact Hwf. reflexivity.
  - pose proof (mp_encode_len (MBin b)). destruct f as [|f]; [lia|].
    rewrite mp_parse_S. cbn [mp_encode]. rewrite ph_enc_bin by exact Hwf. reflexivity.
  - pose proof (mp_encode_len (MStr b)). destruct f as [|f]; [lia|].
    rewrite mp_parse_S. cbn [mp_encode]. rewrite ph_enc_str by exact Hwf. reflexivity.
  - pose proof (mp_encode_len (MArr l)). destruct f as [|f]; [lia|].
    destruct Hwf as [Hlen Hall].
    rewrite mp_parse_S. rewrite mp_encode_arr in *. rewrite <- app_assoc.
    rewrite ph_enc_arr by exact Hlen.
    rewrite app_length in Hf.
    pose proof (enc_arr_hdr_len (N.of_nat (length l))).
    rewrite (parse_n_encode l IH Hall) by lia. reflexivity.
Qed.

(* (TARGET) parsing the encoding of a well-formed value gives the value back and
   leaves exactly the bytes that followed it *)
Lemma mp_read_encode (v : mval) (rest : bytes) :
  wf v -> mp_read (mp_encode v ++ rest) = POk v rest.
Proof.
  intro H. unfold mp_read. apply parse_encode_gen; [exact H|].
  rewrite app_length. lia.
Qed.

(* ---------- what a successful parse leaves is a suffix of its input ---------- *)
Definition head_sfx (r : bytes) (h : head) : Prop :=
  match h with
  | HVal (POk _ rest) => exists a, r = a ++ rest
  | HVal _ => True
  | HArr _ r' => exists a, r = a ++ r'
  end.

Lemma head_sfx_trans a r r' h : r = a ++ r' -> head_sfx r' h -> head_sfx r h.
Proof.
  intros -> H. destruct h as [[v rest| | |]|n r0]; cbn in *; auto.
  - destruct H as [a' ->]. exists (a ++ a'). apply app_assoc.
  - destruct H as [a' ->]. exists (a ++ a'). apply app_assoc.
Qed.

Lemma head_sfx_bytes_of n mk r : head_sfx r (bytes_of n mk r).
Proof.
  unfold bytes_of. destruct (take n r) as [[a r']|] eqn:E; cbn; [|exact I].
  exists a. eapply take_split; eassumption.
Qed.

Lemma head_sfx_with_len k r cont :
  (forall n r', head_sfx r' (cont n r')) -> head_sfx r (with_len k r cont).
Proof.
  intro H. unfold with_len. destruct (take_val k r) as [[n r']|] eqn:E; cbn; [|exact I].
  apply take_val_split in E as [a ->]. eapply head_sfx_trans; [reflexivity|apply H].
Qed.

Lemma head_sfx_ok v r : head_sfx r (HVal (POk v r)).
Proof. exists []. reflexivity. Qed.
Lemma head_sfx_arr n r : head_sfx r (HArr n r).
Proof. exists []. reflexivity. Qed.

Lemma head_sfx_tag tn r : head_sfx r (head_of_tag tn r).
Proof.
  unfold head_of_tag.
  repeat match goal with
  | |- head_sfx _ (if ?c then _ else _) => destruct c
  end;
  lazymatch goal with
  | |- head_sfx _ (HVal (POk _ _)) => apply head_sfx_ok
  | |- head_sfx _ (HArr _ _) => apply head_sfx_arr
  | |- head_sfx _ (HVal _) => exact I
  | |- head_sfx _ (bytes_of _ _ _) => apply head_sfx_bytes_of
  | |- head_sfx _ (with_len _ _ _) =>
    apply head_sfx_with_len; intros;
    lazymatch goal with
    | |- head_sfx _ (HVal (POk _ _)) => apply head_sfx_ok
    | |- head_sfx _ (HArr _ _) => apply head_sfx_arr
    | |- head_sfx _ (bytes_of _ _ _) => apply head_sfx_bytes_of
    end
  end.
Qed.

Lemma parse_head_val_sfx bs v rest : parse_head bs = HVal (POk v rest) ->
  exists pre, bs = pre ++ rest /\ (0 < length pre)%nat.
Proof.
  destruct bs as [|t r]; [discriminate|]. rewrite parse_head_cons. intro E.
  pose proof (head_sfx_tag (b2n t) r) as H. rewrite E in H. destruct H as [a ->].
  exists (t :: a). split; [reflexivity|cbn; lia].
Qed.

Lemma parse_head_arr_sfx bs n r' : parse_head bs = HArr n r' ->
  exists pre, bs = pre ++ r' /\ (0 < length pre)%nat.
Proof.
  destruct bs as [|t r]; [discriminate|]. rewrite parse_head_cons. intro E.
  pose proof (head_sfx_tag (b2n t) r) as H. rewrite E in H. destruct H as [a ->].
  exists (t :: a). split; [reflexivity|cbn; lia].
Qed.

Lemma parse_suffix f :
  (forall bs v rest, mp_parse f bs = POk v rest ->
     exists pre, bs = pre ++ rest /\ (0 < length pre)%nat) /\
  (forall n bs acc l rest, mp_parse_n f n bs acc = POk l rest ->
     exists pre, bs = pre ++ rest).
Proof.
  induction f as [|f [IH1 IH2]]; [split; intros; discriminate|]. split.
  - intros bs v rest. rewrite mp_parse_S.
    destruct (parse_head bs) as [p|n r] eqn:E.
    + intros ->. apply parse_head_val_sfx in E. exact E.
    + destruct (mp_parse_n f n r []) as [l r'| | |] eqn:En; try discriminate.
      intro H. injection H as _ <-.
      apply parse_head_arr_sfx in E as [pre [-> Hpre]].
      apply IH2 in En as [pre' ->].
      exists (pre ++ pre'). split; [apply app_assoc|rewrite app_length; lia].
  - intros n bs acc l rest. rewrite mp_parse_n_S. destruct (n =? 0).
    + intro H. injection H as _ <-. exists []. reflexivity.
    + destruct (mp_parse f bs) as [v r| | |] eqn:E; try discriminate.
      intro H. apply IH1 in E as [pre [-> _]]. apply IH2 in H as [pre' ->].
      exists (pre ++ pre'). apply app_assoc.
Qed.

(* (TARGET) a successful read consumes a non-empty prefix of its input *)
Lemma mp_read_suffix (bs : bytes) (v : mval) (rest : bytes) :
  mp_read bs = POk v rest -> exists pre, bs = pre ++ rest /\ (0 < length pre)%nat.
Proof. unfold mp_read. apply (proj1 (parse_suffix _)). Qed.

(* (TARGET) an empty input is "short" (clean end of stream) *)
Lemma mp_read_nil : mp_read [] = PShort.
Proof. reflexivity. Qed.
