(* NoPanicProofs.v — C15: on every input the receivers return a result or an error,
   never a panic outcome (under validators admitting only majors 1 and 2), and the
   inventory of panic-capable constructs in /repo is the one the model accounts for.
   Statements marked (TARGET) are used verbatim by props/. *)
From Coq Require Import List NArith ZArith Bool Lia ZifyN ZifyNat ZifyBool String.
From Coq.Strings Require Import Byte.
From SP Require Import Bytes Params Msgpack Crypto Errors Nonce Packets Verify Decrypt Signcrypt Armor PanicSites PanicModel.
Import ListNotations.
Open Scope N_scope.

Definition is_panic (e : err) : bool := match e with Panic _ => true | _ => false end.

(* a validator that admits only the major versions the library implements *)
Definition vd_ok (vd : validator) : Prop :=
  forall v, validate_version vd v = true -> (vmaj v = 1 \/ vmaj v = 2)%Z.

(* (TARGET) the inventory regenerated from /repo equals the one the model accounts for *)
Lemma inventory_covered : panic_sites = expected_sites.
Proof. reflexivity. Qed.

(* (TARGET) the shipped validators are such validators *)
Lemma shipped_validators_ok : vd_ok AnyKnownMajor /\ vd_ok (Single v1) /\ vd_ok (Single v2).
Proof.
  unfold vd_ok, validate_version. repeat split; intros v H.
  - unfold known_versions, existsb in H. rewrite orb_false_r in H. apply orb_true_iff in H.
    destruct H as [H|H]; apply Z.eqb_eq in H; [left|right]; rewrite <- H; reflexivity.
  - unfold version_eqb in H. apply andb_true_iff in H. destruct H as [H _].
    apply Z.eqb_eq in H. left. rewrite H. reflexivity.
  - unfold version_eqb in H. apply andb_true_iff in H. destruct H as [H _].
    apply Z.eqb_eq in H. right. rewrite H. reflexivity.
Qed.

(* ---------- auxiliary facts: the non-loop parts only produce non-panic errors ---------- *)

Ltac dm := match goal with |- context [match ?x with _ => _ end] => destruct x eqn:? end.
Ltac inv H := inversion H; subst; clear H.

Lemma read_packet_np input e : read_packet input = Err e -> is_panic e = false.
Proof. unfold read_packet. destruct (mp_read input); intro H; inv H; reflexivity. Qed.

Lemma of_dres_np {A} (d : dres A) e : of_dres d = Err e -> is_panic e = false.
Proof. destruct d; intro H; inv H; reflexivity. Qed.

Lemma aeos_np rest : is_panic (assert_end_of_stream rest) = false.
Proof. unfold assert_end_of_stream. destruct (mp_read rest); reflexivity. Qed.

Lemma read_header_bytes_np input e : read_header_bytes input = Err e -> is_panic e = false.
Proof.
  unfold read_header_bytes. destruct (mp_read input); try (intro H; inv H; reflexivity).
  destruct (as_bytes a); intro H; inv H; reflexivity.
Qed.

Lemma decode_header_np view hb e : decode_header view hb = Err e -> is_panic e = false.
Proof.
  unfold decode_header. destruct (mp_read hb); try (intro H; inv H; reflexivity).
  apply of_dres_np.
Qed.

Lemma validate_sig_header_np vd typ h e : validate_sig_header vd typ h = Err e -> is_panic e = false.
Proof. unfold validate_sig_header. repeat dm; intro H; inv H; reflexivity. Qed.

Lemma validate_sig_header_ok vd typ h u :
  validate_sig_header vd typ h = Ok u -> validate_version vd (h_version h) = true.
Proof.
  unfold validate_sig_header. repeat dm; intro H; inv H.
  apply negb_false_iff. assumption.
Qed.

Lemma major_cases v : (vmaj v = 1 \/ vmaj v = 2)%Z ->
  ((vmaj v =? 1)%Z = true) \/ ((vmaj v =? 1)%Z = false /\ (vmaj v =? 2)%Z = true).
Proof. intros [H|H]; rewrite H; [left|right]; auto. Qed.

(* checkChunkState never panics for version 2, and for version 1 when the flag is the emptiness test *)
Lemma ccs_v2_np v l n final e : (vmaj v =? 1)%Z = false -> (vmaj v =? 2)%Z = true ->
  check_chunk_state v l n final = Err e -> is_panic e = false.
Proof.
  intros H1 H2. unfold check_chunk_state. rewrite H1, H2. dm; intro H; inv H; reflexivity.
Qed.

Lemma ccs_v1_np v l n final e : (vmaj v =? 1)%Z = true -> final = Nat.eqb l 0 ->
  check_chunk_state v l n final = Err e -> is_panic e = false.
Proof.
  intros H1 ->. unfold check_chunk_state. rewrite H1, eqb_reflx. intro H; inv H.
Qed.

(* a chunk that passed checkChunkState with final = false is non-empty, in version 2 ... *)
Lemma ccs_nonfinal_nonempty_not1 v (chunk : bytes) n u : (vmaj v =? 1)%Z = false ->
  check_chunk_state v (List.length chunk) n false = Ok u -> chunk <> [].
Proof.
  intros H1. unfold check_chunk_state. rewrite H1. destruct (vmaj v =? 2)%Z; [|discriminate].
  destruct chunk; [|discriminate]. cbn. rewrite orb_true_r. discriminate.
Qed.
(* ... and in version 1 *)
Lemma ccs_nonfinal_nonempty_1 v (chunk : bytes) n u : (vmaj v =? 1)%Z = true ->
  check_chunk_state v (List.length chunk) n false = Ok u -> chunk <> [].
Proof.
  intros H1. unfold check_chunk_state. rewrite H1. destruct chunk; [|discriminate]. cbn. discriminate.
Qed.
Lemma ccs_nonfinal_nonempty v (chunk : bytes) n u :
  check_chunk_state v (List.length chunk) n false = Ok u -> chunk <> [].
Proof.
  destruct (vmaj v =? 1)%Z eqn:H1.
  - apply ccs_nonfinal_nonempty_1; assumption.
  - apply ccs_nonfinal_nonempty_not1; assumption.
Qed.

Lemma Forall_removelast {A} (P : A -> Prop) l : Forall P l -> Forall P (removelast l).
Proof.
  induction 1 as [|x l Hx Hl IH]; [constructor|]. cbn [removelast].
  destruct l; [constructor|]. constructor; assumption.
Qed.

Lemma chunks_end_ok (acc : list bytes) :
  Forall (fun ch => ch <> []) acc -> Forall (fun ch : bytes => ch <> []) (removelast (rev_append acc [])).
Proof.
  intro H. apply Forall_removelast. rewrite rev_append_rev, app_nil_r. apply Forall_rev. assumption.
Qed.
Lemma chunks_final_ok (acc : list bytes) chunk :
  Forall (fun ch => ch <> []) acc -> Forall (fun ch : bytes => ch <> []) (removelast (rev_append (chunk :: acc) [])).
Proof.
  intro H. rewrite rev_append_rev, app_nil_r. cbn [rev]. rewrite removelast_last.
  apply Forall_rev. assumption.
Qed.

(* version-1 signature blocks carry no flag: final is the emptiness of the chunk *)
Lemma view_sig_block_v1 v m sig chunk final : (vmaj v =? 1)%Z = true ->
  of_dres (view_sig_block v m) = Ok (sig, chunk, final) -> final = Nat.eqb (List.length chunk) 0.
Proof.
  intros H1. unfold view_sig_block. rewrite H1. unfold dbind.
  repeat dm; cbn; intro H; inv H; reflexivity.
Qed.

(* version-1 encryption blocks carry no flag: final is "the ciphertext is a bare 16-byte tag" *)
Lemma view_enc_block_v1 v m auths ct final : (vmaj v =? 1)%Z = true ->
  of_dres (view_enc_block v m) = Ok (auths, ct, final) -> final = Nat.eqb (List.length ct) 16.
Proof.
  intros H1. unfold view_enc_block. rewrite H1. unfold dbind.
  repeat dm; cbn; intro H; inv H; reflexivity.
Qed.

Lemma eqb16 a b : a = (16 + b)%nat -> Nat.eqb a 16 = Nat.eqb b 0.
Proof.
  intros ->. destruct b; [reflexivity|]. cbn [Nat.eqb]. apply Nat.eqb_neq. lia.
Qed.

Lemma nonce_pkb_some v i : ((vmaj v =? 1)%Z = true) \/ ((vmaj v =? 1)%Z = false /\ (vmaj v =? 2)%Z = true) ->
  nonce_payload_key_box v i = None -> False.
Proof.
  unfold nonce_payload_key_box. intros [H|[H1 H2]]; [rewrite H|rewrite H1, H2]; discriminate.
Qed.

Lemma validate_enc_header_np vd h e : validate_enc_header vd h = Err e -> is_panic e = false.
Proof. unfold validate_enc_header. repeat dm; intro H; inv H; reflexivity. Qed.

Lemma validate_enc_header_ok vd h u :
  validate_enc_header vd h = Ok u -> validate_version vd (h_version h) = true.
Proof.
  unfold validate_enc_header. repeat dm; intro H; inv H.
  apply negb_false_iff. assumption.
Qed.

Ltac np_step := match goal with
 | |- Err _ = Err _ -> _ => let H := fresh in intro H; inv H; try reflexivity
 | |- Ok _ = Err _ -> _ => discriminate
 | |- context [match (match ?x with _ => _ end) with _ => _ end] => destruct x eqn:?
 | |- context [match ?x with _ => _ end] => destruct x eqn:?
 end.

Section NP.
Variable c : crypto.

Lemma verify_read_header_np vd typ input e :
  verify_read_header c vd typ input = Err e -> is_panic e = false.
Proof.
  unfold verify_read_header, bind.
  destruct (read_header_bytes input) as [hr|e0] eqn:E1; [|intro H; inv H; eapply read_header_bytes_np; eassumption].
  destruct (decode_header view_sig_header (fst hr)) as [h|e0] eqn:E2; [|intro H; inv H; eapply decode_header_np; eassumption].
  destruct (validate_sig_header vd typ h) eqn:E3; intro H; inv H. eapply validate_sig_header_np; eassumption.
Qed.

Lemma verify_read_header_ok vd typ input h hh rest : vd_ok vd ->
  verify_read_header c vd typ input = Ok (h, hh, rest) -> (vmaj (h_version h) = 1 \/ vmaj (h_version h) = 2)%Z.
Proof.
  intro Hvd. unfold verify_read_header, bind.
  destruct (read_header_bytes input) as [hr|e0]; [|discriminate].
  destruct (decode_header view_sig_header (fst hr)) as [h0|e0]; [|discriminate].
  destruct (validate_sig_header vd typ h0) eqn:E3; [|discriminate]. intro H; inv H.
  apply Hvd. eapply validate_sig_header_ok; eassumption.
Qed.

Lemma verify_loop_np fuel v pk hh : (vmaj v = 1 \/ vmaj v = 2)%Z ->
  forall seqno input acc, is_panic (so_end (verify_loop c fuel v pk hh seqno input acc)) = false.
Proof.
  intro Hv. apply major_cases in Hv.
  induction fuel as [|f IH]; intros seqno input acc; [reflexivity|].
  cbn [verify_loop].
  destruct (read_packet input) as [[m rest]|e] eqn:E1; [|cbn; eapply read_packet_np; eassumption].
  destruct (negb ((vmaj v =? 1)%Z || (vmaj v =? 2)%Z)) eqn:E2.
  { exfalso. destruct Hv as [H|[H1 H2]]; [rewrite H in E2|rewrite H1, H2 in E2]; discriminate. }
  destruct (of_dres (view_sig_block v m)) as [[[sig chunk] final]|e] eqn:E3; [|cbn; eapply of_dres_np; eassumption].
  destruct (attached_sig_input c v hh chunk seqno final) as [inp|] eqn:E4.
  2:{ exfalso. unfold attached_sig_input in E4. destruct Hv as [H|[H1 H2]]; [rewrite H in E4|rewrite H1, H2 in E4]; discriminate. }
  destruct (negb (ed_verify c pk inp sig)); [reflexivity|].
  destruct (check_chunk_state v (List.length chunk) seqno final) eqn:E5.
  - destruct final; [cbn; apply aeos_np|apply IH].
  - cbn. destruct Hv as [H|[H1 H2]].
    + eapply ccs_v1_np; [exact H| |exact E5]. eapply view_sig_block_v1; eassumption.
    + eapply ccs_v2_np; eassumption.
Qed.

(* (TARGET) attached-signature verification: for EVERY input, keyring and such validator *)
Lemma verify_stream_no_panic (vd : validator) (kr : sigring) (input : bytes) :
  vd_ok vd ->
  match verify_stream c vd kr input with
  | Err e => is_panic e = false
  | Ok (_, out) => is_panic (so_end out) = false
  end.
Proof.
  intro Hvd. unfold verify_stream, bind.
  destruct (verify_read_header c vd mt_attached input) as [[[h hh] rest]|e] eqn:E1;
    [|eapply verify_read_header_np; eassumption].
  destruct (lookup_signer kr (h_a h)); [|reflexivity].
  apply verify_loop_np. eapply verify_read_header_ok; eassumption.
Qed.

Lemma verify_detached_no_panic (vd : validator) (kr : sigring) (msg sigfile : bytes) :
  match verify_detached c vd kr msg sigfile with
  | Err e => is_panic e = false
  | Ok _ => True
  end.
Proof.
  unfold verify_detached, bind.
  destruct (verify_read_header c vd mt_detached sigfile) as [[[h hh] rest]|e] eqn:E1;
    [|eapply verify_read_header_np; eassumption].
  destruct (mp_read rest); try reflexivity.
  destruct (of_dres (as_bytes a)) eqn:E2; [|eapply of_dres_np; eassumption].
  destruct (lookup_signer kr (h_a h)); [|reflexivity].
  destruct (ed_verify c _ _ _); [exact I|reflexivity].
Qed.

Lemma verify_loop_chunks fuel v pk hh :
  forall seqno input acc, Forall (fun ch => ch <> []) acc ->
  Forall (fun ch : bytes => ch <> []) (removelast (so_chunks (verify_loop c fuel v pk hh seqno input acc))).
Proof.
  induction fuel as [|f IH]; intros seqno input acc Hacc; [apply chunks_end_ok; assumption|].
  cbn [verify_loop].
  destruct (read_packet input) as [[m rest]|e] eqn:E1; [|apply chunks_end_ok; assumption].
  destruct (negb ((vmaj v =? 1)%Z || (vmaj v =? 2)%Z)) eqn:E2; [apply chunks_end_ok; assumption|].
  destruct (of_dres (view_sig_block v m)) as [[[sig chunk] final]|e] eqn:E3; [|apply chunks_end_ok; assumption].
  destruct (attached_sig_input c v hh chunk seqno final) as [inp|] eqn:E4; [|apply chunks_end_ok; assumption].
  destruct (negb (ed_verify c pk inp sig)); [apply chunks_end_ok; assumption|].
  destruct (check_chunk_state v (List.length chunk) seqno final) eqn:E5; [|apply chunks_end_ok; assumption].
  destruct final; [apply chunks_final_ok; assumption|].
  apply IH. constructor; [|assumption]. eapply ccs_nonfinal_nonempty; eassumption.
Qed.

Lemma verify_no_empty_nonfinal_chunk (vd : validator) (kr : sigring) (input : bytes) pk out :
  verify_stream c vd kr input = Ok (pk, out) -> Forall (fun ch => ch <> []) (removelast (so_chunks out)).
Proof.
  unfold verify_stream, bind.
  destruct (verify_read_header c vd mt_attached input) as [[[h hh] rest]|e]; [|discriminate].
  destruct (lookup_signer kr (h_a h)); [|discriminate].
  remember (S (List.length rest)) as fuel. clear Heqfuel.
  intro H; inv H. apply verify_loop_chunks. constructor.
Qed.

(* ---------- decryption ---------- *)

Lemma sym_key_np b e : sym_key b = Err e -> is_panic e = false.
Proof. unfold sym_key. dm; intro H; inv H; reflexivity. Qed.

Section Major.
Variable v : version.
Hypothesis Hv : ((vmaj v =? 1)%Z = true) \/ ((vmaj v =? 1)%Z = false /\ (vmaj v =? 2)%Z = true).

Lemma try_visible_np kr eph rcvs e : try_visible c kr v eph rcvs = Err e -> is_panic e = false.
Proof.
  unfold try_visible, bind. repeat np_step; eauto using sym_key_np.
  exfalso; eapply nonce_pkb_some; eassumption.
Qed.

Lemma try_hidden_boxes_np shared rcvs : forall i e,
  try_hidden_boxes c v shared rcvs i = Err e -> is_panic e = false.
Proof.
  induction rcvs as [|[kid box] t IH]; intros i e; cbn [try_hidden_boxes]; [discriminate|].
  destruct kid; [|apply IH].
  destruct (nonce_payload_key_box v i) eqn:E; [|exfalso; eapply nonce_pkb_some; eassumption].
  destruct (sb_open c shared b box); [|apply IH].
  unfold bind. destruct (sym_key b0) eqn:E2; intro H; inv H. eapply sym_key_np; eassumption.
Qed.

Lemma try_hidden_np keys eph rcvs : forall e,
  try_hidden c keys v eph rcvs = Err e -> is_panic e = false.
Proof.
  induction keys as [|k t IH]; intros e; cbn [try_hidden]; [discriminate|].
  destruct (try_hidden_boxes c v (dh_shared c (fst k) eph) rcvs 0) as [[[key i]|]|e0] eqn:E.
  - discriminate.
  - apply IH.
  - intro H; inv H. eapply try_hidden_boxes_np; eassumption.
Qed.

Lemma mac_key_receiver_some index sk spk epk hh : mac_key_receiver c v index sk spk epk hh = None -> False.
Proof.
  unfold mac_key_receiver. destruct Hv as [H|[H1 H2]]; [rewrite H|rewrite H1, H2]; discriminate.
Qed.
End Major.

Lemma process_enc_header_np vd kr hh h e : vd_ok vd ->
  process_enc_header c vd kr hh h = Err e -> is_panic e = false.
Proof.
  intro Hvd. unfold process_enc_header, bind.
  destruct (validate_enc_header vd h) eqn:E0; [|intro H; inv H; eapply validate_enc_header_np; eassumption].
  assert (Hv := major_cases _ (Hvd _ (validate_enc_header_ok _ _ _ E0))).
  repeat np_step; eauto using try_visible_np, try_hidden_np;
    exfalso; eapply mac_key_receiver_some; eassumption.
Qed.

Lemma process_enc_header_ok vd kr hh h m st : vd_ok vd ->
  process_enc_header c vd kr hh h = Ok (m, st) -> (vmaj (ds_version st) = 1 \/ vmaj (ds_version st) = 2)%Z.
Proof.
  intro Hvd. unfold process_enc_header, bind.
  destruct (validate_enc_header vd h) eqn:E0; [|discriminate].
  assert (Hv := Hvd _ (validate_enc_header_ok _ _ _ E0)).
  repeat (match goal with
   | |- Err _ = Ok _ -> _ => discriminate
   | |- Ok _ = Ok _ -> _ => let H := fresh in intro H; inv H; exact Hv
   | |- context [match ?x with _ => _ end] => destruct x eqn:?
   end).
Qed.

Lemma decrypt_loop_chunks fuel st :
  forall n input acc, Forall (fun ch => ch <> []) acc ->
  Forall (fun ch : bytes => ch <> []) (removelast (so_chunks (decrypt_loop c fuel st n input acc))).
Proof.
  induction fuel as [|f IH]; intros n input acc Hacc; [apply chunks_end_ok; assumption|].
  cbn [decrypt_loop].
  destruct (read_packet input) as [[m rest]|e] eqn:E1; [|apply chunks_end_ok; assumption].
  cbv zeta.
  destruct (negb ((vmaj (ds_version st) =? 1)%Z || (vmaj (ds_version st) =? 2)%Z)) eqn:E2; [apply chunks_end_ok; assumption|].
  destruct (of_dres (view_enc_block (ds_version st) m)) as [[[auths ct] final]|e] eqn:E3; [|apply chunks_end_ok; assumption].
  destruct (negb (block_number_ok n)); [apply chunks_end_ok; assumption|].
  destruct (payload_hash c (ds_version st) (ds_hh st) (nonce_chunk_secretbox n) ct final) as [ph|] eqn:E4; [|apply chunks_end_ok; assumption].
  destruct (nth_error auths (N.to_nat (ds_position st))) as [theirs|]; [|apply chunks_end_ok; assumption].
  destruct (negb (bytes_eqb _ theirs)); [apply chunks_end_ok; assumption|].
  destruct (sb_open c (ds_payload_key st) (nonce_chunk_secretbox n) ct) as [chunk|] eqn:E5; [|apply chunks_end_ok; assumption].
  destruct (check_chunk_state (ds_version st) (List.length chunk) n final) eqn:E6; [|apply chunks_end_ok; assumption].
  destruct final; [apply chunks_final_ok; assumption|].
  apply IH. constructor; [|assumption]. eapply ccs_nonfinal_nonempty; eassumption.
Qed.

Lemma open_no_empty_nonfinal_chunk (vd : validator) (kr : keyring) (input : bytes) m out :
  open_stream c vd kr input = Ok (m, out) -> Forall (fun ch => ch <> []) (removelast (so_chunks out)).
Proof.
  unfold open_stream, bind.
  destruct (read_header_bytes input) as [hr|e]; [|discriminate].
  destruct (decode_header view_enc_header (fst hr)) as [h|e]; [|discriminate].
  destruct (process_enc_header c vd kr (sha512 c (fst hr)) h) as [ms|e]; [|discriminate].
  remember (S (List.length (snd hr))) as fuel. clear Heqfuel.
  intro H; inv H. apply decrypt_loop_chunks. constructor.
Qed.

(* EXTRA HYPOTHESIS (not in the original statement; see the report): secretbox.Open returns a
   plaintext 16 bytes shorter than the box.  Without it open_stream_no_panic is FALSE for a
   pathological [c]: in version 1 the final flag is computed from the ciphertext length and
   checkChunkState compares it with the emptiness of the plaintext (Panic 1). *)
Section OpenLen.
Hypothesis Hopen_len : forall k n b m, sb_open c k n b = Some m -> List.length b = (16 + List.length m)%nat.

Lemma decrypt_loop_np fuel st : (vmaj (ds_version st) = 1 \/ vmaj (ds_version st) = 2)%Z ->
  forall n input acc, is_panic (so_end (decrypt_loop c fuel st n input acc)) = false.
Proof.
  intro Hv. apply major_cases in Hv.
  induction fuel as [|f IH]; intros n input acc; [reflexivity|].
  cbn [decrypt_loop].
  destruct (read_packet input) as [[m rest]|e] eqn:E1; [|cbn; eapply read_packet_np; eassumption].
  cbv zeta.
  destruct (negb ((vmaj (ds_version st) =? 1)%Z || (vmaj (ds_version st) =? 2)%Z)) eqn:E2.
  { exfalso. destruct Hv as [H|[H1 H2]]; [rewrite H in E2|rewrite H1, H2 in E2]; discriminate. }
  destruct (of_dres (view_enc_block (ds_version st) m)) as [[[auths ct] final]|e] eqn:E3; [|cbn; eapply of_dres_np; eassumption].
  destruct (negb (block_number_ok n)); [reflexivity|].
  destruct (payload_hash c (ds_version st) (ds_hh st) (nonce_chunk_secretbox n) ct final) as [ph|] eqn:E4.
  2:{ exfalso. unfold payload_hash in E4. destruct Hv as [H|[H1 H2]]; [rewrite H in E4|rewrite H1, H2 in E4]; discriminate. }
  destruct (nth_error auths (N.to_nat (ds_position st))) as [theirs|]; [|reflexivity].
  destruct (negb (bytes_eqb _ theirs)); [reflexivity|].
  destruct (sb_open c (ds_payload_key st) (nonce_chunk_secretbox n) ct) as [chunk|] eqn:E5; [|reflexivity].
  destruct (check_chunk_state (ds_version st) (List.length chunk) n final) eqn:E6.
  - destruct final; [cbn; apply aeos_np|apply IH].
  - cbn. destruct Hv as [H|[H1 H2]].
    + eapply ccs_v1_np; [exact H| |exact E6].
      rewrite (view_enc_block_v1 _ _ _ _ _ H E3). apply eqb16. eapply Hopen_len; eassumption.
    + eapply ccs_v2_np; eassumption.
Qed.

(* (TARGET) decryption: for EVERY input, keyring (any keys, any sender policy) and such validator *)
Lemma open_stream_no_panic (vd : validator) (kr : keyring) (input : bytes) :
  vd_ok vd ->
  match open_stream c vd kr input with
  | Err e => is_panic e = false
  | Ok (_, out) => is_panic (so_end out) = false
  end.
Proof.
  intro Hvd. unfold open_stream, bind.
  destruct (read_header_bytes input) as [hr|e] eqn:E1; [|eapply read_header_bytes_np; eassumption].
  destruct (decode_header view_enc_header (fst hr)) as [h|e] eqn:E2; [|eapply decode_header_np; eassumption].
  destruct (process_enc_header c vd kr (sha512 c (fst hr)) h) as [[m st]|e] eqn:E3;
    [|eapply process_enc_header_np; eassumption].
  cbn [fst snd]. apply decrypt_loop_np. eapply process_enc_header_ok; eassumption.
Qed.
End OpenLen.

(* ---------- signcryption ---------- *)

Lemma sc_try_derived_np derived i kid box : forall e,
  sc_try_derived c derived i kid box = Err e -> is_panic e = false.
Proof.
  induction derived as [|d t IH]; intros e; cbn [sc_try_derived]; [discriminate|].
  destruct (bytes_eqb _ kid); [|apply IH].
  destruct (sb_open c d _ box); [|intro H; inv H; reflexivity].
  unfold bind. destruct (sym_key b) eqn:E2; intro H; inv H. eapply sym_key_np; eassumption.
Qed.

Lemma sc_try_box_np derived rcvs : forall i e,
  sc_try_box c derived rcvs i = Err e -> is_panic e = false.
Proof.
  induction rcvs as [|[kid box] t IH]; intros i e; cbn [sc_try_box]; [discriminate|].
  destruct (sc_try_derived c derived i kid box) as [[k|]|e0] eqn:E.
  - discriminate.
  - apply IH.
  - intro H; inv H. eapply sc_try_derived_np; eassumption.
Qed.

Lemma sc_try_sym_np rs eph rcvs : forall i e,
  sc_try_sym c rs eph rcvs i = Err e -> is_panic e = false.
Proof.
  induction rcvs as [|[kid box] t IH]; intros i e; cbn [sc_try_sym]; [discriminate|].
  destruct (resolve rs kid); [|apply IH].
  destruct (sb_open c _ _ box); [|intro H; inv H; reflexivity].
  unfold bind. destruct (sym_key b0) eqn:E2; intro H; inv H. eapply sym_key_np; eassumption.
Qed.

Lemma validate_sc_header_np h e : validate_sc_header h = Err e -> is_panic e = false.
Proof. unfold validate_sc_header. repeat dm; intro H; inv H; reflexivity. Qed.

Lemma process_sc_header_np kr signers rv h e :
  process_sc_header c kr signers rv h = Err e -> is_panic e = false.
Proof.
  unfold process_sc_header, bind.
  repeat np_step; eauto using validate_sc_header_np, sc_try_box_np, sc_try_sym_np.
Qed.

Lemma ccs_v2_const_np l n final e : check_chunk_state v2 l n final = Err e -> is_panic e = false.
Proof. apply ccs_v2_np; reflexivity. Qed.

Lemma sc_open_loop_np fuel pk signer hh :
  forall n input acc, is_panic (so_end (sc_open_loop c fuel pk signer hh n input acc)) = false.
Proof.
  induction fuel as [|f IH]; intros n input acc; [reflexivity|].
  cbn [sc_open_loop].
  destruct (read_packet input) as [[m rest]|e] eqn:E1; [|cbn; eapply read_packet_np; eassumption].
  destruct (of_dres (view_signcrypt_block m)) as [[ct final]|e] eqn:E3; [|cbn; eapply of_dres_np; eassumption].
  destruct (negb (block_number_ok n)); [reflexivity|].
  cbv zeta.
  destruct (sb_open c pk (nonce_chunk_signcryption hh final n) ct) as [att|]; [|reflexivity].
  destruct (Nat.ltb (List.length att) 64); [reflexivity|].
  destruct (negb _); [reflexivity|].
  destruct (check_chunk_state v2 (List.length (skipn 64 att)) n final) eqn:E6.
  - destruct final; [cbn; apply aeos_np|apply IH].
  - cbn. eapply ccs_v2_const_np; eassumption.
Qed.

Lemma sc_open_loop_chunks fuel pk signer hh :
  forall n input acc, Forall (fun ch => ch <> []) acc ->
  Forall (fun ch : bytes => ch <> []) (removelast (so_chunks (sc_open_loop c fuel pk signer hh n input acc))).
Proof.
  induction fuel as [|f IH]; intros n input acc Hacc; [apply chunks_end_ok; assumption|].
  cbn [sc_open_loop].
  destruct (read_packet input) as [[m rest]|e] eqn:E1; [|apply chunks_end_ok; assumption].
  destruct (of_dres (view_signcrypt_block m)) as [[ct final]|e] eqn:E3; [|apply chunks_end_ok; assumption].
  destruct (negb (block_number_ok n)); [apply chunks_end_ok; assumption|].
  cbv zeta.
  destruct (sb_open c pk (nonce_chunk_signcryption hh final n) ct) as [att|]; [|apply chunks_end_ok; assumption].
  destruct (Nat.ltb (List.length att) 64); [apply chunks_end_ok; assumption|].
  destruct (negb _); [apply chunks_end_ok; assumption|].
  destruct (check_chunk_state v2 (List.length (skipn 64 att)) n final) eqn:E6; [|apply chunks_end_ok; assumption].
  destruct final; [apply chunks_final_ok; assumption|].
  apply IH. constructor; [|assumption]. eapply ccs_nonfinal_nonempty; eassumption.
Qed.

(* (TARGET) signcryption open: for EVERY input, keyring, signer list and resolver *)
Lemma signcrypt_open_no_panic (kr : keyring) (signers : sigring) (rv : resolver) (input : bytes) :
  match signcrypt_open_stream c kr signers rv input with
  | Err e => is_panic e = false
  | Ok (_, out) => is_panic (so_end out) = false
  end.
Proof.
  unfold signcrypt_open_stream, bind.
  destruct (read_header_bytes input) as [hr|e] eqn:E1; [|eapply read_header_bytes_np; eassumption].
  destruct (decode_header view_enc_header (fst hr)) as [h|e] eqn:E2; [|eapply decode_header_np; eassumption].
  destruct (process_sc_header c kr signers rv h) as [[k sg]|e] eqn:E3;
    [|eapply process_sc_header_np; eassumption].
  cbn [fst snd]. apply sc_open_loop_np.
Qed.

Lemma signcrypt_no_empty_nonfinal_chunk (kr : keyring) (signers : sigring) (rv : resolver) (input : bytes) s out :
  signcrypt_open_stream c kr signers rv input = Ok (s, out) -> Forall (fun ch => ch <> []) (removelast (so_chunks out)).
Proof.
  unfold signcrypt_open_stream, bind.
  destruct (read_header_bytes input) as [hr|e]; [|discriminate].
  destruct (decode_header view_enc_header (fst hr)) as [h|e]; [|discriminate].
  destruct (process_sc_header c kr signers rv h) as [ks|e]; [|discriminate].
  remember (S (List.length (snd hr))) as fuel. clear Heqfuel.
  intro H; inv H. apply sc_open_loop_chunks. constructor.
Qed.

End NP.

(* ---------- dearmoring ---------- *)

Lemma read_sentence_np l e : read_sentence l = Err e -> is_panic e = false.
Proof. unfold read_sentence. repeat np_step. Qed.

Lemma parse_frame_np m typ marker e : parse_frame m typ marker = Err e -> is_panic e = false.
Proof. unfold parse_frame. repeat np_step. Qed.

Lemma to_ascii_np l e : to_ascii l = Err e -> is_panic e = false.
Proof. unfold to_ascii. repeat np_step. Qed.

Lemma check_armor62_np hdr ftr typ e : check_armor62 hdr ftr typ = Err e -> is_panic e = false.
Proof.
  unfold check_armor62, bind.
  destruct (parse_frame hdr typ header_marker) eqn:E1; [|intro H; inv H; eapply parse_frame_np; eassumption].
  destruct (parse_frame ftr typ footer_marker) eqn:E2; [|intro H; inv H; eapply parse_frame_np; eassumption].
  repeat np_step.
Qed.

Lemma bind_np {A B} (x : result A) (f : A -> result B) e :
  (forall e, x = Err e -> is_panic e = false) ->
  (forall a e, f a = Err e -> is_panic e = false) ->
  bind x f = Err e -> is_panic e = false.
Proof. intros Hx Hf. destruct x; cbn; [apply Hf|intro H; inv H; apply Hx; reflexivity]. Qed.

(* (TARGET) dearmoring never yields a panic outcome *)
Lemma dearmor_no_panic (chk : option Z) (input : bytes) (e : err) :
  dearmor chk input = Err e -> is_panic e = false.
Proof.
  unfold dearmor.
  apply bind_np; [apply read_sentence_np|]. intros [h r1] e1.
  apply bind_np.
  { intro e2. destruct chk; [|discriminate].
    apply bind_np; [apply to_ascii_np|]. intros; eapply parse_frame_np; eassumption. }
  intros brand e2.
  destruct (split_dot r1) as [[body r2]|]; [|repeat np_step].
  destruct (negb (forallb valid_armor_byte body)); [intro H; inv H; reflexivity|].
  apply bind_np; [apply read_sentence_np|]. intros [f r3] e3.
  apply bind_np.
  { intro e4. destruct chk; [|discriminate].
    apply bind_np; [apply to_ascii_np|]. intros hstr e5.
    apply bind_np; [apply to_ascii_np|]. intros; eapply check_armor62_np; eassumption. }
  intros _ e4.
  destruct (negb (forallb valid_armor_byte r3)); [intro H; inv H; reflexivity|].
  match goal with |- context [match ?x with _ => _ end] => destruct x as [payload [bxe|]] end;
    [intro H; inv H; reflexivity|].
  apply bind_np; [apply to_ascii_np|]. intros hstr e5.
  apply bind_np; [apply to_ascii_np|]. intros; discriminate.
Qed.

(* ---------- the classifier's word count ---------- *)

Fixpoint count_sp (l : bytes) : nat :=
  match l with
  | [] => O
  | b :: t => if Byte.eqb b sp then S (count_sp t) else count_sp t
  end.

Lemma split_sp_length l : forall cur, List.length (split_sp l cur) = S (count_sp l).
Proof.
  induction l as [|b t IH]; intro cur; cbn [split_sp count_sp]; [reflexivity|].
  destruct (Byte.eqb b sp); [cbn [List.length]; rewrite IH; reflexivity|apply IH].
Qed.

Lemma count_sp_app (a b : bytes) : count_sp (a ++ b)%list = (count_sp a + count_sp b)%nat.
Proof.
  induction a as [|x a IH]; [reflexivity|]. cbn [count_sp app]. rewrite IH.
  destruct (Byte.eqb x sp); reflexivity.
Qed.

Lemma alnum_not_sp b : is_alnum b = true -> Byte.eqb b sp = false.
Proof. destruct b; cbv; congruence. Qed.

Lemma span_spec f l : forall w r, span f l = (w, r) -> l = (w ++ r)%list /\ forallb f w = true.
Proof.
  induction l as [|b t IH]; intros w r; cbn [span].
  - intro H; inv H. split; reflexivity.
  - destruct (f b) eqn:E.
    + destruct (span f t) as [a r0]. intro H; inv H. destruct (IH _ _ eq_refl) as [-> H2].
      split; [reflexivity|]. cbn. rewrite E, H2. reflexivity.
    + intro H; inv H. split; reflexivity.
Qed.

Lemma count_sp_alnum w : forallb is_alnum w = true -> count_sp w = O.
Proof.
  induction w as [|b t IH]; [reflexivity|]. cbn. intro H. apply andb_true_iff in H. destruct H as [H1 H2].
  rewrite (alnum_not_sp _ H1). apply IH. assumption.
Qed.

Lemma last_app_ne {A} (l l' : list A) d : l' <> [] -> last (l ++ l')%list d = last l' d.
Proof.
  intro H. induction l as [|x l IH]; [reflexivity|]. cbn [app last].
  destruct (l ++ l')%list eqn:E; [|exact IH].
  apply app_eq_nil in E. destruct E; contradiction.
Qed.

Lemma partial_words_count n : forall s, partial_words_ok n s = true -> last s x00 <> sp -> s <> [] ->
  (S (count_sp s) <= n)%nat.
Proof.
  induction n as [|f IH]; intros s Hok Hlast Hne.
  - destruct s; [congruence|discriminate].
  - destruct s as [|b0 s0]; [congruence|].
    cbn [partial_words_ok] in Hok. remember (b0 :: s0) as s eqn:Es.
    destruct (span is_alnum s) as [w r] eqn:Esp.
    destruct (span_spec _ _ _ _ Esp) as [-> Hw].
    destruct w as [|w0 w']; [discriminate|].
    destruct r as [|b t].
    + rewrite app_nil_r. rewrite (count_sp_alnum _ Hw). lia.
    + destruct (Byte.eqb b sp) eqn:Eb; [|discriminate].
      apply Byte.byte_dec_bl in Eb. subst b.
      rewrite count_sp_app, (count_sp_alnum _ Hw). cbn [count_sp]. replace (Byte.eqb sp sp) with true by reflexivity.
      destruct t as [|t0 t'].
      * exfalso. apply Hlast. rewrite last_last. reflexivity.
      * assert (Hl : last ((w0 :: w') ++ sp :: t0 :: t')%list x00 = last (t0 :: t') x00).
        { change (sp :: t0 :: t') with ([sp] ++ (t0 :: t'))%list. rewrite app_assoc.
          apply last_app_ne. discriminate. }
        rewrite Hl in Hlast.
        specialize (IH (t0 :: t') Hok Hlast ltac:(discriminate)). lia.
Qed.

Lemma drop_while_head f l b t : drop_while f l = b :: t -> f b = false.
Proof.
  induction l as [|x l IH]; cbn [drop_while]; [discriminate|].
  destruct (f x) eqn:E; [exact IH|]. intro H; inv H. exact E.
Qed.

Lemma trim_space_last l : last (trim_space l) x00 <> sp.
Proof.
  unfold trim_space. destruct (drop_while is_trim_ws (rev (drop_while is_trim_ws l))) as [|b t] eqn:E.
  - cbn. discriminate.
  - cbn [rev]. rewrite last_last. apply drop_while_head in E. intros ->. discriminate.
Qed.

(* (TARGET) the "logic error" panic of IsSaltpackArmoredPrefix is unreachable: when the
   partial-header pattern matches the normalised text, it has between 1 and 5 words *)
Lemma classify_no_logic_panic (pref : bytes) :
  let s := normalise pref in
  partial_words_ok 5 s = true -> (1 <= List.length (words s) <= 5)%nat.
Proof.
  intros s Hok. unfold words. rewrite split_sp_length.
  destruct s as [|b t] eqn:Es; [cbn; lia|].
  split; [lia|]. rewrite <- Es in *. apply partial_words_count; [assumption| |congruence].
  subst s. unfold normalise. apply trim_space_last.
Qed.
