(* GoAstProofs.v — the functions of /repo translated on this run (gen/GoAst.v, produced by
   harness/cmd/gen/goast.go from the Go syntax trees) evaluate, under the semantics of
   model/GoLang.v, to exactly what the hand-written model says, for ALL arguments.  An edit
   of one of these functions in /repo changes the generated term, and the corresponding
   theorem has to be re-established (it fails when the decision logic really changed).
   Statements marked (TARGET) are used verbatim by props/. *)
From Coq Require Import List String NArith ZArith Bool Lia.
From Coq.Strings Require Import Byte.
From SP Require Import Bytes Consts Params Msgpack Errors Packets Rand Verify Decrypt Signcrypt Armor GoLang GoAst.
From Coq Require Import ZifyN ZifyNat ZifyBool.
From SP Require Import RandProofs.
Import ListNotations.
Local Open Scope string_scope.

(* ---------- encodings of model values as Go values ---------- *)
Definition g_version (v : version) : gval := VStruct [("Major", VInt (vmaj v)); ("Minor", VInt (vmin v))].
Definition g_header (h : header) : gval :=
  VStruct [("FormatName", VBytes (h_format h)); ("Version", g_version (h_version h)); ("Type", VInt (h_type h))].

(* the class of an outcome: what the model distinguishes *)
Definition g_err_class (v : gval) : option (option err) :=
  match v with
  | VNil => Some None
  | VErr n _ =>
    if String.eqb n "ErrUnexpectedEmptyBlock" then Some (Some ErrUnexpectedEmptyBlock)
    else if String.eqb n "ErrNotASaltpackMessage" then Some (Some ErrNotASaltpackMessage)
    else if String.eqb n "ErrWrongMessageType" then Some (Some ErrWrongMessageType)
    else if String.eqb n "ErrBadVersion" then Some (Some ErrBadVersion)
    else None
  | _ => None
  end.

(* result of a Go function returning one error value, as a model result (panic = any Panic) *)
Inductive gres := GOk | GErr (e : err) | GPanic | GOther.
Definition g_result1 (o : outcome) : gres :=
  match o with
  | ORet [v] => match g_err_class v with Some None => GOk | Some (Some e) => GErr e | None => GOther end
  | OPanic => GPanic
  | _ => GOther
  end.
Definition m_result1 (r : result unit) : gres :=
  match r with
  | Ok _ => GOk
  | Err (Panic _) => GPanic
  | Err e => GErr e
  end.

Definition no_ext : externs := fun _ _ => None.

(* ---------- symbolic execution of the evaluator, one statement at a time ---------- *)
(* one unfolding of [exec]; the right-hand side is computed from the definition of the evaluator
   (the body of its fixpoint at fuel [S f], recursive calls folded back to [exec ext]) *)
Lemma exec_S (ext : externs) (f : nat) (e : env) (ss : list gstmt) :
  exec ext (S f) e ss =
  ltac:(let t := eval cbv beta delta [exec] in (exec ext) in
        let r := eval cbv beta iota in (t (S f) e ss) in
        let p := eval pattern t in r in
        lazymatch p with
        | ?g _ => let r' := eval cbv beta in (g (exec ext)) in exact r'
        end).
Proof. reflexivity. Qed.

(* the for loop of the evaluator as a function of its own fuel *)
Definition for_loop (ext : externs) (f : nat) (c : gexpr) (body rest : list gstmt) : nat -> env -> sres :=
  fix loop (n : nat) (e1 : env) : sres :=
    match n with
    | O => stuck "loop fuel"
    | S n' =>
      match eval ext 64 e1 c with
      | Some (VBool true) => match exec ext f e1 body with inl e2 => loop n' e2 | inr o => inr o end
      | Some (VBool false) => exec ext f e1 rest
      | _ => stuck "for"
      end
    end.
Lemma exec_for (ext : externs) (f : nat) (e : env) c body rest :
  exec ext (S f) e (SFor c body :: rest) = for_loop ext f c body rest f e.
Proof. reflexivity. Qed.
Lemma for_loop_S (ext : externs) (f : nat) c body rest n e1 :
  for_loop ext f c body rest (S n) e1 =
    match eval ext 64 e1 c with
    | Some (VBool true) => match exec ext f e1 body with inl e2 => for_loop ext f c body rest n e2 | inr o => inr o end
    | Some (VBool false) => exec ext f e1 rest
    | _ => stuck "for"
    end.
Proof. reflexivity. Qed.

(* the scrutinee at the head of a nest of matches *)
Ltac head_scrut t :=
  lazymatch t with
  | match ?x with _ => _ end => head_scrut x
  | _ => t
  end.

(* evaluate a subterm, leaving the arithmetic / byte-string primitives and the model functions folded *)
Ltac ev_in h :=
  eval cbv -[Z.eqb Z.ltb Z.leb Z.add Z.sub Z.mul Z.modulo Z.rem Z.quot Z.shiftr Z.shiftl Z.opp
             Z.land Z.lor Z.lxor Z.lnot Z.of_nat Z.of_N Z.to_nat Z.to_N List.length nth_error
             firstn skipn bytes_eqb' Byte.to_N validate_version cls_read uint32 as_string
             view_version as_int lem_low lem_thresh lem_out N.mul N.ltb N.eqb N.add N.leb b2n] in h.
Ltac ev_term h := let h' := ev_in h in progress (change h with h'); cbv beta iota.

(* list primitives on explicit lists *)
Ltac ev_closed h :=
  lazymatch h with
  | firstn _ [] => idtac | firstn _ (_ :: _) => idtac
  | skipn _ [] => idtac | skipn _ (_ :: _) => idtac
  end;
  let h' := eval cbn [firstn skipn List.length] in h in progress (change h with h'); cbv beta iota.
Ltac norm_env h x f e ss k :=
  let e' := ev_in e in
  tryif constr_eq e e' then k e
  else (change h with (exec x (S f) e' ss); k e').
Ltac go1 :=
  lazymatch goal with
  | |- ?G =>
    let L := lazymatch G with ?L = _ => L | _ => G end in
    let h := head_scrut L in
    lazymatch h with
    | exec ?x (S ?f) ?e (SFor ?c ?b :: ?rest) =>
      norm_env h x f e (SFor c b :: rest) ltac:(fun e' => rewrite exec_for)
    | exec ?x (S ?f) ?e ?ss =>
      norm_env h x f e ss ltac:(fun e' =>
        lazymatch type of (exec_S x f e' ss) with
        | _ = ?R => let R' := eval cbv beta iota zeta in R in
                    change (exec x (S f) e' ss) with R'
        end)
    | for_loop _ _ _ _ _ _ _ => fail
    | _ => first [ ev_term h | ev_closed h ]
    end
  end.
Ltac go := repeat go1.
Ltac start F := cbv beta iota zeta delta [g_result1 run_func f_body f_params f_results F].
(* case analysis on the stuck scrutinee at the head of the left-hand side *)
Ltac hd_case :=
  lazymatch goal with
  | |- ?G =>
    let L := lazymatch G with ?L = _ => L | _ => G end in
    let h := head_scrut L in destruct h eqn:?
  end; cbv beta iota.
(* use recorded facts about stuck conditions *)
Ltac use_hyp :=
  cbn [Z.of_N];
  match goal with
  | H : _ = true |- _ => rewrite H
  | H : _ = false |- _ => rewrite H
  end; cbv beta iota.
Ltac run := repeat first [go1 | use_hyp].

(* closed integer arithmetic left folded by [ev_in] *)
Ltac is_poslit p := lazymatch p with xH => idtac | xO ?q => is_poslit q | xI ?q => is_poslit q end.
Ltac is_Zlit z := lazymatch z with Z0 => idtac | Zpos ?p => is_poslit p | Zneg ?p => is_poslit p end.
Ltac lits1 :=
  match goal with
  | |- context [Z.ltb ?a ?b] => is_Zlit a; is_Zlit b; let r := eval cbv in (Z.ltb a b) in change (Z.ltb a b) with r
  | |- context [Z.leb ?a ?b] => is_Zlit a; is_Zlit b; let r := eval cbv in (Z.leb a b) in change (Z.leb a b) with r
  | |- context [Z.eqb ?a ?b] => is_Zlit a; is_Zlit b; let r := eval cbv in (Z.eqb a b) in change (Z.eqb a b) with r
  | |- context [Z.add ?a ?b] => is_Zlit a; is_Zlit b; let r := eval cbv in (Z.add a b) in change (Z.add a b) with r
  | |- context [Z.sub ?a ?b] => is_Zlit a; is_Zlit b; let r := eval cbv in (Z.sub a b) in change (Z.sub a b) with r
  | |- context [Z.to_nat ?a] => is_Zlit a; let r := eval cbv in (Z.to_nat a) in change (Z.to_nat a) with r
  end; cbv beta iota.
(* a recorded fact about exactly the stuck scrutinee *)
Ltac use_head_hyp :=
  lazymatch goal with
  | |- ?G =>
    let L := lazymatch G with ?L = _ => L | _ => G end in
    let h := head_scrut L in
    match goal with H : h = _ |- _ => rewrite H end
  end; cbv beta iota.
(* case analysis on a stuck scrutinee that is a decoder step or a comparison *)
Ltac hd_case_auto :=
  lazymatch goal with
  | |- ?G =>
    let L := lazymatch G with ?L = _ => L | _ => G end in
    let h := head_scrut L in
    tryif is_var h then destruct h else
    (lazymatch h with
     | cls_read _ => idtac | as_string _ => idtac | view_version _ => idtac | as_int _ => idtac
     | bytes_eqb' _ _ => idtac | Z.eqb _ _ => idtac | Z.leb _ _ => idtac | Z.ltb _ _ => idtac
     end;
     destruct h eqn:?)
  end; cbv beta iota.
Ltac run3 := repeat first [go1 | use_head_hyp | lits1 | hd_case_auto].
Ltac run2 := repeat first [go1 | use_head_hyp | lits1].

(* run until the sequence reaches the declaration / the assignment of variable [x] *)
Ltac not_at x :=
  lazymatch goal with
  | |- ?G =>
    let L := lazymatch G with ?L = _ => L | _ => G end in
    let h := head_scrut L in
    lazymatch h with
    | exec _ _ _ (SVar x _ :: _) => fail
    | exec _ _ _ (SAssign [x] _ :: _) => fail
    | _ => idtac
    end
  end.
Ltac run_until x := repeat (not_at x; first [go1 | use_head_hyp | lits1 | hd_case_auto]).

(* ---------- checkChunkState ---------- *)
(* (TARGET) *)
Lemma go_checkChunkState (v : version) (l : nat) (i : N) (f : bool) :
  g_result1 (run_func no_ext f_saltpack_checkChunkState [g_version v; VInt (Z.of_nat l); VInt (Z.of_N i); VBool f])
  = m_result1 (check_chunk_state v l i f).
Proof.
  destruct v as [ma mi]. unfold check_chunk_state. cbn [vmaj vmin].
  destruct l, i, f; cbv -[Z.eqb]; destruct (Z.eqb ma 1); try reflexivity; destruct (Z.eqb ma 2); reflexivity.
Qed.

(* ---------- version validators ---------- *)
Definition ext_versions : externs := fun fn args =>
  if String.eqb fn "KnownVersions" then Some [VList (map g_version known_versions)]
  else if String.eqb fn "Version2" then Some [g_version v2]
  else None.

(* (TARGET) CheckKnownMajorVersion is the model's AnyKnownMajor validator *)
Lemma go_CheckKnownMajorVersion (v : version) :
  g_result1 (run_func ext_versions f_saltpack_CheckKnownMajorVersion [g_version v])
  = if validate_version AnyKnownMajor v then GOk else GErr ErrBadVersion.
Proof.
  destruct v as [ma mi].
  start f_saltpack_CheckKnownMajorVersion.
  cbv [validate_version known_versions existsb v1 v2 vmaj vmin]. vm_compute Z.of_N.
  rewrite (Z.eqb_sym 1 ma), (Z.eqb_sym 2 ma).
  destruct (ma =? 1)%Z eqn:E1, (ma =? 2)%Z eqn:E2; run; try reflexivity.
Qed.

(* (TARGET) the senders' gate accepts exactly the known versions (major AND minor) *)
Lemma go_checkKnownVersion (v : version) :
  g_result1 (run_func ext_versions f_saltpack_checkKnownVersion [g_version v])
  = if existsb (version_eqb v) known_versions then GOk else GErr ErrBadVersion.
Proof.
  destruct v as [ma mi].
  start f_saltpack_checkKnownVersion.
  cbv [known_versions existsb version_eqb v1 v2 vmaj vmin]. vm_compute Z.of_N.
  destruct (ma =? 1)%Z eqn:E1, (ma =? 2)%Z eqn:E2, (mi =? 0)%Z eqn:E3; run; try reflexivity.
Qed.

(* ---------- header validation ---------- *)
(* a caller-supplied validator, as the model sees it *)
Definition ext_validator (vd : validator) : externs := fun fn args =>
  if String.eqb fn "versionValidator" then
    match args with
    | [VStruct [("Major", VInt ma); ("Minor", VInt mi)]] =>
      if validate_version vd (mkV ma mi) then Some [VNil] else Some [VErr "ErrBadVersion" [VStruct [("Major", VInt ma); ("Minor", VInt mi)]]]
    | _ => None
    end
  else ext_versions fn args.

Lemma consts_ok :
  format_name = list_byte_of_string "saltpack" /\ mt_encryption = 0%Z /\ mt_attached = 1%Z /\ mt_detached = 2%Z
  /\ mt_signcryption = 3%Z /\ v1 = mkV 1 0 /\ v2 = mkV 2 0 /\ min_len_binary = 23%N.
Proof. vm_compute. repeat split. Qed.

Ltac fold_consts :=
  change format_name with (list_byte_of_string "saltpack") in *;
  change mt_encryption with 0%Z in *; change mt_attached with 1%Z in *; change mt_detached with 2%Z in *;
  change mt_signcryption with 3%Z in *; change v1 with (mkV 1 0) in *; change v2 with (mkV 2 0) in *.

(* (TARGET) *)
Lemma go_EncryptionHeader_validate (vd : validator) (h : header) :
  g_result1 (run_func (ext_validator vd) f_saltpack_EncryptionHeader_validate [g_header h; VNil])
  = m_result1 (validate_enc_header vd h).
Proof.
  destruct h as [fmt [ma mi] ty ? ? ?]. 
  start f_saltpack_EncryptionHeader_validate.
  unfold validate_enc_header; cbn [h_format h_version h_type]. fold_consts.
  change (bytes_eqb fmt (list_byte_of_string "saltpack")) with (bytes_eqb' fmt (list_byte_of_string "saltpack")).
  let x := eval vm_compute in (list_byte_of_string "saltpack") in change (list_byte_of_string "saltpack") with x.
  destruct (bytes_eqb' fmt _) eqn:E1; [|run; reflexivity].
  destruct (ty =? 0)%Z eqn:E2; [|run; reflexivity].
  destruct (validate_version vd _) eqn:E3; run; reflexivity.
Qed.

(* (TARGET) *)
Lemma go_SigncryptionHeader_validate (h : header) :
  g_result1 (run_func ext_versions f_saltpack_SigncryptionHeader_validate [g_header h])
  = m_result1 (validate_sc_header h).
Proof.
  destruct h as [fmt [ma mi] ty ? ? ?]. 
  start f_saltpack_SigncryptionHeader_validate.
  unfold validate_sc_header; cbn [h_format h_version h_type]. fold_consts. cbn [vmaj].
  change (bytes_eqb fmt (list_byte_of_string "saltpack")) with (bytes_eqb' fmt (list_byte_of_string "saltpack")).
  let x := eval vm_compute in (list_byte_of_string "saltpack") in change (list_byte_of_string "saltpack") with x.
  destruct (bytes_eqb' fmt _) eqn:E1; [|run; reflexivity].
  destruct (ty =? 3)%Z eqn:E2; [|run; reflexivity].
  destruct (ma =? 2)%Z eqn:E3; run; reflexivity.
Qed.

(* (TARGET) for the two message types the receivers pass *)
Lemma go_SignatureHeader_validate (vd : validator) (typ : Z) (h : header) :
  typ = mt_attached \/ typ = mt_detached ->
  g_result1 (run_func (ext_validator vd) f_saltpack_SignatureHeader_validate [g_header h; VNil; VInt typ])
  = m_result1 (validate_sig_header vd typ h).
Proof.
  intros Ht.
  destruct h as [fmt [ma mi] ty ? ? ?]. 
  start f_saltpack_SignatureHeader_validate.
  unfold validate_sig_header; cbn [h_format h_version h_type]. fold_consts.
  change (bytes_eqb fmt (list_byte_of_string "saltpack")) with (bytes_eqb' fmt (list_byte_of_string "saltpack")).
  let x := eval vm_compute in (list_byte_of_string "saltpack") in change (list_byte_of_string "saltpack") with x.
  destruct (bytes_eqb' fmt _) eqn:E1; [|run; reflexivity].
  destruct (validate_version vd _) eqn:E3; [|run; reflexivity].
  destruct (ty =? typ)%Z eqn:E2; [|run; reflexivity].
  destruct Ht; subst typ; run; reflexivity.
Qed.

(* ---------- csprngUint32n (Lemire's rejection sampling) ---------- *)
(* the randomness source is the byte stream held in the variable csprng; csprngUint32 returns
   (value, error) and writes the advanced stream back *)
Definition ext_rand : externs := fun fn args =>
  if String.eqb fn "csprngUint32" then
    match args with
    | [VBytes s] =>
      match uint32 s with
      | Some (v, s') => Some [VInt (Z.of_N v); VNil; VBytes s']
      | None => Some [VInt 0; VErr "ErrRand" []; VBytes s]
      end
    | _ => None
    end
  else None.

(* --- Go's uint32/uint64 arithmetic on the values of csprngUint32n, as the model's N arithmetic --- *)
Lemma two32_Z : Z.of_N two32 = 4294967296%Z. Proof. reflexivity. Qed.

Lemma ar_prod (n v : N) : (n < two32)%N -> (v < two32)%N ->
  ((Z.of_N v mod 18446744073709551616 * (Z.of_N n mod 18446744073709551616)) mod 18446744073709551616)%Z
  = Z.of_N (v * n).
Proof.
  intros Hn Hv. unfold two32 in *.
  rewrite (Z.mod_small (Z.of_N v)) by lia. rewrite (Z.mod_small (Z.of_N n)) by lia.
  rewrite Z.mod_small by nia. lia.
Qed.

Lemma ar_low (n v : N) : (Z.of_N (v * n) mod 4294967296)%Z = Z.of_N (lem_low n v).
Proof. unfold lem_low. rewrite N2Z.inj_mod. reflexivity. Qed.

Lemma ar_ltb (a b : N) : (Z.of_N a <? Z.of_N b)%Z = (a <? b)%N.
Proof. destruct (N.ltb_spec a b); lia. Qed.

Lemma ar_nz (n : N) : (0 < n)%N -> (Z.of_N n =? 0)%Z = false.
Proof. lia. Qed.

Lemma ar_thresh (n : N) : (0 < n)%N -> (n < two32)%N ->
  (Z.rem (- Z.of_N n mod 4294967296) (Z.of_N n) mod 4294967296)%Z = Z.of_N (lem_thresh n).
Proof.
  intros H0 Hn. unfold lem_thresh.
  assert (E : (- Z.of_N n mod 4294967296 = 4294967296 - Z.of_N n)%Z).
  { symmetry. apply Z.mod_unique_pos with (q := (-1)%Z); unfold two32 in *; lia. }
  rewrite E. rewrite Z.rem_mod_nonneg by (unfold two32 in *; lia).
  rewrite (N.mod_small (two32 - n) two32) by lia.
  rewrite N2Z.inj_mod, N2Z.inj_sub by lia. rewrite two32_Z.
  apply Z.mod_small.
  pose proof (Z.mod_pos_bound (4294967296 - Z.of_N n) (Z.of_N n) ltac:(lia)). unfold two32 in *. lia.
Qed.

Lemma ar_out (n v : N) : (n < two32)%N -> (v < two32)%N ->
  (Z.shiftr (Z.of_N (v * n)) 32 mod 4294967296)%Z = Z.of_N (lem_out n v).
Proof.
  intros Hn Hv. unfold lem_out. rewrite Z.shiftr_div_pow2 by lia.
  rewrite N2Z.inj_div, two32_Z. change (2 ^ 32)%Z with 4294967296%Z.
  apply Z.mod_small. split. apply Z.div_pos; lia.
  apply Z.div_lt_upper_bound; unfold two32 in *; nia.
Qed.

Lemma uint32_len (r s : rng) (v : N) : uint32 r = Some (v, s) -> (v < two32)%N /\ (List.length s < List.length r)%nat.
Proof.
  intros H. split. apply (uint32_spec _ _ _ H).
  unfold uint32, read_full in H. destruct (Nat.leb 4 (List.length r)) eqn:E; [|discriminate].
  assert (Hs : s = skipn 4 r) by congruence. subst s. rewrite skipn_length. apply Nat.leb_le in E. lia.
Qed.

Section Lemire.
Variable n : N.
Hypothesis Hn0 : (0 < n)%N.
Hypothesis Hn : (n < two32)%N.

(* the rejection loop, entered with the draw v already made and the stream at s; fuel as the evaluator's *)
Fixpoint mloop (k : nat) (s : rng) (v : N) : option (option (N * rng)) :=
  match k with
  | O => None
  | S k' =>
    if (lem_low n v <? lem_thresh n)%N then
      match uint32 s with
      | None => Some None
      | Some (v', s') => mloop k' s' v'
      end
    else Some (Some (v, s))
  end.

Lemma mloop_model (k : nat) : forall s v x, mloop k s v = Some x ->
  forall m, (List.length s < m)%nat ->
  (if (lem_low n v <? lem_thresh n)%N then uint32n_loop m n s else Some (lem_out n v, s))
  = match x with None => None | Some (v', s') => Some (lem_out n v', s') end.
Proof.
  induction k as [|k IH]; intros s v x H m Hm; [discriminate|].
  cbn [mloop] in H. destruct (lem_low n v <? lem_thresh n)%N.
  - destruct m as [|m]; [lia|]. cbn [uint32n_loop].
    destruct (uint32 s) as [[v' s']|] eqn:Eu.
    + rewrite lemire_two_stage by assumption.
      apply (IH _ _ _ H). apply uint32_len in Eu. lia.
    + injection H as <-. reflexivity.
  - injection H as <-. reflexivity.
Qed.

Lemma mloop_bound (k : nat) : forall s v v' s', (v < two32)%N -> mloop k s v = Some (Some (v', s')) -> (v' < two32)%N.
Proof.
  induction k as [|k IH]; intros s v v' s' Hv H; [discriminate|].
  cbn [mloop] in H. destruct (lem_low n v <? lem_thresh n)%N.
  - destruct (uint32 s) as [[v1 s1]|] eqn:Eu; [|discriminate].
    apply uint32_len in Eu. apply (IH _ _ _ _ (proj1 Eu) H).
  - injection H as <- <-. exact Hv.
Qed.

Definition lem_env (s : rng) (v : N) : env :=
  [("csprng", VBytes s); ("n", VInt (Z.of_N n)); ("v", VInt (Z.of_N v)); ("err", VNil);
   ("prod", VInt (Z.of_N (v * n))); ("low", VInt (Z.of_N (lem_low n v)));
   ("thresh", VInt (Z.of_N (lem_thresh n)))].

Definition lem_cond : gexpr := EBin OLt "bool" (EVar "low") (EVar "thresh").
Definition lem_body : list gstmt :=
  [SAssign ["v"; "err"] [ECall "csprngUint32" [EVar "csprng"]];
   SIf [] (EBin ONe "bool" (EVar "err") ENil) [SReturn [EInt 0; EVar "err"]] [];
   SAssign ["prod"] [EBin OMul "uint64" (EConv "uint64" (EVar "v")) (EConv "uint64" (EVar "n"))];
   SAssign ["low"] [EConv "uint32" (EVar "prod")]].

Lemma lem_loop_correct (f : nat) (k : nat) : (8 <= f)%nat -> forall s v, (v < two32)%N ->
  for_loop ext_rand f lem_cond lem_body [] k (lem_env s v)
  = match mloop k s v with
    | None => stuck "loop fuel"
    | Some None => inr (ORet [VInt 0; VErr "ErrRand" []])
    | Some (Some (v', s')) => inl (lem_env s' v')
    end.
Proof.
  intros Hf. do 8 (destruct f as [|f]; [lia|]). clear Hf.
  induction k as [|k IH]; intros s v Hv; [reflexivity|].
  rewrite for_loop_S. cbn [mloop].
  unfold lem_cond, lem_body, lem_env.
  go. rewrite ar_ltb.
  destruct (lem_low n v <? lem_thresh n)%N; [|go; reflexivity].
  go. destruct (uint32 s) as [[v' s']|] eqn:Eu; [|go; reflexivity].
  apply uint32_len in Eu. destruct Eu as [Hv' _].
  go. rewrite ar_prod by assumption. go. rewrite ar_low.
  apply IH. assumption.
Qed.
End Lemire.

Lemma csprngUint32n_run (n : N) (r : rng) : (0 < n)%N -> (n < two32)%N ->
  exists k,
  run_func ext_rand f_saltpack_csprngUint32n [VBytes r; VInt (Z.of_N n)] =
  match uint32 r with
  | None => ORet [VInt 0; VErr "ErrRand" []]
  | Some (v, s) =>
    if (lem_low n v <? n)%N then
      match mloop n k s v with
      | None => OStuck "loop fuel"
      | Some None => ORet [VInt 0; VErr "ErrRand" []]
      | Some (Some (v', _)) => ORet [VInt (Z.of_N (lem_out n v')); VNil]
      end
    else ORet [VInt (Z.of_N (lem_out n v)); VNil]
  end.
Proof.
  intros Hn0 Hn. eexists.
  cbv beta iota zeta delta [run_func f_body f_params f_results f_saltpack_csprngUint32n].
  go.
  destruct (uint32 r) as [[v s]|] eqn:Eu; [|go; reflexivity].
  apply uint32_len in Eu. destruct Eu as [Hv Hlen].
  go. rewrite ar_prod by assumption. rewrite ar_low, ar_ltb.
  destruct (lem_low n v <? n)%N.
  - go. rewrite (ar_nz n Hn0). go. rewrite ar_thresh by assumption.
    fold lem_cond. fold lem_body. fold (lem_env n s v).
    rewrite lem_loop_correct by (assumption || (cbv; lia)).
    instantiate (1 := 193%nat).
    destruct (mloop n 193 s v) as [[[v' s']|]|] eqn:Em; [|go; reflexivity|go; reflexivity].
    apply mloop_bound in Em; try assumption.
    unfold lem_env. go. rewrite ar_out by assumption. reflexivity.
  - go. rewrite ar_out by assumption. reflexivity.
Qed.

(* (TARGET) equal to the model's uint32n, up to the evaluator's loop fuel (about 190 consecutive
   rejected draws; each draw is rejected with probability below 1/2) *)
Lemma go_csprngUint32n (n : N) (r : rng) :
  (0 < n < 4294967296)%N ->
  let o := run_func ext_rand f_saltpack_csprngUint32n [VBytes r; VInt (Z.of_N n)] in
  (exists w, o = OStuck w /\ (w = "loop fuel" \/ w = "fuel")) \/
  o = match uint32n n r with
      | Some (k, _) => ORet [VInt (Z.of_N k); VNil]
      | None => ORet [VInt 0; VErr "ErrRand" []]
      end.
Proof.
  intros [Hn0 Hn] o. change 4294967296%N with two32 in Hn.
  destruct (csprngUint32n_run n r Hn0 Hn) as [k Hk].
  unfold o. clear o. rewrite Hk. clear Hk.
  unfold uint32n. cbn [uint32n_loop].
  destruct (uint32 r) as [[v s]|] eqn:Eu; [|right; reflexivity].
  apply uint32_len in Eu. destruct Eu as [Hv Hlen].
  unfold lem_reject.
  destruct (lem_low n v <? n)%N; cbn [andb]; [|right; reflexivity].
  destruct (mloop n k s v) as [x|] eqn:Em.
  - right. rewrite (mloop_model n Hn0 Hn k s v x Em _ Hlen).
    destruct x as [[v' s']|]; reflexivity.
  - left. eexists. split; [reflexivity|]. left; reflexivity.
Qed.

(* ---------- IsSaltpackBinarySlice ---------- *)
(* go-codec's decoder as the model has it: the decoder value is the remaining bytes; Decode(&x)
   dispatches on the zero value of its target (string: "", Version: nil struct, MessageType: 0)
   and returns (error, advanced decoder, decoded value) *)
Definition ext_decode : externs := fun fn args =>
  if String.eqb fn "codec.NewDecoderBytes" then
    match args with
    | VBytes s :: _ => Some [VBytes s]
    | _ => None
    end
  else if String.eqb fn "Decoder.Decode" then
    match args with
    | [VBytes s; cur] =>
      match cls_read s with
      | None => None                                     (* outside the modelled subset of go-codec *)
      | Some None => Some [VErr "decode" []; VBytes s; cur]
      | Some (Some (v, rest)) =>
        match cur with
        | VBytes _ => match as_string v with
                      | DOk f => Some [VNil; VBytes rest; VBytes f]
                      | DErr => Some [VErr "decode" []; VBytes s; cur]
                      | DUnmod => None
                      end
        | VNil => match view_version v with
                  | DOk ver => Some [VNil; VBytes rest; g_version ver]
                  | DErr => Some [VErr "decode" []; VBytes s; cur]
                  | DUnmod => None
                  end
        | VInt _ => match as_int v with
                    | DOk t => Some [VNil; VBytes rest; VInt t]
                    | DErr => Some [VErr "decode" []; VBytes s; cur]
                    | DUnmod => None
                    end
        | _ => None
        end
      end
    | _ => None
    end
  else None.

Definition g_classification (o : outcome) : classification :=
  match o with
  | ORet [VInt t; VStruct [("Major", VInt ma); ("Minor", VInt mi)]; VNil] => Cls t (mkV ma mi)
  | ORet [_; _; VErr n _] =>
    if String.eqb n "ErrShortSliceOrBuffer" then ClsShort
    else if String.eqb n "ErrNotASaltpackMessage" then ClsNot else ClsUnmod
  | _ => ClsUnmod
  end.

Definition slice_tail : list gstmt := skipn 6 (f_body f_saltpack_IsSaltpackBinarySlice).
Definition slice_env (b : bytes) (sk a ask : Z) : env :=
  [("b", VBytes b); ("msgType", VInt 0); ("version", VNil); ("err", VNil);
   ("binTagBytesToSkip", VInt sk); ("arrayTagByte", VInt a); ("arrayTagBytesToSkip", VInt ask)].

(* the model's classifier from the first Decode on *)
Definition model_tail (d : bytes) : classification :=
  match cls_read d with
  | None => ClsUnmod
  | Some None => ClsNot
  | Some (Some (fv, r1)) =>
    match as_string fv with
    | DUnmod => ClsUnmod
    | DErr => ClsNot
    | DOk fmt =>
      if negb (bytes_eqb fmt format_name) then ClsNot
      else
        match cls_read r1 with
        | None => ClsUnmod
        | Some None => ClsNot
        | Some (Some (vv, r2)) =>
          match view_version vv with
          | DUnmod => ClsUnmod
          | DErr => ClsNot
          | DOk ver =>
            match cls_read r2 with
            | None => ClsUnmod
            | Some None => ClsNot
            | Some (Some (tv, _)) =>
              match as_int tv with
              | DUnmod => ClsUnmod
              | DErr => ClsNot
              | DOk t => if known_type t then Cls t ver else ClsNot
              end
            end
          end
        end
    end
  end.

Lemma slice_tail_ok (b : bytes) (sk a ask : Z) :
  (0 <= sk + ask <= Z.of_nat (List.length b))%Z ->
  match exec ext_decode 194 (slice_env b sk a ask) slice_tail with
  | inr o => g_classification o = model_tail (skipn (Z.to_nat (sk + ask)) b)
  | inl _ => False
  end.
Proof.
  intros Hb.
  assert (H1 : (sk + ask <? 0)%Z = false) by lia.
  assert (H2 : (Z.of_nat (List.length b) <? sk + ask)%Z = false) by lia.
  assert (H3 : (Z.of_nat (List.length b) <? Z.of_nat (List.length b))%Z = false) by lia.
  assert (Hd : firstn (Z.to_nat (Z.of_nat (List.length b) - (sk + ask))) (skipn (Z.to_nat (sk + ask)) b)
               = skipn (Z.to_nat (sk + ask)) b).
  { apply firstn_all2. rewrite skipn_length. lia. }
  unfold model_tail, known_type. 
  change (bytes_eqb ?x format_name) with (bytes_eqb' x (list_byte_of_string "saltpack")).
  let x := eval vm_compute in (list_byte_of_string "saltpack") in change (list_byte_of_string "saltpack") with x.
  change mt_encryption with 0%Z; change mt_attached with 1%Z; change mt_detached with 2%Z;
  change mt_signcryption with 3%Z. 
  let t := eval cbv in slice_tail in change slice_tail with t.
  unfold slice_env.
  run2. rewrite !Hd. clear Hd. set (d := skipn (Z.to_nat (sk + ask)) b). clearbody d.
  run3.
  all: try match goal with v : version |- _ => destruct v end; reflexivity.
Qed.


(* the model's classifier from the array tag on, the bin tag being sk bytes long *)
Definition model_mid (b : bytes) (sk : Z) : classification :=
  let a := Z.of_N (b2n (nth (Z.to_nat sk) b x00)) in
  if ((147 <=? a) && (a <=? 159))%Z then model_tail (skipn (Z.to_nat (sk + 1)) b)
  else if (a =? 220)%Z then model_tail (skipn (Z.to_nat (sk + 3)) b)
  else if (a =? 221)%Z then model_tail (skipn (Z.to_nat (sk + 5)) b)
  else ClsNot.

Definition slice_mid : list gstmt := skipn 3 (f_body f_saltpack_IsSaltpackBinarySlice).
Definition slice_env0 (b : bytes) (sk : Z) : env :=
  [("b", VBytes b); ("msgType", VInt 0); ("version", VNil); ("err", VNil); ("binTagBytesToSkip", VInt sk)].

Lemma slice_mid_ok (b : bytes) (sk : Z) :
  sk = 2%Z \/ sk = 3%Z \/ sk = 5%Z -> (23 <= List.length b)%nat ->
  match exec ext_decode 197 (slice_env0 b sk) slice_mid with
  | inr o => g_classification o = model_mid b sk
  | inl _ => False
  end.
Proof.
  intros Hsk Hlen.
  assert (Hx : exists x, nth_error b (Z.to_nat sk) = Some x).
  { destruct (nth_error b (Z.to_nat sk)) eqn:E; [eauto|]. apply nth_error_None in E. lia. }
  destruct Hx as [x Hx].
  assert (Hi : (Z.of_nat (List.length b) <=? sk)%Z = false) by lia.
  unfold model_mid. rewrite (nth_error_nth _ _ x00 Hx). unfold b2n.
  let t := eval cbv in slice_mid in change slice_mid with t.
  unfold slice_env0.
  destruct Hsk as [-> | [-> | ->]]; change (Z.to_nat 2) with 2%nat in *; change (Z.to_nat 3) with 3%nat in *;
    change (Z.to_nat 5) with 5%nat in *.
  all: run_until "mh".
  all: try reflexivity.
  all: cbn [andb]; refine (slice_tail_ok b _ _ _ _); lia.
Qed.

Lemma zN_eqb (a c : N) : (Z.of_N a =? Z.of_N c)%Z = (a =? c)%N.
Proof. destruct (N.eqb_spec a c); lia. Qed.
Lemma zN_leb (a c : N) : (Z.of_N a <=? Z.of_N c)%Z = (a <=? c)%N.
Proof. destruct (N.leb_spec a c); lia. Qed.

Lemma binary_slice_unfold (b : bytes) :
  binary_slice b =
  if (Z.of_nat (List.length b) <? 23)%Z then ClsShort
  else
    let z0 := Z.of_N (b2n (nth 0 b x00)) in
    if (z0 =? 196)%Z then model_mid b 2
    else if (z0 =? 197)%Z then model_mid b 3
    else if (z0 =? 198)%Z then model_mid b 5
    else ClsNot.
Proof.
  unfold binary_slice, model_mid, model_tail.
  change min_len_binary with 23%N. unfold len.
  replace (N.of_nat (List.length b) <? 23)%N with (Z.of_nat (List.length b) <? 23)%Z
    by (destruct (N.ltb_spec (N.of_nat (List.length b)) 23); lia).
  destruct (Z.of_nat (List.length b) <? 23)%Z; [reflexivity|].
  cbv zeta.
  rewrite (zN_eqb _ 196), (zN_eqb _ 197), (zN_eqb _ 198).
  destruct (b2n (nth 0 b x00) =? 196)%N; [|destruct (b2n (nth 0 b x00) =? 197)%N; [|destruct (b2n (nth 0 b x00) =? 198)%N; [|reflexivity]]].
  all: cbn [Nat.eqb]; change (Z.to_nat 2) with 2%nat; change (Z.to_nat 3) with 3%nat; change (Z.to_nat 5) with 5%nat.
  all: rewrite (zN_eqb _ 220), (zN_eqb _ 221), (zN_leb 147 _), (zN_leb _ 159).
  all: match goal with |- context [b2n ?x] => generalize (b2n x); intros a end.
  all: destruct ((147 <=? a)%N && (a <=? 159)%N); [reflexivity|].
  all: destruct (a =? 220)%N; [reflexivity|]; destruct (a =? 221)%N; reflexivity.
Qed.

(* (TARGET) the translated classifier computes the model's binary_slice on every byte string *)
Lemma go_IsSaltpackBinarySlice (b : bytes) :
  g_classification (run_func ext_decode f_saltpack_IsSaltpackBinarySlice [VBytes b]) = binary_slice b.
Proof.
  rewrite binary_slice_unfold.
  cbv beta iota zeta delta [g_classification run_func f_body f_params f_results f_saltpack_IsSaltpackBinarySlice].
  run2.
  destruct (Z.of_nat (List.length b) <? 23)%Z eqn:Hlen; [run2; reflexivity|].
  assert (Hx : exists x, nth_error b 0 = Some x).
  { destruct (nth_error b 0) eqn:E; [eauto|]. apply nth_error_None in E. lia. }
  destruct Hx as [x Hx]. rewrite (nth_error_nth _ _ x00 Hx). unfold b2n.
  assert (Hi : (Z.of_nat (List.length b) <=? 0)%Z = false) by lia.
  run_until "arrayTagByte".
  all: try reflexivity.
  all: assert (Hlen' : (23 <= List.length b)%nat) by lia.
  all: lazymatch goal with
       | Hl : (23 <= List.length ?b')%nat |- ?L = model_mid ?b' ?sk =>
         let h := head_scrut L in
         let M := fresh "M" in
         pose proof (slice_mid_ok b' sk ltac:(lia) Hl) as M;
         change h with (exec ext_decode 197 (slice_env0 b' sk) slice_mid);
         destruct (exec ext_decode 197 (slice_env0 b' sk) slice_mid) as [e'|o]; [destruct M | exact M]
       end.
Qed.
