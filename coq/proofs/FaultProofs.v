(* FaultProofs.v — C14 (read side): an error of the underlying reader is what ends
   the adaptor's stream; it is never turned into a clean end and never reported
   before the data that preceded it.  Corollaries of StreamProofs. *)
From Coq Require Import List NArith ZArith Bool.
From Coq.Strings Require Import Byte.
From SP Require Import Bytes Errors Armor Streams StreamProofs.
Import ListNotations.

(* punctuatedReader: if reading ended with an error, it is the source's own error
   (in particular not EOF when the source failed) and every byte the source delivered
   before or together with the fault has been handed on *)
Lemma pr_fault_reported (s : source) (sizes : list nat) (done : list bytes) (cur : bytes) (e : err) :
  pos_sizes sizes ->
  pr_drain sizes (pr_init s) [] [] = (done, cur, Some e) ->
  e = snd (src_denote s) /\ flatten done cur = fst (src_denote s).
Proof.
  intros Hs H. pose proof (pr_drain_sound s sizes Hs) as P. rewrite H in P.
  destruct (src_denote s) as [D E]. destruct P as (_ & _ & HD & HE). cbn [fst snd]. split; assumption.
Qed.

(* chunkReader: the error that ends the stream is the chunker's, after all chunks before it *)
Lemma cr_fault_reported (l : list (bytes * option err)) (sizes : list nat) (d : bytes) (e : err) :
  chunks_wf l -> pos_sizes sizes ->
  cr_drain sizes (mkCr [] None l) [] = (d, Some e) ->
  chunks_denote l = (d, Some e).
Proof.
  intros Hl Hs H. pose proof (cr_drain_sound l sizes Hl Hs) as P. rewrite H in P.
  destruct (chunks_denote l) as [D E]. destruct P as (-> & <-). reflexivity.
Qed.

(* a frame sentence: a fault before the punctuation mark (and below the length limit) is reported as that fault *)
Lemma pr_until_fault_reported (s : source) (lim fuel : nat) (E : err) :
  src_wf s -> (0 < lim)%nat ->
  (length (fst (src_denote s)) + length (src_segs s) + 2 <= fuel)%nat ->
  snd (src_denote s) = E -> E <> EOF ->
  split_dot (fst (src_denote s)) = None -> (length (fst (src_denote s)) < lim)%nat ->
  fst (pr_read_until fuel lim (pr_init s) []) = Err E.
Proof.
  intros Hw Hl Hf HE Hne Hnd Hlen.
  rewrite (pr_read_until_denote s lim fuel Hw Hl Hf). unfold sentence_denote.
  rewrite Hnd. replace (Nat.leb lim (length (fst (src_denote s)))) with false.
  - rewrite HE. destruct E; try reflexivity. contradiction.
  - symmetry. apply PeanoNat.Nat.leb_gt. exact Hlen.
Qed.
