(* AcceptScProofs.v — C09: every message a spec-following sender can produce is accepted (signcryption).
   The GENERAL specification encoders of coq/spec/Spec.v are run through the implementation
   model's receivers.  Statements marked (TARGET) are used verbatim by props/. *)
From Coq Require Import List NArith ZArith Bool Lia ZifyN ZifyNat ZifyBool.
From Coq.Strings Require Import Byte.
From SP Require Import Bytes Params Msgpack Crypto Errors Nonce Packets Chunker Rand Sign Verify Encrypt Decrypt Signcrypt Spec
     MsgpackProofs ChunkerProofs SignProofs EncryptProofs SigncryptProofs AcceptDefs.
Import ListNotations.
Open Scope N_scope.

Section Acc.
Variable c : crypto.
Hypothesis Hc : crypto_ok c.

(* ---- signcryption ---- *)
Definition sc_params_ok (p : S_sc) : Prop :=
  (0 <= sc_minor p <= 127)%Z /\ length (sc_pkey p) = 32%nat /\ sc_rcpts p <> [] /\
  extras_ok (sc_extra_hdr p) /\ extras_ok (sc_extra_rcpt p) /\ extras_ok (sc_extra_pkt p) /\
  len (mp_encode (S_sc_header_list c p)) < 4294967296 /\
  S_chunks_ok 2 (sc_chunks p) /\
  N.of_nat (length (sc_chunks p)) < 18446744073709551614 /\
  (forall s, sc_signer p = Some s -> all_zero (ed_pub c s) = false).

Definition S_sc_kids (p : S_sc) : list bytes :=
  map (fun e => match e with MArr (MBin k :: _) => k | _ => [] end) (S_mapi (S_sc_entry c p) 0 (sc_rcpts p)).

Definition S_identifier_collision (p : S_sc) (sk : bytes) (i : nat) : Prop :=
  exists j kid, j <> i /\ nth_error (S_sc_kids p) j = Some kid /\
    firstn 32 (hmac512 c S_box_id_key (S_box_zeros_last32 c sk (dh_pub c (sc_eph p)) S_nonce_derived ++
                                       (S_nonce_recip_prefix ++ be64 (N.of_nat j)))) = kid.


(* ================= auxiliary lemmas ================= *)

(* ---------- msgpack well-formedness helpers ---------- *)

Lemma ac_wf_all_Forall (l : list mval) : wf_all l <-> Forall wf l.
Proof.
  induction l as [|x t IH].
  - split; intro; [constructor|exact I].
  - change (wf_all (x :: t)) with (wf x /\ wf_all t). split.
    + intros [a b]. constructor; [exact a|apply IH; exact b].
    + intro H. inversion H; subst. split; [assumption|apply IH; assumption].
Qed.

Lemma ac_wf_arr (l : list mval) : wf (MArr l) <-> N.of_nat (length l) < 4294967296 /\ Forall wf l.
Proof.
  change (wf (MArr l)) with (N.of_nat (length l) < 4294967296 /\ wf_all l).
  pose proof (ac_wf_all_Forall l) as H. tauto.
Qed.

Lemma ac_ints_arr (l : list mval) : sc_ints_ok (MArr l) <-> Forall sc_ints_ok l.
Proof.
  change (sc_ints_ok (MArr l)) with (sc_ints_all sc_ints_ok l).
  induction l as [|x t IH].
  - split; intro; [constructor|exact I].
  - change (sc_ints_all sc_ints_ok (x :: t)) with (sc_ints_ok x /\ sc_ints_all sc_ints_ok t). split.
    + intros [a b]. constructor; [exact a|apply IH; exact b].
    + intro H. inversion H; subst. split; [assumption|apply IH; assumption].
Qed.

Lemma ac_wf_ints (v : mval) : wf v -> sc_ints_ok v.
Proof.
  induction v as [|b|z|b|b|l IH] using mval_ind'; intro H.
  - exact I.
  - exact I.
  - exact H.
  - exact I.
  - exact I.
  - apply ac_ints_arr. apply ac_wf_arr in H. destruct H as [_ H].
    induction IH as [|x t Hx Ht IHt]; [constructor|].
    inversion H; subst. constructor; [apply Hx; assumption|apply IHt; assumption].
Qed.

Lemma ac_Forall_wf_ints (l : list mval) : Forall wf l -> Forall sc_ints_ok l.
Proof. intro H. induction H; constructor; [apply ac_wf_ints; assumption|assumption]. Qed.

Lemma ac_as_int (z : Z) : (z <= 9223372036854775807)%Z -> as_int (MInt z) = DOk z.
Proof. intro H. unfold as_int. destruct (Z.leb_spec z 9223372036854775807); [reflexivity|lia]. Qed.

(* ---------- bridging equalities: specification literals = implementation constants ---------- *)

Lemma sp_mapi_eq {A B} (f : N -> A -> B) : forall l s, S_mapi f s l = mapi_from f s l.
Proof. induction l as [|x l IH]; intro s; cbn [S_mapi mapi_from]; [reflexivity|]. rewrite IH. reflexivity. Qed.

Lemma sp_derived_eq (a b : bytes) : S_box_zeros_last32 c a b S_nonce_derived = derived_box_key c a b.
Proof. reflexivity. Qed.

Lemma sp_recip_nonce_eq (i : N) : S_nonce_recip_prefix ++ be64 i = nonce_payload_key_box_v2 i.
Proof. reflexivity. Qed.

Lemma sp_box_id_eq (d : bytes) (i : N) :
  firstn 32 (hmac512 c S_box_id_key (d ++ (S_nonce_recip_prefix ++ be64 i))) = box_key_identifier c d i.
Proof. reflexivity. Qed.

Lemma sp_sym_key_eq (e k : bytes) : firstn 32 (hmac512 c S_sym_key_key (e ++ k)) = derived_sym_key c e k.
Proof. reflexivity. Qed.

Lemma sp_sender_nonce_eq : S_nonce_sender_key = nonce_sender_key_sbox.
Proof. reflexivity. Qed.

Lemma sp_hash_nonce_eq (hh : bytes) (f : bool) (n : N) : S_hash_nonce hh f n = nonce_chunk_signcryption hh f n.
Proof. reflexivity. Qed.

Lemma sp_sig_input_eq (hh nonce : bytes) (f : bool) (chunk : bytes) :
  S_encrypted_prefix ++ hh ++ nonce ++ S_final_byte f ++ sha512 c chunk = signcrypt_sig_input c hh nonce f chunk.
Proof. reflexivity. Qed.

Lemma sp_format_eq : S_format_name = format_name.
Proof. reflexivity. Qed.

Lemma sp_mode_eq : S_mode_signcryption = mt_signcryption.
Proof. reflexivity. Qed.

Lemma sp_max_chunk_eq : S_max_chunk = enc_block_size.
Proof. unfold S_max_chunk, enc_block_size, SP.gen.Consts.c_saltpack_encryptionBlockSize. reflexivity. Qed.

(* ---------- the recipient list as the receiver views it ---------- *)

Definition sp_kid (p : S_sc) (i : N) (r : S_sc_rcpt) : bytes :=
  match r with
  | S_BoxR pk => box_key_identifier c (derived_box_key c (sc_eph p) pk) i
  | S_SymR key ident => ident
  end.

Definition sp_dkey (p : S_sc) (r : S_sc_rcpt) : bytes :=
  match r with
  | S_BoxR pk => derived_box_key c (sc_eph p) pk
  | S_SymR key ident => derived_sym_key c (dh_pub c (sc_eph p)) key
  end.

Definition sp_box (p : S_sc) (i : N) (r : S_sc_rcpt) : bytes :=
  sb_seal c (sp_dkey p r) (nonce_payload_key_box_v2 i) (sc_pkey p).

Lemma sp_entry_eq p i r :
  S_sc_entry c p i r = MArr (MBin (sp_kid p i r) :: MBin (sp_box p i r) :: sc_extra_rcpt p).
Proof. destruct r; reflexivity. Qed.

Definition sp_rcvs (p : S_sc) (s : N) (rs : list S_sc_rcpt) : list (bytes * bytes) :=
  S_mapi (fun i r => (sp_kid p i r, sp_box p i r)) s rs.

Lemma sp_rcvs_cons p s r rs :
  sp_rcvs p s (r :: rs) = (sp_kid p s r, sp_box p s r) :: sp_rcvs p (s + 1) rs.
Proof. reflexivity. Qed.

Lemma sp_view_receiver (k b : bytes) (ex : list mval) :
  view_receiver (MArr (MBin k :: MBin b :: ex)) = DOk (k, b).
Proof. reflexivity. Qed.

Lemma sp_view_receivers p : forall rs s,
  view_list view_receiver (S_mapi (S_sc_entry c p) s rs) = DOk (sp_rcvs p s rs).
Proof.
  induction rs as [|r rs IH]; intro s; [reflexivity|].
  rewrite sp_rcvs_cons. cbn [S_mapi view_list].
  rewrite sp_entry_eq, sp_view_receiver. cbn [dbind]. rewrite IH. reflexivity.
Qed.

Definition sp_kid_of (e : mval) : bytes := match e with MArr (MBin k :: _) => k | _ => [] end.

Lemma sp_kids_eq p : forall rs s,
  map sp_kid_of (S_mapi (S_sc_entry c p) s rs) = S_mapi (sp_kid p) s rs.
Proof.
  induction rs as [|r rs IH]; intro s; [reflexivity|].
  cbn [S_mapi map]. rewrite IH, sp_entry_eq. reflexivity.
Qed.

Lemma sp_sc_kids_eq p : S_sc_kids p = S_mapi (sp_kid p) 0 (sc_rcpts p).
Proof. unfold S_sc_kids. apply (sp_kids_eq p). Qed.

(* ---------- the header ---------- *)

Definition sp_hdr (p : S_sc) : bytes := mp_encode (S_sc_header_list c p).

Lemma sp_header_list_eq p :
  S_sc_header_list c p =
  MArr (MStr S_format_name :: MArr [MInt 2; MInt (sc_minor p)] :: MInt S_mode_signcryption ::
        MBin (dh_pub c (sc_eph p)) :: MBin (sc_sbox c (sc_signer p) (sc_pkey p)) ::
        MArr (S_mapi (S_sc_entry c p) 0 (sc_rcpts p)) :: sc_extra_hdr p).
Proof. reflexivity. Qed.

Lemma sp_entries_ints p : extras_ok (sc_extra_rcpt p) -> forall rs s,
  Forall sc_ints_ok (S_mapi (S_sc_entry c p) s rs).
Proof.
  intros [Hex _]. induction rs as [|r rs IH]; intro s; cbn [S_mapi]; constructor; [|apply IH].
  rewrite sp_entry_eq. apply ac_ints_arr.
  constructor; [exact I|]. constructor; [exact I|]. apply ac_Forall_wf_ints. exact Hex.
Qed.

Lemma sp_header_wf p : sc_params_ok p -> wf (S_sc_header_list c p).
Proof.
  intros (Hmin & _ & _ & [Hh _] & Hr & _ & Hfit & _).
  apply sc_wf_of_fits; [|exact Hfit].
  rewrite sp_header_list_eq. apply ac_ints_arr.
  constructor; [exact I|].
  constructor. { apply ac_ints_arr. constructor; [cbn; lia|]. constructor; [cbn; clear - Hmin; lia|constructor]. }
  constructor; [unfold sc_ints_ok, S_mode_signcryption; clear; lia|].
  constructor; [exact I|]. constructor; [exact I|].
  constructor. { apply ac_ints_arr. apply sp_entries_ints. exact Hr. }
  apply ac_Forall_wf_ints. exact Hh.
Qed.

Lemma sp_view_header fmt maj mi typ eph sbox rl rcvs ex :
  as_int (MInt maj) = DOk maj -> as_int (MInt mi) = DOk mi -> as_int (MInt typ) = DOk typ ->
  view_list view_receiver rl = DOk rcvs ->
  view_enc_header (MArr (MStr fmt :: MArr [MInt maj; MInt mi] :: MInt typ :: MBin eph :: MBin sbox ::
                         MArr rl :: ex)) = DOk (mkHeader fmt (mkV maj mi) typ eph sbox rcvs).
Proof.
  intros H1 H2 H3 H4. unfold view_enc_header, view_version.
  cbn [as_array dbind field nth as_string as_bytes].
  rewrite H1. cbn [dbind]. rewrite H2. cbn [dbind]. rewrite H3. cbn [dbind].
  rewrite H4. reflexivity.
Qed.

Lemma sp_decode_header p : sc_params_ok p ->
  decode_header view_enc_header (sp_hdr p) =
  Ok (mkHeader S_format_name (mkV 2 (sc_minor p)) S_mode_signcryption (dh_pub c (sc_eph p))
        (sc_sbox c (sc_signer p) (sc_pkey p)) (sp_rcvs p 0 (sc_rcpts p))).
Proof.
  intro Hp. pose proof (sp_header_wf p Hp) as Hwf.
  destruct Hp as (Hmin & _).
  unfold decode_header, sp_hdr.
  rewrite <- (app_nil_r (mp_encode _)), mp_read_encode by exact Hwf.
  rewrite sp_header_list_eq.
  rewrite (sp_view_header _ _ _ _ _ _ _ (sp_rcvs p 0 (sc_rcpts p))).
  - reflexivity.
  - reflexivity.
  - apply ac_as_int. clear - Hmin. lia.
  - reflexivity.
  - apply sp_view_receivers.
Qed.

Lemma sp_process_header_eq kr signers rv mi eph_sk sbox rcvs :
  process_sc_header c kr signers rv
    (mkHeader S_format_name (mkV 2 mi) S_mode_signcryption (dh_pub c eph_sk) sbox rcvs) =
  bind (sc_find c kr rv (dh_pub c eph_sk) rcvs) (sc_finish c signers sbox).
Proof.
  unfold process_sc_header, validate_sc_header, sc_find, sc_finish.
  cbn [h_format h_type h_version h_a h_b h_rcvs vmaj].
  change (bytes_eqb S_format_name format_name) with true.
  change (S_mode_signcryption =? mt_signcryption)%Z with true.
  change (2 =? vmaj v2)%Z with true. cbn [negb bind].
  rewrite (ok_dh_pub_len c Hc), Nat.eqb_refl. cbn [negb].
  destruct (sc_try_box c _ rcvs 0) as [[k|]|e]; reflexivity.
Qed.

(* ---------- finding the payload key ---------- *)

Lemma sp_try_box_found p sk : length (sc_pkey p) = 32%nat ->
  forall rs s i, nth_error rs i = Some (S_BoxR (dh_pub c sk)) ->
  sc_try_box c [derived_box_key c sk (dh_pub c (sc_eph p))] (sp_rcvs p s rs) s = Ok (Some (sc_pkey p)) \/
  exists j kid, (j < i)%nat /\ nth_error (S_mapi (sp_kid p) s rs) j = Some kid /\
     box_key_identifier c (derived_box_key c sk (dh_pub c (sc_eph p))) (s + N.of_nat j) = kid.
Proof.
  intro Hpk. induction rs as [|r rs IH]; intros s i Hi.
  - destruct i; discriminate.
  - rewrite sp_rcvs_cons, sc_try_box1_cons.
    destruct i as [|i].
    + cbn [nth_error] in Hi. apply sc_Some_inj in Hi. subst r. left.
      unfold sp_box. cbn [sp_kid sp_dkey].
      rewrite <- (sc_derived_comm c Hc sk (sc_eph p)).
      rewrite sc_bytes_eqb_refl, (ok_sb c Hc), (sc_sym_key_ok (sc_pkey p) Hpk). reflexivity.
    + cbn [nth_error] in Hi.
      destruct (bytes_eqb (box_key_identifier c (derived_box_key c sk (dh_pub c (sc_eph p))) s)
                  (sp_kid p s r)) eqn:E.
      * right. exists 0%nat, (sp_kid p s r).
        split; [lia|]. split; [reflexivity|].
        apply sc_bytes_eqb_true in E. rewrite N.add_0_r. exact E.
      * destruct (IH (s + 1) i Hi) as [H|(j & kid & Hj & Hn & Hk)]; [left; exact H|].
        right. exists (S j), kid. split; [lia|]. split; [exact Hn|].
        replace (s + N.of_nat (S j)) with (s + 1 + N.of_nat j) by lia. exact Hk.
Qed.

(* ---------- the packets ---------- *)

Definition sp_packet (p : S_sc) (hh : bytes) (n : N) (chunk : bytes) (final : bool) : mval :=
  MArr (MBin (sb_seal c (sc_pkey p) (nonce_chunk_signcryption hh final n)
                (sc_sig c (sc_signer p) hh (nonce_chunk_signcryption hh final n) final chunk ++ chunk))
        :: MBool final :: sc_extra_pkt p).

Lemma sp_packets_cons p hh n (chunk : bytes) final t :
  S_sc_packets c p hh n ((chunk, final) :: t) =
  mp_encode (sp_packet p hh n chunk final) ++ S_sc_packets c p hh (n + 1) t.
Proof. reflexivity. Qed.

Lemma sp_packets_nil p hh n : S_sc_packets c p hh n [] = [].
Proof. reflexivity. Qed.

Lemma sp_flag_last_one (x : bytes) : S_flag_last [x] = [(x, true)].
Proof. reflexivity. Qed.

Lemma sp_flag_last_cons2 (x y : bytes) t : S_flag_last (x :: y :: t) = (x, false) :: S_flag_last (y :: t).
Proof. reflexivity. Qed.

Lemma sp_flag_last_length : forall l : list bytes, length (S_flag_last l) = length l.
Proof.
  induction l as [|x t IH]; [reflexivity|].
  destruct t as [|y t]; [reflexivity|].
  rewrite sp_flag_last_cons2. cbn [length] in *. rewrite IH. reflexivity.
Qed.

Lemma sp_packets_length p hh : forall ps n, (length ps <= length (S_sc_packets c p hh n ps))%nat.
Proof.
  induction ps as [|[chunk final] t IH]; intro n; [cbn [length]; lia|].
  rewrite sp_packets_cons, app_length. cbn [length].
  pose proof (mp_encode_len (sp_packet p hh n chunk final)). specialize (IH (n + 1)). lia.
Qed.

Lemma sp_packet_step p hh n (chunk : bytes) final (rest : bytes) f (acc : list bytes) :
  extras_ok (sc_extra_pkt p) ->
  block_number_ok n = true -> (length chunk <= enc_block_size)%nat ->
  check_chunk_state v2 (length chunk) n final = Ok tt ->
  sc_open_loop c (S f) (sc_pkey p) (option_map (ed_pub c) (sc_signer p)) hh n
    (mp_encode (sp_packet p hh n chunk final) ++ rest) acc =
  if final then mkOut (rev_append (chunk :: acc) []) (assert_end_of_stream rest)
  else sc_open_loop c f (sc_pkey p) (option_map (ed_pub c) (sc_signer p)) hh (n + 1) rest (chunk :: acc).
Proof.
  intros [Hexw Hexl] Hbn Hlen Hcs.
  unfold sp_packet.
  set (nonce := nonce_chunk_signcryption hh final n).
  pose proof (sc_sig_length c Hc (sc_signer p) hh nonce final chunk) as Hsig.
  set (sig := sc_sig c (sc_signer p) hh nonce final chunk) in *.
  rewrite sc_open_loop_S.
  unfold read_packet. rewrite mp_read_encode.
  2:{ apply ac_wf_arr. split; [cbn [length]; clear - Hexl; lia|].
      constructor; [|constructor; [exact I|exact Hexw]].
      cbn [wf]. unfold len. rewrite (ok_sb_len c Hc), app_length, Hsig.
      pose proof sc_ebs_eq. clear - Hlen H. lia. }
  unfold view_signcrypt_block.
  cbn [as_array dbind field nth as_bytes as_bool of_dres].
  rewrite Hbn. cbn [negb]. fold nonce.
  rewrite (ok_sb c Hc).
  destruct (Nat.ltb_spec (length (sig ++ chunk)) 64) as [Hl|_].
  { rewrite app_length, Hsig in Hl. clear - Hl. lia. }
  rewrite (sc_firstn_exact 64 sig chunk Hsig), (sc_skipn_exact 64 sig chunk Hsig).
  assert (Hv : match option_map (ed_pub c) (sc_signer p) with
               | None => true
               | Some pk' => ed_verify c pk' (signcrypt_sig_input c hh nonce final chunk) sig
               end = true).
  { unfold sig. destruct (sc_signer p) as [sk|]; cbn [option_map]; [|reflexivity].
    cbn [sc_sig]. apply (ok_ed c Hc). }
  rewrite Hv. cbn [negb]. rewrite Hcs. reflexivity.
Qed.

Lemma sp_check_nonempty (k : nat) (n : N) (final : bool) : (1 <= k)%nat ->
  check_chunk_state v2 k n final = Ok tt.
Proof.
  intro H. unfold check_chunk_state.
  change (vmaj v2 =? 1)%Z with false. change (vmaj v2 =? 2)%Z with true. cbv iota.
  destruct (Nat.eqb_spec k 0) as [E|_]; [lia|]. reflexivity.
Qed.

Lemma sp_check_empty_only : check_chunk_state v2 0 0 true = Ok tt.
Proof. reflexivity. Qed.

Lemma sp_bn_ok (n : N) : n < 18446744073709551615 -> block_number_ok n = true.
Proof. intro H. unfold block_number_ok. apply N.ltb_lt. exact H. Qed.

Lemma sp_loop p hh : extras_ok (sc_extra_pkt p) ->
  forall (chunks : list bytes) n (acc : list bytes) fuel,
  chunks <> [] ->
  Forall (fun ch : bytes => (1 <= length ch <= S_max_chunk)%nat) chunks ->
  n + N.of_nat (length chunks) < 18446744073709551616 ->
  (length chunks <= fuel)%nat ->
  sc_open_loop c fuel (sc_pkey p) (option_map (ed_pub c) (sc_signer p)) hh n
    (S_sc_packets c p hh n (S_flag_last chunks)) acc = mkOut (rev acc ++ chunks) EOF.
Proof.
  intro Hex. induction chunks as [|x t IH]; intros n acc fuel Hne Hall Hn Hf; [contradiction|].
  inversion Hall as [|? ? Hx Ht]; subst.
  rewrite sp_max_chunk_eq in Hx.
  destruct fuel as [|f]; [cbn [length] in Hf; lia|].
  destruct t as [|y t].
  - rewrite sp_flag_last_one, sp_packets_cons, sp_packets_nil.
    rewrite sp_packet_step.
    + rewrite sc_assert_end_nil, rev_append_rev. cbn [rev]. rewrite app_nil_r. reflexivity.
    + exact Hex.
    + apply sp_bn_ok. cbn [length] in Hn. lia.
    + lia.
    + apply sp_check_nonempty. lia.
  - rewrite sp_flag_last_cons2, sp_packets_cons.
    rewrite sp_packet_step.
    + rewrite (IH (n + 1) (x :: acc) f).
      * cbn [rev]. rewrite <- app_assoc. reflexivity.
      * discriminate.
      * exact Ht.
      * cbn [length] in *. lia.
      * cbn [length] in *. lia.
    + exact Hex.
    + apply sp_bn_ok. cbn [length] in Hn. lia.
    + lia.
    + apply sp_check_nonempty. lia.
Qed.

(* the whole body for any admissible chunking *)
Lemma sp_loop_chunks p hh : extras_ok (sc_extra_pkt p) ->
  S_chunks_ok 2 (sc_chunks p) ->
  N.of_nat (length (sc_chunks p)) < 18446744073709551614 ->
  let body := S_sc_packets c p hh 0 (S_flag_last (sc_chunks p)) in
  sc_open_loop c (S (length body)) (sc_pkey p) (option_map (ed_pub c) (sc_signer p)) hh 0 body [] =
    mkOut (sc_chunks p) EOF.
Proof.
  intros Hex Hck Hn body.
  assert (Hlen : (length (sc_chunks p) <= length body)%nat).
  { unfold body. rewrite <- (sp_flag_last_length (sc_chunks p)). apply sp_packets_length. }
  unfold S_chunks_ok in Hck. change (2 =? 1)%Z with false in Hck. cbv iota in Hck.
  destruct Hck as [E|[Hne Hall]].
  - unfold body. rewrite E. rewrite sp_flag_last_one, sp_packets_cons, sp_packets_nil.
    rewrite sp_packet_step.
    + rewrite sc_assert_end_nil. reflexivity.
    + exact Hex.
    + reflexivity.
    + cbn [length]. lia.
    + exact sp_check_empty_only.
  - subst body.
    rewrite (sp_loop p hh Hex (sc_chunks p) 0 [] _ Hne Hall).
    + reflexivity.
    + lia.
    + lia.
Qed.

Lemma sp_encode_eq p :
  S_encode_signcryption c p =
  mp_encode (MBin (sp_hdr p)) ++ S_sc_packets c p (sha512 c (sp_hdr p)) 0 (S_flag_last (sc_chunks p)).
Proof. reflexivity. Qed.

Lemma sp_open_stream_eq p kr signers rv : sc_params_ok p ->
  signcrypt_open_stream c kr signers rv (S_encode_signcryption c p) =
  bind (bind (sc_find c kr rv (dh_pub c (sc_eph p)) (sp_rcvs p 0 (sc_rcpts p)))
             (sc_finish c signers (sc_sbox c (sc_signer p) (sc_pkey p))))
    (fun ks => Ok (snd ks,
       sc_open_loop c (S (length (S_sc_packets c p (sha512 c (sp_hdr p)) 0 (S_flag_last (sc_chunks p)))))
         (fst ks) (snd ks) (sha512 c (sp_hdr p)) 0
         (S_sc_packets c p (sha512 c (sp_hdr p)) 0 (S_flag_last (sc_chunks p))) [])).
Proof.
  intro Hp. rewrite sp_encode_eq. unfold signcrypt_open_stream.
  rewrite sc_read_header_bytes.
  2:{ destruct Hp as (_ & _ & _ & _ & _ & _ & Hfit & _). exact Hfit. }
  cbn [bind fst snd].
  rewrite sp_decode_header by exact Hp. cbn [bind].
  rewrite sp_process_header_eq. reflexivity.
Qed.

(* (TARGET) box-key recipient at any position *)
Lemma spec_signcryption_accepted_box (p : S_sc) (sk : bytes) (i : nat) (signers : sigring) (rv : resolver) :
  sc_params_ok p ->
  nth_error (sc_rcpts p) i = Some (S_BoxR (dh_pub c sk)) ->
  (forall s, sc_signer p = Some s -> In (ed_pub c s) signers) ->
  let kr := mkRing [(sk, dh_pub c sk)] None in
  (exists chunks,
      signcrypt_open_stream c kr signers rv (S_encode_signcryption c p) =
        Ok (option_map (ed_pub c) (sc_signer p), mkOut chunks EOF) /\
      concat chunks = concat (sc_chunks p) /\
      signcrypt_open_all c kr signers rv (S_encode_signcryption c p) =
        Ok (option_map (ed_pub c) (sc_signer p), concat (sc_chunks p)))
  \/ S_identifier_collision p sk i.
Proof.
  intros Hp Hi Hsg kr.
  pose proof Hp as (Hmin & Hpk & Hne & Hxh & Hxr & Hxp & Hfit & Hck & Hcn & Hz).
  destruct (sp_try_box_found p sk Hpk (sc_rcpts p) 0 i Hi) as [Hfound|(j & kid & Hj & Hn & Hk)].
  - left. exists (sc_chunks p).
    assert (Hs : signcrypt_open_stream c kr signers rv (S_encode_signcryption c p) =
                 Ok (option_map (ed_pub c) (sc_signer p), mkOut (sc_chunks p) EOF)).
    { rewrite sp_open_stream_eq by exact Hp.
      unfold sc_find, kr. cbn [kr_keys map fst]. rewrite Hfound. cbn [bind].
      rewrite (sc_sender_ok c Hc (sc_signer p) signers (sc_pkey p)).
      2:{ intros s Hs. split; [apply Hsg; exact Hs|apply Hz; exact Hs]. }
      cbn [bind fst snd].
      rewrite (sp_loop_chunks p (sha512 c (sp_hdr p)) Hxp Hck Hcn). reflexivity. }
    split; [exact Hs|]. split; [reflexivity|].
    unfold signcrypt_open_all. rewrite Hs. reflexivity.
  - right. exists j, kid. split; [lia|]. split.
    + rewrite sp_sc_kids_eq. exact Hn.
    + rewrite N.add_0_l in Hk. exact Hk.
Qed.

End Acc.
